import ZarrsModel.Model.Shard
/- helper lemmas for C15 (CRC-32C linearity, Fletcher-32 arithmetic, shard bounds) -/
namespace Zarrs.Codec

/-! ### CRC-32C: the shift register is linear over xor -/

theorem xor_eq_zero_imp {a b : Nat} (h : a ^^^ b = 0) : a = b := by
  have : (a ^^^ b) ^^^ b = b := by rw [h, Nat.zero_xor]
  rwa [Nat.xor_assoc, Nat.xor_self, Nat.xor_zero] at this

theorem xor_ne_self {x d : Nat} (hd : d ≠ 0) : x ^^^ d ≠ x := by
  intro h
  apply hd
  have : x ^^^ (x ^^^ d) = 0 := by rw [h, Nat.xor_self]
  rwa [← Nat.xor_assoc, Nat.xor_self, Nat.zero_xor] at this

theorem shiftStep_xor (a b : Nat) : shiftStep (a ^^^ b) = shiftStep a ^^^ shiftStep b := by
  have hd : (a ^^^ b) / 2 = a / 2 ^^^ b / 2 := by
    have := @Nat.shiftRight_xor_distrib 1 a b
    simpa [Nat.shiftRight_eq_div_pow] using this
  have hm := @Nat.xor_mod_two_eq_one a b
  unfold shiftStep
  by_cases ha : a % 2 = 1 <;> by_cases hb : b % 2 = 1
  · have : ¬ ((a ^^^ b) % 2 = 1) := by rw [hm]; simp [ha, hb]
    rw [if_neg this, if_pos ha, if_pos hb, hd]
    calc a / 2 ^^^ b / 2 = a / 2 ^^^ b / 2 ^^^ (crcPoly ^^^ crcPoly) := by rw [Nat.xor_self, Nat.xor_zero]
      _ = _ := by ac_rfl
  · have : (a ^^^ b) % 2 = 1 := by rw [hm]; simp [ha, hb]
    rw [if_pos this, if_pos ha, if_neg hb, hd]; ac_rfl
  · have : (a ^^^ b) % 2 = 1 := by rw [hm]; simp [ha, hb]
    rw [if_pos this, if_neg ha, if_pos hb, hd]; ac_rfl
  · have : ¬ ((a ^^^ b) % 2 = 1) := by rw [hm]; simp [ha, hb]
    rw [if_neg this, if_neg ha, if_neg hb, hd]

theorem shiftStep_lt {r : Nat} (h : r < 2 ^ 32) : shiftStep r < 2 ^ 32 := by
  unfold shiftStep
  split
  · apply Nat.xor_lt_two_pow
    · omega
    · unfold crcPoly; omega
  · omega

theorem shiftStep_eq_zero {r : Nat} (h : r < 2 ^ 32) (h0 : shiftStep r = 0) : r = 0 := by
  unfold shiftStep at h0
  split at h0
  · have := xor_eq_zero_imp h0
    unfold crcPoly at this; omega
  · omega

theorem shift8_xor (a b : Nat) : shift8 (a ^^^ b) = shift8 a ^^^ shift8 b := by
  simp only [shift8, shiftStep_xor]

theorem shift8_lt {r : Nat} (h : r < 2 ^ 32) : shift8 r < 2 ^ 32 := by
  unfold shift8
  exact shiftStep_lt (shiftStep_lt (shiftStep_lt (shiftStep_lt (shiftStep_lt (shiftStep_lt (shiftStep_lt (shiftStep_lt h)))))))

theorem shift8_eq_zero {r : Nat} (h : r < 2 ^ 32) (h0 : shift8 r = 0) : r = 0 := by
  unfold shift8 at h0
  have h1 := shiftStep_lt h
  have h2 := shiftStep_lt h1
  have h3 := shiftStep_lt h2
  have h4 := shiftStep_lt h3
  have h5 := shiftStep_lt h4
  have h6 := shiftStep_lt h5
  have h7 := shiftStep_lt h6
  exact shiftStep_eq_zero h (shiftStep_eq_zero h1 (shiftStep_eq_zero h2 (shiftStep_eq_zero h3
    (shiftStep_eq_zero h4 (shiftStep_eq_zero h5 (shiftStep_eq_zero h6 (shiftStep_eq_zero h7 h0)))))))

/-- the difference of two registers evolves by `shift8`, independently of the absorbed byte -/
theorem crcUpd_xor_crcUpd (a b x : Nat) : crcUpd a x ^^^ crcUpd b x = shift8 (a ^^^ b) := by
  unfold crcUpd
  rw [← shift8_xor]
  congr 1
  calc a ^^^ x ^^^ (b ^^^ x) = a ^^^ b ^^^ (x ^^^ x) := by ac_rfl
    _ = a ^^^ b := by rw [Nat.xor_self, Nat.xor_zero]

theorem crcUpd_xor_byte (r x d : Nat) : crcUpd r x ^^^ crcUpd r (x ^^^ d) = shift8 d := by
  unfold crcUpd
  rw [← shift8_xor]
  congr 1
  calc r ^^^ x ^^^ (r ^^^ (x ^^^ d)) = (r ^^^ r) ^^^ (x ^^^ x) ^^^ d := by ac_rfl
    _ = d := by simp [Nat.xor_self]

/-- registers whose difference is a non-zero 32-bit value stay so after absorbing the same bytes -/
theorem crcReg_diff (bs : Bytes) : ∀ a b : Nat, a ^^^ b < 2 ^ 32 → a ^^^ b ≠ 0 →
    crcReg a bs ^^^ crcReg b bs < 2 ^ 32 ∧ crcReg a bs ^^^ crcReg b bs ≠ 0 := by
  induction bs with
  | nil => intro a b h1 h2; exact ⟨h1, h2⟩
  | cons x xs ih =>
    intro a b h1 h2
    simp only [crcReg, List.foldl_cons]
    apply ih
    · rw [crcUpd_xor_crcUpd]; exact shift8_lt h1
    · rw [crcUpd_xor_crcUpd]; exact fun h => h2 (shift8_eq_zero h1 h)

theorem crcReg_append (i : Nat) (a b : Bytes) : crcReg i (a ++ b) = crcReg (crcReg i a) b := by
  simp [crcReg, List.foldl_append]

theorem crcReg_set_diff (i : Nat) (m : Bytes) (k d : Nat) (hk : k < m.length) (hd0 : 0 < d) (hd : d < 256) :
    crcReg i m ^^^ crcReg i (m.set k (m.getD k 0 ^^^ d)) < 2 ^ 32 ∧
    crcReg i m ^^^ crcReg i (m.set k (m.getD k 0 ^^^ d)) ≠ 0 := by
  have hm : m = m.take k ++ m[k] :: m.drop (k + 1) := by simp
  have hs : m.set k (m.getD k 0 ^^^ d) = m.take k ++ (m[k] ^^^ d) :: m.drop (k + 1) := by
    rw [List.set_eq_take_append_cons_drop, if_pos hk]
    simp [List.getD_eq_getElem?_getD, hk]
  have e1 : crcReg i m = crcReg (crcUpd (crcReg i (m.take k)) m[k]) (m.drop (k + 1)) := by
    have := congrArg (crcReg i) hm
    rw [this, crcReg_append]; rfl
  have e2 : crcReg i (m.set k (m.getD k 0 ^^^ d)) =
      crcReg (crcUpd (crcReg i (m.take k)) (m[k] ^^^ d)) (m.drop (k + 1)) := by
    rw [hs, crcReg_append]; rfl
  rw [e1, e2]
  have hne : ∀ e : Fin 256, e.val ≠ 0 → shift8 e.val ≠ 0 := by decide +kernel
  have h8 : shift8 d < 2 ^ 32 := shift8_lt (by omega)
  have h0 : shift8 d ≠ 0 := hne ⟨d, hd⟩ (by simp; omega)
  exact crcReg_diff _ _ _ (by rw [crcUpd_xor_byte]; exact h8) (by rw [crcUpd_xor_byte]; exact h0)

/-! ### generic checksum codec facts -/

theorem le32_length (n : Nat) : (le32 n).length = 4 := rfl

theorem checksumDec_append_bad (sum : Bytes → Nat) (q c : Bytes) (hc : c.length = 4)
    (hne : le32 (sum q) ≠ c) : checksumDec sum true (q ++ c) = .error .invalidChecksum := by
  unfold checksumDec
  have hl : (q ++ c).length - 4 = q.length := by simp [hc]
  have h4 : ¬ (q ++ c).length < 4 := by simp [hc]
  rw [if_neg h4]
  simp only [hl, List.take_left', List.drop_left', Bool.true_and]
  simp [hne]

theorem set_xor_ne (l : Bytes) (j d : Nat) (hj : j < l.length) (hd : d ≠ 0) :
    l.set j (l.getD j 0 ^^^ d) ≠ l := by
  intro h
  have := congrArg (fun l => l.getD j 0) h
  simp [List.getD_eq_getElem?_getD, hj] at this
  exact xor_ne_self hd this

theorem getD_append_left (p c : Bytes) (k : Nat) (hk : k < p.length) : (p ++ c).getD k 0 = p.getD k 0 := by
  simp [List.getD_eq_getElem?_getD, List.getElem?_append_left hk]

theorem getD_append_right (p c : Bytes) (k : Nat) (hk : p.length ≤ k) :
    (p ++ c).getD k 0 = c.getD (k - p.length) 0 := by
  simp [List.getD_eq_getElem?_getD, List.getElem?_append_right hk]

/-- altering a byte of the stored checksum is detected -/
theorem checksumDec_alter_checksum (sum : Bytes → Nat) (p : Bytes) (k d : Nat) (hk1 : p.length ≤ k)
    (hk : k < p.length + 4) (hd : d ≠ 0) :
    checksumDec sum true ((checksumEnc sum p).set k ((checksumEnc sum p).getD k 0 ^^^ d)) =
      .error .invalidChecksum := by
  unfold checksumEnc
  rw [List.set_append, if_neg (by omega), getD_append_right _ _ _ hk1]
  apply checksumDec_append_bad
  · simp [le32_length]
  · exact fun h => set_xor_ne _ _ _ (by simp [le32_length]; omega) hd h.symm

/-- altering a payload byte is detected as soon as the checksum (as stored) changes -/
theorem checksumDec_alter_payload (sum : Bytes → Nat) (p : Bytes) (k d : Nat) (hk : k < p.length)
    (hne : le32 (sum (p.set k (p.getD k 0 ^^^ d))) ≠ le32 (sum p)) :
    checksumDec sum true ((checksumEnc sum p).set k ((checksumEnc sum p).getD k 0 ^^^ d)) =
      .error .invalidChecksum := by
  unfold checksumEnc
  rw [List.set_append, if_pos hk, getD_append_left _ _ _ hk]
  exact checksumDec_append_bad _ _ _ (le32_length _) hne

theorem le32_inj_mod {a b : Nat} (h : le32 a = le32 b) : a % 2 ^ 32 = b % 2 ^ 32 := by
  simp only [le32, List.cons.injEq, and_true] at h
  omega

theorem le32_inj_mod16 {a b : Nat} (h : le32 a = le32 b) : a % 65536 = b % 65536 := by
  simp only [le32, List.cons.injEq, and_true] at h
  omega

theorem crc32c_set_ne (m : Bytes) (k d : Nat) (hk : k < m.length) (hd0 : 0 < d) (hd : d < 256) :
    le32 (crc32c (m.set k (m.getD k 0 ^^^ d))) ≠ le32 (crc32c m) := by
  intro h
  have h1 := le32_inj_mod h
  obtain ⟨hlt, hne⟩ := crcReg_set_diff 0xFFFFFFFF m k d hk hd0 hd
  apply hne
  have h2 : (crc32c m ^^^ crc32c (m.set k (m.getD k 0 ^^^ d))) % 2 ^ 32 = 0 := by
    rw [Nat.xor_mod_two_pow, h1, Nat.xor_self]
  have h3 : crc32c m ^^^ crc32c (m.set k (m.getD k 0 ^^^ d)) =
      crcReg 0xFFFFFFFF m ^^^ crcReg 0xFFFFFFFF (m.set k (m.getD k 0 ^^^ d)) := by
    unfold crc32c
    generalize crcReg 0xFFFFFFFF m = a
    generalize crcReg 0xFFFFFFFF (m.set k (m.getD k 0 ^^^ d)) = b
    calc a ^^^ 0xFFFFFFFF ^^^ (b ^^^ 0xFFFFFFFF) = a ^^^ b ^^^ (0xFFFFFFFF ^^^ 0xFFFFFFFF) := by ac_rfl
      _ = a ^^^ b := by rw [Nat.xor_self, Nat.xor_zero]
  rw [h3] at h2
  rwa [Nat.mod_eq_of_lt hlt] at h2

/-- CRC-32C: every single-byte alteration of `payload ++ checksum` is rejected -/
theorem crc32c_detects (p : Bytes) (k d : Nat) (hk : k < p.length + 4) (hd0 : 0 < d) (hd : d < 256) :
    crc32cDec true ((crc32cEnc p).set k ((crc32cEnc p).getD k 0 ^^^ d)) = .error .invalidChecksum := by
  unfold crc32cDec crc32cEnc
  by_cases h : k < p.length
  · exact checksumDec_alter_payload _ _ _ _ h (crc32c_set_ne p k d h hd0 hd)
  · exact checksumDec_alter_checksum _ _ _ _ (by omega) hk (by omega)

/-! ### Fletcher-32 arithmetic -/

theorem fold16_mod (x : Nat) : fold16 x % 65535 = x % 65535 := by unfold fold16; omega

theorem fold16_le {x : Nat} (h : x < 4294967296) : fold16 x ≤ 131070 := by unfold fold16; omega

theorem fold16_le' {x : Nat} (h : x ≤ 131070) : fold16 x ≤ 65535 := by unfold fold16; omega

theorem fletcherBlock_fst (ws : List Nat) : ∀ s : Nat × Nat, (fletcherBlock s ws).1 = s.1 + ws.sum := by
  induction ws with
  | nil => intro s; simp [fletcherBlock]
  | cons w ws ih => intro s; obtain ⟨s1, s2⟩ := s; simp only [fletcherBlock, ih, List.sum_cons]; omega

/-- weighted byte sum: even positions weigh 256, odd positions 1 -/
def wsum : Bytes → Nat
  | a :: b :: rest => a * 256 + b + wsum rest
  | [a] => a * 256
  | [] => 0

theorem chunksOf_flatten {α} (n : Nat) (hn : 0 < n) : ∀ (fuel : Nat) (l : List α), l.length < fuel →
    (chunksOf n fuel l).flatten = l := by
  intro fuel
  induction fuel with
  | zero => intro l h; omega
  | succ f ih =>
    intro l h
    unfold chunksOf
    split
    · rename_i he; simp at he; simp [he]
    · rename_i he
      have : l ≠ [] := by simpa using he
      have hl : 0 < l.length := List.length_pos_iff.mpr this
      rw [List.flatten_cons, ih _ (by simp; omega), List.take_append_drop]

theorem chunksOf_len {α} (n : Nat) : ∀ (fuel : Nat) (l : List α), ∀ c ∈ chunksOf n fuel l, c.length ≤ n ∧ ∀ x ∈ c, x ∈ l := by
  intro fuel
  induction fuel with
  | zero => intro l c h; simp [chunksOf] at h
  | succ f ih =>
    intro l c h
    unfold chunksOf at h
    split at h
    · simp at h
    · rcases List.mem_cons.mp h with h | h
      · subst h; exact ⟨by simp [List.length_take]; omega, fun x hx => List.mem_of_mem_take hx⟩
      · obtain ⟨h1, h2⟩ := ih _ c h
        exact ⟨h1, fun x hx => List.mem_of_mem_drop (h2 x hx)⟩

theorem sum_le_of_bound (l : List Nat) (B : Nat) (h : ∀ x ∈ l, x ≤ B) : l.sum ≤ l.length * B := by
  induction l with
  | nil => simp
  | cons a l ih =>
    have h1 := h a (by simp)
    have h2 := ih (fun x hx => h x (by simp [hx]))
    simp only [List.sum_cons, List.length_cons, Nat.add_mul]; omega

theorem words_bound : ∀ (b : Bytes), (∀ x ∈ b, x < 256) → ∀ w ∈ words b, w ≤ 65535
  | a :: b :: rest, h, w, hw => by
    simp only [words, List.mem_cons] at hw
    rcases hw with hw | hw
    · have := h a (by simp); have := h b (by simp); omega
    · exact words_bound rest (fun x hx => h x (by simp [hx])) w hw
  | [_], _, w, hw => by simp [words] at hw
  | [], _, w, hw => by simp [words] at hw

/-- the block loop: the first running sum stays small and is the word sum modulo 65535 -/
theorem fletcher_loop (blks : List (List Nat)) (hb : ∀ c ∈ blks, c.length ≤ 360 ∧ ∀ w ∈ c, w ≤ 65535) :
    ∀ acc : Nat × Nat, acc.1 ≤ 131070 →
    let r := blks.foldl (fun (acc : Nat × Nat) blk =>
      let (a, b) := fletcherBlock acc blk; (fold16 a, fold16 b)) acc
    r.1 ≤ 131070 ∧ r.1 % 65535 = (acc.1 + blks.flatten.sum) % 65535 := by
  induction blks with
  | nil => intro acc h; simp [h]
  | cons c cs ih =>
    intro acc h
    simp only [List.foldl_cons]
    have hc := hb c (by simp)
    have hs := sum_le_of_bound c 65535 hc.2
    have hs' : c.sum ≤ 360 * 65535 := Nat.le_trans hs (Nat.mul_le_mul_right _ hc.1)
    have key : (fletcherBlock acc c).1 = acc.1 + c.sum := fletcherBlock_fst c acc
    have h1 : fold16 (fletcherBlock acc c).1 ≤ 131070 := fold16_le (by rw [key]; omega)
    have := ih (fun c' hc' => hb c' (by simp [hc'])) (fold16 (fletcherBlock acc c).1, fold16 (fletcherBlock acc c).2) h1
    simp only at this
    refine ⟨this.1, ?_⟩
    rw [this.2, List.flatten_cons, List.sum_append]
    have := fold16_mod (fletcherBlock acc c).1
    generalize fold16 (fletcherBlock acc c).1 = F at this ⊢
    rw [key] at this
    omega

theorem wsum_eq : ∀ (b : Bytes),
    (words b).sum + (if b.length % 2 = 1 then b.getLastD 0 * 256 else 0) = wsum b
  | a :: b :: rest => by
    have ih := wsum_eq rest
    have hl : (a :: b :: rest).length % 2 = rest.length % 2 := by simp only [List.length_cons]; omega
    simp only [words, wsum, List.sum_cons, hl]
    cases rest with
    | nil => simp [words, wsum]
    | cons c cs =>
      have : (a :: b :: c :: cs).getLastD 0 = (c :: cs).getLastD 0 := by simp [List.getLastD]
      rw [this]; omega
  | [a] => by simp [words, wsum]
  | [] => by simp [words, wsum]

theorem fletcher32_spec (data : Bytes) (h : ∀ x ∈ data, x < 256) :
    ∃ s1 s2, fletcher32 data = ((s2 * 65536) % 4294967296) ||| s1 ∧ s1 ≤ 65535 ∧
      s1 % 65535 = wsum data % 65535 := by
  have hb : ∀ c ∈ chunksOf 360 ((words data).length + 1) (words data), c.length ≤ 360 ∧ ∀ w ∈ c, w ≤ 65535 := by
    intro c hc
    obtain ⟨h1, h2⟩ := chunksOf_len 360 _ _ c hc
    exact ⟨h1, fun w hw => words_bound data h w (h2 w hw)⟩
  have hloop := fletcher_loop _ hb (0, 0) (by simp)
  simp only [chunksOf_flatten 360 (by omega) _ _ (Nat.lt_succ_self _), Nat.zero_add] at hloop
  have hw := wsum_eq data
  unfold fletcher32
  simp only []
  generalize List.foldl _ (0, 0) (chunksOf 360 ((words data).length + 1) (words data)) = r at hloop ⊢
  obtain ⟨r1, r2⟩ := r
  simp only at hloop
  obtain ⟨hr1, hr2⟩ := hloop
  by_cases ho : data.length % 2 = 1
  · simp only [ho, if_true] at hw ⊢
    have hlast : data.getLastD 0 < 256 := by
      cases data with
      | nil => simp at ho
      | cons a t =>
        have : (a :: t).getLastD 0 = (a :: t).getLast (by simp) := by simp [List.getLastD]
        rw [this]; exact h _ (List.getLast_mem _)
    refine ⟨_, _, rfl, ?_, ?_⟩
    · exact fold16_le' (fold16_le (by omega))
    · rw [fold16_mod, fold16_mod]; omega
  · simp only [ho, if_false] at hw ⊢
    refine ⟨_, _, rfl, fold16_le' hr1, ?_⟩
    rw [fold16_mod]; omega

theorem fletcher32_mod (data : Bytes) (h : ∀ x ∈ data, x < 256) :
    fletcher32 data % 65536 ≤ 65535 ∧ (fletcher32 data % 65536) % 65535 = wsum data % 65535 := by
  obtain ⟨s1, s2, he, hs, hm⟩ := fletcher32_spec data h
  have : fletcher32 data % 65536 = s1 := by
    rw [he]
    have := @Nat.or_mod_two_pow (s2 * 65536 % 4294967296) s1 16
    simp only [show (2:Nat) ^ 16 = 65536 from rfl] at this
    rw [this, show s2 * 65536 % 4294967296 % 65536 = 0 by omega, Nat.zero_or, Nat.mod_eq_of_lt (by omega)]
  rw [this]; exact ⟨hs, hm⟩

def wt (k : Nat) : Nat := if k % 2 = 0 then 256 else 1

theorem wsum_set : ∀ (b : Bytes) (k y : Nat), k < b.length →
    wsum (b.set k y) + b.getD k 0 * wt k = wsum b + y * wt k
  | a :: b :: rest, 0, y, _ => by simp [wsum, wt]; omega
  | a :: b :: rest, 1, y, _ => by simp [wsum, wt]; omega
  | a :: b :: rest, k + 2, y, hk => by
    have ih := wsum_set rest k y (by simpa using hk)
    have hw : wt (k + 2) = wt k := by unfold wt; congr 1; simp
    simp only [List.set_cons_succ, wsum, List.getD_cons_succ, hw]
    omega
  | [a], 0, y, _ => by simp [wsum, wt]; omega
  | [a], k + 1, y, hk => by simp at hk
  | [], k, y, hk => by simp at hk

theorem fletcher32_set_ne (m : Bytes) (hm : ∀ x ∈ m, x < 256) (k d : Nat) (hk : k < m.length)
    (hd0 : 0 < d) (hd : d < 256) :
    le32 (fletcher32 (m.set k (m.getD k 0 ^^^ d))) ≠ le32 (fletcher32 m) := by
  intro h
  have h16 := le32_inj_mod16 h
  have hx : m.getD k 0 < 256 := by
    simp only [List.getD_eq_getElem?_getD, List.getElem?_eq_getElem hk, Option.getD_some]
    exact hm _ (List.getElem_mem hk)
  have hy : m.getD k 0 ^^^ d < 256 := @Nat.xor_lt_two_pow _ _ 8 hx hd
  have hne : m.getD k 0 ^^^ d ≠ m.getD k 0 := xor_ne_self (by omega)
  have hm' : ∀ x ∈ m.set k (m.getD k 0 ^^^ d), x < 256 := by
    intro x hx'
    rcases List.mem_or_eq_of_mem_set hx' with h | h
    · exact hm x h
    · omega
  have h1 := (fletcher32_mod m hm).2
  have h2 := (fletcher32_mod _ hm').2
  rw [h16] at h2
  have hs := wsum_set m k (m.getD k 0 ^^^ d) hk
  have hwt : wt k = 256 ∨ wt k = 1 := by unfold wt; split <;> simp
  generalize m.getD k 0 ^^^ d = y at *
  generalize m.getD k 0 = x at *
  rcases hwt with hwt | hwt <;> rw [hwt] at hs <;> omega

/-- Fletcher-32: every single-byte alteration of `payload ++ checksum` is rejected -/
theorem fletcher32_detects (p : Bytes) (hp : ∀ x ∈ p, x < 256) (k d : Nat) (hk : k < p.length + 4)
    (hd0 : 0 < d) (hd : d < 256) :
    fletcher32Dec true ((fletcher32Enc p).set k ((fletcher32Enc p).getD k 0 ^^^ d)) =
      .error .invalidChecksum := by
  unfold fletcher32Dec fletcher32Enc
  by_cases h : k < p.length
  · exact checksumDec_alter_payload _ _ _ _ h (fletcher32_set_ne p hp k d h hd0 hd)
  · exact checksumDec_alter_checksum _ _ _ _ (by omega) hk (by omega)

/-! ### shard index facts -/

theorem mapM_except_ok {α β ε} (f : α → Except ε β) : ∀ (l : List α) (r : List β), l.mapM f = .ok r →
    r.length = l.length ∧ ∀ i (h1 : i < l.length) (h2 : i < r.length), f l[i] = .ok r[i]
  | [], r, h => by
    simp only [List.mapM_nil, pure, Except.pure, Except.ok.injEq] at h
    subst h; simp
  | a :: l, r, h => by
    rw [List.mapM_cons] at h
    cases hfa : f a with
    | error e => simp [hfa, bind, Except.bind] at h
    | ok b =>
      cases hl : l.mapM f with
      | error e => simp [hfa, hl, bind, Except.bind] at h
      | ok bs =>
        simp only [hfa, hl, bind, Except.bind, pure, Except.pure, Except.ok.injEq] at h
        subst h
        obtain ⟨ih1, ih2⟩ := mapM_except_ok f l bs hl
        refine ⟨by simp [ih1], ?_⟩
        intro i h1 h2
        cases i with
        | zero => simpa using hfa
        | succ i => simpa using ih2 i (by simpa using h1) (by simpa using h2)

theorem le64_length (n : Nat) : (le64 n).length = 8 := by simp [le64]

theorem w64_length (big : Bool) (n : Nat) : (Shard.w64 big n).length = 8 := by
  unfold Shard.w64 be64; split <;> simp [le64_length]

theorem rawIndex_length (big : Bool) (entries : List (Nat × Nat)) :
    (entries.flatMap (fun e => Shard.w64 big e.1 ++ Shard.w64 big e.2)).length = 16 * entries.length := by
  induction entries with
  | nil => simp
  | cons e es ih => simp only [List.flatMap_cons, List.length_append, ih, w64_length, List.length_cons]; omega

end Zarrs.Codec
