import ZarrsModel.Model.Shard
/- helper lemmas for C15 (CRC-32C linearity, Fletcher-32 arithmetic, shard bounds) -/
namespace Zarrs.Codec

end Zarrs.Codec
