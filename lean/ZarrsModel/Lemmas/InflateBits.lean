import ZarrsModel.Model.Inflate
/-
Bit-level lemmas for the DEFLATE model: reading back the bits of bytes, stored blocks.
-/
namespace Zarrs.Inflate

theorem takeBits_bitsN (n m a : Nat) (r : Bits) :
    takeBits (n + m) ((List.range n).map (fun i => a / 2 ^ i % 2 == 1) ++ r) =
      (takeBits m r).map (fun (v, r') => (a % 2 ^ n + 2 ^ n * v, r')) := by
  induction n generalizing a with
  | zero =>
    simp [Nat.mod_one]
  | succ n ih =>
    have e : n + 1 + m = (n + m) + 1 := by omega
    rw [e, List.range_succ_eq_map]
    simp only [List.map_cons, List.map_map, List.cons_append, takeBits]
    have hf : ((fun i => a / 2 ^ i % 2 == 1) ∘ Nat.succ) = (fun i => (a / 2) / 2 ^ i % 2 == 1) := by
      funext i
      simp only [Function.comp, Nat.succ_eq_add_one, Nat.pow_succ']
      rw [Nat.div_div_eq_div_mul]
    rw [hf, ih]
    cases takeBits m r with
    | none => rfl
    | some p =>
      simp only [Option.map_some, Option.some.injEq, Prod.mk.injEq, and_true]
      have h1 : a % 2 ^ (n + 1) = a % 2 + 2 * (a / 2 % 2 ^ n) := by
        rw [Nat.pow_succ', Nat.mod_mul]
      rw [h1, Nat.pow_succ']
      simp only [Nat.pow_zero, Nat.div_one]
      have h2 : (if (a % 2 == 1) = true then 1 else 0) = a % 2 := by
        have := Nat.mod_two_eq_zero_or_one a
        rcases this with h | h <;> simp [h]
      rw [h2]
      simp only [Nat.mul_add, Nat.mul_assoc, Nat.add_assoc]

theorem takeBits_byte_add (m b : Nat) (r : Bits) (hb : b < 256) :
    takeBits (8 + m) (bitsOfByte b ++ r) = (takeBits m r).map (fun (v, r') => (b + 256 * v, r')) := by
  unfold bitsOfByte
  rw [takeBits_bitsN]
  have : b % 2 ^ 8 = b := Nat.mod_eq_of_lt hb
  rw [this]

theorem takeBits_byte (b : Nat) (r : Bits) (hb : b < 256) :
    takeBits 8 (bitsOfByte b ++ r) = some (b, r) := by
  have := takeBits_byte_add 0 b r hb
  simpa [takeBits] using this

theorem toBits_nil : toBits [] = [] := rfl
theorem toBits_cons (b : Nat) (bs : Bytes) : toBits (b :: bs) = bitsOfByte b ++ toBits bs := by
  simp [toBits]
theorem toBits_append (a b : Bytes) : toBits (a ++ b) = toBits a ++ toBits b := by
  simp [toBits]

theorem bitsOfByte_length (b : Nat) : (bitsOfByte b).length = 8 := by simp [bitsOfByte]

theorem toBits_length (a : Bytes) : (toBits a).length = 8 * a.length := by
  induction a with
  | nil => rfl
  | cons b bs ih => rw [toBits_cons, List.length_append, bitsOfByte_length, ih, List.length_cons]; omega

theorem takeBits16_le16 (n : Nat) (r : Bits) (hn : n < 65536) :
    takeBits 16 (toBits (le16 n) ++ r) = some (n, r) := by
  simp only [le16, toBits_cons, toBits_nil, List.append_nil, List.append_assoc]
  rw [show (16 : Nat) = 8 + 8 from rfl, takeBits_byte_add _ _ _ (Nat.mod_lt _ (by omega)),
    takeBits_byte _ _ (Nat.mod_lt _ (by omega))]
  simp only [Option.map_some, Option.some.injEq, Prod.mk.injEq, and_true]
  omega

theorem takeBytes_toBits (p : Bytes) (r : Bits) (out : Array Nat) (hp : ∀ x ∈ p, x < 256) :
    takeBytes p.length (toBits p ++ r) out = some (r, out ++ p.toArray) := by
  induction p generalizing out with
  | nil => simp [takeBytes, toBits_nil]
  | cons b bs ih =>
    simp only [List.length_cons, takeBytes, toBits_cons, List.append_assoc]
    rw [takeBits_byte _ _ (hp b (by simp))]
    simp only
    rw [ih _ (fun x hx => hp x (by simp [hx]))]
    simp

/-- one stored block -/
def encBlock (last : Bool) (p : Bytes) : Bytes :=
  [if last then 1 else 0] ++ le16 p.length ++ le16 (65535 - p.length) ++ p

theorem encBlock_length (last : Bool) (p : Bytes) : (encBlock last p).length = 5 + p.length := by
  simp [encBlock, le16]; omega

theorem alignBits_five (total : Nat) (x : Bits) (ht : total % 8 = 0) (hx : x.length % 8 = 0) :
    alignBits total (false :: false :: false :: false :: false :: x) = x := by
  unfold alignBits
  have : ((false :: false :: false :: false :: false :: x).length + 8 - total % 8) % 8 = 5 := by
    simp only [List.length_cons]; omega
  rw [this]; rfl

theorem blocks_encBlock (total fuel : Nat) (last : Bool) (p rest : Bytes) (out : Array Nat)
    (ht : total % 8 = 0) (hl : p.length ≤ 65535) (hp : ∀ x ∈ p, x < 256) :
    blocks total (fuel + 1) (toBits (encBlock last p ++ rest)) out =
      if last then some (toBits rest, out ++ p.toArray) else blocks total fuel (toBits rest) (out ++ p.toArray) := by
  have hlen : (toBits (le16 p.length) ++ (toBits (le16 (65535 - p.length)) ++ (toBits p ++ toBits rest))).length % 8 = 0 := by
    simp only [List.length_append, toBits_length]; omega
  have h1 : bitsOfByte 1 = [true, false, false, false, false, false, false, false] := by decide
  have h0 : bitsOfByte 0 = [false, false, false, false, false, false, false, false] := by decide
  have hsum : p.length + (65535 - p.length) = 65535 := by omega
  cases last
  · simp only [encBlock, Bool.false_eq_true, if_false, List.append_assoc, toBits_append, toBits_cons,
      h0, List.cons_append, List.nil_append]
    rw [blocks]
    simp only [takeBits, Option.map_some, Nat.mul_zero, Nat.add_zero, Bool.false_eq_true, if_false]
    simp only [beq_self_eq_true, if_true]
    rw [alignBits_five _ _ ht hlen, takeBits16_le16 _ _ (by omega)]
    simp only
    rw [takeBits16_le16 _ _ (by omega)]
    simp only [hsum, bne_self_eq_false, Bool.false_eq_true, if_false]
    rw [takeBytes_toBits _ _ _ hp]
    simp
  · simp only [encBlock, if_true, List.append_assoc, toBits_append, toBits_cons,
      h1, List.cons_append, List.nil_append]
    rw [blocks]
    simp only [takeBits, Option.map_some, Nat.mul_zero, Nat.add_zero, Bool.false_eq_true, if_false, if_true]
    simp only [beq_self_eq_true, if_true]
    rw [alignBits_five _ _ ht hlen, takeBits16_le16 _ _ (by omega)]
    simp only
    rw [takeBits16_le16 _ _ (by omega)]
    simp only [hsum, bne_self_eq_false, Bool.false_eq_true, if_false]
    rw [takeBytes_toBits _ _ _ hp]

end Zarrs.Inflate
