import ZarrsModel.Model.ShardPE
import ZarrsModel.Props.C03
import ZarrsModel.Props.C08
/- helper lemmas for C05, part 1: byte strings, positional assignments, `mapM`, `liveEnd`, `wellFormed` -/
namespace Zarrs.ShardPE
open Zarrs Zarrs.Codec Zarrs.Shard

/-- decidable equality of `Except` values (for the concrete witness theorems) -/
instance exceptDecEq {ε α} [DecidableEq ε] [DecidableEq α] : DecidableEq (Except ε α)
  | .ok a, .ok b => if h : a = b then isTrue (by rw [h]) else isFalse (by intro h'; cases h'; exact h rfl)
  | .error a, .error b => if h : a = b then isTrue (by rw [h]) else isFalse (by intro h'; cases h'; exact h rfl)
  | .ok _, .error _ => isFalse (by intro h; cases h)
  | .error _, .ok _ => isFalse (by intro h; cases h)

/-! ### byte strings -/

theorem specSetPartial_nil (x : Bytes) : specSetPartial [] 0 x = x := by
  simp [specSetPartial, overwrite, zeroExtend]

theorem specSetPartial_of_le (old b : Bytes) (off : Nat) (h : off ≤ old.length) :
    specSetPartial old off b = old.take off ++ b ++ old.drop (off + b.length) := by
  unfold specSetPartial overwrite zeroExtend
  rw [List.take_append_of_le_length h, List.drop_append]
  simp

theorem slice_self (a : Bytes) (s : Nat) : slice a s s = [] := by simp [slice]

theorem slice_app_left (a b : Bytes) (s t : Nat) (h : t ≤ a.length) : slice (a ++ b) s t = slice a s t := by
  unfold slice
  by_cases hs : s ≤ t
  · rw [List.drop_append_of_le_length (by omega), List.take_append_of_le_length (by simp; omega)]
  · simp [show t - s = 0 by omega]

theorem slice_app_right (a b : Bytes) (s t : Nat) (h : a.length ≤ s) :
    slice (a ++ b) s t = slice b (s - a.length) (t - a.length) := by
  unfold slice
  rw [List.drop_append, List.drop_eq_nil_of_le h, List.nil_append]
  congr 1; omega

theorem slice_take (a : Bytes) (n s t : Nat) (h : t ≤ n) : slice (a.take n) s t = slice a s t := by
  unfold slice
  rw [List.drop_take, List.take_take]
  congr 1; omega

theorem slice_drop (a : Bytes) (n s t : Nat) : slice (a.drop n) s t = slice a (n + s) (n + t) := by
  unfold slice
  rw [List.drop_drop]
  congr 1; omega


/-! ### `setAll`: a list of positional assignments -/

def setAll {α} (l : List α) (ps : List (Nat × α)) : List α := ps.foldl (fun l p => l.set p.1 p.2) l

@[simp] theorem setAll_nil {α} (l : List α) : setAll l [] = l := rfl
@[simp] theorem setAll_cons {α} (l : List α) (p : Nat × α) (ps : List (Nat × α)) :
    setAll l (p :: ps) = setAll (l.set p.1 p.2) ps := rfl

theorem setAll_length {α} (l : List α) (ps : List (Nat × α)) : (setAll l ps).length = l.length := by
  induction ps generalizing l with
  | nil => rfl
  | cons p ps ih => rw [setAll_cons, ih, List.length_set]

theorem setAll_not_mem {α} (l : List α) (ps : List (Nat × α)) (j : Nat) (h : j ∉ ps.map (·.1)) :
    (setAll l ps)[j]? = l[j]? := by
  induction ps generalizing l with
  | nil => rfl
  | cons p ps ih =>
    simp only [List.map_cons, List.mem_cons, not_or] at h
    rw [setAll_cons, ih _ h.2, List.getElem?_set_ne (fun e => h.1 e.symm)]

theorem setAll_mem {α} (l : List α) (ps : List (Nat × α)) (hn : (ps.map (·.1)).Nodup) (i : Nat) (a : α)
    (hm : (i, a) ∈ ps) (hi : i < l.length) : (setAll l ps)[i]? = some a := by
  induction ps generalizing l with
  | nil => simp at hm
  | cons p ps ih =>
    simp only [List.map_cons, List.nodup_cons] at hn
    rw [setAll_cons]
    rcases List.mem_cons.mp hm with rfl | hm'
    · rw [setAll_not_mem _ _ _ hn.1]
      simp [hi]
    · exact ih _ hn.2 hm' (by rw [List.length_set]; exact hi)

/-! ### `mapM` in `Except`, position by position -/

theorem mapM_ok_iff {α β ε} (f : α → Except ε β) (l : List α) (xs : List β) :
    l.mapM f = .ok xs ↔ l.length = xs.length ∧ ∀ (i : Nat) (a : α), l[i]? = some a → ∃ b, xs[i]? = some b ∧ f a = .ok b := by
  induction l generalizing xs with
  | nil =>
    rw [List.mapM_nil]
    constructor
    · intro h
      cases h
      simp
    · intro ⟨h, _⟩
      have : xs = [] := List.length_eq_zero_iff.mp h.symm
      subst this; rfl
  | cons a l ih =>
    rw [List.mapM_cons]
    constructor
    · intro h
      cases hfa : f a with
      | error e => rw [hfa] at h; cases h
      | ok b =>
        cases hl : l.mapM f with
        | error e => rw [hfa, hl] at h; cases h
        | ok bs =>
          rw [hfa, hl] at h
          cases h
          obtain ⟨h1, h2⟩ := (ih bs).mp hl
          refine ⟨by simp [h1], ?_⟩
          intro i a' hi
          cases i with
          | zero => simp at hi; subst hi; exact ⟨b, by simp, hfa⟩
          | succ i => simp at hi; simpa using h2 i a' hi
    · intro ⟨h1, h2⟩
      cases xs with
      | nil => simp at h1
      | cons b bs =>
        obtain ⟨b', hb', hfa⟩ := h2 0 a (by simp)
        simp at hb'; subst hb'
        have hl : l.mapM f = .ok bs := (ih bs).mpr ⟨by simpa using h1, fun i a' hi => by
          simpa using h2 (i + 1) a' (by simpa using hi)⟩
        rw [hfa, hl]; rfl

/-! ### `liveEnd` -/

def liveStep (acc : Nat) (e : Nat × Nat) : Nat := if isLive e then max acc (e.1 + e.2) else acc

theorem liveFold_le_iff (l : List (Nat × Nat)) (acc M : Nat) :
    l.foldl liveStep acc ≤ M ↔ acc ≤ M ∧ ∀ e ∈ l, isLive e = true → e.1 + e.2 ≤ M := by
  induction l generalizing acc with
  | nil => simp
  | cons e l ih =>
    rw [List.foldl_cons, ih]
    unfold liveStep
    by_cases he : isLive e = true
    · simp only [he, if_true, List.mem_cons, forall_eq_or_imp]
      constructor
      · intro ⟨h1, h2⟩; exact ⟨by omega, fun _ => by omega, h2⟩
      · intro ⟨h1, h2, h3⟩; exact ⟨by have := h2 trivial; omega, h3⟩
    · simp only [he, List.mem_cons, forall_eq_or_imp]
      constructor
      · intro ⟨h1, h2⟩; exact ⟨h1, fun h => absurd h (by simp), h2⟩
      · intro ⟨h1, _, h3⟩; exact ⟨h1, h3⟩

theorem liveFold_attained (l : List (Nat × Nat)) (acc : Nat) :
    l.foldl liveStep acc = acc ∨ ∃ e ∈ l, isLive e = true ∧ e.1 + e.2 = l.foldl liveStep acc := by
  induction l generalizing acc with
  | nil => left; rfl
  | cons e l ih =>
    rw [List.foldl_cons]
    rcases ih (liveStep acc e) with h | ⟨e', he', hl, hv⟩
    · rw [h]
      unfold liveStep
      by_cases he : isLive e = true
      · simp only [he, if_true]
        by_cases hm : acc ≤ e.1 + e.2
        · right; exact ⟨e, by simp, he, by omega⟩
        · left; omega
      · left; simp [he]
    · right; exact ⟨e', by simp [he'], hl, hv⟩

theorem liveEnd_def (l : List (Nat × Nat)) : liveEnd l = l.foldl liveStep 0 := rfl

theorem liveEnd_le_iff (l : List (Nat × Nat)) (M : Nat) :
    liveEnd l ≤ M ↔ ∀ e ∈ l, isLive e = true → e.1 + e.2 ≤ M := by
  rw [liveEnd_def, liveFold_le_iff]; simp

theorem le_liveEnd (l : List (Nat × Nat)) (e : Nat × Nat) (he : e ∈ l) (hl : isLive e = true) :
    e.1 + e.2 ≤ liveEnd l := (liveEnd_le_iff l _).mp (Nat.le_refl _) e he hl

theorem liveEnd_attained (l : List (Nat × Nat)) (h : 0 < liveEnd l) :
    ∃ e ∈ l, isLive e = true ∧ e.1 + e.2 = liveEnd l := by
  rcases liveFold_attained l 0 with h0 | h0
  · rw [liveEnd_def] at h; omega
  · exact h0

theorem liveEnd_eq (l : List (Nat × Nat)) (M : Nat) (hle : ∀ e ∈ l, isLive e = true → e.1 + e.2 ≤ M)
    (hge : M = 0 ∨ ∃ e ∈ l, isLive e = true ∧ e.1 + e.2 = M) : liveEnd l = M := by
  have h1 := (liveEnd_le_iff l M).mpr hle
  rcases hge with h | ⟨e, he, hl, hv⟩
  · omega
  · have := le_liveEnd l e he hl; omega

theorem not_isLive_iff (e : Nat × Nat) : isLive e = false ↔ e = (sentinel, sentinel) := by
  obtain ⟨a, b⟩ := e
  simp [isLive]


/-! ### `wellFormed` as a proposition -/

def Rel (a b : Nat × Nat) : Prop := a.1 + a.2 ≤ b.1 ∨ b.1 + b.2 ≤ a.1 ∨ a.2 = 0 ∨ b.2 = 0

theorem Rel.symm {a b : Nat × Nat} (h : Rel a b) : Rel b a := by
  unfold Rel at *; omega

def WF (c : Cfg) (len : Nat) (entries : List (Nat × Nat)) : Prop :=
  (∀ e ∈ entries, isLive e = true →
    e.1 + e.2 ≤ len ∧ (e.1 + e.2 ≤ (indexRegion c len).1 ∨ (indexRegion c len).2 ≤ e.1)) ∧
  (∀ (i j : Nat) (a b : Nat × Nat), i ≠ j → entries[i]? = some a → entries[j]? = some b →
    isLive a = true → isLive b = true → Rel a b)

theorem pairwise_sym_iff {α} (R : α → α → Prop) (hs : ∀ a b, R a b → R b a) (L : List α) :
    L.Pairwise R ↔ ∀ (i j : Nat) (a b : α), i ≠ j → L[i]? = some a → L[j]? = some b → R a b := by
  rw [List.pairwise_iff_getElem]
  constructor
  · intro h i j a b hij hi hj
    obtain ⟨hi', rfl⟩ := List.getElem?_eq_some_iff.mp hi
    obtain ⟨hj', rfl⟩ := List.getElem?_eq_some_iff.mp hj
    rcases Nat.lt_or_gt_of_ne hij with h1 | h1
    · exact h i j hi' hj' h1
    · exact hs _ _ (h j i hj' hi' h1)
  · intro h i j hi hj hij
    exact h i j _ _ (by omega) (List.getElem?_eq_getElem hi) (List.getElem?_eq_getElem hj)

theorem wfPairs_iff (live : List (Nat × Nat)) :
    (List.range live.length).all (fun i => (List.range live.length).all (fun j =>
        i == j || (let a := live.getD i (0, 0); let b := live.getD j (0, 0);
          decide (a.1 + a.2 ≤ b.1) || decide (b.1 + b.2 ≤ a.1) || a.2 == 0 || b.2 == 0))) = true ↔
      live.Pairwise Rel := by
  rw [pairwise_sym_iff Rel (fun _ _ => Rel.symm)]
  simp only [List.all_eq_true, List.mem_range, Bool.or_eq_true, beq_iff_eq, decide_eq_true_eq]
  constructor
  · intro h i j a b hij hi hj
    obtain ⟨hi', rfl⟩ := List.getElem?_eq_some_iff.mp hi
    obtain ⟨hj', rfl⟩ := List.getElem?_eq_some_iff.mp hj
    have := h i hi' j hj'
    rw [List.getD_eq_getElem?_getD, List.getD_eq_getElem?_getD, List.getElem?_eq_getElem hi',
      List.getElem?_eq_getElem hj'] at this
    simp only [Option.getD_some] at this
    unfold Rel
    omega
  · intro h i hi j hj
    by_cases hij : i = j
    · exact Or.inl hij
    · right
      have := h i j _ _ hij (List.getElem?_eq_getElem hi) (List.getElem?_eq_getElem hj)
      rw [List.getD_eq_getElem?_getD, List.getD_eq_getElem?_getD, List.getElem?_eq_getElem hi,
        List.getElem?_eq_getElem hj]
      simp only [Option.getD_some]
      unfold Rel at this
      omega

theorem wellFormed_iff (c : Cfg) (v : Bytes) :
    wellFormed c v = true ↔
      ∃ ib entries, indexBytes c v = some ib ∧ decodeIndex c true ib = .ok entries ∧ WF c v.length entries := by
  unfold wellFormed
  cases hib : indexBytes c v with
  | none => simp
  | some ib =>
    cases hd : decodeIndex c true ib with
    | error e => simp [hd]
    | ok entries =>
      simp only [Option.some.injEq, exists_and_left, exists_eq_left', hd, Except.ok.injEq]
      rw [Bool.and_eq_true, wfPairs_iff, List.pairwise_filter,
        pairwise_sym_iff _ (fun a b h hb ha => (h ha hb).symm)]
      unfold WF
      simp only [List.all_eq_true, List.mem_filter, Bool.and_eq_true, Bool.or_eq_true, decide_eq_true_eq, and_imp]

end Zarrs.ShardPE
