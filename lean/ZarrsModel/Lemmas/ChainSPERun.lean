import ZarrsModel.Lemmas.ChainSPEB2B
set_option Elab.async false
/- helper lemmas for C05 on chains, part 10: the plan of the sharding partial encoder run through lawful
bytes-to-bytes codecs is `ShardPE.partialEncode` on a stored shard of the same inner chunks -/
namespace Zarrs.Partial
open Zarrs Zarrs.Codec Zarrs.Shard Zarrs.ShardPE

/-- an index at the start: a well-formed shard cut anywhere behind its index and its live data is the same shard -/
theorem take_good (c : Cfg) (d : Bytes) (chunks : List (Option Bytes)) (hst : St c (some d) chunks)
    (hsm : d.length < sentinel) (hc : c.indexAtEnd = false) (idx : List (Nat × Nat))
    (hcur : currentIndex c (some d) = some idx) (L : Nat) (h1 : liveEnd idx ≤ L) (h2 : indexSize c ≤ L) :
    St c (some (d.take L)) chunks ∧ currentIndex c (some (d.take L)) = some idx := by
  obtain ⟨hdec, hwf, _⟩ : decode c true d = .ok chunks ∧ wellFormed c d = true ∧ tight c d = true := hst
  obtain ⟨idx', hcur', hlen, hold, _, hWF, hiv⟩ := old_facts c d chunks hdec hwf hsm
  rw [hcur] at hcur'
  cases hcur'
  obtain ⟨ib, idx'', hib, hdi, _⟩ := (wellFormed_iff c d).mp hwf
  have : idx'' = idx := by
    unfold currentIndex at hcur
    simp only [hib, hdi] at hcur
    exact Option.some.inj hcur
  subst this
  have hlt : (d.take L).length = min L d.length := List.length_take
  have hib' : indexBytes c (d.take L) = some ib := by
    unfold indexBytes at hib ⊢
    rw [if_neg (by omega)] at hib
    rw [if_neg (by rw [hlt]; omega)]
    simp only [hc, Bool.false_eq_true, if_false, Option.some.injEq] at hib ⊢
    rw [← hib, List.take_take, Nat.min_eq_left h2]
  have hcur2 : currentIndex c (some (d.take L)) = some idx'' := by
    unfold currentIndex
    simp only [hib', hdi]
    rfl
  obtain ⟨hlc, hpt⟩ := (mapM_ok_iff _ _ _).mp hold
  have hle : ∀ e ∈ idx'', isLive e = true → e.1 + e.2 ≤ (d.take L).length := by
    intro e he hl
    have a1 := le_liveEnd idx'' e he hl
    have a2 := (hWF.1 e he hl).1
    rw [hlt]; omega
  have hdec' : decode c true (d.take L) = .ok chunks := by
    rw [decode_def, hib']
    simp only [hdi]
    rw [mapM_ok_iff]
    refine ⟨hlc, ?_⟩
    intro i a ha
    obtain ⟨b, hb, hde⟩ := hpt i a ha
    refine ⟨b, hb, ?_⟩
    cases hl : isLive a with
    | false => rw [decEntry_dead _ _ hl] at hde ⊢; exact hde
    | true =>
      have hm := List.mem_of_getElem? ha
      have a1 := le_liveEnd idx'' a hm hl
      have a2 := (hWF.1 a hm hl).1
      rw [decEntry_live _ _ hl] at hde ⊢
      rw [if_neg (by omega)] at hde
      rw [if_neg (by have := hle a hm hl; omega), slice_take d L _ _ (by omega)]
      exact hde
  have hwf' : wellFormed c (d.take L) = true := by
    rw [wellFormed_iff]
    refine ⟨ib, idx'', hib', hdi, ?_, hWF.2⟩
    intro e he hl
    refine ⟨hle e he hl, ?_⟩
    have := (hWF.1 e he hl).2
    simpa [indexRegion, hc] using this
  refine ⟨⟨hdec', hwf', ?_⟩, hcur2⟩
  unfold tight
  rw [hcur2]
  simp [hc]

/-- a region write list through at least one lawful codec -/
theorem runOp_cons_write (st : BStage) (rest : List BStage) (hb : ∀ s ∈ st :: rest, BOk s) (v1 : Option Bytes)
    (ws : List (Nat × Bytes)) (hws : ws ≠ []) :
    runOp (st :: rest) (v1.map (encB (st :: rest))) (POp.write ws) =
      some (some (encB (st :: rest) (specFold ((v1.getD []).take (endMax ws 0)) ws))) := by
  simp only [runOp]
  rw [bWrite_cons st rest hb v1 ws hws, resizeWrites_eq]

theorem runOp_cons_rewrite (st : BStage) (rest : List BStage) (hb : ∀ s ∈ st :: rest, BOk s) (v1 : Option Bytes)
    (le : Nat) (ib : Bytes) (hle : le ≤ (v1.getD []).length) :
    runOp (st :: rest) (v1.map (encB (st :: rest))) (POp.rewrite le ib) =
      some (some (encB (st :: rest) ((v1.getD []).take le ++ ib))) := by
  simp only [runOp]
  cases v1 with
  | none =>
    simp only [Option.map_none, bStack_absent (st :: rest) _, bWrite_none_one (st :: rest) hb, Option.getD_none,
      List.take_nil, List.nil_append]
  | some d =>
    simp only [Option.getD_some] at hle
    have hv : ∀ r ∈ [ByteRange.fromStart 0 (some le)], r.valid d.length = true := by
      intro r hr
      rw [List.mem_singleton.mp hr]
      simp only [ByteRange.valid, Option.getD_some, Nat.zero_add, decide_eq_true_eq]; exact hle
    simp only [Option.map_some, bStack_ok (st :: rest) hb d _ hv, List.map_cons, List.map_nil,
      bWrite_none_one (st :: rest) hb, Option.getD_some]
    congr 4
    simp [ByteRange.extract, ByteRange.start, ByteRange.stop, slice]

theorem writeAt_eq (v : Option Bytes) (off : Nat) (y : Bytes) :
    writeAt v off y = some (specFold (v.getD []) [(off, y)]) := rfl

theorem writeAt2_eq (v : Option Bytes) (off : Nat) (x y : Bytes) :
    writeAt (writeAt v 0 x) off y = some (specFold (v.getD []) [(0, x), (off, y)]) := rfl

theorem St_facts {c : Cfg} {v0 : Option Bytes} {chunks : List (Option Bytes)} (hst : St c v0 chunks)
    (hsm : (v0.getD []).length < sentinel) :
    ∃ idx, currentIndex c v0 = some idx ∧ idx.length = c.nChunks ∧ liveEnd idx ≤ (v0.getD []).length ∧
      (c.indexAtEnd = true → ∀ d, v0 = some d → d.length = liveEnd idx + indexSize c) := by
  cases v0 with
  | none =>
    refine ⟨_, rfl, by simp, ?_, fun _ d h => by cases h⟩
    rw [liveEnd_replicate_sentinel]; exact Nat.zero_le _
  | some d =>
    obtain ⟨hdec, hwf, htt⟩ : decode c true d = .ok chunks ∧ wellFormed c d = true ∧ tight c d = true := hst
    simp only [Option.getD_some] at hsm
    obtain ⟨idx, hcur, hlen, _, _, hWF, _⟩ := old_facts c d chunks hdec hwf hsm
    refine ⟨idx, hcur, hlen, (liveEnd_le_iff idx _).mpr (fun e he hl => (hWF.1 e he hl).1), ?_⟩
    intro hc d' hd'
    cases hd'
    unfold tight at htt
    rw [hcur] at htt
    simpa [hc] using htt

/-- **the plan run through lawful bytes-to-bytes codecs**: from the encoding of a well-formed tight shard `v0` (or
nothing) the result is the encoding of what `ShardPE.partialEncode` makes of a well-formed tight shard `v0pre` of the
same inner chunks — `v0` itself, or (index at the start, after `resize` cut the value) `v0` cut behind its live data -/
theorem runPlan_lawful (c : Cfg) (b2b : List BStage) (hb : ∀ st ∈ b2b, BOk st) (v0 : Option Bytes)
    (chunks : List (Option Bytes)) (hst : St c v0 chunks) (hsm : (v0.getD []).length < sentinel)
    (idx : List (Nat × Nat)) (us : List (Nat × Option Bytes)) (hcur : currentIndex c v0 = some idx) :
    ∃ v0pre, St c v0pre chunks ∧ (v0pre.getD []).length ≤ (v0.getD []).length ∧
      runPlan b2b (v0.map (encB b2b)) (shardPlan c idx us) =
        (partialEncode c v0pre us).map (fun r => r.map (encB b2b)) := by
  obtain ⟨idx', hcur', hlen, hlive, htight⟩ := St_facts hst hsm
  rw [hcur] at hcur'
  cases hcur'
  cases b2b with
  | nil =>
    refine ⟨v0, hst, Nat.le_refl _, ?_⟩
    have e1 : v0.map (encB []) = v0 := by cases v0 <;> rfl
    rw [e1, runPlan_nil c v0 idx us hcur (fun b hb' => by rw [hb'] at hlive; exact hlive)]
    cases partialEncode c v0 us with
    | none => rfl
    | some r => cases r <;> rfl
  | cons st rest =>
    have hib := fun off => encodeIndex_idxNew_length c idx us off hlen
    cases hd : (idxDead idx us).all (fun e => !isLive e)
    · -- something of the old value survives
      cases hc : c.indexAtEnd
      · -- index at the start: the value may be cut by `resize`
        cases v0 with
        | none =>
          exfalso
          have := absent_dead c us
          unfold currentIndex at hcur
          cases hcur
          rw [this] at hd
          cases hd
        | some d =>
          simp only [Option.getD_some] at hsm hlive
          obtain ⟨hst2, hcur2⟩ := take_good c d chunks hst hsm hc idx hcur
            (max (liveEnd idx) (indexSize c) + (dataNew us).length) (by omega) (by omega)
          refine ⟨some (d.take (max (liveEnd idx) (indexSize c) + (dataNew us).length)), hst2,
            by simp only [Option.getD_some, List.length_take]; omega, ?_⟩
          rw [partialEncodeFixed_eq c _ us idx hcur2, shardPlan_eq, runPlan_eq]
          simp only [hd, hc, Bool.false_eq_true, if_false]
          split
          · rfl
          · rw [runOp_cons_write st rest hb (some d) _ (by simp), writeAt2_eq]
            simp only [Option.map_some, Option.getD_some]
            congr 4
            have : endMax [(0, encodeIndex c (idxNew idx us (max (liveEnd idx) (indexSize c)))),
                (max (liveEnd idx) (indexSize c), dataNew us)] 0 =
                max (liveEnd idx) (indexSize c) + (dataNew us).length := by
              simp only [endMax, List.foldl_cons, List.foldl_nil, hib]
              omega
            rw [this]
      · -- index at the end: the value is tight, `resize` never cuts it
        refine ⟨v0, hst, Nat.le_refl _, ?_⟩
        rw [partialEncodeFixed_eq c v0 us idx hcur, shardPlan_eq, runPlan_eq]
        simp only [hd, hc, Bool.false_eq_true, if_false, if_true]
        split
        · rfl
        · split
          · rename_i hrw
            simp only [Bool.and_eq_true, decide_eq_true_eq] at hrw
            rw [runOp_cons_rewrite st rest hb v0 _ _ (by omega)]
            simp only [writeAt, Option.getD_none, specSetPartial_nil, Option.map_some]
          · rw [runOp_cons_write st rest hb v0 _ (by simp), writeAt_eq]
            simp only [Option.map_some]
            congr 4
            cases v0 with
            | none => simp
            | some d =>
              have := htight hc d rfl
              simp only [Option.getD_some]
              apply List.take_of_length_le
              simp only [endMax, List.foldl_cons, List.foldl_nil, List.length_append, hib]
              omega
    · -- nothing survives: the value is erased first
      refine ⟨v0, hst, Nat.le_refl _, ?_⟩
      rw [partialEncodeFixed_eq c v0 us idx hcur, shardPlan_eq, runPlan_eq]
      have hnone : (none : Option Bytes) = (none : Option Bytes).map (encB (st :: rest)) := rfl
      cases hc : c.indexAtEnd
      · simp only [hd, if_true, Bool.false_eq_true, if_false]
        split
        · rfl
        · rw [hnone, runOp_cons_write st rest hb none _ (by simp), writeAt2_eq]
          simp only [Option.map_some, Option.map_none, Option.getD_none, List.take_nil]
      · simp only [hd, if_true]
        split
        · rfl
        · split
          · rename_i hrw
            simp only [Bool.and_eq_true, decide_eq_true_eq] at hrw
            omega
          · rw [hnone, runOp_cons_write st rest hb none _ (by simp), writeAt_eq]
            simp only [Option.map_some, Option.map_none, Option.getD_none, List.take_nil]

end Zarrs.Partial
