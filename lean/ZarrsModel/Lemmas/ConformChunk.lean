import ZarrsModel.Lemmas.Conform
import ZarrsModel.Lemmas.Inflate
import ZarrsModel.Lemmas.ConformShard
/- helper lemmas for C12, part 2: chunks (`bytes` and shards) and V2 chunks -/
namespace Zarrs.Conform
open Zarrs Zarrs.Codec Zarrs.Inflate

/-- the hypothesis `DeflateOk` of Props/C12, spelled out -/
def DeflOk (l : Layout) : Prop :=
  (∀ bs rest : Bytes, (∀ x ∈ bs, x < 256) → (∀ x ∈ rest, x < 256) → inflate (deflateOf l bs ++ rest) = some (bs, rest)) ∧
  (∀ bs : Bytes, (∀ x ∈ bs, x < 256) → ∀ x ∈ deflateOf l bs, x < 256)

theorem gzOk_of_deflOk (l : Layout) (h : DeflOk l) : GzOk l :=
  ⟨fun b hb => gunzip_gzipWith (deflateOf l) l.gzipExtra h.1 b hb,
   fun b hb => gzipWith_wf (deflateOf l) l.gzipExtra b (h.2 b hb)⟩

/-! ### the array-to-bytes stage, separated from the transposes and the bytes-to-bytes chain -/

def partDec (es : Nat) (fill : Elem) (ishape : Shape) (inner : Inner) : Option Bytes → Option (List Elem)
  | none => some (List.replicate (prod ishape) fill)
  | some b => innerDec es ishape inner b

def shardChunks (l : Layout) (fill : Elem) (eshape ishape : Shape) (inner : Inner) (ys : List Elem) :
    List (Option Bytes) :=
  (boxIndices (gridOf eshape ishape)).map (fun ci =>
    let part := subBox eshape ishape ys ci fill
    if part.all (· == fill) then none else some (innerEnc l ishape inner part))

def a2bDec (es : Nat) (fill : Elem) (eshape : Shape) : A2BK → Bytes → Option (List Elem)
  | .bytes big, body => bytesDecElems big es body
  | .shard ishape inner idxBig idxCrc atEnd, body =>
    let n := prod (gridOf eshape ishape)
    match Shard.decode ⟨n, atEnd, idxBig, idxCrc⟩ true body with
    | .error _ => none
    | .ok chunks =>
      match chunks.mapM (partDec es fill ishape inner) with
      | some parts => some (assemble eshape ishape parts fill)
      | none => none

def a2bEnc (l : Layout) (fill : Elem) (eshape : Shape) : A2BK → List Elem → Bytes
  | .bytes big, ys => bytesEncElems big ys
  | .shard ishape inner idxBig idxCrc atEnd, ys =>
    let grid := gridOf eshape ishape
    let cfg : Shard.Cfg := ⟨prod grid, atEnd, idxBig, idxCrc⟩
    let p := placeInner l (if atEnd then 0 else Shard.indexSize cfg) (shardChunks l fill eshape ishape inner ys)
    if atEnd then p.1 ++ Shard.encodeIndex cfg p.2 else Shard.encodeIndex cfg p.2 ++ p.1

theorem chunkBody_eq (l : Layout) (fill : Elem) (shape : Shape) (c : Chain) (xs : List Elem) :
    chunkBody l fill shape c xs =
      a2bEnc l fill (encodedShape shape c.transposes) c.a2b (dotranspose shape c.transposes xs) := by
  unfold chunkBody a2bEnc
  cases c.a2b <;> rfl

theorem chunkDec_eq (es : Nat) (fill : Elem) (shape : Shape) (c : Chain) (v : Bytes) :
    chunkDec es fill shape c v =
      match b2bDec c.b2b v with
      | none => none
      | some body =>
        match a2bDec es fill (encodedShape shape c.transposes) c.a2b body with
        | some xs => if xs.length == prod (encodedShape shape c.transposes) then
            some (untranspose shape c.transposes xs) else none
        | none => none := by
  unfold chunkDec a2bDec
  cases c.a2b <;> rfl

/-! ### well-formed bytes of a shard -/

theorem le64_wf (n : Nat) : ∀ x ∈ le64 n, x < 256 := by
  intro x hx
  simp only [le64, List.mem_map] at hx
  obtain ⟨i, _, rfl⟩ := hx
  exact Nat.mod_lt _ (by decide)

theorem w64_wf (big : Bool) (n : Nat) : ∀ x ∈ Shard.w64 big n, x < 256 := by
  intro x hx
  unfold Shard.w64 at hx
  cases big with
  | false => exact le64_wf n x (by simpa using hx)
  | true => exact le64_wf n x (by simpa [be64] using hx)

theorem encodeIndex_wf (c : Shard.Cfg) (entries : List (Nat × Nat)) : ∀ x ∈ Shard.encodeIndex c entries, x < 256 := by
  have hraw : ∀ x ∈ entries.flatMap (fun e => Shard.w64 c.indexBig e.1 ++ Shard.w64 c.indexBig e.2), x < 256 := by
    intro x hx
    rw [List.mem_flatMap] at hx
    obtain ⟨e, _, hx⟩ := hx
    rw [List.mem_append] at hx
    rcases hx with hx | hx <;> exact w64_wf _ _ x hx
  intro x hx
  unfold Shard.encodeIndex at hx
  cases hc : c.indexCrc with
  | false =>
    simp only [hc, Bool.false_eq_true, if_false] at hx
    exact hraw x hx
  | true =>
    simp only [hc, if_true, crc32cEnc, checksumEnc, List.mem_append] at hx
    rcases hx with hx | hx
    · exact hraw x hx
    · exact codec_le32_wf _ x hx

theorem mem_of_getD_some {chunks : List (Option Bytes)} {i : Nat} {b : Bytes} (h : chunks.getD i none = some b) :
    some b ∈ chunks := by
  rw [List.getD_eq_getElem?_getD] at h
  cases hq : chunks[i]? with
  | none => simp [hq] at h
  | some v =>
    simp only [hq, Option.getD_some] at h
    subst h
    exact List.mem_of_getElem? hq

theorem placeFrom_wf (pad base : Nat) (chunks : List (Option Bytes))
    (hc : ∀ ch ∈ chunks, ∀ b, ch = some b → ∀ x ∈ b, x < 256) (idxs : List Nat) :
    ∀ (len : Nat), ∀ x ∈ (placeFrom pad base chunks len idxs).1, x < 256 := by
  induction idxs with
  | nil => intro len x hx; simp [placeFrom] at hx
  | cons i is ih =>
    intro len x hx
    cases h : chunks.getD i none with
    | none =>
      rw [placeFrom_cons_none h] at hx
      exact ih len x hx
    | some b =>
      rw [placeFrom_cons_some h] at hx
      simp only [List.mem_append, List.mem_replicate] at hx
      rcases hx with (⟨_, rfl⟩ | hx) | hx
      · decide
      · exact hc _ (mem_of_getD_some h) b rfl x hx
      · exact ih _ x hx

theorem placeInner_wf (l : Layout) (base : Nat) (chunks : List (Option Bytes))
    (hc : ∀ ch ∈ chunks, ∀ b, ch = some b → ∀ x ∈ b, x < 256) :
    ∀ x ∈ (placeInner l base chunks).1, x < 256 := by
  rw [placeInner_eq]
  exact placeFrom_wf _ _ _ hc _ _

/-! ### shards -/

theorem mapM_map_some {α β γ} (F : α → β) (g : β → Option γ) (h : α → γ) : ∀ (l : List α),
    (∀ x ∈ l, g (F x) = some (h x)) → (l.map F).mapM g = some (l.map h)
  | [], _ => rfl
  | a :: l, hall => by
    rw [List.map_cons, List.mapM_cons, hall a (by simp), mapM_map_some F g h l (fun x hx => hall x (by simp [hx]))]
    rfl

theorem subBox_ok (es : Nat) (fill : Elem) (hfl : fill.length = es) (hfw : ∀ y ∈ fill, y < 256) (shape sub : Shape)
    (xs : List Elem) (hxe : ∀ x ∈ xs, x.length = es ∧ ∀ y ∈ x, y < 256) (c : Idx) :
    ∀ x ∈ subBox shape sub xs c fill, x.length = es ∧ ∀ y ∈ x, y < 256 := by
  intro x hx
  rcases subBox_mem shape sub xs c fill x hx with h | rfl
  · exact hxe x h
  · exact ⟨hfl, hfw⟩

theorem shard_roundtrip (l : Layout) (hg : GzOk l) (es : Nat) (hes : 0 < es) (fill : Elem) (hfl : fill.length = es)
    (hfw : ∀ y ∈ fill, y < 256) (eshape ishape : Shape) (hl : ishape.length = eshape.length)
    (hpos : ∀ d ∈ ishape, 0 < d) (inner : Inner) (hio : ∀ o ∈ inner.transposes, validOrder o ishape.length = true)
    (idxBig idxCrc atEnd : Bool) (ys : List Elem) (hy : ys.length = prod eshape)
    (hye : ∀ x ∈ ys, x.length = es ∧ ∀ y ∈ x, y < 256)
    (hsmall : (a2bEnc l fill eshape (.shard ishape inner idxBig idxCrc atEnd) ys).length < Shard.sentinel) :
    a2bDec es fill eshape (.shard ishape inner idxBig idxCrc atEnd)
      (a2bEnc l fill eshape (.shard ishape inner idxBig idxCrc atEnd) ys) = some ys ∧
    ∀ x ∈ a2bEnc l fill eshape (.shard ishape inner idxBig idxCrc atEnd) ys, x < 256 := by
  have hpart : ∀ ci, innerDec es ishape inner (innerEnc l ishape inner (subBox eshape ishape ys ci fill)) =
        some (subBox eshape ishape ys ci fill) ∧
      ∀ y ∈ innerEnc l ishape inner (subBox eshape ishape ys ci fill), y < 256 := fun ci =>
    innerDec_enc l hg es hes ishape inner hio _ (subBox_length _ _ _ _ _)
      (subBox_ok es fill hfl hfw eshape ishape ys hye ci)
  have hn : (shardChunks l fill eshape ishape inner ys).length = prod (gridOf eshape ishape) := by
    simp [shardChunks, boxIndices_length]
  have hcw : ∀ ch ∈ shardChunks l fill eshape ishape inner ys, ∀ b, ch = some b → ∀ x ∈ b, x < 256 := by
    intro ch hch b hb
    simp only [shardChunks, List.mem_map] at hch
    obtain ⟨ci, _, rfl⟩ := hch
    split at hb
    · cases hb
    · cases hb
      exact (hpart ci).2
  -- the body
  have hbody : a2bEnc l fill eshape (.shard ishape inner idxBig idxCrc atEnd) ys =
      (let cfg : Shard.Cfg := ⟨prod (gridOf eshape ishape), atEnd, idxBig, idxCrc⟩
       let p := placeInner l (if atEnd then 0 else Shard.indexSize cfg) (shardChunks l fill eshape ishape inner ys)
       if atEnd then p.1 ++ Shard.encodeIndex cfg p.2 else Shard.encodeIndex cfg p.2 ++ p.1) := rfl
  have hilen := Shard.encodeIndex_length ⟨prod (gridOf eshape ishape), atEnd, idxBig, idxCrc⟩
    (placeInner l (if atEnd then 0 else Shard.indexSize ⟨prod (gridOf eshape ishape), atEnd, idxBig, idxCrc⟩)
      (shardChunks l fill eshape ishape inner ys)).2 (by rw [placeInner_entries_length, hn])
  have hlen : (a2bEnc l fill eshape (.shard ishape inner idxBig idxCrc atEnd) ys).length =
      ((((shardChunks l fill eshape ishape inner ys).filterMap id).map (fun b => b.length + l.pad)).sum) +
        Shard.indexSize ⟨prod (gridOf eshape ishape), atEnd, idxBig, idxCrc⟩ := by
    rw [hbody]
    cases atEnd <;>
      simp only [Bool.false_eq_true, if_false, if_true, List.length_append, placeInner_data_length] at hilen ⊢ <;>
      omega
  have legal : Shard.Legal ⟨prod (gridOf eshape ishape), atEnd, idxBig, idxCrc⟩
      (a2bEnc l fill eshape (.shard ishape inner idxBig idxCrc atEnd) ys)
      (shardChunks l fill eshape ishape inner ys) :=
    placeInner_legal' l ⟨prod (gridOf eshape ishape), atEnd, idxBig, idxCrc⟩ _ hn (by rw [← hlen]; exact hsmall)
  have dec := legal_shard_decodes' _ _ _ legal
  refine ⟨?_, ?_⟩
  · have hm : (shardChunks l fill eshape ishape inner ys).mapM (partDec es fill ishape inner) =
        some ((boxIndices (gridOf eshape ishape)).map (fun ci => subBox eshape ishape ys ci fill)) := by
      unfold shardChunks
      apply mapM_map_some
      intro ci _
      simp only
      split
      · rename_i hall
        simp only [partDec]
        rw [eq_replicate_of_all fill _ hall, subBox_length]
      · exact (hpart ci).1
    rw [a2bDec]
    simp only [dec, hm]
    rw [assemble_subBox eshape ishape hl hpos ys hy fill]
  · intro x hx
    rw [hbody] at hx
    simp only at hx
    split at hx <;> simp only [List.mem_append] at hx <;> rcases hx with hx | hx
    · exact placeInner_wf _ _ _ hcw x hx
    · exact encodeIndex_wf _ _ x hx
    · exact encodeIndex_wf _ _ x hx
    · exact placeInner_wf _ _ _ hcw x hx

/-! ### chunks -/

/-- side conditions of a chain on a chunk of shape `shape` (the part of `Chain.ok` of Props/C12 that the proof uses) -/
def ChainOk (shape : Shape) (c : Chain) : Prop :=
  (∀ o ∈ c.transposes, validOrder o shape.length = true) ∧
  match c.a2b with
  | .bytes _ => True
  | .shard ishape inner _ _ _ =>
    ishape.length = shape.length ∧ (∀ d ∈ ishape, 0 < d) ∧ (∀ o ∈ inner.transposes, validOrder o shape.length = true)

theorem chunk_roundtrip' (l : Layout) (hg : GzOk l) (es : Nat) (hes : 0 < es) (fill : Elem) (hfl : fill.length = es)
    (hfw : ∀ y ∈ fill, y < 256) (shape : Shape) (c : Chain) (hc : ChainOk shape c) (xs : List Elem)
    (hx : xs.length = prod shape) (hxe : ∀ x ∈ xs, x.length = es ∧ ∀ y ∈ x, y < 256)
    (hsmall : (chunkBody l fill shape c xs).length < Shard.sentinel) :
    chunkDec es fill shape c (chunkEnc l es fill shape c xs) = some xs := by
  obtain ⟨t1, t2, t3, t4, t5⟩ := untranspose_dotranspose c.transposes shape xs hc.1 hx
  have hye : ∀ x ∈ dotranspose shape c.transposes xs, x.length = es ∧ ∀ y ∈ x, y < 256 :=
    fun x hx' => hxe x (t5 x hx')
  have key : a2bDec es fill (encodedShape shape c.transposes) c.a2b
        (a2bEnc l fill (encodedShape shape c.transposes) c.a2b (dotranspose shape c.transposes xs)) =
        some (dotranspose shape c.transposes xs) ∧
      ∀ x ∈ a2bEnc l fill (encodedShape shape c.transposes) c.a2b (dotranspose shape c.transposes xs), x < 256 := by
    rw [chunkBody_eq] at hsmall
    have hc2 := hc.2
    cases ha : c.a2b with
    | bytes big =>
      exact ⟨bytesDecElems_enc big es hes _ (fun x hx' => (hye x hx').1),
        bytesEncElems_wf big _ (fun x hx' => (hye x hx').2)⟩
    | shard ishape inner idxBig idxCrc atEnd =>
      rw [ha] at hsmall hc2
      obtain ⟨h1, h2, h3⟩ := hc2
      exact shard_roundtrip l hg es hes fill hfl hfw _ ishape (h1.trans t4.symm) h2 inner
        (fun o ho => by rw [h1]; exact h3 o ho) idxBig idxCrc atEnd _ t2 hye hsmall
  obtain ⟨b1, _⟩ := b2b_roundtrip' l hg c.b2b _ key.2
  rw [chunkDec_eq]
  unfold chunkEnc
  simp only [chunkBody_eq, b1, key.1, t2, beq_self_eq_true, if_true, t1]

/-! ### V2 chunks -/

theorem validOrder_revOrder (n : Nat) : validOrder (revOrder n) n = true := by
  rw [validOrder_iff]
  simp [revOrder]

theorem v2_chunk_roundtrip' (l : Layout) (hd : DeflOk l) (a : V2) (hes : 0 < a.es) (xs : List Elem)
    (hx : xs.length = prod a.chunk) (hxe : ∀ x ∈ xs, x.length = a.es ∧ ∀ y ∈ x, y < 256) :
    a.chunkDec (a.chunkEnc l xs) = some xs := by
  have ho := validOrder_revOrder a.chunk.length
  obtain ⟨h1, h2, h3, _⟩ := transpose_dec_enc' (revOrder a.chunk.length) a.chunk xs ho hx
  -- the stored element order
  have hys : ∃ ys : List Elem, ys = (if a.fOrder then transposeEnc (revOrder a.chunk.length) a.chunk xs else xs) ∧
      ys.length = prod a.chunk ∧ (∀ y ∈ ys, y ∈ xs) ∧
      (if a.fOrder then transposeDec (revOrder a.chunk.length) a.chunk ys else ys) = xs := by
    refine ⟨_, rfl, ?_, ?_, ?_⟩
    · split
      · rw [h2, h3]
      · exact hx
    · split
      · exact transposeEnc_mem ho hx
      · exact fun y hy => hy
    · split
      · exact h1
      · rfl
  obtain ⟨ys, hys, hyl, hym, hyd⟩ := hys
  have hye : ∀ x ∈ ys, x.length = a.es ∧ ∀ y ∈ x, y < 256 := fun x hx' => hxe x (hym x hx')
  have hwf := bytesEncElems_wf a.big ys (fun x hx' => (hye x hx').2)
  have e1 := unzlib_zlibWith (deflateOf l) hd.1 _ hwf
  have e2 := gunzip_gzipWith (deflateOf l) l.gzipExtra hd.1 _ hwf
  have e3 := bytesDecElems_enc a.big a.es hes ys (fun x hx' => (hye x hx').1)
  unfold V2.chunkDec V2.chunkEnc
  simp only [← hys]
  cases a.comp <;>
    simp only [e1, e2, e3, Option.bind_some, hyl, bne_self_eq_false, Bool.false_eq_true, if_false, hyd]

end Zarrs.Conform
