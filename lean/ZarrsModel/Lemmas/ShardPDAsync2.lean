import ZarrsModel.Lemmas.ShardPDAsync
import ZarrsModel.Lemmas.WriteMapShard5
set_option Elab.async false
/- helper lemmas for C07/C17 (async sharding partial decoder), part 2: errors on corrupted entries; the views tile -/
namespace Zarrs.Partial
open Zarrs Zarrs.Codec Zarrs.Subset

theorem mapM_some_map_rel {α β γ} (g : α → Option β) (f : β → γ) (k : α → γ) : ∀ (l : List α) (res : List β),
    l.mapM g = some res → (∀ a ∈ l, ∀ b, g a = some b → f b = k a) → res.map f = l.map k := by
  intro l
  induction l with
  | nil =>
    intro res h _
    simp only [List.mapM_nil] at h
    cases h; rfl
  | cons a l ih =>
    intro res h hk
    rw [List.mapM_cons] at h
    cases hg : g a with
    | none => rw [hg] at h; cases h
    | some b =>
      rw [hg] at h
      cases hl : l.mapM g with
      | none => rw [hl] at h; cases h
      | some res' =>
        rw [hl] at h
        cases h
        rw [List.map_cons, List.map_cons, hk a (by simp) b hg, ih res' hl (fun a' ha' => hk a' (by simp [ha']))]

theorem mapM_some_map {α β} (g : α → Option β) (k : α → β) (l : List α) (res : List β)
    (h : l.mapM g = some res) (hk : ∀ a ∈ l, ∀ b, g a = some b → b = k a) : res = l.map k := by
  have := mapM_some_map_rel g id k l res h hk
  simpa using this

theorem chunkInfo_some {inner : Shape} {entries : List (Nat × Nat)} (cps : Shape) (r : Subset) (ci : List ChunkInfo)
    (h : chunkInfo inner cps entries r = some ci) : ci = (r.chunks inner).map (infoOf cps entries) := by
  unfold chunkInfo at h
  apply mapM_some_map _ _ _ _ h
  intro p _ b hb
  cases he : entries[ravel p.1 cps]? with
  | none => rw [he] at hb; cases hb
  | some e =>
    rw [he] at hb
    simp only [Option.some.injEq] at hb
    simp only [infoOf, entryAt, he, Option.getD_some]
    exact hb.symm

/-- a request with an in-bounds region touching a stored inner chunk whose future fails, fails -/
theorem asyncShardPD_none_of_item (cfg : Shard.Cfg) (validate : Bool) (shard inner : Shape) (es : Nat) (fill : Elem)
    (fixed : Option Nat) (innerPD : Shape → Elem → BHandle → AHandle) (h : BHandle) (entries : List (Nat × Nat))
    (ht : tiles inner shard = true)
    (hidx : shardIndexPD cfg validate shard inner h = some (some entries))
    (rs : List Subset) (r : Subset) (hr : r ∈ rs) (hwf : r.wf = true) (hb : r.inboundsShape shard = true)
    (i : Idx) (hi : r.contains i = true) (e : Nat × Nat)
    (hent : entries[ravel (zipDiv i inner) (zipDiv shard inner)]? = some e)
    (hlive : Shard.isLive e = true)
    (hfut : ∀ cs, asyncDecodeStored fixed fill inner innerPD h r (cs, e) = none) :
    asyncShardPD cfg validate shard inner es fill fixed innerPD h rs = none := by
  unfold asyncShardPD
  rw [hidx]
  simp only [chunksPerShard_of_tiles ht]
  split
  · rfl
  · apply mapM_none_of_mem _ rs r hr
    have hb' := hb
    simp only [Subset.inboundsShape, Subset.rank, Bool.and_eq_true, beq_iff_eq] at hb'
    have hcl : inner.length = r.rank := by
      have := tiles_length ht; simp only [Subset.rank]; omega
    have hin : inB i shard = true := inB_of_allLe_end i _ _ shard hb'.1 hb'.2 hi
    obtain ⟨_, hm, _, _⟩ := cell_of_inB ht i hin
    have hp : (zipDiv i inner, Subset.mk (zipMul (zipDiv i inner) inner) inner) ∈ r.chunks inner := by
      rw [mem_chunks]
      refine ⟨?_, rfl⟩
      rw [(r.chunkBox inner).mem_indices (r.chunkBox_wf inner hwf hcl)]
      apply (r.contains_chunkBox inner hwf hcl (tiles_pos ht) _).mpr
      refine ⟨?_, i, hi, hm⟩
      have := inB_length hin
      simp only [zipDiv_length, Subset.rank] at hcl ⊢
      omega
    unfold asyncShardRegion asyncShardRegionFrom asyncWrites
    cases hci : chunkInfo inner (zipDiv shard inner) entries r with
    | none => rfl
    | some ci =>
      have hcie := chunkInfo_some (zipDiv shard inner) r ci hci
      subst hcie
      have hE : entryAt (zipDiv shard inner) entries
          (zipDiv i inner, Subset.mk (zipMul (zipDiv i inner) inner) inner) = e := by
        simp only [entryAt, hent, Option.getD_some]
      have hmem : (Subset.mk (zipMul (zipDiv i inner) inner) inner, e) ∈
          storedOf ((r.chunks inner).map (infoOf (zipDiv shard inner) entries)) := by
        rw [storedOf_map]
        apply List.mem_map.mpr
        refine ⟨_, List.mem_filter.mpr ⟨hp, ?_⟩, by rw [hE]⟩
        simp only [liveAt, hE]
        exact hlive
      simp only [mapM_none_of_mem _ _ _ hmem (hfut _), Option.map_none]

theorem asyncDecodeStored_wrong_size (n : Nat) (fill : Elem) (inner : Shape)
    (innerPD : Shape → Elem → BHandle → AHandle) (h : BHandle) (r cs : Subset) (off size : Nat) (hsize : size ≠ n) :
    asyncDecodeStored (some n) fill inner innerPD h r (cs, (off, size)) = none := by
  have hso : sizeOk (some n) size = false := by simp [sizeOk, hsize]
  simp only [asyncDecodeStored, hso, Bool.not_false, if_true]

theorem asyncDecodeStored_outside (fixed : Option Nat) (fill : Elem) (inner : Shape)
    (innerPD : Shape → Elem → BHandle → AHandle) (h : BHandle) (v : Bytes) (hstrict : BHandleStrict h v)
    (hwhole : ReadsWhole (innerPD inner fill)) (r cs : Subset) (off size : Nat) (hbad : off + size > v.length) :
    asyncDecodeStored fixed fill inner innerPD h r (cs, (off, size)) = none := by
  have hfail : byteIntervalPD off size h [ByteRange.fromStart 0 none] = none := by
    simp only [byteIntervalPD, List.all_cons, List.all_nil, ByteRange.valid, Option.getD_none, Nat.add_zero,
      Nat.zero_le, decide_true, Bool.and_self, if_true, List.map_cons, List.map_nil, ByteRange.start,
      ByteRange.length, Nat.sub_zero]
    apply hstrict
    refine ⟨_, List.mem_singleton.mpr rfl, ?_⟩
    simp only [ByteRange.valid, Option.getD_some, decide_eq_false_iff_not]
    omega
  simp only [asyncDecodeStored, hwhole _ _ hfail]
  split <;> rfl

/-! ### the views -/

/-- the views the async decoder writes for a region, in program order -/
def asyncViews (ws : List ViewWrite) : List Subset := ws.map (·.1)

theorem asyncDecodeStored_overlap (fixed : Option Nat) (fill : Elem) (inner : Shape)
    (innerPD : Shape → Elem → BHandle → AHandle) (h : BHandle) (r : Subset) (q : Subset × (Nat × Nat))
    (res : List Elem × Subset) (hres : asyncDecodeStored fixed fill inner innerPD h r q = some res) :
    res.2 = r.overlap q.1 := by
  unfold asyncDecodeStored at hres
  split at hres
  · cases hres
  · split at hres
    · simp only at hres
      cases hx : extractSubset ((r.overlap q.1).relativeTo q.1.start) q.1.shape ‹_› with
      | none => rw [hx] at hres; cases hres
      | some part => rw [hx] at hres; cases hres; rfl
    · cases hres

theorem filter_perm {α} (f : α → Bool) (l : List α) : (l.filter f ++ l.filter (fun a => !f a)).Perm l := by
  induction l with
  | nil => exact List.Perm.refl _
  | cons a l ih =>
    cases hf : f a
    · simp only [List.filter_cons, hf, Bool.false_eq_true, if_false, Bool.not_false, if_true]
      exact (List.perm_middle).trans (List.Perm.cons a ih)
    · simp only [List.filter_cons, hf, if_true, Bool.not_true, Bool.false_eq_true, if_false, List.cons_append]
      exact List.Perm.cons a ih

/-- the views written by the async decoder are a rearrangement (stored first) of the views of the chunk iterator -/
theorem asyncViews_perm (fixed : Option Nat) (es : Nat) (fill : Elem) (inner cps : Shape) (entries : List (Nat × Nat))
    (innerPD : Shape → Elem → BHandle → AHandle) (h : BHandle) (r : Subset) (ws : List ViewWrite)
    (hws : asyncWrites fixed es fill inner cps entries innerPD h r = some ws) :
    (asyncViews ws).Perm (shardPDViews inner r) := by
  unfold asyncWrites at hws
  cases hci : chunkInfo inner cps entries r with
  | none => rw [hci] at hws; cases hws
  | some ci =>
    rw [hci] at hws
    have hcie := chunkInfo_some cps r ci hci
    subst hcie
    simp only at hws
    cases hm : (storedOf ((r.chunks inner).map (infoOf cps entries))).mapM
        (asyncDecodeStored fixed fill inner innerPD h r) with
    | none => rw [hm] at hws; cases hws
    | some results =>
      rw [hm] at hws
      simp only at hws
      split at hws
      · cases hws
      · cases hws
        have h2 : results.map (·.2) =
            (storedOf ((r.chunks inner).map (infoOf cps entries))).map (fun q => r.overlap q.1) := by
          have := mapM_some_map_rel (asyncDecodeStored fixed fill inner innerPD h r) (·.2)
            (fun q => r.overlap q.1) (storedOf ((r.chunks inner).map (infoOf cps entries))) results hm
            (fun q _ b hb => asyncDecodeStored_overlap fixed fill inner innerPD h r q b hb)
          exact this
        have h3 : asyncViews (storedWrites r results ++
              filledWrites fill r (filledOf ((r.chunks inner).map (infoOf cps entries)))) =
            (((r.chunks inner).filter (liveAt cps entries)) ++
              ((r.chunks inner).filter (fun p => !liveAt cps entries p))).map
              (fun p => (r.overlap p.2).relativeTo r.start) := by
          simp only [asyncViews, storedWrites, filledWrites, List.map_append, List.map_map, filledOf_map]
          congr 1
          have : (results.map (·.2)).map (fun ov => ov.relativeTo r.start) =
              ((storedOf ((r.chunks inner).map (infoOf cps entries))).map (fun q => r.overlap q.1)).map
                (fun ov => ov.relativeTo r.start) := by rw [h2]
          simp only [List.map_map, storedOf_map] at this
          exact this
        rw [h3, shardPDViews]
        exact (filter_perm (liveAt cps entries) (r.chunks inner)).map _

end Zarrs.Partial
