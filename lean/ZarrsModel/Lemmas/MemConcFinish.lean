import ZarrsModel.Lemmas.MemConcWF
/- C18 helper lemmas: every reachable state of the repaired (`.fixed`) protocol can be run to completion
(no deadlock, termination): a progress lemma plus a termination measure -/
namespace Zarrs.MemConc

/-! ### a sum over the threads `0 .. n-1` -/

def sumTo : Nat → (Nat → Nat) → Nat
  | 0, _ => 0
  | n + 1, f => sumTo n f + f n

theorem sumTo_congr (n : Nat) (f g : Nat → Nat) (h : ∀ x, x < n → f x = g x) : sumTo n f = sumTo n g := by
  induction n with
  | zero => rfl
  | succ n ih =>
    simp only [sumTo]
    rw [ih (fun x hx => h x (Nat.lt_succ_of_lt hx)), h n (Nat.lt_succ_self n)]

theorem sumTo_lt (n : Nat) (f g : Nat → Nat) (t : Nat) (ht : t < n) (hlt : f t < g t)
    (hne : ∀ x, x ≠ t → f x = g x) : sumTo n f < sumTo n g := by
  induction n with
  | zero => exact absurd ht (Nat.not_lt_zero _)
  | succ n ih =>
    simp only [sumTo]
    by_cases h : t = n
    · subst h
      have := sumTo_congr t f g (fun x hx => hne x (Nat.ne_of_lt hx))
      omega
    · have h1 := ih (by omega)
      have h2 := hne n (fun e => h e.symm)
      omega

/-! ### the termination measure -/

/-- remaining work of thread `t`: two units per unfinished operation, one of them already spent when the
operation is in its second phase -/
def tm (ps : Progs) (v : VState) (t : Nat) : Nat :=
  2 * ((ps.getD t []).length - v.pc t) + (if v.ts t = .idle then 1 else 0)

def mu (ps : Progs) (s : State) : Nat := sumTo ps.length (tm ps (view s))

theorem opAt_lt {ps : Progs} {t k : Nat} {op : Op} (h : opAt ps t k = some op) : k < (ps.getD t []).length := by
  unfold opAt at h
  rw [List.getD_eq_getElem?_getD]
  cases hp : ps[t]? with
  | none => simp [hp] at h
  | some p =>
    simp only [hp, Option.bind_some] at h
    simp only [Option.getD_some]
    by_cases hk : k < p.length
    · exact hk
    · rw [List.getElem?_eq_none (by omega)] at h; cases h

theorem vstep_tm {ps time v lin t v' lin' r} (hst : VStep ps time v lin t v' lin' r) :
    tm ps v' t < tm ps v t ∧ ∀ x, x ≠ t → tm ps v' x = tm ps v x := by
  cases hst with
  | s1e op c hop hw hts hcur hfree hv hl hr =>
    subst hv
    have hk := opAt_lt hop
    refine ⟨?_, ?_⟩
    · simp only [tm, upd_apply, if_true, hts, reduceCtorEq, if_false]; omega
    · intro x hx; simp only [tm, upd_apply, if_neg hx]
  | s1n op hop hw hts hcur hv hl hr =>
    subst hv
    have hk := opAt_lt hop
    refine ⟨?_, ?_⟩
    · simp only [tm, upd_apply, if_true, hts, reduceCtorEq, if_false]; omega
    · intro x hx; simp only [tm, upd_apply, if_neg hx]
  | s2 op c hop hts hv hl hr =>
    subst hv
    have hk := opAt_lt hop
    refine ⟨?_, ?_⟩
    · simp only [tm, upd_apply, if_true, hts, reduceCtorEq, if_false]; omega
    · intro x hx; simp only [tm, upd_apply, if_neg hx]
  | g1m op hop hrd hts hcur hv hl hr =>
    subst hv
    have hk := opAt_lt hop
    refine ⟨?_, ?_⟩
    · simp only [tm, upd_apply, if_true, hts]; omega
    · intro x hx; simp only [tm, upd_apply, if_neg hx]
  | g1h op c hop hrd hts hcur hv hl hr =>
    subst hv
    have hk := opAt_lt hop
    refine ⟨?_, ?_⟩
    · simp only [tm, upd_apply, if_true, hts, reduceCtorEq, if_false]; omega
    · intro x hx; simp only [tm, upd_apply, if_neg hx]
  | g2 op c hop hts hfree hv hl hr =>
    subst hv
    have hk := opAt_lt hop
    refine ⟨?_, ?_⟩
    · simp only [tm, upd_apply, if_true, hts, reduceCtorEq, if_false]; omega
    · intro x hx; simp only [tm, upd_apply, if_neg hx]
  | sz hop hts hfree hv hl hr =>
    subst hv
    have hk := opAt_lt hop
    refine ⟨?_, ?_⟩
    · simp only [tm, upd_apply, if_true, hts]; omega
    · intro x hx; simp only [tm, upd_apply, if_neg hx]
  | e1 hop hts hv hl hr =>
    subst hv
    have hk := opAt_lt hop
    refine ⟨?_, ?_⟩
    · simp only [tm, upd_apply, if_true, hts]; omega
    · intro x hx; simp only [tm, upd_apply, if_neg hx]

/-- every enabled step strictly decreases the measure -/
theorem step_mu {ps s t} (hl : LWF ps s) (hv : VWF ps (view s)) (ht : t < ps.length)
    (hen : enabled .fixed ps s t = true) : mu ps (step .fixed ps s t) < mu ps s := by
  obtain ⟨_, _, _, _, hst, _⟩ := step_view hl hv ht hen 0 []
  obtain ⟨h1, h2⟩ := vstep_tm hst
  exact sumTo_lt _ _ _ t ht h1 h2

/-! ### progress -/

theorem progress {ps s} (hl : LWF ps s) (hv : VWF ps (view s)) (hnf : allFinished ps s = false) :
    ∃ t, t < ps.length ∧ enabled .fixed ps s t = true := by
  rcases Classical.em (∃ t c, tsOf s t = .setHold c) with ⟨t, c, hts⟩ | hno
  · -- a lock holder can always perform its write
    have ht : t < ps.length := hv.ts_lt t (by show tsOf s t ≠ _; rw [hts]; intro h; cases h)
    obtain ⟨op, hop, _⟩ := hv.hold_op t c hts
    refine ⟨t, ht, ?_⟩
    unfold enabled
    rw [curOp_eq ps s hl.lpc t]
    have hop' : opAt ps t (pcOf s t) = some op := hop
    rw [hop', ts_getD, hts]
  · -- nobody holds a lock: every unfinished thread is enabled
    have hfree : ∀ c, cellFree s c = true := by
      intro c
      show (wl s c).isNone = true
      cases h : wl s c with
      | none => rfl
      | some t => exact absurd ⟨t, c, (hv.lock_iff t c).mp h⟩ hno
    have hex : ∃ t, t < ps.length ∧ curOp ps s t ≠ none := by
      unfold allFinished at hnf
      rw [List.all_eq_false] at hnf
      obtain ⟨t, hmem, hp⟩ := hnf
      refine ⟨t, List.mem_range.mp hmem, ?_⟩
      intro h; rw [h] at hp; exact hp rfl
    obtain ⟨t, ht, hcur⟩ := hex
    refine ⟨t, ht, ?_⟩
    unfold enabled
    cases hop : curOp ps s t with
    | none => exact absurd hop hcur
    | some op =>
      rw [ts_getD]
      cases hts : tsOf s t with
      | idle =>
        cases op <;> simp only [isWrite, if_true] <;> cases s.cur <;> simp [hfree]
      | setGot c => exact absurd hts (hv.no_got t c)
      | setHold c => rfl
      | getHold c => exact hfree c

/-! ### every well-formed state can be run to completion -/

theorem can_finish_wf (ps : Progs) (n : Nat) : ∀ s, LWF ps s → VWF ps (view s) → mu ps s < n →
    ∃ sched s', run .fixed ps s sched = some s' ∧ allFinished ps s' = true := by
  induction n with
  | zero => intro s _ _ h; exact absurd h (Nat.not_lt_zero _)
  | succ n ih =>
    intro s hl hv hmu
    cases hf : allFinished ps s with
    | true => exact ⟨[], s, rfl, hf⟩
    | false =>
      obtain ⟨t, ht, hen⟩ := progress hl hv hf
      obtain ⟨hl', hv', _⟩ := step_view hl hv ht hen 0 []
      have hdec := step_mu hl hv ht hen
      obtain ⟨sched, s', hrun, hfin⟩ := ih _ hl' hv' (by omega)
      refine ⟨t :: sched, s', ?_, hfin⟩
      simp only [run, hen, if_true]
      exact hrun

/-- no deadlock and termination: from every reachable state of the repaired protocol some schedule runs all
threads to completion -/
theorem can_finish (ps : Progs) (i0 : Option Bytes) (s : State) (hr : Reachable .fixed ps i0 s) :
    ∃ sched s', run .fixed ps s sched = some s' ∧ allFinished ps s' = true := by
  obtain ⟨hl, hv⟩ := reachable_wf hr
  exact can_finish_wf ps (mu ps s + 1) s hl hv (Nat.lt_succ_self _)

end Zarrs.MemConc
