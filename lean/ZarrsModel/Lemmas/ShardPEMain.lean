import ZarrsModel.Lemmas.ShardPEFrame
/- helper lemmas for C05, part 4: the two branches of `partialEncodePinned` and the main statements -/
namespace Zarrs.ShardPE
open Zarrs Zarrs.Codec Zarrs.Shard

/-! ### assembling the result of one branch -/

theorem branch_result (c : Cfg) (idx : List (Nat × Nat)) (v : Bytes) (chunks : List (Option Bytes))
    (us : List (Nat × Option Bytes)) (off : Nat) (v' : Bytes)
    (hlen : idx.length = c.nChunks)
    (hold : idx.mapM (decEntry v) = .ok chunks)
    (hb : ∀ e ∈ idx, e.1 < 2 ^ 64 ∧ e.2 < 2 ^ 64)
    (hpw : ∀ (i j : Nat) (a b : Nat × Nat), i ≠ j → idx[i]? = some a → idx[j]? = some b →
      isLive a = true → isLive b = true → Rel a b)
    (hu : (∀ u ∈ us, u.1 < c.nChunks) ∧ (us.map (·.1)).Nodup)
    (hs : off + (dataNew us).length < sentinel)
    (hf : Frame c (Kept idx us) v off (dataNew us) (encodeIndex c (idxNew idx us off)) v') :
    decode c true v' = .ok (applyUpdates chunks us) ∧ wellFormed c v' = true ∧
      ((c.indexAtEnd = true →
        (∃ u ∈ us, Option.isSome u.2 = true) ∨ off = 0 ∨ off = liveEnd (idxDead idx us)) → tight c v' = true) := by
  obtain ⟨h1, h2, h3⟩ := frame_result c idx v chunks us off v' hlen hold hb hpw hu hs hf
  refine ⟨h2, h3, fun hw => tight_of c v' _ h1 (fun hc => ?_)⟩
  rw [hf.endLen hc, liveEnd_idxNew idx us off hu.2 (fun u h => by rw [hlen]; exact hu.1 u h) hs
    (fun j e hj he hl => (hf.keep e ⟨hl, j, he, hj⟩).1) (hw hc)]

theorem encodeIndex_idxNew_length (c : Cfg) (idx : List (Nat × Nat)) (us : List (Nat × Option Bytes)) (off : Nat)
    (hlen : idx.length = c.nChunks) : (encodeIndex c (idxNew idx us off)).length = indexSize c :=
  encodeIndex_length c _ (by rw [idxNew_length, hlen])

theorem not_kept_of_dead (idx : List (Nat × Nat)) (us : List (Nat × Option Bytes))
    (hdead : (idxDead idx us).all (fun e => !isLive e) = true) (e : Nat × Nat) : ¬ Kept idx us e := by
  rintro ⟨hl, j, hj, hjn⟩
  rw [← idxDead_untouched idx us j hjn] at hj
  have := List.all_eq_true.mp hdead e (List.mem_iff_getElem?.mpr ⟨j, hj⟩)
  simp [hl] at this

/-! ### erased results -/

theorem all_dead_updates (idx : List (Nat × Nat)) (us : List (Nat × Option Bytes)) (off : Nat)
    (hn : (us.map (·.1)).Nodup) (hr : ∀ u ∈ us, u.1 < idx.length) (hs : off + (dataNew us).length < sentinel)
    (hall : (idxNew idx us off).all (fun e => !isLive e) = true) : ∀ u ∈ us, u.2 = none := by
  intro u hu
  obtain ⟨k, hk⟩ := List.mem_iff_getElem?.mp hu
  obtain ⟨e, h1, h2⟩ := idxNew_touched idx us off hn k u.1 u.2 hk (hr u hu)
  have hd := List.all_eq_true.mp hall e (List.mem_iff_getElem?.mpr ⟨_, h2⟩)
  have ht := touched_entry (us.map (fun (u : Nat × Option Bytes) => u.2)) (List.replicate off 0) [] _ rfl
    (by rw [List.length_replicate]; exact hs) k u.2 e (by simp [hk]) (by simpa using h1)
  cases hu2 : u.2 with
  | none => rfl
  | some b =>
    have := (ht.2.2 b hu2).1
    simp [this] at hd

theorem all_dead_chunks (idx : List (Nat × Nat)) (v : Bytes) (chunks : List (Option Bytes))
    (us : List (Nat × Option Bytes)) (off : Nat)
    (hold : idx.mapM (decEntry v) = .ok chunks)
    (hn : (us.map (·.1)).Nodup) (hr : ∀ u ∈ us, u.1 < idx.length) (hs : off + (dataNew us).length < sentinel)
    (hall : (idxNew idx us off).all (fun e => !isLive e) = true) : ∀ ch ∈ applyUpdates chunks us, ch = none := by
  obtain ⟨hlc, hold'⟩ := (mapM_ok_iff _ _ _).mp hold
  intro ch hch
  obtain ⟨j, hj⟩ := List.mem_iff_getElem?.mp hch
  have hjl : j < idx.length := by
    have := (List.getElem?_eq_some_iff.mp hj).1
    rw [applyUpdates_length] at this; omega
  by_cases hjm : j ∈ us.map (·.1)
  · obtain ⟨k, ch', hk⟩ := (mem_keys_iff us j).mp hjm
    rw [applyUpdates_touched chunks us hn k j ch' hk (by omega)] at hj
    cases hj
    exact all_dead_updates idx us off hn hr hs hall (j, ch) (List.mem_iff_getElem?.mpr ⟨k, hk⟩)
  · rw [applyUpdates_untouched _ _ _ hjm] at hj
    have he : (idxNew idx us off)[j]? = some idx[j] := by
      rw [idxNew_untouched _ _ _ _ hjm]; exact List.getElem?_eq_getElem hjl
    have hd := List.all_eq_true.mp hall _ (List.mem_iff_getElem?.mpr ⟨_, he⟩)
    obtain ⟨b, hb1, hb2⟩ := hold' j idx[j] (List.getElem?_eq_getElem hjl)
    rw [hj] at hb1
    cases hb1
    rw [decEntry_dead _ _ (by simpa using hd)] at hb2
    cases hb2
    rfl


theorem dataNew_length (us : List (Nat × Option Bytes)) :
    (dataNew us).length = ((us.filterMap (·.2)).map List.length).sum := by
  unfold dataNew
  rw [dataOf_length, List.filterMap_map]
  rfl

/-- the result type of the C05 statements -/
def Outcome (c : Cfg) (chunks : List (Option Bytes)) (us : List (Nat × Option Bytes)) (T : Prop)
    (r : Option (Option Bytes)) : Prop :=
  match r with
  | some none => (∀ u ∈ us, u.2 = none) ∧ ∀ ch ∈ applyUpdates chunks us, ch = none
  | some (some v') => decode c true v' = .ok (applyUpdates chunks us) ∧ wellFormed c v' = true ∧ (T → tight c v' = true)
  | none => False

/-- the branch in which nothing of the old value survives: the value is rebuilt from nothing -/
theorem partialEncode_dead (c : Cfg) (vo : Option Bytes) (idx : List (Nat × Nat)) (v : Bytes)
    (chunks : List (Option Bytes)) (us : List (Nat × Option Bytes))
    (hcur : currentIndex c vo = some idx)
    (hlen : idx.length = c.nChunks)
    (hold : idx.mapM (decEntry v) = .ok chunks)
    (hb : ∀ e ∈ idx, e.1 < 2 ^ 64 ∧ e.2 < 2 ^ 64)
    (hpw : ∀ (i j : Nat) (a b : Nat × Nat), i ≠ j → idx[i]? = some a → idx[j]? = some b →
      isLive a = true → isLive b = true → Rel a b)
    (hu : (∀ u ∈ us, u.1 < c.nChunks) ∧ (us.map (·.1)).Nodup)
    (hs : indexSize c + (dataNew us).length < sentinel)
    (hdead : (idxDead idx us).all (fun e => !isLive e) = true) :
    Outcome c chunks us True (partialEncodePinned c vo us) := by
  have hr : ∀ u ∈ us, u.1 < idx.length := fun u h => by rw [hlen]; exact hu.1 u h
  have hnk := not_kept_of_dead idx us hdead
  rw [partialEncode_eq c vo us idx hcur]
  simp only [hdead, if_true]
  cases hc : c.indexAtEnd
  · simp only [Bool.false_eq_true, if_false, Nat.zero_max]
    by_cases hall : (idxNew idx us (indexSize c)).all (fun e => !isLive e) = true
    · simp only [hall, if_true]
      exact ⟨all_dead_updates idx us _ hu.2 hr hs hall, all_dead_chunks idx v chunks us _ hold hu.2 hr hs hall⟩
    · simp only [hall, if_false, Bool.false_eq_true]
      obtain ⟨r1, r2, r3⟩ := branch_result c idx v chunks us (indexSize c) _ hlen hold hb hpw hu hs
        (frame_start_fresh c _ v _ _ hc (encodeIndex_idxNew_length c idx us _ hlen) hnk)
      exact ⟨r1, r2, fun _ => r3 (fun h => by rw [hc] at h; cases h)⟩
  · simp only [if_true]
    by_cases hall : (idxNew idx us 0).all (fun e => !isLive e) = true
    · simp only [hall, if_true]
      exact ⟨all_dead_updates idx us _ hu.2 hr (by omega) hall,
        all_dead_chunks idx v chunks us _ hold hu.2 hr (by omega) hall⟩
    · simp only [hall, if_false, Bool.false_eq_true]
      obtain ⟨r1, r2, r3⟩ := branch_result c idx v chunks us 0 _ hlen hold hb hpw hu (by omega)
        (frame_end_fresh c _ v _ _ hc (encodeIndex_idxNew_length c idx us _ hlen) hnk)
      exact ⟨r1, r2, fun _ => r3 (fun _ => Or.inr (Or.inl rfl))⟩


/-- from an absent value -/
theorem partialEncode_absent (c : Cfg) (us : List (Nat × Option Bytes))
    (hu : (∀ u ∈ us, u.1 < c.nChunks) ∧ (us.map (·.1)).Nodup)
    (hsmall : ((us.filterMap (·.2)).map List.length).sum + indexSize c < sentinel) :
    Outcome c (List.replicate c.nChunks none) us True (partialEncodePinned c none us) := by
  have hall : ∀ (j : Nat) (e : Nat × Nat),
      (List.replicate c.nChunks ((sentinel, sentinel) : Nat × Nat))[j]? = some e → e = (sentinel, sentinel) := by
    intro j e h
    rw [List.getElem?_replicate] at h
    split at h
    · exact (Option.some.inj h).symm
    · cases h
  apply partialEncode_dead c none (List.replicate c.nChunks (sentinel, sentinel)) [] _ us rfl (by simp)
  · rw [mapM_ok_iff]
    refine ⟨by simp, fun i a h => ?_⟩
    have hi : i < c.nChunks := by simpa using (List.getElem?_eq_some_iff.mp h).1
    rw [hall i a h]
    exact ⟨none, by simp [hi], by simp [decEntry]⟩
  · intro e he
    obtain ⟨j, hj⟩ := List.mem_iff_getElem?.mp he
    rw [hall j e hj]
    exact ⟨sentinel_lt, sentinel_lt⟩
  · intro i j a b _ hi _ ha
    rw [hall i a hi] at ha
    simp [isLive] at ha
  · exact hu
  · rw [dataNew_length]; omega
  · rw [List.all_eq_true]
    intro e he
    obtain ⟨j, hj⟩ := List.mem_iff_getElem?.mp he
    by_cases hjm : j ∈ us.map (·.1)
    · rw [idxDead_touched _ us j hjm e hj]; simp [isLive]
    · rw [idxDead_untouched _ us j hjm] at hj
      rw [hall j e hj]; simp [isLive]

/-- the exact condition under which the new value is tight again (only matters for an index at the end): some update
stores data, or dropping the touched inner chunks does not lower the end of the live data, or nothing survives -/
def Grow (c : Cfg) (v : Bytes) (us : List (Nat × Option Bytes)) : Prop :=
  c.indexAtEnd = true → ∀ idx, currentIndex c (some v) = some idx →
    (∃ u ∈ us, Option.isSome u.2 = true) ∨ liveEnd (idxDead idx us) = liveEnd idx ∨
      (idxDead idx us).all (fun e => !isLive e) = true

theorem Outcome.mono {c : Cfg} {chunks : List (Option Bytes)} {us : List (Nat × Option Bytes)} {T T' : Prop}
    {r : Option (Option Bytes)} (h : Outcome c chunks us T r) (hT : T' → T) : Outcome c chunks us T' r := by
  unfold Outcome at *
  split
  · exact h
  · exact ⟨h.1, h.2.1, fun t => h.2.2 (hT t)⟩
  · exact h

/-- from an existing well-formed tight value -/
theorem partialEncode_wellformed (c : Cfg) (v : Bytes) (chunks : List (Option Bytes))
    (hdec : decode c true v = .ok chunks) (hwf : wellFormed c v = true) (ht : tight c v = true)
    (us : List (Nat × Option Bytes))
    (hu : (∀ u ∈ us, u.1 < c.nChunks) ∧ (us.map (·.1)).Nodup)
    (hsmall : v.length + ((us.filterMap (·.2)).map List.length).sum + indexSize c < sentinel) :
    Outcome c chunks us (Grow c v us) (partialEncodePinned c (some v) us) := by
  obtain ⟨idx, hcur, hlen, hold, hb, hWF, hiv⟩ := old_facts c v chunks hdec hwf (by omega)
  have hdl := dataNew_length us
  have hr : ∀ u ∈ us, u.1 < idx.length := fun u h => by rw [hlen]; exact hu.1 u h
  cases hd : (idxDead idx us).all (fun e => !isLive e)
  · -- something of the old value survives
    have hle : liveEnd idx ≤ v.length := (liveEnd_le_iff idx _).mpr (fun e he hl => (hWF.1 e he hl).1)
    have hkept : ∀ e, Kept idx us e → e ∈ idx ∧ isLive e = true := fun e ⟨hl, j, hj, _⟩ =>
      ⟨List.mem_iff_getElem?.mpr ⟨j, hj⟩, hl⟩
    rw [partialEncode_eq c (some v) us idx hcur]
    simp only [hd, Bool.false_eq_true, if_false]
    cases hc : c.indexAtEnd
    · simp only [Bool.false_eq_true, if_false]
      have h1 : indexSize c ≤ max (liveEnd idx) (indexSize c) := Nat.le_max_right _ _
      have h2 : max (liveEnd idx) (indexSize c) ≤ v.length := Nat.max_le.mpr ⟨hle, hiv⟩
      by_cases hall : (idxNew idx us (max (liveEnd idx) (indexSize c))).all (fun e => !isLive e) = true
      · simp only [hall, if_true]
        exact ⟨all_dead_updates idx us _ hu.2 hr (by omega) hall,
          all_dead_chunks idx v chunks us _ hold hu.2 hr (by omega) hall⟩
      · simp only [hall, if_false, Bool.false_eq_true]
        have hP : ∀ e, Kept idx us e →
            e.1 + e.2 ≤ max (liveEnd idx) (indexSize c) ∧ (e.1 + e.2 ≤ 0 ∨ indexSize c ≤ e.1) := by
          intro e he
          obtain ⟨hm, hl⟩ := hkept e he
          have h3 := le_liveEnd idx e hm hl
          have h4 := (hWF.1 e hm hl).2
          simp only [indexRegion, hc, Bool.false_eq_true, if_false] at h4
          exact ⟨by omega, h4⟩
        obtain ⟨r1, r2, r3⟩ := branch_result c idx v chunks us _ _ hlen hold hb hWF.2 hu (by omega)
          (frame_start_alive c _ v _ _ _ hc (encodeIndex_idxNew_length c idx us _ hlen) h1 h2 hP)
        exact ⟨r1, r2, fun _ => r3 (fun h => by rw [hc] at h; cases h)⟩
    · simp only [if_true]
      have hvl : v.length = liveEnd idx + indexSize c := by
        unfold tight at ht
        rw [hcur] at ht
        simpa [hc] using ht
      by_cases hall : (idxNew idx us (liveEnd idx)).all (fun e => !isLive e) = true
      · simp only [hall, if_true]
        exact ⟨all_dead_updates idx us _ hu.2 hr (by omega) hall,
          all_dead_chunks idx v chunks us _ hold hu.2 hr (by omega) hall⟩
      · simp only [hall, if_false, Bool.false_eq_true]
        obtain ⟨r1, r2, r3⟩ := branch_result c idx v chunks us _ _ hlen hold hb hWF.2 hu (by omega)
          (frame_end_alive c _ v _ _ _ hc (encodeIndex_idxNew_length c idx us _ hlen) hvl
            (fun e he => le_liveEnd idx e (hkept e he).1 (hkept e he).2))
        refine ⟨r1, r2, fun hgrow => r3 (fun _ => ?_)⟩
        · rcases hgrow hc idx hcur with hg | hg | hg
          · exact Or.inl hg
          · exact Or.inr (Or.inr hg.symm)
          · rw [hd] at hg; cases hg
  · exact (partialEncode_dead c (some v) idx v chunks us hcur hlen hold hb hWF.2 hu (by omega) hd).mono (fun _ => trivial)

end Zarrs.ShardPE
