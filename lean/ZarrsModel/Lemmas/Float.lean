import ZarrsModel.Model.FillMeta
/-
Helper lemmas for C14/C13: exactness of `Fmt.round` on representable rationals, exact widening between
IEEE formats, and the `narrow (widen b) = b` round trip on finite patterns.  Core Lean only.
-/
namespace Zarrs.Float

theorem Fmt.bias_pos (f : Fmt) (he : 2 ≤ f.eb) : 1 ≤ f.bias := by
  unfold Fmt.bias
  have : 2 ^ 1 ≤ 2 ^ (f.eb - 1) := Nat.pow_le_pow_right (by decide) (by omega)
  omega

theorem Fmt.sigExp_eq (f : Fmt) (m : Nat) :
    f.sigExp m = if m / 2 ^ f.mb = 0 then (m % 2 ^ f.mb, 1) else (2 ^ f.mb + m % 2 ^ f.mb, m / 2 ^ f.mb) := by
  simp [Fmt.sigExp]

/-- characterisation of `sigExp` -/
theorem Fmt.sigExp_spec (f : Fmt) (m : Nat) :
    1 ≤ (f.sigExp m).2 ∧ (f.sigExp m).1 < 2 ^ (f.mb + 1) ∧
    m = ((f.sigExp m).2 - 1) * 2 ^ f.mb + (f.sigExp m).1 ∧
    ((f.sigExp m).2 = 1 ∨ 2 ^ f.mb ≤ (f.sigExp m).1) := by
  rw [Fmt.sigExp_eq]
  have hp : 0 < 2 ^ f.mb := Nat.two_pow_pos _
  have hlt : m % 2 ^ f.mb < 2 ^ f.mb := Nat.mod_lt _ hp
  have hdm : 2 ^ f.mb * (m / 2 ^ f.mb) + m % 2 ^ f.mb = m := Nat.div_add_mod m _
  have hs : 2 ^ (f.mb + 1) = 2 * 2 ^ f.mb := by rw [Nat.pow_succ, Nat.mul_comm]
  split
  · next h0 =>
    rw [h0] at hdm
    refine ⟨Nat.le_refl _, ?_, ?_, Or.inl rfl⟩
    · show m % 2 ^ f.mb < _; omega
    · show m = (1 - 1) * 2 ^ f.mb + m % 2 ^ f.mb; omega
  · next h0 =>
    refine ⟨Nat.pos_of_ne_zero h0, ?_, ?_, Or.inr (Nat.le_add_right _ _)⟩
    · show 2 ^ f.mb + m % 2 ^ f.mb < _; omega
    · show m = (m / 2 ^ f.mb - 1) * 2 ^ f.mb + (2 ^ f.mb + m % 2 ^ f.mb)
      generalize m / 2 ^ f.mb = E at *
      obtain ⟨E', rfl⟩ : ∃ E', E = E' + 1 := ⟨E - 1, by omega⟩
      rw [Nat.add_sub_cancel]
      rw [Nat.mul_add, Nat.mul_one] at hdm
      rw [Nat.mul_comm E']
      omega

theorem Fmt.sigExp_mk (f : Fmt) (k q : Nat) (hq : q < 2 ^ (f.mb + 1)) (hk : k = 0 ∨ 2 ^ f.mb ≤ q) :
    f.sigExp (k * 2 ^ f.mb + q) = (q, k + 1) := by
  rw [Fmt.sigExp_eq]
  have hp : 0 < 2 ^ f.mb := Nat.two_pow_pos _
  have hs : 2 ^ (f.mb + 1) = 2 * 2 ^ f.mb := by rw [Nat.pow_succ, Nat.mul_comm]
  by_cases hq' : q < 2 ^ f.mb
  · have hk0 : k = 0 := by omega
    subst hk0
    rw [Nat.zero_mul, Nat.zero_add, Nat.div_eq_of_lt hq', Nat.mod_eq_of_lt hq']
    simp
  · obtain ⟨r, rfl⟩ : ∃ r, q = 2 ^ f.mb + r := ⟨q - 2 ^ f.mb, by omega⟩
    have hr : r < 2 ^ f.mb := by omega
    have e1 : k * 2 ^ f.mb + (2 ^ f.mb + r) = r + 2 ^ f.mb * (k + 1) := by
      rw [Nat.mul_add, Nat.mul_one, Nat.mul_comm k]; omega
    rw [e1, Nat.add_mul_div_left _ _ hp, Nat.add_mul_mod_self_left, Nat.div_eq_of_lt hr, Nat.mod_eq_of_lt hr]
    simp

theorem Fmt.value_eq (f : Fmt) (m : Nat) :
    f.value m = if (f.sigExp m).2 ≥ f.bias + f.mb
      then ((f.sigExp m).1 * 2 ^ ((f.sigExp m).2 - (f.bias + f.mb)), 1)
      else ((f.sigExp m).1, 2 ^ (f.bias + f.mb - (f.sigExp m).2)) := by
  unfold Fmt.value
  rcases f.sigExp m with ⟨a, b⟩
  rfl

theorem Fmt.value_den_pos (f : Fmt) (m : Nat) : 0 < (f.value m).2 := by
  rw [Fmt.value_eq]
  split
  · exact Nat.one_pos
  · exact Nat.two_pow_pos _

/-- normal form of the exact value: `value m = sig * 2^(e-1) / 2^(bias - 1 + mb)` -/
theorem Fmt.value_spec (f : Fmt) (he : 2 ≤ f.eb) (m : Nat) :
    (f.value m).1 * 2 ^ (f.bias - 1 + f.mb) =
      (f.sigExp m).1 * 2 ^ ((f.sigExp m).2 - 1) * (f.value m).2 := by
  have hb := f.bias_pos he
  have he1 := (f.sigExp_spec m).1
  rw [Fmt.value_eq]
  generalize (f.sigExp m).1 = sig at *
  generalize (f.sigExp m).2 = e at *
  generalize f.bias = B at *
  generalize f.mb = M at *
  split
  · next h =>
    show sig * 2 ^ (e - (B + M)) * 2 ^ (B - 1 + M) = sig * 2 ^ (e - 1) * 1
    rw [Nat.mul_one, Nat.mul_assoc, ← Nat.pow_add]
    congr 2; omega
  · next h =>
    show sig * 2 ^ (B - 1 + M) = sig * 2 ^ (e - 1) * 2 ^ (B + M - e)
    rw [Nat.mul_assoc, ← Nat.pow_add]
    congr 2; omega

theorem round_k (M q k : Nat) (hq0 : 0 < q) (hq : q < 2 ^ (M + 1)) (hk : k = 0 ∨ 2 ^ M ≤ q) :
    (if q * 2 ^ k < 2 ^ (M + 1) then 0 else Nat.log2 (q * 2 ^ k) - M) = k := by
  rcases hk with rfl | hk
  · simp [hq]
  · have hlo : 2 ^ (M + k) ≤ q * 2 ^ k := by
      rw [Nat.pow_add]; exact Nat.mul_le_mul_right _ hk
    have hhi : q * 2 ^ k < 2 ^ (M + k + 1) := by
      rw [show M + k + 1 = M + 1 + k by omega, Nat.pow_add]
      exact Nat.mul_lt_mul_of_pos_right hq (Nat.two_pow_pos _)
    have hne : q * 2 ^ k ≠ 0 := Nat.ne_of_gt (Nat.mul_pos hq0 (Nat.two_pow_pos _))
    have hlog : Nat.log2 (q * 2 ^ k) = M + k := (Nat.log2_eq_iff hne).2 ⟨hlo, hhi⟩
    split
    · next hlt =>
      have : 2 ^ (M + k) < 2 ^ (M + 1) := Nat.lt_of_le_of_lt hlo hlt
      have := (Nat.pow_lt_pow_iff_right (by decide : 1 < 2)).1 this
      omega
    · rw [hlog]; omega

/-- (L2) rounding a rational that is exactly `q * 2^k` units of the smallest subnormal -/
theorem Fmt.round_exact (f : Fmt) (num den q k : Nat) (hden : 0 < den) (hq0 : 0 < q)
    (hq : q < 2 ^ (f.mb + 1)) (hk : k = 0 ∨ 2 ^ f.mb ≤ q)
    (h : num * 2 ^ (f.bias - 1 + f.mb) = q * 2 ^ k * den) :
    f.round num den = k * 2 ^ f.mb + q := by
  have hnum : num ≠ 0 := by
    rintro rfl
    rw [Nat.zero_mul] at h
    have := Nat.mul_pos (Nat.mul_pos hq0 (Nat.two_pow_pos k)) hden
    omega
  unfold Fmt.round
  have hb : (num == 0) = false := by simp [hnum]
  simp only [hb, Bool.false_eq_true, if_false]
  rw [h, Nat.mul_div_cancel _ hden, round_k f.mb q k hq0 hq hk]
  have hd : 0 < den * 2 ^ k := Nat.mul_pos hden (Nat.two_pow_pos _)
  have e1 : q * 2 ^ k * den = q * (den * 2 ^ k) := by
    rw [Nat.mul_assoc, Nat.mul_comm (2 ^ k)]
  rw [e1, Nat.mul_div_cancel _ hd, Nat.mul_mod_left]
  have : ¬ (2 * 0 > den * 2 ^ k) := by omega
  have h2 : ¬ (2 * 0 = den * 2 ^ k) := by omega
  simp [this, h2]

theorem Fmt.round_zero (f : Fmt) (den : Nat) : f.round 0 den = 0 := by
  simp [Fmt.round]

/-- from `num/den = value m` to the scaled normal form -/
theorem Fmt.scaled_of_eq (f : Fmt) (he : 2 ≤ f.eb) (m num den : Nat)
    (heq : num * (f.value m).2 = (f.value m).1 * den) :
    num * 2 ^ (f.bias - 1 + f.mb) = (f.sigExp m).1 * 2 ^ ((f.sigExp m).2 - 1) * den := by
  have hv := f.value_spec he m
  have hp := f.value_den_pos m
  apply Nat.eq_of_mul_eq_mul_right hp
  calc num * 2 ^ (f.bias - 1 + f.mb) * (f.value m).2
      = num * (f.value m).2 * 2 ^ (f.bias - 1 + f.mb) := by ac_rfl
    _ = (f.value m).1 * den * 2 ^ (f.bias - 1 + f.mb) := by rw [heq]
    _ = (f.value m).1 * 2 ^ (f.bias - 1 + f.mb) * den := by ac_rfl
    _ = (f.sigExp m).1 * 2 ^ ((f.sigExp m).2 - 1) * (f.value m).2 * den := by rw [hv]
    _ = _ := by ac_rfl

/-- generalisation: any rational equal to the exact value of `m` rounds to `m` -/
theorem Fmt.round_of_eq (f : Fmt) (he : 2 ≤ f.eb) (m : Nat) (num den : Nat) (hden : 0 < den)
    (heq : num * (f.value m).2 = (f.value m).1 * den) : f.round num den = m := by
  have hs := f.scaled_of_eq he m num den heq
  obtain ⟨h1, h2, h3, h4⟩ := f.sigExp_spec m
  by_cases h0 : (f.sigExp m).1 = 0
  · rw [h0, Nat.zero_mul, Nat.zero_mul] at hs
    have hnum : num = 0 := by
      rcases Nat.mul_eq_zero.1 hs with h | h
      · exact h
      · exact absurd h (Nat.ne_of_gt (Nat.two_pow_pos _))
    have hp : 0 < 2 ^ f.mb := Nat.two_pow_pos _
    have hm : m = 0 := by
      rcases h4 with h | h
      · rw [h, h0] at h3; simpa using h3
      · omega
    rw [hnum, hm, Fmt.round_zero]
  · rw [f.round_exact num den _ _ hden (Nat.pos_of_ne_zero h0) h2 (by omega) hs]
    exact h3.symm

set_option linter.unusedVariables false in
theorem Fmt.round_value (f : Fmt) (hm : 1 ≤ f.mb) (he : 2 ≤ f.eb) (m : Nat) (h : m < f.inf) :
    f.round (f.value m).1 (f.value m).2 = m :=
  f.round_of_eq he m _ _ (f.value_den_pos m) rfl

/-- (L2') the exact value of `k * 2^mb + q` -/
theorem Fmt.value_mk (f : Fmt) (he : 2 ≤ f.eb) (k q : Nat) (hq : q < 2 ^ (f.mb + 1))
    (hk : k = 0 ∨ 2 ^ f.mb ≤ q) :
    (f.value (k * 2 ^ f.mb + q)).1 * 2 ^ (f.bias - 1 + f.mb) =
      q * 2 ^ k * (f.value (k * 2 ^ f.mb + q)).2 := by
  have := f.value_spec he (k * 2 ^ f.mb + q)
  rw [f.sigExp_mk k q hq hk] at this
  exact this

theorem cross_cancel (a b c d U S : Nat) (hS : 0 < S) (h1 : a * S = U * b) (h2 : c * S = U * d) :
    a * d = c * b := by
  apply Nat.eq_of_mul_eq_mul_right hS
  calc a * d * S = a * S * d := by ac_rfl
    _ = U * b * d := by rw [h1]
    _ = U * d * b := by ac_rfl
    _ = c * S * b := by rw [h2]
    _ = c * b * S := by ac_rfl

theorem rescale (x y S c sig K a k : Nat) (h : x * 2 ^ S = sig * 2 ^ K * y) (hk : K + c = k + a) :
    x * 2 ^ (S + c) = sig * 2 ^ a * 2 ^ k * y := by
  calc x * 2 ^ (S + c) = x * 2 ^ S * 2 ^ c := by rw [Nat.pow_add, Nat.mul_assoc]
    _ = sig * 2 ^ K * y * 2 ^ c := by rw [h]
    _ = sig * (2 ^ K * 2 ^ c) * y := by ac_rfl
    _ = sig * (2 ^ a * 2 ^ k) * y := by rw [← Nat.pow_add, hk, Nat.add_comm k a, Nat.pow_add]
    _ = _ := by ac_rfl

theorem Fmt.inf_pos (f : Fmt) (he : 2 ≤ f.eb) : 0 < f.inf := by
  unfold Fmt.inf Fmt.expMax
  have : 2 ^ 2 ≤ 2 ^ f.eb := Nat.pow_le_pow_right (by decide) he
  exact Nat.mul_pos (by omega) (Nat.two_pow_pos _)

theorem Fmt.value_zero (f : Fmt) : (f.value 0).1 = 0 := by
  have h : f.sigExp 0 = (0, 1) := by simp [Fmt.sigExp_eq]
  rw [Fmt.value_eq, h]
  split <;> simp

/-- exact widening: a rational equal to a finite value of `f` rounds in the wider format `g` to a finite
    magnitude with the same value -/
theorem widen_exact (f g : Fmt) (hfe : 2 ≤ f.eb) (hge : 2 ≤ g.eb) (hmb : f.mb ≤ g.mb)
    (hoff : f.bias + f.mb ≤ g.bias) (hrange : 2 ^ f.eb + g.bias ≤ 2 ^ g.eb + f.bias)
    (m : Nat) (hm : m < f.inf) (num den : Nat) (hden : 0 < den)
    (heq : num * (f.value m).2 = (f.value m).1 * den) :
    g.round num den < g.inf ∧
    (g.value (g.round num den)).1 * (f.value m).2 = (f.value m).1 * (g.value (g.round num den)).2 := by
  have hs := f.scaled_of_eq hfe m num den heq
  have hfv := f.value_spec hfe m
  obtain ⟨h1, h2, h3, h4⟩ := f.sigExp_spec m
  have hfb := f.bias_pos hfe
  have hgb := g.bias_pos hge
  generalize (f.sigExp m).1 = sig at *
  generalize (f.sigExp m).2 = e at *
  by_cases h0 : sig = 0
  · subst h0
    rw [Nat.zero_mul, Nat.zero_mul] at hs
    have hnum : num = 0 := by
      rcases Nat.mul_eq_zero.1 hs with h | h
      · exact h
      · exact absurd h (Nat.ne_of_gt (Nat.two_pow_pos _))
    have hp : 0 < 2 ^ f.mb := Nat.two_pow_pos _
    have hm0 : m = 0 := by
      rcases h4 with h | h
      · rw [h] at h3; simpa using h3
      · omega
    subst hnum; subst hm0
    rw [Fmt.round_zero, Fmt.value_zero, Fmt.value_zero, Nat.zero_mul, Nat.zero_mul]
    exact ⟨g.inf_pos hge, rfl⟩
  · -- normalise the significand
    have hL1 : 2 ^ sig.log2 ≤ sig := Nat.log2_self_le h0
    have hL2 : sig < 2 ^ (sig.log2 + 1) := Nat.lt_log2_self
    have hL3 : sig.log2 ≤ f.mb := by
      have := (Nat.log2_lt h0).2 h2; omega
    generalize sig.log2 = L at *
    obtain ⟨a, ha⟩ : ∃ a, g.mb = L + a := ⟨g.mb - L, by omega⟩
    obtain ⟨c, hc⟩ : ∃ c, g.bias - 1 + g.mb = (f.bias - 1 + f.mb) + c :=
      ⟨(g.bias - 1 + g.mb) - (f.bias - 1 + f.mb), by omega⟩
    obtain ⟨k, hk⟩ : ∃ k, (e - 1) + c = k + a := ⟨(e - 1) + c - a, by omega⟩
    have hq1 : 2 ^ g.mb ≤ sig * 2 ^ a := by
      rw [ha, Nat.pow_add]; exact Nat.mul_le_mul_right _ hL1
    have hq2 : sig * 2 ^ a < 2 ^ (g.mb + 1) := by
      rw [ha, show L + a + 1 = L + 1 + a by omega, Nat.pow_add]
      exact Nat.mul_lt_mul_of_pos_right hL2 (Nat.two_pow_pos _)
    have hq0 : 0 < sig * 2 ^ a := Nat.mul_pos (Nat.pos_of_ne_zero h0) (Nat.two_pow_pos _)
    have hs' : num * 2 ^ (g.bias - 1 + g.mb) = sig * 2 ^ a * 2 ^ k * den := by
      rw [hc]; exact rescale _ _ _ _ _ _ _ _ hs hk
    have hfv' : (f.value m).1 * 2 ^ (g.bias - 1 + g.mb) = sig * 2 ^ a * 2 ^ k * (f.value m).2 := by
      rw [hc]; exact rescale _ _ _ _ _ _ _ _ hfv hk
    have hr := g.round_exact num den _ k hden hq0 hq2 (Or.inr hq1) hs'
    have hgv := g.value_mk hge k _ hq2 (Or.inr hq1)
    rw [hr]
    refine ⟨?_, cross_cancel _ _ _ _ _ _ (Nat.two_pow_pos _) hgv hfv'⟩
    -- range
    have hK : e + 2 ≤ 2 ^ f.eb := by
      have h4' : 2 ^ 2 ≤ 2 ^ f.eb := Nat.pow_le_pow_right (by decide) hfe
      rcases h4 with h | h
      · omega
      · unfold Fmt.inf Fmt.expMax at hm
        have : (e - 1 + 1) * 2 ^ f.mb < (2 ^ f.eb - 1) * 2 ^ f.mb := by
          rw [Nat.add_mul, Nat.one_mul]; omega
        have := Nat.lt_of_mul_lt_mul_right this
        omega
    have hk3 : k + 3 ≤ 2 ^ g.eb := by omega
    unfold Fmt.inf Fmt.expMax
    have : (k + 2) * 2 ^ g.mb ≤ (2 ^ g.eb - 1) * 2 ^ g.mb := Nat.mul_le_mul_right _ (by omega)
    have hs2 : 2 ^ (g.mb + 1) = 2 * 2 ^ g.mb := by rw [Nat.pow_succ, Nat.mul_comm]
    rw [Nat.add_mul] at this
    omega

theorem Fmt.inf_lt_signBit (f : Fmt) : f.inf < f.signBit := by
  unfold Fmt.inf Fmt.expMax Fmt.signBit
  rw [Nat.pow_add]
  have := Nat.two_pow_pos f.eb
  exact Nat.mul_lt_mul_of_pos_right (by omega) (Nat.two_pow_pos _)

theorem Fmt.mag_sign_add (f : Fmt) (s : Bool) (m : Nat) (hm : m < f.signBit) :
    f.mag ((if s then f.signBit else 0) + m) = m := by
  unfold Fmt.mag
  cases s
  · simpa using Nat.mod_eq_of_lt hm
  · simp only [if_true]
    rw [Nat.add_mod_left, Nat.mod_eq_of_lt hm]

theorem Fmt.neg_sign_add (f : Fmt) (s : Bool) (m : Nat) (hm : m < f.signBit) :
    f.neg ((if s then f.signBit else 0) + m) = s := by
  unfold Fmt.neg
  have hp : 0 < f.signBit := Nat.two_pow_pos _
  cases s
  · simp [Nat.div_eq_of_lt hm]
  · simp only [if_true]
    rw [Nat.add_div_left _ hp, Nat.div_eq_of_lt hm]
    rfl

theorem Fmt.sign_add_mag (f : Fmt) (b : Nat) (hb : b < 2 ^ f.bits) :
    (if f.neg b then f.signBit else 0) + f.mag b = b := by
  unfold Fmt.neg Fmt.mag
  have hp : 0 < f.signBit := Nat.two_pow_pos _
  have hb' : b < 2 * f.signBit := by
    unfold Fmt.bits at hb
    unfold Fmt.signBit
    rw [show 1 + f.eb + f.mb = (f.eb + f.mb) + 1 by omega, Nat.pow_succ] at hb
    omega
  have hd : b / f.signBit < 2 := (Nat.div_lt_iff_lt_mul hp).2 hb'
  have hdm := Nat.div_add_mod b f.signBit
  generalize b / f.signBit = d at *
  have : d = 0 ∨ d = 1 := by omega
  rcases this with rfl | rfl
  · simp at hdm ⊢; exact hdm
  · simp at hdm ⊢; exact hdm

theorem convert_eq (src dst : Fmt) (m : Nat) :
    convert src dst m = min (dst.round (src.value m).1 (src.value m).2) dst.inf := rfl

/-- sign and magnitude of a converted pattern whose magnitude stays finite -/
theorem convertBits_neg (f g : Fmt) (b : Nat) (h : convert f g (f.mag b) < g.inf) :
    g.neg (convertBits f g b) = f.neg b :=
  g.neg_sign_add _ _ (Nat.lt_trans h g.inf_lt_signBit)

theorem convertBits_mag (f g : Fmt) (b : Nat) (h : convert f g (f.mag b) < g.inf) :
    g.mag (convertBits f g b) = convert f g (f.mag b) :=
  g.mag_sign_add _ _ (Nat.lt_trans h g.inf_lt_signBit)

theorem convertBits_finite (f g : Fmt) (b : Nat) (h : convert f g (f.mag b) < g.inf) :
    convertBits f g b < 2 ^ g.bits ∧ g.isFinite (convertBits f g b) = true := by
  constructor
  · have h2 : convert f g (f.mag b) < g.signBit := Nat.lt_trans h g.inf_lt_signBit
    have hbits : 2 ^ g.bits = 2 * g.signBit := by
      unfold Fmt.bits Fmt.signBit
      rw [show 1 + g.eb + g.mb = (g.eb + g.mb) + 1 by omega, Nat.pow_succ, Nat.mul_comm]
    unfold convertBits
    rw [hbits]
    split <;> omega
  · unfold Fmt.isFinite
    rw [convertBits_mag f g b h]
    simpa using h

/-- widening conversion of a finite magnitude is exact -/
theorem convert_widen (f g : Fmt) (hfe : 2 ≤ f.eb) (hge : 2 ≤ g.eb) (hmb : f.mb ≤ g.mb)
    (hoff : f.bias + f.mb ≤ g.bias) (hrange : 2 ^ f.eb + g.bias ≤ 2 ^ g.eb + f.bias)
    (m : Nat) (hm : m < f.inf) :
    convert f g m < g.inf ∧
    (g.value (convert f g m)).1 * (f.value m).2 = (f.value m).1 * (g.value (convert f g m)).2 := by
  obtain ⟨h1, h2⟩ := widen_exact f g hfe hge hmb hoff hrange m hm _ _ (f.value_den_pos m) rfl
  rw [convert_eq, Nat.min_eq_left (Nat.le_of_lt h1)]
  exact ⟨h1, h2⟩

/-- converting any finite magnitude of another format whose value equals that of `m` gives `m` back -/
theorem convert_of_eq (g f : Fmt) (he : 2 ≤ f.eb) (m m' : Nat) (hm : m < f.inf)
    (heq : (g.value m').1 * (f.value m).2 = (f.value m).1 * (g.value m').2) :
    convert g f m' = m := by
  rw [convert_eq, f.round_of_eq he m _ _ (g.value_den_pos m') heq, Nat.min_eq_left (Nat.le_of_lt hm)]

theorem convert_self (f : Fmt) (he : 2 ≤ f.eb) (m : Nat) (hm : m < f.inf) : convert f f m = m :=
  convert_of_eq f f he m m hm rfl

theorem convert_widen_narrow (f g : Fmt) (hfe : 2 ≤ f.eb) (hge : 2 ≤ g.eb) (hmb : f.mb ≤ g.mb)
    (hoff : f.bias + f.mb ≤ g.bias) (hrange : 2 ^ f.eb + g.bias ≤ 2 ^ g.eb + f.bias)
    (m : Nat) (hm : m < f.inf) :
    convert g f (convert f g m) = m :=
  convert_of_eq g f hfe m _ hm (convert_widen f g hfe hge hmb hoff hrange m hm).2

theorem convertBits_self (f : Fmt) (he : 2 ≤ f.eb) (b : Nat) (hb : b < 2 ^ f.bits)
    (hfin : f.isFinite b = true) : convertBits f f b = b := by
  have hm : f.mag b < f.inf := by simpa [Fmt.isFinite] using hfin
  unfold convertBits
  rw [convert_self f he _ hm, f.sign_add_mag b hb]

theorem convertBits_widen_narrow (f g : Fmt) (hfe : 2 ≤ f.eb) (hge : 2 ≤ g.eb) (hmb : f.mb ≤ g.mb)
    (hoff : f.bias + f.mb ≤ g.bias) (hrange : 2 ^ f.eb + g.bias ≤ 2 ^ g.eb + f.bias)
    (b : Nat) (hb : b < 2 ^ f.bits) (hfin : f.isFinite b = true) :
    convertBits g f (convertBits f g b) = b := by
  have hm : f.mag b < f.inf := by simpa [Fmt.isFinite] using hfin
  have hw := (convert_widen f g hfe hge hmb hoff hrange _ hm).1
  show (if g.neg (convertBits f g b) then f.signBit else 0) + convert g f (g.mag (convertBits f g b)) = b
  rw [convertBits_neg f g b hw, convertBits_mag f g b hw,
    convert_widen_narrow f g hfe hge hmb hoff hrange _ hm, f.sign_add_mag b hb]

/-- widening `f → g`, then narrowing `g → h → f` through an intermediate format `h` wider than `f` -/
theorem convertBits_widen_narrow_via (f h g : Fmt) (hfe : 2 ≤ f.eb) (hhe : 2 ≤ h.eb) (hge : 2 ≤ g.eb)
    (hmb : f.mb ≤ g.mb) (hoff : f.bias + f.mb ≤ g.bias) (hrange : 2 ^ f.eb + g.bias ≤ 2 ^ g.eb + f.bias)
    (hmb' : f.mb ≤ h.mb) (hoff' : f.bias + f.mb ≤ h.bias) (hrange' : 2 ^ f.eb + h.bias ≤ 2 ^ h.eb + f.bias)
    (b : Nat) (hb : b < 2 ^ f.bits) (hfin : f.isFinite b = true) :
    convertBits h f (convertBits g h (convertBits f g b)) = b := by
  have hm : f.mag b < f.inf := by simpa [Fmt.isFinite] using hfin
  obtain ⟨hw, hv⟩ := convert_widen f g hfe hge hmb hoff hrange _ hm
  -- the middle step is again an exact rounding of the same value
  obtain ⟨hw2, hv2⟩ := widen_exact f h hfe hhe hmb' hoff' hrange' _ hm _ _
    (g.value_den_pos (convert f g (f.mag b))) hv
  have hc2 : convert g h (convert f g (f.mag b)) =
      h.round (g.value (convert f g (f.mag b))).1 (g.value (convert f g (f.mag b))).2 := by
    rw [convert_eq, Nat.min_eq_left (Nat.le_of_lt hw2)]
  rw [← hc2] at hw2 hv2
  have hw2' : convert g h (g.mag (convertBits f g b)) < h.inf := by
    rw [convertBits_mag f g b hw]; exact hw2
  show (if h.neg (convertBits g h (convertBits f g b)) then f.signBit else 0)
      + convert h f (h.mag (convertBits g h (convertBits f g b))) = b
  rw [convertBits_neg g h _ hw2', convertBits_mag g h _ hw2', convertBits_neg f g b hw,
    convertBits_mag f g b hw, convert_of_eq h f hfe _ _ hm hv2, f.sign_add_mag b hb]

end Zarrs.Float

namespace Zarrs.FillMeta
open Zarrs.Float

theorem narrow_widen (how : Narrow) (f : Fmt) (hf : f = f16 ∨ f = bf16 ∨ f = f32 ∨ f = f64) (b : Nat)
    (hb : b < 2 ^ f.bits) (hfin : f.isFinite b = true) :
    narrow how f (convertBits f f64 b) = b := by
  rcases hf with rfl | rfl | rfl | rfl
  · cases how
    · have : narrow .direct f16 (convertBits f16 f64 b) = convertBits f64 f16 (convertBits f16 f64 b) := rfl
      rw [this]
      exact convertBits_widen_narrow f16 f64 (by decide) (by decide) (by decide) (by decide) (by decide) b hb hfin
    · have : narrow .viaF32 f16 (convertBits f16 f64 b) =
          convertBits f32 f16 (convertBits f64 f32 (convertBits f16 f64 b)) := rfl
      rw [this]
      exact convertBits_widen_narrow_via f16 f32 f64 (by decide) (by decide) (by decide) (by decide)
        (by decide) (by decide) (by decide) (by decide) (by decide) b hb hfin
  · have : narrow how bf16 (convertBits bf16 f64 b) = convertBits f64 bf16 (convertBits bf16 f64 b) := by
      cases how <;> rfl
    rw [this]
    exact convertBits_widen_narrow bf16 f64 (by decide) (by decide) (by decide) (by decide) (by decide) b hb hfin
  · have : narrow how f32 (convertBits f32 f64 b) = convertBits f64 f32 (convertBits f32 f64 b) := by
      cases how <;> rfl
    rw [this]
    exact convertBits_widen_narrow f32 f64 (by decide) (by decide) (by decide) (by decide) (by decide) b hb hfin
  · have : narrow how f64 (convertBits f64 f64 b) = convertBits f64 f64 b := rfl
    rw [this]
    exact convertBits_self f64 (by decide) b hb hfin

theorem widen_finite (f : Fmt) (hf : f = f16 ∨ f = bf16 ∨ f = f32 ∨ f = f64) (b : Nat)
    (hb : b < 2 ^ f.bits) (hfin : f.isFinite b = true) :
    convertBits f f64 b < 2 ^ 64 ∧ f64.isFinite (convertBits f f64 b) = true := by
  have hm : f.mag b < f.inf := by simpa [Fmt.isFinite] using hfin
  have h64 : f64.bits = 64 := by decide
  rw [← h64]
  apply convertBits_finite
  rcases hf with rfl | rfl | rfl | rfl
  · exact (convert_widen f16 f64 (by decide) (by decide) (by decide) (by decide) (by decide) _ hm).1
  · exact (convert_widen bf16 f64 (by decide) (by decide) (by decide) (by decide) (by decide) _ hm).1
  · exact (convert_widen f32 f64 (by decide) (by decide) (by decide) (by decide) (by decide) _ hm).1
  · rw [convert_self f64 (by decide) _ hm]; exact hm

end Zarrs.FillMeta
