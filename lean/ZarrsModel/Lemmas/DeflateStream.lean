import ZarrsModel.Lemmas.DeflateHeader
set_option Elab.async false
/-
Blocks and streams: `blocks` / `inflate` of the reader on any sequence of stored, fixed and dynamic blocks.
-/
namespace Zarrs.DeflateSpec
open Zarrs Zarrs.Inflate

/-! ### the three block types -/

theorem fixedLit_valid : validLens fixedLitLens = true := by decide +kernel
theorem fixedDist_valid : validLens fixedDistLens = true := by decide +kernel

theorem padBits_length (fill : Bits) (k : Nat) : (padBits fill k).length = k := by simp [padBits]

theorem alignBits_drop (total : Nat) (pad x : Bits) (ht : total % 8 = 0) (hk : pad.length < 8)
    (hx : x.length % 8 = 0) : alignBits total (pad ++ x) = x := by
  unfold alignBits
  have : ((pad ++ x).length + 8 - total % 8) % 8 = pad.length := by
    simp only [List.length_append]; omega
  rw [this]
  simp

theorem blocks_stored_hd (total fuel : Nat) (f : Bool) (pad : Bits) (data : Bytes) (tail : Bits) (out : Array Nat)
    (ht : total % 8 = 0) (hk : pad.length < 8) (hx : tail.length % 8 = 0) (hl : data.length ≤ 65535)
    (hd : ∀ x ∈ data, x < 256) :
    blocks total (fuel + 1)
      (f :: false :: false :: (pad ++ (toBits (le16 data.length ++ le16 (65535 - data.length) ++ data) ++ tail))) out =
      if f then some (tail, out ++ data.toArray) else blocks total fuel tail (out ++ data.toArray) := by
  have hlen : (toBits (le16 data.length ++ le16 (65535 - data.length) ++ data) ++ tail).length % 8 = 0 := by
    simp only [List.length_append, toBits_length]; omega
  have hsum : data.length + (65535 - data.length) = 65535 := by omega
  have hb : toBits (le16 data.length ++ le16 (65535 - data.length) ++ data) ++ tail =
      toBits (le16 data.length) ++ (toBits (le16 (65535 - data.length)) ++ (toBits data ++ tail)) := by
    simp only [toBits_append, List.append_assoc]
  cases f
  · rw [blocks]
    simp only [takeBits, Option.map_some, Nat.mul_zero, Nat.add_zero, Bool.false_eq_true, if_false]
    simp only [beq_self_eq_true, if_true]
    rw [alignBits_drop _ _ _ ht hk hlen, hb, takeBits16_le16 _ _ (by omega)]
    simp only
    rw [takeBits16_le16 _ _ (by omega)]
    simp only [hsum, bne_self_eq_false, Bool.false_eq_true, if_false]
    rw [takeBytes_toBits _ _ _ hd]
    simp
  · rw [blocks]
    simp only [takeBits, Option.map_some, Nat.mul_zero, Nat.add_zero, Bool.false_eq_true, if_false, if_true]
    simp only [beq_self_eq_true, if_true]
    rw [alignBits_drop _ _ _ ht hk hlen, hb, takeBits16_le16 _ _ (by omega)]
    simp only
    rw [takeBits16_le16 _ _ (by omega)]
    simp only [hsum, bne_self_eq_false, Bool.false_eq_true, if_false]
    rw [takeBytes_toBits _ _ _ hd]

theorem blocks_fixed_hd (total fuel : Nat) (f : Bool) (bs tail : Bits) (out res : Array Nat)
    (hres : blockLoop (mkHuff fixedLitLens) (mkHuff fixedDistLens) (bs.length + 1) bs out = some (tail, res)) :
    blocks total (fuel + 1) (f :: true :: false :: bs) out =
      if f then some (tail, res) else blocks total fuel tail res := by
  have h10 : ((1 : Nat) == 0) = false := by decide
  cases f
  · rw [blocks]
    simp only [takeBits, Option.map_some, if_true, Bool.false_eq_true, if_false, Nat.mul_zero, Nat.add_zero]
    simp only [h10, Bool.false_eq_true, if_false, beq_self_eq_true, if_true]
    rw [hres]
    simp
  · rw [blocks]
    simp only [takeBits, Option.map_some, if_true, Bool.false_eq_true, if_false, Nat.mul_zero, Nat.add_zero]
    simp only [h10, Bool.false_eq_true, if_false, beq_self_eq_true, if_true]
    rw [hres]

theorem blocks_dynamic_hd (total fuel : Nat) (f : Bool) (bs b1 tail : Bits) (out res : Array Nat) (L D : Huff)
    (htab : dynamicTables bs = some (L, D, b1))
    (hres : blockLoop L D (b1.length + 1) b1 out = some (tail, res)) :
    blocks total (fuel + 1) (f :: false :: true :: bs) out =
      if f then some (tail, res) else blocks total fuel tail res := by
  have h20 : ((2 : Nat) == 0) = false := by decide
  have h21 : ((2 : Nat) == 1) = false := by decide
  cases f
  · rw [blocks]
    simp only [takeBits, Option.map_some, if_true, Bool.false_eq_true, if_false, Nat.mul_zero, Nat.add_zero,
      Nat.zero_add, Nat.mul_one]
    simp only [h20, h21, Bool.false_eq_true, if_false, beq_self_eq_true, if_true]
    rw [htab]
    simp only
    rw [hres]
    simp
  · rw [blocks]
    simp only [takeBits, Option.map_some, if_true, Bool.false_eq_true, if_false, Nat.mul_zero, Nat.add_zero,
      Nat.zero_add, Nat.mul_one]
    simp only [h20, h21, Bool.false_eq_true, if_false, beq_self_eq_true, if_true]
    rw [htab]
    simp only
    rw [hres]

/-! ### one block of any kind -/

theorem encodeBlock_length (pos : Nat) (final : Bool) (b : Block) (bits : Bits)
    (he : encodeBlock pos final b = some bits) : 3 ≤ bits.length := by
  cases b with
  | stored fill data =>
    simp only [encodeBlock] at he
    split at he
    · simp only [Option.some.injEq] at he; subst he; simp
    · cases he
  | fixed toks =>
    simp only [encodeBlock] at he
    split at he
    · simp only [Option.some.injEq] at he; subst he; simp
    · cases he
  | dynamic h toks =>
    simp only [encodeBlock] at he
    split at he
    · split at he
      · simp only [Option.some.injEq] at he; subst he; simp
      · cases he
    · cases he

theorem blocks_block (total fuel pos : Nat) (final : Bool) (b : Block) (bits tail : Bits) (out : Array Nat)
    (res : Bytes) (he : encodeBlock pos final b = some bits) (hr : renderBlock out.toList b = some res)
    (ht : total % 8 = 0) (hal : (pos + (bits ++ tail).length) % 8 = 0) :
    blocks total (fuel + 1) (bits ++ tail) out =
      if final then some (tail, res.toArray) else blocks total fuel tail res.toArray := by
  cases b with
  | stored fill data =>
    simp only [encodeBlock] at he
    simp only [renderBlock, Option.some.injEq] at hr
    subst hr
    split at he
    · rename_i hd
      simp only [Option.some.injEq] at he
      subst he
      have hd2 : ∀ x ∈ data, x < 256 := by
        have := hd.2
        simp only [List.all_eq_true, decide_eq_true_eq] at this
        exact this
      have hk : (padBits fill ((8 - (pos + 3) % 8) % 8)).length < 8 := by rw [padBits_length]; omega
      have hx : tail.length % 8 = 0 := by
        simp only [List.length_append, List.length_cons, List.length_nil, padBits_length, toBits_length] at hal
        omega
      have := blocks_stored_hd total fuel final _ data tail out ht hk hx hd.1 hd2
      simp only [List.cons_append, List.nil_append, List.append_assoc] at this ⊢
      rw [this]
      have e : (out.toList ++ data).toArray = out ++ data.toArray := by
        rcases out with ⟨l⟩
        simp
      rw [e]
    · cases he
  | fixed toks =>
    simp only [encodeBlock] at he
    simp only [renderBlock] at hr
    cases ht' : encTokens fixedLitLens fixedDistLens toks with
    | none => simp [ht'] at he
    | some t =>
      simp only [ht', Option.some.injEq] at he
      subst he
      have hlen := encTokens_length _ _ _ _ ht'
      have hres := blockLoop_tokens fixedLitLens fixedDistLens fixedLit_valid fixedDist_valid toks t tail out res
        ((t ++ tail).length + 1) ht' hr (by simp only [List.length_append]; omega)
      have := blocks_fixed_hd total fuel final (t ++ tail) tail out res.toArray hres
      simp only [List.cons_append, List.nil_append] at this ⊢
      exact this
  | dynamic h toks =>
    simp only [encodeBlock] at he
    simp only [renderBlock] at hr
    by_cases hok : h.ok = true
    · rw [if_pos hok] at he
      cases hh : encHeader h with
      | none => simp [hh] at he
      | some hb =>
        cases ht' : encTokens h.litLens h.distLens toks with
        | none => simp [hh, ht'] at he
        | some t =>
          simp only [hh, ht', Option.some.injEq] at he
          subst he
          obtain ⟨_, _, _, _, _, _, vl, vd, _, _⟩ := DynHeader.ok_iff h hok
          have hlen := encTokens_length _ _ _ _ ht'
          have htab := dynamicTables_header h hok hb (t ++ tail) hh
          have hres := blockLoop_tokens h.litLens h.distLens vl vd toks t tail out res
            ((t ++ tail).length + 1) ht' hr (by simp only [List.length_append]; omega)
          have := blocks_dynamic_hd total fuel final (hb ++ (t ++ tail)) (t ++ tail) tail out res.toArray _ _ htab hres
          simp only [List.cons_append, List.nil_append, List.append_assoc] at this ⊢
          exact this
    · rw [if_neg hok] at he; cases he

/-! ### sequences of blocks -/

theorem encodeBlocks_length (pos : Nat) (bl : List Block) (bits : Bits) (he : encodeBlocks pos bl = some bits) :
    bl.length ≤ bits.length := by
  induction bl generalizing pos bits with
  | nil => simp [encodeBlocks] at he
  | cons b bs ih =>
    cases bs with
    | nil =>
      simp only [encodeBlocks] at he
      have := encodeBlock_length _ _ _ _ he
      simp only [List.length_cons, List.length_nil]; omega
    | cons b' bs =>
      simp only [encodeBlocks] at he
      cases hx : encodeBlock pos false b with
      | none => simp [hx] at he
      | some x =>
        cases hy : encodeBlocks (pos + x.length) (b' :: bs) with
        | none => simp [hx, hy] at he
        | some y =>
          simp only [hx, hy, Option.some.injEq] at he
          subst he
          have h1 := encodeBlock_length _ _ _ _ hx
          have h2 := ih _ _ hy
          simp only [List.length_cons, List.length_append] at h2 ⊢
          omega

theorem blocks_stream (total : Nat) (bl : List Block) (pos fuel : Nat) (bits tail : Bits) (out : Array Nat)
    (res : Bytes) (he : encodeBlocks pos bl = some bits) (hr : renderBlocks bl out.toList = some res)
    (ht : total % 8 = 0) (hal : (pos + (bits ++ tail).length) % 8 = 0) (hf : bl.length ≤ fuel) :
    blocks total fuel (bits ++ tail) out = some (tail, res.toArray) := by
  induction bl generalizing pos fuel bits out with
  | nil => simp [encodeBlocks] at he
  | cons b bs ih =>
    obtain ⟨fuel, rfl⟩ : ∃ f, fuel = f + 1 := ⟨fuel - 1, by simp only [List.length_cons] at hf; omega⟩
    simp only [renderBlocks] at hr
    cases hrb : renderBlock out.toList b with
    | none => simp [hrb] at hr
    | some mid =>
      simp only [hrb] at hr
      cases bs with
      | nil =>
        simp only [encodeBlocks] at he
        simp only [renderBlocks, Option.some.injEq] at hr
        subst hr
        rw [blocks_block total fuel pos true b bits tail out mid he hrb ht hal]
        simp
      | cons b' bs =>
        simp only [encodeBlocks] at he
        cases hx : encodeBlock pos false b with
        | none => simp [hx] at he
        | some x =>
          cases hy : encodeBlocks (pos + x.length) (b' :: bs) with
          | none => simp [hx, hy] at he
          | some y =>
            simp only [hx, hy, Option.some.injEq] at he
            subst he
            rw [List.append_assoc] at hal ⊢
            rw [blocks_block total fuel pos false b x (y ++ tail) out mid hx hrb ht hal]
            simp only [Bool.false_eq_true, if_false]
            exact ih (pos + x.length) fuel y mid.toArray hy (by simpa using hr)
              (by simp only [List.length_append] at hal ⊢; omega)
              (by simp only [List.length_cons] at hf ⊢; omega)

/-! ### bytes -/

theorem toBits_fromBits_aligned (bits : Bits) (h : bits.length % 8 = 0) : toBits (fromBits bits) = bits := by
  obtain ⟨k, hk, hk2⟩ := toBits_fromBitsAux (bits.length + 1) bits (Nat.lt_succ_self _)
  have hl := congrArg List.length hk2
  rw [toBits_length, List.length_append, List.length_replicate] at hl
  have : k = 0 := by omega
  subst this
  simpa [fromBits] using hk2

theorem fromBits_wf (bits : Bits) : ∀ x ∈ fromBits bits, x < 256 := fromBitsAux_wf _ _

/-- **any conformant stream inflates to the rendering of its blocks**, whatever follows it -/
theorem inflate_encodeStream (bl : List Block) (fill : Bits) (bytes out rest : Bytes)
    (he : encodeStream bl fill = some bytes) (hr : renderBlocks bl [] = some out) :
    inflate (bytes ++ rest) = some (out, rest) := by
  unfold encodeStream at he
  cases hb : encodeBlocks 0 bl with
  | none => simp [hb] at he
  | some bits =>
    simp only [hb, Option.some.injEq] at he
    subst he
    generalize hpad : padBits fill ((8 - bits.length % 8) % 8) = pad
    have hpl : pad.length = (8 - bits.length % 8) % 8 := by rw [← hpad, padBits_length]
    have hal : (bits ++ pad).length % 8 = 0 := by simp only [List.length_append]; omega
    have htb : toBits (fromBits (bits ++ pad) ++ rest) = bits ++ (pad ++ toBits rest) := by
      rw [toBits_append, toBits_fromBits_aligned _ hal, List.append_assoc]
    have htot : (toBits (fromBits (bits ++ pad) ++ rest)).length % 8 = 0 := by rw [toBits_length]; omega
    have hbl := encodeBlocks_length 0 bl bits hb
    have hblk := blocks_stream (toBits (fromBits (bits ++ pad) ++ rest)).length bl 0
      ((toBits (fromBits (bits ++ pad) ++ rest)).length + 1) bits (pad ++ toBits rest) #[] out hb hr htot
      (by rw [Nat.zero_add, ← htb]; exact htot)
      (by rw [htb]; simp only [List.length_append]; omega)
    rw [← htb] at hblk
    unfold inflate
    simp only
    rw [hblk]
    simp only
    rw [alignBits_drop _ pad (toBits rest) htot (by omega) (by rw [toBits_length]; omega)]
    rw [toBits_length]
    have : 8 * rest.length / 8 = rest.length := by omega
    rw [this]
    simp

end Zarrs.DeflateSpec
