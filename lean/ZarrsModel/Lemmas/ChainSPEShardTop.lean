import ZarrsModel.Lemmas.ChainSPEMain
set_option Elab.async false
/- helper lemmas for C05 on chains, part 14: one `partial_encode` call on a chain with a sharding codec -/
namespace Zarrs.Partial
open Zarrs Zarrs.Codec Zarrs.Subset Zarrs.Shard Zarrs.ShardPE

/-- the relation of the invariant between stored bytes of an inner chunk and its piece -/
def InnerR (inner : ChainS) (ish : Shape) (es : Nat) (fill : Elem) (b : Bytes) (p : List Elem) : Prop :=
  inner.Stores ish fill b p ∧ p.length = prod ish ∧ ∀ x ∈ p, x.length = es

/-- the body of `Stores` for a sharding level, on the array-to-array encoded chunk `ys` of shape `shB` -/
def ShardBody (cfg : Cfg) (ish : Shape) (es : Nat) (inner : ChainS) (b2b : List BStage) (fill : Elem) (shB : Shape)
    (v : Option Bytes) (ys : List Elem) : Prop :=
  match v with
  | none => True
  | some b => ∃ v0 chunks, b = encB b2b v0 ∧ St { cfg with nChunks := prod (zipDiv shB ish) } (some v0) chunks ∧
      ChunksHold fill ish (InnerR inner ish es fill) chunks (splitShard shB ish ys)

theorem stores_iff_body (a2a : List AStage) (cfg : Cfg) (ish : Shape) (es : Nat) (inner : ChainS) (b2b : List BStage)
    (sh : Shape) (fill : Elem) (b : Bytes) (xs : List Elem)
    (hp : ∀ p ∈ splitShard (shapesOf a2a sh) ish (aEnc a2a sh xs), p.length = prod ish ∧ ∀ x ∈ p, x.length = es) :
    (ChainS.shard a2a cfg ish es inner b2b).Stores sh fill b xs ↔
      ShardBody cfg ish es inner b2b fill (shapesOf a2a sh) (some b) (aEnc a2a sh xs) := by
  simp only [ChainS.Stores, ShardBody, ChunksHold]
  constructor
  · rintro ⟨v0, chunks, h1, h2, h3, h4⟩
    refine ⟨v0, chunks, h1, h2, h3, ?_⟩
    intro i i1 i2
    have := h4 i i1 i2
    split
    · rename_i heq; rw [heq] at this; exact this
    · rename_i b' heq
      rw [heq] at this
      exact ⟨this.1, this.2, hp _ (List.getElem_mem i2)⟩
  · rintro ⟨v0, chunks, h1, h2, h3, h4⟩
    refine ⟨v0, chunks, h1, h2, h3, ?_⟩
    intro i i1 i2
    have := h4 i i1 i2
    split
    · rename_i heq; rw [heq] at this; exact this
    · rename_i b' heq
      rw [heq] at this
      exact ⟨this.1, this.2.1⟩

theorem stores_tail (pre rest : List AStage) (cfg : Cfg) (ish : Shape) (es : Nat) (inner : ChainS) (b2b : List BStage)
    (sh : Shape) (fill : Elem) (b : Bytes) (xs : List Elem) :
    (ChainS.shard (pre ++ rest) cfg ish es inner b2b).Stores sh fill b xs ↔
      (ChainS.shard rest cfg ish es inner b2b).Stores (shapesOf pre sh) fill b (aEnc pre sh xs) := by
  simp only [ChainS.Stores, shapesOf_append, aEnc_append]

/-- the array-to-bytes level: `shardPE` on the array-to-array encoded chunk -/
theorem shardLevel_step (cfg : Cfg) (ish : Shape) (es : Nat) (inner : ChainS) (b2b : List BStage) (fill : Elem)
    (shB : Shape) (ht : tiles ish shB = true) (hfl : fill.length = es) (hies : inner.es = es)
    (hiok : inner.okWith aOk BOk2 ish fill) (hb : ∀ st ∈ b2b, BOk st)
    (hism : inner.small ish) (m : Nat) (hm : inner.bound ish = some m)
    (v : Option Bytes) (ys : List Elem) (hyl : ys.length = prod shB) (hye : ∀ y ∈ ys, y.length = es)
    (hv : match v with
      | none => ys = List.replicate (prod shB) fill
      | some _ => ShardBody cfg ish es inner b2b fill shB v ys)
    (hlen : ((v.bind (decodeB2B b2b)).getD []).length + prod (zipDiv shB ish) * m +
      indexSize { cfg with nChunks := prod (zipDiv shB ish) } < sentinel)
    (ws : List RWrite) (hws : ∀ w ∈ ws, writeOk es shB w) :
    ∃ v', shardPE cfg ish es inner b2b shB fill v ws = some v' ∧
      ShardBody cfg ish es inner b2b fill shB v' (applyRegionWrites shB ys ws) ∧
      (v' = none ↔ (applyRegionWrites shB ys ws).all (· == fill) = true) ∧
      ((v'.bind (decodeB2B b2b)).getD []).length ≤ ((v.bind (decodeB2B b2b)).getD []).length +
        prod (zipDiv shB ish) * m + indexSize { cfg with nChunks := prod (zipDiv shB ish) } := by
  have hBd : ∀ st ∈ b2b, BDec st := fun st hst => (hb st hst).1
  have hiokD := okWith_BDec inner ish fill hiok
  -- the stored shard below the bytes-to-bytes codecs
  have hfound : ∃ (v0 : Option Bytes) (chunks : List (Option Bytes)), v = v0.map (encB b2b) ∧
      St { cfg with nChunks := prod (zipDiv shB ish) } v0 chunks ∧
      ChunksHold fill ish (InnerR inner ish es fill) chunks (splitShard shB ish ys) := by
    cases v with
    | none =>
      simp only at hv
      refine ⟨none, List.replicate (prod (zipDiv shB ish)) none, rfl, rfl, by simp [splitShard_length], ?_⟩
      intro i h1 h2
      simp only [List.getElem_replicate]
      subst hv
      exact splitShard_fill ht fill i h2
    | some b =>
      obtain ⟨v0, chunks, h1, h2, h3⟩ : ShardBody cfg ish es inner b2b fill shB (some b) ys := hv
      exact ⟨some v0, chunks, by rw [h1]; rfl, h2, h3⟩
  obtain ⟨v0, chunks, hvv, hSt, hhold⟩ := hfound
  have hdecv : ∀ (w : Option Bytes), (w.map (encB b2b)).bind (decodeB2B b2b) = w := by
    intro w
    cases w with
    | none => rfl
    | some d => simp only [Option.map_some, Option.bind_some]; exact decodeB2B_enc b2b hBd d
  rw [hvv, hdecv] at hlen ⊢
  have hpv : ∀ p : List Elem, p.length = prod ish → (∀ x ∈ p, x.length = es) → ∀ x ∈ p, x.length = inner.es :=
    fun p _ he => by rw [hies]; exact he
  obtain ⟨v0', chunks', hpe, hSt', hhold', hnone, hlen'⟩ := shardPE_step cfg ish shB es inner b2b fill ht hfl
    (fun st hst => (hb st hst).2.1) (InnerR inner ish es fill)
    (fun b p hR => stores_decode inner ish fill b p hiokD hR.2.1 (hpv p hR.2.1 hR.2.2) hR.1)
    (fun p hl he => ⟨stores_encode inner ish fill p hiokD hl (hpv p hl he)
      (fits_of_small inner ish fill p hiokD hl (hpv p hl he) hism), hl, he⟩)
    m (fun p hl he => chainS_size' inner ish fill p m hiokD hl (hpv p hl he) hm)
    v0 chunks ys hyl hye hSt hhold hlen
    (fun idx us hcur _ => runPlan_lawful _ b2b hb v0 chunks hSt (by omega) idx us hcur)
    ws hws
  have hnewl := applyRegionWrites_length shB es ws ys hyl hws
  refine ⟨v0'.map (encB b2b), hpe, ?_, ?_, by rw [hdecv]; exact hlen'⟩
  · cases v0' with
    | none => trivial
    | some d => exact ⟨d, chunks', rfl, hSt', hhold'⟩
  · have h1 : (v0'.map (encB b2b) = none) ↔ v0' = none := by cases v0' <;> simp
    rw [h1, hnone, ← pieces_fill_iff ht fill _ hnewl]
    constructor
    · intro hall i hi
      have hic : i < chunks'.length := by rw [hhold'.1]; exact hi
      have := hhold'.2 i hic hi
      rw [hall _ (List.getElem_mem hic)] at this
      exact this
    · intro hall ch hch
      obtain ⟨i, hi, rfl⟩ := List.mem_iff_getElem.mp hch
      have hip : i < (splitShard shB ish (applyRegionWrites shB ys ws)).length := by rw [← hhold'.1]; exact hi
      have := hhold'.2 i hi hip
      cases hc : chunks'[i] with
      | none => rfl
      | some b => rw [hc] at this; exact absurd (hall i hip) this.1

theorem shardChain_step (a2a : List AStage) (cfg : Cfg) (ish : Shape) (es : Nat) (inner : ChainS)
    (b2b : List BStage) (sh : Shape) (fill : Elem)
    (hok : (ChainS.shard a2a cfg ish es inner b2b).okWith aOk BOk2 sh fill)
    (hnc : (ChainS.shard a2a cfg ish es inner b2b).topNoCache)
    (hsm : (ChainS.shard a2a cfg ish es inner b2b).innerSmall)
    (v : Option Bytes) (xs : List Elem) (hxl : xs.length = prod sh) (hxe : ∀ x ∈ xs, x.length = es)
    (hH : (ChainS.shard a2a cfg ish es inner b2b).Holds sh fill v xs)
    (hlen : (ChainS.shard a2a cfg ish es inner b2b).shardLen v +
      (ChainS.shard a2a cfg ish es inner b2b).stepCost sh < sentinel)
    (ws : List RWrite) (hws : ∀ w ∈ ws, writeOk es sh w) :
    ∃ v', (ChainS.shard a2a cfg ish es inner b2b).partialEncode sh fill v ws = some v' ∧
      (ChainS.shard a2a cfg ish es inner b2b).Holds sh fill v' (applyRegionWrites sh xs ws) ∧
      (v' = none ↔ (applyRegionWrites sh xs ws).all (· == fill) = true) ∧
      (ChainS.shard a2a cfg ish es inner b2b).shardLen v' ≤ (ChainS.shard a2a cfg ish es inner b2b).shardLen v +
        (ChainS.shard a2a cfg ish es inner b2b).stepCost sh := by
  have hokL := okWith_BLaw _ sh fill hok
  obtain ⟨ha, ht, hB, hfl, hies, hiok⟩ := hok
  obtain ⟨hnca, hncb⟩ := hnc
  obtain ⟨hism, hbs⟩ := hsm
  obtain ⟨m, hm⟩ := Option.isSome_iff_exists.mp hbs
  have hb : ∀ st ∈ b2b, BOk st := fun st hst => ⟨(hB st hst).1, (hB st hst).2, hncb st hst⟩
  have hnewl := applyRegionWrites_length sh es ws xs hxl hws
  have hnewe := applyRegionWrites_elems sh es ws xs hxl hxe hws
  simp only [ChainS.shardLen, ChainS.stepCost, hm, Option.getD_some] at hlen ⊢
  obtain ⟨hyl, hye⟩ := aEnc_chunk es a2a sh xs ha hxl hxe
  have hpieces : ∀ (zs : List Elem), zs.length = prod sh → (∀ z ∈ zs, z.length = es) →
      ∀ p ∈ splitShard (shapesOf a2a sh) ish (aEnc a2a sh zs), p.length = prod ish ∧ ∀ x ∈ p, x.length = es := by
    intro zs hzl hze p hp
    obtain ⟨q1, q2⟩ := aEnc_chunk es a2a sh zs ha hzl hze
    obtain ⟨h1, h2⟩ := splitShard_piece ht _ q1 p hp
    exact ⟨h1, fun x hx => q2 x (h2 x hx)⟩
  -- the array-to-bytes level with the length bound carried in the relation
  obtain ⟨v', h1, h2, h3⟩ := aPE_spec es fill hfl
    (fun rest esh => (ChainS.shard rest cfg ish es inner b2b).partialDecoder esh fill (storeHandle v))
    (fun esh ws => shardPEWith straddles cfg ish es inner b2b esh fill v ws)
    (fun shB v' ys => ShardBody cfg ish es inner b2b fill shB v' ys ∧
      ((v'.bind (decodeB2B b2b)).getD []).length ≤ ((v.bind (decodeB2B b2b)).getD []).length +
        prod (zipDiv (shapesOf a2a sh) ish) * m +
        indexSize { cfg with nChunks := prod (zipDiv (shapesOf a2a sh) ish) })
    a2a sh xs ws hnca ha hxl hxe hws
    (by
      intro pre rest st hsplit
      have hsp : a2a = (pre ++ [st]) ++ rest := by rw [hsplit]; simp
      have ha' : aOk (pre ++ [st]) sh ∧ aOk rest (shapesOf (pre ++ [st]) sh) := by
        rw [← aOk_append, ← hsp]; exact ha
      obtain ⟨hl1, he1⟩ := aEnc_chunk es (pre ++ [st]) sh xs ha'.1 hxl hxe
      have hokT : (ChainS.shard rest cfg ish es inner b2b).okWith aOk BLaw (shapesOf (pre ++ [st]) sh) fill := by
        obtain ⟨_, _, q3, q4, q5, q6⟩ := hokL
        refine ⟨ha'.2, ?_, q3, q4, q5, q6⟩
        rw [← shapesOf_append, ← hsp]; exact ht
      cases v with
      | none =>
        have hx : xs = List.replicate (prod sh) fill := hH
        rw [hx, aEnc_fill fill (pre ++ [st]) sh ha'.1]
        exact chainS_absent _ _ fill hokT _ storeHandle_none_absent
      | some b =>
        have hst : (ChainS.shard a2a cfg ish es inner b2b).Stores sh fill b xs := hH
        rw [hsp, stores_tail] at hst
        exact stores_pd _ _ fill b _ hokT hl1 he1 hst _ (storeHandle_some_ok _))
    (by
      intro ws' hws'
      obtain ⟨v', q1, q2, q3, q4⟩ := shardLevel_step cfg ish es inner b2b fill (shapesOf a2a sh) ht hfl hies hiok hb
        hism m hm v (aEnc a2a sh xs) hyl hye (by
          cases v with
          | none =>
            have hx : xs = List.replicate (prod sh) fill := hH
            simp only
            rw [hx, aEnc_fill fill a2a sh ha]
          | some b =>
            have hst : (ChainS.shard a2a cfg ish es inner b2b).Stores sh fill b xs := hH
            exact (stores_iff_body a2a cfg ish es inner b2b sh fill b xs (hpieces xs hxl hxe)).mp hst)
        (by omega) ws' hws'
      exact ⟨v', q1, ⟨q2, q4⟩, q3⟩)
  refine ⟨v', ?_, ?_, h3, by have := h2.2; omega⟩
  · simp only [ChainS.partialEncode, ChainS.partialEncodeWith, filter_noCache_a a2a hnca, filter_noCache_b b2b hncb]
    exact h1
  · cases v' with
    | none => exact all_fill_replicate fill _ _ hnewl (h3.mp rfl)
    | some b =>
      exact (stores_iff_body a2a cfg ish es inner b2b sh fill b _ (hpieces _ hnewl hnewe)).mpr h2.1

end Zarrs.Partial
