import ZarrsModel.Model.IterApi
import ZarrsModel.Lemmas.Index
set_option Elab.async false
/- helper lemmas for the API-coverage additions to C09 (Props/C09Api.lean) -/
namespace Zarrs

/-- a window of `range'` is a `drop`/`take` of the full range -/
theorem range'_window (n lo hi : Nat) (h : hi ≤ n) :
    List.range' lo (hi - lo) = ((List.range' 0 n).drop lo).take (hi - lo) := by
  apply List.ext_getElem
  · simp only [List.length_range', List.length_take, List.length_drop]; omega
  · intro k h1 h2
    simp only [List.getElem_range', List.getElem_take, List.getElem_drop]
    omega

/-- the items of any iterator state whose upper end is within the subset are the corresponding slice of the
full enumeration -/
theorem Iter.items_slice (s : Subset) (lo hi : Nat) (h : hi ≤ s.numElements) :
    (Iter.mk s lo hi).items = (s.indices.drop lo).take (hi - lo) := by
  rw [← Iter.new_items s]
  simp only [Iter.items, Iter.new, Nat.sub_zero]
  rw [range'_window s.numElements lo hi h, List.map_take, List.map_drop]
  rfl

theorem Bnd.hi_le (len : Nat) (b : Bnd) : b.hi len ≤ len := by
  cases b <;> simp only [Bnd.hi] <;> omega

theorem pairwise_take_drop {α} {R : α → α → Prop} {l : List α} (h : l.Pairwise R) (a b : Nat) :
    ((l.drop a).take b).Pairwise R :=
  ((h.sublist (List.drop_sublist a l)).sublist (List.take_sublist b _))

theorem mem_take_drop {α} {l : List α} {a b : Nat} {x : α} (h : x ∈ (l.drop a).take b) : x ∈ l :=
  List.mem_of_mem_drop (List.mem_of_mem_take h)

theorem take_min_drop {α} (l : List α) (a b : Nat) :
    (l.drop a).take (min b l.length - a) = (l.take b).drop a := by
  rw [List.drop_take, List.take_eq_take_iff]
  simp only [List.length_drop]; omega

/-- pointwise `≤`, same length (the order in which `new_with_start_end_*` accepts its arguments) -/
theorem zipUnderflow_false_iff (e st : List Nat) (h : st.length = e.length) :
    Subset.zipUnderflow e st = false ↔ Subset.allLe st e = true := by
  induction e generalizing st with
  | nil => cases st <;> simp [Subset.zipUnderflow, Subset.allLe]
  | cons x xs ih =>
    cases st with
    | nil => simp at h
    | cons y ys =>
      simp only [List.length_cons, Nat.add_right_cancel_iff] at h
      simp only [Subset.zipUnderflow, Subset.allLe, Bool.or_eq_false_iff, decide_eq_false_iff_not,
        Bool.and_eq_true, decide_eq_true_eq, ih ys h]
      constructor
      · rintro ⟨h1, h2⟩; exact ⟨by omega, h2⟩
      · rintro ⟨h1, h2⟩; exact ⟨by omega, h2⟩

/-- membership in an inclusive-end box -/
theorem mem_ofStartEndInc (i st e : List Nat) (hl : st.length = e.length) (hle : Subset.allLe st e = true) :
    Subset.mem i st ((Subset.zipSub e st).map (· + 1)) = true ↔
      (Subset.allLe st i = true ∧ Subset.allLe i e = true ∧ i.length = st.length) := by
  induction i generalizing st e with
  | nil =>
    cases st with
    | nil => cases e <;> simp_all [Subset.mem, Subset.zipSub, Subset.allLe]
    | cons _ _ => cases e <;> simp_all [Subset.mem, Subset.allLe]
  | cons x xs ih =>
    cases st with
    | nil => cases e <;> simp_all [Subset.mem, Subset.allLe]
    | cons y ys =>
      cases e with
      | nil => simp at hl
      | cons z zs =>
        simp only [List.length_cons, Nat.add_right_cancel_iff] at hl
        simp only [Subset.allLe, Bool.and_eq_true, decide_eq_true_eq] at hle
        simp only [Subset.zipSub, List.map_cons, Subset.mem, Subset.allLe, Bool.and_eq_true,
          decide_eq_true_eq, ih ys zs hl hle.2, List.length_cons, Nat.add_right_cancel_iff]
        constructor
        · rintro ⟨⟨h1, h2⟩, h3, h4, h5⟩; exact ⟨⟨h1, h3⟩, ⟨by omega, h4⟩, h5⟩
        · rintro ⟨⟨h1, h3⟩, ⟨h2, h4⟩, h5⟩; exact ⟨⟨h1, by omega⟩, h3, h4, h5⟩

theorem zip_toRanges (st sh : List Nat) (h : st.length = sh.length) :
    ((st.zip sh).map (fun p => (p.1, p.1 + p.2))).map (·.1) = st ∧
    ((st.zip sh).map (fun p => (p.1, p.1 + p.2))).map (fun p => p.2 - p.1) = sh := by
  induction st generalizing sh with
  | nil => cases sh <;> simp_all
  | cons x xs ih =>
    cases sh with
    | nil => simp at h
    | cons y ys =>
      simp only [List.length_cons, Nat.add_right_cancel_iff] at h
      obtain ⟨h1, h2⟩ := ih ys h
      simp only [List.zip_cons_cons, List.map_cons, h1, h2, List.cons.injEq, and_true, true_and]
      omega

end Zarrs
