import ZarrsModel.Model.WriteMapShard
import ZarrsModel.Lemmas.WriteMap
import ZarrsModel.Lemmas.ShardPDChain
set_option Elab.async false
/- helper lemmas for C17 (sharded routes), part 1: a family of disjoint views that covers a view writes the bytes of
that view; the inner chunk views of a shard -/
namespace Zarrs
open Zarrs.Subset

/-! ### list facts -/

theorem rangeBytes_append (a b : List (Nat × Nat)) : rangeBytes (a ++ b) = rangeBytes a ++ rangeBytes b := by
  simp [rangeBytes]

theorem rangeBytes_flatMap {β} (l : List β) (f : β → List (Nat × Nat)) :
    rangeBytes (l.flatMap f) = l.flatMap (fun x => rangeBytes (f x)) := by
  simp [rangeBytes, List.flatMap_assoc]

/-- `flatOpt` of tasks that all succeed -/
theorem flatOpt_map_some {α β} (l : List β) (f : β → Option (List α)) (g : β → List α)
    (h : ∀ x ∈ l, f x = some (g x)) : flatOpt (l.map f) = some (l.flatMap g) := by
  induction l with
  | nil => rfl
  | cons x xs ih =>
    simp only [List.map_cons, List.flatMap_cons]
    rw [h x (by simp)]
    simp only [flatOpt]
    rw [ih (fun y hy => h y (by simp [hy]))]

/-- `flatOpt` succeeds only if every task does -/
theorem flatOpt_some {α} : ∀ (l : List (Option (List α))) (m : List α), flatOpt l = some m →
    ∃ ms : List (List α), l = ms.map some ∧ m = ms.flatten := by
  intro l
  induction l with
  | nil => intro m h; simp only [flatOpt, Option.some.injEq] at h; exact ⟨[], rfl, by simp [← h]⟩
  | cons x xs ih =>
    intro m h
    cases x with
    | none => simp [flatOpt] at h
    | some a =>
      simp only [flatOpt] at h
      cases hr : flatOpt xs with
      | none => simp [hr] at h
      | some b =>
        simp only [hr, Option.some.injEq] at h
        obtain ⟨ms, h1, h2⟩ := ih b hr
        exact ⟨a :: ms, by simp [h1], by simp [← h, h2]⟩

/-! ### views -/

/-- an index of an in-bounds view is an index of the buffer -/
theorem contains_inB (W : Subset) (out : Shape) (hb : W.inboundsShape out = true) (i : Idx)
    (hi : W.contains i = true) : inB i out = true := by
  simp only [Subset.inboundsShape, Subset.rank, Bool.and_eq_true, beq_iff_eq] at hb
  exact inB_of_allLe_end i _ _ out hb.1 hb.2 hi

/-- the linear positions of a view are the ravelled indices it contains -/
theorem mem_linearised (W : Subset) (out : Shape) (hw : W.wf = true) (k : Nat) :
    k ∈ W.linearised out ↔ ∃ i, W.contains i = true ∧ ravel i out = k := by
  rw [C09.linearised_eq W out hw, List.mem_map]
  constructor
  · rintro ⟨i, hi, rfl⟩; exact ⟨i, (W.mem_indices hw i).mp hi, rfl⟩
  · rintro ⟨i, hi, rfl⟩; exact ⟨i, (W.mem_indices hw i).mpr hi, rfl⟩

/-- pairwise disjoint views -/
def DisjointViews (Ws : List Subset) : Prop :=
  Ws.Pairwise (fun a b => ∀ i, a.contains i = true → b.contains i = true → False)

/-- the positions of a family of disjoint in-bounds views are a permutation of any duplicate-free list with the same
members -/
theorem views_lin_perm (out : Shape) (Ws : List Subset) (L : List Nat)
    (hW : ∀ W ∈ Ws, W.wf = true ∧ W.inboundsShape out = true) (hdisj : DisjointViews Ws)
    (hL : L.Nodup) (hmem : ∀ k, k ∈ L ↔ ∃ W ∈ Ws, ∃ i, W.contains i = true ∧ ravel i out = k) :
    (Ws.flatMap (fun W => W.linearised out)).Perm L := by
  have hnd : (Ws.flatMap (fun W => W.linearised out)).Nodup := by
    show List.Pairwise (· ≠ ·) _
    rw [List.pairwise_flatMap]
    constructor
    · intro W hWm
      exact (C09.linearised_sorted W out (hW W hWm).1 (hW W hWm).2).imp (fun h => Nat.ne_of_lt h)
    · refine hdisj.imp_of_mem ?_
      intro a b ha hb hab x hx y hy hxy
      obtain ⟨i, hi, rfl⟩ := (mem_linearised a out (hW a ha).1 x).mp hx
      obtain ⟨j, hj, hjj⟩ := (mem_linearised b out (hW b hb).1 y).mp hy
      have hiB := contains_inB a out (hW a ha).2 i hi
      have hjB := contains_inB b out (hW b hb).2 j hj
      have : j = i := by
        rw [← C09.unravel_ravel j out hjB, ← C09.unravel_ravel i out hiB, hjj, hxy]
      subst this
      exact hab j hi hj
  rw [List.perm_ext_iff_of_nodup hnd hL]
  intro k
  rw [hmem k, List.mem_flatMap]
  constructor
  · rintro ⟨W, hWm, hk⟩
    exact ⟨W, hWm, (mem_linearised W out (hW W hWm).1 k).mp hk⟩
  · rintro ⟨W, hWm, hk⟩
    exact ⟨W, hWm, (mem_linearised W out (hW W hWm).1 k).mpr hk⟩

/-- bytes of the ranges of a family of views = cells of their positions -/
theorem views_bytes (out : Shape) (es : Nat) (Ws : List Subset)
    (hW : ∀ W ∈ Ws, W.wf = true ∧ W.inboundsShape out = true) :
    rangeBytes (Ws.flatMap (fun W => W.byteRanges out es)) =
      (Ws.flatMap (fun W => W.linearised out)).flatMap (fun k => List.range' (k * es) es) := by
  rw [rangeBytes_flatMap, List.flatMap_assoc]
  apply flatMap_congr'
  intro W hWm
  exact C09.byteRanges_exact W out es (hW W hWm).1 (hW W hWm).2

/-- **views of a view**: disjoint views that together contain exactly the indices of the view `V` write exactly the
bytes `V` writes -/
theorem views_perm (out : Shape) (es : Nat) (V : Subset) (Ws : List Subset)
    (hV : V.wf = true) (hVb : V.inboundsShape out = true)
    (hW : ∀ W ∈ Ws, W.wf = true ∧ W.inboundsShape out = true) (hdisj : DisjointViews Ws)
    (hcover : ∀ i, V.contains i = true ↔ ∃ W ∈ Ws, W.contains i = true) :
    (rangeBytes (Ws.flatMap (fun W => W.byteRanges out es))).Perm (rangeBytes (V.byteRanges out es)) := by
  rw [views_bytes out es Ws hW]
  have hVbytes : rangeBytes (V.byteRanges out es) =
      (V.linearised out).flatMap (fun k => List.range' (k * es) es) := C09.byteRanges_exact V out es hV hVb
  rw [hVbytes]
  apply List.Perm.flatMap_right
  apply views_lin_perm out Ws _ hW hdisj
  · exact (C09.linearised_sorted V out hV hVb).imp (fun h => Nat.ne_of_lt h)
  · intro k
    rw [mem_linearised V out hV k]
    constructor
    · rintro ⟨i, hi, rfl⟩
      obtain ⟨W, hWm, hWi⟩ := (hcover i).mp hi
      exact ⟨W, hWm, i, hWi, rfl⟩
    · rintro ⟨W, hWm, i, hWi, rfl⟩
      exact ⟨i, (hcover i).mpr ⟨W, hWm, hWi⟩, rfl⟩

/-- **views of a buffer**: disjoint in-bounds views that cover every index of the buffer write every byte once -/
theorem views_tile (out : Shape) (es : Nat) (Ws : List Subset)
    (hW : ∀ W ∈ Ws, W.wf = true ∧ W.inboundsShape out = true) (hdisj : DisjointViews Ws)
    (hcover : ∀ i, inB i out = true → ∃ W ∈ Ws, W.contains i = true) :
    (rangeBytes (Ws.flatMap (fun W => W.byteRanges out es))).Perm (List.range (prod out * es)) := by
  rw [views_bytes out es Ws hW, ← range_cells]
  apply List.Perm.flatMap_right
  apply views_lin_perm out Ws _ hW hdisj List.nodup_range
  intro k
  rw [List.mem_range]
  constructor
  · intro hk
    obtain ⟨W, hWm, hWi⟩ := hcover _ (C09.unravel_inB k out hk)
    exact ⟨W, hWm, _, hWi, C09.ravel_unravel k out hk⟩
  · rintro ⟨W, hWm, i, hWi, rfl⟩
    exact ravel_lt i out (contains_inB W out (hW W hWm).2 i hWi)

/-! ### the inner chunk views of a shard -/

open Zarrs.Partial (tiles_length tiles_pos cell_of_inB cell_unique cellBox_inbounds)

theorem isEmpty_of_pos (st sh : List Nat) (h : ∀ k ∈ sh, 0 < k) : (Subset.mk st sh).isEmpty = false := by
  simp only [Subset.isEmpty]
  rw [Bool.eq_false_iff]
  intro hc
  rw [List.any_eq_true] at hc
  obtain ⟨x, hx, hx0⟩ := hc
  have := h x hx
  simp only [beq_iff_eq] at hx0
  omega

/-- the inner chunk views of `ShardingCodec::decode`: in bounds, pairwise disjoint, covering the shard -/
theorem chunk_views_facts {inner sh : Shape} (ht : Partial.tiles inner sh = true) :
    (∀ k, k < prod (zipDiv sh inner) → (shardChunkSubset (zipDiv sh inner) inner k).wf = true ∧
      (shardChunkSubset (zipDiv sh inner) inner k).inboundsShape sh = true) ∧
    (∀ a b, a < prod (zipDiv sh inner) → b < prod (zipDiv sh inner) → ∀ j,
      (shardChunkSubset (zipDiv sh inner) inner a).contains j = true →
      (shardChunkSubset (zipDiv sh inner) inner b).contains j = true → a = b) ∧
    (∀ j, inB j sh = true → ∃ k, k < prod (zipDiv sh inner) ∧
      (shardChunkSubset (zipDiv sh inner) inner k).contains j = true) := by
  have hl := tiles_length ht
  refine ⟨?_, ?_, ?_⟩
  · intro k hk
    exact cellBox_inbounds ht _ (C09.unravel_inB k _ hk)
  · intro a b ha hb j hja hjb
    have hla := inB_length (C09.unravel_inB a _ ha)
    have hlb := inB_length (C09.unravel_inB b _ hb)
    simp only [zipDiv_length] at hla hlb
    have e1 := cell_unique inner (tiles_pos ht) j _ hja (by omega)
    have e2 := cell_unique inner (tiles_pos ht) j _ hjb (by omega)
    rw [← C09.ravel_unravel a _ ha, ← C09.ravel_unravel b _ hb, e1, e2]
  · intro j hj
    obtain ⟨h1, h2, _, _⟩ := cell_of_inB ht j hj
    refine ⟨ravel (zipDiv j inner) (zipDiv sh inner), ravel_lt _ _ h1, ?_⟩
    simp only [shardChunkSubset, Subset.contains]
    rw [C09.unravel_ravel _ _ h1]
    exact h2

/-- pairwise disjointness of a family indexed by `range n` -/
theorem disjoint_range_map (n : Nat) (T : Nat → Subset)
    (h : ∀ a b, a < n → b < n → ∀ j, (T a).contains j = true → (T b).contains j = true → a = b) :
    DisjointViews ((List.range n).map T) := by
  simp only [DisjointViews, List.pairwise_map]
  refine (List.pairwise_lt_range (n := n)).imp_of_mem ?_
  intro a b ha hb hab j hja hjb
  rw [List.mem_range] at ha hb
  have := h a b ha hb j hja hjb
  omega

/-- **(a)** the inner chunk views of a whole-shard decode write every byte of the shard buffer once -/
theorem shardDecode_perm {inner sh : Shape} (ht : Partial.tiles inner sh = true) (es : Nat) :
    (rangeBytes ((List.range (prod (zipDiv sh inner))).flatMap
      (fun k => (shardChunkSubset (zipDiv sh inner) inner k).byteRanges sh es))).Perm (List.range (prod sh * es)) := by
  obtain ⟨h1, h2, h3⟩ := chunk_views_facts ht
  have := views_tile sh es ((List.range (prod (zipDiv sh inner))).map (shardChunkSubset (zipDiv sh inner) inner))
    (by
      intro W hW
      obtain ⟨k, hk, rfl⟩ := List.mem_map.mp hW
      exact h1 k (List.mem_range.mp hk))
    (disjoint_range_map _ _ h2)
    (by
      intro i hi
      obtain ⟨k, hk, hki⟩ := h3 i hi
      exact ⟨_, List.mem_map.mpr ⟨k, List.mem_range.mpr hk, rfl⟩, hki⟩)
  rwa [List.flatMap_map] at this

/-! ### the same views translated into a view of the caller (`decode_into`) -/

set_option linter.unusedSimpArgs false in
theorem mem_translate (j o s n : List Nat) (hj : j.length ≤ o.length) (hs : s.length ≤ o.length) :
    mem (addIdx j o) (addIdx o s) n = mem j s n := by
  induction j generalizing o s n with
  | nil =>
    cases s with
    | nil => cases o <;> simp [addIdx, mem]
    | cons x xs =>
      cases o with
      | nil => simp at hs
      | cons y ys => cases n <;> simp [addIdx, mem]
  | cons a as ih =>
    cases o with
    | nil => simp at hj
    | cons y ys =>
      cases s with
      | nil => cases n <;> simp [addIdx, mem]
      | cons x xs =>
        cases n with
        | nil => simp [addIdx, mem]
        | cons m ms =>
          simp only [List.length_cons, Nat.add_le_add_iff_right] at hj hs
          simp only [addIdx, mem, ih ys xs ms hj hs]
          congr 1
          congr 1
          · simp only [decide_eq_decide]; omega
          · simp only [decide_eq_decide]; omega

theorem mem_translate_inv (i o s n : List Nat) (hs : s.length = o.length) (h : mem i (addIdx o s) n = true) :
    ∃ j, j.length = o.length ∧ addIdx j o = i ∧ mem j s n = true := by
  induction i generalizing o s n with
  | nil =>
    cases o with
    | nil =>
      cases s with
      | nil => cases n <;> simp_all [addIdx, mem]
      | cons _ _ => simp at hs
    | cons y ys =>
      cases s with
      | nil => simp at hs
      | cons x xs => simp [addIdx, mem] at h
  | cons a as ih =>
    cases o with
    | nil =>
      cases s with
      | nil => simp [addIdx, mem] at h
      | cons _ _ => simp at hs
    | cons y ys =>
      cases s with
      | nil => simp at hs
      | cons x xs =>
        cases n with
        | nil => simp [addIdx, mem] at h
        | cons m ms =>
          simp only [addIdx, mem, Bool.and_eq_true, decide_eq_true_eq] at h
          simp only [List.length_cons, Nat.add_right_cancel_iff] at hs
          obtain ⟨j, hjl, hja, hjm⟩ := ih ys xs ms hs h.2
          refine ⟨(a - y) :: j, by simp [hjl], ?_, ?_⟩
          · simp only [addIdx, hja, List.cons.injEq, and_true]; omega
          · simp only [mem, hjm, Bool.and_true, Bool.and_eq_true, decide_eq_true_eq]; omega

theorem zipSub_addIdx (t o : List Nat) (hlen : t.length = o.length) : zipSub (addIdx t o) o = t := by
  induction t generalizing o with
  | nil => cases o <;> simp [addIdx, zipSub]
  | cons x xs ih =>
    cases o with
    | nil => simp at hlen
    | cons y ys =>
      simp only [List.length_cons, Nat.add_right_cancel_iff] at hlen
      simp only [addIdx, zipSub, List.cons.injEq]
      exact ⟨by omega, ih ys hlen⟩

/-- inner chunk `k` of a shard whose view starts at `o` -/
def subView (o : Idx) (cps inner : Shape) (k : Nat) : Subset :=
  ⟨addIdx o (shardChunkSubset cps inner k).start, inner⟩

/-- the sub-views of `ShardingCodec::decode_into`: well-formed, inside the buffer, pairwise disjoint, and together
exactly the caller's view -/
theorem subView_facts {inner : Shape} (out : Shape) (v : Subset) (hv : v.wf = true) (hvb : v.inboundsShape out = true)
    (ht : Partial.tiles inner v.shape = true) :
    (∀ k, k < prod (zipDiv v.shape inner) → (subView v.start (zipDiv v.shape inner) inner k).wf = true ∧
      (subView v.start (zipDiv v.shape inner) inner k).inboundsShape out = true) ∧
    DisjointViews ((List.range (prod (zipDiv v.shape inner))).map (subView v.start (zipDiv v.shape inner) inner)) ∧
    (∀ i, v.contains i = true ↔ ∃ W ∈ (List.range (prod (zipDiv v.shape inner))).map
      (subView v.start (zipDiv v.shape inner) inner), W.contains i = true) := by
  obtain ⟨h1, h2, h3⟩ := chunk_views_facts ht
  have hl := tiles_length ht
  have hv' := hv
  simp only [Subset.wf, beq_iff_eq] at hv'
  have hvb' := hvb
  simp only [Subset.inboundsShape, Subset.rank, Bool.and_eq_true, beq_iff_eq] at hvb'
  -- lengths
  have hcl : ∀ k, k < prod (zipDiv v.shape inner) →
      (shardChunkSubset (zipDiv v.shape inner) inner k).start.length = v.start.length := by
    intro k hk
    have := inB_length (C09.unravel_inB k _ hk)
    simp only [zipDiv_length] at this
    simp only [shardChunkSubset, zipMul_length]
    omega
  -- membership in a sub-view
  have hsub : ∀ k, k < prod (zipDiv v.shape inner) → ∀ i,
      (subView v.start (zipDiv v.shape inner) inner k).contains i = true →
      ∃ j, inB j v.shape = true ∧ addIdx j v.start = i ∧
        (shardChunkSubset (zipDiv v.shape inner) inner k).contains j = true := by
    intro k hk i hi
    obtain ⟨j, hjl, hja, hjm⟩ := mem_translate_inv i v.start _ inner (hcl k hk) hi
    exact ⟨j, contains_inB _ v.shape (h1 k hk).2 j hjm, hja, hjm⟩
  have hsubv : ∀ k, k < prod (zipDiv v.shape inner) → ∀ i,
      (subView v.start (zipDiv v.shape inner) inner k).contains i = true → v.contains i = true := by
    intro k hk i hi
    obtain ⟨j, hjB, rfl, _⟩ := hsub k hk i hi
    exact mem_addIdx j v.start v.shape hv' hjB
  refine ⟨?_, ?_, ?_⟩
  · intro k hk
    have hwf : (subView v.start (zipDiv v.shape inner) inner k).wf = true := by
      have := hcl k hk
      simp only [subView, Subset.wf, addIdx_length, beq_iff_eq]
      omega
    refine ⟨hwf, ?_⟩
    rw [C09.inboundsShape_iff _ out hwf (isEmpty_of_pos _ _ (tiles_pos ht))]
    refine ⟨?_, fun i hi => contains_inB v out hvb i (hsubv k hk i hi)⟩
    have := hcl k hk
    simp only [subView, Subset.rank, addIdx_length]
    omega
  · apply disjoint_range_map
    intro a b ha hb i hia hib
    obtain ⟨j, hjB, hja, hjm⟩ := hsub a ha i hia
    obtain ⟨j', hjB', hja', hjm'⟩ := hsub b hb i hib
    have : j' = j := by
      rw [← zipSub_addIdx j v.start (by rw [inB_length hjB, hv']),
        ← zipSub_addIdx j' v.start (by rw [inB_length hjB', hv']), hja, hja']
    subst this
    exact h2 a b ha hb j' hjm hjm'
  · intro i
    constructor
    · intro hi
      obtain ⟨hjB, hja⟩ := mem_zipSub i v.start v.shape hi
      obtain ⟨k, hk, hkj⟩ := h3 _ hjB
      refine ⟨_, List.mem_map.mpr ⟨k, List.mem_range.mpr hk, rfl⟩, ?_⟩
      have := mem_translate (zipSub i v.start) v.start
        (shardChunkSubset (zipDiv v.shape inner) inner k).start inner
        (by rw [inB_length hjB, hv']; exact Nat.le_refl _) (by rw [hcl k hk]; exact Nat.le_refl _)
      rw [hja] at this
      simp only [subView, Subset.contains]
      rw [this]
      exact hkj
    · rintro ⟨W, hW, hWi⟩
      obtain ⟨k, hk, rfl⟩ := List.mem_map.mp hW
      exact hsubv k (List.mem_range.mp hk) i hWi

/-- **views of views**: the sub-views of a shard's view write exactly the bytes of that view -/
theorem subViews_perm {inner : Shape} (out : Shape) (es : Nat) (v : Subset) (hv : v.wf = true)
    (hvb : v.inboundsShape out = true) (ht : Partial.tiles inner v.shape = true) :
    (rangeBytes ((List.range (prod (zipDiv v.shape inner))).flatMap
      (fun k => (subView v.start (zipDiv v.shape inner) inner k).byteRanges out es))).Perm
      (rangeBytes (v.byteRanges out es)) := by
  obtain ⟨h1, h2, h3⟩ := subView_facts out v hv hvb ht
  have := views_perm out es v _ hv hvb
    (by
      intro W hW
      obtain ⟨k, hk, rfl⟩ := List.mem_map.mp hW
      exact h1 k (List.mem_range.mp hk))
    h2 h3
  rwa [List.flatMap_map] at this

end Zarrs
