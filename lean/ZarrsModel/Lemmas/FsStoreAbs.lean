import ZarrsModel.Lemmas.FsStorePath
import ZarrsModel.Lemmas.FsStoreTree
/- the abstraction: the walk of a well-formed tree, `absFs`, extensionality of sorted maps and key lists -/
set_option Elab.async false
namespace Zarrs.Fs
open Zarrs

/-! ### sorted lists and maps are determined by their members -/

theorem sorted_keys_ext (l1 l2 : List Key) (h1 : l1.Pairwise (fun a b => keyLt a b = true))
    (h2 : l2.Pairwise (fun a b => keyLt a b = true)) (h : ∀ k, k ∈ l1 ↔ k ∈ l2) : l1 = l2 := by
  induction l1 generalizing l2 with
  | nil =>
    cases l2 with
    | nil => rfl
    | cons y ys => exact absurd ((h y).2 (List.mem_cons_self ..)) (by simp)
  | cons x xs ih =>
    cases l2 with
    | nil => exact absurd ((h x).1 (List.mem_cons_self ..)) (by simp)
    | cons y ys =>
      rw [List.pairwise_cons] at h1 h2
      have hxy : x = y := by
        rcases List.mem_cons.1 ((h x).1 (List.mem_cons_self ..)) with e | hx
        · exact e
        · rcases List.mem_cons.1 ((h y).2 (List.mem_cons_self ..)) with e | hy
          · exact e.symm
          · have a := h2.1 x hx
            have b := h1.1 y hy
            have := keyLt_trans _ _ _ a b
            rw [keyLt_irrefl] at this; cases this
      subst hxy
      congr 1
      apply ih _ h1.2 h2.2
      intro k
      constructor
      · intro hk
        rcases List.mem_cons.1 ((h k).1 (List.mem_cons_of_mem _ hk)) with e | hk'
        · subst e; exact absurd (h1.1 k hk) (by rw [keyLt_irrefl]; simp)
        · exact hk'
      · intro hk
        rcases List.mem_cons.1 ((h k).2 (List.mem_cons_of_mem _ hk)) with e | hk'
        · subst e; exact absurd (h2.1 k hk) (by rw [keyLt_irrefl]; simp)
        · exact hk'

theorem KV.get_none_of_lt (m : KV) (k : Key) (h : ∀ k' ∈ m.keys, keyLt k k' = true) : m.get k = none := by
  cases hg : m.get k with
  | none => rfl
  | some v =>
    have : k ∈ m.keys := (KV.mem_keys_iff_get m k).2 (by rw [hg]; simp)
    have := h k this
    rw [keyLt_irrefl] at this; cases this

theorem KV.ext_sorted (m1 m2 : KV) (h1 : m1.sorted) (h2 : m2.sorted) (h : ∀ k, m1.get k = m2.get k) : m1 = m2 := by
  induction m1 generalizing m2 with
  | nil =>
    cases m2 with
    | nil => rfl
    | cons y ys =>
      have := h y.1
      rw [KV.get_cons, if_pos rfl] at this
      cases this
  | cons x xs ih =>
    cases m2 with
    | nil =>
      have := h x.1
      rw [KV.get_cons, if_pos rfl] at this
      cases this
    | cons y ys =>
      obtain ⟨kx, vx⟩ := x
      obtain ⟨ky, vy⟩ := y
      rw [KV.sorted_cons] at h1 h2
      have hk : kx = ky := by
        apply Classical.byContradiction
        intro hne
        have a := h kx
        have b := h ky
        rw [KV.get_cons, KV.get_cons, if_pos rfl, if_neg (fun e => hne e.symm)] at a
        rw [KV.get_cons, KV.get_cons, if_neg hne, if_pos rfl] at b
        by_cases hlt : keyLt kx ky = true
        · rw [KV.get_none_of_lt ys kx (fun k' hk' => keyLt_trans _ _ _ hlt (h2.1 k' hk'))] at a
          cases a
        · have hgt := keyLt_total kx ky hne (by simpa using hlt)
          rw [KV.get_none_of_lt xs ky (fun k' hk' => keyLt_trans _ _ _ hgt (h1.1 k' hk'))] at b
          cases b
      subst hk
      have hv : vx = vy := by
        have a := h kx
        rw [KV.get_cons, KV.get_cons, if_pos rfl, if_pos rfl] at a
        exact Option.some.inj a
      subst hv
      congr 1
      apply ih _ h1.2 h2.2
      intro k
      by_cases hkk : kx = k
      · subst hkk
        rw [KV.get_none_of_lt xs kx h1.1, KV.get_none_of_lt ys kx h2.1]
      · have a := h k
        rw [KV.get_cons, KV.get_cons, if_neg hkk, if_neg hkk] at a
        exact a

/-! ### `KV.ofList` -/

theorem KV.ofList_cons (x : Key × Bytes) (l : List (Key × Bytes)) :
    KV.ofList (x :: l) = (KV.ofList l).put x.1 x.2 := rfl

theorem KV.ofList_get (l : List (Key × Bytes)) (k : Key) : (KV.ofList l).get k = Zarrs.KV.get l k := by
  induction l with
  | nil => rfl
  | cons x xs ih =>
    rw [KV.ofList_cons, Zarrs.KV.get_cons]
    by_cases h : x.1 = k
    · subst h; rw [Zarrs.KV.get_put_same, if_pos rfl]
    · rw [Zarrs.KV.get_put_other _ _ _ _ (fun e => h e.symm), if_neg h, ih]

theorem KV.ofList_sorted (l : List (Key × Bytes)) : (KV.ofList l).sorted := by
  induction l with
  | nil => exact Zarrs.KV.sorted_nil
  | cons x xs ih => exact Zarrs.KV.put_sorted _ ih _ _

theorem KV.keys_put_insertSorted (m : KV) (k : Key) (v : Bytes) : (m.put k v).keys = insertSorted k m.keys := by
  induction m with
  | nil => rfl
  | cons kv rest ih =>
    obtain ⟨k0, v0⟩ := kv
    by_cases h1 : k = k0
    · subst h1
      rw [Zarrs.KV.put_cons_eq]
      simp only [Zarrs.KV.keys_cons]
      exact (insertSorted_cons_eq _ _).symm
    · by_cases h2 : keyLt k k0 = true
      · rw [Zarrs.KV.put_cons_lt _ _ _ _ _ h1 h2]
        simp only [Zarrs.KV.keys_cons]
        exact (insertSorted_cons_lt _ _ _ h1 h2).symm
      · rw [Zarrs.KV.put_cons_gt _ _ _ _ _ h1 h2]
        simp only [Zarrs.KV.keys_cons, ih]
        exact (insertSorted_cons_gt _ _ _ h1 h2).symm

theorem KV.ofList_keys (l : List (Key × Bytes)) : (KV.ofList l).keys = FsState.sortKeys (l.map (·.1)) := by
  induction l with
  | nil => rfl
  | cons x xs ih =>
    rw [KV.ofList_cons, KV.keys_put_insertSorted, ih]
    rfl

theorem sortKeys_sorted (ks : List Key) : (FsState.sortKeys ks).Pairwise (fun a b => keyLt a b = true) := by
  induction ks with
  | nil => exact List.Pairwise.nil
  | cons k ks ih => exact insertSorted_sorted _ _ ih

theorem mem_sortKeys (ks : List Key) (k : Key) : k ∈ FsState.sortKeys ks ↔ k ∈ ks := by
  induction ks with
  | nil => simp [FsState.sortKeys]
  | cons x xs ih =>
    show k ∈ insertSorted x (FsState.sortKeys xs) ↔ _
    rw [mem_insertSorted, ih, List.mem_cons]

theorem KV.get_mem (l : List (Key × Bytes)) (k : Key) (v : Bytes) (h : Zarrs.KV.get l k = some v) : (k, v) ∈ l := by
  induction l with
  | nil => cases h
  | cons x xs ih =>
    rw [Zarrs.KV.get_cons] at h
    by_cases hx : x.1 = k
    · rw [if_pos hx] at h
      have : x = (k, v) := by
        obtain ⟨a, b⟩ := x
        simp only at hx
        simp only [Option.some.injEq] at h
        rw [hx, h]
      rw [this]; exact List.mem_cons_self ..
    · rw [if_neg hx] at h
      exact List.mem_cons_of_mem _ (ih h)

theorem KV.get_of_mem_functional (l : List (Key × Bytes)) (hf : ∀ k v v', (k, v) ∈ l → (k, v') ∈ l → v = v')
    (k : Key) (v : Bytes) (h : (k, v) ∈ l) : Zarrs.KV.get l k = some v := by
  cases hg : Zarrs.KV.get l k with
  | none =>
    have : k ∈ Zarrs.KV.keys l := List.mem_map_of_mem (f := (·.1)) h
    rw [Zarrs.KV.mem_keys_iff_get] at this
    exact absurd hg this
  | some v' => rw [hf k v v' h (KV.get_mem l k v' hg)]

/-! ### the walk of a well-formed tree -/

namespace Tree

theorem fileAt_nil (t : Tree) : t.fileAt [] = none := by
  unfold fileAt; rw [stat_nil]

theorem fileAt_cons (t : Tree) (m : Name) (ms : List Name) :
    t.fileAt (m :: ms) =
      match t.lookup1 m with
      | none => none
      | some (.file b) => if ms = [] then some b else none
      | some (.dir c) => c.fileAt ms := by
  unfold fileAt
  rw [stat_cons]
  cases t.lookup1 m with
  | none => rfl
  | some e =>
    cases e with
    | file b => cases ms <;> simp
    | dir c => rfl

theorem fileAt_plain (t : Tree) (hi : t.Inv) (path : List Name) (v : Bytes) (h : t.fileAt path = some v) :
    ∀ n ∈ path, plainName n = true := by
  induction path generalizing t with
  | nil => simp
  | cons m ms ih =>
    rw [fileAt_cons] at h
    cases hl : t.lookup1 m with
    | none => rw [hl] at h; cases h
    | some e =>
      rw [hl] at h
      obtain ⟨hei, hm⟩ := inv_lookup1 t hi m e hl
      intro n hn
      rcases List.mem_cons.1 hn with rfl | hn
      · exact hm
      · cases e with
        | file b =>
          simp only at h
          split at h
          · rename_i hms; subst hms; cases hn
          · cases h
        | dir c => exact ih c hei h n hn

theorem joinPath_cons_ne (n : Name) (path : List Name) (h : path ≠ []) :
    joinPath (n :: path) = n ++ '/' :: joinPath path := by
  cases path with
  | nil => exact absurd rfl h
  | cons x xs => rfl

theorem lookup1_cons_of_mem (n : Name) (e : Ent) (rest : Tree) (m : Name)
    (hlt : ∀ x ∈ rest.names, keyLt n x = true) (hm : rest.lookup1 m ≠ none) :
    (cons n e rest).lookup1 m = rest.lookup1 m := by
  rw [lookup1_cons, if_neg]
  intro e'
  subst e'
  have : m ∈ rest.names := by
    apply Classical.byContradiction
    intro hn
    exact hm ((lookup1_eq_none_iff rest m).2 hn)
  have := hlt m this
  rw [keyLt_irrefl] at this; cases this

theorem fileAt_cons_of_rest (n : Name) (e : Ent) (rest : Tree) (path : List Name) (v : Bytes)
    (hlt : ∀ x ∈ rest.names, keyLt n x = true) (h : rest.fileAt path = some v) :
    (cons n e rest).fileAt path = some v := by
  cases path with
  | nil => rw [fileAt_nil] at h; cases h
  | cons m ms =>
    rw [fileAt_cons] at h ⊢
    have : rest.lookup1 m ≠ none := by
      intro e'; rw [e'] at h; cases h
    rw [lookup1_cons_of_mem n e rest m hlt this]
    exact h

theorem mem_walk (t : Tree) (hi : t.Inv) (pre k : Key) (v : Bytes) :
    (k, v) ∈ t.walk pre ↔ ∃ path, path ≠ [] ∧ k = pre ++ joinPath path ∧ t.fileAt path = some v := by
  induction t generalizing pre with
  | nil =>
    simp only [walk, List.not_mem_nil, false_iff, not_exists, not_and]
    intro path hp _
    cases path with
    | nil => exact absurd rfl hp
    | cons m ms => simp [fileAt, stat_nil_cons]
  | file n b rest ih =>
    obtain ⟨hn, hlt, hr⟩ := hi
    simp only [walk, List.mem_cons, Prod.mk.injEq]
    constructor
    · rintro (⟨rfl, rfl⟩ | h)
      · exact ⟨[n], by simp, rfl, by simp [fileAt_cons, lookup1]⟩
      · obtain ⟨path, hp, hk, hf⟩ := (ih hr pre).1 h
        exact ⟨path, hp, hk, fileAt_cons_of_rest n (.file b) rest path v hlt hf⟩
    · rintro ⟨path, hp, hk, hf⟩
      cases path with
      | nil => exact absurd rfl hp
      | cons m ms =>
        by_cases hm : m = n
        · subst hm
          rw [fileAt_cons] at hf
          simp only [lookup1, if_true] at hf
          split at hf
          · rename_i hms
            subst hms
            simp only [Option.some.injEq] at hf
            exact Or.inl ⟨hk, hf.symm⟩
          · cases hf
        · right
          refine (ih hr pre).2 ⟨m :: ms, hp, hk, ?_⟩
          rw [fileAt_cons] at hf ⊢
          simpa [lookup1, hm] using hf
  | dir n c rest ihc ih =>
    obtain ⟨hn, hlt, hc, hr⟩ := hi
    simp only [walk, List.mem_append]
    constructor
    · rintro (h | h)
      · obtain ⟨path, hp, hk, hf⟩ := (ihc hc _).1 h
        refine ⟨n :: path, by simp, ?_, ?_⟩
        · rw [hk, joinPath_cons_ne n path hp]; simp
        · rw [fileAt_cons]; simpa [lookup1] using hf
      · obtain ⟨path, hp, hk, hf⟩ := (ih hr pre).1 h
        exact ⟨path, hp, hk, fileAt_cons_of_rest n (.dir c) rest path v hlt hf⟩
    · rintro ⟨path, hp, hk, hf⟩
      cases path with
      | nil => exact absurd rfl hp
      | cons m ms =>
        by_cases hm : m = n
        · subst hm
          rw [fileAt_cons] at hf
          simp only [lookup1, if_true] at hf
          have hms : ms ≠ [] := by
            intro e; subst e; rw [fileAt_nil] at hf; cases hf
          left
          refine (ihc hc _).2 ⟨ms, hms, ?_, hf⟩
          rw [hk, joinPath_cons_ne m ms hms]; simp
        · right
          refine (ih hr pre).2 ⟨m :: ms, hp, hk, ?_⟩
          rw [fileAt_cons] at hf ⊢
          simpa [lookup1, hm] using hf

theorem walk_functional (t : Tree) (hi : t.Inv) (pre k : Key) (v v' : Bytes)
    (h1 : (k, v) ∈ t.walk pre) (h2 : (k, v') ∈ t.walk pre) : v = v' := by
  obtain ⟨p1, hp1, hk1, hf1⟩ := (mem_walk t hi pre k v).1 h1
  obtain ⟨p2, hp2, hk2, hf2⟩ := (mem_walk t hi pre k v').1 h2
  have hj : joinPath p1 = joinPath p2 := List.append_cancel_left (hk1.symm.trans hk2)
  have e : p1 = p2 := joinPath_inj p1 p2 hp1 hp2
    (fun n hn => (plainName_spec (fileAt_plain t hi p1 v hf1 n hn)).2)
    (fun n hn => (plainName_spec (fileAt_plain t hi p2 v' hf2 n hn)).2) hj
  subst e
  rw [hf1] at hf2
  exact Option.some.inj hf2

/-- the walk read as a map: the value of a key is the file at its path -/
theorem get_walk (t : Tree) (hi : t.Inv) (k : Key) : Zarrs.KV.get (t.walk []) k = t.fileAt (splitPath k) := by
  cases hf : t.fileAt (splitPath k) with
  | some v =>
    apply KV.get_of_mem_functional _ (fun k v v' => walk_functional t hi [] k v v')
    exact (mem_walk t hi [] k v).2 ⟨splitPath k, splitPath_ne_nil k, by simp [join_split], hf⟩
  | none =>
    cases hg : Zarrs.KV.get (t.walk []) k with
    | none => rfl
    | some v =>
      obtain ⟨path, hp, hk, hfp⟩ := (mem_walk t hi [] k v).1 (KV.get_mem _ k v hg)
      simp only [List.nil_append] at hk
      have : splitPath k = path := by
        rw [hk]
        exact split_join path hp (fun n hn => (plainName_spec (fileAt_plain t hi path v hfp n hn)).2)
      rw [this, hfp] at hf
      cases hf

end Tree

/-! ### `absFs` -/

def FsState.content (s : FsState) : Tree := s.getD .nil

theorem FsInv.content {s : FsState} (hi : FsInv s) : (FsState.content s).Inv := by
  cases s with
  | none => exact trivial
  | some t => exact hi

theorem absFs_get (s : FsState) (hi : FsInv s) (k : Key) :
    (absFs s).get k = (FsState.content s).fileAt (splitPath k) := by
  unfold absFs
  rw [KV.ofList_get]
  exact Tree.get_walk _ hi.content k

theorem absFs_sorted (s : FsState) : (absFs s).sorted := KV.ofList_sorted _

theorem stat_content (s : FsState) (path : List Name) (hp : path ≠ []) : s.stat path = (FsState.content s).stat path := by
  cases s with
  | some t => rfl
  | none =>
    cases path with
    | nil => exact absurd rfl hp
    | cons m ms => rfl

end Zarrs.Fs
