import ZarrsModel.Model.ShardAsm
set_option Elab.async false
/- the worker pool with one mutex: facts about programs, the invariants of reachable states, progress -/
namespace Zarrs.ShardAsm

/-! ### programs -/

theorem heldAfter_succ : ∀ (prog : List Instr) (h : Bool) (pc : Nat),
    heldAfter h prog (pc + 1) = (match prog[pc]? with
      | some .lock => true
      | some .unlock => false
      | _ => heldAfter h prog pc) := by
  intro prog
  induction prog with
  | nil => intro h pc; cases pc <;> simp [heldAfter]
  | cons i rest ih =>
    intro h pc
    cases pc with
    | zero => cases i <;> simp [heldAfter]
    | succ pc =>
      have e : (i :: rest)[pc + 1]? = rest[pc]? := by simp
      rw [e]
      cases i <;> simp only [heldAfter] <;> exact ih _ pc

theorem balanced_facts : ∀ (prog : List Instr) (h : Bool) (pc : Nat), balanced h prog = true →
    (prog[pc]? = some .unlock → heldAfter h prog pc = true) ∧ (prog[pc]? = some .lock → heldAfter h prog pc = false) ∧
    (prog[pc]? = none → heldAfter h prog pc = false) := by
  intro prog
  induction prog with
  | nil =>
    intro h pc hb
    simp only [balanced, Bool.not_eq_true'] at hb
    subst hb
    cases pc <;> simp [heldAfter]
  | cons i rest ih =>
    intro h pc hb
    cases pc with
    | zero =>
      cases i <;> simp_all [heldAfter, balanced]
    | succ pc =>
      have e : (i :: rest)[pc + 1]? = rest[pc]? := by simp
      rw [e]
      cases i <;> simp only [balanced, Bool.and_eq_true] at hb <;> simp only [heldAfter]
      · exact ih _ pc hb.2
      · exact ih _ pc hb.2
      · exact ih _ pc hb
      · exact ih _ pc hb
      · exact ih _ pc hb

theorem nojoin_facts : ∀ (prog : List Instr) (h : Bool) (pc : Nat), lockAcrossJoin h prog = false →
    (∀ c, prog[pc]? = some (.wait c) → heldAfter h prog pc = false) ∧
    (∀ c, prog[pc]? = some (.fork c) → heldAfter h prog pc = false) := by
  intro prog
  induction prog with
  | nil => intro h pc _; simp
  | cons i rest ih =>
    intro h pc hb
    cases pc with
    | zero =>
      cases i <;> simp_all [heldAfter, lockAcrossJoin]
    | succ pc =>
      have e : (i :: rest)[pc + 1]? = rest[pc]? := by simp
      rw [e]
      cases i <;> simp only [lockAcrossJoin, Bool.or_eq_false_iff] at hb <;> simp only [heldAfter]
      · exact ih _ pc hb
      · exact ih _ pc hb
      · exact ih _ pc hb
      · exact ih _ pc hb.2
      · exact ih _ pc hb.2

/-- inside a critical section of a disciplined program that holds no lock across a join the next instruction is
`work` or `unlock` -/
theorem crit_next (prog : List Instr) (pc : Nat) (hb : balanced false prog = true) (hn : lockAcrossJoin false prog = false)
    (hh : heldAfter false prog pc = true) : prog[pc]? = some .work ∨ prog[pc]? = some .unlock := by
  obtain ⟨_, h2, h3⟩ := balanced_facts prog false pc hb
  obtain ⟨h4, h5⟩ := nojoin_facts prog false pc hn
  cases hi : prog[pc]? with
  | none => rw [h3 hi] at hh; cases hh
  | some i =>
    cases i with
    | lock => rw [h2 hi] at hh; cases hh
    | unlock => exact Or.inr rfl
    | work => exact Or.inl rfl
    | fork c => rw [h5 c hi] at hh; cases hh
    | wait c => rw [h4 c hi] at hh; cases hh

theorem waitsOk_fork : ∀ (prog : List Instr) (f : List Nat) (pc c : Nat), waitsOk f prog = true →
    prog[pc]? = some (.wait c) → c ∈ f ∨ ∃ k, k < pc ∧ prog[k]? = some (.fork c) := by
  intro prog
  induction prog with
  | nil => intro f pc c _ h; simp at h
  | cons i rest ih =>
    intro f pc c hw h
    cases pc with
    | zero =>
      simp only [List.getElem?_cons_zero, Option.some.injEq] at h
      subst h
      simp only [waitsOk, Bool.and_eq_true, List.contains_iff_mem] at hw
      exact Or.inl hw.1
    | succ pc =>
      simp only [List.getElem?_cons_succ] at h
      have lift : (∃ k, k < pc ∧ rest[k]? = some (.fork c)) → ∃ k, k < pc + 1 ∧ (i :: rest)[k]? = some (.fork c) := by
        rintro ⟨k, hk, hf⟩; exact ⟨k + 1, by omega, by simpa using hf⟩
      cases i with
      | fork c' =>
        simp only [waitsOk] at hw
        rcases ih _ pc c hw h with hm | hk
        · simp only [List.mem_cons] at hm
          rcases hm with rfl | hm
          · exact Or.inr ⟨0, by omega, by simp⟩
          · exact Or.inl hm
        · exact Or.inr (lift hk)
      | wait c' =>
        simp only [waitsOk, Bool.and_eq_true] at hw
        rcases ih _ pc c hw.2 h with hm | hk
        · exact Or.inl hm
        · exact Or.inr (lift hk)
      | lock => simp only [waitsOk] at hw; rcases ih _ pc c hw h with hm | hk; exact Or.inl hm; exact Or.inr (lift hk)
      | unlock => simp only [waitsOk] at hw; rcases ih _ pc c hw h with hm | hk; exact Or.inl hm; exact Or.inr (lift hk)
      | work => simp only [waitsOk] at hw; rcases ih _ pc c hw h with hm | hk; exact Or.inl hm; exact Or.inr (lift hk)

theorem leaf_no_join (prog : List Instr) (hl : isLeaf prog = true) (pc : Nat) :
    (∀ c, prog[pc]? ≠ some (.wait c)) ∧ (∀ c, prog[pc]? ≠ some (.fork c)) := by
  simp only [isLeaf, List.all_eq_true] at hl
  constructor <;> intro c h <;> have := hl _ (List.mem_of_getElem? h) <;> simp at this

theorem fork_mem_forksOf (prog : List Instr) (k c : Nat) (h : prog[k]? = some (.fork c)) : c ∈ forksOf prog := by
  simp only [forksOf, List.mem_filterMap]
  exact ⟨_, List.mem_of_getElem? h, rfl⟩

theorem forksOf_mem (prog : List Instr) (c : Nat) (h : c ∈ forksOf prog) : ∃ k : Nat, prog[k]? = some (Instr.fork c) := by
  simp only [forksOf, List.mem_filterMap] at h
  obtain ⟨i, hi, hc⟩ := h
  obtain ⟨k, hk⟩ := List.getElem?_of_mem hi
  refine ⟨k, ?_⟩
  cases i <;> simp at hc
  subst hc; exact hk


/-! ### steps -/

theorem set_get_cases {α : Type} (l : List α) (w : Nat) (x : α) (w2 : Nat) (y : α) (h : (l.set w x)[w2]? = some y) :
    (w2 = w ∧ y = x) ∨ (w2 ≠ w ∧ l[w2]? = some y) := by
  rw [List.getElem?_set] at h
  by_cases hw : w = w2
  · subst hw
    simp only [if_true] at h
    split at h
    · simp only [Option.some.injEq] at h; exact Or.inl ⟨rfl, h.symm⟩
    · cases h
  · simp only [hw, if_false] at h
    exact Or.inr ⟨fun e => hw e.symm, h⟩

theorem set_get_self {α : Type} (l : List α) (w : Nat) (x y : α) (h : l[w]? = some y) : (l.set w x)[w]? = some x := by
  have hw : w < l.length := by
    by_cases hw : w < l.length
    · exact hw
    · rw [List.getElem?_eq_none (by omega)] at h; cases h
  rw [List.getElem?_set]; simp [hw]

theorem set_get_ne {α : Type} (l : List α) (w w2 : Nat) (x : α) (h : w2 ≠ w) : (l.set w x)[w2]? = l[w2]? := by
  rw [List.getElem?_set]
  have : ¬ w = w2 := fun e => h e.symm
  simp [this]

/-- the four shapes of a step of worker `w` -/
theorem pstep_cases (P : Pool) (s s' : PState) (w c : Nat) (h : pstep P s w c = some s') :
    (s.stacks[w]? = some [] ∧ c ∈ s.queue ∧
      s' = ⟨s.stacks.set w [(c, 0)], s.queue.erase c, s.finished, s.holder⟩) ∨
    (∃ t pc below, s.stacks[w]? = some ((t, pc) :: below) ∧ instrAt P t pc = none ∧
      s' = ⟨s.stacks.set w below, s.queue, t :: s.finished, s.holder⟩) ∨
    (∃ t pc below q' h', s.stacks[w]? = some ((t, pc) :: below) ∧
      s' = ⟨s.stacks.set w ((t, pc + 1) :: below), q', s.finished, h'⟩ ∧
      ((instrAt P t pc = some .work ∧ q' = s.queue ∧ h' = s.holder) ∨
       (instrAt P t pc = some .lock ∧ s.holder = none ∧ q' = s.queue ∧ h' = some w) ∨
       (instrAt P t pc = some .unlock ∧ q' = s.queue ∧ h' = none) ∨
       (∃ c', instrAt P t pc = some (.fork c') ∧ q' = c' :: s.queue ∧ h' = s.holder) ∨
       (∃ c', instrAt P t pc = some (.wait c') ∧ c' ∈ s.finished ∧ q' = s.queue ∧ h' = s.holder))) ∨
    (∃ t pc below c', s.stacks[w]? = some ((t, pc) :: below) ∧ instrAt P t pc = some (.wait c') ∧ c' ∉ s.finished ∧
      c ∈ s.queue ∧ s' = ⟨s.stacks.set w ((c, 0) :: (t, pc) :: below), s.queue.erase c, s.finished, s.holder⟩) := by
  unfold pstep at h
  split at h
  · cases h
  · rename_i hst
    split at h
    · rename_i hq
      simp only [Option.some.injEq] at h
      exact Or.inl ⟨hst, by simpa using hq, h.symm⟩
    · cases h
  · rename_i t pc below hst
    right
    split at h
    · rename_i hi
      simp only [Option.some.injEq] at h
      exact Or.inl ⟨t, pc, below, hst, hi, h.symm⟩
    · rename_i hi
      simp only [Option.some.injEq] at h
      exact Or.inr (Or.inl ⟨t, pc, below, _, _, hst, h.symm, Or.inl ⟨hi, rfl, rfl⟩⟩)
    · rename_i hi
      split at h
      · rename_i hh
        simp only [Option.some.injEq] at h
        have hn : s.holder = none := by simpa using hh
        exact Or.inr (Or.inl ⟨t, pc, below, _, _, hst, h.symm, Or.inr (Or.inl ⟨hi, hn, rfl, rfl⟩)⟩)
      · cases h
    · rename_i hi
      simp only [Option.some.injEq] at h
      exact Or.inr (Or.inl ⟨t, pc, below, _, _, hst, h.symm, Or.inr (Or.inr (Or.inl ⟨hi, rfl, rfl⟩))⟩)
    · rename_i c' hi
      simp only [Option.some.injEq] at h
      exact Or.inr (Or.inl ⟨t, pc, below, _, _, hst, h.symm, Or.inr (Or.inr (Or.inr (Or.inl ⟨c', hi, rfl, rfl⟩)))⟩)
    · rename_i c' hi
      split at h
      · rename_i hf
        simp only [Option.some.injEq] at h
        exact Or.inr (Or.inl ⟨t, pc, below, _, _, hst, h.symm,
          Or.inr (Or.inr (Or.inr (Or.inr ⟨c', hi, by simpa using hf, rfl, rfl⟩)))⟩)
      · rename_i hf
        split at h
        · rename_i hq
          simp only [Option.some.injEq] at h
          exact Or.inr (Or.inr ⟨t, pc, below, c', hst, hi, by simpa using hf, by simpa using hq, h.symm⟩)
        · cases h

end Zarrs.ShardAsm
