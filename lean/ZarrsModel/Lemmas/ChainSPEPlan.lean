import ZarrsModel.Model.ChainSPE
import ZarrsModel.Lemmas.ShardPEFixed
import ZarrsModel.Lemmas.ChainSDec
import ZarrsModel.Lemmas.Store
import ZarrsModel.Lemmas.Partial
set_option Elab.async false
/- helper lemmas for C05 on chains, part 5: the plan of `ShardingPartialEncoder::partial_encode` run on the storage
handle is `ShardPE.partialEncode`; the output handles of lawful bytes-to-bytes codecs -/
namespace Zarrs.Partial
open Zarrs Zarrs.Codec Zarrs.Shard Zarrs.ShardPE

/-- the bytes-to-bytes part of `CodecChain::encode` -/
def encB (b2b : List BStage) (b : Bytes) : Bytes := b2b.foldl (fun b st => st.enc b) b

theorem encB_cons (st : BStage) (rest : List BStage) (b : Bytes) : encB (st :: rest) b = encB rest (st.enc b) := rfl

theorem encB_filter (b2b : List BStage) : ∀ b, encB (b2b.filter (fun st => !st.isCache)) b = encB b2b b := by
  induction b2b with
  | nil => intro b; rfl
  | cons st rest ih =>
    intro b
    rw [List.filter_cons]
    cases st with
    | cache =>
      rw [if_neg (by simp [BStage.isCache])]
      exact ih _
    | stripSuffix n s =>
      rw [if_pos (by simp [BStage.isCache])]
      exact ih _
    | decodeAll e d =>
      rw [if_pos (by simp [BStage.isCache])]
      exact ih _

/-! ### the plan, with its folds resolved -/

theorem shardPlan_eq (c : Cfg) (idx : List (Nat × Nat)) (us : List (Nat × Option Bytes)) :
    shardPlan c idx us =
      (let dead := (idxDead idx us).all (fun e => !isLive e)
       let maxData := if dead then 0 else liveEnd idx
       let off := if c.indexAtEnd then maxData else max maxData (indexSize c)
       (dead,
        if (idxNew idx us off).all (fun e => !isLive e) then POp.erase
        else if c.indexAtEnd then
          if (dataNew us).isEmpty && liveEnd (idxNew idx us off) < off then
            POp.rewrite (liveEnd (idxNew idx us off)) (encodeIndex c (idxNew idx us off))
          else POp.write [(off, dataNew us ++ encodeIndex c (idxNew idx us off))]
        else POp.write [(0, encodeIndex c (idxNew idx us off)), (off, dataNew us)])) := by
  unfold shardPlan
  simp only
  rw [show (fun (ix : List (Nat × Nat)) (u : Nat × Option Bytes) => setEntry ix u.1 (sentinel, sentinel)) = step1 from rfl,
    fold_step1]
  rw [foldl_congr_step2 _ _ _ (fun acc u => by cases hu : u.2 <;> simp [step2, hu]), fold_step2]
  simp only [List.nil_append]
  rfl

/-- the final operation of a plan on the handles below `b2b`, the value being `v1` after the optional first erase -/
def runOp (b2b : List BStage) (v1 : Option Bytes) : POp → Option (Option Bytes)
  | .erase => some none
  | .write ws => bWrite b2b v1 ws
  | .rewrite le ib =>
    match bStack b2b v1 [ByteRange.fromStart 0 (some le)] with
    | none => none
    | some none => bWrite b2b none [(0, ib)]
    | some (some (s :: _)) => bWrite b2b none [(0, s ++ ib)]
    | some (some []) => none

theorem runPlan_eq (b2b : List BStage) (v : Option Bytes) (p : Bool × POp) :
    runPlan b2b v p = runOp b2b (if p.1 then none else v) p.2 := by
  unfold runPlan runOp
  cases p.2 <;> rfl

theorem storeHandle_prefix (b : Bytes) (le : Nat) (h : le ≤ b.length) :
    storeHandle (some b) [ByteRange.fromStart 0 (some le)] = some (some [b.take le]) := by
  have hv : (ByteRange.fromStart 0 (some le)).valid b.length = true := by
    simp only [ByteRange.valid, Option.getD_some, Nat.zero_add, decide_eq_true_eq]; exact h
  simp only [storeHandle, extractByteRanges, List.all_cons, hv, List.all_nil, Bool.and_self, if_true,
    List.map_cons, List.map_nil, Option.map_some]
  congr 3
  simp [ByteRange.extract, ByteRange.start, ByteRange.stop, slice]

/-- **run on the storage handle the plan is `ShardPE.partialEncode`** (the value, if present, at least as long as the
end of its live data: true of every well-formed shard) -/
theorem runPlan_nil (c : Cfg) (v : Option Bytes) (idx : List (Nat × Nat)) (us : List (Nat × Option Bytes))
    (hcur : currentIndex c v = some idx) (hle : ∀ b, v = some b → liveEnd idx ≤ b.length) :
    runPlan [] v (shardPlan c idx us) = partialEncode c v us := by
  rw [partialEncodeFixed_eq c v us idx hcur, shardPlan_eq, runPlan_eq]
  simp only
  have hw1 : ∀ (v1 : Option Bytes) (o : Nat) (y : Bytes), runOp [] v1 (POp.write [(o, y)]) = some (writeAt v1 o y) := by
    intro v1 o y; simp only [runOp, bWrite, List.foldl_cons, List.foldl_nil]
  have hw2 : ∀ (v1 : Option Bytes) (o : Nat) (x y : Bytes),
      runOp [] v1 (POp.write [(0, x), (o, y)]) = some (writeAt (writeAt v1 0 x) o y) := by
    intro v1 o x y; simp only [runOp, bWrite, List.foldl_cons, List.foldl_nil]
  have he : ∀ (v1 : Option Bytes), runOp [] v1 POp.erase = some none := fun _ => rfl
  cases hd : (idxDead idx us).all (fun e => !isLive e) <;> cases hc : c.indexAtEnd <;>
    simp only [Bool.false_eq_true, if_false, if_true, apply_ite (runOp [] none), apply_ite (runOp [] v), hw1, hw2, he]
  · split
    · rfl
    · split
      · rename_i hrw
        simp only [Bool.and_eq_true, decide_eq_true_eq] at hrw
        cases v with
        | none =>
          simp only [runOp, bStack, List.foldr_nil, storeHandle, bWrite, List.foldl_cons, List.foldl_nil,
            Option.getD_none, List.take_nil, List.nil_append]
        | some b =>
          have hl := hle b rfl
          simp only [runOp, bStack, List.foldr_nil]
          rw [storeHandle_prefix b _ (by omega)]
          simp only [bWrite, List.foldl_cons, List.foldl_nil, Option.getD_some]
      · rfl
  · split
    · rfl
    · split
      · rename_i hrw
        simp only [Bool.and_eq_true, decide_eq_true_eq] at hrw
        omega
      · rfl

end Zarrs.Partial
