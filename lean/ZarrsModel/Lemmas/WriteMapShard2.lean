import ZarrsModel.Lemmas.WriteMapShard
import ZarrsModel.Lemmas.ShardPD
set_option Elab.async false
/- helper lemmas for C17 (sharded routes), part 2: refinement, `decode_into` trees, the partial decoder's views -/
namespace Zarrs
open Zarrs.Subset
open Zarrs.Partial (tiles_length tiles_pos cell_of_inB cell_unique cellBox_inbounds chunksPerShard_of_tiles mem_chunks)

/-! ### refinement -/

theorem perm_flatMap_left {α β} (l : List α) (f g : α → List β) (h : ∀ a ∈ l, (f a).Perm (g a)) :
    (l.flatMap f).Perm (l.flatMap g) := by
  induction l with
  | nil => exact List.Perm.refl _
  | cons x xs ih =>
    simp only [List.flatMap_cons]
    exact (h x (by simp)).append (ih (fun a ha => h a (by simp [ha])))

/-- replacing every range by ranges that write the same bytes keeps the written bytes -/
theorem rangeBytes_refine (rs : List (Nat × Nat)) (f : Nat × Nat → List (Nat × Nat))
    (hf : ∀ r ∈ rs, (rangeBytes (f r)).Perm (List.range' r.1 r.2)) :
    (rangeBytes (rs.flatMap f)).Perm (rangeBytes rs) := by
  rw [rangeBytes_flatMap]
  exact perm_flatMap_left rs _ _ hf

theorem tiles_refine_perm (len : Nat) (rs : List (Nat × Nat)) (f : Nat × Nat → List (Nat × Nat))
    (h : tiles len rs = true) (hf : ∀ r ∈ rs, (rangeBytes (f r)).Perm (List.range' r.1 r.2)) :
    tiles len (rs.flatMap f) = true := by
  rw [tiles_iff_perm] at h ⊢
  exact (rangeBytes_refine rs f hf).trans h

theorem range'_shift (o l : Nat) : List.range' o l = (List.range l).map (· + o) := by
  rw [List.range_eq_range']
  induction l generalizing o with
  | zero => rfl
  | succ n ih =>
    rw [List.range'_succ, List.range'_succ, List.map_cons, Nat.zero_add]
    congr 1
    rw [ih (o + 1), ih 1, List.map_map]
    apply List.map_congr_left
    intro a _
    simp only [Function.comp]
    omega

/-- a tiling of the range `(o, l)`, stated with `tiles` on the ranges moved to offset 0 -/
theorem rangeBytes_of_tiles_shifted (o l : Nat) (q : List (Nat × Nat))
    (hq : tiles l (q.map (fun x => (x.1 - o, x.2))) = true) (hge : ∀ x ∈ q, o ≤ x.1) :
    (rangeBytes q).Perm (List.range' o l) := by
  rw [tiles_iff_perm] at hq
  have hm : rangeBytes q = (rangeBytes (q.map (fun x => (x.1 - o, x.2)))).map (· + o) := by
    simp only [rangeBytes, List.flatMap_map, List.map_flatMap]
    apply flatMap_congr'
    intro x hx
    have := hge x hx
    rw [range'_shift x.1 x.2, range'_shift (x.1 - o) x.2, List.map_map]
    apply List.map_congr_left
    intro a _
    simp only [Function.comp]
    omega
  rw [hm, range'_shift o l]
  exact hq.map _

/-! ### `decode_into` trees -/

/-- the shapes of a tree tile: at every `shard` node the inner chunk shape tiles the shape of the chunk -/
def IntoTree.wf : IntoTree → Shape → Prop
  | .fill, _ => True
  | .leaf, _ => True
  | .shard inner sub, sh => Partial.tiles inner sh = true ∧ ∀ k, k < prod (zipDiv sh inner) → (sub k).wf inner

theorem flatOpt_map_perm {β} (l : List β) (f : β → Option (List (Nat × Nat))) (g : β → List (Nat × Nat))
    (h : ∀ x ∈ l, ∃ m, f x = some m ∧ (rangeBytes m).Perm (rangeBytes (g x))) :
    ∃ m, flatOpt (l.map f) = some m ∧ (rangeBytes m).Perm (rangeBytes (l.flatMap g)) := by
  induction l with
  | nil => exact ⟨[], rfl, List.Perm.refl _⟩
  | cons x xs ih =>
    obtain ⟨m1, h1, p1⟩ := h x (by simp)
    obtain ⟨m2, h2, p2⟩ := ih (fun y hy => h y (by simp [hy]))
    refine ⟨m1 ++ m2, ?_, ?_⟩
    · simp only [List.map_cons, flatOpt, h1, h2]
    · rw [List.flatMap_cons, rangeBytes_append, rangeBytes_append]
      exact p1.append p2

/-- **views of views, any depth**: whatever tree of sub-views `decode_into` builds inside a view, the bytes written
are exactly those of the view -/
theorem decodeInto_refines (out : Shape) (es : Nat) : ∀ (t : IntoTree) (sh : Shape) (v : Subset), t.wf sh →
    v.wf = true → v.inboundsShape out = true → v.shape = sh →
    ∃ m, decodeIntoMap out es t sh v = some m ∧ (rangeBytes m).Perm (rangeBytes (v.byteRanges out es)) := by
  intro t
  induction t with
  | fill => intro sh v _ _ _ _; exact ⟨_, rfl, List.Perm.refl _⟩
  | leaf =>
    intro sh v _ _ _ hs
    refine ⟨_, ?_, List.Perm.refl _⟩
    simp only [decodeIntoMap, Subset.numElements, hs, beq_self_eq_true, if_true]
  | shard inner sub ih =>
    intro sh v hwf hv hvb hs
    subst hs
    obtain ⟨ht, hsub⟩ := hwf
    obtain ⟨h1, _, _⟩ := subView_facts out v hv hvb ht
    have hstep : ∀ k ∈ List.range (prod (zipDiv v.shape inner)), ∃ m,
        (fun k => if (addIdx v.start (shardChunkSubset (zipDiv v.shape inner) inner k).start).length != inner.length
          then none
          else decodeIntoMap out es (sub k) inner
            ⟨addIdx v.start (shardChunkSubset (zipDiv v.shape inner) inner k).start, inner⟩) k = some m ∧
        (rangeBytes m).Perm (rangeBytes ((subView v.start (zipDiv v.shape inner) inner k).byteRanges out es)) := by
      intro k hk
      rw [List.mem_range] at hk
      obtain ⟨hw, hb⟩ := h1 k hk
      have hlen : (addIdx v.start (shardChunkSubset (zipDiv v.shape inner) inner k).start).length = inner.length := by
        simpa [subView, Subset.wf] using hw
      obtain ⟨m, hm, hp⟩ := ih k inner (subView v.start (zipDiv v.shape inner) inner k) (hsub k hk) hw hb rfl
      refine ⟨m, ?_, hp⟩
      simp only [hlen, bne_self_eq_false, Bool.false_eq_true, if_false]
      exact hm
    obtain ⟨m, hm, hp⟩ := flatOpt_map_perm _ _ _ hstep
    refine ⟨m, ?_, hp.trans (subViews_perm out es v hv hvb ht)⟩
    simp only [decodeIntoMap, chunksPerShard_of_tiles ht]
    exact hm

/-! ### (b) the views of one region of the sharding partial decoder -/

theorem zipMax_comm (a b : List Nat) : zipMax a b = zipMax b a := by
  induction a generalizing b with
  | nil => cases b <;> rfl
  | cons x xs ih => cases b with
    | nil => rfl
    | cons y ys => simp [zipMax, ih ys, Nat.max_comm]

theorem zipMin_comm (a b : List Nat) : zipMin a b = zipMin b a := by
  induction a generalizing b with
  | nil => cases b <;> rfl
  | cons x xs ih => cases b with
    | nil => rfl
    | cons y ys => simp [zipMin, ih ys, Nat.min_comm]

theorem overlap_comm (a b : Subset) : a.overlap b = b.overlap a := by
  simp only [Subset.overlap, zipMax_comm a.start b.start, zipMin_comm a.endExc b.endExc]

/-- the view of one item of the chunk iterator -/
def pdView (r : Subset) (p : Idx × Subset) : Subset := (r.overlap p.2).relativeTo r.start

/-- facts about the items of the chunk iterator of a region and their views -/
theorem pdView_facts (inner : Shape) (r : Subset) (hr : r.wf = true) (hpos : ∀ k ∈ inner, 0 < k)
    (hcl : inner.length = r.rank) (p : Idx × Subset) (hp : p ∈ r.chunks inner) :
    p.2 = ⟨zipMul p.1 inner, inner⟩ ∧ p.1.length = inner.length ∧
    (pdView r p).wf = true ∧ (pdView r p).inboundsShape r.shape = true ∧
    (r.overlap p.2).numElements = (pdView r p).numElements ∧
    ∀ j, inB j r.shape = true → (pdView r p).contains j = p.2.contains (addIdx j r.start) := by
  obtain ⟨hp1, hp2⟩ := (mem_chunks r inner p).mp hp
  have hbwf := r.chunkBox_wf inner hr hcl
  rw [(r.chunkBox inner).mem_indices hbwf] at hp1
  obtain ⟨hlen, i0, hi0r, hi0c⟩ := (r.contains_chunkBox inner hr hcl hpos p.1).mp hp1
  rw [← hp2] at hi0c
  obtain ⟨hw, hin, hm⟩ := piece_facts hr hi0c hi0r
  refine ⟨hp2, by omega, ?_, ?_, ?_, ?_⟩
  · simp only [pdView, overlap_comm r p.2]; exact hw
  · simp only [pdView, overlap_comm r p.2]; exact hin
  · simp only [pdView, Subset.numElements, Subset.relativeTo]
  · intro j hj
    simp only [pdView, overlap_comm r p.2]
    exact hm j hj

/-- the views of one region are pairwise disjoint -/
theorem pdViews_disjoint (inner : Shape) (r : Subset) (hr : r.wf = true) (hpos : ∀ k ∈ inner, 0 < k)
    (hcl : inner.length = r.rank) :
    (r.chunks inner).Pairwise (fun a b => ∀ j, (pdView r a).contains j = true → (pdView r b).contains j = true → False) := by
  have hbwf := r.chunkBox_wf inner hr hcl
  have hall : ∀ p ∈ r.chunks inner, _ := fun p hp => pdView_facts inner r hr hpos hcl p hp
  have hpw : (r.chunks inner).Pairwise (fun a b => a.1 ≠ b.1) := by
    simp only [Subset.chunks, Iter.new_items, List.pairwise_map]
    refine ((r.chunkBox inner).indices_pairwise hbwf).imp ?_
    intro a b hab he
    rw [he, lexLt_irrefl] at hab
    cases hab
  refine hpw.imp_of_mem ?_
  intro a b ha hb hne j hja hjb
  obtain ⟨ha2, hal, _, hain, _, hac⟩ := hall a ha
  obtain ⟨hb2, hbl, _, _, _, hbc⟩ := hall b hb
  have hjB := contains_inB _ r.shape hain j hja
  rw [hac j hjB, ha2] at hja
  rw [hbc j hjB, hb2] at hjb
  have e1 := cell_unique inner hpos _ a.1 hja hal
  have e2 := cell_unique inner hpos _ b.1 hjb hbl
  exact hne (e1.trans e2.symm)

/-- an index lies in the box of the inner chunk `index / inner` -/
theorem mem_own_cell (inner : Shape) (hpos : ∀ k ∈ inner, 0 < k) (i : Idx) (hil : i.length = inner.length) :
    mem i (zipMul (zipDiv i inner) inner) inner = true := by
  induction i generalizing inner with
  | nil => cases inner <;> simp_all [zipDiv, zipMul, mem]
  | cons x xs ih =>
    cases inner with
    | nil => simp at hil
    | cons c cs =>
      have hc : 0 < c := hpos c (by simp)
      simp only [List.length_cons, Nat.add_right_cancel_iff] at hil
      simp only [zipDiv, zipMul, mem, Bool.and_eq_true, decide_eq_true_eq]
      refine ⟨⟨Nat.div_mul_le_self x c, ?_⟩, ih cs (fun k hk => hpos k (by simp [hk])) hil⟩
      have := Nat.div_add_mod x c
      have := Nat.mod_lt x hc
      rw [Nat.mul_comm]; omega

/-- every index of the region's buffer lies in the view of some item -/
theorem pdViews_cover (inner : Shape) (r : Subset) (hr : r.wf = true) (hpos : ∀ k ∈ inner, 0 < k)
    (hcl : inner.length = r.rank) (j : Idx) (hj : inB j r.shape = true) :
    ∃ p ∈ r.chunks inner, (pdView r p).contains j = true := by
  have hr' := hr
  simp only [Subset.wf, beq_iff_eq] at hr'
  have hri : r.contains (addIdx j r.start) = true := mem_addIdx j r.start r.shape hr' hj
  have hil : (addIdx j r.start).length = inner.length := by
    have := (mem_length hri).1
    simp only [Subset.rank] at hcl
    omega
  have hm := mem_own_cell inner hpos _ hil
  generalize hi : addIdx j r.start = i at hri hil hm
  refine ⟨(zipDiv i inner, ⟨zipMul (zipDiv i inner) inner, inner⟩), ?_, ?_⟩
  · rw [mem_chunks]
    refine ⟨?_, rfl⟩
    rw [(r.chunkBox inner).mem_indices (r.chunkBox_wf inner hr hcl)]
    apply (r.contains_chunkBox inner hr hcl hpos _).mpr
    refine ⟨?_, i, hri, hm⟩
    simp only [zipDiv_length]
    omega
  · have hp : (zipDiv i inner, (⟨zipMul (zipDiv i inner) inner, inner⟩ : Subset)) ∈ r.chunks inner := by
      rw [mem_chunks]
      refine ⟨?_, rfl⟩
      rw [(r.chunkBox inner).mem_indices (r.chunkBox_wf inner hr hcl)]
      apply (r.contains_chunkBox inner hr hcl hpos _).mpr
      refine ⟨?_, i, hri, hm⟩
      simp only [zipDiv_length]
      omega
    obtain ⟨_, _, _, _, _, hc⟩ := pdView_facts inner r hr hpos hcl _ hp
    rw [hc j hj, hi]
    exact hm

/-- **(b)** the views of one region write every byte of the region's buffer once -/
theorem shardPD_perm (inner : Shape) (r : Subset) (hr : r.wf = true) (hpos : ∀ k ∈ inner, 0 < k)
    (hcl : inner.length = r.rank) (es : Nat) :
    (rangeBytes ((shardPDViews inner r).flatMap (fun v => v.byteRanges r.shape es))).Perm
      (List.range (r.numElements * es)) := by
  have := views_tile r.shape es (shardPDViews inner r)
    (by
      intro W hW
      obtain ⟨p, hp, rfl⟩ := List.mem_map.mp hW
      obtain ⟨_, _, h3, h4, _, _⟩ := pdView_facts inner r hr hpos hcl p hp
      exact ⟨h3, h4⟩)
    (by
      simp only [DisjointViews, shardPDViews, List.pairwise_map]
      exact pdViews_disjoint inner r hr hpos hcl)
    (by
      intro j hj
      obtain ⟨p, hp, hpj⟩ := pdViews_cover inner r hr hpos hcl j hj
      exact ⟨_, List.mem_map.mpr ⟨p, hp, rfl⟩, hpj⟩)
  exact this

end Zarrs
