import ZarrsModel.Lemmas.CodecBasic
/- helper lemmas for C03, part 3: the `sharding_indexed` layout -/
namespace Zarrs.Shard
open Zarrs Zarrs.Codec

/-! ### 64-bit words -/

theorem le64_eq (n : Nat) : le64 n = [n % 256, n / 256 % 256, n / 65536 % 256, n / 16777216 % 256,
    n / 4294967296 % 256, n / 1099511627776 % 256, n / 281474976710656 % 256, n / 72057594037927936 % 256] := by
  have : List.range 8 = [0, 1, 2, 3, 4, 5, 6, 7] := by decide
  simp [le64, this]

theorem ofLe_le64 (n : Nat) (h : n < 2 ^ 64) : ofLe (le64 n) = n := by
  rw [le64_eq]
  simp only [ofLe, List.foldr]
  omega

theorem w64_length (big : Bool) (n : Nat) : (w64 big n).length = 8 := by
  cases big <;> simp [w64, be64, le64]

theorem r64_w64 (big : Bool) (n : Nat) (h : n < 2 ^ 64) : r64 big (w64 big n) = n := by
  cases big <;> simp [w64, r64, be64, ofLe_le64 n h]

theorem take_app {α} (a b : List α) (n : Nat) (h : a.length = n) : (a ++ b).take n = a := by
  subst h; simp
theorem drop_app {α} (a b : List α) (n : Nat) (h : a.length = n) : (a ++ b).drop n = b := by
  subst h; simp

/-! ### the index -/

def rawIndex (big : Bool) (entries : List (Nat × Nat)) : Bytes :=
  entries.flatMap (fun e => w64 big e.1 ++ w64 big e.2)

theorem rawIndex_length (big : Bool) (entries : List (Nat × Nat)) :
    (rawIndex big entries).length = 16 * entries.length := by
  induction entries with
  | nil => rfl
  | cons e es ih =>
    simp only [rawIndex, List.flatMap_cons, List.length_append, w64_length, List.length_cons] at ih ⊢
    omega

theorem readEntries_raw (big : Bool) (entries : List (Nat × Nat))
    (h : ∀ e ∈ entries, e.1 < 2 ^ 64 ∧ e.2 < 2 ^ 64) :
    readEntries big entries.length (rawIndex big entries) = entries := by
  induction entries with
  | nil => rfl
  | cons e es ih =>
    have he := h e (by simp)
    have hr : rawIndex big (e :: es) = w64 big e.1 ++ (w64 big e.2 ++ rawIndex big es) := by
      simp [rawIndex, List.flatMap_cons]
    have hr' : rawIndex big (e :: es) = (w64 big e.1 ++ w64 big e.2) ++ rawIndex big es := by
      simp [rawIndex, List.flatMap_cons]
    have hd : (rawIndex big (e :: es)).drop 16 = rawIndex big es := by
      rw [hr']; exact drop_app _ _ 16 (by simp [w64_length])
    simp only [List.length_cons, readEntries]
    rw [hd, hr, take_app _ _ 8 (w64_length _ _), drop_app _ _ 8 (w64_length _ _), take_app _ _ 8 (w64_length _ _),
      r64_w64 _ _ he.1, r64_w64 _ _ he.2, ih (fun e' he' => h e' (by simp [he']))]

theorem encodeIndex_def (c : Cfg) (entries : List (Nat × Nat)) :
    encodeIndex c entries = if c.indexCrc then checksumEnc crc32c (rawIndex c.indexBig entries)
      else rawIndex c.indexBig entries := rfl

theorem encodeIndex_length (c : Cfg) (entries : List (Nat × Nat)) (hn : entries.length = c.nChunks) :
    (encodeIndex c entries).length = indexSize c := by
  have := rawIndex_length c.indexBig entries
  rw [hn] at this
  rw [encodeIndex_def]
  unfold indexSize
  cases c.indexCrc
  · simpa using this
  · simp only [if_true]
    rw [checksumEnc_length, this]

theorem decodeIndex_encodeIndex (c : Cfg) (validate : Bool) (entries : List (Nat × Nat))
    (hn : entries.length = c.nChunks) (h : ∀ e ∈ entries, e.1 < 2 ^ 64 ∧ e.2 < 2 ^ 64) :
    decodeIndex c validate (encodeIndex c entries) = .ok entries := by
  unfold decodeIndex
  rw [encodeIndex_length c entries hn]
  simp only [bne_self_eq_false, Bool.false_eq_true, if_false]
  have hre := readEntries_raw c.indexBig entries h
  rw [hn] at hre
  rw [encodeIndex_def]
  cases c.indexCrc
  · simpa using hre
  · simp only [if_true]
    rw [show crc32cDec = checksumDec crc32c from rfl, checksumDec_enc]
    exact congrArg Except.ok hre

/-! ### the layout -/

def dataOf (chunks : List (Option Bytes)) : Bytes := (chunks.filterMap id).flatten

def entriesFrom : Nat → List (Option Bytes) → List (Nat × Nat)
  | _, [] => []
  | off, none :: cs => (sentinel, sentinel) :: entriesFrom off cs
  | off, some b :: cs => (off, b.length) :: entriesFrom (off + b.length) cs

@[simp] theorem dataOf_nil : dataOf [] = [] := rfl
@[simp] theorem dataOf_none (cs : List (Option Bytes)) : dataOf (none :: cs) = dataOf cs := rfl
@[simp] theorem dataOf_some (b : Bytes) (cs : List (Option Bytes)) : dataOf (some b :: cs) = b ++ dataOf cs := rfl

theorem entriesFrom_length (off : Nat) (chunks : List (Option Bytes)) :
    (entriesFrom off chunks).length = chunks.length := by
  induction chunks generalizing off with
  | nil => rfl
  | cons ch cs ih => cases ch <;> simp [entriesFrom, ih]

theorem dataOf_length (chunks : List (Option Bytes)) :
    (dataOf chunks).length = ((chunks.filterMap id).map List.length).sum := by
  simp [dataOf, List.length_flatten]

def layoutStep (acc : Bytes × List (Nat × Nat) × Nat) (ch : Option Bytes) : Bytes × List (Nat × Nat) × Nat :=
  match ch with
  | none => (acc.1, acc.2.1 ++ [(sentinel, sentinel)], acc.2.2)
  | some b => (acc.1 ++ b, acc.2.1 ++ [(acc.2.2, b.length)], acc.2.2 + b.length)

theorem layout_foldl (chunks : List (Option Bytes)) (d : Bytes) (es : List (Nat × Nat)) (off : Nat) :
    chunks.foldl layoutStep (d, es, off) =
      (d ++ dataOf chunks, es ++ entriesFrom off chunks, off + (dataOf chunks).length) := by
  induction chunks generalizing d es off with
  | nil => simp [entriesFrom]
  | cons ch cs ih =>
    cases ch with
    | none => simp [layoutStep, ih, entriesFrom]
    | some b => simp [layoutStep, ih, entriesFrom, Nat.add_assoc]

def base (c : Cfg) : Nat := if c.indexAtEnd then 0 else indexSize c

theorem layout_eq (c : Cfg) (chunks : List (Option Bytes)) :
    layout c chunks = (dataOf chunks, entriesFrom (base c) chunks) := by
  show (match chunks.foldl layoutStep ([], [], base c) with | (data, entries, _) => (data, entries)) = _
  rw [layout_foldl]
  simp

theorem encode_eq (c : Cfg) (chunks : List (Option Bytes)) :
    encode c chunks = if c.indexAtEnd then dataOf chunks ++ encodeIndex c (entriesFrom (base c) chunks)
      else encodeIndex c (entriesFrom (base c) chunks) ++ dataOf chunks := by
  unfold encode
  rw [layout_eq]

/-! ### decoding the entries of the produced layout -/

def decEntry (v : Bytes) (e : Nat × Nat) : Except DecErr (Option Bytes) :=
  if e.1 == sentinel && e.2 == sentinel then .ok none
  else if e.1 + e.2 > v.length then .error .other
  else .ok (some (slice v e.1 (e.1 + e.2)))

theorem decode_def (c : Cfg) (validate : Bool) (v : Bytes) :
    decode c validate v = match indexBytes c v with
      | none => .error .tooShort
      | some ib => match decodeIndex c validate ib with
        | .error e => .error e
        | .ok entries => entries.mapM (decEntry v) := rfl

theorem slice_mid (pre b post : Bytes) : slice (pre ++ b ++ post) pre.length (pre.length + b.length) = b := by
  unfold slice
  rw [Nat.add_sub_cancel_left, List.append_assoc, List.drop_left, List.take_left]

theorem mapM_cons_ok (v : Bytes) (e : Nat × Nat) (es : List (Nat × Nat)) (x : Option Bytes) (xs : List (Option Bytes))
    (h1 : decEntry v e = .ok x) (h2 : es.mapM (decEntry v) = .ok xs) :
    (e :: es).mapM (decEntry v) = .ok (x :: xs) := by
  rw [List.mapM_cons, h1, h2]; rfl

theorem mapM_entries (chunks : List (Option Bytes)) : ∀ (pre post v : Bytes), v = pre ++ dataOf chunks ++ post →
    pre.length + (dataOf chunks).length < sentinel →
    (entriesFrom pre.length chunks).mapM (decEntry v) = .ok chunks := by
  induction chunks with
  | nil => intro pre post v _ _; rfl
  | cons ch cs ih =>
    intro pre post v hv hs
    cases ch with
    | none =>
      simp only [entriesFrom]
      apply mapM_cons_ok
      · simp [decEntry]
      · exact ih pre post v hv hs
    | some b =>
      simp only [entriesFrom]
      simp only [dataOf_some, List.length_append] at hs
      have hv' : v = (pre ++ b) ++ dataOf cs ++ post := by rw [hv]; simp
      apply mapM_cons_ok
      · have hne : (pre.length == sentinel) = false := by simp; omega
        have hle : ¬ (pre.length + b.length > v.length) := by rw [hv]; simp
        have hsl : slice v pre.length (pre.length + b.length) = b := by
          rw [show v = pre ++ b ++ (dataOf cs ++ post) by rw [hv]; simp]; exact slice_mid _ _ _
        simp only [decEntry, hne, Bool.false_and, Bool.false_eq_true, if_false, hle, hsl]
      · have := ih (pre ++ b) post v hv' (by simp only [List.length_append]; omega)
        rwa [List.length_append] at this

/-- every entry is the sentinel or lies inside the data region -/
theorem entriesFrom_mem (chunks : List (Option Bytes)) : ∀ (off : Nat), ∀ e ∈ entriesFrom off chunks,
    e = (sentinel, sentinel) ∨ (off ≤ e.1 ∧ e.1 + e.2 ≤ off + (dataOf chunks).length) := by
  induction chunks with
  | nil => intro off e he; simp [entriesFrom] at he
  | cons ch cs ih =>
    intro off e he
    cases ch with
    | none =>
      simp only [entriesFrom, List.mem_cons] at he
      rcases he with rfl | he
      · exact Or.inl rfl
      · exact ih off e he
    | some b =>
      simp only [entriesFrom, List.mem_cons] at he
      simp only [dataOf_some, List.length_append]
      rcases he with rfl | he
      · right; simp
      · rcases ih _ e he with h | h
        · exact Or.inl h
        · right; omega

theorem sentinel_lt : sentinel < 2 ^ 64 := by decide

theorem entriesFrom_bounds (chunks : List (Option Bytes)) (off : Nat)
    (hs : off + (dataOf chunks).length < sentinel) :
    ∀ e ∈ entriesFrom off chunks, e.1 < 2 ^ 64 ∧ e.2 < 2 ^ 64 := by
  intro e he
  have := sentinel_lt
  rcases entriesFrom_mem chunks off e he with rfl | h
  · exact ⟨this, this⟩
  · constructor <;> omega

theorem isLive_of_lt (e : Nat × Nat) (h : e.1 < sentinel) : isLive e = true := by
  have : (e.1 == sentinel) = false := by simp; omega
  simp [isLive, this]

theorem entriesFrom_pairwise (chunks : List (Option Bytes)) : ∀ (off : Nat),
    (entriesFrom off chunks).Pairwise (fun a b => isLive a = true → isLive b = true → a.1 + a.2 ≤ b.1) := by
  induction chunks with
  | nil => intro off; simp [entriesFrom]
  | cons ch cs ih =>
    intro off
    cases ch with
    | none =>
      simp only [entriesFrom, List.pairwise_cons]
      refine ⟨?_, ih off⟩
      intro e _ h; simp [isLive] at h
    | some b =>
      simp only [entriesFrom, List.pairwise_cons]
      refine ⟨?_, ih _⟩
      intro e he _ hl
      rcases entriesFrom_mem cs _ e he with rfl | h
      · simp [isLive] at hl
      · exact h.1

/-- positional description of the entries -/
theorem entriesFrom_spec (chunks : List (Option Bytes)) : ∀ (pre post v : Bytes), v = pre ++ dataOf chunks ++ post →
    ∀ i : Nat, (chunks[i]? = some none → (entriesFrom pre.length chunks)[i]? = some (sentinel, sentinel)) ∧
      (∀ b, chunks[i]? = some (some b) → ∃ off, (entriesFrom pre.length chunks)[i]? = some (off, b.length) ∧
        pre.length ≤ off ∧ off + b.length ≤ pre.length + (dataOf chunks).length ∧
        slice v off (off + b.length) = b) := by
  induction chunks with
  | nil => intro pre post v _ i; simp
  | cons ch cs ih =>
    intro pre post v hv i
    cases ch with
    | none =>
      cases i with
      | zero => simp [entriesFrom]
      | succ i =>
        simp only [List.getElem?_cons_succ, entriesFrom, dataOf_none]
        exact ih pre post v hv i
    | some b =>
      have hv' : v = (pre ++ b) ++ dataOf cs ++ post := by rw [hv]; simp
      cases i with
      | zero =>
        simp only [List.getElem?_cons_zero, entriesFrom, Option.some.injEq, reduceCtorEq, false_imp_iff, true_and]
        intro b' hb
        subst hb
        refine ⟨pre.length, rfl, Nat.le_refl _, by simp, ?_⟩
        rw [show v = pre ++ b ++ (dataOf cs ++ post) by rw [hv]; simp]; exact slice_mid _ _ _
      | succ i =>
        simp only [List.getElem?_cons_succ, entriesFrom, dataOf_some, List.length_append]
        have := ih (pre ++ b) post v hv' i
        rw [List.length_append] at this
        refine ⟨this.1, ?_⟩
        intro b' hb'
        obtain ⟨off, h1, h2, h3, h4⟩ := this.2 b' hb'
        exact ⟨off, h1, by omega, by omega, h4⟩

/-! ### the produced shard -/

/-- how `encode` places the data and the index -/
theorem encode_split (c : Cfg) (chunks : List (Option Bytes)) (hn : chunks.length = c.nChunks) :
    ∃ pre post, encode c chunks = pre ++ dataOf chunks ++ post ∧ pre.length = base c ∧
      pre.length + post.length = indexSize c ∧
      indexBytes c (encode c chunks) = some (encodeIndex c (entriesFrom (base c) chunks)) ∧
      (∀ off len, pre.length ≤ off → off + len ≤ pre.length + (dataOf chunks).length →
        off + len ≤ (indexRegion c (encode c chunks).length).1 ∨
          (indexRegion c (encode c chunks).length).2 ≤ off) := by
  have hlen : (encodeIndex c (entriesFrom (base c) chunks)).length = indexSize c :=
    encodeIndex_length c _ (by rw [entriesFrom_length, hn])
  rw [encode_eq]
  generalize encodeIndex c (entriesFrom (base c) chunks) = idx at hlen ⊢
  unfold indexBytes indexRegion base
  cases c.indexAtEnd
  · refine ⟨idx, [], by simp, by simp [hlen], by simp [hlen], ?_, ?_⟩
    · have : ¬ ((idx ++ dataOf chunks).length < indexSize c) := by simp [hlen]
      simp only [this, if_false, Bool.false_eq_true]
      rw [take_app _ _ _ hlen]
    · intro off len h1 _
      right; simp only [Bool.false_eq_true, if_false]; omega
  · refine ⟨[], idx, by simp, by simp, by simp [hlen], ?_, ?_⟩
    · have : ¬ ((dataOf chunks ++ idx).length < indexSize c) := by simp [hlen]
      simp only [this, if_false, if_true]
      rw [drop_app _ _ _ (by simp [hlen])]
    · intro off len _ h2
      left; simp only [if_true, List.length_append, hlen, Nat.add_sub_cancel]
      simpa using h2

theorem shard_decode (c : Cfg) (validate : Bool) (chunks : List (Option Bytes)) (hn : chunks.length = c.nChunks)
    (hsmall : (dataOf chunks).length + indexSize c < sentinel) :
    decode c validate (encode c chunks) = .ok chunks := by
  obtain ⟨pre, post, hv, hb, hpp, hib, _⟩ := encode_split c chunks hn
  have hs : pre.length + (dataOf chunks).length < sentinel := by omega
  rw [decode_def, hib]
  simp only
  rw [decodeIndex_encodeIndex c validate _ (by rw [entriesFrom_length, hn])
    (entriesFrom_bounds chunks _ (by rw [← hb]; exact hs))]
  simp only
  rw [← hb]
  exact mapM_entries chunks pre post _ hv hs

theorem shard_length (c : Cfg) (chunks : List (Option Bytes)) (hn : chunks.length = c.nChunks) :
    (encode c chunks).length = ((chunks.filterMap id).map List.length).sum + indexSize c := by
  obtain ⟨pre, post, hv, _, hpp, _, _⟩ := encode_split c chunks hn
  rw [hv, ← dataOf_length]
  simp only [List.length_append]
  omega

theorem dataOf_length_le (chunks : List (Option Bytes)) (m : Nat)
    (hm : ∀ ch ∈ chunks, ∀ b, ch = some b → b.length ≤ m) : (dataOf chunks).length ≤ chunks.length * m := by
  induction chunks with
  | nil => simp
  | cons ch cs ih =>
    have ih' := ih (fun ch' h' => hm ch' (List.mem_cons_of_mem _ h'))
    rw [List.length_cons, Nat.succ_mul]
    cases ch with
    | none => simp only [dataOf_none]; omega
    | some b =>
      have := hm (some b) (by simp) b rfl
      simp only [dataOf_some, List.length_append]; omega

theorem shard_legal (c : Cfg) (chunks : List (Option Bytes)) (hn : chunks.length = c.nChunks)
    (hsmall : (dataOf chunks).length + indexSize c < sentinel) :
    Legal c (encode c chunks) chunks := by
  obtain ⟨pre, post, hv, hb, hpp, hib, hreg⟩ := encode_split c chunks hn
  have hs : pre.length + (dataOf chunks).length < sentinel := by omega
  have hel : (entriesFrom (base c) chunks).length = c.nChunks := by rw [entriesFrom_length, hn]
  refine ⟨hn, encodeIndex c (entriesFrom (base c) chunks), entriesFrom (base c) chunks, hib,
    decodeIndex_encodeIndex c true _ hel (entriesFrom_bounds chunks _ (by rw [← hb]; exact hs)), hel, ?_, ?_⟩
  · intro i h hc
    have hsp := entriesFrom_spec chunks pre post _ hv i
    rw [hb] at hsp
    have hvl : (encode c chunks).length = pre.length + (dataOf chunks).length + post.length := by
      rw [hv]; simp [Nat.add_assoc]
    split
    · rename_i heq
      have := hsp.1 (by rw [List.getElem?_eq_getElem hc, heq])
      rw [List.getElem?_eq_getElem h, Option.some.injEq] at this
      rw [this]; simp [isLive]
    · rename_i b heq
      obtain ⟨off, h1, h2, h3, h4⟩ := hsp.2 b (by rw [List.getElem?_eq_getElem hc, heq])
      rw [List.getElem?_eq_getElem h, Option.some.injEq] at h1
      rw [h1]
      refine ⟨isLive_of_lt _ (by simp only; omega), rfl, by simp only; omega, h4,
        hreg off b.length (by omega) (by omega)⟩
  · intro i j hi hj hij hli hlj
    have hp := List.pairwise_iff_getElem.mp (entriesFrom_pairwise chunks (base c))
    rcases Nat.lt_or_gt_of_ne hij with hlt | hgt
    · exact Or.inl (hp i j hi hj hlt hli hlj)
    · exact Or.inr (hp j i hj hi hgt hlj hli)

theorem shard_wellFormed (c : Cfg) (chunks : List (Option Bytes)) (hn : chunks.length = c.nChunks)
    (hsmall : (dataOf chunks).length + indexSize c < sentinel) :
    wellFormed c (encode c chunks) = true := by
  obtain ⟨pre, post, hv, hb, hpp, hib, hreg⟩ := encode_split c chunks hn
  have hs : pre.length + (dataOf chunks).length < sentinel := by omega
  have hel : (entriesFrom (base c) chunks).length = c.nChunks := by rw [entriesFrom_length, hn]
  have hvl : (encode c chunks).length = pre.length + (dataOf chunks).length + post.length := by
    rw [hv]; simp [Nat.add_assoc]
  unfold wellFormed
  rw [hib]
  simp only
  rw [decodeIndex_encodeIndex c true _ hel (entriesFrom_bounds chunks _ (by rw [← hb]; exact hs))]
  simp only [Bool.and_eq_true, List.all_eq_true, List.mem_filter, List.mem_range, Bool.or_eq_true,
    decide_eq_true_eq, beq_iff_eq]
  constructor
  · intro e ⟨he, hl⟩
    rcases entriesFrom_mem chunks _ e he with rfl | h
    · simp [isLive] at hl
    · rw [← hb] at h
      exact ⟨by omega, hreg e.1 e.2 h.1 h.2⟩
  · intro i hi j hj
    have hp := List.pairwise_iff_getElem.mp
      ((entriesFrom_pairwise chunks (base c)).sublist (List.filter_sublist (p := isLive)))
    have hlive : ∀ k (hk : k < ((entriesFrom (base c) chunks).filter isLive).length),
        isLive ((entriesFrom (base c) chunks).filter isLive)[k] = true := fun k hk =>
      (List.mem_filter.mp (List.getElem_mem hk)).2
    rw [List.getD_eq_getElem?_getD, List.getD_eq_getElem?_getD, List.getElem?_eq_getElem hi,
      List.getElem?_eq_getElem hj]
    simp only [Option.getD_some]
    by_cases hij : i = j
    · exact Or.inl hij
    · right
      rcases Nat.lt_or_gt_of_ne hij with hlt | hgt
      · exact Or.inl (Or.inl (Or.inl (hp i j hi hj hlt (hlive i hi) (hlive j hj))))
      · exact Or.inl (Or.inl (Or.inr (hp j i hj hi hgt (hlive j hj) (hlive i hi))))

end Zarrs.Shard
