import ZarrsModel.Lemmas.FsStoreMulti
/- one step of the filesystem store refines one step of the ordered map -/
set_option Elab.async false
namespace Zarrs.Fs
open Zarrs

/-- the conclusion of the refinement for one operation -/
def StepOk (s : FsState) (op : StoreOp) : Prop :=
  FsInv (fsStep s op).1 ∧
  absFs (fsStep s op).1 = (Spec.step (absFs s) op).1 ∧
  acceptable (absFs s) op (Spec.step (absFs s) op).2 (fsStep s op).2 = true ∧
  Grow (opKeys op) s (fsStep s op).1

theorem beq_self_storeRes (r : StoreRes) : (r == r) = true := by simp

theorem step_set (s : FsState) (hi : FsInv s) (k : Key) (v : Bytes) (hok : keyOk s k = true) :
    StepOk s (.set k v) := by
  obtain ⟨path, hk, hfree⟩ := keyOk_spec hok
  obtain ⟨t', h1, h2, h3, h4⟩ := set_abs s hi k v path hk hfree
  have e : fsStep s (.set k v) = (some t', .res .unit) := by simp only [fsStep, hk, h1]
  unfold StepOk
  rw [e]
  exact ⟨h2, h3, rfl, Grow.of_set hk h4⟩

theorem step_erase (s : FsState) (hi : FsInv s) (k : Key) (hok : keyOk s k = true) : StepOk s (.erase k) := by
  obtain ⟨path, hk, hfree⟩ := keyOk_spec hok
  obtain ⟨s', h1, h2, h3, h4⟩ := erase_abs s hi k path hk hfree
  have e : fsStep s (.erase k) = (s', .res .unit) := by simp only [fsStep, hk, h1]
  unfold StepOk
  rw [e]
  exact ⟨h2, h3, rfl, Grow.of_removed path h4⟩

theorem step_erasePrefix (s : FsState) (hi : FsInv s) (p : Key) (hok : opOk s (.erasePrefix p) = true) :
    StepOk s (.erasePrefix p) := by
  simp only [opOk] at hok
  cases hp : prefixPath p with
  | none => rw [hp] at hok; cases hok
  | some path =>
    obtain ⟨s', h1, h2, h3, h4⟩ := erasePrefix_abs s hi p path hp
    have e : fsStep s (.erasePrefix p) = (s', .res .unit) := by simp only [fsStep, hp, h1]
    unfold StepOk
    rw [e]
    exact ⟨h2, h3, rfl, Grow.of_shrunk h4⟩

theorem step_eraseValues (s : FsState) (hi : FsInv s) (ks : List Key) (hok : opOk s (.eraseValues ks) = true) :
    StepOk s (.eraseValues ks) := by
  simp only [opOk, List.all_eq_true] at hok
  obtain ⟨s', h1, h2, h3, h4⟩ := eraseValues_abs s hi ks hok
  have hg : ks.all (fun k => (keyPath k).isSome) = true := by
    rw [List.all_eq_true]
    intro k hk
    obtain ⟨path, hkp, _⟩ := keyOk_spec (hok k hk)
    rw [hkp]; rfl
  have e : fsStep s (.eraseValues ks) = (s', .res .unit) := by simp only [fsStep, hg, if_true, h1]
  unfold StepOk
  rw [e]
  exact ⟨h2, h3, rfl, h4.mono (by simp)⟩

theorem step_setPartial (s : FsState) (hi : FsInv s) (kovs : List (Key × Nat × Bytes))
    (hok : opOk s (.setPartial kovs) = true) : StepOk s (.setPartial kovs) := by
  simp only [opOk, Bool.and_eq_true, List.all_eq_true] at hok
  obtain ⟨hk, hc⟩ := hok
  have hkeys := groupConsecutive_keys kovs
  have hok' : ∀ g ∈ groupConsecutive kovs, keyOk s g.1 = true := by
    intro g hg
    obtain ⟨x, hx, hxe⟩ := List.mem_map.1 (hkeys g hg)
    rw [← hxe]; exact hk x hx
  have hcompat : ∀ a ∈ groupConsecutive kovs, ∀ b ∈ groupConsecutive kovs, dirPrefixOf a.1 b.1 = false := by
    intro a ha b hb
    unfold compatKeys at hc
    rw [List.all_eq_true] at hc
    have := hc a.1 (hkeys a ha)
    rw [List.all_eq_true] at this
    simpa using this b.1 (hkeys b hb)
  obtain ⟨s', h1, h2, h3, h4⟩ := setPartialGroups_abs s hi _ hok' hcompat
  have hg : kovs.all (fun x => (keyPath x.1).isSome) = true := by
    rw [List.all_eq_true]
    intro x hx
    obtain ⟨path, hkp, _⟩ := keyOk_spec (hk x hx)
    rw [hkp]; rfl
  have e : fsStep s (.setPartial kovs) = (s', .res .unit) := by simp only [fsStep, hg, if_true, h1]
  unfold StepOk
  rw [e]
  refine ⟨h2, ?_, rfl, h4.mono (fun k hk' => by
    obtain ⟨g, hg', rfl⟩ := List.mem_map.1 hk'
    exact hkeys g hg')⟩
  rw [h3, ← rmwPartial_fold, rmwPartial_eq_spec]

theorem step_get (s : FsState) (hi : FsInv s) (k : Key) (hok : keyOk s k = true) : StepOk s (.get k) := by
  obtain ⟨path, hk, hfree⟩ := keyOk_spec hok
  have e : fsStep s (.get k) = (s, .res (.bytes ((absFs s).get k))) := by
    simp only [fsStep, hk, getKey_abs s hi k path hk hfree]
  unfold StepOk
  rw [e]
  exact ⟨hi, rfl, by simp [acceptable, Spec.step], Grow.refl _ _⟩

theorem step_sizeKey (s : FsState) (hi : FsInv s) (k : Key) (hok : keyOk s k = true) : StepOk s (.sizeKey k) := by
  obtain ⟨path, hk, hfree⟩ := keyOk_spec hok
  have e : fsStep s (.sizeKey k) = (s, .res (.size (((absFs s).get k).map List.length))) := by
    rcases stat_abs s hi k path hk hfree with ⟨h1, h2⟩ | ⟨b, h1, h2⟩
    · simp only [fsStep, hk, h1, h2]; rfl
    · simp only [fsStep, hk, h1, h2]; rfl
  unfold StepOk
  rw [e]
  exact ⟨hi, rfl, by simp [acceptable, Spec.step], Grow.refl _ _⟩

theorem extract_all_valid (b : Bytes) (rs : List ByteRange) (h : (rs.all (·.valid b.length)) = true) :
    readRanges b rs = some (rs.map (·.extract b)) :=
  readRanges_valid b rs (List.all_eq_true.1 h)

theorem step_getPartial (s : FsState) (hi : FsInv s) (k : Key) (rs : List ByteRange) (hok : keyOk s k = true) :
    StepOk s (.getPartial k rs) := by
  obtain ⟨path, hk, hfree⟩ := keyOk_spec hok
  unfold StepOk
  have e1 : (fsStep s (.getPartial k rs)).1 = s := by simp only [fsStep, hk]
  have e2 : (fsStep s (.getPartial k rs)).2 = getPartial s path rs := by simp only [fsStep, hk]
  rw [e1, e2]
  refine ⟨hi, rfl, ?_, Grow.refl _ _⟩
  rcases stat_abs s hi k path hk hfree with ⟨h1, h2⟩ | ⟨b, h1, h2⟩
  · simp [acceptable, Spec.step, getPartial, h1, h2]
  · simp only [Spec.step, getPartial, h1, h2]
    unfold extractByteRanges
    by_cases hv : (rs.all (·.valid b.length)) = true
    · rw [if_pos hv, if_pos hv, extract_all_valid b rs hv]
      simp [acceptable]
    · rw [if_neg hv, if_neg hv]
      simp [acceptable]

/-- since the repair of the ranged read the outcome is exactly the ordered map's (no truncated alternative) -/
theorem getPartial_exact (s : FsState) (hi : FsInv s) (k : Key) (rs : List ByteRange) (hok : keyOk s k = true) :
    (fsStep s (.getPartial k rs)).2 = .res (Spec.step (absFs s) (.getPartial k rs)).2 := by
  obtain ⟨path, hk, hfree⟩ := keyOk_spec hok
  have e2 : (fsStep s (.getPartial k rs)).2 = getPartial s path rs := by simp only [fsStep, hk]
  rw [e2]
  rcases stat_abs s hi k path hk hfree with ⟨h1, h2⟩ | ⟨b, h1, h2⟩
  · simp [Spec.step, getPartial, h1, h2]
  · simp only [Spec.step, getPartial, h1, h2]
    unfold extractByteRanges
    by_cases hv : (rs.all (·.valid b.length)) = true
    · rw [if_pos hv, if_pos hv, extract_all_valid b rs hv]
    · rw [if_neg hv, if_neg hv]

theorem step_list (s : FsState) (hi : FsInv s) : StepOk s .list := by
  unfold StepOk
  refine ⟨hi, rfl, ?_, Grow.refl _ _⟩
  simp only [fsStep, Spec.step, acceptable, list_abs]
  simp

theorem step_listPrefix (s : FsState) (hi : FsInv s) (p : Key) (hok : opOk s (.listPrefix p) = true) :
    StepOk s (.listPrefix p) := by
  simp only [opOk] at hok
  cases hp : prefixPath p with
  | none => rw [hp] at hok; cases hok
  | some path =>
    obtain ⟨hpk, hpl⟩ := prefixPath_spec hp
    unfold StepOk
    simp only [fsStep, hp]
    refine ⟨hi, rfl, ?_, Grow.refl _ _⟩
    simp only [Spec.step, acceptable]
    rw [hpk, listPrefix_keys_abs s hi path hpl]
    simp

theorem step_sizePrefix (s : FsState) (hi : FsInv s) (p : Key) (hok : opOk s (.sizePrefix p) = true) :
    StepOk s (.sizePrefix p) := by
  simp only [opOk] at hok
  cases hp : prefixPath p with
  | none => rw [hp] at hok; cases hok
  | some path =>
    obtain ⟨hpk, hpl⟩ := prefixPath_spec hp
    unfold StepOk
    simp only [fsStep, hp]
    refine ⟨hi, rfl, ?_, Grow.refl _ _⟩
    simp only [Spec.step, acceptable]
    rw [hpk, sizePrefix_abs s hi path hpl]
    simp

theorem step_listDir (s : FsState) (hi : FsInv s) (p : Key) (hok : opOk s (.listDir p) = true) :
    StepOk s (.listDir p) := by
  simp only [opOk] at hok
  cases hp : prefixPath p with
  | none => rw [hp] at hok; cases hok
  | some path =>
    unfold StepOk
    simp only [fsStep, hp]
    refine ⟨hi, rfl, ?_, Grow.refl _ _⟩
    simp only [Spec.step, acceptable, listDir_abs s hi p path hp]
    simp

theorem fsStep_refines (s : FsState) (hi : FsInv s) (op : StoreOp) (hok : opOk s op = true) : StepOk s op := by
  cases op with
  | set k v => exact step_set s hi k v hok
  | setPartial kovs => exact step_setPartial s hi kovs hok
  | erase k => exact step_erase s hi k hok
  | eraseValues ks => exact step_eraseValues s hi ks hok
  | erasePrefix p => exact step_erasePrefix s hi p hok
  | get k => exact step_get s hi k hok
  | getPartial k rs => exact step_getPartial s hi k rs hok
  | sizeKey k => exact step_sizeKey s hi k hok
  | sizePrefix p => exact step_sizePrefix s hi p hok
  | list => exact step_list s hi
  | listPrefix p => exact step_listPrefix s hi p hok
  | listDir p => exact step_listDir s hi p hok

end Zarrs.Fs
