import ZarrsModel.Model.Shard
/- helper lemmas for C03, part 1: checksum codecs, `bytes`, `shuffle`, chains -/
namespace Zarrs.Codec
open Zarrs

/-! ### checksum codecs -/

theorem le32_length (n : Nat) : (le32 n).length = 4 := rfl

theorem checksumEnc_length (sum : Bytes → Nat) (b : Bytes) : (checksumEnc sum b).length = b.length + 4 := by
  simp [checksumEnc, le32_length]

theorem checksumDec_enc (sum : Bytes → Nat) (validate : Bool) (b : Bytes) :
    checksumDec sum validate (checksumEnc sum b) = .ok b := by
  have hl : (b ++ le32 (sum b)).length = b.length + 4 := by simp [le32_length]
  have ht : (b ++ le32 (sum b)).take (b.length + 4 - 4) = b := by
    rw [Nat.add_sub_cancel]; exact List.take_left
  have hd : (b ++ le32 (sum b)).drop (b.length + 4 - 4) = le32 (sum b) := by
    rw [Nat.add_sub_cancel]; exact List.drop_left
  unfold checksumDec checksumEnc
  rw [hl]
  have : ¬ (b.length + 4 < 4) := by omega
  simp only [this, if_false, ht, hd]
  simp

theorem checksumCodec_lawful (sum : Bytes → Nat) :
    B2B.Lawful { enc := fun b => some (checksumEnc sum b), dec := fun b => (checksumDec sum true b).toOption,
                 size := fun n => (n + 4, true) } := by
  constructor
  · intro b e h
    simp only [Option.some.injEq] at h
    subst h
    show (checksumDec sum true (checksumEnc sum b)).toOption = some b
    rw [checksumDec_enc]; rfl
  · intro b e h
    simp only [Option.some.injEq] at h
    subst h
    simp [checksumEnc_length]

/-! ### `chunksOf` -/

theorem chunksOf_flatten {α} (n : Nat) (hn : 0 < n) : ∀ (fuel : Nat) (l : List α), l.length < fuel →
    (chunksOf n fuel l).flatten = l
  | 0, l, h => by omega
  | fuel + 1, l, h => by
    unfold chunksOf
    by_cases he : l.isEmpty = true
    · simp [List.isEmpty_iff.mp he]
    · simp only [he]
      have hne : l ≠ [] := by simpa [List.isEmpty_iff] using he
      have hpos : 0 < l.length := List.length_pos_iff.mpr hne
      simp only [Bool.false_eq_true, if_false, List.flatten_cons]
      rw [chunksOf_flatten n hn fuel (l.drop n) (by simp; omega)]
      exact List.take_append_drop n l

/-- when `n` divides the length, every group has exactly `n` elements -/
theorem chunksOf_all_length {α} (n : Nat) (hn : 0 < n) : ∀ (fuel : Nat) (l : List α), l.length % n = 0 →
    ∀ g ∈ chunksOf n fuel l, g.length = n
  | 0, l, _ => by simp [chunksOf]
  | fuel + 1, l, h => by
    unfold chunksOf
    by_cases he : l.isEmpty = true
    · simp [he]
    · have hne : l ≠ [] := by simpa [List.isEmpty_iff] using he
      have hpos : 0 < l.length := List.length_pos_iff.mpr hne
      have hle : n ≤ l.length := Nat.le_of_dvd hpos (Nat.dvd_of_mod_eq_zero h)
      simp only [he, Bool.false_eq_true, if_false, List.mem_cons]
      intro g hg
      rcases hg with rfl | hg
      · simp [List.length_take]; omega
      · refine chunksOf_all_length n hn fuel (l.drop n) ?_ g hg
        rw [List.length_drop]
        obtain ⟨k, hk⟩ := Nat.dvd_of_mod_eq_zero h
        rw [hk]
        cases k with
        | zero => simp
        | succ k => rw [Nat.mul_succ, Nat.add_sub_cancel]; exact Nat.mul_mod_right n k

/-- splitting a concatenation of `n`-element groups gives the groups back -/
theorem chunksOf_of_flatten {α} (n : Nat) (hn : 0 < n) : ∀ (gs : List (List α)) (fuel : Nat),
    (∀ g ∈ gs, g.length = n) → gs.flatten.length < fuel → chunksOf n fuel gs.flatten = gs
  | [], fuel, _, h => by
    cases fuel with
    | zero => simp at h
    | succ f => simp [chunksOf]
  | g :: gs, fuel, hall, h => by
    have hg : g.length = n := hall g (by simp)
    cases fuel with
    | zero => simp at h
    | succ f =>
      subst hg
      have hne : (g ++ gs.flatten).isEmpty = false := by
        cases g with
        | nil => simp at hn
        | cons a t => simp
      unfold chunksOf
      simp only [List.flatten_cons, hne, Bool.false_eq_true, if_false, List.take_left, List.drop_left]
      rw [chunksOf_of_flatten g.length hn gs f (fun g' hg' => hall g' (by simp [hg'])) (by
        simp only [List.flatten_cons, List.length_append] at h; omega)]

theorem flatten_length_of_all {α} (n : Nat) : ∀ (gs : List (List α)), (∀ g ∈ gs, g.length = n) →
    gs.flatten.length = gs.length * n
  | [], _ => by simp
  | g :: gs, h => by
    simp only [List.flatten_cons, List.length_append, List.length_cons]
    rw [flatten_length_of_all n gs (fun g' hg' => h g' (by simp [hg'])), h g (by simp), Nat.succ_mul]
    omega

/-! ### `bytes` -/

theorem bytes_dec_enc' (big : Bool) (es : Nat) (b : Bytes) (h : es = 0 ∨ b.length % es = 0) :
    bytesDec big es (bytesEnc big es b) = b ∧ (bytesEnc big es b).length = b.length := by
  unfold bytesDec bytesEnc
  by_cases hc : (big && decide (es > 1)) = true
  · simp only [hc, if_true]
    have hes : 1 < es := by simp at hc; exact hc.2
    have hpos : 0 < es := by omega
    have hmod : b.length % es = 0 := by rcases h with h | h; omega; exact h
    have hall : ∀ g ∈ groups es b, g.length = es := chunksOf_all_length es hpos _ b hmod
    have hfl : (groups es b).flatten = b := chunksOf_flatten es hpos _ b (by omega)
    have hrev : ∀ g ∈ (groups es b).map List.reverse, g.length = es := by
      intro g hg
      obtain ⟨g', hg', rfl⟩ := List.mem_map.mp hg
      simp [hall g' hg']
    have henc : (groups es b).flatMap List.reverse = ((groups es b).map List.reverse).flatten := by
      rw [List.flatMap_def]
    have hlen : ((groups es b).flatMap List.reverse).length = b.length := by
      rw [henc, flatten_length_of_all es _ hrev, List.length_map,
        ← flatten_length_of_all es _ hall, hfl]
    refine ⟨?_, hlen⟩
    have hg2 : groups es ((groups es b).flatMap List.reverse) = (groups es b).map List.reverse := by
      show chunksOf es (((groups es b).flatMap List.reverse).length + 1) ((groups es b).flatMap List.reverse) = _
      rw [hlen, henc]
      exact chunksOf_of_flatten es hpos _ _ hrev (by rw [← henc, hlen]; omega)
    rw [hg2, List.flatMap_def, List.map_map]
    have : (List.reverse ∘ List.reverse : List Nat → List Nat) = id := by
      funext x; simp
    rw [this, List.map_id, hfl]
  · simp [hc]

/-! ### `shuffle` -/

theorem flatMap_range_length {α} (m n : Nat) (f : Nat → Nat → α) :
    ((List.range m).flatMap (fun i => (List.range n).map (f i))).length = m * n := by
  induction m with
  | zero => simp
  | succ m ih =>
    rw [List.range_succ, List.flatMap_append, List.length_append, ih]
    simp [Nat.succ_mul]

theorem flatMap_range_getElem? {α} (m n : Nat) (f : Nat → Nat → α) (i j : Nat) (hi : i < m) (hj : j < n) :
    ((List.range m).flatMap (fun i => (List.range n).map (f i)))[i * n + j]? = some (f i j) := by
  induction m with
  | zero => omega
  | succ m ih =>
    rw [List.range_succ, List.flatMap_append]
    by_cases him : i < m
    · rw [List.getElem?_append_left]
      · exact ih him
      · rw [flatMap_range_length]
        calc i * n + j < i * n + n := by omega
          _ = (i + 1) * n := by rw [Nat.succ_mul]
          _ ≤ m * n := Nat.mul_le_mul_right n him
    · have : i = m := by omega
      subst this
      rw [List.getElem?_append_right (by rw [flatMap_range_length]; omega), flatMap_range_length]
      simp [hj]

theorem shuffle_dec_enc' (es : Nat) (b e : Bytes) (h : shuffleEnc es b = some e) :
    shuffleDec es e = some b ∧ e.length = b.length := by
  unfold shuffleEnc at h
  by_cases hc : (es = 0 || b.length % es != 0) = true
  · simp [hc] at h
  · simp only [hc, Bool.false_eq_true, if_false, Option.some.injEq] at h
    have hes : es ≠ 0 := by simp at hc; exact hc.1
    have hmod : b.length % es = 0 := by simp at hc; exact hc.2
    have hpos : 0 < es := Nat.pos_of_ne_zero hes
    have hbl : b.length = b.length / es * es := by
      have := Nat.div_add_mod b.length es
      rw [hmod, Nat.add_zero, Nat.mul_comm] at this; exact this.symm
    have hel : e.length = b.length := by
      rw [← h, flatMap_range_length, Nat.mul_comm]; exact hbl.symm
    refine ⟨?_, hel⟩
    unfold shuffleDec
    rw [hel]
    simp only [hc, Bool.false_eq_true, if_false, Option.some.injEq]
    apply List.ext_getElem?
    intro q
    by_cases hq : q < b.length
    · have hqd : q / es < b.length / es := by
        apply Nat.div_lt_of_lt_mul; rw [Nat.mul_comm, ← hbl]; exact hq
      have hqm : q % es < es := Nat.mod_lt _ hpos
      have hq' : q = q / es * es + q % es := by
        have := Nat.div_add_mod q es; rw [Nat.mul_comm] at this; exact this.symm
      rw [List.getElem?_eq_getElem hq]
      conv => lhs; rw [hq']
      rw [flatMap_range_getElem? _ _ _ _ _ hqd hqm]
      congr 1
      rw [List.getD_eq_getElem?_getD, ← h, flatMap_range_getElem? _ _ _ _ _ hqm hqd]
      simp only [Option.getD_some]
      rw [← hq', List.getD_eq_getElem?_getD, List.getElem?_eq_getElem hq]
      rfl
    · rw [List.getElem?_eq_none (by rw [flatMap_range_length, ← hbl]; omega),
        List.getElem?_eq_none (by omega)]

theorem shuffleCodec_lawful (es : Nat) : (shuffleCodec es).Lawful := by
  constructor
  · intro b e h
    exact (shuffle_dec_enc' es b e h).1
  · intro b e h
    have := (shuffle_dec_enc' es b e h).2
    exact ⟨Nat.le_of_eq this, fun _ => this⟩

/-! ### chains -/

theorem chainEnc_cons (c : B2B) (cs : List B2B) (b : Bytes) :
    chainEnc (c :: cs) b = (c.enc b).bind (chainEnc cs) := by
  unfold chainEnc
  simp only [List.foldl_cons, Option.bind_some]
  cases c.enc b with
  | some e => rfl
  | none =>
    simp only [Option.bind_none]
    induction cs with
    | nil => rfl
    | cons d ds ih => simpa using ih

def decStep (acc : Bytes → Option Bytes) (c : B2B) : Bytes → Option Bytes := fun x => (c.dec x).bind acc

theorem decFold_eq (cs : List B2B) (k : Bytes → Option Bytes) (e : Bytes) :
    cs.foldl decStep k e = (cs.foldl decStep some e).bind k := by
  induction cs generalizing k with
  | nil => simp
  | cons c cs ih =>
    simp only [List.foldl_cons]
    rw [ih (decStep k c), ih (decStep some c)]
    cases cs.foldl decStep some e with
    | none => rfl
    | some m =>
      simp only [Option.bind_some, decStep]
      cases c.dec m with
      | none => rfl
      | some y => rfl

/-- the chain decoder applies the LAST codec's decoder first -/
theorem chainDec_cons (c : B2B) (cs : List B2B) (e : Bytes) :
    chainDec (c :: cs) e = (chainDec cs e).bind c.dec := by
  show (c :: cs).foldl decStep some e = (cs.foldl decStep some e).bind c.dec
  rw [List.foldl_cons, decFold_eq]
  cases cs.foldl decStep some e with
  | none => rfl
  | some m =>
    simp only [Option.bind_some, decStep]
    cases c.dec m with
    | none => rfl
    | some y => rfl

theorem chain_dec_enc' (cs : List B2B) (hl : ∀ c ∈ cs, c.Lawful) (b e : Bytes) (h : chainEnc cs b = some e) :
    chainDec cs e = some b := by
  induction cs generalizing b with
  | nil => simp [chainEnc] at h; simp [chainDec, h]
  | cons c cs ih =>
    rw [chainEnc_cons] at h
    cases hm : c.enc b with
    | none => rw [hm] at h; simp at h
    | some m =>
      rw [hm, Option.bind_some] at h
      rw [chainDec_cons, ih (fun d hd => hl d (List.mem_cons_of_mem _ hd)) m h, Option.bind_some]
      exact (hl c (by simp)).dec_enc b m hm

def sizeStep (acc : Nat × Bool) (c : B2B) : Nat × Bool := let (m, ex) := c.size acc.1; (m, acc.2 && ex)

theorem chain_size_aux (cs : List B2B) (hl : ∀ c ∈ cs, c.Lawful)
    (hmono : ∀ c ∈ cs, ∀ m n, m ≤ n → (c.size m).1 ≤ (c.size n).1)
    (acc : Nat × Bool) (b e : Bytes) (h : chainEnc cs b = some e)
    (h1 : b.length ≤ acc.1) (h2 : acc.2 = true → b.length = acc.1) :
    e.length ≤ (cs.foldl sizeStep acc).1 ∧ ((cs.foldl sizeStep acc).2 = true → e.length = (cs.foldl sizeStep acc).1) := by
  induction cs generalizing b acc with
  | nil =>
    simp [chainEnc] at h; subst h; exact ⟨h1, h2⟩
  | cons c cs ih =>
    rw [chainEnc_cons] at h
    cases hm : c.enc b with
    | none => rw [hm] at h; simp at h
    | some m =>
      rw [hm, Option.bind_some] at h
      rw [List.foldl_cons]
      have hs := (hl c (by simp)).size_ok b m hm
      apply ih (fun d hd => hl d (List.mem_cons_of_mem _ hd))
        (fun d hd => hmono d (List.mem_cons_of_mem _ hd)) _ m h
      · show m.length ≤ (c.size acc.1).1
        exact Nat.le_trans hs.1 (hmono c (by simp) _ _ h1)
      · show (acc.2 && (c.size acc.1).2) = true → m.length = (c.size acc.1).1
        intro hx
        rw [Bool.and_eq_true] at hx
        rw [← h2 hx.1] at hx ⊢
        exact hs.2 hx.2

theorem chain_size' (cs : List B2B) (hl : ∀ c ∈ cs, c.Lawful)
    (hmono : ∀ c ∈ cs, ∀ m n, m ≤ n → (c.size m).1 ≤ (c.size n).1)
    (b e : Bytes) (h : chainEnc cs b = some e) :
    e.length ≤ (chainSize cs b.length).1 ∧ ((chainSize cs b.length).2 = true → e.length = (chainSize cs b.length).1) :=
  chain_size_aux cs hl hmono (b.length, true) b e h (Nat.le_refl _) (fun _ => rfl)

end Zarrs.Codec
