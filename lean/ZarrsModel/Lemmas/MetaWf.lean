import ZarrsModel.Lemmas.Meta
import ZarrsModel.Lemmas.NumTok
/- helper lemmas for C13: well-formedness of metadata documents -/
set_option linter.unusedSimpArgs false
namespace Zarrs.Meta
open Zarrs.Json

/-! ### well-formedness (`J.wf`) of what is printed and of what is parsed -/

theorem wfKVs_iff (o : Obj) : wfKVs o ↔ ∀ kv ∈ o, strOk kv.1 ∧ kv.2.wf := by
  induction o with
  | nil => simp [wfKVs]
  | cons kv r ih =>
    obtain ⟨k, v⟩ := kv
    simp only [wfKVs, ih, List.mem_cons, forall_eq_or_imp, and_assoc]

theorem wfList_iff (xs : List J) : wfList xs ↔ ∀ x ∈ xs, x.wf := by
  induction xs with
  | nil => simp [wfList]
  | cons x r ih => simp only [wfList, ih, List.mem_cons, forall_eq_or_imp]

theorem keysDistinct_filter (o : Obj) (p : Str × J → Bool) (h : keysDistinct o) : keysDistinct (o.filter p) := by
  unfold keysDistinct at h ⊢
  exact h.sublist (List.filter_sublist.map _)

theorem wfKVs_filter (o : Obj) (p : Str × J → Bool) (h : wfKVs o) : wfKVs (o.filter p) := by
  rw [wfKVs_iff] at h ⊢
  intro kv hkv
  exact h kv (List.mem_filter.1 hkv).1

theorem wf_of_lookup (o : Obj) (h : wfKVs o) (k : Str) (v : J) (hl : lookup o k = some v) : v.wf :=
  ((wfKVs_iff o).1 h _ (lookup_mem o k v hl)).2

theorem obj_wf_iff (o : Obj) : (J.obj o).wf ↔ wfKVs o ∧ keysDistinct o := by simp only [J.wf]
theorem arr_wf_iff (xs : List J) : (J.arr xs).wf ↔ ∀ x ∈ xs, x.wf := by simp only [J.wf, wfList_iff]
theorem str_wf_iff (s : Str) : (J.str s).wf ↔ strOk s := by simp only [J.wf]
theorem num_wf_iff (t : List Char) : (J.num t).wf ↔ tokOk t := by simp only [J.wf]

def MetaV3.good (m : MetaV3) : Prop := strOk m.name ∧ ∀ c, m.config = some c → wfKVs c ∧ keysDistinct c

def AField.good (a : AField) : Prop := a.field.wf ∧ AField.shapeOk a

theorem strOk_kName : strOk kName := ⟨by decide, by decide⟩
theorem strOk_kConfiguration : strOk kConfiguration := ⟨by decide, by decide⟩
theorem strOk_kMustUnderstand : strOk kMustUnderstand := ⟨by decide, by decide⟩

theorem metaV3_toJ_wf (m : MetaV3) (h : MetaV3.good m) : m.toJ.wf := by
  obtain ⟨n, c, mu⟩ := m
  obtain ⟨h1, h2⟩ := h
  simp only at h1 h2
  cases c with
  | none =>
    cases mu
    · simp only [MetaV3.toJ, Option.isNone_none, Bool.and_false, Bool.false_eq_true, if_false, List.append_nil,
        List.cons_append, List.nil_append, obj_wf_iff, wfKVs, keysDistinct, J.wf, and_true, true_and]
      exact ⟨⟨h1, strOk_kMustUnderstand⟩, by decide⟩
    · simp only [MetaV3.toJ, Option.isNone_none, Bool.and_true, if_true, str_wf_iff]; exact h1
  | some c =>
    have hc := h2 c rfl
    cases mu
    · simp only [MetaV3.toJ, Option.isNone_some, Bool.false_and, Bool.false_eq_true, if_false, List.append_nil,
        List.cons_append, List.nil_append, obj_wf_iff, wfKVs, keysDistinct, J.wf, and_true, true_and]
      exact ⟨⟨h1, strOk_kConfiguration, hc, strOk_kMustUnderstand⟩, by decide⟩
    · simp only [MetaV3.toJ, Option.isNone_some, Bool.false_and, Bool.false_eq_true, if_false, List.append_nil,
        List.cons_append, List.nil_append, obj_wf_iff, wfKVs, keysDistinct, J.wf, and_true, true_and]
      exact ⟨⟨h1, strOk_kConfiguration, hc⟩, by decide⟩

theorem metaV3_ofJ_good (j : J) (hj : j.wf) (m : MetaV3) (h : MetaV3.ofJ j = some m) : MetaV3.good m := by
  unfold MetaV3.ofJ at h
  split at h
  · cases h; exact ⟨by simpa only [J.wf] using hj, fun c hc => by cases hc⟩
  · rename_i o
    rw [obj_wf_iff] at hj
    split at h
    · cases h
    · split at h
      next n hn =>
        have hnw := wf_of_lookup o hj.1 _ _ hn
        rw [str_wf_iff] at hnw
        split at h
        next c mu hc hmu =>
          cases h
          refine ⟨hnw, ?_⟩
          intro c' hc'
          simp only at hc'
          subst hc'
          split at hc
          · cases hc
          · cases hc
          · rename_i c'' hl
            cases hc
            have := wf_of_lookup o hj.1 _ _ hl
            rwa [obj_wf_iff] at this
          · cases hc
        · cases h
      · cases h
  all_goals first
    | cases h
    | (cases h
       simp only [arr_wf_iff, List.mem_cons, List.not_mem_nil, or_false, forall_eq_or_imp, forall_eq, str_wf_iff,
         obj_wf_iff] at hj
       refine ⟨hj.1, ?_⟩
       intro c' hc'
       first
         | cases hc'
         | (cases hc'; first | exact hj.2.1 | exact hj.2))

end Zarrs.Meta
