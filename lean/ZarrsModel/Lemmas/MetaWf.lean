import ZarrsModel.Lemmas.Meta
import ZarrsModel.Lemmas.NumTok
/- helper lemmas for C13: well-formedness of metadata documents -/
set_option linter.unusedSimpArgs false
namespace Zarrs.Meta
open Zarrs.Json

/-! ### well-formedness (`J.wf`) of what is printed and of what is parsed -/

theorem wfKVs_iff (o : Obj) : wfKVs o ↔ ∀ kv ∈ o, strOk kv.1 ∧ kv.2.wf := by
  induction o with
  | nil => simp [wfKVs]
  | cons kv r ih =>
    obtain ⟨k, v⟩ := kv
    simp only [wfKVs, ih, List.mem_cons, forall_eq_or_imp, and_assoc]

theorem wfList_iff (xs : List J) : wfList xs ↔ ∀ x ∈ xs, x.wf := by
  induction xs with
  | nil => simp [wfList]
  | cons x r ih => simp only [wfList, ih, List.mem_cons, forall_eq_or_imp]

theorem keysDistinct_filter (o : Obj) (p : Str × J → Bool) (h : keysDistinct o) : keysDistinct (o.filter p) := by
  unfold keysDistinct at h ⊢
  exact h.sublist (List.filter_sublist.map _)

theorem wfKVs_filter (o : Obj) (p : Str × J → Bool) (h : wfKVs o) : wfKVs (o.filter p) := by
  rw [wfKVs_iff] at h ⊢
  intro kv hkv
  exact h kv (List.mem_filter.1 hkv).1

theorem wf_of_lookup (o : Obj) (h : wfKVs o) (k : Str) (v : J) (hl : lookup o k = some v) : v.wf :=
  ((wfKVs_iff o).1 h _ (lookup_mem o k v hl)).2

theorem obj_wf_iff (o : Obj) : (J.obj o).wf ↔ wfKVs o ∧ keysDistinct o := by simp only [J.wf]
theorem arr_wf_iff (xs : List J) : (J.arr xs).wf ↔ ∀ x ∈ xs, x.wf := by simp only [J.wf, wfList_iff]
theorem str_wf_iff (s : Str) : (J.str s).wf ↔ strOk s := by simp only [J.wf]
theorem num_wf_iff (t : List Char) : (J.num t).wf ↔ tokOk t := by simp only [J.wf]

def MetaV3.good (m : MetaV3) : Prop := strOk m.name ∧ ∀ c, m.config = some c → wfKVs c ∧ keysDistinct c

def AField.good (a : AField) : Prop := a.field.wf ∧ AField.shapeOk a

theorem validUtf8_ascii (s : Str) (h : ∀ b ∈ s, b < 128) : validUtf8 s = true := by
  induction s with
  | nil => rfl
  | cons b r ih =>
    have hb : b < 128 := h b (List.mem_cons_self ..)
    unfold validUtf8
    simp only [show b < 128 from hb, if_true]
    exact ih (fun x hx => h x (List.mem_cons_of_mem _ hx))

/-- ASCII strings are fine (NB: `decide` on `validUtf8` of a literal blows up beyond a few bytes) -/
theorem strOk_ascii (s : Str) (h : ∀ b ∈ s, b < 128) : strOk s :=
  ⟨fun b hb => Nat.lt_trans (h b hb) (by decide), validUtf8_ascii s h⟩

theorem strOk_kName : strOk kName := strOk_ascii _ (by decide)
theorem strOk_kConfiguration : strOk kConfiguration := strOk_ascii _ (by decide)
theorem strOk_kMustUnderstand : strOk kMustUnderstand := strOk_ascii _ (by decide)

theorem metaV3_toJ_wf (m : MetaV3) (h : MetaV3.good m) : m.toJ.wf := by
  obtain ⟨n, c, mu⟩ := m
  obtain ⟨h1, h2⟩ := h
  simp only at h1 h2
  have hn : (J.str n).wf := (str_wf_iff n).2 h1
  cases c with
  | none =>
    cases mu
    · have e : MetaV3.toJ ⟨n, none, false⟩ = .obj [(kName, .str n), (kMustUnderstand, .bool false)] := rfl
      rw [e, obj_wf_iff]
      refine ⟨?_, by unfold keysDistinct; simp only [List.map_cons, List.map_nil]; decide⟩
      simp only [wfKVs, J.wf, and_true]
      exact ⟨strOk_kName, h1, strOk_kMustUnderstand⟩
    · exact hn
  | some c =>
    have hc := h2 c rfl
    cases mu
    · have e : MetaV3.toJ ⟨n, some c, false⟩ =
          .obj [(kName, .str n), (kConfiguration, .obj c), (kMustUnderstand, .bool false)] := rfl
      rw [e, obj_wf_iff]
      refine ⟨?_, by unfold keysDistinct; simp only [List.map_cons, List.map_nil]; decide⟩
      simp only [wfKVs, J.wf, and_true]
      exact ⟨strOk_kName, h1, strOk_kConfiguration, hc, strOk_kMustUnderstand⟩
    · have e : MetaV3.toJ ⟨n, some c, true⟩ = .obj [(kName, .str n), (kConfiguration, .obj c)] := rfl
      rw [e, obj_wf_iff]
      refine ⟨?_, by unfold keysDistinct; simp only [List.map_cons, List.map_nil]; decide⟩
      simp only [wfKVs, J.wf, and_true]
      exact ⟨strOk_kName, h1, strOk_kConfiguration, hc⟩

theorem metaV3_ofJ_good (j : J) (hj : j.wf) (m : MetaV3) (h : MetaV3.ofJ j = some m) : MetaV3.good m := by
  unfold MetaV3.ofJ at h
  split at h
  · cases h; exact ⟨by simpa only [J.wf] using hj, fun c hc => by cases hc⟩
  · rename_i o
    rw [obj_wf_iff] at hj
    split at h
    · cases h
    · split at h
      next n hn =>
        have hnw := wf_of_lookup o hj.1 _ _ hn
        rw [str_wf_iff] at hnw
        have hcw := wf_of_lookup o hj.1 kConfiguration
        rcases hc : lookup o kConfiguration with _ | (_ | _ | _ | _ | _ | c) <;>
        rcases hm : lookup o kMustUnderstand with _ | (_ | b | _ | _ | _ | _) <;>
        simp only [hc, hm, Option.some.injEq, reduceCtorEq] at h <;>
        subst h <;> refine ⟨hnw, ?_⟩ <;> intro c' hc' <;> cases hc' <;>
        (have := hcw _ hc; rwa [obj_wf_iff] at this)
      · cases h
  all_goals
    cases h
    try
      simp only [arr_wf_iff, List.mem_cons, List.not_mem_nil, or_false, forall_eq_or_imp, forall_eq, str_wf_iff,
        obj_wf_iff] at hj
      refine ⟨by first | exact hj | exact hj.1, ?_⟩
      intro c' hc'
      first
        | (cases hc'; done)
        | (cases hc'; first | exact hj.2.1 | exact hj.2)

theorem afield_toJ_wf (a : AField) (h : AField.good a) : a.toJ.wf := by
  obtain ⟨f, mu⟩ := a
  obtain ⟨h1, h2⟩ := h
  match f, h1, h2 with
  | .obj o, h1, h2 =>
    simp only [AField.shapeOk] at h2
    simp only [obj_wf_iff] at h1
    simp only [AField.toJ, obj_wf_iff, wfKVs, J.wf, true_and]
    refine ⟨⟨strOk_kMustUnderstand, h1.1⟩, ?_⟩
    unfold keysDistinct
    rw [List.map_cons, List.nodup_cons]
    exact ⟨(lookup_eq_none_iff o _).1 h2, h1.2⟩
  | .null, h1, _ | .bool _, h1, _ | .num _, h1, _ | .str _, h1, _ | .arr _, h1, _ => exact h1

theorem afield_ofJ_good (j : J) (h : j.wf) : AField.good (AField.ofJ j) := by
  match j, h with
  | .obj o, h =>
    rw [obj_wf_iff] at h
    simp only [AField.ofJ, AField.good, AField.shapeOk, obj_wf_iff]
    exact ⟨⟨wfKVs_filter _ _ h.1, keysDistinct_filter _ _ h.2⟩, lookup_without_self o _⟩
  | .null, h | .bool _, h | .num _, h | .str _, h | .arr _, h =>
    exact ⟨h, rfl⟩

/-- members of the additional fields of a parsed document -/
theorem mem_extrasOf (known : List Str) (o : Obj) (x : Str × AField) (h : x ∈ extrasOf known o) :
    ∃ v, (x.1, v) ∈ o ∧ x.1 ∉ known ∧ x.2 = AField.ofJ v := by
  unfold extrasOf at h
  rcases mem_foldl_insertExtra_sub AField.ofJ _ _ x h with h | ⟨kv, hkv, rfl⟩
  · cases h
  · rw [List.mem_filter] at hkv
    exact ⟨kv.2, hkv.1, by simpa using hkv.2, rfl⟩

theorem extrasOf_mem (known : List Str) (o : Obj) (hd : keysDistinct o) (k : Str) (v : J) (h : (k, v) ∈ o)
    (hk : k ∉ known) : (k, AField.ofJ v) ∈ extrasOf known o := by
  unfold extrasOf
  have hd' := keysDistinct_filter o (fun kv => !known.contains kv.1) hd
  exact mem_foldl_insertExtra AField.ofJ _ [] hd' (k, v) (List.mem_filter.2 ⟨h, by simpa using hk⟩)

theorem extrasOf_sorted (known : List Str) (o : Obj) : sortedKeys (extrasOf known o) := by
  unfold extrasOf
  exact foldl_insertExtra_sortedKeys _ _ _ (by simp [sortedKeys])

theorem extrasOf_good (known : List Str) (o : Obj) (h : wfKVs o) :
    ∀ kv ∈ extrasOf known o, strOk kv.1 ∧ AField.good kv.2 ∧ kv.1 ∉ known := by
  intro kv hkv
  obtain ⟨v, hv, hk, e⟩ := mem_extrasOf known o kv hkv
  have := (wfKVs_iff o).1 h _ hv
  exact ⟨this.1, e ▸ afield_ofJ_good v this.2, hk⟩

structure ArrayDoc.good (d : ArrayDoc) : Prop where
  shape : ∀ t ∈ d.shape, isU64Tok t = true ∧ tokOk t
  dt : MetaV3.good d.dataType
  cg : MetaV3.good d.chunkGrid
  ck : MetaV3.good d.cke
  fill : d.fill.wf
  codecs : ∀ c ∈ d.codecs, MetaV3.good c
  attrs : wfKVs d.attrs ∧ keysDistinct d.attrs
  st : ∀ c ∈ d.st, MetaV3.good c
  dn : ∀ ns, d.dimNames = some ns → ∀ n ∈ ns, ∀ s, n = some s → strOk s
  extra : ∀ kv ∈ d.extra, strOk kv.1 ∧ AField.good kv.2 ∧ kv.1 ∉ arrayKeys
  sorted : sortedKeys d.extra

structure GroupDoc.good (d : GroupDoc) : Prop where
  attrs : wfKVs d.attrs ∧ keysDistinct d.attrs
  extra : ∀ kv ∈ d.extra, strOk kv.1 ∧ AField.good kv.2 ∧ kv.1 ∉ groupKeys
  sorted : sortedKeys d.extra

theorem arrayDoc_roundtrip_good (d : ArrayDoc) (h : d.good) : ArrayDoc.ofJ d.toJ = some d :=
  arrayDoc_ofJ_toJ d (fun t ht => (h.shape t ht).1) (fun kv hkv => (h.extra kv hkv).2.2) h.sorted
    (fun kv hkv => (h.extra kv hkv).2.1.2)

theorem groupDoc_roundtrip_good (d : GroupDoc) (h : d.good) : GroupDoc.ofJ d.toJ = some d :=
  groupDoc_ofJ_toJ d (fun kv hkv => (h.extra kv hkv).2.2) h.sorted (fun kv hkv => (h.extra kv hkv).2.1.2)

theorem metaList_good (j : J) (hj : j.wf) (l : List MetaV3) (h : metaList j = some l) : ∀ c ∈ l, MetaV3.good c := by
  unfold metaList at h
  split at h
  · rename_i xs
    rw [arr_wf_iff] at hj
    intro c hc
    obtain ⟨x, hx, e⟩ := mapM_some_mem _ _ _ h c hc
    exact metaV3_ofJ_good x (hj x hx) c e
  · cases h

theorem dimNamesOfJ_good (j : J) (hj : j.wf) (dn : Option (List (Option Str))) (h : dimNamesOfJ j = some dn) :
    ∀ ns, dn = some ns → ∀ n ∈ ns, ∀ s, n = some s → strOk s := by
  unfold dimNamesOfJ at h
  split at h
  · cases h; intro ns e; cases e
  · rename_i xs
    rw [arr_wf_iff] at hj
    intro ns e n hn s hs
    subst e
    simp only [Option.map_eq_some_iff] at h
    obtain ⟨ns', h, e⟩ := h
    cases e
    obtain ⟨x, hx, e⟩ := mapM_some_mem _ _ _ h n hn
    subst hs
    split at e
    · cases e
    · cases e
      have := hj _ hx
      rwa [str_wf_iff] at this
    · cases e
  · cases h

theorem arrayDoc_ofJ_good (j : J) (hj : j.wf) (d : ArrayDoc) (h : ArrayDoc.ofJ j = some d) : d.good := by
  match j, hj, h with
  | .obj o, hj, h =>
    rw [obj_wf_iff] at hj
    have hw := wf_of_lookup o hj.1
    obtain ⟨hzf, hnt, hsh, hshTok, ⟨dt, hdt, hdt'⟩, ⟨cg, hcg, hcg'⟩, ⟨ck, hck, hck'⟩, hfill, ⟨cs, hcs, hcs'⟩, hattrs, hst, hdn, hextra⟩ :=
      arrayDoc_ofJ_inv o d h
    refine ⟨?_, metaV3_ofJ_good _ (hw _ _ hdt) _ hdt', metaV3_ofJ_good _ (hw _ _ hcg) _ hcg',
      metaV3_ofJ_good _ (hw _ _ hck) _ hck', hw _ _ hfill, metaList_good _ (hw _ _ hcs) _ hcs', ?_, ?_, ?_,
      hextra ▸ extrasOf_good _ _ hj.1, hextra ▸ extrasOf_sorted _ _⟩
    · intro t ht
      refine ⟨hshTok t ht, ?_⟩
      have := hw _ _ hsh
      rw [arr_wf_iff] at this
      have := this (.num t) (List.mem_map_of_mem ht)
      rwa [num_wf_iff] at this
    · rcases hattrs with ⟨_, e⟩ | ha
      · rw [e]; exact ⟨by simp [wfKVs], by simp [keysDistinct]⟩
      · have := hw _ _ ha
        rwa [obj_wf_iff] at this
    · rcases hst with ⟨_, e⟩ | ⟨js, hs, hs'⟩
      · rw [e]; intro c hc; cases hc
      · exact metaList_good _ (hw _ _ hs) _ hs'
    · rcases hdn with ⟨_, e⟩ | ⟨jn, hn, hn'⟩
      · rw [e]; intro ns e; cases e
      · exact dimNamesOfJ_good _ (hw _ _ hn) _ hn'
  | .null, _, h | .bool _, _, h | .num _, _, h | .str _, _, h | .arr _, _, h => simp [ArrayDoc.ofJ] at h

theorem groupDoc_ofJ_good (j : J) (hj : j.wf) (d : GroupDoc) (h : GroupDoc.ofJ j = some d) : d.good := by
  match j, hj, h with
  | .obj o, hj, h =>
    rw [obj_wf_iff] at hj
    have hw := wf_of_lookup o hj.1
    obtain ⟨hzf, hnt, hcm, hattrs, hextra⟩ := groupDoc_ofJ_inv o d h
    refine ⟨?_, hextra ▸ extrasOf_good _ _ hj.1, hextra ▸ extrasOf_sorted _ _⟩
    rcases hattrs with ⟨_, e⟩ | ha
    · rw [e]; exact ⟨by simp [wfKVs], by simp [keysDistinct]⟩
    · have := hw _ _ ha
      rwa [obj_wf_iff] at this
  | .null, _, h | .bool _, _, h | .num _, _, h | .str _, _, h | .arr _, _, h => simp [GroupDoc.ofJ] at h

/-! ### the printed documents are well-formed JSON -/

theorem tokOk_three : tokOk ['3'] := by
  have := NumTok.tokOk_natTok 3
  have e : FillMeta.natTok 3 = ['3'] := by decide
  rwa [e] at this

theorem arrayKeys_strOk : ∀ k ∈ arrayKeys, strOk k := by
  have : ∀ k ∈ arrayKeys, ∀ b ∈ k, b < 128 := by decide
  exact fun k hk => strOk_ascii k (this k hk)

theorem groupKeys_strOk : ∀ k ∈ groupKeys, strOk k := by
  have : ∀ k ∈ groupKeys, ∀ b ∈ k, b < 128 := by decide
  exact fun k hk => strOk_ascii k (this k hk)

theorem extraKVs_wf (e : List (Str × AField)) (h : ∀ kv ∈ e, strOk kv.1 ∧ AField.good kv.2) : wfKVs (extraKVs e) := by
  rw [wfKVs_iff]
  intro kv hkv
  unfold extraKVs at hkv
  obtain ⟨x, hx, rfl⟩ := List.mem_map.1 hkv
  exact ⟨(h x hx).1, afield_toJ_wf _ (h x hx).2⟩

theorem extraKVs_keys (e : List (Str × AField)) : (extraKVs e).map (·.1) = e.map (·.1) := by
  unfold extraKVs; rw [List.map_map]; rfl

theorem keysDistinct_known_extra (known : List Str) (hn : known.Nodup) (a : Obj) (ha : (a.map (·.1)).Sublist known)
    (e : List (Str × AField)) (hs : sortedKeys e) (he : ∀ kv ∈ e, kv.1 ∉ known) : keysDistinct (a ++ extraKVs e) := by
  unfold keysDistinct
  rw [List.map_append, extraKVs_keys, List.nodup_append]
  refine ⟨hn.sublist ha, sortedKeys_nodup e hs, ?_⟩
  intro x hx y hy e'
  subst e'
  obtain ⟨kv, hkv, rfl⟩ := List.mem_map.1 hy
  exact he kv hkv (ha.subset hx)

theorem metaList_toJ_wf (l : List MetaV3) (h : ∀ c ∈ l, MetaV3.good c) : (J.arr (l.map MetaV3.toJ)).wf := by
  rw [arr_wf_iff]
  intro x hx
  obtain ⟨c, hc, rfl⟩ := List.mem_map.1 hx
  exact metaV3_toJ_wf c (h c hc)

theorem dimNamesToJ_wf (ns : List (Option Str)) (h : ∀ n ∈ ns, ∀ s, n = some s → strOk s) : (dimNamesToJ ns).wf := by
  unfold dimNamesToJ
  rw [arr_wf_iff]
  intro x hx
  obtain ⟨n, hn, rfl⟩ := List.mem_map.1 hx
  cases n with
  | none => simp only [J.wf]
  | some s => simp only [J.wf]; exact h _ hn s rfl

theorem arrayDoc_known_wf (d : ArrayDoc) (h : d.good) : ∀ kv ∈ d.knownKVs, kv.2.wf := by
  intro kv hkv
  simp only [ArrayDoc.knownKVs, List.mem_append, List.mem_cons, List.not_mem_nil, or_false] at hkv
  rcases hkv with ((hkv | hkv) | hkv) | hkv
  · rcases hkv with rfl | rfl | rfl | rfl | rfl | rfl | rfl | rfl
    · exact (num_wf_iff _).2 tokOk_three
    · exact (str_wf_iff _).2 (strOk_ascii _ (by decide))
    · rw [arr_wf_iff]
      intro x hx
      obtain ⟨t, ht, rfl⟩ := List.mem_map.1 hx
      exact (num_wf_iff _).2 (h.shape t ht).2
    · exact metaV3_toJ_wf _ h.dt
    · exact metaV3_toJ_wf _ h.cg
    · exact metaV3_toJ_wf _ h.ck
    · exact h.fill
    · exact metaList_toJ_wf _ h.codecs
  · split at hkv
    · cases hkv
    · simp only [List.mem_cons, List.not_mem_nil, or_false] at hkv
      subst hkv
      exact (obj_wf_iff _).2 h.attrs
  · split at hkv
    · cases hkv
    · simp only [List.mem_cons, List.not_mem_nil, or_false] at hkv
      subst hkv
      exact metaList_toJ_wf _ h.st
  · split at hkv
    · rename_i ns hns
      simp only [List.mem_cons, List.not_mem_nil, or_false] at hkv
      subst hkv
      exact dimNamesToJ_wf ns (h.dn ns hns)
    · cases hkv

theorem arrayDoc_toJ_wf (d : ArrayDoc) (h : d.good) : d.toJ.wf := by
  rw [ArrayDoc.toJ_eq, obj_wf_iff]
  refine ⟨?_, keysDistinct_known_extra arrayKeys arrayKeys_nodup _ (arrayDoc_knownKeys_sublist d) _ h.sorted
    (fun kv hkv => (h.extra kv hkv).2.2)⟩
  rw [wfKVs_iff]
  intro kv hkv
  unfold ArrayDoc.kvs at hkv
  rcases List.mem_append.1 hkv with hk | hk
  · exact ⟨arrayKeys_strOk _ ((arrayDoc_knownKeys_sublist d).subset (List.mem_map_of_mem hk)), arrayDoc_known_wf d h kv hk⟩
  · exact (wfKVs_iff _).1 (extraKVs_wf _ (fun kv hkv => ⟨(h.extra kv hkv).1, (h.extra kv hkv).2.1⟩)) kv hk

theorem groupDoc_toJ_wf (d : GroupDoc) (h : d.good) : d.toJ.wf := by
  rw [GroupDoc.toJ_eq, obj_wf_iff]
  refine ⟨?_, keysDistinct_known_extra groupKeys groupKeys_nodup _ (groupDoc_knownKeys_sublist d) _ h.sorted
    (fun kv hkv => (h.extra kv hkv).2.2)⟩
  rw [wfKVs_iff]
  intro kv hkv
  unfold GroupDoc.kvs at hkv
  rcases List.mem_append.1 hkv with hk | hk
  · refine ⟨groupKeys_strOk _ ((groupDoc_knownKeys_sublist d).subset (List.mem_map_of_mem hk)), ?_⟩
    simp only [GroupDoc.knownKVs, List.mem_append, List.mem_cons, List.not_mem_nil, or_false] at hk
    rcases hk with (rfl | rfl) | hk
    · exact (num_wf_iff _).2 tokOk_three
    · exact (str_wf_iff _).2 (strOk_ascii _ (by decide))
    · split at hk
      · cases hk
      · simp only [List.mem_cons, List.not_mem_nil, or_false] at hk
        subst hk
        exact (obj_wf_iff _).2 h.attrs
  · exact (wfKVs_iff _).1 (extraKVs_wf _ (fun kv hkv => ⟨(h.extra kv hkv).1, (h.extra kv hkv).2.1⟩)) kv hk

theorem arrayDoc_text_roundtrip_good (d : ArrayDoc) (h : d.good) : ArrayDoc.ofText d.toText = some d := by
  unfold ArrayDoc.ofText ArrayDoc.toText
  rw [parse_print _ (arrayDoc_toJ_wf d h)]
  exact arrayDoc_roundtrip_good d h

theorem groupDoc_text_roundtrip_good (d : GroupDoc) (h : d.good) : GroupDoc.ofText d.toText = some d := by
  unfold GroupDoc.ofText GroupDoc.toText
  rw [parse_print _ (groupDoc_toJ_wf d h)]
  exact groupDoc_roundtrip_good d h

/-- small integer tokens: `tokOk_of_natTok 42 _ (by decide)` -/
theorem tokOk_of_natTok (n : Nat) (t : List Char) (h : FillMeta.natTok n = t) : tokOk t := h ▸ NumTok.tokOk_natTok n

end Zarrs.Meta
