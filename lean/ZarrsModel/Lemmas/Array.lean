import ZarrsModel.Model.Array
import ZarrsModel.Lemmas.Index
import ZarrsModel.Lemmas.Grid
import ZarrsModel.Lemmas.Store
/- helper lemmas for C01/C04 (array refinement) -/
namespace Zarrs

end Zarrs
