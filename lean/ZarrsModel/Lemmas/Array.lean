import ZarrsModel.Model.Array
import ZarrsModel.Lemmas.Index
import ZarrsModel.Lemmas.Grid
import ZarrsModel.Lemmas.Store
import ZarrsModel.Lemmas.ArrayList
import ZarrsModel.Lemmas.ArrayGrid
import ZarrsModel.Lemmas.ArrayChunk
import ZarrsModel.Lemmas.ArrayInv
import ZarrsModel.Lemmas.ArrayMulti
import ZarrsModel.Lemmas.ArrayRead
/-
Helper lemmas for C01/C04 (array refinement), split over several files:

* `ArrayList`  — positional lookup in `boxIndices` / `Subset.indices` / `AArr.read`; `updateRuns` = scatter
* `ArrayGrid`  — grid facts beyond C10: adjacency of consecutive chunks, global disjointness, `chunks_subset`
* `ArrayChunk` — index arithmetic, `extract` pointwise, the standing assumptions `COk` and what they give
* `ArrayInv`   — the refinement invariant `Inv`, single-chunk writes/erases/reads
* `ArrayMulti` — multi-chunk writes and erases (`storeChunks`, `eraseChunks`, `storeArraySubset`)
* `ArrayRead`  — multi-chunk reads (`retrieveArraySubset`, `retrieveChunks`), histories (`run_inv`)
-/
