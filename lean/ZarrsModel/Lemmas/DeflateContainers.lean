import ZarrsModel.Lemmas.DeflateStream
import ZarrsModel.Lemmas.Inflate
set_option Elab.async false
/-
gzip members (any combination of the optional header fields) and zlib streams (any window size / level) around a
DEFLATE stream; the rendered data consists of bytes.
-/
namespace Zarrs.DeflateSpec
open Zarrs Zarrs.Inflate

/-! ### rendered data are bytes -/

theorem copyFrom_wf (n dist : Nat) (out : Bytes) (h : ∀ x ∈ out, x < 256) : ∀ x ∈ copyFrom n dist out, x < 256 := by
  induction n generalizing out with
  | zero => exact h
  | succ n ih =>
    simp only [copyFrom]
    apply ih
    intro x hx
    rcases List.mem_append.1 hx with hx | hx
    · exact h x hx
    · simp only [List.mem_singleton] at hx
      subst hx
      by_cases hl : out.length - dist < out.length
      · exact h _ (getD_mem out _ hl)
      · rw [List.getD_eq_getElem?_getD, List.getElem?_eq_none (by omega)]; simp

theorem render_wf (toks : List Token) (out res : Bytes) (h : ∀ x ∈ out, x < 256) (hr : render toks out = some res) :
    ∀ x ∈ res, x < 256 := by
  induction toks generalizing out with
  | nil => simp only [render, Option.some.injEq] at hr; subst hr; exact h
  | cons t ts ih =>
    simp only [render] at hr
    cases ht : renderTok out t with
    | none => simp [ht] at hr
    | some mid =>
      simp only [ht] at hr
      refine ih mid ?_ hr
      cases t with
      | lit b =>
        simp only [renderTok] at ht
        split at ht
        · rename_i hb
          simp only [Option.some.injEq] at ht
          subst ht
          intro x hx
          rcases List.mem_append.1 hx with hx | hx
          · exact h x hx
          · simp only [List.mem_singleton] at hx; omega
        · cases ht
      | copy len dist =>
        simp only [renderTok] at ht
        split at ht
        · simp only [Option.some.injEq] at ht
          subst ht
          exact copyFrom_wf _ _ _ h
        · cases ht

theorem renderBlocks_wf (bl : List Block) (pos : Nat) (bits : Bits) (out res : Bytes) (h : ∀ x ∈ out, x < 256)
    (he : encodeBlocks pos bl = some bits) (hr : renderBlocks bl out = some res) : ∀ x ∈ res, x < 256 := by
  induction bl generalizing pos bits out with
  | nil => simp [encodeBlocks] at he
  | cons b bs ih =>
    simp only [renderBlocks] at hr
    cases hrb : renderBlock out b with
    | none => simp [hrb] at hr
    | some mid =>
      simp only [hrb] at hr
      have key : ∀ (final : Bool) (x : Bits), encodeBlock pos final b = some x → ∀ y ∈ mid, y < 256 := by
        intro final x hx
        cases b with
        | stored fill data =>
          simp only [renderBlock, Option.some.injEq] at hrb
          subst hrb
          simp only [encodeBlock] at hx
          split at hx
          · rename_i hd
            have hd2 := hd.2
            simp only [List.all_eq_true, decide_eq_true_eq] at hd2
            intro y hy
            rcases List.mem_append.1 hy with hy | hy
            · exact h y hy
            · exact hd2 y hy
          · cases hx
        | fixed toks => exact render_wf toks out mid h hrb
        | dynamic hh toks => exact render_wf toks out mid h hrb
      cases bs with
      | nil =>
        simp only [encodeBlocks] at he
        simp only [renderBlocks, Option.some.injEq] at hr
        subst hr
        exact key true bits he
      | cons b' bs =>
        simp only [encodeBlocks] at he
        cases hx : encodeBlock pos false b with
        | none => simp [hx] at he
        | some x =>
          cases hy : encodeBlocks (pos + x.length) (b' :: bs) with
          | none => simp [hx, hy] at he
          | some y => exact ih (pos + x.length) y mid (key false x hx) hy hr

theorem encodeStream_data_wf (bl : List Block) (fill : Bits) (bytes out : Bytes)
    (he : encodeStream bl fill = some bytes) (hr : renderBlocks bl [] = some out) : ∀ x ∈ out, x < 256 := by
  unfold encodeStream at he
  cases hb : encodeBlocks 0 bl with
  | none => simp [hb] at he
  | some bits => exact renderBlocks_wf bl 0 bits [] out (by simp) hb hr

theorem encodeStream_wf (bl : List Block) (fill : Bits) (bytes : Bytes) (he : encodeStream bl fill = some bytes) :
    ∀ x ∈ bytes, x < 256 := by
  unfold encodeStream at he
  cases hb : encodeBlocks 0 bl with
  | none => simp [hb] at he
  | some bits =>
    simp only [hb, Option.some.injEq] at he
    subst he
    exact fromBits_wf _

/-! ### gzip -/

/-- the optional header fields as `gunzip` skips them -/
def gzF1 (flg : Nat) (rest : Bytes) : Option Bytes :=
  if flg / 4 % 2 == 1 then
    (match rest with | a :: b :: r => let n := a + 256 * b; if r.length < n then none else some (r.drop n) | _ => none)
  else some rest
def gzF2 (flg : Nat) (r : Bytes) : Option Bytes := if flg / 8 % 2 == 1 then dropZ r else some r
def gzF3 (flg : Nat) (r : Bytes) : Option Bytes := if flg / 16 % 2 == 1 then dropZ r else some r
def gzF4 (flg : Nat) (r : Bytes) : Option Bytes :=
  if flg / 2 % 2 == 1 then (if r.length < 2 then none else some (r.drop 2)) else some r
def gzTail : Option (Bytes × Bytes) → Option Bytes
  | none => none
  | some (data, tail) =>
    if tail.length < 8 then none
    else if ofLe (tail.take 4) != crc32 data then none
    else if ofLe ((tail.drop 4).take 4) != data.length % 4294967296 then none
    else some data

theorem gunzip_eq (flg m0 m1 m2 m3 xfl os : Nat) (rest : Bytes) :
    gunzip (0x1f :: 0x8b :: 8 :: flg :: m0 :: m1 :: m2 :: m3 :: xfl :: os :: rest) =
      gzTail (((((gzF1 flg rest).bind (gzF2 flg)).bind (gzF3 flg)).bind (gzF4 flg)).bind inflate) := rfl

theorem flg_bits (h : GzHeader) :
    h.flg / 4 % 2 = (if h.extra.isSome then 1 else 0) ∧ h.flg / 8 % 2 = (if h.name.isSome then 1 else 0) ∧
    h.flg / 16 % 2 = (if h.comment.isSome then 1 else 0) ∧ h.flg / 2 % 2 = (if h.hcrc.isSome then 1 else 0) ∧
    h.flg < 32 := by
  rcases h with ⟨ftext, mtime, xfl, os, extra, name, comment, hcrc⟩
  cases ftext <;> cases extra <;> cases name <;> cases comment <;> cases hcrc <;> simp [GzHeader.flg]

theorem dropZ_append (n r : Bytes) (hn : ∀ x ∈ n, x ≠ 0) : dropZ (n ++ 0 :: r) = some r := by
  induction n with
  | nil => rfl
  | cons a n ih =>
    have ha : a ≠ 0 := hn a (by simp)
    obtain ⟨a', rfl⟩ : ∃ k, a = k + 1 := ⟨a - 1, by omega⟩
    simp only [List.cons_append, dropZ]
    exact ih (fun x hx => hn x (List.mem_cons_of_mem _ hx))

theorem gzF1_spec (flg : Nat) (extra : Option Bytes) (r : Bytes)
    (hf : flg / 4 % 2 = if extra.isSome then 1 else 0) (hl : ∀ e, extra = some e → e.length < 65536) :
    gzF1 flg (gzExtraBytes extra ++ r) = some r := by
  unfold gzF1
  rw [hf]
  cases extra with
  | none => simp [gzExtraBytes]
  | some e =>
    have hl := hl e rfl
    have e1 : e.length % 256 + 256 * (e.length / 256 % 256) = e.length := by omega
    simp only [Option.isSome_some, if_true, beq_self_eq_true, le16, List.cons_append, List.nil_append, e1,
      gzExtraBytes]
    have : ¬ ((e ++ r).length < e.length) := by simp only [List.length_append]; omega
    rw [if_neg this, List.drop_left']
    rfl

theorem gzF23_spec (bit : Nat) (name : Option Bytes) (r : Bytes)
    (hf : bit = if name.isSome then 1 else 0) (hl : ∀ n, name = some n → ∀ x ∈ n, x ≠ 0) :
    (if bit == 1 then dropZ (gzZBytes name ++ r) else some (gzZBytes name ++ r)) = some r := by
  rw [hf]
  cases name with
  | none => simp [gzZBytes]
  | some n =>
    simp only [Option.isSome_some, if_true, beq_self_eq_true, List.append_assoc, List.cons_append, List.nil_append,
      gzZBytes]
    exact dropZ_append n r (hl n rfl)

theorem gzF4_spec (flg : Nat) (hcrc : Option (Nat × Nat)) (r : Bytes)
    (hf : flg / 2 % 2 = if hcrc.isSome then 1 else 0) :
    gzF4 flg (gzCrcBytes hcrc ++ r) = some r := by
  unfold gzF4
  rw [hf]
  cases hcrc with
  | none => simp [gzCrcBytes]
  | some ab =>
    obtain ⟨a, b⟩ := ab
    simp [gzCrcBytes]

theorem GzHeader.ok_iff (h : GzHeader) (hok : h.ok = true) :
    h.mtime.length = 4 ∧ (∀ e, h.extra = some e → e.length < 65536) ∧
    (∀ n, h.name = some n → ∀ x ∈ n, x ≠ 0) ∧ (∀ n, h.comment = some n → ∀ x ∈ n, x ≠ 0) := by
  unfold GzHeader.ok at hok
  simp only [Bool.and_eq_true, decide_eq_true_eq] at hok
  obtain ⟨⟨⟨a1, a2⟩, a3⟩, a4⟩ := hok
  refine ⟨a1, ?_, ?_, ?_⟩
  · intro e he; rw [he] at a2; simpa using a2
  · intro e he; rw [he] at a3; simpa using a3
  · intro e he; rw [he] at a4; simpa using a4

theorem gunzip_gzipMember (h : GzHeader) (hok : h.ok = true) (stream data : Bytes)
    (hi : ∀ rest, inflate (stream ++ rest) = some (data, rest)) (hd : ∀ x ∈ data, x < 256) :
    gunzip (gzipMember h stream data) = some data := by
  obtain ⟨hm, he, hn, hc⟩ := GzHeader.ok_iff h hok
  obtain ⟨f1, f2, f3, f4, _⟩ := flg_bits h
  unfold gzipMember GzHeader.bytes
  obtain ⟨m0, m1, m2, m3, hmt⟩ : ∃ a b c d, h.mtime = [a, b, c, d] := by
    match hmm : h.mtime, hm with
    | [a, b, c, d], _ => exact ⟨a, b, c, d, rfl⟩
  rw [hmt]
  simp only [List.cons_append, List.nil_append, List.append_assoc]
  rw [gunzip_eq, gzF1_spec _ _ _ f1 he]
  simp only [Option.bind_some]
  have s2 := gzF23_spec (h.flg / 8 % 2) h.name
    (gzZBytes h.comment ++ (gzCrcBytes h.hcrc ++ (stream ++ (le32 (crc32 data) ++ le32 (data.length % 4294967296)))))
    f2 hn
  have s3 := gzF23_spec (h.flg / 16 % 2) h.comment
    (gzCrcBytes h.hcrc ++ (stream ++ (le32 (crc32 data) ++ le32 (data.length % 4294967296)))) f3 hc
  unfold gzF2
  rw [s2]
  simp only [Option.bind_some]
  unfold gzF3
  rw [s3]
  simp only [Option.bind_some]
  rw [gzF4_spec _ _ _ f4]
  simp only [Option.bind_some]
  rw [hi]
  have h1 : ofLe (le32 (crc32 data)) = crc32 data := ofLe_le32 _ (crc32_lt data hd)
  have h2 : ofLe (le32 (data.length % 4294967296)) = data.length % 4294967296 :=
    ofLe_le32 _ (Nat.mod_lt _ (by omega))
  have h3 : ∀ (a : Nat) (r : Bytes), List.take 4 (le32 a ++ r) = le32 a := fun _ _ => rfl
  have h4 : ∀ (a : Nat) (r : Bytes), List.drop 4 (le32 a ++ r) = r := fun _ _ => rfl
  have h5 : ∀ (a : Nat), List.take 4 (le32 a) = le32 a := fun _ => rfl
  simp [gzTail, le32_length, h1, h2, h3, h4, h5]

theorem gzipMember_wf (h : GzHeader) (stream data : Bytes) (hh : ∀ x ∈ h.bytes, x < 256)
    (hs : ∀ x ∈ stream, x < 256) : ∀ x ∈ gzipMember h stream data, x < 256 := by
  intro x hx
  simp only [gzipMember, List.mem_append] at hx
  rcases hx with hx | hx | hx | hx
  · exact hh x hx
  · exact hs x hx
  · exact le32_wf _ x hx
  · exact le32_wf _ x hx

/-! ### zlib -/

theorem unzlib_zlibStream (cinfo level : Nat) (stream data : Bytes)
    (hi : ∀ rest, inflate (stream ++ rest) = some (data, rest)) :
    unzlib (zlibStream cinfo level stream data) = some data := by
  have h1 : ofLe (le32 (adler32 data)) = adler32 data := ofLe_le32 _ (adler32_lt data)
  have h3 : (List.take 4 (be32 (adler32 data))).reverse = le32 (adler32 data) := rfl
  have h4 : (be32 (adler32 data)).length = 4 := rfl
  have c1 : (8 + 16 * cinfo) % 16 = 8 := by omega
  have key : ∀ x : Nat, (x + (31 - x % 31) % 31) % 31 = 0 := by
    intro x
    have hr := Nat.mod_lt x (show 0 < 31 by omega)
    have hx := Nat.div_add_mod x 31
    generalize x % 31 = r at *
    generalize x / 31 = q at *
    subst hx
    by_cases h0 : r = 0
    · subst h0
      simp
    · have e1 : (31 - r) % 31 = 31 - r := Nat.mod_eq_of_lt (by omega)
      have e2 : 31 * q + r + (31 - r) = 31 * (q + 1) := by omega
      rw [e1, e2]
      exact Nat.mul_mod_right _ _
  have c2 : ((8 + 16 * cinfo) * 256 + (64 * level + (31 - ((8 + 16 * cinfo) * 256 + 64 * level) % 31) % 31)) % 31 = 0 := by
    rw [← Nat.add_assoc]
    exact key _
  have key3 : ∀ k : Nat, k < 31 → (64 * level + k) / 32 % 2 = 0 := by
    intro k hk
    omega
  have c3 : (64 * level + (31 - ((8 + 16 * cinfo) * 256 + 64 * level) % 31) % 31) / 32 % 2 = 0 :=
    key3 _ (Nat.mod_lt _ (by omega))
  simp only [zlibStream, List.cons_append, List.nil_append]
  unfold unzlib
  simp [hi, h1, h3, h4, c1, c2, c3]

end Zarrs.DeflateSpec
