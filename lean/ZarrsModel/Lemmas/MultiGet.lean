import ZarrsModel.Model.MultiGet
set_option Elab.async false
namespace Zarrs.MultiGet
open Zarrs

theorem flush_nil (m : KV) (k : Key) : flush m k [] = some [] := by
  unfold flush; cases m.get k <;> simp [extractByteRanges]

theorem flush_snoc (m : KV) (k : Key) (rs : List ByteRange) (r : ByteRange) :
    flush m k (rs ++ [r]) = match flush m k rs, one m (k, r) with
      | some bs, some x => some (bs ++ [x])
      | _, _ => none := by
  unfold flush one
  cases hk : m.get k with
  | none => simp [List.replicate_succ', hk]
  | some b =>
    simp only [extractByteRanges, List.all_append, List.all_cons, List.all_nil, Bool.and_true]
    by_cases h1 : rs.all (·.valid b.length) = true <;> by_cases h2 : r.valid b.length = true <;> simp [h1, h2, hk]

theorem flush_single (m : KV) (k : Key) (r : ByteRange) :
    flush m k [r] = (one m (k, r)).map (fun x => [x]) := by
  have := flush_snoc m k [] r
  rw [flush_nil] at this
  simp only [List.nil_append] at this
  rw [this]; cases one m (k, r) <;> rfl

theorem loop_some (m : KV) : ∀ (reqs : List Req) (k : Key) (rs : List ByteRange) (out : List (Option Bytes)),
    loop flush m reqs (some k) rs out = match flush m k rs, reqwise m reqs with
      | some bs, some cs => some (out ++ bs ++ cs)
      | _, _ => none := by
  intro reqs
  induction reqs with
  | nil =>
    intro k rs out
    simp only [loop, reqwise]
    cases rs with
    | nil => simp [flush_nil]
    | cons r rs => cases flush m k (r :: rs) <;> simp
  | cons q rest ih =>
    intro k rs out
    obtain ⟨k', r⟩ := q
    simp only [loop, Option.getD_some, reqwise]
    by_cases hk : k' = k
    · subst hk
      simp only [bne_self_eq_false, Bool.false_eq_true, ↓reduceIte]
      rw [ih, flush_snoc]
      cases flush m k' rs <;> cases one m (k', r) <;> cases reqwise m rest <;> simp
    · have : (k' != k) = true := by simpa using hk
      simp only [this, ↓reduceIte]
      cases hf : flush m k rs with
      | none => simp
      | some bs =>
        simp only
        rw [ih, flush_single]
        cases one m (k', r) <;> cases reqwise m rest <;> simp

theorem reqwise_length (m : KV) : ∀ (reqs : List Req) (out : List (Option Bytes)), reqwise m reqs = some out → out.length = reqs.length := by
  intro reqs
  induction reqs with
  | nil => intro out h; simp [reqwise] at h; subst h; rfl
  | cons q rest ih =>
    intro out h
    simp only [reqwise] at h
    cases h1 : one m q <;> cases h2 : reqwise m rest <;> simp [h1, h2] at h
    subst h; simp [ih _ h2]

end Zarrs.MultiGet
