import ZarrsModel.Model.Array
import ZarrsModel.Lemmas.Index
import ZarrsModel.Lemmas.Grid
import ZarrsModel.Props.C09
import ZarrsModel.Props.C10
/- helper lemmas for C01/C04, part 2: grid facts beyond C10 (chunks tile the covered extent contiguously,
distinct chunks are disjoint everywhere, `chunks_subset` of a box is the union of its chunks) -/
namespace Zarrs
open Subset

/-! ### one dimension: consecutive chunks are adjacent -/

theorem scan_next (sizes : List Nat) : ∀ (off c o s : Nat) (p : Nat × Nat),
    (scanOffsets off sizes)[c]? = some (o, s) → (scanOffsets off sizes)[c + 1]? = some p → p.1 = o + s := by
  induction sizes with
  | nil => intro off c o s p h; simp [scanOffsets] at h
  | cons s0 ss ih =>
    intro off c o s p h h'
    cases c with
    | zero =>
      simp only [scanOffsets, List.getElem?_cons_zero, Option.some.injEq, Prod.mk.injEq] at h
      simp only [scanOffsets, Nat.zero_add, List.getElem?_cons_succ] at h'
      cases ss with
      | nil => simp [scanOffsets] at h'
      | cons s1 ss' =>
        simp only [scanOffsets, List.getElem?_cons_zero, Option.some.injEq] at h'
        subst h'; simp; omega
    | succ c =>
      simp only [scanOffsets, List.getElem?_cons_succ] at h h'
      exact ih _ _ _ _ _ h h'

/-- adjacency of consecutive chunks of one dimension -/
def DimNext (d : Dim) (G : Nat) : Prop :=
  ∀ c o s, c + 1 < G → d.origin c = some o → d.chunkShape c = some s → d.origin (c + 1) = some (o + s)

theorem dimNext_new (c : DimCfg) (a G : Nat) (hG : (Dim.new c).gridShape a = some G) :
    DimNext (Dim.new c) G := by
  cases c with
  | fixed s =>
    intro c o s' _ ho hs
    simp only [Dim.new, Dim.origin, Dim.chunkShape, Option.some.injEq] at ho hs ⊢
    subst ho hs
    rw [Nat.add_mul]; omega
  | varying sizes =>
    simp only [Dim.new, Dim.gridShape, scanOffsets_length] at hG
    split at hG
    · simp only [Option.some.injEq] at hG
      subst hG
      intro c o s hc ho hs
      simp only [Dim.new, Dim.origin, Dim.chunkShape, Option.map_eq_some_iff] at ho hs ⊢
      obtain ⟨⟨o1, s1⟩, h1, rfl⟩ := ho
      obtain ⟨⟨o2, s2⟩, h2, rfl⟩ := hs
      rw [h1] at h2
      simp only [Option.some.injEq, Prod.mk.injEq] at h2
      obtain ⟨rfl, rfl⟩ := h2
      have hlt : c + 1 < (scanOffsets 0 sizes).length := by rwa [scanOffsets_length]
      refine ⟨(scanOffsets 0 sizes)[c + 1], List.getElem?_eq_getElem hlt, ?_⟩
      exact scan_next sizes 0 c _ _ _ h1 (List.getElem?_eq_getElem hlt)
    · cases hG

/-- the union of the chunks `bs ≤ c < bs + bn` of one dimension is the interval from the origin of the
first to the end of the last -/
theorem dim_range {d : Dim} {a G : Nat} (h : DimOK d a G) (hn : DimNext d G) (bs : Nat) :
    ∀ bn, 0 < bn → bs + bn ≤ G →
    ∃ o0 s0 o1 s1, d.origin bs = some o0 ∧ d.chunkShape bs = some s0 ∧
      d.origin (bs + bn - 1) = some o1 ∧ d.chunkShape (bs + bn - 1) = some s1 ∧ o0 < o1 + s1 ∧
      ∀ i, (o0 ≤ i ∧ i < o0 + (o1 + s1 - o0)) ↔
        ∃ c o s, bs ≤ c ∧ c < bs + bn ∧ d.origin c = some o ∧ d.chunkShape c = some s ∧ o ≤ i ∧ i < o + s := by
  intro bn
  induction bn with
  | zero => intro h0; omega
  | succ n ih =>
    intro _ hle
    by_cases hn0 : n = 0
    · subst hn0
      obtain ⟨o, s, ho, hs, hpos⟩ := h.defined bs (by omega)
      refine ⟨o, s, o, s, ho, hs, by simpa using ho, by simpa using hs, by omega, ?_⟩
      intro i
      constructor
      · rintro ⟨h1, h2⟩
        exact ⟨bs, o, s, Nat.le_refl _, by omega, ho, hs, h1, by omega⟩
      · rintro ⟨c, o', s', h1, h2, ho', hs', h3, h4⟩
        have : c = bs := by omega
        subst this
        rw [ho] at ho'; rw [hs] at hs'
        cases ho'; cases hs'
        omega
    · obtain ⟨o0, s0, o1, s1, ho0, hs0, ho1, hs1, hlt, hiff⟩ := ih (by omega) (by omega)
      obtain ⟨o2, s2, ho2, hs2, hpos2⟩ := h.defined (bs + (n + 1) - 1) (by omega)
      have hnext := hn (bs + n - 1) o1 s1 (by omega) ho1 hs1
      have he : bs + n - 1 + 1 = bs + (n + 1) - 1 := by omega
      rw [he, ho2] at hnext
      simp only [Option.some.injEq] at hnext
      subst hnext
      refine ⟨o0, s0, o1 + s1, s2, ho0, hs0, ho2, hs2, by omega, ?_⟩
      intro i
      constructor
      · rintro ⟨h1, h2⟩
        by_cases hi : i < o1 + s1
        · obtain ⟨c, o, s, hc1, hc2, ho, hs, h3, h4⟩ := (hiff i).mp ⟨h1, by omega⟩
          exact ⟨c, o, s, hc1, by omega, ho, hs, h3, h4⟩
        · exact ⟨bs + (n + 1) - 1, o1 + s1, s2, by omega, by omega, ho2, hs2, by omega, by omega⟩
      · rintro ⟨c, o, s, hc1, hc2, ho, hs, h3, h4⟩
        by_cases hc : c < bs + n
        · have := (hiff i).mpr ⟨c, o, s, hc1, hc, ho, hs, h3, h4⟩
          omega
        · have : c = bs + (n + 1) - 1 := by omega
          subst this
          rw [ho2] at ho; rw [hs2] at hs
          cases ho; cases hs
          omega

/-! ### N dimensions -/

/-- per-dimension contract (C10's `DimOK` plus adjacency) for a whole grid -/
inductive GridOK' : Grid → Shape → Shape → Prop
  | nil : GridOK' [] [] []
  | cons {d : Dim} {a G : Nat} {ds : Grid} {as Gs : Shape} :
      DimOK d a G → DimNext d G → GridOK' ds as Gs → GridOK' (d :: ds) (a :: as) (G :: Gs)

theorem gridOK'_new : ∀ (cfg : List DimCfg) (arr G : Shape), (Grid.new cfg).wf = true →
    (Grid.new cfg).gridShape arr = some G → arr.length = cfg.length → GridOK' (Grid.new cfg) arr G := by
  intro cfg
  induction cfg with
  | nil =>
    intro arr G _ hG hlen
    cases arr with
    | nil =>
      simp only [Grid.new, List.map_nil, Grid.gridShape, zipOpt_nil_left, Option.some.injEq] at hG
      subst hG; exact .nil
    | cons _ _ => simp at hlen
  | cons c cfg ih =>
    intro arr G hwf hG hlen
    cases arr with
    | nil => simp at hlen
    | cons a as =>
      simp only [Grid.new, List.map_cons, Grid.wf, List.all_cons, Bool.and_eq_true] at hwf
      simp only [Grid.new, List.map_cons, Grid.gridShape] at hG
      obtain ⟨G0, Gs, h0, hs, rfl⟩ := zipOpt_cons_some.mp hG
      exact .cons (dimOK_new c a G0 hwf.1 h0) (dimNext_new c a G0 h0)
        (ih as Gs hwf.2 hs (by simpa using hlen))

theorem GridOK'.length {g : Grid} {arr G : Shape} (h : GridOK' g arr G) :
    arr.length = g.length ∧ G.length = g.length := by
  induction h with
  | nil => simp
  | cons _ _ _ ih => simp [ih.1, ih.2]

/-- every chunk below the grid shape has an origin and a non-empty shape of the grid's rank -/
theorem GridOK'.defined {g : Grid} {arr G : Shape} (h : GridOK' g arr G) :
    ∀ c : Idx, inB c G = true → ∃ o s, g.chunkOrigin c = some o ∧ g.chunkShape c = some s ∧
      o.length = g.length ∧ s.length = g.length ∧ s.any (· == 0) = false := by
  induction h with
  | nil =>
    intro c hc
    cases c with
    | nil => exact ⟨[], [], by simp [Grid.chunkOrigin, zipOpt_nil_left], by simp [Grid.chunkShape, zipOpt_nil_left],
        rfl, rfl, rfl⟩
    | cons _ _ => simp [inB] at hc
  | @cons d a G0 ds as Gs hd _ _ ih =>
    intro c hc
    cases c with
    | nil => simp [inB] at hc
    | cons c0 ct =>
      simp only [inB, Bool.and_eq_true, decide_eq_true_eq] at hc
      obtain ⟨o0, s0, ho0, hs0, hpos⟩ := hd.defined c0 hc.1
      obtain ⟨o, s, ho, hs, hlo, hls, hne⟩ := ih ct hc.2
      refine ⟨o0 :: o, s0 :: s, zipOpt_cons_eq ho0 ho, zipOpt_cons_eq hs0 hs, by simp [hlo], by simp [hls], ?_⟩
      simp only [List.any_cons, hne, Bool.or_false, beq_eq_false_iff_ne]
      omega

/-- two chunks below the grid shape that share an element (anywhere in the covered extent) are equal -/
theorem GridOK'.disjoint {g : Grid} {arr G : Shape} (h : GridOK' g arr G) :
    ∀ (c c' o s o' s' i : List Nat), inB c G = true → inB c' G = true →
      g.chunkOrigin c = some o → g.chunkShape c = some s →
      g.chunkOrigin c' = some o' → g.chunkShape c' = some s' →
      mem i o s = true → mem i o' s' = true → c' = c := by
  induction h with
  | nil =>
    intro c c' o s o' s' i hc hc'
    cases c <;> cases c' <;> simp_all [inB]
  | @cons d a G0 ds as Gs hd _ _ ih =>
    intro c c' o s o' s' i hc hc' ho hs ho' hs' hm hm'
    cases c with
    | nil => simp [inB] at hc
    | cons c0 ct =>
    cases c' with
    | nil => simp [inB] at hc'
    | cons c0' ct' =>
      simp only [inB, Bool.and_eq_true, decide_eq_true_eq] at hc hc'
      obtain ⟨o0, ot, ho0, hot, rfl⟩ := zipOpt_cons_some.mp ho
      obtain ⟨s0, st, hs0, hst, rfl⟩ := zipOpt_cons_some.mp hs
      obtain ⟨o0', ot', ho0', hot', rfl⟩ := zipOpt_cons_some.mp ho'
      obtain ⟨s0', st', hs0', hst', rfl⟩ := zipOpt_cons_some.mp hs'
      cases i with
      | nil => simp [mem] at hm
      | cons i0 it =>
        simp only [mem, Bool.and_eq_true, decide_eq_true_eq] at hm hm'
        have e0 : c0' = c0 := hd.uniq hc.1 hc'.1 ho0 hs0 hm.1.1 hm.1.2 ho0' hs0' hm'.1.1 hm'.1.2
        have et : ct' = ct := ih ct ct' ot st ot' st' it hc.2 hc'.2 hot hst hot' hst' hm.2 hm'.2
        rw [e0, et]

/-- `chunks_subset` of a non-empty in-grid box of chunks: the union of the chunks of the box -/
theorem GridOK'.chunksSubset {g : Grid} {arr G : Shape} (h : GridOK' g arr G) :
    ∀ bs bn : List Nat, bs.length = g.length → bn.length = g.length →
    allLe (addIdx bs bn) G = true → bn.any (· == 0) = false →
    ∃ o0 s0 o1 s1, g.chunkOrigin bs = some o0 ∧ g.chunkShape bs = some s0 ∧
      g.chunkOrigin ((addIdx bs bn).map (· - 1)) = some o1 ∧
      g.chunkShape ((addIdx bs bn).map (· - 1)) = some s1 ∧
      o0.length = g.length ∧ o1.length = g.length ∧ s1.length = g.length ∧
      ∀ i, mem i o0 (zipSub (addIdx o1 s1) o0) = true ↔
        ∃ c o s, mem c bs bn = true ∧ g.chunkOrigin c = some o ∧ g.chunkShape c = some s ∧ mem i o s = true := by
  induction h with
  | nil =>
    intro bs bn hbs hbn _ _
    cases bs with
    | cons _ _ => simp at hbs
    | nil =>
    cases bn with
    | cons _ _ => simp at hbn
    | nil =>
      refine ⟨[], [], [], [], by simp [Grid.chunkOrigin, zipOpt_nil_left], by simp [Grid.chunkShape, zipOpt_nil_left],
        by simp [Grid.chunkOrigin, addIdx, zipOpt_nil_left], by simp [Grid.chunkShape, addIdx, zipOpt_nil_left],
        rfl, rfl, rfl, ?_⟩
      intro i
      cases i with
      | nil =>
        simp only [addIdx, zipSub, mem, true_iff]
        exact ⟨[], [], [], rfl, by simp [Grid.chunkOrigin, zipOpt_nil_left],
          by simp [Grid.chunkShape, zipOpt_nil_left], rfl⟩
      | cons i0 it =>
        simp only [mem, Bool.false_eq_true, false_iff]
        rintro ⟨c, o, s, hc, ho, hs, hm⟩
        cases c with
        | nil =>
          simp only [Grid.chunkOrigin, zipOpt_nil_left, Option.some.injEq] at ho
          subst ho
          simp [mem] at hm
        | cons _ _ => simp [mem] at hc
  | @cons d a G0 ds as Gs hd hn _ ih =>
    intro bs bn hbs hbn hle hne
    cases bs with
    | nil => simp at hbs
    | cons b0 bt =>
    cases bn with
    | nil => simp at hbn
    | cons n0 nt =>
      simp only [addIdx, allLe, Bool.and_eq_true, decide_eq_true_eq] at hle
      simp only [List.any_cons, Bool.or_eq_false_iff, beq_eq_false_iff_ne, ne_eq] at hne
      obtain ⟨p0, q0, p1, q1, hp0, hq0, hp1, hq1, hlt, hiff0⟩ := dim_range hd hn b0 n0 (by omega) hle.1
      obtain ⟨o0, s0, o1, s1, ho0, hs0, ho1, hs1, hl0, hl1, hl2, hiff⟩ :=
        ih bt nt (by simpa using hbs) (by simpa using hbn) hle.2 hne.2
      refine ⟨p0 :: o0, q0 :: s0, p1 :: o1, q1 :: s1, zipOpt_cons_eq hp0 ho0, zipOpt_cons_eq hq0 hs0, ?_, ?_,
        by simp [hl0], by simp [hl1], by simp [hl2], ?_⟩
      · simp only [addIdx, List.map_cons]; exact zipOpt_cons_eq hp1 ho1
      · simp only [addIdx, List.map_cons]; exact zipOpt_cons_eq hq1 hs1
      · intro i
        cases i with
        | nil =>
          simp only [mem, Bool.false_eq_true, false_iff]
          rintro ⟨c, o, s, hc, ho, hs, hm⟩
          cases c with
          | nil => simp [mem] at hc
          | cons c0 ct =>
            obtain ⟨_, _, _, _, rfl⟩ := zipOpt_cons_some.mp ho
            simp [mem] at hm
        | cons i0 it =>
          simp only [addIdx, zipSub, mem, Bool.and_eq_true, decide_eq_true_eq]
          rw [hiff0 i0, hiff it]
          constructor
          · rintro ⟨⟨c0, o, s, h1, h2, ho, hs, h3, h4⟩, ct, ot, st, hct, hot, hst, hmt⟩
            refine ⟨c0 :: ct, o :: ot, s :: st, ?_, zipOpt_cons_eq ho hot, zipOpt_cons_eq hs hst, ?_⟩
            · simp [mem, h1, h2, hct]
            · simp [mem, h3, h4, hmt]
          · rintro ⟨c, o, s, hc, ho, hs, hm⟩
            cases c with
            | nil => simp [mem] at hc
            | cons c0 ct =>
              obtain ⟨o', ot, ho', hot, rfl⟩ := zipOpt_cons_some.mp ho
              obtain ⟨s', st, hs', hst, rfl⟩ := zipOpt_cons_some.mp hs
              simp only [mem, Bool.and_eq_true, decide_eq_true_eq] at hc hm
              exact ⟨⟨c0, o', s', hc.1.1, hc.1.2, ho', hs', hm.1.1, hm.1.2⟩,
                ct, ot, st, hc.2, hot, hst, hm.2⟩

end Zarrs
