import ZarrsModel.Model.Interleave
import ZarrsModel.Props.C08
import ZarrsModel.Props.C09
/- helper lemmas for C16 (store level): extensionality of sorted stores, frame and locality of key-addressed
operations, commutation of key-disjoint operations, and the schedule induction for merges. -/
namespace Zarrs

/-! ### extensionality of sorted stores -/

namespace KV

theorem get_put (m : KV) (k k' : Key) (v : Bytes) :
    (m.put k v).get k' = if k' = k then some v else m.get k' := by
  by_cases h : k' = k
  · subst h; rw [if_pos rfl]; exact get_put_same m k' v
  · rw [if_neg h]; exact get_put_other m k k' v h

/-- two sorted stores with the same `get` for every key are equal -/
theorem ext_of_sorted : ∀ (m1 m2 : KV), m1.sorted → m2.sorted → (∀ k, m1.get k = m2.get k) → m1 = m2
  | [], [], _, _, _ => rfl
  | [], (k2, v2) :: r2, _, _, h => by
    have := h k2
    rw [get_nil, get_cons, if_pos rfl] at this
    cases this
  | (k1, v1) :: r1, [], _, _, h => by
    have := h k1
    rw [get_nil, get_cons, if_pos rfl] at this
    cases this
  | (k1, v1) :: r1, (k2, v2) :: r2, h1, h2, h => by
    rw [sorted_cons] at h1 h2
    have hk : k1 = k2 := by
      apply Classical.byContradiction
      intro hne
      have e1 := h k1
      rw [get_cons, if_pos rfl, get_cons, if_neg (fun e => hne e.symm)] at e1
      have e2 := h k2
      rw [get_cons, if_neg hne, get_cons, if_pos rfl] at e2
      have m1 : k1 ∈ keys r2 := (mem_keys_iff_get r2 k1).2 (by rw [← e1]; simp)
      have m2 : k2 ∈ keys r1 := (mem_keys_iff_get r1 k2).2 (by rw [e2]; simp)
      have l1 := h2.1 k1 m1
      have l2 := h1.1 k2 m2
      have := keyLt_trans _ _ _ l1 l2
      rw [keyLt_irrefl] at this
      cases this
    subst hk
    have hv : v1 = v2 := by
      have e1 := h k1
      rw [get_cons, if_pos rfl, get_cons, if_pos rfl] at e1
      exact Option.some.inj e1
    subst hv
    have hr : r1 = r2 := by
      apply ext_of_sorted r1 r2 h1.2 h2.2
      intro k
      by_cases hk : k1 = k
      · subst hk
        have n1 : get r1 k1 = none := by
          apply Classical.byContradiction
          intro hn
          have := h1.1 k1 ((mem_keys_iff_get r1 k1).2 hn)
          rw [keyLt_irrefl] at this
          cases this
        have n2 : get r2 k1 = none := by
          apply Classical.byContradiction
          intro hn
          have := h2.1 k1 ((mem_keys_iff_get r2 k1).2 hn)
          rw [keyLt_irrefl] at this
          cases this
        rw [n1, n2]
      · have := h k
        rw [get_cons, if_neg hk, get_cons, if_neg hk] at this
        exact this
    rw [hr]

end KV

/-! ### agreement of two stores on a set of keys -/

/-- two stores agree on the keys satisfying `S` -/
def AgreeOn (S : Key → Prop) (m1 m2 : KV) : Prop := ∀ k, S k → m1.get k = m2.get k

theorem AgreeOn.refl (S : Key → Prop) (m : KV) : AgreeOn S m m := fun _ _ => rfl
theorem AgreeOn.symm {S : Key → Prop} {m1 m2 : KV} (h : AgreeOn S m1 m2) : AgreeOn S m2 m1 :=
  fun k hk => (h k hk).symm
theorem AgreeOn.trans {S : Key → Prop} {m1 m2 m3 : KV} (h : AgreeOn S m1 m2) (h' : AgreeOn S m2 m3) :
    AgreeOn S m1 m3 := fun k hk => (h k hk).trans (h' k hk)

theorem foldl_erase_get (ks : List Key) (m : KV) (k : Key) :
    (ks.foldl KV.erase m).get k = if k ∈ ks then none else m.get k := by
  induction ks generalizing m with
  | nil => simp
  | cons k0 ks ih =>
    rw [List.foldl_cons, ih, KV.get_erase]
    by_cases h1 : k ∈ ks
    · simp [h1]
    · by_cases h2 : k = k0
      · simp [h2]
      · simp [h1, h2]

theorem foldl_setPartial_frame (kovs : List (Key × Nat × Bytes)) (m : KV) (k : Key)
    (hk : k ∉ kovs.map (·.1)) :
    (kovs.foldl (fun m (x : Key × Nat × Bytes) =>
      m.put x.1 (specSetPartial ((m.get x.1).getD []) x.2.1 x.2.2)) m).get k = m.get k := by
  induction kovs generalizing m with
  | nil => rfl
  | cons x xs ih =>
    rw [List.map_cons, List.mem_cons, not_or] at hk
    rw [List.foldl_cons, ih _ hk.2, KV.get_put_other _ _ _ _ hk.1]

theorem foldl_setPartial_agree (S : Key → Prop) (kovs : List (Key × Nat × Bytes)) (m1 m2 : KV)
    (hS : ∀ k ∈ kovs.map (·.1), S k) (h : AgreeOn S m1 m2) :
    AgreeOn S
      (kovs.foldl (fun m (x : Key × Nat × Bytes) =>
        m.put x.1 (specSetPartial ((m.get x.1).getD []) x.2.1 x.2.2)) m1)
      (kovs.foldl (fun m (x : Key × Nat × Bytes) =>
        m.put x.1 (specSetPartial ((m.get x.1).getD []) x.2.1 x.2.2)) m2) := by
  induction kovs generalizing m1 m2 with
  | nil => exact h
  | cons x xs ih =>
    rw [List.foldl_cons, List.foldl_cons]
    apply ih
    · intro k hk; exact hS k (by rw [List.map_cons]; exact List.mem_cons_of_mem _ hk)
    · intro k hk
      have hx : S x.1 := hS x.1 (by rw [List.map_cons]; exact List.mem_cons_self)
      rw [KV.get_put, KV.get_put, h x.1 hx, h k hk]

/-! ### frame and locality of key-addressed operations -/

/-- frame: a key-addressed operation leaves every other key alone -/
theorem Spec.step_frame (m : KV) (op : StoreOp) (ks : List Key) (hop : op.keys = some ks) (k : Key)
    (hk : k ∉ ks) : (Spec.step m op).1.get k = m.get k := by
  cases op with
  | set k0 v =>
    simp only [StoreOp.keys, Option.some.injEq] at hop; subst hop
    exact KV.get_put_other m k0 k v (by simpa using hk)
  | setPartial kovs =>
    simp only [StoreOp.keys, Option.some.injEq] at hop; subst hop
    exact foldl_setPartial_frame kovs m k hk
  | erase k0 =>
    simp only [StoreOp.keys, Option.some.injEq] at hop; subst hop
    show (m.erase k0).get k = _
    rw [KV.get_erase, if_neg (by simpa using hk)]
  | eraseValues ks0 =>
    simp only [StoreOp.keys, Option.some.injEq] at hop; subst hop
    show (ks0.foldl KV.erase m).get k = _
    rw [foldl_erase_get, if_neg hk]
  | get _ => rfl
  | getPartial _ _ => rfl
  | sizeKey _ => rfl
  | erasePrefix _ => simp [StoreOp.keys] at hop
  | sizePrefix _ => simp [StoreOp.keys] at hop
  | list => simp [StoreOp.keys] at hop
  | listPrefix _ => simp [StoreOp.keys] at hop
  | listDir _ => simp [StoreOp.keys] at hop

/-- locality: the result of a key-addressed operation, and what it leaves at the keys in `S`, depend only on the
store's contents at the keys in `S ⊇ keys op` -/
theorem Spec.step_local (S : Key → Prop) (m1 m2 : KV) (op : StoreOp) (ks : List Key) (hop : op.keys = some ks)
    (hS : ∀ k ∈ ks, S k) (h : AgreeOn S m1 m2) :
    (Spec.step m1 op).2 = (Spec.step m2 op).2 ∧ AgreeOn S (Spec.step m1 op).1 (Spec.step m2 op).1 := by
  cases op with
  | set k0 v =>
    refine ⟨rfl, ?_⟩
    intro k hk
    show (m1.put k0 v).get k = (m2.put k0 v).get k
    rw [KV.get_put, KV.get_put, h k hk]
  | setPartial kovs =>
    simp only [StoreOp.keys, Option.some.injEq] at hop; subst hop
    exact ⟨rfl, foldl_setPartial_agree S kovs m1 m2 hS h⟩
  | erase k0 =>
    refine ⟨rfl, ?_⟩
    intro k hk
    show (m1.erase k0).get k = (m2.erase k0).get k
    rw [KV.get_erase, KV.get_erase, h k hk]
  | eraseValues ks0 =>
    refine ⟨rfl, ?_⟩
    intro k hk
    show (ks0.foldl KV.erase m1).get k = (ks0.foldl KV.erase m2).get k
    rw [foldl_erase_get, foldl_erase_get, h k hk]
  | get k0 =>
    simp only [StoreOp.keys, Option.some.injEq] at hop; subst hop
    have := h k0 (hS k0 (by simp))
    exact ⟨by show StoreRes.bytes _ = StoreRes.bytes _; rw [this], h⟩
  | getPartial k0 rs =>
    simp only [StoreOp.keys, Option.some.injEq] at hop; subst hop
    have := h k0 (hS k0 (by simp))
    refine ⟨?_, h⟩
    simp only [Spec.step]
    rw [this]
  | sizeKey k0 =>
    simp only [StoreOp.keys, Option.some.injEq] at hop; subst hop
    have := h k0 (hS k0 (by simp))
    exact ⟨by show StoreRes.size _ = StoreRes.size _; rw [this], h⟩
  | erasePrefix _ => simp [StoreOp.keys] at hop
  | sizePrefix _ => simp [StoreOp.keys] at hop
  | list => simp [StoreOp.keys] at hop
  | listPrefix _ => simp [StoreOp.keys] at hop
  | listDir _ => simp [StoreOp.keys] at hop

/-! ### disjointness as propositions -/

theorem disjointKeys_iff (a b : List Key) : disjointKeys a b = true ↔ ∀ k, k ∈ a → k ∉ b := by
  simp [disjointKeys, List.all_eq_true]

theorem disjointKeys_symm (a b : List Key) (h : disjointKeys a b = true) : disjointKeys b a = true := by
  rw [disjointKeys_iff] at h ⊢
  intro k hb ha
  exact h k ha hb

/-- operations on different keys commute in state (needs sortedness only for extensionality) and do not affect each
other's result -/
theorem Spec.step_commute (m : KV) (hs : m.sorted) (a b : StoreOp) (ka kb : List Key)
    (ha : a.keys = some ka) (hb : b.keys = some kb) (hd : ∀ k, k ∈ ka → k ∉ kb) :
    (Spec.step (Spec.step m a).1 b).1 = (Spec.step (Spec.step m b).1 a).1 ∧
    (Spec.step (Spec.step m a).1 b).2 = (Spec.step m b).2 ∧
    (Spec.step (Spec.step m b).1 a).2 = (Spec.step m a).2 := by
  have hd' : ∀ k, k ∈ kb → k ∉ ka := fun k hb' ha' => hd k ha' hb'
  -- `a` does not disturb the keys of `b` and vice versa
  have agA : AgreeOn (· ∈ kb) (Spec.step m a).1 m := fun k hk => Spec.step_frame m a ka ha k (hd' k hk)
  have agB : AgreeOn (· ∈ ka) (Spec.step m b).1 m := fun k hk => Spec.step_frame m b kb hb k (hd k hk)
  have locB := Spec.step_local (· ∈ kb) (Spec.step m a).1 m b kb hb (fun _ h => h) agA
  have locA := Spec.step_local (· ∈ ka) (Spec.step m b).1 m a ka ha (fun _ h => h) agB
  refine ⟨?_, locB.1, locA.1⟩
  apply KV.ext_of_sorted
  · exact Spec.step_sorted _ (Spec.step_sorted _ hs a) b
  · exact Spec.step_sorted _ (Spec.step_sorted _ hs b) a
  intro k
  by_cases h1 : k ∈ ka
  · rw [Spec.step_frame _ b kb hb k (hd k h1), locA.2 k h1]
  · by_cases h2 : k ∈ kb
    · rw [locB.2 k h2, Spec.step_frame _ a ka ha k h1]
    · rw [Spec.step_frame _ b kb hb k h2, Spec.step_frame _ a ka ha k h1,
        Spec.step_frame _ a ka ha k h1, Spec.step_frame _ b kb hb k h2]

/-! ### `runOps` -/

theorem runOps_nil (m : KV) : runOps m [] = (m, []) := rfl

theorem runOps_cons (m : KV) (op : StoreOp) (rest : List StoreOp) :
    runOps m (op :: rest) =
      ((runOps (Spec.step m op).1 rest).1, (Spec.step m op).2 :: (runOps (Spec.step m op).1 rest).2) := rfl

theorem runOps_append_fst (m : KV) (a b : List StoreOp) :
    (runOps m (a ++ b)).1 = (runOps (runOps m a).1 b).1 := by
  induction a generalizing m with
  | nil => rfl
  | cons op a ih => rw [List.cons_append, runOps_cons, runOps_cons]; exact ih _

theorem runOps_sorted (m : KV) (hs : m.sorted) (t : List StoreOp) : (runOps m t).1.sorted := by
  induction t generalizing m with
  | nil => exact hs
  | cons op t ih => rw [runOps_cons]; exact ih _ (Spec.step_sorted m hs op)

/-! ### tasks -/

theorem Task.keyAddressed_cons (op : StoreOp) (t : Task) :
    Task.keyAddressed (op :: t) = true ↔ (∃ ks, op.keys = some ks) ∧ Task.keyAddressed t = true := by
  simp only [Task.keyAddressed, List.all_cons, Bool.and_eq_true]
  constructor
  · rintro ⟨h1, h2⟩
    exact ⟨Option.isSome_iff_exists.1 h1, h2⟩
  · rintro ⟨⟨ks, h1⟩, h2⟩
    exact ⟨by rw [h1]; rfl, h2⟩

theorem Task.keys_cons (op : StoreOp) (t : Task) :
    Task.keys (op :: t) = (op.keys).getD [] ++ Task.keys t := by
  simp [Task.keys]

theorem Task.keys_nil : Task.keys [] = [] := rfl

theorem Task.keys_append (t u : Task) : Task.keys (t ++ u) = Task.keys t ++ Task.keys u := by
  simp [Task.keys]

theorem Task.keyAddressed_append (t u : Task) :
    Task.keyAddressed (t ++ u) = true ↔ Task.keyAddressed t = true ∧ Task.keyAddressed u = true := by
  simp [Task.keyAddressed]

theorem Task.keys_flatten (ts : List Task) (k : Key) :
    k ∈ Task.keys ts.flatten ↔ ∃ t ∈ ts, k ∈ Task.keys t := by
  induction ts with
  | nil => simp [Task.keys]
  | cons t ts ih => rw [List.flatten_cons, Task.keys_append, List.mem_append, ih]; simp

theorem Task.keyAddressed_flatten (ts : List Task) (h : ∀ t ∈ ts, Task.keyAddressed t = true) :
    Task.keyAddressed ts.flatten = true := by
  induction ts with
  | nil => rfl
  | cons t ts ih =>
    rw [List.flatten_cons, Task.keyAddressed_append]
    exact ⟨h t List.mem_cons_self, ih (fun u hu => h u (List.mem_cons_of_mem _ hu))⟩

/-- frame for a whole task -/
theorem runOps_frame (m : KV) (t : Task) (ht : t.keyAddressed = true) (k : Key) (hk : k ∉ t.keys) :
    (runOps m t).1.get k = m.get k := by
  induction t generalizing m with
  | nil => rfl
  | cons op t ih =>
    rw [Task.keyAddressed_cons] at ht
    obtain ⟨⟨ks, hks⟩, ht'⟩ := ht
    rw [Task.keys_cons, hks, List.mem_append, not_or] at hk
    rw [runOps_cons]
    show (runOps (Spec.step m op).1 t).1.get k = _
    rw [ih _ ht' hk.2, Spec.step_frame m op ks hks k hk.1]

/-- locality for a whole task: its results, and what it leaves at the keys in `S`, depend only on the store's
contents at the keys in `S ⊇ keys t` -/
theorem runOps_local (S : Key → Prop) (m1 m2 : KV) (t : Task) (ht : t.keyAddressed = true)
    (hS : ∀ k ∈ t.keys, S k) (h : AgreeOn S m1 m2) :
    (runOps m1 t).2 = (runOps m2 t).2 ∧ AgreeOn S (runOps m1 t).1 (runOps m2 t).1 := by
  induction t generalizing m1 m2 with
  | nil => exact ⟨rfl, h⟩
  | cons op t ih =>
    rw [Task.keyAddressed_cons] at ht
    obtain ⟨⟨ks, hks⟩, ht'⟩ := ht
    have hS1 : ∀ k ∈ ks, S k := fun k hk => hS k (by rw [Task.keys_cons, hks]; exact List.mem_append_left _ hk)
    have hS2 : ∀ k ∈ Task.keys t, S k := fun k hk => hS k (by rw [Task.keys_cons]; exact List.mem_append_right _ hk)
    have l := Spec.step_local S m1 m2 op ks hks hS1 h
    have r := ih (Spec.step m1 op).1 (Spec.step m2 op).1 ht' hS2 l.2
    rw [runOps_cons, runOps_cons]
    exact ⟨by show _ :: _ = _ :: _; rw [l.1, r.1], r.2⟩

/-- an operation key-disjoint from a task can be moved in front of it (state) -/
theorem runOps_swap (m : KV) (hs : m.sorted) (op : StoreOp) (ks : List Key) (hop : op.keys = some ks)
    (A : Task) (hA : A.keyAddressed = true) (hd : ∀ k, k ∈ ks → k ∉ A.keys) :
    (runOps m (A ++ [op])).1 = (runOps m (op :: A)).1 := by
  induction A generalizing m with
  | nil => rfl
  | cons a A ih =>
    rw [Task.keyAddressed_cons] at hA
    obtain ⟨⟨ka, hka⟩, hA'⟩ := hA
    have hd1 : ∀ k, k ∈ ks → k ∉ ka := fun k hk hka' =>
      hd k hk (by rw [Task.keys_cons, hka]; exact List.mem_append_left _ hka')
    have hd2 : ∀ k, k ∈ ks → k ∉ Task.keys A := fun k hk hA'' =>
      hd k hk (by rw [Task.keys_cons]; exact List.mem_append_right _ hA'')
    rw [List.cons_append, runOps_cons]
    show (runOps (Spec.step m a).1 (A ++ [op])).1 = _
    rw [ih _ (Spec.step_sorted m hs a) hA' hd2, runOps_cons, runOps_cons, runOps_cons]
    show (runOps (Spec.step (Spec.step m a).1 op).1 A).1 = (runOps (Spec.step (Spec.step m op).1 a).1 A).1
    rw [(Spec.step_commute m hs op a ks ka hop hka hd1).1]

theorem runOps_swap_mid (m : KV) (hs : m.sorted) (op : StoreOp) (ks : List Key) (hop : op.keys = some ks)
    (A : Task) (hA : A.keyAddressed = true) (hd : ∀ k, k ∈ ks → k ∉ A.keys) (R : List StoreOp) :
    (runOps m (A ++ op :: R)).1 = (runOps m (op :: (A ++ R))).1 := by
  have e1 : A ++ op :: R = (A ++ [op]) ++ R := by simp
  rw [e1, runOps_append_fst, runOps_swap m hs op ks hop A hA hd, ← runOps_append_fst]
  rfl

/-- whole tasks commute -/
theorem runOps_task_comm (m : KV) (hs : m.sorted) (t u : Task) (ht : t.keyAddressed = true)
    (hu : u.keyAddressed = true) (hd : ∀ k, k ∈ t.keys → k ∉ u.keys) :
    (runOps m (t ++ u)).1 = (runOps m (u ++ t)).1 := by
  induction t generalizing m with
  | nil => simp
  | cons a t ih =>
    rw [Task.keyAddressed_cons] at ht
    obtain ⟨⟨ka, hka⟩, ht'⟩ := ht
    have hd1 : ∀ k, k ∈ ka → k ∉ Task.keys u := fun k hk =>
      hd k (by rw [Task.keys_cons, hka]; exact List.mem_append_left _ hk)
    have hd2 : ∀ k, k ∈ Task.keys t → k ∉ Task.keys u := fun k hk =>
      hd k (by rw [Task.keys_cons]; exact List.mem_append_right _ hk)
    rw [runOps_swap_mid m hs a ka hka u hu hd1 t, List.cons_append, runOps_cons, runOps_cons]
    exact ih _ (Spec.step_sorted m hs a) ht' hd2

/-! ### pairwise-disjoint task lists, in index form -/

/-- index form of `pairwiseDisjoint`: tasks at different positions share no key -/
def PD (ts : List Task) : Prop :=
  ∀ i j, i ≠ j → ∀ k, k ∈ Task.keys (ts.getD i []) → k ∉ Task.keys (ts.getD j [])

theorem PD_of_pairwiseDisjoint (ts : List Task) (h : pairwiseDisjoint ts = true) : PD ts := by
  induction ts with
  | nil => intro i j _ k hk; simp [Task.keys] at hk
  | cons t ts ih =>
    simp only [pairwiseDisjoint, Bool.and_eq_true, List.all_eq_true] at h
    obtain ⟨h1, h2⟩ := h
    have ih' := ih h2
    intro i j hij k hi hj
    cases i with
    | zero =>
      cases j with
      | zero => exact hij rfl
      | succ j =>
        simp only [List.getD_cons_zero] at hi
        simp only [List.getD_cons_succ] at hj
        by_cases hjl : j < ts.length
        · have hmem : ts.getD j [] ∈ ts := by
            rw [List.getD_eq_getElem?_getD, List.getElem?_eq_getElem hjl]; simp
          exact (disjointKeys_iff _ _).1 (h1 _ hmem) k hi hj
        · rw [List.getD_eq_getElem?_getD, List.getElem?_eq_none (by omega)] at hj
          simp [Task.keys] at hj
    | succ i =>
      cases j with
      | zero =>
        simp only [List.getD_cons_zero] at hj
        simp only [List.getD_cons_succ] at hi
        by_cases hil : i < ts.length
        · have hmem : ts.getD i [] ∈ ts := by
            rw [List.getD_eq_getElem?_getD, List.getElem?_eq_getElem hil]; simp
          exact (disjointKeys_iff _ _).1 (h1 _ hmem) k hj hi
        · rw [List.getD_eq_getElem?_getD, List.getElem?_eq_none (by omega)] at hi
          simp [Task.keys] at hi
      | succ j =>
        simp only [List.getD_cons_succ] at hi hj
        exact ih' i j (fun e => hij (by rw [e])) k hi hj

theorem getD_set (ts : List Task) (i j : Nat) (u : Task) :
    (ts.set i u).getD j [] = if i = j ∧ i < ts.length then u else ts.getD j [] := by
  rw [List.getD_eq_getElem?_getD, List.getD_eq_getElem?_getD, List.getElem?_set]
  by_cases h : i = j
  · subst h
    by_cases h2 : i < ts.length
    · simp [h2]
    · simp [h2]
  · simp [h]

/-- shrinking one task keeps the list pairwise disjoint -/
theorem PD_set (ts : List Task) (h : PD ts) (i : Nat) (u : Task)
    (hu : ∀ k, k ∈ Task.keys u → k ∈ Task.keys (ts.getD i [])) : PD (ts.set i u) := by
  intro a b hab k ha hb
  rw [getD_set] at ha hb
  by_cases h1 : i = a ∧ i < ts.length
  · rw [if_pos h1] at ha
    have h2 : ¬ (i = b ∧ i < ts.length) := fun h2 => hab (h1.1.symm.trans h2.1)
    rw [if_neg h2] at hb
    exact h i b (fun e => hab (h1.1 ▸ e)) k (hu k ha) hb
  · rw [if_neg h1] at ha
    by_cases h2 : i = b ∧ i < ts.length
    · rw [if_pos h2] at hb
      exact h a i (fun e => hab (e.trans h2.1)) k ha (hu k hb)
    · rw [if_neg h2] at hb
      exact h a b hab k ha hb

/-! ### merges -/

/-- `isMergeOf` as a proposition -/
theorem isMergeOf_iff (ts : List Task) (sched : List Nat) :
    isMergeOf ts sched = true ↔
      (∀ j, j < ts.length → (sched.filter (· == j)).length = (ts.getD j []).length) ∧
      ∀ i ∈ sched, i < ts.length := by
  simp [isMergeOf, List.all_eq_true]

theorem runMerge_nil (m : KV) (ts : List Task) : runMerge m ts [] = (m, []) := rfl

theorem runMerge_cons_some (m : KV) (ts : List Task) (i : Nat) (rest : List Nat) (op : StoreOp) (more : Task)
    (h : ts[i]? = some (op :: more)) :
    runMerge m ts (i :: rest) =
      ((runMerge (Spec.step m op).1 (ts.set i more) rest).1,
       (i, (Spec.step m op).2) :: (runMerge (Spec.step m op).1 (ts.set i more) rest).2) := by
  rw [runMerge]
  simp only [h]

theorem resultsOf_cons (j i : Nat) (r : StoreRes) (rs : List (Nat × StoreRes)) :
    resultsOf j ((i, r) :: rs) = if i = j then r :: resultsOf j rs else resultsOf j rs := by
  unfold resultsOf
  by_cases h : i = j
  · simp [h]
  · simp [h]

/-- popping the head of task `i` out of the flattened task list (state) -/
theorem runOps_flatten_pop (m : KV) (hs : m.sorted) (ts : List Task) (hk : ∀ t ∈ ts, Task.keyAddressed t = true)
    (i : Nat) (op : StoreOp) (more : Task) (ks : List Key) (hop : op.keys = some ks)
    (hi : ts[i]? = some (op :: more))
    (hd : ∀ j, j < i → ∀ k, k ∈ ks → k ∉ Task.keys (ts.getD j [])) :
    (runOps m ts.flatten).1 = (runOps m (op :: (ts.set i more).flatten)).1 := by
  induction ts generalizing m i with
  | nil => simp at hi
  | cons t ts ih =>
    cases i with
    | zero =>
      simp only [List.getElem?_cons_zero, Option.some.injEq] at hi
      subst hi
      simp
    | succ i =>
      simp only [List.getElem?_cons_succ] at hi
      have ht : Task.keyAddressed t = true := hk t List.mem_cons_self
      have hd0 : ∀ k, k ∈ ks → k ∉ Task.keys t := fun k hk' => by
        have := hd 0 (Nat.succ_pos i) k hk'
        simpa using this
      rw [List.set_cons_succ, List.flatten_cons, List.flatten_cons, runOps_append_fst,
        ih (runOps m t).1 (runOps_sorted m hs t) (fun u hu => hk u (List.mem_cons_of_mem _ hu)) i hi
          (fun j hj k hk' => by
            have := hd (j + 1) (Nat.succ_lt_succ hj) k hk'
            simpa using this),
        ← runOps_append_fst, runOps_swap_mid m hs op ks hop t ht hd0]

/-- **schedule induction**: every merge of pairwise key-disjoint, key-addressed tasks ends in the state of the
sequential run, and each task obtains the results of its solo run -/
theorem runMerge_eq (sched : List Nat) : ∀ (m : KV) (ts : List Task), m.sorted →
    (∀ t ∈ ts, Task.keyAddressed t = true) → PD ts → isMergeOf ts sched = true →
    (runMerge m ts sched).1 = (runOps m ts.flatten).1 ∧
    ∀ i, i < ts.length → resultsOf i (runMerge m ts sched).2 = (runOps m (ts.getD i [])).2 := by
  induction sched with
  | nil =>
    intro m ts _ _ _ hm
    rw [isMergeOf_iff] at hm
    have hall : ∀ t ∈ ts, t = [] := by
      intro t ht
      obtain ⟨j, hj, rfl⟩ := List.getElem_of_mem ht
      have := hm.1 j hj
      rw [List.getD_eq_getElem?_getD, List.getElem?_eq_getElem hj] at this
      simp at this
      exact List.eq_nil_of_length_eq_zero this.symm
    have hfl : ts.flatten = [] := by
      rw [List.flatten_eq_nil_iff]; exact hall
    refine ⟨by rw [hfl]; rfl, ?_⟩
    intro i hi
    have : ts.getD i [] = [] := by
      rw [List.getD_eq_getElem?_getD, List.getElem?_eq_getElem hi]
      exact hall _ (List.getElem_mem hi)
    rw [this]; rfl
  | cons i rest ih =>
    intro m ts hs hk hpd hm
    rw [isMergeOf_iff] at hm
    obtain ⟨hcnt, hlt⟩ := hm
    have hil : i < ts.length := hlt i List.mem_cons_self
    -- task `i` is non-empty
    have hlen := hcnt i hil
    rw [List.filter_cons_of_pos (by simp), List.length_cons] at hlen
    have hgetD : ts.getD i [] = ts[i] := by
      rw [List.getD_eq_getElem?_getD, List.getElem?_eq_getElem hil]; rfl
    obtain ⟨op, more, hti⟩ : ∃ op more, ts[i] = op :: more := by
      cases hc : ts[i] with
      | nil => rw [hgetD, hc] at hlen; simp at hlen
      | cons op more => exact ⟨op, more, rfl⟩
    have hi? : ts[i]? = some (op :: more) := by rw [List.getElem?_eq_getElem hil, hti]
    have hmem : op :: more ∈ ts := by rw [← hti]; exact List.getElem_mem hil
    have hka := hk _ hmem
    rw [Task.keyAddressed_cons] at hka
    obtain ⟨⟨ks, hks⟩, hmore⟩ := hka
    have hkeys_i : Task.keys (ts.getD i []) = ks ++ Task.keys more := by
      rw [hgetD, hti, Task.keys_cons, hks]; rfl
    -- the remaining tasks
    have hk' : ∀ t ∈ ts.set i more, Task.keyAddressed t = true := by
      intro t ht
      rcases List.mem_or_eq_of_mem_set ht with h | h
      · exact hk t h
      · rw [h]; exact hmore
    have hpd' : PD (ts.set i more) :=
      PD_set ts hpd i more (fun k hk'' => by rw [hkeys_i]; exact List.mem_append_right _ hk'')
    have hm' : isMergeOf (ts.set i more) rest = true := by
      rw [isMergeOf_iff, List.length_set]
      refine ⟨?_, fun j hj => hlt j (List.mem_cons_of_mem _ hj)⟩
      intro j hj
      have := hcnt j hj
      rw [getD_set]
      by_cases hij : i = j
      · subst hij
        rw [if_pos ⟨rfl, hil⟩]
        rw [List.filter_cons_of_pos (by simp), List.length_cons, hgetD, hti, List.length_cons] at this
        omega
      · rw [if_neg (fun h => hij h.1)]
        rw [List.filter_cons_of_neg (by simpa using hij)] at this
        exact this
    have hs1 := Spec.step_sorted m hs op
    obtain ⟨ihS, ihR⟩ := ih (Spec.step m op).1 (ts.set i more) hs1 hk' hpd' hm'
    rw [runMerge_cons_some m ts i rest op more hi?]
    refine ⟨?_, ?_⟩
    · show (runMerge (Spec.step m op).1 (ts.set i more) rest).1 = _
      rw [ihS, runOps_flatten_pop m hs ts hk i op more ks hks hi?
        (fun j hj k hk'' => hpd i j (by omega) k (by rw [hkeys_i]; exact List.mem_append_left _ hk'')),
        runOps_cons]
    · intro j hj
      show resultsOf j ((i, (Spec.step m op).2) :: (runMerge (Spec.step m op).1 (ts.set i more) rest).2) = _
      have ihj := ihR j (by rw [List.length_set]; exact hj)
      rw [resultsOf_cons, ihj, getD_set]
      by_cases hij : i = j
      · subst hij
        rw [if_pos rfl, if_pos ⟨rfl, hil⟩, hgetD, hti, runOps_cons]
      · rw [if_neg hij, if_neg (fun h => hij h.1)]
        -- `op` does not touch the keys of task `j`
        have ag : AgreeOn (· ∈ Task.keys (ts.getD j [])) (Spec.step m op).1 m := fun k hk'' =>
          Spec.step_frame m op ks hks k (fun hin =>
            hpd i j hij k (by rw [hkeys_i]; exact List.mem_append_left _ hin) hk'')
        have hkj : Task.keyAddressed (ts.getD j []) = true := by
          rw [List.getD_eq_getElem?_getD, List.getElem?_eq_getElem hj]
          exact hk _ (List.getElem_mem hj)
        exact (runOps_local _ _ _ _ hkj (fun _ h => h) ag).1

end Zarrs
