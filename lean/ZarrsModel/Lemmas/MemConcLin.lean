import ZarrsModel.Lemmas.MemConcHist
/- C18 helper lemmas, part 8: induction over the schedule of `history`; linearizability of the repaired protocol -/
namespace Zarrs.MemConc

theorem go_nil (ps : Progs) (s : State) (time : Nat) (invs : List (Option Nat)) (acc : List Done) :
    history.go .fixed ps s time invs acc [] = some (s, acc) := by
  simp only [history.go]

theorem go_cons (ps : Progs) (s : State) (time : Nat) (invs : List (Option Nat)) (acc : List Done) (t : Nat)
    (rest : List Nat) :
    history.go .fixed ps s time invs acc (t :: rest) =
      if !enabled .fixed ps s t then none else
      if (step .fixed ps s t).pc.getD t 0 != s.pc.getD t 0 then
        match curOp ps s t, ((step .fixed ps s t).out.getD t []).getLast? with
        | some op, some r => history.go .fixed ps (step .fixed ps s t) (time + 1) (invs.set t none)
            (acc ++ [⟨t, s.pc.getD t 0, op, r, (match invs.getD t none with | some i => i | none => time), time⟩]) rest
        | _, _ => none
      else history.go .fixed ps (step .fixed ps s t) (time + 1)
        (invs.set t (some (match invs.getD t none with | some i => i | none => time))) acc rest := by
  simp only [history.go]
  rfl

theorem go_inv (ps : Progs) (i0 : Option Bytes) : ∀ (sched : List Nat) (s : State) (time : Nat)
    (invs : List (Option Nat)) (acc : List Done) (lin : List LinE), (∀ t ∈ sched, t < ps.length) →
    LWF ps s → VWF ps (view s) → GInv ps i0 (view s) lin → HInv ps (view s) lin time invs acc →
    ∀ s' h, history.go .fixed ps s time invs acc sched = some (s', h) →
    ∃ lin' time' invs', LWF ps s' ∧ VWF ps (view s') ∧ GInv ps i0 (view s') lin' ∧
      HInv ps (view s') lin' time' invs' h
  | [], s, time, invs, acc, lin, _, hl, hv, g, hh, s', h, hgo => by
    rw [go_nil] at hgo
    cases hgo
    exact ⟨lin, time, invs, hl, hv, g, hh⟩
  | t :: rest, s, time, invs, acc, lin, hs, hl, hv, g, hh, s', h, hgo => by
    have ht : t < ps.length := hs t List.mem_cons_self
    have hs' : ∀ t ∈ rest, t < ps.length := fun t' ht' => hs t' (List.mem_cons_of_mem _ ht')
    rw [go_cons] at hgo
    cases hen : enabled .fixed ps s t with
    | false => simp [hen] at hgo
    | true =>
      simp only [hen, Bool.not_true, Bool.false_eq_true, if_false] at hgo
      obtain ⟨hl', hv', lin', r, hst, hout⟩ := step_view hl hv ht hen time lin
      obtain ⟨new, hnew, ns⟩ := hst.new_spec hv
      subst hnew
      have g' := ginv_step hv g hst rfl ns
      cases hr : r with
      | none =>
        obtain ⟨hpc, hidle, _⟩ := hst.pc_self.1 hr
        have hpc' : (step .fixed ps s t).pc.getD t 0 = s.pc.getD t 0 := hpc
        have hinv : invs.getD t none = none := hh.inv_idle t hidle
        simp only [hpc', bne_self_eq_false, Bool.false_eq_true, if_false, hinv] at hgo
        exact go_inv ps i0 rest _ _ _ _ _ hs' hl' hv' g' (hinv_step_none g hh ht hst ns hr) s' h hgo
      | some res =>
        obtain ⟨hpc, _⟩ := hst.pc_self.2 (by simp [hr])
        have hpc' : (step .fixed ps s t).pc.getD t 0 = s.pc.getD t 0 + 1 := hpc
        obtain ⟨op, hop⟩ := hst.op_self
        have hcop : curOp ps s t = some op := by rw [curOp_eq ps s hl.lpc]; exact hop
        have hbne : ((s.pc.getD t 0 + 1) != s.pc.getD t 0) = true := by simp
        simp only [hpc', hbne, if_true, hcop, hout res hr] at hgo
        exact go_inv ps i0 rest _ _ _ _ _ hs' hl' hv' g'
          (hinv_step_some g g' hh ht hst ns res hr op hop _ rfl) s' h hgo

theorem ginv_init (ps : Progs) (i0 : Option Bytes) : GInv ps i0 (view (init ps i0)) [] := by
  have hts : ∀ t, (view (init ps i0)).ts t = .idle := tsOf_init ps i0
  refine ⟨?_, ?_, ?_, ?_, ?_, ?_, List.Pairwise.nil⟩
  · cases i0 with
    | none => rfl
    | some b =>
      show some (some b) = some (some (logical ps (view (init ps (some b))) 0))
      rw [logical_free (wl_init ps (some b) 0)]
      rfl
  · intro e he; cases he
  · intro e he; cases he
  · intro e he; cases he
  · intro t c h; rw [hts] at h; cases h
  · intro t c h; rw [hts] at h; cases h

theorem hinv_init (ps : Progs) (i0 : Option Bytes) :
    HInv ps (view (init ps i0)) [] 0 (ps.map (fun _ => none)) [] := by
  have hts : ∀ t, (view (init ps i0)).ts t = .idle := tsOf_init ps i0
  refine ⟨List.Pairwise.nil, ?_, ?_, ?_, List.Pairwise.nil, by simp, ?_, ?_⟩
  · intro e he; cases he
  · intro d hd; cases hd
  · intro e he; cases he
  · intro t _
    simp only [List.getD_eq_getElem?_getD, List.getElem?_map]
    cases ps[t]? <;> rfl
  · intro t h; exact absurd (hts t) h

/-- the ghost linearization list of a complete execution of the repaired protocol -/
theorem history_ghost (ps : Progs) (i0 : Option Bytes) (sched : List Nat) (hs : ∀ t ∈ sched, t < ps.length)
    (s : State) (h : List Done) (hrun : history .fixed ps i0 sched = some (s, h))
    (hfin : allFinished ps s = true) :
    ∃ lin : List LinE, legalG i0 lin = some (finalValue s) ∧
      h.Pairwise (fun a b => ¬ (a.t = b.t ∧ a.k = b.k)) ∧
      lin.Pairwise (fun a b => ¬ (a.t = b.t ∧ a.k = b.k)) ∧
      lin.Pairwise (fun a b => a.lt ≤ b.lt) ∧
      (∀ d ∈ h, ∃ e ∈ lin, e.t = d.t ∧ e.k = d.k ∧ e.op = d.op ∧ e.res = d.res ∧ d.inv ≤ e.lt ∧ e.lt ≤ d.resp) ∧
      (∀ e ∈ lin, ∃ d ∈ h, d.t = e.t ∧ d.k = e.k) ∧
      (∀ e ∈ lin, opAt ps e.t e.k = some e.op) := by
  obtain ⟨lin, time, invs, hl, hv, g, hh⟩ := go_inv ps i0 sched _ _ _ _ _ hs (lwf_init ps i0) (vwf_init ps i0)
    (ginv_init ps i0) (hinv_init ps i0) s h hrun
  -- every thread has finished, hence is idle
  have hidle : ∀ t, (view s).ts t = .idle := by
    intro t
    cases hts : (view s).ts t with
    | idle => rfl
    | setGot c => exact absurd hts (hv.no_got t c)
    | setHold c =>
      exfalso
      have ht := hv.ts_lt t (by rw [hts]; simp)
      obtain ⟨op, hop, _⟩ := hv.hold_op t c hts
      have := List.all_eq_true.mp hfin t (List.mem_range.mpr ht)
      rw [curOp_eq ps s hl.lpc] at this
      change opAt ps t (pcOf s t) = some op at hop
      rw [hop] at this; cases this
    | getHold c =>
      exfalso
      have ht := hv.ts_lt t (by rw [hts]; simp)
      obtain ⟨_, op, hop, _⟩ := hv.get_op t c hts
      have := List.all_eq_true.mp hfin t (List.mem_range.mpr ht)
      rw [curOp_eq ps s hl.lpc] at this
      change opAt ps t (pcOf s t) = some op at hop
      rw [hop] at this; cases this
  have hfree : ∀ c, (view s).wl c = none := by
    intro c
    cases hw : (view s).wl c with
    | none => rfl
    | some t => have := (hv.lock_iff t c).mp hw; rw [hidle] at this; cases this
  have hfinal : (view s).cur.map (logical ps (view s)) = finalValue s := by
    show s.cur.map _ = s.cur.map _
    cases s.cur with
    | none => rfl
    | some c => simp only [Option.map_some, logical_free (hfree c)]; rfl
  have hdone : ∀ e ∈ lin, e.k < (view s).pc e.t := by
    intro e he
    rcases Nat.lt_or_ge e.k ((view s).pc e.t) with h1 | h1
    · exact h1
    · exfalso
      have := g.pend e he (Nat.le_antisymm (g.k_le e he) h1)
      rw [PendOK, hidle] at this
      rcases this with ⟨_, h, _⟩ | ⟨_, h, _⟩ <;> cases h
  exact ⟨lin, by rw [g.legal, hfinal], hh.acc_nodup, g.nodup, hh.sorted, fun d hd => (hh.acc_lin d hd).2,
    fun e he => hh.lin_acc e he (hdone e he), g.op_ok⟩

/-- **Linearizability of the repaired `MemoryStore` protocol.** -/
theorem linearizable_fixed (ps : Progs) (i0 : Option Bytes) (sched : List Nat) (hs : ∀ t ∈ sched, t < ps.length)
    (s : State) (h : List Done) (hrun : history .fixed ps i0 sched = some (s, h))
    (hfin : allFinished ps s = true) :
    ∃ order, isLinearization i0 h order (finalValue s) = true := by
  obtain ⟨lin, h1, h2, h3, h4, h5, h6, _⟩ := history_ghost ps i0 sched hs s h hrun hfin
  exact assemble i0 (finalValue s) h lin h2 h3 h4 h5 h6 h1

theorem opAt_mem {ps : Progs} {t k : Nat} {op : Op} (h : opAt ps t k = some op) : ∃ p ∈ ps, op ∈ p := by
  unfold opAt at h
  cases hp : ps[t]? with
  | none => simp [hp] at h
  | some p =>
    simp only [hp, Option.bind_some] at h
    exact ⟨p, List.mem_of_getElem? hp, List.mem_of_getElem? h⟩

/-- in a legal register run of whole-value operations, a `get` returns the initial value or a value that was `set` -/
theorem legalG_get_written : ∀ (l : List LinE) (a0 af : Option Bytes), legalG a0 l = some af →
    (∀ e ∈ l, ∀ o v, e.op ≠ .setPartial o v) → ∀ e ∈ l, ∀ b, e.op = .get → e.res = .bytes (some b) →
    (some b = a0 ∨ ∃ e' ∈ l, e'.op = .set b)
  | [], _, _, _, _, e, he, _, _, _ => by cases he
  | e0 :: es, a0, af, hleg, hnp, e, he, b, hop, hres => by
    simp only [legalG] at hleg
    split at hleg
    · rename_i hr0
      rcases List.mem_cons.mp he with rfl | he'
      · left
        rw [hop] at hr0
        simp only [specStep] at hr0
        rw [hres] at hr0
        cases hr0; rfl
      · rcases legalG_get_written es _ af hleg (fun e' he' => hnp e' (List.mem_cons_of_mem _ he')) e he' b hop hres
          with h | ⟨e', he', h⟩
        · have hnp0 := hnp e0 List.mem_cons_self
          cases hop0 : e0.op with
          | set v =>
            rw [hop0] at h; simp only [specStep] at h
            cases h
            exact Or.inr ⟨e0, List.mem_cons_self, hop0⟩
          | setPartial o v => exact absurd hop0 (hnp0 o v)
          | get => rw [hop0] at h; exact Or.inl h
          | getRange o n => rw [hop0] at h; exact Or.inl h
          | size => rw [hop0] at h; exact Or.inl h
          | erase => rw [hop0] at h; simp only [specStep] at h; cases h
        · exact Or.inr ⟨e', List.mem_cons_of_mem _ he', h⟩
    · cases hleg

theorem get_observes_written (ps : Progs) (i0 : Option Bytes) (sched : List Nat) (hs : ∀ t ∈ sched, t < ps.length)
    (hsets : ∀ p ∈ ps, ∀ op ∈ p, (∀ o v, op ≠ .setPartial o v))
    (s : State) (h : List Done) (hrun : history .fixed ps i0 sched = some (s, h)) (hfin : allFinished ps s = true) :
    ∀ d ∈ h, ∀ b, d.res = .bytes (some b) → d.op = .get →
      (some b = i0 ∨ ∃ p ∈ ps, Op.set b ∈ p) := by
  obtain ⟨lin, h1, _, _, _, h5, _, h7⟩ := history_ghost ps i0 sched hs s h hrun hfin
  intro d hd b hres hop
  obtain ⟨e, he, _, _, h8, h9, _⟩ := h5 d hd
  have hnp : ∀ e ∈ lin, ∀ o v, e.op ≠ .setPartial o v := by
    intro e he o v
    obtain ⟨p, hp, hm⟩ := opAt_mem (h7 e he)
    exact hsets p hp e.op hm o v
  rcases legalG_get_written lin i0 _ h1 hnp e he b (h8.trans hop) (h9.trans hres) with h | ⟨e', he', h⟩
  · exact Or.inl h
  · obtain ⟨p, hp, hm⟩ := opAt_mem (h7 e' he')
    exact Or.inr ⟨p, hp, h ▸ hm⟩

end Zarrs.MemConc
