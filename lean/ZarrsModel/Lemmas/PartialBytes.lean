import ZarrsModel.Model.Partial
/- helper lemmas for C02, part 1: the bytes-to-bytes partial decoders (`ByteRange` / `slice` arithmetic) -/
namespace Zarrs.Partial
open Zarrs Zarrs.Codec

/-! ### `mapM` in `Option` -/

theorem mapM_some_of_forall {α β} (g : α → Option β) (k : α → β) (l : List α) (h : ∀ a ∈ l, g a = some (k a)) :
    l.mapM g = some (l.map k) := by
  induction l with
  | nil => rfl
  | cons a l ih =>
    rw [List.mapM_cons, h a (by simp), ih (fun a' ha' => h a' (by simp [ha']))]
    rfl

theorem mapM_zip_map {α β γ} (f : α → β) (g : α × β → Option γ) (k : α → γ) (l : List α)
    (h : ∀ a ∈ l, g (a, f a) = some (k a)) : (l.zip (l.map f)).mapM g = some (l.map k) := by
  induction l with
  | nil => rfl
  | cons a l ih =>
    rw [List.map_cons, List.zip_cons_cons, List.mapM_cons, h a (by simp),
      ih (fun a' ha' => h a' (by simp [ha']))]
    rfl

/-! ### slices -/

theorem slice_full (b : Bytes) : slice b 0 b.length = b := by
  simp [slice]

theorem slice_to_end (b : Bytes) (o : Nat) : slice b o b.length = b.drop o := by
  unfold slice
  rw [List.take_of_length_le]
  simp

theorem slice_length_le (b : Bytes) (a e : Nat) (h : e ≤ b.length) : (slice b a e).length = e - a := by
  simp only [slice, List.length_take, List.length_drop]; omega

theorem slice_append_left (b t : Bytes) (a e : Nat) (h : e ≤ b.length) : slice (b ++ t) a e = slice b a e := by
  unfold slice
  by_cases ha : a ≤ b.length
  · rw [List.drop_append_of_le_length ha, List.take_append_of_le_length (by simp; omega)]
  · have h0 : e - a = 0 := by omega
    rw [h0]; simp

theorem slice_append_to_end (b t : Bytes) (o : Nat) (h : o ≤ b.length) :
    slice (b ++ t) o (b.length + t.length) = b.drop o ++ t := by
  unfold slice
  rw [List.drop_append_of_le_length h, List.take_of_length_le]
  simp; omega

theorem slice_slice (v : Bytes) (off len s e : Nat) (he : e ≤ len) :
    slice (slice v off (off + len)) s e = slice v (off + s) (off + e) := by
  unfold slice
  rw [List.drop_take, List.take_take, List.drop_drop]
  congr 1
  omega

/-! ### byte ranges -/

theorem valid_bounds (r : ByteRange) (n : Nat) (h : r.valid n = true) :
    r.start n + r.length n = r.stop n ∧ r.stop n ≤ n := by
  cases r with
  | fromStart o l =>
    cases l with
    | none => simp [ByteRange.valid, ByteRange.start, ByteRange.stop, ByteRange.length] at *; omega
    | some l => simp [ByteRange.valid, ByteRange.start, ByteRange.stop, ByteRange.length] at *; omega
  | suffix l => simp [ByteRange.valid, ByteRange.start, ByteRange.stop, ByteRange.length] at *; omega

theorem extractByteRanges_valid (b : Bytes) (rs : List ByteRange) (h : ∀ r ∈ rs, r.valid b.length = true) :
    extractByteRanges b rs = some (rs.map (·.extract b)) := by
  unfold extractByteRanges
  rw [if_pos (List.all_eq_true.2 h)]

theorem whole_valid (v : Bytes) : ∀ r ∈ [ByteRange.fromStart 0 none], r.valid v.length = true := by
  intro r hr
  simp only [List.mem_singleton] at hr
  subst hr
  simp [ByteRange.valid]

theorem whole_extract (v : Bytes) : [ByteRange.fromStart 0 none].map (·.extract v) = [v] := by
  simp [ByteRange.extract, ByteRange.start, ByteRange.stop, slice_full]

/-! ### the handles -/

theorem storeHandle_some_ok (v : Bytes) : BHandleOk (storeHandle (some v)) v := by
  intro rs h
  simp only [storeHandle, extractByteRanges_valid v rs h, Option.map_some]

theorem storeHandle_none_absent : BHandleAbsent (storeHandle none) := by
  intro rs
  rfl

/-- the inner range `StripSuffixPartialDecoder` asks for -/
def stripInner (n : Nat) (r : ByteRange) : ByteRange :=
  match r with
  | .suffix l => ByteRange.suffix (l + n)
  | r => r

def stripOne (n : Nat) : ByteRange × Bytes → Option Bytes := fun (r, b) =>
  match r with
  | .fromStart _ (some _) => some b
  | _ => if b.length < n then none else some (b.take (b.length - n))

theorem stripSuffixPD_eq (n : Nat) (h : BHandle) (rs : List ByteRange) :
    stripSuffixPD n h rs =
      match h (rs.map (stripInner n)) with
      | none => none
      | some none => some none
      | some (some parts) => ((rs.zip parts).mapM (stripOne n)).map some := rfl

theorem stripInner_valid (b t : Bytes) (r : ByteRange) (h : r.valid b.length = true) :
    (stripInner t.length r).valid (b ++ t).length = true := by
  cases r with
  | fromStart o l =>
    cases l with
    | none => simp [stripInner, ByteRange.valid] at *; omega
    | some l => simp [stripInner, ByteRange.valid] at *; omega
  | suffix l => simp [stripInner, ByteRange.valid] at *; omega

theorem stripOne_extract (b t : Bytes) (r : ByteRange) (h : r.valid b.length = true) :
    stripOne t.length (r, (stripInner t.length r).extract (b ++ t)) = some (r.extract b) := by
  cases r with
  | fromStart o l =>
    cases l with
    | none =>
      have ho : o ≤ b.length := by simpa [ByteRange.valid] using h
      simp only [stripOne, stripInner, ByteRange.extract, ByteRange.start, ByteRange.stop, List.length_append]
      rw [slice_append_to_end b t o ho, slice_to_end]
      have hl : (b.drop o ++ t).length - t.length = (b.drop o).length := by simp
      rw [if_neg (by simp), hl, List.take_left]
    | some l =>
      have ho : o + l ≤ b.length := by simpa [ByteRange.valid] using h
      simp only [stripOne, stripInner, ByteRange.extract, ByteRange.start, ByteRange.stop]
      rw [slice_append_left b t o (o + l) ho]
  | suffix l =>
    have ho : l ≤ b.length := by simpa [ByteRange.valid] using h
    simp only [stripOne, stripInner, ByteRange.extract, ByteRange.start, ByteRange.stop, List.length_append]
    have e : b.length + t.length - (l + t.length) = b.length - l := by omega
    rw [e, slice_append_to_end b t (b.length - l) (by omega), slice_to_end]
    have hl : (b.drop (b.length - l) ++ t).length - t.length = (b.drop (b.length - l)).length := by simp
    rw [if_neg (by simp), hl, List.take_left]

theorem stripSuffixPD_ok (h : BHandle) (b t : Bytes) (hh : BHandleOk h (b ++ t)) :
    BHandleOk (stripSuffixPD t.length h) b := by
  intro rs hv
  rw [stripSuffixPD_eq, hh (rs.map (stripInner t.length)) (by
    intro r hr
    obtain ⟨r', hr', rfl⟩ := List.mem_map.mp hr
    exact stripInner_valid b t r' (hv r' hr'))]
  simp only [List.map_map]
  rw [show (rs.map ((fun r => r.extract (b ++ t)) ∘ stripInner t.length)) =
      rs.map (fun r => (stripInner t.length r).extract (b ++ t)) from rfl,
    mapM_zip_map (fun r => (stripInner t.length r).extract (b ++ t)) (stripOne t.length) (·.extract b) rs
      (fun r hr => stripOne_extract b t r (hv r hr))]
  rfl

theorem stripSuffixPD_absent (n : Nat) (h : BHandle) (hh : BHandleAbsent h) : BHandleAbsent (stripSuffixPD n h) := by
  intro rs
  rw [stripSuffixPD_eq, hh]

theorem byteIntervalPD_ok (h : BHandle) (v : Bytes) (off len : Nat) (hh : BHandleOk h v) (hb : off + len ≤ v.length) :
    BHandleOk (byteIntervalPD off len h) (slice v off (off + len)) := by
  have hlen : (slice v off (off + len)).length = len := by
    rw [slice_length_le v off (off + len) hb]; omega
  intro rs hv
  rw [hlen] at hv
  unfold byteIntervalPD
  rw [if_pos (List.all_eq_true.2 hv), hh _ (by
    intro r hr
    obtain ⟨r', hr', rfl⟩ := List.mem_map.mp hr
    obtain ⟨h1, h2⟩ := valid_bounds r' len (hv r' hr')
    simp only [ByteRange.valid, Option.getD_some, decide_eq_true_eq]
    omega)]
  simp only [List.map_map]
  congr 2
  apply List.map_congr_left
  intro r hr
  obtain ⟨h1, h2⟩ := valid_bounds r len (hv r hr)
  simp only [Function.comp, ByteRange.extract, hlen]
  show slice v (off + r.start len) (off + r.start len + r.length len) = _
  rw [slice_slice v off len _ _ h2]
  congr 1
  omega

theorem decodeAllPD_ok (enc : Bytes → Bytes) (dec : Bytes → Option Bytes) (h : BHandle) (b : Bytes)
    (hinv : dec (enc b) = some b) (hh : BHandleOk h (enc b)) : BHandleOk (decodeAllPD dec h) b := by
  intro rs hv
  unfold decodeAllPD
  rw [hh _ (whole_valid (enc b)), whole_extract]
  simp only [hinv, Option.bind_some, extractByteRanges_valid b rs hv, Option.map_some]

theorem decodeAllPD_absent (dec : Bytes → Option Bytes) (h : BHandle) (hh : BHandleAbsent h) :
    BHandleAbsent (decodeAllPD dec h) := by
  intro rs
  unfold decodeAllPD
  rw [hh]

theorem bytesCachePD_ok (h : BHandle) (v : Bytes) (hh : BHandleOk h v) : BHandleOk (bytesCachePD h) v := by
  unfold bytesCachePD
  rw [hh _ (whole_valid v), whole_extract]
  exact storeHandle_some_ok v

theorem bytesCachePD_absent (h : BHandle) (hh : BHandleAbsent h) : BHandleAbsent (bytesCachePD h) := by
  unfold bytesCachePD
  rw [hh]
  exact storeHandle_none_absent

end Zarrs.Partial
