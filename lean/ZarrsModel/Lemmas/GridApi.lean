import ZarrsModel.Model.GridApi
import ZarrsModel.Lemmas.Grid
import ZarrsModel.Lemmas.Index
set_option Elab.async false
/- helper lemmas for the API-coverage additions to C10 (Props/C10Api.lean): a box of chunks covers exactly the
interval from the origin of its first chunk to the end of its last chunk -/
namespace Zarrs

/-- consecutive entries of `scanOffsets` are adjacent: the next offset is this offset plus this size -/
theorem scan_step (sizes : List Nat) : ∀ (off c o s : Nat),
    (scanOffsets off sizes)[c + 1]? = some (o, s) →
    ∃ o' s', (scanOffsets off sizes)[c]? = some (o', s') ∧ o' + s' = o := by
  induction sizes with
  | nil => intro off c o s h; simp [scanOffsets] at h
  | cons s0 ss ih =>
    intro off c o s h
    simp only [scanOffsets, List.getElem?_cons_succ] at h
    cases c with
    | zero =>
      refine ⟨off, s0, by simp [scanOffsets], ?_⟩
      cases ss with
      | nil => simp [scanOffsets] at h
      | cons s1 ss' =>
        simp only [scanOffsets, List.getElem?_cons_zero, Option.some.injEq, Prod.mk.injEq] at h
        exact h.1
    | succ c =>
      obtain ⟨o', s', h1, h2⟩ := ih (off + s0) c o s h
      exact ⟨o', s', by simpa [scanOffsets] using h1, h2⟩

/-- one dimension of any grid built from a configuration: a defined chunk `c + 1` has a defined predecessor that
ends where it starts -/
theorem Dim.new_step (cfg : DimCfg) (c o s : Nat) (ho : (Dim.new cfg).origin (c + 1) = some o)
    (hs : (Dim.new cfg).chunkShape (c + 1) = some s) :
    ∃ o' s', (Dim.new cfg).origin c = some o' ∧ (Dim.new cfg).chunkShape c = some s' ∧ o' + s' = o := by
  cases cfg with
  | fixed s0 =>
    simp only [Dim.new, Dim.origin, Dim.chunkShape, Option.some.injEq] at ho hs ⊢
    subst ho
    exact ⟨c * s0, s0, rfl, rfl, by rw [Nat.add_mul]; omega⟩
  | varying sizes =>
    simp only [Dim.new, Dim.origin, Dim.chunkShape, Option.map_eq_some_iff] at ho hs ⊢
    obtain ⟨⟨o1, s1⟩, h1, rfl⟩ := ho
    obtain ⟨o', s', h2, h3⟩ := scan_step sizes 0 c o1 s1 h1
    exact ⟨o', s', ⟨(o', s'), h2, rfl⟩, ⟨(o', s'), h2, rfl⟩, h3⟩

/-- one dimension of `chunks_subset`: the chunks `c0 ..= c0 + n` (the last one defined) are all defined and cover
exactly `[origin c0, origin (c0+n) + size (c0+n))` -/
theorem Dim.cover (cfg : DimCfg) : ∀ (n c0 o1 s1 : Nat),
    (Dim.new cfg).origin (c0 + n) = some o1 → (Dim.new cfg).chunkShape (c0 + n) = some s1 →
    ∃ o0, (Dim.new cfg).origin c0 = some o0 ∧ o0 ≤ o1 ∧
      (∀ c, c0 ≤ c → c ≤ c0 + n → ∃ o s, (Dim.new cfg).origin c = some o ∧ (Dim.new cfg).chunkShape c = some s) ∧
      ∀ i, (o0 ≤ i ∧ i < o1 + s1) ↔
        ∃ c o s, c0 ≤ c ∧ c ≤ c0 + n ∧ (Dim.new cfg).origin c = some o ∧
          (Dim.new cfg).chunkShape c = some s ∧ o ≤ i ∧ i < o + s := by
  intro n
  induction n with
  | zero =>
    intro c0 o1 s1 ho hs
    simp only [Nat.add_zero] at ho hs ⊢
    refine ⟨o1, ho, Nat.le_refl _, ?_, ?_⟩
    · intro c h1 h2
      have : c = c0 := by omega
      subst this; exact ⟨o1, s1, ho, hs⟩
    · intro i
      constructor
      · rintro ⟨h1, h2⟩; exact ⟨c0, o1, s1, Nat.le_refl _, Nat.le_refl _, ho, hs, h1, h2⟩
      · rintro ⟨c, o, s, h1, h2, ho', hs', h3, h4⟩
        have : c = c0 := by omega
        subst this
        rw [ho] at ho'; rw [hs] at hs'
        cases ho'; cases hs'; exact ⟨h3, h4⟩
  | succ n ih =>
    intro c0 o1 s1 ho hs
    have e : c0 + (n + 1) = (c0 + n) + 1 := by omega
    rw [e] at ho hs
    obtain ⟨o', s', ho', hs', hadj⟩ := Dim.new_step cfg (c0 + n) o1 s1 ho hs
    obtain ⟨o0, ho0, hle, hdef, hiff⟩ := ih c0 o' s' ho' hs'
    refine ⟨o0, ho0, by omega, ?_, ?_⟩
    · intro c h1 h2
      by_cases hc : c ≤ c0 + n
      · exact hdef c h1 hc
      · have : c = c0 + n + 1 := by omega
        subst this; exact ⟨o1, s1, ho, hs⟩
    · intro i
      constructor
      · rintro ⟨h1, h2⟩
        by_cases hlt : i < o1
        · obtain ⟨c, o, s, g1, g2, g3, g4, g5, g6⟩ := (hiff i).mp ⟨h1, by omega⟩
          exact ⟨c, o, s, g1, by omega, g3, g4, g5, g6⟩
        · exact ⟨c0 + n + 1, o1, s1, by omega, by omega, ho, hs, by omega, h2⟩
      · rintro ⟨c, o, s, g1, g2, g3, g4, g5, g6⟩
        by_cases hc : c ≤ c0 + n
        · have := (hiff i).mpr ⟨c, o, s, g1, hc, g3, g4, g5, g6⟩
          exact ⟨this.1, by omega⟩
        · have : c = c0 + n + 1 := by omega
          subst this
          rw [ho] at g3; rw [hs] at g4
          cases g3; cases g4
          exact ⟨by omega, g6⟩

theorem Grid.new_cons (d : DimCfg) (cfg : List DimCfg) : Grid.new (d :: cfg) = Dim.new d :: Grid.new cfg := rfl

/-- N-dimensional `chunks_subset`: a non-empty box `cs + sh` of chunk indices whose first and last chunks are
defined consists of defined chunks only, and the region from the origin of the first to the end of the last is
exactly the union of the chunks of the box -/
theorem Grid.cover : ∀ (cfg : List DimCfg) (cs sh o0 o1 s1 : List Nat),
    cs.length = cfg.length → sh.length = cfg.length → sh.any (· == 0) = false →
    (Grid.new cfg).chunkOrigin cs = some o0 →
    (Grid.new cfg).chunkOrigin ((addIdx cs sh).map (· - 1)) = some o1 →
    (Grid.new cfg).chunkShape ((addIdx cs sh).map (· - 1)) = some s1 →
    (∀ c, Subset.mem c cs sh = true →
      ∃ o s, (Grid.new cfg).chunkOrigin c = some o ∧ (Grid.new cfg).chunkShape c = some s) ∧
    ∀ i, Subset.mem i o0 (Subset.zipSub (addIdx o1 s1) o0) = true ↔
      ∃ c o s, Subset.mem c cs sh = true ∧ (Grid.new cfg).chunkOrigin c = some o ∧
        (Grid.new cfg).chunkShape c = some s ∧ Subset.mem i o s = true := by
  intro cfg
  induction cfg with
  | nil =>
    intro cs sh o0 o1 s1 hcs hsh _ ho0 ho1 hs1
    cases cs with
    | cons _ _ => simp at hcs
    | nil =>
    cases sh with
    | cons _ _ => simp at hsh
    | nil =>
      simp only [Grid.new, List.map_nil, Grid.chunkOrigin, Grid.chunkShape, zipOpt_nil_left,
        Option.some.injEq, addIdx] at ho0 ho1 hs1
      subst ho0 ho1 hs1
      refine ⟨?_, ?_⟩
      · intro c _
        exact ⟨[], [], by simp [Grid.new, Grid.chunkOrigin, zipOpt_nil_left],
          by simp [Grid.new, Grid.chunkShape, zipOpt_nil_left]⟩
      · intro i
        simp only [addIdx, Subset.zipSub]
        constructor
        · intro h
          exact ⟨[], [], [], rfl, by simp [Grid.new, Grid.chunkOrigin, zipOpt_nil_left],
            by simp [Grid.new, Grid.chunkShape, zipOpt_nil_left], h⟩
        · rintro ⟨c, o, s, hc, ho, hs, hm⟩
          simp only [Grid.new, List.map_nil, Grid.chunkOrigin, Grid.chunkShape, zipOpt_nil_left,
            Option.some.injEq] at ho hs
          subst ho hs
          exact hm
  | cons d cfg ih =>
    intro cs sh o0 o1 s1 hcs hsh hne ho0 ho1 hs1
    cases cs with
    | nil => simp at hcs
    | cons c0 cst =>
    cases sh with
    | nil => simp at hsh
    | cons n0 sht =>
      simp only [List.length_cons, Nat.add_right_cancel_iff] at hcs hsh
      simp only [List.any_cons, Bool.or_eq_false_iff, beq_eq_false_iff_ne, ne_eq] at hne
      simp only [Grid.new_cons, Grid.chunkOrigin, Grid.chunkShape, addIdx, List.map_cons] at ho0 ho1 hs1
      obtain ⟨o00, o0t, h00, h0t, rfl⟩ := zipOpt_cons_some.mp ho0
      obtain ⟨o10, o1t, h10, h1t, rfl⟩ := zipOpt_cons_some.mp ho1
      obtain ⟨s10, s1t, g10, g1t, rfl⟩ := zipOpt_cons_some.mp hs1
      have e : c0 + n0 - 1 = c0 + (n0 - 1) := by omega
      rw [e] at h10 g10
      obtain ⟨o00', h00', hle0, hdef0, hiff0⟩ := Dim.cover d (n0 - 1) c0 o10 s10 h10 g10
      rw [h00] at h00'; cases h00'
      obtain ⟨hdeft, hifft⟩ := ih cst sht o0t o1t s1t hcs hsh hne.2 h0t h1t g1t
      refine ⟨?_, ?_⟩
      · intro c hc
        cases c with
        | nil => simp [Subset.mem] at hc
        | cons x xs =>
          simp only [Subset.mem, Bool.and_eq_true, decide_eq_true_eq] at hc
          obtain ⟨o, s, h1, h2⟩ := hdef0 x hc.1.1 (by omega)
          obtain ⟨ot, st, h3, h4⟩ := hdeft xs hc.2
          exact ⟨o :: ot, s :: st, by simp only [Grid.new_cons, Grid.chunkOrigin]; exact zipOpt_cons_eq h1 h3,
            by simp only [Grid.new_cons, Grid.chunkShape]; exact zipOpt_cons_eq h2 h4⟩
      · intro i
        cases i with
        | nil =>
          simp only [Subset.mem, Bool.false_eq_true, false_iff, not_exists, not_and]
          intro c o s _ ho _ hm
          simp only [Grid.new_cons, Grid.chunkOrigin] at ho
          cases c with
          | nil => simp [Subset.mem] at *
          | cons x xs =>
            obtain ⟨_, _, _, _, rfl⟩ := zipOpt_cons_some.mp ho
            cases s <;> simp [Subset.mem] at hm
        | cons i0 it =>
          simp only [addIdx, Subset.zipSub, Subset.mem, Bool.and_eq_true, decide_eq_true_eq]
          rw [hifft it]
          have hreg : (o00 ≤ i0 ∧ i0 < o00 + (o10 + s10 - o00)) ↔ (o00 ≤ i0 ∧ i0 < o10 + s10) := by
            constructor <;> rintro ⟨a, b⟩ <;> exact ⟨a, by omega⟩
          rw [hreg, hiff0 i0]
          constructor
          · rintro ⟨⟨x, o, s, a1, a2, a3, a4, a5, a6⟩, xs, ot, st, b1, b2, b3, b4⟩
            refine ⟨x :: xs, o :: ot, s :: st, ?_, ?_, ?_, ?_⟩
            · simp only [Subset.mem, Bool.and_eq_true, decide_eq_true_eq]
              exact ⟨⟨a1, by omega⟩, b1⟩
            · simp only [Grid.new_cons, Grid.chunkOrigin]; exact zipOpt_cons_eq a3 b2
            · simp only [Grid.new_cons, Grid.chunkShape]; exact zipOpt_cons_eq a4 b3
            · simp only [Subset.mem, Bool.and_eq_true, decide_eq_true_eq]
              exact ⟨⟨a5, a6⟩, b4⟩
          · rintro ⟨c, o, s, hc, ho, hs, hm⟩
            cases c with
            | nil => simp [Subset.mem] at hc
            | cons x xs =>
              simp only [Grid.new_cons, Grid.chunkOrigin, Grid.chunkShape] at ho hs
              obtain ⟨o', ot, a3, b2, rfl⟩ := zipOpt_cons_some.mp ho
              obtain ⟨s', st, a4, b3, rfl⟩ := zipOpt_cons_some.mp hs
              simp only [Subset.mem, Bool.and_eq_true, decide_eq_true_eq] at hc hm
              exact ⟨⟨x, o', s', hc.1.1, by omega, a3, a4, hm.1.1, hm.1.2⟩,
                xs, ot, st, hc.2, b2, b3, hm.2⟩

theorem zipOpt_length {α β γ} (f : α → β → Option γ) : ∀ (as : List α) (bs : List β) (l : List γ),
    as.length = bs.length → zipOpt f as bs = some l → l.length = as.length := by
  intro as
  induction as with
  | nil => intro bs l _ h; simp only [zipOpt_nil_left, Option.some.injEq] at h; subst h; rfl
  | cons a as ih =>
    intro bs l hl h
    cases bs with
    | nil => simp at hl
    | cons b bs =>
      obtain ⟨c, cs, _, h2, rfl⟩ := zipOpt_cons_some.mp h
      simp only [List.length_cons, Nat.add_right_cancel_iff] at hl ⊢
      exact ih bs cs hl h2

theorem addIdx_length_eq (a b : List Nat) (h : a.length = b.length) : (addIdx a b).length = a.length := by
  rw [addIdx_length]; omega

theorem zipSub_length_eq (a b : List Nat) (h : a.length = b.length) : (Subset.zipSub a b).length = a.length := by
  rw [zipSub_length]; omega

end Zarrs
