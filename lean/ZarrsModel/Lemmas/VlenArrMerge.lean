import ZarrsModel.Lemmas.VlenArr
set_option Elab.async false
/-
helper lemmas for variable-length arrays, part 2: `merge_chunks_vlen` against the element-level gather
(`updateRuns` folded over the chunks, as in `ArrCfg.retrieveArraySubset`).
-/
namespace Zarrs.VlenArr
open Zarrs Zarrs.Codec Zarrs.Vlen Zarrs.Partial

/-! ### `updateRuns` as a fold of `set` over (linear index, element) pairs -/

theorem fst_eq {α β} : (fun x : α × β => x.1) = Prod.fst := rfl

theorem linearised_lt (r : Subset) (sh : Shape) (hr : r.wf = true) (hb : r.inboundsShape sh = true) :
    ∀ k ∈ r.linearised sh, k < prod sh := by
  have hbb := hb
  simp only [Subset.inboundsShape, Subset.rank, Subset.endExc, Bool.and_eq_true, beq_iff_eq] at hbb
  intro k hk
  rw [C09.linearised_eq r sh hr] at hk
  obtain ⟨i, hi, rfl⟩ := List.mem_map.mp hk
  rw [r.mem_indices hr] at hi
  exact ravel_lt i sh (inB_of_allLe_end i _ _ sh hbb.1 hbb.2 hi)

theorem linearised_length (r : Subset) (sh : Shape) (hr : r.wf = true) : (r.linearised sh).length = r.numElements := by
  rw [C09.linearised_eq r sh hr, List.length_map, Subset.indices_length]

theorem mem_linearised (r : Subset) (sh : Shape) (hr : r.wf = true) (hb : r.inboundsShape sh = true) (k : Nat) :
    k ∈ r.linearised sh ↔ ∃ i, r.contains i = true ∧ inB i sh = true ∧ ravel i sh = k := by
  have hbb := hb
  simp only [Subset.inboundsShape, Subset.rank, Subset.endExc, Bool.and_eq_true, beq_iff_eq] at hbb
  rw [C09.linearised_eq r sh hr, List.mem_map]
  constructor
  · intro ⟨i, hi, he⟩
    rw [r.mem_indices hr] at hi
    exact ⟨i, hi, inB_of_allLe_end i _ _ sh hbb.1 hbb.2 hi, he⟩
  · intro ⟨i, hi, _, he⟩
    exact ⟨i, (r.mem_indices hr i).mpr hi, he⟩

theorem updateRuns_eq_foldl_set {α} (sh : Shape) (r : Subset) (xs ys : List α) (hr : r.wf = true)
    (hb : r.inboundsShape sh = true) (hx : xs.length = prod sh) (hy : ys.length = r.numElements) :
    updateRuns sh r xs ys = ((r.linearised sh).zip ys).foldl (fun acc p => acc.set p.1 p.2) xs := by
  have hbb := hb
  simp only [Subset.inboundsShape, Subset.rank, Subset.endExc, Bool.and_eq_true, beq_iff_eq] at hbb
  have hinb : ∀ i, r.contains i = true → inB i sh = true :=
    fun i hi => inB_of_allLe_end i _ _ sh hbb.1 hbb.2 hi
  have hll := linearised_length r sh hr
  have hkeys : ((r.linearised sh).zip ys).map (·.1) = r.linearised sh := by
    rw [fst_eq]; exact List.map_fst_zip (by rw [hll, hy]; exact Nat.le_refl _)
  obtain ⟨h1, h2, h3⟩ := foldl_set_spec ((r.linearised sh).zip ys) xs
    (by rw [hkeys]; exact (C09.linearised_sorted r sh hr hb).imp (fun h => Nat.ne_of_lt h))
    (by
      intro p hp
      have : p.1 ∈ ((r.linearised sh).zip ys).map (·.1) := List.mem_map_of_mem hp
      rw [hkeys] at this
      rw [hx]; exact linearised_lt r sh hr hb p.1 this)
  obtain ⟨hl, hp⟩ := updateRuns_spec sh r xs ys hr hb hx hy
  apply list_ext_box sh _ _ hl (by rw [h1, hx])
  intro j hj
  rw [hp j hj]
  by_cases hc : r.contains j = true
  · rw [if_pos hc]
    obtain ⟨hz, _⟩ := mem_zipSub j r.start r.shape hc
    have hq : ravel (Subset.zipSub j r.start) r.shape < ys.length := by
      rw [hy]; exact ravel_lt _ _ hz
    have hlin : (r.linearised sh)[ravel (Subset.zipSub j r.start) r.shape]? = some (ravel j sh) := by
      rw [C09.linearised_eq r sh hr, List.getElem?_map, r.indices_getElem?_ravel j hc]; rfl
    have hmem : (ravel j sh, ys[ravel (Subset.zipSub j r.start) r.shape]) ∈ (r.linearised sh).zip ys := by
      apply List.mem_of_getElem? (i := ravel (Subset.zipSub j r.start) r.shape)
      rw [List.getElem?_zip_eq_some]
      exact ⟨hlin, List.getElem?_eq_getElem hq⟩
    rw [h2 _ hmem, List.getElem?_eq_getElem hq]
  · rw [if_neg hc]
    symm
    apply h3
    rw [hkeys, mem_linearised r sh hr hb]
    intro ⟨i, hi, hib, he⟩
    have : i = j := by rw [← C09.unravel_ravel i sh hib, ← C09.unravel_ravel j sh hj, he]
    subst this
    exact hc hi

/-! ### the parts -/

/-- what `merge_chunks_vlen` needs of one chunk: a subset of the output shape and as many elements -/
structure PartOk (sh : Shape) (p : VArr × Subset) : Prop where
  wf : p.2.wf = true
  inb : p.2.inboundsShape sh = true
  valid : p.1.valid p.2.numElements = true

/-- the chunks are pairwise disjoint -/
def PartsDisjoint (parts : List (VArr × Subset)) : Prop :=
  parts.Pairwise (fun p q => ∀ i, ¬ (p.2.contains i = true ∧ q.2.contains i = true))

/-- (linear index, element) pairs of one chunk -/
def partKV (sh : Shape) (p : VArr × Subset) : List (Nat × Bytes) := (p.2.linearised sh).zip p.1.elems

theorem partKV_keys (sh : Shape) (p : VArr × Subset) (h : PartOk sh p) :
    (partKV sh p).map (·.1) = p.2.linearised sh := by
  rw [fst_eq]
  exact List.map_fst_zip (by rw [linearised_length _ _ h.wf, elems_length _ _ h.valid]; exact Nat.le_refl _)

theorem merged_eq_foldl_set (sh : Shape) : ∀ (parts : List (VArr × Subset)) (init : List Bytes),
    (∀ p ∈ parts, PartOk sh p) → init.length = prod sh →
    parts.foldl (fun out p => updateRuns sh p.2 out p.1.elems) init =
      (parts.flatMap (partKV sh)).foldl (fun acc p => acc.set p.1 p.2) init := by
  intro parts
  induction parts with
  | nil => intro init _ _; rfl
  | cons p rest ih =>
    intro init hok hlen
    have hp := hok p (by simp)
    rw [List.foldl_cons, List.flatMap_cons, List.foldl_append,
      updateRuns_eq_foldl_set sh p.2 init p.1.elems hp.wf hp.inb hlen (elems_length _ _ hp.valid)]
    apply ih _ (fun q hq => hok q (by simp [hq]))
    rw [← updateRuns_eq_foldl_set sh p.2 init p.1.elems hp.wf hp.inb hlen (elems_length _ _ hp.valid)]
    exact updateRuns_length sh p.2 init p.1.elems hp.wf hp.inb hlen (elems_length _ _ hp.valid)

theorem keys_nodup (sh : Shape) : ∀ (parts : List (VArr × Subset)), (∀ p ∈ parts, PartOk sh p) → PartsDisjoint parts →
    ((parts.flatMap (partKV sh)).map (·.1)).Nodup ∧
    ∀ k ∈ (parts.flatMap (partKV sh)).map (·.1), ∃ p ∈ parts, k ∈ p.2.linearised sh := by
  intro parts
  induction parts with
  | nil => intro _ _; simp
  | cons p rest ih =>
    intro hok hd
    have hp := hok p (by simp)
    unfold PartsDisjoint at hd
    rw [List.pairwise_cons] at hd
    obtain ⟨ih1, ih2⟩ := ih (fun q hq => hok q (by simp [hq])) hd.2
    rw [List.flatMap_cons, List.map_append, partKV_keys sh p hp]
    constructor
    · rw [List.nodup_append]
      refine ⟨(C09.linearised_sorted p.2 sh hp.wf hp.inb).imp (fun h => Nat.ne_of_lt h), ih1, ?_⟩
      intro a ha b hb' hab
      subst hab
      obtain ⟨q, hq, hbq⟩ := ih2 a hb'
      have hqo := hok q (by simp [hq])
      obtain ⟨i, hi, hib, he⟩ := (mem_linearised p.2 sh hp.wf hp.inb a).mp ha
      obtain ⟨i', hi', hib', he'⟩ := (mem_linearised q.2 sh hqo.wf hqo.inb a).mp hbq
      have : i = i' := by rw [← C09.unravel_ravel i sh hib, ← C09.unravel_ravel i' sh hib', he, he']
      subst this
      exact hd.1 q hq i ⟨hi, hi'⟩
    · intro k hk
      rcases List.mem_append.mp hk with h | h
      · exact ⟨p, by simp, h⟩
      · obtain ⟨q, hq, hkq⟩ := ih2 k h
        exact ⟨q, by simp [hq], hkq⟩

/-! ### items against key/value pairs -/

theorem partKV_eq_map (sh : Shape) (p : VArr × Subset) :
    partKV sh p = ((p.2.linearised sh).zip (windows p.1.offsets)).map (fun q => (q.1, slice p.1.data q.2.1 q.2.2)) := by
  unfold partKV VArr.elems
  rw [List.zip_map_right]
  apply List.map_congr_left
  intro q _; rfl

theorem mem_zip_windows (sh : Shape) (p : VArr × Subset) (h : PartOk sh p) :
    ∀ q ∈ (p.2.linearised sh).zip (windows p.1.offsets), q.2.1 ≤ q.2.2 ∧ q.2.2 ≤ p.1.data.length := by
  intro q hq
  exact windows_ok _ _ h.valid q.2 (List.of_mem_zip hq).2

/-- the size an item writes is the length of the pair's element -/
theorem items_sizes (sh : Shape) (p : VArr × Subset) (h : PartOk sh p) :
    (partItems sh p).map (fun it => (it.1, it.2.2.2 - it.2.2.1)) = (partKV sh p).map (fun kv => (kv.1, kv.2.length)) := by
  rw [partKV_eq_map, partItems, List.map_map, List.map_map]
  apply List.map_congr_left
  intro q hq
  obtain ⟨h1, h2⟩ := mem_zip_windows sh p h q hq
  simp only [Function.comp, slice_length _ _ _ h1 h2]

/-- the bytes an item copies are the pair's element -/
theorem items_src (sh : Shape) (p : VArr × Subset) (h : PartOk sh p) :
    ∀ it ∈ partItems sh p, ∃ x, (it.1, x) ∈ partKV sh p ∧ getRange it.2.1 it.2.2.1 it.2.2.2 = some x := by
  intro it hit
  rw [partItems, List.mem_map] at hit
  obtain ⟨q, hq, rfl⟩ := hit
  obtain ⟨h1, h2⟩ := mem_zip_windows sh p h q hq
  refine ⟨slice p.1.data q.2.1 q.2.2, ?_, getRange_ok _ _ _ h1 h2⟩
  rw [partKV_eq_map, List.mem_map]
  exact ⟨q, hq, rfl⟩

theorem foldl_set_map {β γ} (g : β → γ) : ∀ (kvs : List (Nat × β)) (init : List β),
    (kvs.map (fun kv => (kv.1, g kv.2))).foldl (fun acc p => acc.set p.1 p.2) (init.map g) =
      (kvs.foldl (fun acc p => acc.set p.1 p.2) init).map g := by
  intro kvs
  induction kvs with
  | nil => intro init; rfl
  | cons kv rest ih =>
    intro init
    simp only [List.map_cons, List.foldl_cons]
    rw [← ih (init.set kv.1 kv.2), List.map_set]

theorem cumOffsets_map_length : ∀ (E : List Bytes) (s : Nat), cumOffsets s (E.map List.length) = offsetsFrom s E := by
  intro E
  induction E with
  | nil => intro s; rfl
  | cons x xs ih => intro s; simp only [List.map_cons, cumOffsets, offsetsFrom, ih]

/-! ### slices of a written buffer -/

theorem slice_take_of_le (b : Bytes) (a a' e' : Nat) (h : e' ≤ a) : slice (b.take a) a' e' = slice b a' e' := by
  unfold slice
  rw [List.drop_take, List.take_take]
  congr 1
  omega

theorem writeSlice_spec (b : Bytes) (a e : Nat) (x : Bytes) (h1 : a ≤ e) (h2 : e ≤ b.length) (hx : x.length = e - a) :
    ∃ b', writeSlice b a e x = some b' ∧ b'.length = b.length ∧ slice b' a e = x ∧
      (∀ a' e', e' ≤ a → slice b' a' e' = slice b a' e') ∧
      (∀ a' e', e ≤ a' → slice b' a' e' = slice b a' e') := by
  refine ⟨b.take a ++ x ++ b.drop e, by simp [writeSlice, h1, h2, hx], ?_, ?_, ?_, ?_⟩
  · simp only [List.length_append, List.length_take, List.length_drop, hx]; omega
  · have hl : (b.take a).length = a := by rw [List.length_take]; omega
    have := slice_mid (b.take a) x (b.drop e)
    rw [hl, hx] at this
    rw [List.append_assoc]
    have he : a + (e - a) = e := by omega
    rw [he] at this
    exact this
  · intro a' e' hle
    rw [List.append_assoc, slice_append_left _ _ _ _ (by rw [List.length_take]; omega)]
    exact slice_take_of_le b a a' e' hle
  · intro a' e' hle
    have hl : (b.take a ++ x).length = e := by
      rw [List.length_append, List.length_take, hx]; omega
    unfold slice
    have hd : (b.take a ++ x ++ b.drop e).drop a' = b.drop a' := by
      rw [List.drop_append, List.drop_of_length_le (by rw [hl]; exact hle), List.nil_append, hl, List.drop_drop]
      congr 1; omega
    rw [hd]

/-! ### the write loop -/

theorem write_loop (E : List Bytes) : ∀ (L : List (Nat × Bytes × Nat × Nat)) (b : Bytes),
    b.length = (VArr.ofElems E).data.length →
    (∀ it ∈ L, ∃ x, E[it.1]? = some x ∧ getRange it.2.1 it.2.2.1 it.2.2.2 = some x) →
    ∃ b', foldOptB (writeItem (VArr.ofElems E).offsets) b L = some b' ∧ b'.length = (VArr.ofElems E).data.length ∧
      ∀ k, k < E.length →
        (slice b (offAt (VArr.ofElems E) k) (offAt (VArr.ofElems E) (k + 1)) = E.getD k [] ∨ k ∈ L.map (·.1)) →
        slice b' (offAt (VArr.ofElems E) k) (offAt (VArr.ofElems E) (k + 1)) = E.getD k [] := by
  have hW := ofElems_valid E
  intro L
  induction L with
  | nil =>
    intro b hb _
    refine ⟨b, rfl, hb, ?_⟩
    intro k _ h
    rcases h with h | h
    · exact h
    · simp at h
  | cons it L ih =>
    intro b hb hsrc
    obtain ⟨x, hEx, hget⟩ := hsrc it (by simp)
    have hk0 : it.1 < E.length := (List.getElem?_eq_some_iff.mp hEx).1
    obtain ⟨e1, e2, hle, hlen⟩ := offAt_step _ _ hW it.1 hk0
    -- the element of `ofElems E` at `it.1` is `x`
    have hel : slice (VArr.ofElems E).data (offAt (VArr.ofElems E) it.1) (offAt (VArr.ofElems E) (it.1 + 1)) = x := by
      have h1 := elemAt?_eq _ _ hW it.1
      rw [elems_ofElems, hEx] at h1
      unfold elemAt? at h1
      simp only [e1, e2] at h1
      rw [getRange_ok _ _ _ hle hlen] at h1
      exact Option.some.inj h1
    have hxl : x.length = offAt (VArr.ofElems E) (it.1 + 1) - offAt (VArr.ofElems E) it.1 := by
      rw [← hel, slice_length _ _ _ hle hlen]
    obtain ⟨b1, hw, hl1, hs1, hs2, hs3⟩ := writeSlice_spec b _ _ x hle (by rw [hb]; exact hlen) hxl
    obtain ⟨b', hf, hl', hgood⟩ := ih b1 (by rw [hl1, hb]) (fun it' hit' => hsrc it' (by simp [hit']))
    refine ⟨b', ?_, hl', ?_⟩
    · simp only [foldOptB, writeItem, hget, e1, e2, hw]
      exact hf
    · intro k hk h
      apply hgood k hk
      by_cases hkk : k = it.1
      · left
        subst hkk
        rw [hs1, List.getD_eq_getElem?_getD, hEx]; rfl
      · rcases h with h | h
        · left
          rw [← h]
          rcases Nat.lt_or_gt_of_ne hkk with hlt | hgt
          · exact hs2 _ _ (offAt_mono _ _ hW it.1 (k + 1) (by omega) (by omega))
          · exact hs3 _ _ (offAt_mono _ _ hW k (it.1 + 1) (by omega) (by omega))
        · right
          simp only [List.map_cons, List.mem_cons] at h
          rcases h with h | h
          · exact absurd h hkk
          · exact h

/-- a buffer of the right length all of whose element slices agree with `E` is the concatenation of `E` -/
theorem eq_of_slices (E : List Bytes) (b : Bytes) (hb : b.length = (VArr.ofElems E).data.length)
    (h : ∀ k, k < E.length → slice b (offAt (VArr.ofElems E) k) (offAt (VArr.ofElems E) (k + 1)) = E.getD k []) :
    b = (VArr.ofElems E).data := by
  have hW := ofElems_valid E
  have hV : (⟨b, (VArr.ofElems E).offsets⟩ : VArr).valid E.length = true := by
    have := hW
    unfold VArr.valid at this ⊢
    simp only [hb]
    exact this
  have hel : (⟨b, (VArr.ofElems E).offsets⟩ : VArr).elems = E := by
    apply List.ext_getElem?
    intro k
    rw [← elemAt?_eq _ _ hV k]
    by_cases hk : k < E.length
    · obtain ⟨e1, e2, hle, hlen⟩ := offAt_step _ _ hW k hk
      unfold elemAt?
      simp only [e1, e2]
      rw [getRange_ok _ _ _ hle (by rw [hb]; exact hlen), h k hk, List.getD_eq_getElem?_getD,
        List.getElem?_eq_getElem hk]
      rfl
    · rw [elemAt?_eq _ _ hV k, List.getElem?_eq_none (by rw [elems_length _ _ hV]; omega),
        List.getElem?_eq_none (by omega)]
  have hf := elems_flatten _ _ hV
  rw [hel] at hf
  have hh : (VArr.ofElems E).offsets.headD 0 = 0 := by
    have := offsetsFrom_head 0 E
    simp only [VArr.ofElems]
    cases ho : offsetsFrom 0 E with
    | nil => rfl
    | cons o os => rw [ho] at this; simpa using this
  simp only [hh, List.drop_zero] at hf
  rw [← hf]
  rfl

/-! ### the theorem -/

theorem mergeChunksVlen_spec (parts : List (VArr × Subset)) (sh : Shape) (hok : ∀ p ∈ parts, PartOk sh p)
    (hd : PartsDisjoint parts) :
    mergeChunksVlen parts sh =
      some (VArr.ofElems (parts.foldl (fun out p => updateRuns sh p.2 out p.1.elems) (List.replicate (prod sh) []))) := by
  have hE := merged_eq_foldl_set sh parts (List.replicate (prod sh) []) hok (by simp)
  obtain ⟨hnd, hkeys⟩ := keys_nodup sh parts hok hd
  have hklt : ∀ p ∈ parts.flatMap (partKV sh), p.1 < (List.replicate (prod sh) ([] : Bytes)).length := by
    intro p hp
    obtain ⟨q, hq, hk⟩ := hkeys p.1 (List.mem_map_of_mem hp)
    rw [List.length_replicate]
    exact linearised_lt q.2 sh (hok q hq).wf (hok q hq).inb p.1 hk
  obtain ⟨h1, h2, h3⟩ := foldl_set_spec (parts.flatMap (partKV sh)) (List.replicate (prod sh) []) hnd hklt
  -- name the merged element list
  generalize hEdef : parts.foldl (fun out p => updateRuns sh p.2 out p.1.elems) (List.replicate (prod sh) []) = E at hE ⊢
  rw [← hE] at h1 h2 h3
  have hEl : E.length = prod sh := by rw [h1, List.length_replicate]
  -- sizes
  have hsizes : (parts.flatMap (partItems sh)).foldl (fun (acc : List Nat) it => acc.set it.1 (it.2.2.2 - it.2.2.1))
      (List.replicate (prod sh) 0) = E.map List.length := by
    have hmap : (parts.flatMap (partItems sh)).map (fun it => (it.1, it.2.2.2 - it.2.2.1)) =
        (parts.flatMap (partKV sh)).map (fun kv => (kv.1, kv.2.length)) := by
      rw [List.map_flatMap, List.map_flatMap]
      apply flatMap_congr'
      intro p hp
      exact items_sizes sh p (hok p hp)
    have hz : List.replicate (prod sh) 0 = (List.replicate (prod sh) ([] : Bytes)).map List.length := by simp
    have := foldl_set_map (List.length (α := Nat)) (parts.flatMap (partKV sh)) (List.replicate (prod sh) [])
    rw [← hmap, ← hz, List.foldl_map, ← hE] at this
    exact this
  unfold mergeChunksVlen
  have hall : parts.all (fun p => p.2.inboundsShape sh) = true := by
    rw [List.all_eq_true]; intro p hp; exact (hok p hp).inb
  simp only [hall, Bool.not_true, Bool.false_eq_true, if_false]
  rw [hsizes, cumOffsets_map_length]
  have hoff : offsetsFrom 0 E = (VArr.ofElems E).offsets := rfl
  have hlast : (offsetsFrom 0 E).getLastD 0 = (VArr.ofElems E).data.length := by
    rw [List.getLastD_eq_getLast?, offsetsFrom_getLast]; simp [VArr.ofElems]
  rw [hlast, hoff]
  obtain ⟨b', hf, hl', hgood⟩ := write_loop E (parts.flatMap (partItems sh))
    (List.replicate (VArr.ofElems E).data.length 0) (by simp) (by
      intro it hit
      obtain ⟨p, hp, hitp⟩ := List.mem_flatMap.mp hit
      obtain ⟨x, hx, hg⟩ := items_src sh p (hok p hp) it hitp
      refine ⟨x, ?_, hg⟩
      exact h2 (it.1, x) (List.mem_flatMap.mpr ⟨p, hp, hx⟩))
  rw [hf]
  simp only [Option.map_some, Option.some.injEq]
  have hdata : b' = (VArr.ofElems E).data := by
    apply eq_of_slices E b' hl'
    intro k hk
    apply hgood k hk
    by_cases hmem : k ∈ (parts.flatMap (partItems sh)).map (·.1)
    · right; exact hmem
    · left
      -- an element no item writes is empty
      have hnk : k ∉ (parts.flatMap (partKV sh)).map (·.1) := by
        intro hc
        apply hmem
        have e1 : (parts.flatMap (partItems sh)).map (·.1) =
            ((parts.flatMap (partItems sh)).map (fun it => (it.1, it.2.2.2 - it.2.2.1))).map (·.1) := by
          rw [List.map_map]; rfl
        have e2 : (parts.flatMap (partKV sh)).map (·.1) =
            ((parts.flatMap (partKV sh)).map (fun kv => (kv.1, kv.2.length))).map (·.1) := by
          rw [List.map_map]; rfl
        rw [e1]
        rw [e2] at hc
        have hmap : (parts.flatMap (partItems sh)).map (fun it => (it.1, it.2.2.2 - it.2.2.1)) =
            (parts.flatMap (partKV sh)).map (fun kv => (kv.1, kv.2.length)) := by
          rw [List.map_flatMap, List.map_flatMap]
          apply flatMap_congr'
          intro p hp
          exact items_sizes sh p (hok p hp)
        rw [hmap]; exact hc
      have hEk : E[k]? = some [] := by
        rw [h3 k hnk, List.getElem?_replicate]
        simp [← hEl, hk]
      have hW := ofElems_valid E
      obtain ⟨e1, e2, hle, hlen⟩ := offAt_step _ _ hW k hk
      have h1' := elemAt?_eq _ _ hW k
      rw [elems_ofElems, hEk] at h1'
      unfold elemAt? at h1'
      simp only [e1, e2] at h1'
      rw [getRange_ok _ _ _ hle hlen] at h1'
      have hsl := Option.some.inj h1'
      have hlen0 := slice_length (VArr.ofElems E).data _ _ hle hlen
      rw [hsl] at hlen0
      simp only [List.length_nil] at hlen0
      have heq : offAt (VArr.ofElems E) (k + 1) = offAt (VArr.ofElems E) k := by omega
      rw [heq, slice_self, List.getD_eq_getElem?_getD, hEk]
      rfl
  rw [hdata]

/-- when the chunks cover the whole output, the initial contents of the element-level fold do not matter (the array
model starts from the fill value, `merge_chunks_vlen` from empty elements) -/
theorem merged_init_irrelevant (sh : Shape) (parts : List (VArr × Subset)) (hok : ∀ p ∈ parts, PartOk sh p)
    (hd : PartsDisjoint parts) (hcover : ∀ i, inB i sh = true → ∃ p ∈ parts, p.2.contains i = true)
    (init1 init2 : List Bytes) (hl1 : init1.length = prod sh) (hl2 : init2.length = prod sh) :
    parts.foldl (fun out p => updateRuns sh p.2 out p.1.elems) init1 =
      parts.foldl (fun out p => updateRuns sh p.2 out p.1.elems) init2 := by
  rw [merged_eq_foldl_set sh parts init1 hok hl1, merged_eq_foldl_set sh parts init2 hok hl2]
  obtain ⟨hnd, hkeys⟩ := keys_nodup sh parts hok hd
  have hklt : ∀ (init : List Bytes), init.length = prod sh → ∀ p ∈ parts.flatMap (partKV sh), p.1 < init.length := by
    intro init hl p hp
    obtain ⟨q, hq, hk⟩ := hkeys p.1 (List.mem_map_of_mem hp)
    rw [hl]
    exact linearised_lt q.2 sh (hok q hq).wf (hok q hq).inb p.1 hk
  obtain ⟨a1, a2, _⟩ := foldl_set_spec (parts.flatMap (partKV sh)) init1 hnd (hklt init1 hl1)
  obtain ⟨b1, b2, _⟩ := foldl_set_spec (parts.flatMap (partKV sh)) init2 hnd (hklt init2 hl2)
  apply List.ext_getElem?
  intro k
  by_cases hk : k < prod sh
  · have hi := C09.unravel_inB k sh hk
    obtain ⟨p, hp, hc⟩ := hcover _ hi
    have hkl : k ∈ p.2.linearised sh :=
      (mem_linearised p.2 sh (hok p hp).wf (hok p hp).inb k).mpr ⟨_, hc, hi, C09.ravel_unravel k sh hk⟩
    rw [← partKV_keys sh p (hok p hp)] at hkl
    obtain ⟨kv, hkv, hkk⟩ := List.mem_map.mp hkl
    have hmem : kv ∈ parts.flatMap (partKV sh) := List.mem_flatMap.mpr ⟨p, hp, hkv⟩
    have e1 := a2 kv hmem
    have e2 := b2 kv hmem
    rw [hkk] at e1 e2
    rw [e1, e2]
  · rw [List.getElem?_eq_none (by rw [a1, hl1]; omega), List.getElem?_eq_none (by rw [b1, hl2]; omega)]

end Zarrs.VlenArr
