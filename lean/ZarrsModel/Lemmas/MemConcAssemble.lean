import ZarrsModel.Lemmas.MemConcStep
/- C18 helper lemmas, part 4: from a ghost linearization list to `isLinearization` (pure list reasoning) -/
namespace Zarrs.MemConc

/-- the ghost list is a legal run of the atomic register with the ghost responses -/
def legalG : Option Bytes → List LinE → Option (Option Bytes)
  | a, [] => some a
  | a, e :: es => if (specStep a e.op).2 = e.res then legalG (specStep a e.op).1 es else none

theorem legalG_append (a : Option Bytes) (l1 l2 : List LinE) :
    legalG a (l1 ++ l2) = (legalG a l1).bind (fun a' => legalG a' l2) := by
  induction l1 generalizing a with
  | nil => rfl
  | cons e es ih =>
    simp only [List.cons_append, legalG]
    split
    · exact ih _
    · rfl

theorem respectsRealTime_iff (l : List Done) :
    respectsRealTime l = true ↔ l.Pairwise (fun d e => ¬ e.resp < d.inv) := by
  induction l with
  | nil => simp [respectsRealTime]
  | cons d ds ih =>
    simp only [respectsRealTime, Bool.and_eq_true, List.all_eq_true, Bool.not_eq_eq_eq_not, Bool.not_true,
      decide_eq_false_iff_not, List.pairwise_cons, ih]

theorem legalSeq_map (f : LinE → Done) (l : List LinE) (a : Option Bytes)
    (hf : ∀ e ∈ l, (f e).op = e.op ∧ (f e).res = e.res) : legalSeq a (l.map f) = legalG a l := by
  induction l generalizing a with
  | nil => rfl
  | cons e es ih =>
    have h1 := hf e List.mem_cons_self
    simp only [List.map_cons, legalSeq, legalG, h1.1, h1.2, beq_iff_eq]
    split
    · exact ih _ (fun e' he' => hf e' (List.mem_cons_of_mem _ he'))
    · rfl

theorem eq_of_pairwise_key {α} (key : α → Nat × Nat) (l : List α)
    (hnd : l.Pairwise (fun a b => ¬ ((key a).1 = (key b).1 ∧ (key a).2 = (key b).2)))
    {a b : α} (ha : a ∈ l) (hb : b ∈ l) (h1 : (key a).1 = (key b).1) (h2 : (key a).2 = (key b).2) : a = b := by
  induction l with
  | nil => cases ha
  | cons x xs ih =>
    rw [List.pairwise_cons] at hnd
    rcases List.mem_cons.mp ha with rfl | ha' <;> rcases List.mem_cons.mp hb with rfl | hb'
    · rfl
    · exact absurd ⟨h1, h2⟩ (hnd.1 b hb')
    · exact absurd ⟨h1.symm, h2.symm⟩ (hnd.1 a ha')
    · exact ih hnd.2 ha' hb'

/-- Assembly: a ghost list that matches the completed operations one-to-one, is sorted by linearization time with
every linearization time inside the operation's interval, and is legal, yields a linearization. -/
theorem assemble (i0 final : Option Bytes) (h : List Done) (lin : List LinE)
    (hnd_h : h.Pairwise (fun a b => ¬ (a.t = b.t ∧ a.k = b.k)))
    (hnd_l : lin.Pairwise (fun a b => ¬ (a.t = b.t ∧ a.k = b.k)))
    (hsorted : lin.Pairwise (fun a b => a.lt ≤ b.lt))
    (h1 : ∀ d ∈ h, ∃ e ∈ lin, e.t = d.t ∧ e.k = d.k ∧ e.op = d.op ∧ e.res = d.res ∧ d.inv ≤ e.lt ∧ e.lt ≤ d.resp)
    (h2 : ∀ e ∈ lin, ∃ d ∈ h, d.t = e.t ∧ d.k = e.k)
    (hlegal : legalG i0 lin = some final) :
    ∃ order, isLinearization i0 h order final = true := by
  let lookup : LinE → Option Done := fun e => h.find? (fun d => d.t == e.t && d.k == e.k)
  let f : LinE → Done := fun e => (lookup e).getD ⟨e.t, e.k, e.op, e.res, 0, 0⟩
  have F1 : ∀ e ∈ lin, f e ∈ h ∧ (f e).t = e.t ∧ (f e).k = e.k ∧ (f e).op = e.op ∧ (f e).res = e.res ∧
      (f e).inv ≤ e.lt ∧ e.lt ≤ (f e).resp := by
    intro e he
    obtain ⟨d0, hd0, hk0⟩ := h2 e he
    have hsome : (lookup e).isSome = true := by
      simp only [lookup, List.find?_isSome]
      exact ⟨d0, hd0, by simp [hk0.1, hk0.2]⟩
    obtain ⟨d, hd⟩ := Option.isSome_iff_exists.mp hsome
    have hfe : f e = d := by simp only [f, hd, Option.getD_some]
    have hdm : d ∈ h := List.mem_of_find?_eq_some hd
    have hdk : d.t = e.t ∧ d.k = e.k := by
      have := List.find?_some hd
      simpa using this
    obtain ⟨e', he', hk1, hk2, hop, hres, hinv, hresp⟩ := h1 d hdm
    have : e' = e := eq_of_pairwise_key (fun x : LinE => (x.t, x.k)) lin hnd_l he' he
      (by simp [hk1, hdk.1]) (by simp [hk2, hdk.2])
    subst this
    rw [hfe]
    exact ⟨hdm, hdk.1, hdk.2, hop.symm, hres.symm, hinv, hresp⟩
  have F3 : lin.length = h.length := by
    have hp : (lin.map (fun e => (e.t, e.k))).Perm (h.map (fun d => (d.t, d.k))) := by
      apply (List.perm_ext_iff_of_nodup ?_ ?_).mpr
      · intro k
        simp only [List.mem_map]
        constructor
        · rintro ⟨e, he, rfl⟩
          obtain ⟨d, hd, hk⟩ := h2 e he
          exact ⟨d, hd, by simp [hk.1, hk.2]⟩
        · rintro ⟨d, hd, rfl⟩
          obtain ⟨e, he, hk1, hk2, _⟩ := h1 d hd
          exact ⟨e, he, by simp [hk1, hk2]⟩
      · rw [List.Nodup, List.pairwise_map]
        exact hnd_l.imp (fun {a b} hab heq => hab (by simpa using heq))
      · rw [List.Nodup, List.pairwise_map]
        exact hnd_h.imp (fun {a b} hab heq => hab (by simpa using heq))
    simpa using hp.length_eq
  refine ⟨lin.map f, ?_⟩
  simp only [isLinearization, Bool.and_eq_true, beq_iff_eq, List.all_eq_true, List.contains_iff_mem]
  refine ⟨⟨⟨⟨by simpa using F3, ?_⟩, ?_⟩, ?_⟩, ?_⟩
  · intro d hd
    obtain ⟨e, he, hk1, hk2, _⟩ := h1 d hd
    obtain ⟨g1, g2, g3, _⟩ := F1 e he
    have : f e = d := eq_of_pairwise_key (fun x : Done => (x.t, x.k)) h hnd_h g1 hd
      (by simp [g2, hk1]) (by simp [g3, hk2])
    exact List.mem_map.mpr ⟨e, he, this⟩
  · intro d hd
    obtain ⟨e, he, rfl⟩ := List.mem_map.mp hd
    exact (F1 e he).1
  · rw [respectsRealTime_iff, List.pairwise_map]
    refine (List.Pairwise.and_mem.mp hsorted).imp ?_
    intro a b ⟨ha, hb, hab⟩
    have ga := (F1 a ha).2.2.2.2.2.1
    have gb := (F1 b hb).2.2.2.2.2.2
    omega
  · rw [legalSeq_map f lin i0 (fun e he => ⟨(F1 e he).2.2.2.1, (F1 e he).2.2.2.2.1⟩), hlegal]

end Zarrs.MemConc
