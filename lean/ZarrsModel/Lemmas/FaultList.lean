import ZarrsModel.Model.FaultList
import ZarrsModel.Lemmas.FaultOpsMeta
set_option Elab.async false
/-
Listings as store-operation programs (`Model/FaultList.lean`): refinement of `Model/Hier.lean` without faults,
read-only-ness, and the small theory of `LProg` (a program that may start with one `list_prefix`).
-/
namespace Zarrs.FaultList
open Zarrs Zarrs.Hier

/-! ### `get_child_nodes` -/

/-- one level of the list recursion for either value of `recursive`, given that the sub-listing of a GROUP refines -/
theorem childTreesWith_pure_gen (r : Reader) (m : KV) (rec : Bool) (fuel : Nat) (sub : Key → Prog (List Tree))
    (hsub : ∀ q k, k.isGroup = true → (sub q).pure m = (subNodes r m rec fuel q k).map (fun cs => (cs, m))) :
    ∀ l : List Key, (childTreesWith r sub l).pure m = (childList r m rec fuel l).map (fun ts => (ts, m))
  | [] => by rw [childTreesWith, childList_nil]; rfl
  | q :: rest => by
    have ih := childTreesWith_pure_gen r m rec fuel sub hsub rest
    rw [childTreesWith, Prog.pure_bind, getMetaP_pure]
    simp only
    cases hg : getMeta r m q with
    | invalid => rw [childList_cons_invalid r m rec fuel q rest hg]; rfl
    | missing => rw [childList_cons_missing r m rec fuel q rest hg]; exact ih
    | node k =>
      rw [childList_cons_node r m rec fuel q rest k hg]
      simp only
      rw [Prog.pure_bind]
      cases hk : k.isGroup with
      | false =>
        simp only [subNodes, hk, Bool.and_false, Bool.false_eq_true, ↓reduceIte, Prog.pure, Option.bind_some]
        rw [Prog.bind_ret_pure, ih]
        cases childList r m rec fuel rest <;> rfl
      | true =>
        simp only [↓reduceIte]
        rw [hsub q k hk]
        cases subNodes r m rec fuel q k with
        | none => rfl
        | some cs =>
          simp only [Option.map_some, Option.bind_some]
          rw [Prog.bind_ret_pure, ih]
          cases childList r m rec fuel rest <;> rfl

/-- **`get_child_nodes(.., recursive)` without faults is `Hier.childNodes`** at every recursion bound -/
theorem getChildNodesP_pure (r : Reader) (m : KV) (rec : Bool) : ∀ (fuel : Nat) (pre : Key),
    (getChildNodesP r rec fuel pre).pure m = (childNodes r m rec fuel pre).map (fun ts => (ts, m))
  | 0, pre => by rw [getChildNodesP, childNodes]; rfl
  | fuel + 1, pre => by
    rw [getChildNodesP, childNodes]
    simp only [Prog.pure]
    rw [discover_eq]
    apply childTreesWith_pure_gen r m rec fuel
    intro q k hk
    cases rec with
    | false => simp only [Bool.false_eq_true, ↓reduceIte, subNodes, Bool.false_and, Prog.pure]; rfl
    | true =>
      simp only [↓reduceIte, subNodes, hk, Bool.and_self]
      exact getChildNodesP_pure r m true fuel q

theorem getChildNodesP_readOnly (r : Reader) (rec : Bool) : ∀ (fuel : Nat) (pre : Key),
    (getChildNodesP r rec fuel pre).readOnly
  | 0, pre => by rw [getChildNodesP]; trivial
  | fuel + 1, pre => by
    rw [getChildNodesP]
    intro d
    apply childTreesWith_readOnly
    intro q
    cases rec with
    | false => trivial
    | true => exact getChildNodesP_readOnly r true fuel q

/-- the recursive listing is the `childNodesP` of `Model/FaultOps.lean` -/
theorem getChildNodesP_true (r : Reader) : ∀ (fuel : Nat) (pre : Key), getChildNodesP r true fuel pre = childNodesP r fuel pre
  | 0, pre => by rw [getChildNodesP, childNodesP]
  | fuel + 1, pre => by
    rw [getChildNodesP, childNodesP]
    have : (fun q => if true = true then getChildNodesP r true fuel q else Prog.ret []) = childNodesP r fuel := by
      funext q
      simp only [↓reduceIte]
      exact getChildNodesP_true r fuel q
    rw [this]

theorem getMetadataP_readOnly (r : Reader) (pre : Key) : (getMetadataP r pre).readOnly := getMetaP_readOnly r pre

/-! ### the `Group` methods -/

theorem childrenP_pure (r : Reader) (m : KV) (rec : Bool) (pre : Key) :
    (childrenP r rec (depthBound m) pre).pure m = (childNodes r m rec (depthBound m) pre).map (fun ts => (ts, m)) :=
  getChildNodesP_pure r m rec _ pre

/-- a method that maps the returned vector of nodes -/
theorem mapped_pure {γ : Type} (r : Reader) (m : KV) (rec : Bool) (fuel : Nat) (pre : Key) (g : List Tree → γ) :
    ((childrenP r rec fuel pre).bind (fun ts => .ret (g ts))).pure m =
      ((childNodes r m rec fuel pre).map g).map (fun v => (v, m)) := by
  rw [Prog.bind_ret_pure, childrenP, getChildNodesP_pure]
  cases childNodes r m rec fuel pre <;> rfl

theorem childPathsP_pure (r : Reader) (m : KV) (rec : Bool) (pre : Key) :
    (childPathsP r rec (depthBound m) pre).pure m = (childPaths r m rec pre).map (fun v => (v, m)) :=
  mapped_pure r m rec _ pre _
theorem childGroupPathsP_pure (r : Reader) (m : KV) (rec : Bool) (pre : Key) :
    (childGroupPathsP r rec (depthBound m) pre).pure m = (childGroupPaths r m rec pre).map (fun v => (v, m)) :=
  mapped_pure r m rec _ pre _
theorem childArrayPathsP_pure (r : Reader) (m : KV) (rec : Bool) (pre : Key) :
    (childArrayPathsP r rec (depthBound m) pre).pure m = (childArrayPaths r m rec pre).map (fun v => (v, m)) :=
  mapped_pure r m rec _ pre _
theorem childGroupsP_pure (r : Reader) (m : KV) (rec : Bool) (pre : Key) :
    (childGroupsP r rec (depthBound m) pre).pure m = (childGroups r m rec pre).map (fun v => (v, m)) :=
  mapped_pure r m rec _ pre _

theorem childArraysP_pure (r : Reader) (arrOk : Key → Bool) (m : KV) (rec : Bool) (pre : Key) :
    (childArraysP r arrOk rec (depthBound m) pre).pure m = (childArrays r arrOk m rec pre).map (fun v => (v, m)) := by
  unfold childArraysP childArrays
  rw [Prog.pure_bind, childrenP, getChildNodesP_pure]
  cases childNodes r m rec (depthBound m) pre with
  | none => rfl
  | some ts =>
    simp only [Option.map_some, Option.bind_some]
    split <;> rfl

theorem mapped_readOnly {γ : Type} (r : Reader) (rec : Bool) (fuel : Nat) (pre : Key) (g : List Tree → Prog γ)
    (hg : ∀ ts, (g ts).readOnly) : ((childrenP r rec fuel pre).bind g).readOnly :=
  Prog.readOnly_bind _ _ (getChildNodesP_readOnly r rec fuel pre) hg

theorem childPathsP_readOnly (r : Reader) (rec : Bool) (fuel : Nat) (pre : Key) : (childPathsP r rec fuel pre).readOnly :=
  mapped_readOnly r rec fuel pre _ (fun _ => trivial)
theorem childGroupPathsP_readOnly (r : Reader) (rec : Bool) (fuel : Nat) (pre : Key) :
    (childGroupPathsP r rec fuel pre).readOnly := mapped_readOnly r rec fuel pre _ (fun _ => trivial)
theorem childArrayPathsP_readOnly (r : Reader) (rec : Bool) (fuel : Nat) (pre : Key) :
    (childArrayPathsP r rec fuel pre).readOnly := mapped_readOnly r rec fuel pre _ (fun _ => trivial)
theorem childGroupsP_readOnly (r : Reader) (rec : Bool) (fuel : Nat) (pre : Key) : (childGroupsP r rec fuel pre).readOnly :=
  mapped_readOnly r rec fuel pre _ (fun _ => trivial)
theorem childArraysP_readOnly (r : Reader) (arrOk : Key → Bool) (rec : Bool) (fuel : Nat) (pre : Key) :
    (childArraysP r arrOk rec fuel pre).readOnly :=
  mapped_readOnly r rec fuel pre _ (fun ts => by simp only; split <;> trivial)

/-! ### `Node::open` -/

theorem openNodeTreeP_pure (r : Reader) (m : KV) (pre : Key) :
    (openNodeTreeP r (depthBound m) pre).pure m = (openNodeTree r m pre).map (fun t => (t, m)) := by
  unfold openNodeTreeP openNodeTree getMetadataP
  rw [Prog.pure_bind, getMetaP_pure]
  simp only
  cases getMeta r m pre with
  | invalid => rfl
  | missing => rfl
  | node k =>
    simp only
    cases k.isGroup with
    | false => rfl
    | true =>
      simp only [↓reduceIte]
      rw [Prog.bind_ret_pure, getChildNodesP_pure]
      cases childNodes r m true (depthBound m) pre <;> rfl

/-- the tree `Node::open` returns, flattened, is the `Hier.openNode` of `Model/Hier.lean` -/
theorem openNodeTree_flatten (r : Reader) (m : KV) (pre : Key) :
    (openNodeTree r m pre).map Tree.flatten = openNode r m pre := by
  unfold openNodeTree openNode children
  cases getMeta r m pre with
  | invalid => rfl
  | missing => rfl
  | node k =>
    simp only
    cases k.isGroup with
    | false => simp [Tree.flatten, flattenList_nil]
    | true =>
      simp only [↓reduceIte]
      cases childNodes r m true (depthBound m) pre with
      | none => rfl
      | some cs => simp [Tree.flatten]

theorem openNodeTreeP_readOnly (r : Reader) (fuel : Nat) (pre : Key) : (openNodeTreeP r fuel pre).readOnly := by
  unfold openNodeTreeP
  apply Prog.readOnly_bind _ _ (getMetadataP_readOnly r pre)
  intro v
  cases v with
  | invalid => trivial
  | missing => trivial
  | node k =>
    simp only
    split
    · exact Prog.readOnly_bind _ _ (getChildNodesP_readOnly r true fuel pre) (fun _ => trivial)
    · trivial

/-! ### `node_exists` -/

theorem nodeExistsP_pure (m : KV) (pre : Key) : (nodeExistsP pre).pure m = some (nodeExists m pre, m) := by
  unfold nodeExistsP nodeExists
  simp only [Prog.pure]
  cases m.get (pre ++ kZarrJson) with
  | some v => rfl
  | none =>
    simp only [Prog.pure]
    cases m.get (pre ++ kZarray) with
    | some v => rfl
    | none =>
      simp only [Prog.pure]
      cases m.get (pre ++ kZgroup) <;> rfl

theorem nodeExistsP_readOnly (pre : Key) : (nodeExistsP pre).readOnly := by
  unfold nodeExistsP
  intro v
  cases v with
  | some v => trivial
  | none =>
    intro v
    cases v with
    | some v => trivial
    | none =>
      intro v
      cases v <;> trivial

/-- `node_exists` reads at most the three metadata keys, at least one -/
theorem nodeExistsP_ops (m : KV) (pre : Key) : 1 ≤ (nodeExistsP pre).ops m ∧ (nodeExistsP pre).ops m ≤ 3 := by
  unfold nodeExistsP
  simp only [Prog.ops]
  cases m.get (pre ++ kZarrJson) with
  | some v => simp [Prog.ops]
  | none =>
    simp only [Prog.ops]
    cases m.get (pre ++ kZarray) with
    | some v => simp [Prog.ops]
    | none =>
      simp only [Prog.ops]
      cases m.get (pre ++ kZgroup) <;> simp [Prog.ops]

/-! ### `LProg` -/

theorem flistPrefix_eq (m : KV) (n : Nat) (F : List Nat) (q : Key) :
    flistPrefix ⟨m, n, F⟩ q =
      if F.contains (n + 1) then .err ⟨m, n + 1, F⟩ else .ok (m.keys.filter (hasPrefix · q)) ⟨m, n + 1, F⟩ := rfl

namespace LProg
variable {β : Type}

/-- every operation of the program, `list_prefix` included, is a read -/
def readOnly : LProg β → Prop
  | .prog p => p.readOnly
  | .listPrefix _ cont => ∀ ks, (cont ks).readOnly

/-- **a fault inside the run is an error** (`Prog.fault_is_err` for a program that starts with `list_prefix`) -/
theorem fault_is_err (p : LProg β) (m : KV) (n : Nat) (F : List Nat) (k : Nat) (hk : k ∈ F) (h1 : n < k)
    (h2 : k ≤ n + p.ops m) : ∃ s', p.run ⟨m, n, F⟩ = .err s' := by
  cases p with
  | prog p => exact Prog.fault_is_err p m n F k hk h1 h2
  | listPrefix q cont =>
    simp only [run, flistPrefix_eq]
    cases hc : F.contains (n + 1) with
    | true => exact ⟨_, rfl⟩
    | false =>
      simp only [Bool.false_eq_true, ↓reduceIte]
      have hne : k ≠ n + 1 := by
        intro e
        subst e
        have : F.contains (n + 1) = true := by simpa using hk
        rw [hc] at this
        cases this
      simp only [ops] at h2
      exact Prog.fault_is_err _ m (n + 1) F k hk (by omega) (by omega)

/-- a successful run under ANY failing set is the fault-free run -/
theorem run_ok (p : LProg β) (m : KV) (n : Nat) (F : List Nat) (v : β) (s' : FStore) (h : p.run ⟨m, n, F⟩ = .ok v s') :
    p.pure m = some (v, s'.m) ∧ s'.n = n + p.ops m := by
  cases p with
  | prog p =>
    obtain ⟨h1, h2, _, _⟩ := Prog.run_ok p m n F v s' h
    exact ⟨h1, h2⟩
  | listPrefix q cont =>
    simp only [run, flistPrefix_eq] at h
    cases hc : F.contains (n + 1) with
    | true => rw [hc] at h; cases h
    | false =>
      rw [hc] at h
      simp only [Bool.false_eq_true, ↓reduceIte] at h
      obtain ⟨h1, h2, _, _⟩ := Prog.run_ok _ m (n + 1) F v s' h
      exact ⟨h1, by simp only [ops]; omega⟩

/-- without faults the run returns the value of the pure run -/
theorem run_nofault_val (p : LProg β) (m : KV) (n : Nat) : (p.run ⟨m, n, []⟩).val? = (p.pure m).map (·.1) := by
  cases p with
  | prog p =>
    simp only [run, pure, Prog.run_nofault, Prog.outcome]
    cases p.pure m <;> rfl
  | listPrefix q cont =>
    simp only [run, pure, flistPrefix_eq, List.contains_nil, Bool.false_eq_true, ↓reduceIte, Prog.run_nofault, Prog.outcome]
    cases (cont (List.filter (fun x => hasPrefix x q) m.keys)).pure m <;> rfl

/-- a read-only program never changes the store, whatever fails -/
theorem readOnly_run (p : LProg β) (h : p.readOnly) (m : KV) (n : Nat) (F : List Nat) : (p.run ⟨m, n, F⟩).st.m = m := by
  cases p with
  | prog p => exact Prog.readOnly_run p h m n F
  | listPrefix q cont =>
    simp only [run, flistPrefix_eq]
    cases hc : F.contains (n + 1) with
    | true => rfl
    | false =>
      simp only [Bool.false_eq_true, ↓reduceIte]
      exact Prog.readOnly_run _ (h _) m (n + 1) F

theorem trace_length (p : LProg β) (m : KV) : (p.trace m).length = p.ops m := by
  cases p with
  | prog p => exact Prog.trace_length p m
  | listPrefix q cont => simp only [trace, ops, List.length_cons, Prog.trace_length]

end LProg

/-! ### `node_exists_listable` -/

theorem contains_listPrefix (m : KV) (pre x : Key) :
    (m.keys.filter (hasPrefix · pre)).contains (pre ++ x) = (m.get (pre ++ x)).isSome := by
  rw [Bool.eq_iff_iff, List.contains_iff_mem, List.mem_filter, KV.mem_keys_iff_get, Option.isSome_iff_ne_none]
  constructor
  · exact fun h => h.1
  · intro h
    refine ⟨h, ?_⟩
    simp [hasPrefix]

theorem nodeExistsListableP_pure (m : KV) (pre : Key) : (nodeExistsListableP pre).pure m = some (nodeExists m pre, m) := by
  simp only [nodeExistsListableP, LProg.pure, Prog.pure, contains_listPrefix, nodeExists]

theorem nodeExistsListableP_readOnly (pre : Key) : (nodeExistsListableP pre).readOnly := fun _ => trivial

theorem nodeExistsListableP_ops (m : KV) (pre : Key) : (nodeExistsListableP pre).ops m = 1 := rfl

end Zarrs.FaultList
