import ZarrsModel.Model.MetaV2
import ZarrsModel.Lemmas.Meta
/- helper lemmas for C13 (V2): the `BTreeMap` insertion `insertExtra` folded from a non-empty start -/
set_option Elab.async false
namespace Zarrs.Meta
open Zarrs.Json

/-- inserting a key twice keeps the later value -/
theorem insertExtra_override (k : Str) (v v0 : AField) (l : List (Str × AField)) :
    insertExtra k v (insertExtra k v0 l) = insertExtra k v l := by
  induction l with
  | nil => simp [insertExtra]
  | cons y ys ih =>
    obtain ⟨k', v'⟩ := y
    by_cases h1 : k = k'
    · subst h1; simp [insertExtra]
    · cases h2 : strLt k k' with
      | true => simp only [insertExtra_cons_lt _ _ _ _ _ h1 h2, insertExtra_cons_eq]
      | false => simp only [insertExtra_cons_gt _ _ _ _ _ h1 h2, ih]

/-- insertions of different keys commute -/
theorem insertExtra_comm (k k' : Str) (v v' : AField) (hne : k ≠ k') (l : List (Str × AField)) :
    insertExtra k v (insertExtra k' v' l) = insertExtra k' v' (insertExtra k v l) := by
  have hne' : k' ≠ k := fun e => hne e.symm
  induction l with
  | nil =>
    cases h : strLt k k' with
    | true =>
      have h' := strLt_asymm _ _ h
      simp [insertExtra, hne, hne', h, h']
    | false =>
      have h' := strLt_total _ _ hne h
      simp [insertExtra, hne, hne', h, h']
  | cons y ys ih =>
    obtain ⟨a, va⟩ := y
    by_cases e1 : k = a
    · subst e1
      cases h2 : strLt k' k with
      | true =>
        have h2' := strLt_asymm _ _ h2
        simp only [insertExtra_cons_lt _ _ _ _ _ hne' h2, insertExtra_cons_gt _ _ _ _ _ hne h2', insertExtra_cons_eq]
      | false =>
        simp only [insertExtra_cons_gt _ _ _ _ _ hne' h2, insertExtra_cons_eq]
    · by_cases e2 : k' = a
      · subst e2
        cases h1 : strLt k k' with
        | true =>
          have h1' := strLt_asymm _ _ h1
          simp only [insertExtra_cons_eq, insertExtra_cons_lt _ _ _ _ _ hne h1, insertExtra_cons_gt _ _ _ _ _ hne' h1']
        | false =>
          simp only [insertExtra_cons_eq, insertExtra_cons_gt _ _ _ _ _ hne h1]
      · cases h1 : strLt k a with
        | true =>
          cases h2 : strLt k' a with
          | true =>
            cases h3 : strLt k k' with
            | true =>
              have h3' := strLt_asymm _ _ h3
              simp only [insertExtra_cons_lt _ _ _ _ _ e2 h2, insertExtra_cons_lt _ _ _ _ _ e1 h1,
                insertExtra_cons_lt _ _ _ _ _ hne h3, insertExtra_cons_gt _ _ _ _ _ hne' h3']
            | false =>
              have h3' := strLt_total _ _ hne h3
              simp only [insertExtra_cons_lt _ _ _ _ _ e2 h2, insertExtra_cons_lt _ _ _ _ _ e1 h1,
                insertExtra_cons_gt _ _ _ _ _ hne h3, insertExtra_cons_lt _ _ _ _ _ hne' h3']
          | false =>
            have hak' : strLt a k' = true := strLt_total _ _ e2 h2
            have hkk' : strLt k k' = true := strLt_trans _ _ _ h1 hak'
            have hk'k := strLt_asymm _ _ hkk'
            simp only [insertExtra_cons_gt _ _ _ _ _ e2 h2, insertExtra_cons_lt _ _ _ _ _ e1 h1,
              insertExtra_cons_gt _ _ _ _ _ hne' hk'k]
        | false =>
          cases h2 : strLt k' a with
          | true =>
            have hak : strLt a k = true := strLt_total _ _ e1 h1
            have hk'k : strLt k' k = true := strLt_trans _ _ _ h2 hak
            have hkk' := strLt_asymm _ _ hk'k
            simp only [insertExtra_cons_lt _ _ _ _ _ e2 h2, insertExtra_cons_gt _ _ _ _ _ e1 h1,
              insertExtra_cons_gt _ _ _ _ _ hne hkk']
          | false =>
            simp only [insertExtra_cons_gt _ _ _ _ _ e2 h2, insertExtra_cons_gt _ _ _ _ _ e1 h1, ih]

/-- folding insertions from a start that already holds `k0`: the entry survives unless the list sets the key again -/
theorem foldl_insertExtra_start {β} (g : β → AField) (k0 : Str) (v0 : AField) (l : List (Str × β))
    (acc : List (Str × AField)) :
    l.foldl (fun acc kv => insertExtra kv.1 (g kv.2) acc) (insertExtra k0 v0 acc) =
      if k0 ∈ l.map (·.1) then l.foldl (fun acc kv => insertExtra kv.1 (g kv.2) acc) acc
      else insertExtra k0 v0 (l.foldl (fun acc kv => insertExtra kv.1 (g kv.2) acc) acc) := by
  induction l generalizing acc with
  | nil => simp
  | cons y ys ih =>
    obtain ⟨k, b⟩ := y
    simp only [List.foldl_cons, List.map_cons, List.mem_cons]
    by_cases e : k0 = k
    · subst e
      rw [insertExtra_override]
      simp
    · rw [insertExtra_comm k k0 _ _ (fun h => e h.symm), ih]
      have e' : ¬ k0 = k := e
      simp only [e', false_or]

/-- removing what an insertion added -/
theorem filter_insertExtra (p : Str × AField → Bool) (k : Str) (v : AField) (l : List (Str × AField))
    (hp : p (k, v) = false) (hl : ∀ x ∈ l, p x = true) (hk : k ∉ l.map (·.1)) :
    (insertExtra k v l).filter p = l := by
  induction l with
  | nil => simp [insertExtra, hp]
  | cons y ys ih =>
    obtain ⟨k', v'⟩ := y
    have h1 : k ≠ k' := by intro e; apply hk; simp [e]
    have hy := hl (k', v') (List.mem_cons_self ..)
    have hys : ys.filter p = ys := List.filter_eq_self.2 (fun x hx => hl x (List.mem_cons_of_mem _ hx))
    cases h2 : strLt k k' with
    | true =>
      rw [insertExtra_cons_lt _ _ _ _ _ h1 h2]
      simp [hp, hy, hys]
    | false =>
      rw [insertExtra_cons_gt _ _ _ _ _ h1 h2, List.filter_cons, hy]
      simp only [if_true]
      rw [ih (fun x hx => hl x (List.mem_cons_of_mem _ hx)) (fun hm => hk (by simp at hm ⊢; exact Or.inr hm))]

end Zarrs.Meta
