import ZarrsModel.Lemmas.ChainSDecShard
set_option Elab.async false
/- helper lemmas for C03 on (nested) sharded chains, part 3: the declared size bounds every encoding -/
namespace Zarrs.Partial
open Zarrs Zarrs.Codec Zarrs.Subset

theorem bBound_none (stages : List BStage) : bBound stages none = none := by
  induction stages with
  | nil => rfl
  | cons st rest ih => cases st <;> simp [bBound, ih]

theorem bBound_length (stages : List BStage) : ∀ (b : Bytes) (s n : Nat),
    bBound stages (some s) = some n → b.length ≤ s → (stages.foldl (fun b st => st.enc b) b).length ≤ n := by
  induction stages with
  | nil =>
    intro b s n hf hb
    simp only [bBound, Option.some.injEq] at hf
    subst hf
    exact hb
  | cons st rest ih =>
    intro b s n hf hb
    rw [List.foldl_cons]
    cases st with
    | stripSuffix m sum =>
      simp only [bBound, Option.map_some] at hf
      exact ih _ (s + 4) n hf (by simp only [BStage.enc, checksumEnc_length]; omega)
    | cache =>
      simp only [bBound] at hf
      exact ih _ s n hf hb
    | decodeAll e d => simp [bBound] at hf

/-- **the declared size bounds every encoding** (`CodecChain::encoded_representation` with
`ShardingCodec::encoded_representation`), at every nesting depth -/
theorem chainS_size' {B : BStage → Prop} : ∀ (c : ChainS) (sh : Shape) (fill : Elem) (xs : List Elem) (n : Nat),
    c.okWith aOk B sh fill → xs.length = prod sh → (∀ x ∈ xs, x.length = c.es) → c.bound sh = some n →
    (c.encode sh fill xs).length ≤ n := by
  intro c
  induction c with
  | leaf c keep =>
    intro sh fill xs n hok hxl hxe hb
    exact Nat.le_of_eq (chain_encode_length c keep sh xs n hok.2.1 hok.2.2.1 hxl hxe hok.2.2.2.1 hok.2.2.2.2.2 hb)
  | shard a2a cfg ish es inner b2b ih =>
    intro sh fill xs n hok hxl hxe hb
    obtain ⟨ha, ht, _, hfl, hies, hiok⟩ := hok
    simp only [ChainS.es] at hxe
    obtain ⟨hyl, hye⟩ := aEnc_chunk es a2a sh xs ha hxl hxe
    simp only [ChainS.bound] at hb
    cases hm : inner.bound ish with
    | none => rw [hm] at hb; simp only [Option.map_none, bBound_none] at hb; cases hb
    | some m =>
      rw [hm] at hb
      simp only [Option.map_some] at hb
      simp only [ChainS.encode, encodeA2A_eq]
      apply bBound_length b2b _ _ n hb
      have hclen : (shardChunks (inner.encode ish fill) fill (shapesOf a2a sh) ish (aEnc a2a sh xs)).length =
          prod (zipDiv (shapesOf a2a sh) ish) := by simp [shardChunks, splitShard_length]
      rw [Shard.shard_length _ _ hclen, ← Shard.dataOf_length]
      have := Shard.dataOf_length_le (shardChunks (inner.encode ish fill) fill (shapesOf a2a sh) ish (aEnc a2a sh xs)) m
        (by
          intro ch hch b hb'
          subst hb'
          simp only [shardChunks, List.mem_map] at hch
          obtain ⟨p, hp, hpe⟩ := hch
          split at hpe
          · cases hpe
          · simp only [Option.some.injEq] at hpe
            subst hpe
            obtain ⟨hpl, hpm⟩ := splitShard_piece ht _ hyl p hp
            exact ih ish fill p m hiok hpl (by rw [hies]; exact fun x hx => hye x (hpm x hx)) hm)
      rw [hclen] at this
      omega

end Zarrs.Partial
