import ZarrsModel.Lemmas.FaultOps
import ZarrsModel.Lemmas.Fault
set_option Elab.async false
set_option linter.unusedSectionVars false
/-
Array methods as operation-level programs: refinement of `Model/Array.lean` (`fops_refines`), which programs are
read-only / write-last, and what a (sequential or parallel) run of per-chunk steps leaves in the store.
-/
namespace Zarrs
namespace ArrCfg
variable {α : Type} [BEq α] (cfg : ArrCfg α)

theorem chunkShape_none_of_len (c : Idx) (h : ¬ c.length = cfg.grid.length) : cfg.chunkShape c = none := by
  simp [chunkShape, h]

theorem storeChunkP_pure (st : KV) (c : Idx) (d : List α) :
    (cfg.storeChunkP c d).pure st = (cfg.storeChunk st c d).map (fun m => ((), m)) := by
  unfold storeChunkP storeChunk
  cases cfg.chunkShape c with
  | none => rfl
  | some s =>
    simp only
    split
    · rfl
    · split <;> rfl

theorem retrieveChunkIfExistsP_pure (st : KV) (c : Idx) (h : c.length = cfg.grid.length → (cfg.chunkShape c).isSome = true) :
    (cfg.retrieveChunkIfExistsP c).pure st = (cfg.retrieveChunkIfExists st c).map (fun v => (v, st)) := by
  unfold retrieveChunkIfExistsP retrieveChunkIfExists
  by_cases hl : c.length = cfg.grid.length
  · have hne : (c.length != cfg.grid.length) = false := by simp [hl]
    obtain ⟨s, hs⟩ := Option.isSome_iff_exists.1 (h hl)
    simp only [hne, hs, Bool.false_eq_true, ↓reduceIte, Prog.pure]
    cases st.get (cfg.keyOf c) with
    | none => rfl
    | some b =>
      simp only
      cases cfg.dec b with
      | none => rfl
      | some xs => simp only; split <;> rfl
  · have hne : (c.length != cfg.grid.length) = true := by simp [hl]
    simp only [hne, ↓reduceIte, chunkShape_none_of_len cfg c hl, Prog.pure, Option.map_none]

theorem retrieveChunkP_pure (st : KV) (c : Idx) :
    (cfg.retrieveChunkP c).pure st = (cfg.retrieveChunk st c).map (fun xs => (xs, st)) := by
  unfold retrieveChunkP retrieveChunk
  rw [Prog.pure_bind]
  by_cases hl : c.length = cfg.grid.length
  · cases hs : cfg.chunkShape c with
    | none =>
      unfold retrieveChunkIfExistsP
      have hne : (c.length != cfg.grid.length) = false := by simp [hl]
      simp only [hne, Bool.false_eq_true, ↓reduceIte, Prog.pure, hs]
      cases st.get (cfg.keyOf c) <;> rfl
    | some s =>
      rw [retrieveChunkIfExistsP_pure cfg st c (fun _ => by simp [hs])]
      cases cfg.retrieveChunkIfExists st c with
      | none => rfl
      | some v => cases v <;> rfl
  · unfold retrieveChunkIfExistsP
    have hne : (c.length != cfg.grid.length) = true := by simp [hl]
    simp only [hne, ↓reduceIte, chunkShape_none_of_len cfg c hl, Prog.pure, Option.map_none]
theorem readsThen_pure {β} (k : Key) (p : Prog β) (m : KV) : ∀ j, (readsThen k j p).pure m = p.pure m
  | 0 => rfl
  | j + 1 => by simp only [readsThen, Prog.pure]; exact readsThen_pure k p m j

theorem readsThen_ops {β} (k : Key) (p : Prog β) (m : KV) : ∀ j, (readsThen k j p).ops m = j + p.ops m
  | 0 => by simp [readsThen]
  | j + 1 => by simp only [readsThen, Prog.ops]; rw [readsThen_ops k p m j]; omega

theorem decodeOrFill_eq (st : KV) (c : Idx) (s : Shape) (hs : cfg.chunkShape c = some s) :
    cfg.retrieveChunk st c = cfg.decodeOrFill s (st.get (cfg.keyOf c)) := by
  have hl : c.length = cfg.grid.length := by
    by_cases hl : c.length = cfg.grid.length
    · exact hl
    · rw [chunkShape_none_of_len cfg c hl] at hs; cases hs
  simp only [retrieveChunk, retrieveChunkIfExists, hs, decodeOrFill]
  cases st.get (cfg.keyOf c) with
  | none => rfl
  | some b =>
    simp only
    cases cfg.dec b with
    | none => rfl
    | some xs =>
      simp only
      cases hx : (xs.length == prod s) with
      | true => simp only [↓reduceIte]
      | false => simp only [Bool.false_eq_true, ↓reduceIte]

theorem retrieveChunkSubsetP_pure (extra : Option Bytes → Subset → Nat) (st : KV) (c : Idx) (r : Subset) :
    (cfg.retrieveChunkSubsetP extra c r).pure st = (cfg.retrieveChunkSubset st c r).map (fun xs => (xs, st)) := by
  unfold retrieveChunkSubsetP retrieveChunkSubset
  cases hs : cfg.chunkShape c with
  | none => rfl
  | some s =>
    simp only
    split
    · rfl
    · split
      · rw [Prog.bind_ret_pure, retrieveChunkP_pure]
        cases cfg.retrieveChunk st c <;> rfl
      · simp only [Prog.pure, readsThen_pure]
        rw [decodeOrFill_eq cfg st c s hs]
        cases cfg.decodeOrFill s (st.get (cfg.keyOf c)) <;> rfl

theorem storeChunkSubsetP_pure (st : KV) (c : Idx) (r : Subset) (d : List α) :
    (cfg.storeChunkSubsetP c r d).pure st = (cfg.storeChunkSubset st c r d).map (fun m => ((), m)) := by
  unfold storeChunkSubsetP storeChunkSubset
  cases hs : cfg.chunkShape c with
  | none => rfl
  | some s =>
    simp only
    split
    · rfl
    · split
      · exact storeChunkP_pure cfg st c d
      · split
        · rfl
        · rw [Prog.pure_bind, retrieveChunkP_pure]
          cases cfg.retrieveChunk st c with
          | none => rfl
          | some old => exact storeChunkP_pure cfg st c _

/-- a sequence of steps each refining a pure step refines the fold -/
theorem seq_map_pure {σ} (stepP : σ → Prog Unit) (step : KV → σ → Option KV)
    (h : ∀ m c, (stepP c).pure m = (step m c).map (fun m' => ((), m'))) :
    ∀ (l : List σ) (m : KV), (Prog.seq (l.map stepP)).pure m = (foldOpt step m l).map (fun m' => ((), m'))
  | [], m => rfl
  | c :: l, m => by
    simp only [List.map_cons, foldOpt]
    rw [Prog.seq_pure_step, h]
    cases step m c with
    | none => rfl
    | some m' => exact seq_map_pure stepP step h l m'

theorem storeChunksStepP_pure (region : Subset) (d : List α) (m : KV) (c : Idx) :
    (cfg.storeChunksStepP region d c).pure m = (cfg.storeChunksChunk region d m c).map (fun m' => ((), m')) := by
  unfold storeChunksStepP storeChunksChunk
  cases cfg.chunkSubset c with
  | none => rfl
  | some cs => exact storeChunkP_pure cfg m c _

theorem storeArraySubsetStepP_pure (region : Subset) (d : List α) (m : KV) (c : Idx) :
    (cfg.storeArraySubsetStepP region d c).pure m = (cfg.storeArraySubsetChunk region d m c).map (fun m' => ((), m')) := by
  unfold storeArraySubsetStepP storeArraySubsetChunk
  cases cfg.chunkSubset c with
  | none => rfl
  | some cs => exact storeChunkSubsetP_pure cfg m c _ _

theorem seq_single (p : Prog Unit) (m : KV) : (Prog.seq [p]).pure m = p.pure m := by
  rw [Prog.seq_pure_step]
  cases p.pure m with
  | none => rfl
  | some r => rfl

theorem storeChunksPlan_pure (st : KV) (box : Subset) (d : List α) :
    (cfg.storeChunksPlan box d).prog.pure st = (cfg.storeChunks st box d).map (fun m => ((), m)) := by
  unfold storeChunksPlan storeChunks Plan.prog Plan.exec
  generalize box.numElements = n
  match n with
  | 0 => simp only; split <;> rfl
  | 1 =>
    simp only [Plan.steps]
    rw [seq_single]
    exact storeChunkP_pure cfg st _ d
  | n + 2 =>
    simp only
    cases cfg.grid.chunksSubset box with
    | none => rfl
    | some region =>
      simp only
      split
      · rfl
      · simp only [Plan.steps, Plan.chunks]
        exact seq_map_pure _ _ (fun m c => storeChunksStepP_pure cfg region d m c) _ st

theorem storeArraySubsetPlan_pure (st : KV) (region : Subset) (d : List α) :
    (cfg.storeArraySubsetPlan region d).prog.pure st = (cfg.storeArraySubset st region d).map (fun m => ((), m)) := by
  unfold storeArraySubsetPlan storeArraySubset Plan.prog Plan.exec
  split
  · rfl
  · cases cfg.grid.chunksInArraySubset region cfg.shape with
    | none => rfl
    | some chunks =>
      simp only
      split
      · cases cfg.chunkSubset chunks.start with
        | none => rfl
        | some cs =>
          simp only
          split
          · simp only [Plan.steps]; rw [seq_single]; exact storeChunkP_pure cfg st _ d
          · simp only [Plan.steps]; rw [seq_single]; exact storeChunkSubsetP_pure cfg st _ _ d
      · split
        · rfl
        · simp only [Plan.steps, Plan.chunks]
          exact seq_map_pure _ _ (fun m c => storeArraySubsetStepP_pure cfg region d m c) _ st

theorem eraseChunksPlan_pure (st : KV) (box : Subset) :
    (cfg.eraseChunksPlan box).prog.pure st = some ((), cfg.eraseChunks st box) := by
  unfold eraseChunksPlan eraseChunks Plan.prog Plan.exec
  simp only [Plan.steps, Plan.chunks]
  generalize box.indices = l
  induction l generalizing st with
  | nil => rfl
  | cons c l ih =>
    simp only [List.map_cons, List.foldl_cons]
    rw [Prog.seq_pure_step]
    simp only [eraseChunkP, Prog.pure]
    exact ih _

/-- **`fops_refines` for the write methods**: without faults the operation-level method (closures in the order of
`chunks.indices()`) is the method of `Model/Array.lean` -/
theorem planOf_pure (st : KV) (op : WriteOp α) :
    (cfg.planOf op).prog.pure st = (cfg.applyOp st op).map (fun m => ((), m)) := by
  cases op with
  | storeChunk c d =>
    simp only [planOf, applyOp, Plan.prog, Plan.exec, Plan.steps]; rw [seq_single]; exact storeChunkP_pure cfg st c d
  | storeChunks b d => exact storeChunksPlan_pure cfg st b d
  | storeChunkSubset c r d =>
    simp only [planOf, applyOp, Plan.prog, Plan.exec, Plan.steps]; rw [seq_single]; exact storeChunkSubsetP_pure cfg st c r d
  | storeArraySubset r d => exact storeArraySubsetPlan_pure cfg st r d
  | eraseChunk c =>
    simp only [planOf, applyOp, Plan.prog, Plan.exec, Plan.steps]; rw [seq_single]; rfl
  | eraseChunks b => simp only [planOf, applyOp, Option.map_some]; exact eraseChunksPlan_pure cfg st b

theorem readStepsP_pure (extra : Option Bytes → Subset → Nat) (region : Subset) (st : KV) :
    ∀ (l : List Idx) (out : List α), (cfg.readStepsP extra region l out).pure st =
      (foldOpt (fun out c =>
        match cfg.chunkSubset c with
        | none => none
        | some cs =>
          let ov := cs.overlap region
          match cfg.retrieveChunkSubset st c (ov.relativeTo cs.start) with
          | none => none
          | some part => some (updateRuns region.shape (ov.relativeTo region.start) out part)) out l).map (fun xs => (xs, st))
  | [], out => rfl
  | c :: l, out => by
    simp only [readStepsP, foldOpt]
    cases cfg.chunkSubset c with
    | none => rfl
    | some cs =>
      simp only
      rw [Prog.pure_bind, retrieveChunkSubsetP_pure]
      cases cfg.retrieveChunkSubset st c ((cs.overlap region).relativeTo cs.start) with
      | none => rfl
      | some part => exact readStepsP_pure extra region st l _

theorem retrieveArraySubsetP_pure (extra : Option Bytes → Subset → Nat) (st : KV) (region : Subset) :
    (cfg.retrieveArraySubsetP extra id region).pure st = (cfg.retrieveArraySubset st region).map (fun xs => (xs, st)) := by
  unfold retrieveArraySubsetP retrieveArraySubset
  split
  · rfl
  · cases cfg.grid.chunksInArraySubset region cfg.shape with
    | none => rfl
    | some chunks =>
      simp only
      generalize chunks.numElements = n
      match n with
      | 0 => rfl
      | 1 =>
        simp only
        cases cfg.chunkSubset chunks.start with
        | none => rfl
        | some cs =>
          simp only
          split
          · exact retrieveChunkP_pure cfg st _
          · exact retrieveChunkSubsetP_pure cfg extra st _ _
      | n + 2 => exact readStepsP_pure cfg extra region st _ _


/-! ### which programs only read, and which write once, last -/

theorem retrieveChunkIfExistsP_readOnly (c : Idx) : (cfg.retrieveChunkIfExistsP c).readOnly := by
  unfold retrieveChunkIfExistsP
  split
  · trivial
  · intro v
    cases v with
    | none => trivial
    | some b =>
      simp only
      cases cfg.chunkShape c with
      | none => trivial
      | some s =>
        simp only
        cases cfg.dec b with
        | none => trivial
        | some xs => simp only; split <;> trivial

theorem retrieveChunkP_readOnly (c : Idx) : (cfg.retrieveChunkP c).readOnly := by
  unfold retrieveChunkP
  apply Prog.readOnly_bind _ _ (retrieveChunkIfExistsP_readOnly cfg c)
  intro v
  cases v with
  | some xs => trivial
  | none => simp only; cases cfg.chunkShape c <;> trivial

theorem readsThen_readOnly {β} (k : Key) (p : Prog β) (h : p.readOnly) : ∀ j, (readsThen k j p).readOnly
  | 0 => h
  | j + 1 => fun _ => readsThen_readOnly k p h j

theorem retrieveChunkSubsetP_readOnly (extra : Option Bytes → Subset → Nat) (c : Idx) (r : Subset) :
    (cfg.retrieveChunkSubsetP extra c r).readOnly := by
  unfold retrieveChunkSubsetP
  cases cfg.chunkShape c with
  | none => trivial
  | some s =>
    simp only
    split
    · trivial
    · split
      · exact Prog.readOnly_bind _ _ (retrieveChunkP_readOnly cfg c) (fun _ => trivial)
      · intro old
        apply readsThen_readOnly
        cases cfg.decodeOrFill s old <;> trivial

theorem readStepsP_readOnly (extra : Option Bytes → Subset → Nat) (region : Subset) :
    ∀ (l : List Idx) (out : List α), (cfg.readStepsP extra region l out).readOnly
  | [], out => trivial
  | c :: l, out => by
    simp only [readStepsP]
    cases cfg.chunkSubset c with
    | none => trivial
    | some cs =>
      exact Prog.readOnly_bind _ _ (retrieveChunkSubsetP_readOnly cfg extra c _)
        (fun part => readStepsP_readOnly extra region l _)

theorem retrieveArraySubsetP_readOnly (extra : Option Bytes → Subset → Nat) (order : List Idx → List Idx)
    (region : Subset) : (cfg.retrieveArraySubsetP extra order region).readOnly := by
  unfold retrieveArraySubsetP
  split
  · trivial
  · cases cfg.grid.chunksInArraySubset region cfg.shape with
    | none => trivial
    | some chunks =>
      simp only
      generalize chunks.numElements = n
      match n with
      | 0 => trivial
      | 1 =>
        simp only
        cases cfg.chunkSubset chunks.start with
        | none => trivial
        | some cs =>
          simp only
          split
          · exact retrieveChunkP_readOnly cfg _
          · exact retrieveChunkSubsetP_readOnly cfg extra _ _
      | n + 2 => exact readStepsP_readOnly cfg extra region _ _

theorem cacheFillP_readOnly (kind : CacheKind) (c : Idx) : (cfg.cacheFillP kind c).readOnly := by
  cases kind with
  | decoded => exact Prog.readOnly_bind _ _ (retrieveChunkP_readOnly cfg c) (fun _ => trivial)
  | encoded => exact fun _ => trivial

theorem storeChunkP_writeLast (c : Idx) (d : List α) : (cfg.storeChunkP c d).writeLast := by
  unfold storeChunkP
  cases cfg.chunkShape c with
  | none => trivial
  | some s =>
    simp only
    split
    · trivial
    · split <;> exact ⟨(), rfl⟩

theorem eraseChunkP_writeLast (c : Idx) : (cfg.eraseChunkP c).writeLast := ⟨(), rfl⟩

theorem storeChunkSubsetP_writeLast (c : Idx) (r : Subset) (d : List α) : (cfg.storeChunkSubsetP c r d).writeLast := by
  unfold storeChunkSubsetP
  cases cfg.chunkShape c with
  | none => trivial
  | some s =>
    simp only
    split
    · trivial
    · split
      · exact storeChunkP_writeLast cfg c d
      · split
        · trivial
        · exact Prog.writeLast_bind _ _ (retrieveChunkP_readOnly cfg c) (fun _ => storeChunkP_writeLast cfg c _)

theorem storeChunksStepP_writeLast (region : Subset) (d : List α) (c : Idx) :
    (cfg.storeChunksStepP region d c).writeLast := by
  unfold storeChunksStepP
  cases cfg.chunkSubset c with
  | none => trivial
  | some cs => exact storeChunkP_writeLast cfg c _

theorem storeArraySubsetStepP_writeLast (region : Subset) (d : List α) (c : Idx) :
    (cfg.storeArraySubsetStepP region d c).writeLast := by
  unfold storeArraySubsetStepP
  cases cfg.chunkSubset c with
  | none => trivial
  | some cs => exact storeChunkSubsetP_writeLast cfg c _ _

/-! ### operation counts of the single-chunk paths -/

theorem storeChunkP_ops (st st' : KV) (c : Idx) (d : List α) (h : cfg.storeChunk st c d = some st') :
    (cfg.storeChunkP c d).ops st = 1 := by
  unfold storeChunkP
  unfold storeChunk at h
  cases hs : cfg.chunkShape c with
  | none => rw [hs] at h; cases h
  | some s =>
    rw [hs] at h
    simp only at h ⊢
    split
    · rename_i hd; rw [if_pos hd] at h; cases h
    · split <;> rfl

theorem retrieveChunkP_ops (st : KV) (c : Idx) (hl : c.length = cfg.grid.length) :
    (cfg.retrieveChunkP c).ops st = 1 := by
  unfold retrieveChunkP
  rw [Prog.ops_bind]
  unfold retrieveChunkIfExistsP
  have hne : (c.length != cfg.grid.length) = false := by simp [hl]
  simp only [hne, Bool.false_eq_true, ↓reduceIte, Prog.ops, Prog.pure]
  cases st.get (cfg.keyOf c) with
  | none =>
    simp only [Prog.ops, Prog.pure]
    cases cfg.chunkShape c <;> rfl
  | some b =>
    simp only
    cases cfg.chunkShape c with
    | none => rfl
    | some s =>
      simp only
      cases cfg.dec b with
      | none => rfl
      | some xs => simp only; split <;> rfl

/-- **the read-modify-write path is two operations**: GET then SET/ERASE -/
theorem storeChunkSubsetP_ops_rmw (st st' : KV) (c : Idx) (r : Subset) (d : List α) (s : Shape)
    (hs : cfg.chunkShape c = some s) (hpart : (r.shape == s && r.start.all (· == 0)) = false)
    (h : cfg.storeChunkSubset st c r d = some st') : (cfg.storeChunkSubsetP c r d).ops st = 2 := by
  have hl : c.length = cfg.grid.length := by
    by_cases hl : c.length = cfg.grid.length
    · exact hl
    · rw [chunkShape_none_of_len cfg c hl] at hs; cases hs
  unfold storeChunkSubsetP
  unfold storeChunkSubset at h
  rw [hs] at h ⊢
  simp only [hpart, Bool.false_eq_true, ↓reduceIte] at h ⊢
  split
  · rename_i h1; rw [if_pos h1] at h; cases h
  · rename_i h1
    rw [if_neg h1] at h
    split
    · rename_i h2; rw [if_pos h2] at h; cases h
    · rename_i h2
      rw [if_neg h2] at h
      rw [Prog.ops_bind, retrieveChunkP_ops cfg st c hl, retrieveChunkP_pure]
      cases hr : cfg.retrieveChunk st c with
      | none => rw [hr] at h; cases h
      | some old =>
        rw [hr] at h
        simp only [Option.map_some]
        rw [storeChunkP_ops cfg st st' c _ h]

/-! ### what a run of per-chunk steps leaves in the store -/

/-- **parallel run**: every closure started (in the order `order`), any failing set.  The store it leaves is the store
left by the steps of some sub-list `done` of `order` — the closures that did not fail — because a failed step leaves
the store unchanged -/
theorem runAll_done {σ} (stepP : σ → Prog Unit) (step : KV → σ → Option KV)
    (href : ∀ m c, (stepP c).pure m = (step m c).map (fun m' => ((), m')))
    (hwl : ∀ c, (stepP c).writeLast) :
    ∀ (order : List σ) (s : FStore), ∃ done, done.Sublist order ∧
      foldOpt step s.m done = some (Prog.runAll (order.map stepP) s).st.m ∧
      ((Prog.runAll (order.map stepP) s).isOk = true → done = order)
  | [], s => ⟨[], List.Sublist.refl _, rfl, fun _ => rfl⟩
  | c :: rest, s => by
    obtain ⟨m, n, F⟩ := s
    simp only [List.map_cons, Prog.runAll]
    cases hr : (stepP c).run ⟨m, n, F⟩ with
    | ok v s' =>
      obtain ⟨hp, _, _, _⟩ := Prog.run_ok _ m n F v s' hr
      rw [href] at hp
      cases hst : step m c with
      | none => rw [hst] at hp; cases hp
      | some m1 =>
        rw [hst] at hp
        simp only [Option.map_some, Option.some.injEq, Prod.mk.injEq, true_and] at hp
        obtain ⟨done, hsub, hfold, hok⟩ := runAll_done stepP step href hwl rest s'
        refine ⟨c :: done, hsub.cons_cons c, ?_, fun h => by rw [hok h]⟩
        simp only [foldOpt, hst]
        rw [← hp] at hfold
        exact hfold
    | err s' =>
      have hm : s'.m = m := Prog.writeLast_err _ (hwl c) m n F s' hr
      obtain ⟨done, hsub, hfold, _⟩ := runAll_done stepP step href hwl rest s'
      refine ⟨done, hsub.cons c, ?_, fun h => by simp [FR.isOk] at h⟩
      rw [hm] at hfold
      exact hfold

/-- **sequential run** (stops at the first error): the store left is that of the steps of a sub-list (a prefix) -/
theorem seq_done {σ} (stepP : σ → Prog Unit) (step : KV → σ → Option KV)
    (href : ∀ m c, (stepP c).pure m = (step m c).map (fun m' => ((), m')))
    (hwl : ∀ c, (stepP c).writeLast) :
    ∀ (order : List σ) (s : FStore), ∃ done, done.Sublist order ∧
      foldOpt step s.m done = some ((Prog.seq (order.map stepP)).run s).st.m ∧
      (((Prog.seq (order.map stepP)).run s).isOk = true → done = order)
  | [], s => ⟨[], List.Sublist.refl _, rfl, fun _ => rfl⟩
  | c :: rest, s => by
    obtain ⟨m, n, F⟩ := s
    simp only [List.map_cons, Prog.seq]
    rw [Prog.run_bind]
    cases hr : (stepP c).run ⟨m, n, F⟩ with
    | ok v s' =>
      obtain ⟨hp, _, _, _⟩ := Prog.run_ok _ m n F v s' hr
      rw [href] at hp
      cases hst : step m c with
      | none => rw [hst] at hp; cases hp
      | some m1 =>
        rw [hst] at hp
        simp only [Option.map_some, Option.some.injEq, Prod.mk.injEq, true_and] at hp
        obtain ⟨done, hsub, hfold, hok⟩ := seq_done stepP step href hwl rest s'
        refine ⟨c :: done, hsub.cons_cons c, ?_, fun h => by rw [hok h]⟩
        simp only [foldOpt, hst]
        rw [← hp] at hfold
        exact hfold
    | err s' =>
      have hm : s'.m = m := Prog.writeLast_err _ (hwl c) m n F s' hr
      refine ⟨[], List.nil_sublist _, ?_, fun h => by simp [FR.isOk] at h⟩
      simp only [foldOpt, FR.st, hm]

variable {keyOf : Idx → Key} {W : Idx → Option Bytes → Option (Option Bytes)}

/-- chunk-granular state after the steps of any duplicate-free list `done` of chunks of the method (in ANY order) -/
theorem kvStep_granular (chunks : List Idx) (hndC : (chunks.map keyOf).Nodup) (st stFull st' : KV)
    (hfull : foldOpt (kvStep keyOf W) st chunks = some stFull)
    (done : List Idx) (hndD : (done.map keyOf).Nodup) (hsub : ∀ c ∈ done, c ∈ chunks)
    (hpart : foldOpt (kvStep keyOf W) st done = some st') :
    ∀ k : Key, st'.get k = st.get k ∨ st'.get k = stFull.get k := by
  obtain ⟨hF, _, _⟩ := foldOpt_kvStep_some _ _ _ hndC st stFull hfull
  obtain ⟨hP, hPframe, _⟩ := foldOpt_kvStep_some _ _ _ hndD st st' hpart
  intro k
  by_cases hk : k ∈ done.map keyOf
  · obtain ⟨c, hcd, rfl⟩ := List.mem_map.1 hk
    right
    have h1 := hP c hcd
    rw [hF c (hsub c hcd)] at h1
    exact (Option.some.inj h1).symm
  · left
    exact hPframe k hk

/-- re-running every step from such a state gives the fault-free final state, provided a step that finds its own
result writes it again (`hidem`) -/
theorem kvStep_retry (hKinj : ∀ a b, keyOf a = keyOf b → a = b)
    (hidem : ∀ c old w, W c old = some w → W c w = some w)
    (chunks : List Idx) (hndC : (chunks.map keyOf).Nodup) (st stFull st' : KV) (hs : st.sorted)
    (hfull : foldOpt (kvStep keyOf W) st chunks = some stFull)
    (done : List Idx) (hndD : (done.map keyOf).Nodup) (hsub : ∀ c ∈ done, c ∈ chunks)
    (hpart : foldOpt (kvStep keyOf W) st done = some st') :
    foldOpt (kvStep keyOf W) st' chunks = some stFull := by
  obtain ⟨hF, hFframe, hFs⟩ := foldOpt_kvStep_some _ _ _ hndC st stFull hfull
  obtain ⟨hP, hPframe, hPs⟩ := foldOpt_kvStep_some _ _ _ hndD st st' hpart
  have hstep : ∀ c ∈ chunks, W c (st'.get (keyOf c)) = some (stFull.get (keyOf c)) := by
    intro c hcm
    by_cases hcd : c ∈ done
    · have h1 := hP c hcd
      rw [hF c hcm] at h1
      rw [← Option.some.inj h1]
      exact hidem c _ _ (hF c hcm)
    · have hk : keyOf c ∉ done.map keyOf := by
        intro hm
        obtain ⟨c', hc'd, he⟩ := List.mem_map.1 hm
        exact hcd (hKinj _ _ he ▸ hc'd)
      rw [hPframe _ hk]
      exact hF c hcm
  obtain ⟨s2, hs2⟩ := foldOpt_kvStep_of _ _ _ hndC st' (fun c => stFull.get (keyOf c)) hstep
  obtain ⟨hR, hRframe, hRs⟩ := foldOpt_kvStep_some _ _ _ hndC st' s2 hs2
  rw [hs2]
  congr 1
  apply KV.ext_of_sorted s2 stFull (hRs (hPs hs)) (hFs hs)
  intro k
  by_cases hk : k ∈ chunks.map keyOf
  · obtain ⟨c, hcm, rfl⟩ := List.mem_map.1 hk
    have h1 := hR c hcm
    rw [hstep c hcm] at h1
    exact (Option.some.inj h1).symm
  · have hkd : k ∉ done.map keyOf := by
      intro hm
      obtain ⟨c, hcd, he⟩ := List.mem_map.1 hm
      exact hk (he ▸ List.mem_map_of_mem (hsub c hcd))
    rw [hRframe k hk, hPframe k hkd, hFframe k hk]

end ArrCfg
end Zarrs
