import ZarrsModel.Model.FsStore
import ZarrsModel.Lemmas.Store
/- one directory (`lookup1`, `put1`, `del1`), path resolution (`stat`), and the tree primitives
(`atDir`, `mkdirAll`) -/
set_option Elab.async false
namespace Zarrs.Fs
open Zarrs

/-- what `stat` found, without the content of a directory -/
inductive Kind where
  | noent
  | notdir
  | file (b : Bytes)
  | dir
deriving DecidableEq, Repr

def Stat.kind : Stat → Kind
  | .noent => .noent
  | .notdir => .notdir
  | .file b => .file b
  | .dir _ => .dir

def Ent.Inv : Ent → Prop
  | .file _ => True
  | .dir c => c.Inv

namespace Tree

theorem consInd {P : Tree → Prop} (t : Tree) (hnil : P .nil)
    (hcons : ∀ n e rest, P rest → P (cons n e rest)) : P t := by
  induction t with
  | nil => exact hnil
  | file n b rest ih => exact hcons n (.file b) rest ih
  | dir n c rest _ ih => exact hcons n (.dir c) rest ih

theorem lookup1_cons (n : Name) (e : Ent) (rest : Tree) (m : Name) :
    (cons n e rest).lookup1 m = if m = n then some e else rest.lookup1 m := by
  cases e <;> rfl

theorem names_cons (n : Name) (e : Ent) (rest : Tree) : (cons n e rest).names = n :: rest.names := by
  cases e <;> rfl

theorem put1_cons (n : Name) (e0 : Ent) (rest : Tree) (m : Name) (e : Ent) :
    (cons n e0 rest).put1 m e =
      if m = n then cons m e rest else if keyLt m n then cons m e (cons n e0 rest) else cons n e0 (rest.put1 m e) := by
  cases e0 <;> rfl

theorem del1_cons (n : Name) (e0 : Ent) (rest : Tree) (m : Name) :
    (cons n e0 rest).del1 m = if m = n then rest.del1 m else cons n e0 (rest.del1 m) := by
  cases e0 <;> rfl

theorem inv_cons (n : Name) (e : Ent) (rest : Tree) :
    (cons n e rest).Inv ↔ plainName n = true ∧ (∀ m ∈ rest.names, keyLt n m = true) ∧ e.Inv ∧ rest.Inv := by
  cases e with
  | file b => simp [cons, Tree.Inv, Ent.Inv]
  | dir c => simp [cons, Tree.Inv, Ent.Inv]

theorem lookup1_put1 (t : Tree) (m : Name) (e : Ent) (m' : Name) :
    (t.put1 m e).lookup1 m' = if m' = m then some e else t.lookup1 m' := by
  induction t using consInd with
  | hnil => simp [put1, lookup1_cons, lookup1]
  | hcons n e0 rest ih =>
    rw [put1_cons]
    by_cases h1 : m = n
    · subst h1
      simp only [if_true, lookup1_cons]
      by_cases h : m' = m <;> simp [h]
    · by_cases h2 : keyLt m n = true
      · rw [if_neg h1, if_pos h2]; simp only [lookup1_cons]
      · rw [if_neg h1, if_neg h2]; simp only [lookup1_cons, ih]
        by_cases h : m' = m
        · subst h; simp [h1]
        · simp [h]

theorem lookup1_del1 (t : Tree) (m m' : Name) :
    (t.del1 m).lookup1 m' = if m' = m then none else t.lookup1 m' := by
  induction t using consInd with
  | hnil => simp [del1, lookup1]
  | hcons n e0 rest ih =>
    rw [del1_cons]
    by_cases h1 : m = n
    · subst h1
      simp only [if_true, ih, lookup1_cons]
      by_cases h : m' = m <;> simp [h]
    · simp only [h1, if_false, lookup1_cons, ih]
      by_cases h : m' = m
      · subst h; simp [h1]
      · simp [h]

theorem mem_names_put1 (t : Tree) (m : Name) (e : Ent) (x : Name) :
    x ∈ (t.put1 m e).names ↔ x = m ∨ x ∈ t.names := by
  induction t using consInd with
  | hnil => simp [put1, names_cons, names]
  | hcons n e0 rest ih =>
    rw [put1_cons]
    by_cases h1 : m = n
    · subst h1; simp [names_cons]
    · by_cases h2 : keyLt m n = true
      · rw [if_neg h1, if_pos h2]; simp [names_cons]
      · rw [if_neg h1, if_neg h2]; simp only [names_cons, List.mem_cons, ih]
        constructor
        · rintro (h | h | h) <;> simp [h]
        · rintro (h | h | h) <;> simp [h]

theorem mem_names_del1 (t : Tree) (m x : Name) : x ∈ (t.del1 m).names ↔ x ≠ m ∧ x ∈ t.names := by
  induction t using consInd with
  | hnil => simp [del1, names]
  | hcons n e0 rest ih =>
    rw [del1_cons]
    by_cases h1 : m = n
    · subst h1
      simp only [if_true, ih, names_cons, List.mem_cons]
      constructor
      · rintro ⟨h, h'⟩; exact ⟨h, Or.inr h'⟩
      · rintro ⟨h, h' | h'⟩
        · exact absurd h' h
        · exact ⟨h, h'⟩
    · simp only [h1, if_false, names_cons, List.mem_cons, ih]
      constructor
      · rintro (h | ⟨h, h'⟩)
        · subst h; exact ⟨fun e => h1 e.symm, Or.inl rfl⟩
        · exact ⟨h, Or.inr h'⟩
      · rintro ⟨h, h' | h'⟩
        · exact Or.inl h'
        · exact Or.inr ⟨h, h'⟩

theorem lookup1_eq_none_iff (t : Tree) (m : Name) : t.lookup1 m = none ↔ m ∉ t.names := by
  induction t using consInd with
  | hnil => simp [lookup1, names]
  | hcons n e0 rest ih =>
    rw [lookup1_cons, names_cons]
    by_cases h : m = n
    · simp [h]
    · simp [h, ih]

theorem inv_lookup1 (t : Tree) (hi : t.Inv) (m : Name) (e : Ent) (h : t.lookup1 m = some e) :
    e.Inv ∧ plainName m = true := by
  induction t using consInd with
  | hnil => simp [lookup1] at h
  | hcons n e0 rest ih =>
    rw [inv_cons] at hi
    rw [lookup1_cons] at h
    by_cases hm : m = n
    · subst hm
      simp only [if_true, Option.some.injEq] at h
      subst h
      exact ⟨hi.2.2.1, hi.1⟩
    · rw [if_neg hm] at h
      exact ih hi.2.2.2 h

theorem inv_put1 (t : Tree) (hi : t.Inv) (m : Name) (e : Ent) (hm : plainName m = true) (he : e.Inv) :
    (t.put1 m e).Inv := by
  induction t using consInd with
  | hnil =>
    show (cons m e .nil).Inv
    rw [inv_cons]
    exact ⟨hm, by simp [names], he, trivial⟩
  | hcons n e0 rest ih =>
    rw [inv_cons] at hi
    obtain ⟨hn, hlt, he0, hr⟩ := hi
    rw [put1_cons]
    by_cases h1 : m = n
    · subst h1
      rw [if_pos rfl, inv_cons]
      exact ⟨hm, hlt, he, hr⟩
    · by_cases h2 : keyLt m n = true
      · rw [if_neg h1, if_pos h2, inv_cons]
        refine ⟨hm, ?_, he, (inv_cons _ _ _).2 ⟨hn, hlt, he0, hr⟩⟩
        intro x hx
        rw [names_cons, List.mem_cons] at hx
        rcases hx with rfl | hx
        · exact h2
        · exact keyLt_trans _ _ _ h2 (hlt x hx)
      · rw [if_neg h1, if_neg h2, inv_cons]
        refine ⟨hn, ?_, he0, ih hr⟩
        intro x hx
        rw [mem_names_put1] at hx
        rcases hx with rfl | hx
        · exact keyLt_total _ _ h1 (by simpa using h2)
        · exact hlt x hx

theorem inv_del1 (t : Tree) (hi : t.Inv) (m : Name) : (t.del1 m).Inv := by
  induction t using consInd with
  | hnil => exact trivial
  | hcons n e0 rest ih =>
    rw [inv_cons] at hi
    obtain ⟨hn, hlt, he0, hr⟩ := hi
    rw [del1_cons]
    by_cases h1 : m = n
    · rw [if_pos h1]; exact ih hr
    · rw [if_neg h1, inv_cons]
      refine ⟨hn, ?_, he0, ih hr⟩
      intro x hx
      rw [mem_names_del1] at hx
      exact hlt x hx.2

/-! ### path resolution -/

theorem stat_nil (t : Tree) : t.stat [] = .dir t := by
  cases t <;> rfl

theorem stat_cons (t : Tree) (n : Name) (rest : List Name) :
    t.stat (n :: rest) =
      match t.lookup1 n with
      | none => .noent
      | some (.file b) => (match rest with | [] => .file b | _ :: _ => .notdir)
      | some (.dir c) => c.stat rest := by
  cases t <;> rfl

theorem stat_nil_cons (n : Name) (rest : List Name) : Tree.nil.stat (n :: rest) = .noent := rfl

/-- resolving `pp ++ rest` continues from what `pp` resolves to -/
theorem stat_append (t : Tree) (pp rest : List Name) :
    t.stat (pp ++ rest) =
      match t.stat pp with
      | .dir d => d.stat rest
      | .file b => (match rest with | [] => .file b | _ :: _ => .notdir)
      | .noent => .noent
      | .notdir => .notdir := by
  induction pp generalizing t with
  | nil => rw [stat_nil]; rfl
  | cons n ps ih =>
    rw [List.cons_append, stat_cons, stat_cons]
    cases h : t.lookup1 n with
    | none => rfl
    | some e =>
      cases e with
      | dir c => exact ih c
      | file b =>
        cases ps with
        | nil => cases rest <;> rfl
        | cons p ps' => rfl

theorem stat_append_dir (t : Tree) (pp rest : List Name) (d : Tree) (h : t.stat pp = .dir d) :
    t.stat (pp ++ rest) = d.stat rest := by
  rw [stat_append, h]

theorem kind_dir_iff (s : Stat) : s.kind = .dir ↔ ∃ c, s = .dir c := by
  cases s <;> simp [Stat.kind]

/-! ### `atDir` -/

theorem atDir_ok (t : Tree) (dirs : List Name) (f : Tree → Except IoErr Tree) (t' : Tree)
    (h : t.atDir dirs f = .ok t') :
    ∃ d d', t.stat dirs = .dir d ∧ f d = .ok d' ∧ t'.stat dirs = .dir d' ∧
      ∀ path, (t'.stat path).kind =
        if dirs.isPrefixOf path then (d'.stat (path.drop dirs.length)).kind else (t.stat path).kind := by
  induction dirs generalizing t t' with
  | nil =>
    refine ⟨t, t', stat_nil t, h, stat_nil t', ?_⟩
    intro path
    simp
  | cons n rest ih =>
    unfold atDir at h
    cases hl : t.lookup1 n with
    | none => rw [hl] at h; cases h
    | some e =>
      cases e with
      | file b => rw [hl] at h; cases h
      | dir c =>
        rw [hl] at h
        simp only at h
        cases hc : c.atDir rest f with
        | error e => rw [hc] at h; cases h
        | ok c' =>
          rw [hc] at h
          simp only [Except.ok.injEq] at h
          subst h
          obtain ⟨d, d', h1, h2, h3, h4⟩ := ih c c' hc
          refine ⟨d, d', ?_, h2, ?_, ?_⟩
          · rw [stat_cons, hl]; exact h1
          · rw [stat_cons, lookup1_put1, if_pos rfl]; exact h3
          · intro path
            cases path with
            | nil => simp [stat_nil, Stat.kind]
            | cons m ms =>
              rw [stat_cons, lookup1_put1, stat_cons]
              by_cases hm : m = n
              · subst hm
                simp only [if_true, hl, List.isPrefixOf_cons_cons, beq_self_eq_true, Bool.true_and,
                  List.length_cons, List.drop_succ_cons]
                exact h4 ms
              · have : (n == m) = false := by simpa using fun e => hm e.symm
                simp only [hm, if_false, List.isPrefixOf_cons_cons, this, Bool.false_and, Bool.false_eq_true]

theorem atDir_noent (t : Tree) (dirs : List Name) (f : Tree → Except IoErr Tree) (h : t.stat dirs = .noent) :
    t.atDir dirs f = .error .notFound := by
  induction dirs generalizing t with
  | nil => rw [stat_nil] at h; cases h
  | cons n rest ih =>
    unfold atDir
    rw [stat_cons] at h
    cases hl : t.lookup1 n with
    | none => rfl
    | some e =>
      rw [hl] at h
      cases e with
      | file b => cases rest <;> cases h
      | dir c => simp only; rw [ih c h]

theorem atDir_dir (t : Tree) (dirs : List Name) (f : Tree → Except IoErr Tree) (d : Tree) (h : t.stat dirs = .dir d) :
    (∀ e, f d = .error e → t.atDir dirs f = .error e) ∧ (∀ d', f d = .ok d' → ∃ t', t.atDir dirs f = .ok t') := by
  induction dirs generalizing t with
  | nil =>
    rw [stat_nil] at h
    simp only [Stat.dir.injEq] at h
    subst h
    exact ⟨fun e he => he, fun d' hd => ⟨d', hd⟩⟩
  | cons n rest ih =>
    rw [stat_cons] at h
    cases hl : t.lookup1 n with
    | none => rw [hl] at h; cases h
    | some e =>
      rw [hl] at h
      cases e with
      | file b => cases rest <;> cases h
      | dir c =>
        obtain ⟨i1, i2⟩ := ih c h
        constructor
        · intro e he
          unfold atDir; rw [hl]; simp only; rw [i1 e he]
        · intro d' hd
          obtain ⟨c', hc'⟩ := i2 d' hd
          exact ⟨t.put1 n (.dir c'), by unfold atDir; rw [hl]; simp only; rw [hc']⟩

theorem atDir_inv (t : Tree) (dirs : List Name) (f : Tree → Except IoErr Tree) (t' : Tree)
    (hi : t.Inv) (hf : ∀ d d', d.Inv → f d = .ok d' → d'.Inv) (h : t.atDir dirs f = .ok t') : t'.Inv := by
  induction dirs generalizing t t' with
  | nil => exact hf t t' hi h
  | cons n rest ih =>
    unfold atDir at h
    cases hl : t.lookup1 n with
    | none => rw [hl] at h; cases h
    | some e =>
      cases e with
      | file b => rw [hl] at h; cases h
      | dir c =>
        rw [hl] at h
        simp only at h
        cases hc : c.atDir rest f with
        | error e => rw [hc] at h; cases h
        | ok c' =>
          rw [hc] at h
          simp only [Except.ok.injEq] at h
          subst h
          obtain ⟨hci, hn⟩ := inv_lookup1 t hi n _ hl
          exact inv_put1 t hi n _ hn (ih c c' hci hc)

/-! ### `mkdirAll` -/

theorem mkdirAll_ok (t : Tree) (dirs : List Name) (h : t.stat dirs = .noent ∨ ∃ d, t.stat dirs = .dir d) :
    ∃ t1 d1, t.mkdirAll dirs = .ok t1 ∧ t1.stat dirs = .dir d1 ∧
      ∀ path, (t1.stat path).kind =
        if path.isPrefixOf dirs && (t.stat path).kind == .noent then .dir else (t.stat path).kind := by
  induction dirs generalizing t with
  | nil =>
    refine ⟨t, t, rfl, stat_nil t, ?_⟩
    intro path
    cases path with
    | nil => simp [stat_nil, Stat.kind]
    | cons m ms => simp
  | cons n rest ih =>
    rw [stat_cons] at h
    cases hl : t.lookup1 n with
    | none =>
      have h0 : Tree.nil.stat rest = .noent ∨ ∃ d, Tree.nil.stat rest = .dir d := by
        cases rest with
        | nil => exact Or.inr ⟨_, rfl⟩
        | cons r rs => exact Or.inl rfl
      obtain ⟨c1, d1, h1, h2, h3⟩ := ih .nil h0
      refine ⟨t.put1 n (.dir c1), d1, ?_, ?_, ?_⟩
      · unfold mkdirAll; rw [hl]; simp only; rw [h1]
      · rw [stat_cons, lookup1_put1, if_pos rfl]; exact h2
      · intro path
        cases path with
        | nil => simp [stat_nil, Stat.kind]
        | cons m ms =>
          rw [stat_cons, lookup1_put1, stat_cons]
          by_cases hm : m = n
          · subst hm
            simp only [if_true, hl, List.isPrefixOf_cons_cons, beq_self_eq_true, Bool.true_and]
            rw [h3 ms]
            cases ms with
            | nil => simp [stat_nil, Stat.kind]
            | cons x xs => simp [stat_nil_cons, Stat.kind]
          · have : (m == n) = false := by simpa using hm
            simp only [hm, if_false, List.isPrefixOf_cons_cons, this, Bool.false_and, Bool.false_eq_true]
    | some e =>
      rw [hl] at h
      cases e with
      | file b =>
        cases rest with
        | nil => rcases h with h | ⟨d, h⟩ <;> cases h
        | cons r rs => rcases h with h | ⟨d, h⟩ <;> cases h
      | dir c =>
        obtain ⟨c1, d1, h1, h2, h3⟩ := ih c h
        refine ⟨t.put1 n (.dir c1), d1, ?_, ?_, ?_⟩
        · unfold mkdirAll; rw [hl]; simp only; rw [h1]
        · rw [stat_cons, lookup1_put1, if_pos rfl]; exact h2
        · intro path
          cases path with
          | nil => simp [stat_nil, Stat.kind]
          | cons m ms =>
            rw [stat_cons, lookup1_put1, stat_cons]
            by_cases hm : m = n
            · subst hm
              simp only [if_true, hl, List.isPrefixOf_cons_cons, beq_self_eq_true, Bool.true_and]
              exact h3 ms
            · have : (m == n) = false := by simpa using hm
              simp only [hm, if_false, List.isPrefixOf_cons_cons, this, Bool.false_and, Bool.false_eq_true]

theorem mkdirAll_inv (t : Tree) (dirs : List Name) (t1 : Tree) (hi : t.Inv) (hn : ∀ n ∈ dirs, plainName n = true)
    (h : t.mkdirAll dirs = .ok t1) : t1.Inv := by
  induction dirs generalizing t t1 with
  | nil => simp only [mkdirAll, Except.ok.injEq] at h; subst h; exact hi
  | cons n rest ih =>
    have hn' := fun x hx => hn x (List.mem_cons_of_mem _ hx)
    have hpn := hn n (List.mem_cons_self ..)
    unfold mkdirAll at h
    cases hl : t.lookup1 n with
    | none =>
      rw [hl] at h
      simp only at h
      cases hc : Tree.nil.mkdirAll rest with
      | error e => rw [hc] at h; cases h
      | ok c1 =>
        rw [hc] at h
        simp only [Except.ok.injEq] at h
        subst h
        exact inv_put1 t hi n _ hpn (ih .nil c1 trivial hn' hc)
    | some e =>
      rw [hl] at h
      cases e with
      | file b => cases h
      | dir c =>
        simp only at h
        cases hc : c.mkdirAll rest with
        | error e => rw [hc] at h; cases h
        | ok c1 =>
          rw [hc] at h
          simp only [Except.ok.injEq] at h
          subst h
          exact inv_put1 t hi n _ hpn (ih c c1 (inv_lookup1 t hi n _ hl).1 hn' hc)

end Tree
end Zarrs.Fs
