import ZarrsModel.Lemmas.DeflateTokens
set_option Elab.async false
/-
The header of a dynamic block: `dynamicTables` of the reader on the bits of any valid `DynHeader` (any HCLEN that
covers the used code-length symbols, any run-length encoding that expands to the code lengths) gives the two tables.
-/
namespace Zarrs.DeflateSpec
open Zarrs Zarrs.Inflate

/-! ### the code lengths of the code-length alphabet -/

theorem clLens_loop (syms : List Nat) (f : Nat → Nat) (hf : ∀ s, f s < 8) (r : Bits) (acc : List Nat) :
    dynamicTables.clLens syms.length (syms.flatMap (fun s => bitsLsb 3 (f s)) ++ r) acc =
      some (acc ++ syms.map f, r) := by
  induction syms generalizing acc with
  | nil => simp [dynamicTables.clLens]
  | cons s syms ih =>
    simp only [List.length_cons, List.flatMap_cons, List.append_assoc, dynamicTables.clLens]
    rw [takeBits_bitsLsb 3 (f s) _ (hf s)]
    simp only
    rw [ih]
    simp

theorem clOrder_inv : ∀ s, s < 19 →
    (clOrder.idxOf? s).any (fun i => decide (i < 19) && (clOrder.getD i 0 == s)) = true := by decide

theorem clLens_rebuild (cl : List Nat) (n : Nat) (hlen : cl.length = 19)
    (hz : ∀ s ∈ clOrder.drop n, cl.getD s 0 = 0) :
    (List.range 19).map (fun sym => match clOrder.idxOf? sym with
      | some i => ((clOrder.take n).map (fun s => cl.getD s 0)).getD i 0
      | none => 0) = cl := by
  apply List.ext_getElem
  · simp [hlen]
  · intro i h1 h2
    simp only [List.getElem_map, List.getElem_range]
    have hi : i < 19 := by simpa using h1
    have hinv := clOrder_inv i hi
    cases hidx : clOrder.idxOf? i with
    | none => rw [hidx] at hinv; simp at hinv
    | some j =>
      rw [hidx] at hinv
      simp only [Option.any_some, Bool.and_eq_true, decide_eq_true_eq, beq_iff_eq] at hinv
      obtain ⟨hj, hcj⟩ := hinv
      have hcl : (clOrder.length : Nat) = 19 := rfl
      have hcj' : clOrder[j]? = some i := by
        rw [List.getD_eq_getElem?_getD, List.getElem?_eq_getElem (by omega)] at hcj
        rw [List.getElem?_eq_getElem (by omega)]
        simpa using hcj
      have hci : cl.getD i 0 = cl[i] := by
        rw [List.getD_eq_getElem?_getD, List.getElem?_eq_getElem h2]; rfl
      simp only
      rw [List.getD_eq_getElem?_getD, List.getElem?_map, List.getElem?_take]
      by_cases hjn : j < n
      · rw [if_pos hjn, hcj']
        simpa using hci
      · rw [if_neg hjn]
        have hm : i ∈ clOrder.drop n := by
          have hlt : j - n < (clOrder.drop n).length := by rw [List.length_drop]; omega
          have : (clOrder.drop n)[j - n] = i := by
            rw [List.getElem_drop]
            have e : n + (j - n) = j := by omega
            have := List.getElem?_eq_getElem (l := clOrder) (i := j) (by omega)
            rw [hcj'] at this
            simp only [e]
            exact (Option.some.inj this).symm
          rw [← this]
          exact List.getElem_mem _
        have := hz i hm
        rw [hci] at this
        simp [this]

/-! ### the run-length encoded code lengths -/

theorem expandCl_length (syms : List ClSym) (acc all : List Nat) (h : expandCl syms acc = some all) :
    acc.length + syms.length ≤ all.length := by
  induction syms generalizing acc with
  | nil => simp only [expandCl, Option.some.injEq] at h; subst h; simp
  | cons s syms ih =>
    cases s with
    | len l =>
      simp only [expandCl] at h
      split at h
      · have := ih _ h
        simp only [List.length_append, List.length_cons, List.length_nil] at this ⊢
        omega
      · cases h
    | c16 n =>
      simp only [expandCl] at h
      split at h
      · split at h
        · rename_i hn
          have := ih _ h
          simp only [List.length_append, List.length_replicate, List.length_cons] at this ⊢
          omega
        · cases h
      · cases h
    | c17 n =>
      simp only [expandCl] at h
      split at h
      · rename_i hn
        have := ih _ h
        simp only [List.length_append, List.length_replicate, List.length_cons] at this ⊢
        omega
      · cases h
    | c18 n =>
      simp only [expandCl] at h
      split at h
      · rename_i hn
        have := ih _ h
        simp only [List.length_append, List.length_replicate, List.length_cons] at this ⊢
        omega
      · cases h

/-- one step of `readLens` on a decoded symbol, by `show` (as for `blockLoop`) -/
theorem readLens_step (clH : Huff) (fuel total : Nat) (bs : Bits) (acc : List Nat) (hlt : acc.length < total) :
    readLens clH (fuel + 1) total bs acc =
      (match decodeSym clH bs with
      | none => none
      | some (sym, bs) =>
        if sym < 16 then readLens clH fuel total bs (acc ++ [sym])
        else if sym == 16 then
          match acc.getLast?, takeBits 2 bs with
          | some prev, some (r, bs) => readLens clH fuel total bs (acc ++ List.replicate (3 + r) prev)
          | _, _ => none
        else if sym == 17 then
          match takeBits 3 bs with
          | some (r, bs) => readLens clH fuel total bs (acc ++ List.replicate (3 + r) 0)
          | none => none
        else
          match takeBits 7 bs with
          | some (r, bs) => readLens clH fuel total bs (acc ++ List.replicate (11 + r) 0)
          | none => none) := by
  have hc : ¬ acc.length ≥ total := by omega
  rw [readLens]
  simp only [hc, if_false]
  rfl

theorem readLens_done (clH : Huff) (fuel total : Nat) (bs : Bits) (acc : List Nat) (h : acc.length = total) :
    readLens clH (fuel + 1) total bs acc = some (acc, bs) := by
  rw [readLens]
  simp [h]

theorem readLens_rle (cl : List Nat) (hcl : validLens cl = true) (syms : List ClSym) (bits tail : Bits)
    (acc all : List Nat) (fuel total : Nat) (he : encCl cl syms = some bits) (hx : expandCl syms acc = some all)
    (ht : all.length = total) (hf : syms.length < fuel) :
    readLens (mkHuff cl) fuel total (bits ++ tail) acc = some (all, tail) := by
  induction syms generalizing bits acc fuel with
  | nil =>
    obtain ⟨fuel, rfl⟩ : ∃ f, fuel = f + 1 := ⟨fuel - 1, by simp at hf; omega⟩
    simp only [expandCl, Option.some.injEq] at hx
    simp only [encCl, Option.some.injEq] at he
    subst hx he
    exact readLens_done _ _ _ _ _ ht
  | cons s syms ih =>
    obtain ⟨fuel, rfl⟩ : ∃ f, fuel = f + 1 := ⟨fuel - 1, by simp at hf; omega⟩
    have hf' : syms.length < fuel := by simp only [List.length_cons] at hf; omega
    have hgrow := expandCl_length _ _ _ hx
    have hlt : acc.length < total := by simp only [List.length_cons] at hgrow; omega
    simp only [encCl] at he
    cases ha : encClSym cl s with
    | none => simp [ha] at he
    | some a =>
      cases hb : encCl cl syms with
      | none => simp [ha, hb] at he
      | some b =>
        simp only [ha, hb, Option.some.injEq] at he
        subst he
        rw [readLens_step _ _ _ _ _ hlt]
        cases s with
        | len l =>
          simp only [encClSym] at ha
          simp only [expandCl] at hx
          by_cases hl : l ≤ 15
          · rw [if_pos hl] at hx
            rw [List.append_assoc, decodeSym_codeOf' cl hcl l a _ ha]
            have c1 : l < 16 := by omega
            simp only [c1, if_true]
            exact ih b _ fuel hb hx hf'
          · rw [if_neg hl] at hx; cases hx
        | c16 n =>
          simp only [encClSym] at ha
          simp only [expandCl] at hx
          cases hc : codeOf cl 16 with
          | none => simp [hc] at ha
          | some c =>
            simp only [hc, Option.map_some, Option.some.injEq] at ha
            subst ha
            cases hp : acc.getLast? with
            | none => simp [hp] at hx
            | some p =>
              simp only [hp] at hx
              by_cases hn : 3 ≤ n ∧ n ≤ 6
              · rw [if_pos hn] at hx
                rw [List.append_assoc, List.append_assoc, decodeSym_codeOf' cl hcl 16 c _ hc]
                have c1 : ¬ (16 < 16) := by omega
                simp only [c1, if_false, beq_self_eq_true, if_true]
                rw [takeBits_bitsLsb 2 (n - 3) _ (by omega)]
                simp only
                have e : 3 + (n - 3) = n := by omega
                rw [e]
                exact ih b _ fuel hb hx hf'
              · rw [if_neg hn] at hx; cases hx
        | c17 n =>
          simp only [encClSym] at ha
          simp only [expandCl] at hx
          cases hc : codeOf cl 17 with
          | none => simp [hc] at ha
          | some c =>
            simp only [hc, Option.map_some, Option.some.injEq] at ha
            subst ha
            by_cases hn : 3 ≤ n ∧ n ≤ 10
            · rw [if_pos hn] at hx
              rw [List.append_assoc, List.append_assoc, decodeSym_codeOf' cl hcl 17 c _ hc]
              have c1 : ¬ (17 < 16) := by omega
              have c2 : ((17 : Nat) == 16) = false := by decide
              simp only [c1, c2, if_false, beq_self_eq_true, if_true, Bool.false_eq_true]
              rw [takeBits_bitsLsb 3 (n - 3) _ (by omega)]
              simp only
              have e : 3 + (n - 3) = n := by omega
              rw [e]
              exact ih b _ fuel hb hx hf'
            · rw [if_neg hn] at hx; cases hx
        | c18 n =>
          simp only [encClSym] at ha
          simp only [expandCl] at hx
          cases hc : codeOf cl 18 with
          | none => simp [hc] at ha
          | some c =>
            simp only [hc, Option.map_some, Option.some.injEq] at ha
            subst ha
            by_cases hn : 11 ≤ n ∧ n ≤ 138
            · rw [if_pos hn] at hx
              rw [List.append_assoc, List.append_assoc, decodeSym_codeOf' cl hcl 18 c _ hc]
              have c1 : ¬ (18 < 16) := by omega
              have c2 : ((18 : Nat) == 16) = false := by decide
              have c3 : ((18 : Nat) == 17) = false := by decide
              simp only [c1, c2, c3, if_false, Bool.false_eq_true]
              rw [takeBits_bitsLsb 7 (n - 11) _ (by omega)]
              simp only
              have e : 11 + (n - 11) = n := by omega
              rw [e]
              exact ih b _ fuel hb hx hf'
            · rw [if_neg hn] at hx; cases hx

/-! ### the whole header -/

/-- the conditions of `DynHeader.ok`, as propositions -/
theorem DynHeader.ok_iff (h : DynHeader) (hok : h.ok = true) :
    (257 ≤ h.litLens.length ∧ h.litLens.length ≤ 288) ∧ (1 ≤ h.distLens.length ∧ h.distLens.length ≤ 32) ∧
    h.clLens.length = 19 ∧ (∀ l ∈ h.clLens, l ≤ 7) ∧ h.hclen ≤ 15 ∧
    (∀ s ∈ clOrder.drop (h.hclen + 4), h.clLens.getD s 0 = 0) ∧
    validLens h.litLens = true ∧ validLens h.distLens = true ∧ validLens h.clLens = true ∧
    expandCl h.rle [] = some (h.litLens ++ h.distLens) := by
  unfold DynHeader.ok at hok
  simp only [Bool.and_eq_true, decide_eq_true_eq, List.all_eq_true, beq_iff_eq] at hok
  obtain ⟨⟨⟨⟨⟨⟨⟨⟨⟨⟨⟨a1, a2⟩, a3⟩, a4⟩, a5⟩, a6⟩, a7⟩, a8⟩, a9⟩, a10⟩, a11⟩, a12⟩ := hok
  exact ⟨⟨a1, a2⟩, ⟨a3, a4⟩, a5, a6, a7, a8, a9, a10, a11, a12⟩

/-- the same for any function that is this `match` (the `match` of `dynamicTables` is a different auxiliary constant) -/
theorem clLens_rebuild_fun (cl : List Nat) (n : Nat) (hlen : cl.length = 19)
    (hz : ∀ s ∈ clOrder.drop n, cl.getD s 0 = 0) (f : Nat → Nat)
    (hf : ∀ sym, f sym = match clOrder.idxOf? sym with
      | some i => ((clOrder.take n).map (fun s => cl.getD s 0)).getD i 0
      | none => 0) :
    (List.range 19).map f = cl := by
  have : f = fun sym => match clOrder.idxOf? sym with
      | some i => ((clOrder.take n).map (fun s => cl.getD s 0)).getD i 0
      | none => 0 := funext hf
  rw [this]
  exact clLens_rebuild cl n hlen hz

theorem dynamicTables_header (h : DynHeader) (hok : h.ok = true) (hb tail : Bits) (he : encHeader h = some hb) :
    dynamicTables (hb ++ tail) = some (mkHuff h.litLens, mkHuff h.distLens, tail) := by
  obtain ⟨⟨l1, l2⟩, ⟨d1, d2⟩, hc19, hc7, hcl, hz, _, _, vcl, hx⟩ := DynHeader.ok_iff h hok
  unfold encHeader at he
  cases hr : encCl h.clLens h.rle with
  | none => simp [hr] at he
  | some r =>
    simp only [hr, Option.some.injEq] at he
    subst he
    have hf : ∀ s, h.clLens.getD s 0 < 8 := by
      intro s
      by_cases hs : s < h.clLens.length
      · have := hc7 _ (getD_mem h.clLens s hs); omega
      · rw [List.getD_eq_getElem?_getD, List.getElem?_eq_none (by omega)]; simp
    have hlen : (clOrder.take (h.hclen + 4)).length = h.hclen + 4 := by
      rw [List.length_take]
      have : clOrder.length = 19 := rfl
      omega
    have hcl' := clLens_loop (clOrder.take (h.hclen + 4)) (fun s => h.clLens.getD s 0) hf (r ++ tail) []
    rw [hlen] at hcl'
    have hrd := readLens_rle h.clLens vcl h.rle r tail [] (h.litLens ++ h.distLens)
      (h.litLens.length - 257 + (h.distLens.length - 1) + 400)
      (h.litLens.length - 257 + 257 + (h.distLens.length - 1) + 1) hr hx
      (by simp only [List.length_append]; omega)
      (by have := expandCl_length _ _ _ hx; simp only [List.length_append, List.length_nil] at this; omega)
    unfold dynamicTables
    simp only [List.append_assoc]
    rw [takeBits_bitsLsb 5 _ _ (by omega)]
    simp only
    rw [takeBits_bitsLsb 5 _ _ (by omega)]
    simp only
    rw [takeBits_bitsLsb 4 _ _ (by omega)]
    simp only
    rw [hcl']
    simp only [List.nil_append]
    rw [clLens_rebuild_fun h.clLens (h.hclen + 4) hc19 hz]
    · rw [hrd]
      simp only
      have e : h.litLens.length - 257 + 257 = h.litLens.length := by omega
      rw [e, List.take_left', List.drop_left']
      · rfl
      · rfl
    · intro _; rfl

theorem encHeader_length (h : DynHeader) (hb : Bits) (he : encHeader h = some hb) : 14 ≤ hb.length := by
  unfold encHeader at he
  cases hr : encCl h.clLens h.rle with
  | none => simp [hr] at he
  | some r =>
    simp only [hr, Option.some.injEq] at he
    subst he
    simp only [List.length_append, bitsLsb_length]
    omega

end Zarrs.DeflateSpec
