import ZarrsModel.Model.Keys
/- helper lemmas for C11 -/
namespace Zarrs.Keys

/-! ### list basics -/

theorem head?_append_left {α} (l : List α) {l' : List α} (h : l ≠ []) :
    (l ++ l').head? = l.head? := by
  cases l with
  | nil => exact absurd rfl h
  | cons a r => rfl

theorem getLast?_append_right {α} (l : List α) {l' : List α} (h : l' ≠ []) :
    (l ++ l').getLast? = l'.getLast? := by
  rw [List.getLast?_append]
  cases hl : l'.getLast? with
  | none => exact absurd (List.getLast?_eq_none_iff.mp hl) h
  | some a => rfl

/-! ### `decimal` -/

theorem decimal_eq_if (n : Nat) :
    decimal n = if n < 10 then [Nat.digitChar n]
      else decimal (n / 10) ++ [Nat.digitChar (n % 10)] := by
  unfold decimal
  exact Nat.toDigits_eq_if (by decide)

theorem isDigit_of_mem_decimal {n : Nat} {c : Char} (hc : c ∈ decimal n) : c.isDigit = true :=
  Nat.isDigit_of_mem_toDigits (by decide) (by decide) hc

theorem decimal_all_isDigit (n : Nat) : (decimal n).all Char.isDigit = true := by
  rw [List.all_eq_true]
  intro c hc
  exact isDigit_of_mem_decimal hc

theorem decimal_ne_nil (n : Nat) : decimal n ≠ [] := Nat.toDigits_ne_nil

theorem decimal_zero : decimal 0 = ['0'] := Nat.toDigits_zero 10

theorem decimal_head_ne_zero (n : Nat) (hn : n ≠ 0) : (decimal n).head? ≠ some '0' := by
  induction n using Nat.strongRecOn with
  | _ n ih =>
    rw [decimal_eq_if]
    split
    · simp [hn]
    · rw [head?_append_left _ (decimal_ne_nil _)]
      exact ih (n / 10) (by omega) (by omega)

theorem decimal_value (n : Nat) :
    (decimal n).foldl (fun acc c => acc * 10 + (c.toNat - '0'.toNat)) 0 = n := by
  have h := @Nat.ofDigitChars_ten_toDigits n
  rw [Nat.ofDigitChars_eq_foldl] at h
  have hf : (fun (acc : Nat) (c : Char) => acc * 10 + (c.toNat - '0'.toNat))
      = (fun sofar c => 10 * sofar + (c.toNat - '0'.toNat)) := by
    funext a c
    rw [Nat.mul_comm]
  unfold decimal
  rw [hf]
  exact h

theorem decimal_inj {a b : Nat} (h : decimal a = decimal b) : a = b := by
  have ha := decimal_value a
  rw [h, decimal_value b] at ha
  exact ha.symm

theorem map_decimal_inj : ∀ {a b : List Nat}, a.map decimal = b.map decimal → a = b
  | [], [], _ => rfl
  | [], _ :: _, h => by simp at h
  | _ :: _, [], h => by simp at h
  | x :: a, y :: b, h => by
    simp only [List.map_cons, List.cons.injEq] at h
    rw [decimal_inj h.1, map_decimal_inj h.2]

/-! ### separators are not digits -/

theorem isDigit_ne_sep {sep c : Char} (hs : isSep sep = true) (hc : c.isDigit = true) : c ≠ sep := by
  intro h
  subst h
  simp only [isSep, Bool.or_eq_true, beq_iff_eq] at hs
  rcases hs with rfl | rfl <;> simp at hc

theorem isDigit_ne_slash {c : Char} (hc : c.isDigit = true) : c ≠ '/' := by
  intro h
  subst h
  simp at hc

/-! ### `joinSep` -/

theorem joinSep_cons_cons (sep : Char) (x y : List Char) (r : List (List Char)) :
    joinSep sep (x :: y :: r) = x ++ sep :: joinSep sep (y :: r) := rfl

theorem joinSep_single (sep : Char) (x : List Char) : joinSep sep [x] = x := rfl

/-- `sep`-prefixed join is the flat map of `sep`-prefixed components -/
theorem cons_joinSep (sep : Char) : ∀ (l : List (List Char)), l ≠ [] →
    sep :: joinSep sep l = l.flatMap (fun x => sep :: x)
  | [], h => absurd rfl h
  | [x], _ => by simp [joinSep]
  | x :: y :: r, _ => by
    rw [joinSep_cons_cons, List.flatMap_cons, ← cons_joinSep sep (y :: r) (by simp)]
    simp

/-- splitting at the first separator is deterministic -/
theorem append_sep_inj {sep : Char} : ∀ {x y r r' : List Char},
    (∀ c ∈ x, c ≠ sep) → (∀ c ∈ y, c ≠ sep) → x ++ sep :: r = y ++ sep :: r' → x = y ∧ r = r'
  | [], [], _, _, _, _, h => by simpa using h
  | [], c :: y, _, _, _, hy, h => by
    simp only [List.nil_append, List.cons_append, List.cons.injEq] at h
    exact absurd h.1.symm (hy c (by simp))
  | c :: x, [], _, _, hx, _, h => by
    simp only [List.nil_append, List.cons_append, List.cons.injEq] at h
    exact absurd h.1 (hx c (by simp))
  | c :: x, d :: y, r, r', hx, hy, h => by
    simp only [List.cons_append, List.cons.injEq] at h
    have := append_sep_inj (x := x) (y := y) (r := r) (r' := r')
      (fun c hc => hx c (by simp [hc])) (fun c hc => hy c (by simp [hc])) h.2
    exact ⟨by rw [h.1, this.1], this.2⟩

theorem joinSep_inj {sep : Char} : ∀ {l l' : List (List Char)},
    l.length = l'.length → (∀ x ∈ l, ∀ c ∈ x, c ≠ sep) → (∀ x ∈ l', ∀ c ∈ x, c ≠ sep) →
    joinSep sep l = joinSep sep l' → l = l'
  | [], [], _, _, _, _ => rfl
  | [], _ :: _, hl, _, _, _ => by simp at hl
  | _ :: _, [], hl, _, _, _ => by simp at hl
  | [x], [y], _, _, _, h => by simpa [joinSep] using h
  | [_], _ :: _ :: _, hl, _, _, _ => by simp at hl
  | _ :: _ :: _, [_], hl, _, _, _ => by simp at hl
  | x :: x2 :: r, y :: y2 :: r', hl, hx, hy, h => by
    rw [joinSep_cons_cons, joinSep_cons_cons] at h
    have h1 := append_sep_inj (hx x (by simp)) (hy y (by simp)) h
    have h2 := joinSep_inj (l := x2 :: r) (l' := y2 :: r') (by simpa using hl)
      (fun z hz => hx z (by simp [hz])) (fun z hz => hy z (by simp [hz])) h1.2
    rw [h1.1, h2]

/-! ### `hasDoubleSlash` -/

theorem hds_nil : hasDoubleSlash [] = false := rfl

theorem hds_single (c : Char) : hasDoubleSlash [c] = false := by
  by_cases hc : c = '/' <;> simp [hasDoubleSlash, hc]

theorem hds_cons_cons (c d : Char) (r : List Char) :
    hasDoubleSlash (c :: d :: r) = ((c == '/' && d == '/') || hasDoubleSlash (d :: r)) := by
  by_cases hc : c = '/' <;> by_cases hd : d = '/' <;> simp [hasDoubleSlash, hc, hd]

theorem hds_append : ∀ {a b : List Char}, hasDoubleSlash a = false → hasDoubleSlash b = false →
    (a.getLast? ≠ some '/' ∨ b.head? ≠ some '/') → hasDoubleSlash (a ++ b) = false
  | [], _, _, hb, _ => by simpa using hb
  | [c], [], _, _, _ => hds_single c
  | [c], d :: r, _, hb, h => by
    simp only [List.cons_append, List.nil_append, hds_cons_cons, hb, Bool.or_false,
      Bool.and_eq_false_imp, beq_iff_eq]
    intro hc
    subst hc
    simpa using h
  | c :: d :: r, b, ha, hb, h => by
    rw [hds_cons_cons] at ha
    simp only [Bool.or_eq_false_iff] at ha
    simp only [List.cons_append, hds_cons_cons, ha.1, Bool.false_or]
    have := hds_append (a := d :: r) (b := b) ha.2 hb (by simpa using h)
    simpa using this

theorem hds_of_no_slash {l : List Char} (h : ∀ c ∈ l, c ≠ '/') : hasDoubleSlash l = false := by
  induction l with
  | nil => rfl
  | cons c l ih =>
    have := hds_append (a := [c]) (b := l) (hds_single c) (ih (fun d hd => h d (by simp [hd])))
      (Or.inl (by simpa using h c (by simp)))
    simpa using this

theorem hds_cons_of_ne {c : Char} {k : List Char} (hc : c ≠ '/') (hk : hasDoubleSlash k = false) :
    hasDoubleSlash (c :: k) = false := by
  have := hds_append (a := [c]) (b := k) (hds_single c) hk (Or.inl (by simpa using hc))
  simpa using this

theorem hds_cons_of_head_ne {c : Char} {k : List Char} (hh : k.head? ≠ some '/')
    (hk : hasDoubleSlash k = false) : hasDoubleSlash (c :: k) = false := by
  have := hds_append (a := [c]) (b := k) (hds_single c) hk (Or.inr hh)
  simpa using this

/-! ### well-formed keys -/

/-- propositional form of `validKey` -/
def GoodKey (k : List Char) : Prop :=
  k.head? ≠ some '/' ∧ k.getLast? ≠ some '/' ∧ k ≠ [] ∧ hasDoubleSlash k = false

theorem validKey_iff (k : List Char) : validKey k = true ↔ GoodKey k := by
  simp [validKey, GoodKey, and_assoc]

theorem GoodKey.append_slash {q k : List Char} (hq : GoodKey q) (hk : GoodKey k) :
    GoodKey (q ++ '/' :: k) := by
  obtain ⟨hq1, hq2, hq3, hq4⟩ := hq
  obtain ⟨hk1, hk2, hk3, hk4⟩ := hk
  refine ⟨?_, ?_, by simp, ?_⟩
  · rw [head?_append_left _ hq3]
    exact hq1
  · rw [getLast?_append_right _ (by simp), List.getLast?_cons_of_ne_nil hk3]
    exact hk2
  · exact hds_append hq4 (hds_cons_of_head_ne hk1 hk4) (Or.inl hq2)

theorem validPath_cases {p : List Char} (hp : validPath p = true) :
    p = ['/'] ∨ ∃ q, p = '/' :: q ∧ GoodKey q := by
  simp only [validPath, Bool.or_eq_true, beq_iff_eq, Bool.and_eq_true, bne_iff_ne, ne_eq,
    Bool.not_eq_eq_eq_not, Bool.not_true] at hp
  rcases hp with hp | ⟨⟨h1, h2⟩, h3⟩
  · exact Or.inl hp
  · right
    match p, h1, h2, h3 with
    | [c], h1, h2, _ =>
      simp at h1 h2
      exact absurd h1 h2
    | c :: d :: r, h1, h2, h3 =>
      simp only [List.head?_cons, Option.some.injEq] at h1
      subst h1
      refine ⟨d :: r, rfl, ?_⟩
      rw [hds_cons_cons] at h3
      simp only [Bool.or_eq_false_iff, BEq.rfl, Bool.true_and, beq_eq_false_iff_ne] at h3
      refine ⟨by simpa using h3.1, ?_, by simp, h3.2⟩
      rw [List.getLast?_cons_of_ne_nil (by simp)] at h2
      exact h2

/-! ### shape of `joinSep` on digit strings -/

/-- non-empty, digits only -/
def DigitStr (x : List Char) : Prop := x ≠ [] ∧ ∀ c ∈ x, c.isDigit = true

theorem digitStr_decimal (n : Nat) : DigitStr (decimal n) :=
  ⟨decimal_ne_nil n, fun _ hc => isDigit_of_mem_decimal hc⟩

theorem DigitStr.head {x : List Char} (h : DigitStr x) : ∃ c, x.head? = some c ∧ c.isDigit = true := by
  obtain ⟨h1, h2⟩ := h
  match x, h1, h2 with
  | c :: r, _, h2 => exact ⟨c, rfl, h2 c (by simp)⟩

theorem DigitStr.last {x : List Char} (h : DigitStr x) :
    ∃ c, x.getLast? = some c ∧ c.isDigit = true := by
  obtain ⟨h1, h2⟩ := h
  refine ⟨x.getLast h1, List.getLast?_eq_some_getLast h1, h2 _ (List.getLast_mem h1)⟩

theorem DigitStr.hds {x : List Char} (h : DigitStr x) : hasDoubleSlash x = false :=
  hds_of_no_slash (fun c hc => isDigit_ne_slash (h.2 c hc))

/-- a non-empty join of digit strings starts and ends with a digit and has no `//` -/
theorem joinSep_shape (sep : Char) : ∀ (l : List (List Char)), l ≠ [] → (∀ x ∈ l, DigitStr x) →
    (∃ c, (joinSep sep l).head? = some c ∧ c.isDigit = true) ∧
    (∃ c, (joinSep sep l).getLast? = some c ∧ c.isDigit = true) ∧
    hasDoubleSlash (joinSep sep l) = false
  | [], h, _ => absurd rfl h
  | [x], _, hx => by
    have := hx x (by simp)
    exact ⟨this.head, this.last, this.hds⟩
  | x :: y :: r, _, hx => by
    have hxd := hx x (by simp)
    obtain ⟨⟨c1, hc1, hd1⟩, ⟨c2, hc2, hd2⟩, h3⟩ :=
      joinSep_shape sep (y :: r) (by simp) (fun z hz => hx z (by simp [hz]))
    have hne : joinSep sep (y :: r) ≠ [] := by
      intro h
      rw [h] at hc1
      simp at hc1
    rw [joinSep_cons_cons]
    refine ⟨?_, ?_, ?_⟩
    · rw [head?_append_left _ hxd.1]
      exact hxd.head
    · rw [getLast?_append_right _ (by simp), List.getLast?_cons_of_ne_nil hne]
      exact ⟨c2, hc2, hd2⟩
    · obtain ⟨cl, hcl, hdl⟩ := hxd.last
      refine hds_append hxd.hds (hds_cons_of_head_ne ?_ h3) (Or.inl ?_)
      · rw [hc1]
        simpa using isDigit_ne_slash hd1
      · rw [hcl]
        simpa using isDigit_ne_slash hdl

theorem joinSep_decimal_shape (sep : Char) (idx : List Nat) (h : idx ≠ []) :
    (∃ c, (joinSep sep (idx.map decimal)).head? = some c ∧ c.isDigit = true) ∧
    (∃ c, (joinSep sep (idx.map decimal)).getLast? = some c ∧ c.isDigit = true) ∧
    hasDoubleSlash (joinSep sep (idx.map decimal)) = false := by
  apply joinSep_shape sep _ (by simpa using h)
  intro x hx
  rw [List.mem_map] at hx
  obtain ⟨n, _, rfl⟩ := hx
  exact digitStr_decimal n

/-! ### `encode` -/

/-- first character of a chunk key: `c` or a digit -/
theorem encode_head (e : Enc) (sep : Char) (idx : List Nat) :
    ∃ c, (encode e sep idx).head? = some c ∧ (c = 'c' ∨ c.isDigit = true) := by
  cases e <;> cases idx with
  | nil => simp [encode]
  | cons n r =>
    simp only [encode, List.isEmpty_cons, Bool.false_eq_true, if_false]
    first
    | exact ⟨'c', rfl, Or.inl rfl⟩
    | (obtain ⟨⟨c, hc, hd⟩, _⟩ := joinSep_decimal_shape sep (n :: r) (by simp)
       exact ⟨c, hc, Or.inr hd⟩)

theorem encode_goodKey (e : Enc) (sep : Char) (idx : List Nat) : GoodKey (encode e sep idx) := by
  cases idx with
  | nil => cases e <;> simp [encode, GoodKey, hds_single]
  | cons n r =>
    obtain ⟨⟨c1, hc1, hd1⟩, ⟨c2, hc2, hd2⟩, h3⟩ := joinSep_decimal_shape sep (n :: r) (by simp)
    have hne : joinSep sep ((n :: r).map decimal) ≠ [] := by
      intro h
      rw [h] at hc1
      simp at hc1
    have hh : (joinSep sep ((n :: r).map decimal)).head? ≠ some '/' := by
      rw [hc1]
      simpa using isDigit_ne_slash hd1
    have hl : (joinSep sep ((n :: r).map decimal)).getLast? ≠ some '/' := by
      rw [hc2]
      simpa using isDigit_ne_slash hd2
    cases e with
    | v2 =>
      simp only [encode, List.isEmpty_cons, Bool.false_eq_true, if_false]
      exact ⟨hh, hl, hne, h3⟩
    | default =>
      simp only [encode, List.isEmpty_cons, Bool.false_eq_true, if_false]
      refine ⟨by simp, ?_, by simp, ?_⟩
      · rw [List.getLast?_cons_of_ne_nil (by simp), List.getLast?_cons_of_ne_nil hne]
        exact hl
      · exact hds_cons_of_ne (by decide) (hds_cons_of_head_ne hh h3)

theorem encode_not_metaName (e : Enc) (sep : Char) (idx : List Nat) :
    encode e sep idx ∉ metaNames := by
  obtain ⟨c, hc, hcd⟩ := encode_head e sep idx
  intro hm
  simp only [metaNames, List.mem_cons, List.not_mem_nil, or_false] at hm
  rcases hm with hm | hm | hm | hm <;> rw [hm] at hc <;> simp at hc <;> subst hc <;>
    rcases hcd with h | h <;> simp at h

/-! ### `dataKey` / `metaKey` under a valid path -/

theorem dataKey_root (k : List Char) : dataKey ['/'] k = k := rfl

theorem dataKey_cons {q : List Char} (hq : q ≠ []) (k : List Char) :
    dataKey ('/' :: q) k = q ++ '/' :: k := by
  cases q with
  | nil => exact absurd rfl hq
  | cons c r => simp [dataKey, stripSlash]

theorem metaKey_root (name : List Char) : metaKey ['/'] name = name := rfl

theorem metaKey_cons {q : List Char} (hq : q ≠ []) (name : List Char) :
    metaKey ('/' :: q) name = q ++ '/' :: name := by
  cases q with
  | nil => exact absurd rfl hq
  | cons c r => simp [metaKey, stripSlash]

theorem nodePrefix_root : nodePrefix ['/'] = [] := rfl

theorem nodePrefix_cons {q : List Char} (hq : q ≠ []) : nodePrefix ('/' :: q) = q ++ ['/'] := by
  cases q with
  | nil => exact absurd rfl hq
  | cons c r => simp [nodePrefix, stripSlash]

theorem dataKey_inj (p : List Char) {k1 k2 : List Char} (h : dataKey p k1 = dataKey p k2) :
    k1 = k2 := by
  unfold dataKey at h
  simp only at h
  split at h
  · exact h
  · simpa using h

end Zarrs.Keys
