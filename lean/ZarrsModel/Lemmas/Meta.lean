import ZarrsModel.Model.Meta
import ZarrsModel.Lemmas.Json
/- helper lemmas for C13: metadata documents -/
set_option linter.unusedSimpArgs false
namespace Zarrs.Meta
open Zarrs.Json

theorem lookup_nil (k : Str) : lookup [] k = none := rfl
theorem lookup_cons (k' : Str) (v : J) (r : Obj) (k : Str) :
    lookup ((k', v) :: r) k = if k' == k then some v else lookup r k := by
  unfold lookup; rw [List.find?_cons]; split <;> simp_all
theorem lookup_cons_eq (k : Str) (v : J) (r : Obj) : lookup ((k, v) :: r) k = some v := by
  rw [lookup_cons]; simp
theorem lookup_cons_ne (k' : Str) (v : J) (r : Obj) (k : Str) (h : (k' == k) = false) :
    lookup ((k', v) :: r) k = lookup r k := by
  rw [lookup_cons, h]; rfl
theorem lookup_append (a b : Obj) (k : Str) : lookup (a ++ b) k = (lookup a k).or (lookup b k) := by
  unfold lookup; rw [List.find?_append]; cases List.find? _ a <;> rfl

theorem lookup_eq_none_iff (o : Obj) (k : Str) : lookup o k = none ↔ k ∉ o.map (·.1) := by
  induction o with
  | nil => simp [lookup_nil]
  | cons kv r ih =>
    obtain ⟨k', v⟩ := kv
    rw [lookup_cons]
    by_cases h : k' = k
    · subst h; simp
    · have : (k' == k) = false := by simpa using h
      rw [this]; simp [ih, Ne.symm h]

theorem lookup_mem (o : Obj) (k : Str) (v : J) (h : lookup o k = some v) : (k, v) ∈ o := by
  induction o with
  | nil => simp [lookup_nil] at h
  | cons kv r ih =>
    obtain ⟨k', v'⟩ := kv
    rw [lookup_cons] at h
    by_cases hk : k' = k
    · subst hk; simp at h; subst h; simp
    · have : (k' == k) = false := by simpa using hk
      rw [this] at h
      exact List.mem_cons_of_mem _ (ih h)

theorem lookup_of_mem (o : Obj) (hd : keysDistinct o) (k : Str) (v : J) (h : (k, v) ∈ o) : lookup o k = some v := by
  induction o with
  | nil => simp at h
  | cons kv r ih =>
    obtain ⟨k', v'⟩ := kv
    unfold keysDistinct at hd ih
    rw [List.map_cons, List.nodup_cons] at hd
    rw [lookup_cons]
    rcases List.mem_cons.1 h with e | h
    · cases e; simp
    · have : k' ≠ k := by
        intro e; subst e
        exact hd.1 (List.mem_map_of_mem (f := (·.1)) h)
      have : (k' == k) = false := by simpa using this
      rw [this]; exact ih hd.2 h

theorem strLt_irrefl (a : Str) : strLt a a = false := by
  induction a with
  | nil => rfl
  | cons x xs ih => simp [strLt, ih]

theorem strLt_trans : ∀ (a b c : Str), strLt a b = true → strLt b c = true → strLt a c = true
  | [], [], _, h, _ => by simp [strLt] at h
  | [], _ :: _, [], _, h => by simp [strLt] at h
  | [], _ :: _, _ :: _, _, _ => by simp [strLt]
  | _ :: _, [], _, h, _ => by simp [strLt] at h
  | _ :: _, _ :: _, [], _, h => by simp [strLt] at h
  | x :: xs, y :: ys, z :: zs, h1, h2 => by
    simp only [strLt, Bool.or_eq_true, decide_eq_true_eq, Bool.and_eq_true, beq_iff_eq] at h1 h2 ⊢
    rcases h1 with h1 | ⟨rfl, h1⟩
    · rcases h2 with h2 | ⟨rfl, h2⟩
      · left; omega
      · left; exact h1
    · rcases h2 with h2 | ⟨rfl, h2⟩
      · left; exact h2
      · right; exact ⟨rfl, strLt_trans xs ys zs h1 h2⟩

theorem strLt_total : ∀ (a b : Str), a ≠ b → strLt a b = false → strLt b a = true
  | [], [], h, _ => absurd rfl h
  | [], _ :: _, _, h => by simp [strLt] at h
  | _ :: _, [], _, _ => by simp [strLt]
  | x :: xs, y :: ys, hne, h => by
    simp only [strLt, Bool.or_eq_false_iff, decide_eq_false_iff_not, Bool.and_eq_false_imp, beq_iff_eq] at h
    simp only [strLt, Bool.or_eq_true, decide_eq_true_eq, Bool.and_eq_true, beq_iff_eq]
    by_cases e : x = y
    · subst e
      right
      refine ⟨rfl, strLt_total xs ys (fun e => hne (by rw [e])) (h.2 rfl)⟩
    · left; omega

theorem strLt_asymm (a b : Str) (h : strLt a b = true) : strLt b a = false := by
  cases h' : strLt b a with
  | false => rfl
  | true => have := strLt_trans a b a h h'; rw [strLt_irrefl] at this; cases this

theorem strLt_ne {a b : Str} (h : strLt a b = true) : a ≠ b := by
  intro e; subst e; rw [strLt_irrefl] at h; cases h
/-- keys strictly increasing -/
def sortedKeys {β} (e : List (Str × β)) : Prop := (e.map (·.1)).Pairwise (fun a b => strLt a b = true)

theorem sortedKeys_nodup {β} (e : List (Str × β)) (h : sortedKeys e) : (e.map (·.1)).Nodup := by
  unfold sortedKeys at h
  exact h.imp (fun hab => strLt_ne hab)

theorem insertExtra_cons_eq (k : Str) (v v' : AField) (rest) : insertExtra k v ((k, v') :: rest) = (k, v) :: rest := by
  simp [insertExtra]
theorem insertExtra_cons_lt (k k' : Str) (v v' : AField) (rest) (h1 : k ≠ k') (h2 : strLt k k' = true) :
    insertExtra k v ((k', v') :: rest) = (k, v) :: (k', v') :: rest := by
  simp [insertExtra, h1, h2]
theorem insertExtra_cons_gt (k k' : Str) (v v' : AField) (rest) (h1 : k ≠ k') (h2 : strLt k k' = false) :
    insertExtra k v ((k', v') :: rest) = (k', v') :: insertExtra k v rest := by
  simp [insertExtra, h1, h2]

theorem mem_insertExtra_sub (k : Str) (v : AField) (l : List (Str × AField)) (x : Str × AField)
    (h : x ∈ insertExtra k v l) : x = (k, v) ∨ x ∈ l := by
  induction l with
  | nil => simp [insertExtra] at h; exact Or.inl h
  | cons y ys ih =>
    obtain ⟨k', v'⟩ := y
    by_cases h1 : k = k'
    · subst h1; rw [insertExtra_cons_eq] at h
      rcases List.mem_cons.1 h with h | h
      · exact Or.inl h
      · exact Or.inr (List.mem_cons_of_mem _ h)
    · cases h2 : strLt k k' with
      | true =>
        rw [insertExtra_cons_lt _ _ _ _ _ h1 h2] at h
        rcases List.mem_cons.1 h with h | h
        · exact Or.inl h
        · exact Or.inr h
      | false =>
        rw [insertExtra_cons_gt _ _ _ _ _ h1 h2] at h
        rcases List.mem_cons.1 h with h | h
        · exact Or.inr (h ▸ List.mem_cons_self ..)
        · rcases ih h with h | h
          · exact Or.inl h
          · exact Or.inr (List.mem_cons_of_mem _ h)

theorem mem_insertExtra_self (k : Str) (v : AField) (l : List (Str × AField)) : (k, v) ∈ insertExtra k v l := by
  induction l with
  | nil => simp [insertExtra]
  | cons y ys ih =>
    obtain ⟨k', v'⟩ := y
    by_cases h1 : k = k'
    · subst h1; rw [insertExtra_cons_eq]; exact List.mem_cons_self ..
    · cases h2 : strLt k k' with
      | true => rw [insertExtra_cons_lt _ _ _ _ _ h1 h2]; exact List.mem_cons_self ..
      | false => rw [insertExtra_cons_gt _ _ _ _ _ h1 h2]; exact List.mem_cons_of_mem _ ih

theorem mem_insertExtra_of_mem (k : Str) (v : AField) (l : List (Str × AField)) (x : Str × AField)
    (h : x ∈ l) (hne : x.1 ≠ k) : x ∈ insertExtra k v l := by
  induction l with
  | nil => simp at h
  | cons y ys ih =>
    obtain ⟨k', v'⟩ := y
    by_cases h1 : k = k'
    · subst h1; rw [insertExtra_cons_eq]
      rcases List.mem_cons.1 h with h | h
      · subst h; exact absurd rfl hne
      · exact List.mem_cons_of_mem _ h
    · cases h2 : strLt k k' with
      | true => rw [insertExtra_cons_lt _ _ _ _ _ h1 h2]; exact List.mem_cons_of_mem _ h
      | false =>
        rw [insertExtra_cons_gt _ _ _ _ _ h1 h2]
        rcases List.mem_cons.1 h with h | h
        · subst h; exact List.mem_cons_self ..
        · exact List.mem_cons_of_mem _ (ih h)

theorem insertExtra_sorted (k : Str) (v : AField) (l : List (Str × AField)) (hs : sortedKeys l) :
    sortedKeys (insertExtra k v l) := by
  induction l with
  | nil => simp [insertExtra, sortedKeys]
  | cons y ys ih =>
    obtain ⟨k', v'⟩ := y
    unfold sortedKeys at hs ih ⊢
    rw [List.map_cons, List.pairwise_cons] at hs
    by_cases h1 : k = k'
    · subst h1; rw [insertExtra_cons_eq]; exact List.pairwise_cons.2 hs
    · cases h2 : strLt k k' with
      | true =>
        rw [insertExtra_cons_lt _ _ _ _ _ h1 h2]
        refine List.pairwise_cons.2 ⟨?_, List.pairwise_cons.2 hs⟩
        intro z hz
        rcases List.mem_cons.1 hz with rfl | hz
        · exact h2
        · exact strLt_trans _ _ _ h2 (hs.1 z hz)
      | false =>
        rw [insertExtra_cons_gt _ _ _ _ _ h1 h2]
        refine List.pairwise_cons.2 ⟨?_, ih hs.2⟩
        intro z hz
        obtain ⟨x, hx, rfl⟩ := List.mem_map.1 hz
        rcases mem_insertExtra_sub _ _ _ _ hx with rfl | hx
        · exact strLt_total _ _ h1 h2
        · exact hs.1 _ (List.mem_map_of_mem hx)

/-- inserting a key above all present keys appends -/
theorem insertExtra_last (k : Str) (v : AField) (l : List (Str × AField))
    (h : ∀ x ∈ l, strLt x.1 k = true) : insertExtra k v l = l ++ [(k, v)] := by
  induction l with
  | nil => rfl
  | cons y ys ih =>
    obtain ⟨k', v'⟩ := y
    have hk := h (k', v') (List.mem_cons_self ..)
    rw [insertExtra_cons_gt _ _ _ _ _ (fun e => strLt_ne hk e.symm) (strLt_asymm _ _ hk),
      ih (fun x hx => h x (List.mem_cons_of_mem _ hx))]
    rfl

theorem foldl_insertExtra_sorted {β} (g : β → AField) (l : List (Str × β)) (acc : List (Str × AField))
    (hs : (acc.map (·.1) ++ l.map (·.1)).Pairwise (fun a b => strLt a b = true)) :
    l.foldl (fun acc kv => insertExtra kv.1 (g kv.2) acc) acc = acc ++ l.map (fun kv => (kv.1, g kv.2)) := by
  induction l generalizing acc with
  | nil => simp
  | cons y ys ih =>
    rw [List.foldl_cons, insertExtra_last, ih]
    · simp
    · simpa using hs
    · intro x hx
      rw [List.pairwise_append] at hs
      exact hs.2.2 _ (List.mem_map_of_mem hx) _ (by simp)

theorem mem_foldl_insertExtra_sub {β} (g : β → AField) (l : List (Str × β)) (acc : List (Str × AField))
    (x : Str × AField) (h : x ∈ l.foldl (fun acc kv => insertExtra kv.1 (g kv.2) acc) acc) :
    x ∈ acc ∨ ∃ kv ∈ l, x = (kv.1, g kv.2) := by
  induction l generalizing acc with
  | nil => exact Or.inl h
  | cons y ys ih =>
    rw [List.foldl_cons] at h
    rcases ih _ h with h | ⟨kv, hkv, e⟩
    · rcases mem_insertExtra_sub _ _ _ _ h with h | h
      · exact Or.inr ⟨y, List.mem_cons_self .., h⟩
      · exact Or.inl h
    · exact Or.inr ⟨kv, List.mem_cons_of_mem _ hkv, e⟩

theorem mem_foldl_insertExtra_acc {β} (g : β → AField) (l : List (Str × β)) (acc : List (Str × AField))
    (x : Str × AField) (h : x ∈ acc) (hk : x.1 ∉ l.map (·.1)) :
    x ∈ l.foldl (fun acc kv => insertExtra kv.1 (g kv.2) acc) acc := by
  induction l generalizing acc with
  | nil => exact h
  | cons y ys ih =>
    rw [List.foldl_cons]
    simp only [List.map_cons, List.mem_cons, not_or] at hk
    exact ih _ (mem_insertExtra_of_mem _ _ _ _ h hk.1) hk.2

theorem mem_foldl_insertExtra {β} (g : β → AField) (l : List (Str × β)) (acc : List (Str × AField))
    (hd : (l.map (·.1)).Nodup) (kv : Str × β) (h : kv ∈ l) :
    (kv.1, g kv.2) ∈ l.foldl (fun acc kv => insertExtra kv.1 (g kv.2) acc) acc := by
  induction l generalizing acc with
  | nil => simp at h
  | cons y ys ih =>
    rw [List.foldl_cons]
    rw [List.map_cons, List.nodup_cons] at hd
    rcases List.mem_cons.1 h with rfl | h
    · exact mem_foldl_insertExtra_acc g ys _ _ (mem_insertExtra_self ..) hd.1
    · exact ih _ hd.2 h

theorem foldl_insertExtra_sortedKeys {β} (g : β → AField) (l : List (Str × β)) (acc : List (Str × AField))
    (hs : sortedKeys acc) : sortedKeys (l.foldl (fun acc kv => insertExtra kv.1 (g kv.2) acc) acc) := by
  induction l generalizing acc with
  | nil => exact hs
  | cons y ys ih => exact ih _ (insertExtra_sorted _ _ _ hs)
theorem metaV3_ofJ_toJ (m : MetaV3) : MetaV3.ofJ m.toJ = some m := by
  obtain ⟨n, c, mu⟩ := m
  cases c <;> cases mu <;>
    simp (disch := decide) [MetaV3.toJ, MetaV3.ofJ, lookup_cons_eq, lookup_cons_ne, lookup_nil] <;> decide

theorem mapM_map_some {α β} (f : α → Option β) (g : β → α) (ys : List β) (h : ∀ y ∈ ys, f (g y) = some y) :
    (ys.map g).mapM f = some ys := by
  induction ys with
  | nil => rfl
  | cons y ys ih =>
    rw [List.map_cons, List.mapM_cons, h y (List.mem_cons_self ..), ih (fun z hz => h z (List.mem_cons_of_mem _ hz))]
    rfl

theorem mapM_cons_some {α β} (f : α → Option β) (x : α) (xs : List α) (ys : List β) (h : (x :: xs).mapM f = some ys) :
    ∃ y ys', ys = y :: ys' ∧ f x = some y ∧ xs.mapM f = some ys' := by
  rw [List.mapM_cons] at h
  cases hx : f x with
  | none => simp [hx] at h
  | some y =>
    cases hxs : xs.mapM f with
    | none => simp [hx, hxs] at h
    | some ys' =>
      simp [hx, hxs] at h
      exact ⟨y, ys', h.symm, rfl, rfl⟩

theorem mapM_some_mem {α β} (f : α → Option β) (xs : List α) (ys : List β) (h : xs.mapM f = some ys) :
    ∀ y ∈ ys, ∃ x ∈ xs, f x = some y := by
  induction xs generalizing ys with
  | nil => simp at h; subst h; simp
  | cons x xs ih =>
    obtain ⟨y, ys', rfl, hx, hxs⟩ := mapM_cons_some f x xs ys h
    intro z hz
    rcases List.mem_cons.1 hz with rfl | hz
    · exact ⟨x, List.mem_cons_self .., hx⟩
    · obtain ⟨x', hx', e⟩ := ih _ hxs z hz
      exact ⟨x', List.mem_cons_of_mem _ hx', e⟩

theorem mapM_some_inv {α β} (f : α → Option β) (g : β → α) (hf : ∀ x y, f x = some y → x = g y)
    (xs : List α) (ys : List β) (h : xs.mapM f = some ys) : xs = ys.map g := by
  induction xs generalizing ys with
  | nil => simp at h; subst h; rfl
  | cons x xs ih =>
    obtain ⟨y, ys', rfl, hx, hxs⟩ := mapM_cons_some f x xs ys h
    rw [List.map_cons, ← ih _ hxs, ← hf x y hx]

theorem metaList_toJ (l : List MetaV3) : metaList (.arr (l.map MetaV3.toJ)) = some l := by
  unfold metaList
  exact mapM_map_some _ _ _ (fun y _ => metaV3_ofJ_toJ y)

theorem dimNames_roundtrip (ns : List (Option Str)) : dimNamesOfJ (dimNamesToJ ns) = some (some ns) := by
  unfold dimNamesOfJ dimNamesToJ
  simp only
  rw [mapM_map_some]
  · rfl
  · intro y _; cases y <;> rfl

theorem lookup_without_self (o : Obj) (k : Str) : lookup (without o k) k = none := by
  rw [lookup_eq_none_iff]; unfold without
  simp

theorem without_of_lookup_none (o : Obj) (k : Str) (h : lookup o k = none) : without o k = o := by
  rw [lookup_eq_none_iff] at h
  unfold without
  rw [List.filter_eq_self]
  intro kv hkv
  simp only [bne_iff_ne, ne_eq]
  intro e; exact h (e ▸ List.mem_map_of_mem hkv)

theorem afield_ofJ_toJ (a : AField) (h : match a.field with | .obj o => lookup o kMustUnderstand = none | _ => a.mu = true) :
    AField.ofJ a.toJ = a := by
  obtain ⟨f, mu⟩ := a
  match f, h with
  | .obj o, h =>
    simp only at h
    simp only [AField.toJ, AField.ofJ, lookup_cons_eq]
    have : without ((kMustUnderstand, J.bool mu) :: o) kMustUnderstand = o := by
      have := without_of_lookup_none o _ h
      unfold without at this ⊢
      rw [List.filter_cons]; simpa using this
    rw [this]
  | .null, h | .bool _, h | .num _, h | .str _, h | .arr _, h =>
    simp only at h; subst h; rfl

theorem afield_mu_false_iff' (j : J) :
    (AField.ofJ j).mu = false ↔ ∃ o, j = .obj o ∧ lookup o kMustUnderstand = some (.bool false) := by
  match j with
  | .obj o =>
    simp only [AField.ofJ]
    constructor
    · intro h
      refine ⟨o, rfl, ?_⟩
      split at h
      · rename_i b hb; subst h; exact hb
      · cases h
    · rintro ⟨o', e, h⟩
      cases e
      rw [h]
  | .null | .bool _ | .num _ | .str _ | .arr _ => simp [AField.ofJ]

def shapeTok (x : J) : Option (List Char) := match x with | J.num t => if isU64Tok t then some t else none | _ => none

def extrasOf (known : List Str) (o : Obj) : List (Str × AField) :=
  (o.filter (fun kv => !known.contains kv.1)).foldl (fun acc kv => insertExtra kv.1 (AField.ofJ kv.2) acc) []

/-- what `ArrayDoc.ofJ (.obj o) = some d` says, field by field -/
structure ArrayDocOf (o : Obj) (d : ArrayDoc) : Prop where
  zf : lookup o (ascii "zarr_format") = some (.num ['3'])
  nt : lookup o (ascii "node_type") = some (.str (ascii "array"))
  shape : lookup o (ascii "shape") = some (.arr (d.shape.map .num))
  shapeTok : ∀ t ∈ d.shape, isU64Tok t = true
  dt : ∃ j, lookup o (ascii "data_type") = some j ∧ MetaV3.ofJ j = some d.dataType
  cg : ∃ j, lookup o (ascii "chunk_grid") = some j ∧ MetaV3.ofJ j = some d.chunkGrid
  ck : ∃ j, lookup o (ascii "chunk_key_encoding") = some j ∧ MetaV3.ofJ j = some d.cke
  fill : lookup o (ascii "fill_value") = some d.fill
  codecs : ∃ j, lookup o (ascii "codecs") = some j ∧ metaList j = some d.codecs
  attrs : (lookup o (ascii "attributes") = none ∧ d.attrs = []) ∨ lookup o (ascii "attributes") = some (.obj d.attrs)
  st : (lookup o (ascii "storage_transformers") = none ∧ d.st = []) ∨
    ∃ j, lookup o (ascii "storage_transformers") = some j ∧ metaList j = some d.st
  dn : (lookup o (ascii "dimension_names") = none ∧ d.dimNames = none) ∨
    ∃ j, lookup o (ascii "dimension_names") = some j ∧ dimNamesOfJ j = some d.dimNames
  extra : d.extra = extrasOf arrayKeys o

theorem shapeTok_inv (x : J) (t : List Char) (h : shapeTok x = some t) : x = .num t ∧ isU64Tok t = true := by
  unfold shapeTok at h
  split at h
  · split at h
    · cases h; exact ⟨rfl, ‹_›⟩
    · cases h
  · cases h

theorem arrayDoc_ofJ_inv (o : Obj) (d : ArrayDoc) (h : ArrayDoc.ofJ (.obj o) = some d) : ArrayDocOf o d := by
  simp only [ArrayDoc.ofJ] at h
  split at h
  next nt hzf hnt =>
    split at h
    · cases h
    · rename_i hnt2
      split at h
      next sh dt cg ck fv cs h1 h2 h3 h4 h5 h6 =>
        split at h
        next shape dt' cg' ck' cs' attrs st dn e1 e2 e3 e4 e5 e6 e7 e8 =>
          simp only [Option.some.injEq] at h
          subst h
          have hnt3 : nt = ascii "array" := by simpa using hnt2
          subst hnt3
          have e1' : sh.mapM shapeTok = some shape := e1
          have hsh := mapM_some_inv shapeTok J.num (fun x y hx => (shapeTok_inv x y hx).1) _ _ e1'
          refine ⟨hzf, hnt, by rw [h1, hsh], ?_, ⟨dt, h2, e2⟩, ⟨cg, h3, e3⟩, ⟨ck, h4, e4⟩, h5, ⟨cs, h6, e5⟩, ?_, ?_, ?_, rfl⟩
          · intro t ht
            obtain ⟨x, _, hx⟩ := mapM_some_mem _ _ _ e1' t ht
            exact (shapeTok_inv x t hx).2
          · split at e6
            · left; exact ⟨‹_›, by cases e6; rfl⟩
            · right; cases e6; assumption
            · cases e6
          · split at e7
            · left; exact ⟨‹_›, by cases e7; rfl⟩
            · right; exact ⟨_, ‹_›, e7⟩
          · split at e8
            · left; exact ⟨‹_›, by cases e8; rfl⟩
            · right; exact ⟨_, ‹_›, e8⟩
        · cases h
      · cases h
  · cases h

theorem arrayDoc_ofJ_intro (o : Obj) (d : ArrayDoc) (h : ArrayDocOf o d) : ArrayDoc.ofJ (.obj o) = some d := by
  obtain ⟨hzf, hnt, hsh, hshTok, ⟨dt, hdt, hdt'⟩, ⟨cg, hcg, hcg'⟩, ⟨ck, hck, hck'⟩, hfill, ⟨cs, hcs, hcs'⟩, hattrs, hst, hdn, hextra⟩ := h
  obtain ⟨shape, dataType, chunkGrid, cke, fill, codecs, attrs, st, dimNames, extra⟩ := d
  simp only at *
  have hbne : (ascii "array" != ascii "array") = false := by decide
  simp only [ArrayDoc.ofJ, hzf, hnt, hsh, hdt, hcg, hck, hfill, hcs, hdt', hcg', hck', hcs', hbne]
  rw [mapM_map_some (g := J.num) (ys := shape)]
  · rcases hattrs with ⟨ha, rfl⟩ | ha <;> rcases hst with ⟨hs, rfl⟩ | ⟨js, hs, hs'⟩ <;> rcases hdn with ⟨hn, rfl⟩ | ⟨jn, hn, hn'⟩ <;>
      simp only [extrasOf, Bool.false_eq_true, if_false, *]
  · intro t ht; simp only [hshTok t ht, if_true]

structure GroupDocOf (o : Obj) (d : GroupDoc) : Prop where
  zf : lookup o (ascii "zarr_format") = some (.num ['3'])
  nt : lookup o (ascii "node_type") = some (.str (ascii "group"))
  cm : lookup o (ascii "consolidated_metadata") = none
  attrs : (lookup o (ascii "attributes") = none ∧ d.attrs = []) ∨ lookup o (ascii "attributes") = some (.obj d.attrs)
  extra : d.extra = extrasOf groupKeys o

theorem groupDoc_ofJ_inv (o : Obj) (d : GroupDoc) (h : GroupDoc.ofJ (.obj o) = some d) : GroupDocOf o d := by
  simp only [GroupDoc.ofJ] at h
  split at h
  next nt hzf hnt hcm =>
    split at h
    · cases h
    · rename_i hnt2
      have hnt3 : nt = ascii "group" := by simpa using hnt2
      subst hnt3
      split at h
      next attrs e6 =>
        simp only [Option.some.injEq] at h
        subst h
        refine ⟨hzf, hnt, hcm, ?_, rfl⟩
        split at e6
        · left; exact ⟨‹_›, by cases e6; rfl⟩
        · right; cases e6; assumption
        · cases e6
      · cases h
  · cases h

theorem groupDoc_ofJ_intro (o : Obj) (d : GroupDoc) (h : GroupDocOf o d) : GroupDoc.ofJ (.obj o) = some d := by
  obtain ⟨hzf, hnt, hcm, hattrs, hextra⟩ := h
  obtain ⟨attrs, extra⟩ := d
  simp only at *
  have hbne : (ascii "group" != ascii "group") = false := by decide
  simp only [GroupDoc.ofJ, hzf, hnt, hcm, hbne]
  rcases hattrs with ⟨ha, rfl⟩ | ha <;> simp only [extrasOf, Bool.false_eq_true, if_false, *]

/-! ### the printed array document -/

def extraKVs (e : List (Str × AField)) : Obj := e.map (fun kv => (kv.1, kv.2.toJ))

def ArrayDoc.knownKVs (d : ArrayDoc) : Obj :=
  [(ascii "zarr_format", .num ['3']), (ascii "node_type", .str (ascii "array")),
         (ascii "shape", .arr (d.shape.map .num)), (ascii "data_type", d.dataType.toJ),
         (ascii "chunk_grid", d.chunkGrid.toJ), (ascii "chunk_key_encoding", d.cke.toJ),
         (ascii "fill_value", d.fill), (ascii "codecs", .arr (d.codecs.map MetaV3.toJ))] ++
        (if d.attrs.isEmpty then [] else [(ascii "attributes", .obj d.attrs)]) ++
        (if d.st.isEmpty then [] else [(ascii "storage_transformers", .arr (d.st.map MetaV3.toJ))]) ++
        (match d.dimNames with | some ns => [(ascii "dimension_names", dimNamesToJ ns)] | none => [])

def ArrayDoc.kvs (d : ArrayDoc) : Obj := d.knownKVs ++ extraKVs d.extra

theorem ArrayDoc.toJ_eq (d : ArrayDoc) : d.toJ = .obj d.kvs := rfl

theorem arrayDoc_knownKeys_sublist (d : ArrayDoc) : (d.knownKVs.map (·.1)).Sublist arrayKeys := by
  obtain ⟨shape, dataType, chunkGrid, cke, fill, codecs, attrs, st, dimNames, extra⟩ := d
  cases attrs <;> cases st <;> cases dimNames <;>
    simp only [ArrayDoc.knownKVs, List.isEmpty_nil, List.isEmpty_cons, if_true, Bool.false_eq_true, if_false,
      List.append_nil, List.map_append, List.map_cons, List.map_nil, List.cons_append, List.nil_append] <;> decide

theorem arrayKeys_nodup : arrayKeys.Nodup := by decide

theorem lookup_extraKVs_none (e : List (Str × AField)) (k : Str) (h : ∀ kv ∈ e, kv.1 ≠ k) :
    lookup (extraKVs e) k = none := by
  rw [lookup_eq_none_iff]
  unfold extraKVs
  simp only [List.map_map, List.mem_map, Function.comp_apply, not_exists, not_and]
  intro kv hkv; exact h kv hkv

/-- the shape of an additional field as `AField.ofJ` leaves it -/
def AField.shapeOk (a : AField) : Prop :=
  match a.field with
  | .obj o => lookup o kMustUnderstand = none
  | _ => a.mu = true

theorem extrasOf_extraKVs (known : List Str) (e : List (Str × AField)) (hk : ∀ kv ∈ e, kv.1 ∉ known)
    (hs : sortedKeys e) (ha : ∀ kv ∈ e, AField.shapeOk kv.2) : extrasOf known (extraKVs e) = e := by
  unfold extrasOf
  have hf : (extraKVs e).filter (fun kv => !known.contains kv.1) = extraKVs e := by
    rw [List.filter_eq_self]
    intro kv hkv
    unfold extraKVs at hkv
    obtain ⟨x, hx, rfl⟩ := List.mem_map.1 hkv
    simpa using hk x hx
  rw [hf, foldl_insertExtra_sorted]
  · unfold extraKVs
    rw [List.nil_append, List.map_map]
    conv => rhs; rw [← List.map_id e]
    apply List.map_congr_left
    intro kv hkv
    simp only [Function.comp_apply, id]
    rw [afield_ofJ_toJ _ (ha kv hkv)]
  · unfold extraKVs sortedKeys at *
    simpa [List.map_map, Function.comp_def] using hs

theorem extrasOf_append_known (known : List Str) (a b : Obj) (ha : ∀ kv ∈ a, kv.1 ∈ known) :
    extrasOf known (a ++ b) = extrasOf known b := by
  unfold extrasOf
  rw [List.filter_append]
  have : a.filter (fun kv => !known.contains kv.1) = [] := by
    rw [List.filter_eq_nil_iff]
    intro kv hkv
    simpa using ha kv hkv
  rw [this, List.nil_append]

theorem arrayDoc_extras (d : ArrayDoc) (hk : ∀ kv ∈ d.extra, kv.1 ∉ arrayKeys)
    (hs : sortedKeys d.extra) (ha : ∀ kv ∈ d.extra, AField.shapeOk kv.2) : extrasOf arrayKeys d.kvs = d.extra := by
  unfold ArrayDoc.kvs
  rw [extrasOf_append_known, extrasOf_extraKVs _ _ hk hs ha]
  intro kv hkv
  exact (arrayDoc_knownKeys_sublist d).subset (List.mem_map_of_mem hkv)

theorem lookup_ite_ne (c : Prop) [Decidable c] (k' : Str) (v : J) (k : Str) (h : (k' == k) = false) :
    lookup (if c then [] else [(k', v)]) k = none := by
  split
  · rfl
  · rw [lookup_cons_ne _ _ _ _ h]; rfl

theorem arrayDoc_kvs_of (d : ArrayDoc) (hsh : ∀ t ∈ d.shape, isU64Tok t = true)
    (he : ∀ kv ∈ d.extra, kv.1 ∉ arrayKeys) (hx : extrasOf arrayKeys d.kvs = d.extra) : ArrayDocOf d.kvs d := by
  have hE : ∀ k ∈ arrayKeys, lookup (extraKVs d.extra) k = none := fun k hk =>
    lookup_extraKVs_none _ _ (fun kv hkv e => he kv hkv (e ▸ hk))
  obtain ⟨shape, dataType, chunkGrid, cke, fill, codecs, attrs, st, dimNames, extra⟩ := d
  refine ⟨?_, ?_, ?_, hsh, ⟨dataType.toJ, ?_, metaV3_ofJ_toJ _⟩, ⟨chunkGrid.toJ, ?_, metaV3_ofJ_toJ _⟩, ⟨cke.toJ, ?_, metaV3_ofJ_toJ _⟩, ?_,
    ⟨_, ?_, metaList_toJ codecs⟩, ?_, ?_, ?_, hx.symm⟩
  · simp (disch := decide) only [ArrayDoc.kvs, ArrayDoc.knownKVs, lookup_append, lookup_cons_eq, lookup_cons_ne, Option.some_or]
  · simp (disch := decide) only [ArrayDoc.kvs, ArrayDoc.knownKVs, lookup_append, lookup_cons_eq, lookup_cons_ne, Option.some_or]
  · simp (disch := decide) only [ArrayDoc.kvs, ArrayDoc.knownKVs, lookup_append, lookup_cons_eq, lookup_cons_ne, Option.some_or]
  · simp (disch := decide) only [ArrayDoc.kvs, ArrayDoc.knownKVs, lookup_append, lookup_cons_eq, lookup_cons_ne, Option.some_or]
  · simp (disch := decide) only [ArrayDoc.kvs, ArrayDoc.knownKVs, lookup_append, lookup_cons_eq, lookup_cons_ne, Option.some_or]
  · simp (disch := decide) only [ArrayDoc.kvs, ArrayDoc.knownKVs, lookup_append, lookup_cons_eq, lookup_cons_ne, Option.some_or]
  · simp (disch := decide) only [ArrayDoc.kvs, ArrayDoc.knownKVs, lookup_append, lookup_cons_eq, lookup_cons_ne, Option.some_or]
  · simp (disch := decide) only [ArrayDoc.kvs, ArrayDoc.knownKVs, lookup_append, lookup_cons_eq, lookup_cons_ne, Option.some_or]
  · have := hE (ascii "attributes") (by decide)
    cases attrs <;> cases dimNames <;>
    simp (disch := decide) [ArrayDoc.kvs, ArrayDoc.knownKVs, lookup_append, lookup_cons_eq, lookup_cons_ne, lookup_nil, this, lookup_ite_ne]
  · have := hE (ascii "storage_transformers") (by decide)
    cases st <;> cases dimNames <;>
    simp (disch := decide) [ArrayDoc.kvs, ArrayDoc.knownKVs, lookup_append, lookup_cons_eq, lookup_cons_ne, lookup_nil, this, lookup_ite_ne]
    all_goals exact metaList_toJ (_ :: _)
  · have := hE (ascii "dimension_names") (by decide)
    cases dimNames <;>
    simp (disch := decide) [ArrayDoc.kvs, ArrayDoc.knownKVs, lookup_append, lookup_cons_eq, lookup_cons_ne, lookup_nil, this, dimNames_roundtrip, lookup_ite_ne]
/-- the round trip at the JSON level, from the facts it needs -/
theorem arrayDoc_ofJ_toJ (d : ArrayDoc) (hsh : ∀ t ∈ d.shape, isU64Tok t = true)
    (hk : ∀ kv ∈ d.extra, kv.1 ∉ arrayKeys) (hs : sortedKeys d.extra) (ha : ∀ kv ∈ d.extra, AField.shapeOk kv.2) :
    ArrayDoc.ofJ d.toJ = some d := by
  rw [ArrayDoc.toJ_eq]
  exact arrayDoc_ofJ_intro _ _ (arrayDoc_kvs_of d hsh hk (arrayDoc_extras d hk hs ha))

/-! ### the printed group document -/

def GroupDoc.knownKVs (d : GroupDoc) : Obj :=
  [(ascii "zarr_format", .num ['3']), (ascii "node_type", .str (ascii "group"))] ++
        (if d.attrs.isEmpty then [] else [(ascii "attributes", .obj d.attrs)])

def GroupDoc.kvs (d : GroupDoc) : Obj := d.knownKVs ++ extraKVs d.extra

theorem GroupDoc.toJ_eq (d : GroupDoc) : d.toJ = .obj d.kvs := rfl

theorem groupDoc_knownKeys_sublist (d : GroupDoc) : (d.knownKVs.map (·.1)).Sublist groupKeys := by
  obtain ⟨attrs, extra⟩ := d
  cases attrs <;>
    simp only [GroupDoc.knownKVs, List.isEmpty_nil, List.isEmpty_cons, if_true, Bool.false_eq_true, if_false,
      List.append_nil, List.map_append, List.map_cons, List.map_nil, List.cons_append, List.nil_append] <;> decide

theorem groupKeys_nodup : groupKeys.Nodup := by decide

theorem groupDoc_extras (d : GroupDoc) (hk : ∀ kv ∈ d.extra, kv.1 ∉ groupKeys)
    (hs : sortedKeys d.extra) (ha : ∀ kv ∈ d.extra, AField.shapeOk kv.2) : extrasOf groupKeys d.kvs = d.extra := by
  unfold GroupDoc.kvs
  rw [extrasOf_append_known, extrasOf_extraKVs _ _ hk hs ha]
  intro kv hkv
  exact (groupDoc_knownKeys_sublist d).subset (List.mem_map_of_mem hkv)

theorem groupDoc_kvs_of (d : GroupDoc)
    (he : ∀ kv ∈ d.extra, kv.1 ∉ groupKeys) (hx : extrasOf groupKeys d.kvs = d.extra) : GroupDocOf d.kvs d := by
  have hE : ∀ k ∈ groupKeys, lookup (extraKVs d.extra) k = none := fun k hk =>
    lookup_extraKVs_none _ _ (fun kv hkv e => he kv hkv (e ▸ hk))
  obtain ⟨attrs, extra⟩ := d
  refine ⟨?_, ?_, ?_, ?_, hx.symm⟩
  · simp (disch := decide) only [GroupDoc.kvs, GroupDoc.knownKVs, lookup_append, lookup_cons_eq, lookup_cons_ne, Option.some_or]
  · simp (disch := decide) only [GroupDoc.kvs, GroupDoc.knownKVs, lookup_append, lookup_cons_eq, lookup_cons_ne, Option.some_or]
  · have := hE (ascii "consolidated_metadata") (by decide)
    cases attrs <;>
    simp (disch := decide) [GroupDoc.kvs, GroupDoc.knownKVs, lookup_append, lookup_cons_eq, lookup_cons_ne, lookup_nil, this]
  · have := hE (ascii "attributes") (by decide)
    cases attrs <;>
    simp (disch := decide) [GroupDoc.kvs, GroupDoc.knownKVs, lookup_append, lookup_cons_eq, lookup_cons_ne, lookup_nil, this]

theorem groupDoc_ofJ_toJ (d : GroupDoc)
    (hk : ∀ kv ∈ d.extra, kv.1 ∉ groupKeys) (hs : sortedKeys d.extra) (ha : ∀ kv ∈ d.extra, AField.shapeOk kv.2) :
    GroupDoc.ofJ d.toJ = some d := by
  rw [GroupDoc.toJ_eq]
  exact groupDoc_ofJ_intro _ _ (groupDoc_kvs_of d hk (groupDoc_extras d hk hs ha))

end Zarrs.Meta
