import ZarrsModel.Lemmas.ArrayMulti
set_option linter.unusedSectionVars false
/- helper lemmas for C01/C04, part 6: multi-chunk reads, and histories -/
namespace Zarrs
open Subset

namespace ArrCfg
variable {α : Type} [DecidableEq α]
variable {cfg : ArrCfg α} {G : Shape}

/-! ### folds that assemble an output buffer -/

theorem foldOpt_read (a : AArr α) (R : Subset) (f : List α → Idx → Option (List α)) (P : Idx → Idx → Bool)
    (L : List Idx)
    (hstep : ∀ c ∈ L, ∀ out : List α, out.length = R.numElements →
      ∃ out', f out c = some out' ∧ out'.length = R.numElements ∧
        ∀ j, inB j R.shape = true → out'[ravel j R.shape]? =
          if P c (addIdx j R.start) = true then some (a (addIdx j R.start)) else out[ravel j R.shape]?) :
    ∀ out : List α, out.length = R.numElements →
      ∃ out', foldOpt f out L = some out' ∧ out'.length = R.numElements ∧
        ∀ j, inB j R.shape = true → out'[ravel j R.shape]? =
          if L.any (fun c => P c (addIdx j R.start)) = true then some (a (addIdx j R.start))
          else out[ravel j R.shape]? := by
  induction L with
  | nil =>
    intro out hout
    exact ⟨out, rfl, hout, fun j _ => by simp⟩
  | cons c L ih =>
    intro out hout
    obtain ⟨out1, h1, hl1, hp1⟩ := hstep c (by simp) out hout
    obtain ⟨out2, h2, hl2, hp2⟩ := ih (fun c' hc' => hstep c' (by simp [hc'])) out1 hl1
    refine ⟨out2, by simp only [foldOpt, h1, h2], hl2, ?_⟩
    intro j hj
    rw [hp2 j hj, hp1 j hj, List.any_cons]
    by_cases hP : P c (addIdx j R.start) = true <;>
      by_cases hL : (L.any fun c => P c (addIdx j R.start)) = true <;> simp [hP, hL]

theorem read_of_all (a : AArr α) (R : Subset) (out : List α) (hl : out.length = R.numElements)
    (hp : ∀ j, inB j R.shape = true → out[ravel j R.shape]? = some (a (addIdx j R.start))) :
    out = a.read R := by
  apply list_ext_box R.shape _ _ hl (a.read_length R)
  intro j hj
  rw [hp j hj, a.read_getElem?_box R j hj]

/-! ### `retrieveArraySubset` -/

theorem retrieveArraySubset_read (h : COk cfg G) {st : KV} {a : AArr α} (hinv : Inv cfg G st a)
    (r : Subset) (hr : r.wf = true) (hb : r.inboundsShape cfg.shape = true) :
    cfg.retrieveArraySubset st r = some (a.read r) := by
  have hb' := hb
  simp only [Subset.inboundsShape, Bool.and_eq_true, beq_iff_eq] at hb'
  have hr' := hr
  simp only [Subset.wf, beq_iff_eq] at hr'
  simp only [retrieveArraySubset]
  rw [if_neg (by simp only [bne_iff_ne, ne_eq, Decidable.not_not]; exact hb'.1)]
  cases he : r.isEmpty with
  | true =>
    have hpos := r.rank_pos_of_empty hr he
    have hgl : 0 < cfg.grid.length := by rw [← h.rank, ← hb'.1]; exact hpos
    have hbox : cfg.grid.chunksInArraySubset r cfg.shape = some (Subset.newEmpty cfg.grid.length) := by
      simp [Grid.chunksInArraySubset, Subset.endInc, he]
    have hn0 : r.numElements = 0 := (prod_eq_zero_iff _).mpr he
    simp only [hbox]
    split
    · congr 1
      rw [hn0]
      symm
      apply List.eq_nil_of_length_eq_zero
      rw [a.read_length, hn0]
    · rename_i h1; rw [newEmpty_numElements _ hgl] at h1; cases h1
    · rename_i h0 _; exact absurd (newEmpty_numElements _ hgl) h0
  | false =>
    obtain ⟨box, hbox, hiff⟩ := h.chunksIn r hr hb he
    have hne' := he
    simp only [Subset.isEmpty] at hne'
    obtain ⟨c0, _, hbc0, _⟩ := h.region_cover hb hiff (i := r.start) (mem_start r.start r.shape hr' hne')
    have hbwf := box.wf_of_contains c0 hbc0
    simp only [hbox]
    split
    · rename_i h0
      have := box.nonempty_of_contains c0 hbc0
      rw [box.isEmpty_of_numElements_zero h0] at this
      cases this
    · rename_i h1
      obtain ⟨hc0G, cs0, hcs0, hwf0, hrank0, hsub⟩ := h.single_box hr hb he hiff h1
      simp only [hcs0]
      by_cases heq : (cs0 == r) = true
      · rw [if_pos heq]
        rw [Subset.beq_iff] at heq
        subst heq
        exact hinv.chunks _ hc0G _ hcs0
      · rw [if_neg heq]
        obtain ⟨hw, hin, hadd, _⟩ := Subset.rel_facts r cs0 hr hwf0 hrank0.symm he hsub
        rw [retrieveChunkSubset_read h hinv hc0G hcs0 (r.relativeTo cs0.start) hw hin]
        simp only [Subset.relativeTo, hadd]
    · obtain ⟨out, hfold, hl, hp⟩ := foldOpt_read a r
        (fun out c => match cfg.chunkSubset c with
          | none => none
          | some cs =>
            match cfg.retrieveChunkSubset st c ((cs.overlap r).relativeTo cs.start) with
            | none => none
            | some part => some (updateRuns r.shape ((cs.overlap r).relativeTo r.start) out part))
        (fun c i => cfg.inChunk c i && r.contains i) box.indices
        (by
          intro c hc out hout
          have hbc := (box.mem_indices hbwf c).mp hc
          obtain ⟨hcG, cs, i0, hcs, hi0c, hi0r⟩ := (hiff c).mp hbc
          obtain ⟨cs', hcs', _, hcwf, hcrank, _⟩ := h.chunk_def c hcG
          rw [hcs] at hcs'; cases hcs'
          have hrk : cs.rank = r.rank := by rw [hcrank, hb'.1, h.rank]
          have hov : ∀ i, (cs.overlap r).contains i = (cs.contains i && r.contains i) :=
            C09.overlap_mem cs r hcwf hr hrk
          have hovwf : (cs.overlap r).wf = true := by
            simp only [Subset.wf, Subset.rank, beq_iff_eq] at hr hcwf hrk ⊢
            simp only [Subset.overlap, Subset.endExc, zipSub_length, zipMin_length, zipMax_length, addIdx_length]
            omega
          have hovrank : (cs.overlap r).rank = r.rank := by
            simp only [Subset.rank] at hrk ⊢
            simp only [Subset.overlap, zipMax_length]; omega
          have hovne : (cs.overlap r).isEmpty = false :=
            (cs.overlap r).nonempty_of_contains i0 (by rw [hov, hi0r, hi0c]; rfl)
          have hsub1 : ∀ i, (cs.overlap r).contains i = true → cs.contains i = true := by
            intro i hi; rw [hov, Bool.and_eq_true] at hi; exact hi.1
          have hsub2 : ∀ i, (cs.overlap r).contains i = true → r.contains i = true := by
            intro i hi; rw [hov, Bool.and_eq_true] at hi; exact hi.2
          obtain ⟨hw1, hin1, hadd1, _⟩ :=
            Subset.rel_facts (cs.overlap r) cs hovwf hcwf (by rw [hovrank, hrk]) hovne hsub1
          simp only [hcs]
          rw [retrieveChunkSubset_read h hinv hcG hcs ((cs.overlap r).relativeTo cs.start) hw1 hin1]
          simp only [Subset.relativeTo, hadd1]
          obtain ⟨hl, hp⟩ := updateRuns_read_step a r (cs.overlap r) hr hovwf hovrank hovne hsub2 out hout
          refine ⟨_, rfl, hl, ?_⟩
          intro j hj
          have := hp j hj
          rw [hov, ← inChunk_of hcs] at this
          exact this)
        (List.replicate r.numElements cfg.fill) (by simp)
      refine hfold.trans ?_
      congr 1
      apply read_of_all a r out hl
      intro j hj
      rw [hp j hj, if_pos]
      have hri : r.contains (addIdx j r.start) = true := mem_addIdx j r.start r.shape hr' hj
      obtain ⟨c, cs, hbc, _, hcs, hci⟩ := h.region_cover hb hiff hri
      rw [List.any_eq_true]
      exact ⟨c, (box.mem_indices hbwf c).mpr hbc, by simp [inChunk_of hcs, hci, hri]⟩

/-! ### `retrieveChunks` -/

theorem retrieveChunks_read (h : COk cfg G) {st : KV} {a : AArr α} (hinv : Inv cfg G st a)
    (b : Subset) (hb : b.wf = true) (hbi : b.inboundsShape G = true) :
    ∃ region, cfg.grid.chunksSubset b = some region ∧ cfg.retrieveChunks st b = some (a.read region) := by
  have hbi' := hbi
  simp only [Subset.inboundsShape, Bool.and_eq_true, beq_iff_eq] at hbi'
  have hrk : b.rank = cfg.shape.length := by rw [hbi'.1, h.G_length, h.rank]
  simp only [retrieveChunks]
  rw [if_neg (by simp only [bne_iff_ne, ne_eq, Decidable.not_not]; exact hrk)]
  cases he : b.isEmpty with
  | true =>
    have hpos := b.rank_pos_of_empty hb he
    refine ⟨_, chunksSubset_empty b he, ?_⟩
    simp only [chunksSubset_empty b he]
    have hn0 : b.numElements = 0 := (prod_eq_zero_iff _).mpr he
    split
    · congr 1
      symm
      apply List.eq_nil_of_length_eq_zero
      rw [a.read_length, newEmpty_numElements _ hpos]
    · rename_i h1; rw [hn0] at h1; cases h1
    · rename_i h0 _; exact absurd hn0 h0
  | false =>
    obtain ⟨region, hreg, hrwf, hrrank, hriff⟩ := h.chunksSubset b hb hbi he
    refine ⟨region, hreg, ?_⟩
    simp only [hreg]
    split
    · rename_i h0
      rw [b.isEmpty_of_numElements_zero h0] at he; cases he
    · rename_i h1
      obtain ⟨hin, cs, hcs, hreg'⟩ := h.chunksSubset_single b hb hbi h1
      rw [hreg] at hreg'; cases hreg'
      exact hinv.chunks _ hin _ hcs
    · obtain ⟨out, hfold, hl, hp⟩ := foldOpt_read a region
        (fun out c => match cfg.chunkSubset c, cfg.retrieveChunk st c with
          | some cs, some part => some (updateRuns region.shape (cs.relativeTo region.start) out part)
          | _, _ => none)
        (fun c i => cfg.inChunk c i) b.indices
        (by
          intro c hc out hout
          have hbc := (b.mem_indices hb c).mp hc
          have hcG := box_inB hbi hbc
          obtain ⟨cs, hcs, _, hcwf, hcrank, hcne⟩ := h.chunk_def c hcG
          have hsub : ∀ i, cs.contains i = true → region.contains i = true :=
            fun i hi => (hriff i).mpr ⟨c, cs, hbc, hcs, hi⟩
          simp only [hcs, hinv.chunks c hcG cs hcs]
          obtain ⟨hl, hp⟩ := updateRuns_read_step a region cs hrwf hcwf (by rw [hcrank, hrrank]) hcne hsub out hout
          refine ⟨_, rfl, hl, ?_⟩
          intro j hj
          rw [hp j hj, inChunk_of hcs])
        (List.replicate region.numElements cfg.fill) (by simp)
      refine hfold.trans ?_
      congr 1
      apply read_of_all a region out hl
      intro j hj
      rw [hp j hj, if_pos]
      have hrwf' := hrwf
      simp only [Subset.wf, beq_iff_eq] at hrwf'
      have hri : region.contains (addIdx j region.start) = true := mem_addIdx j region.start region.shape hrwf' hj
      obtain ⟨c, cs, hbc, hcs, hci⟩ := (hriff _).mp hri
      rw [List.any_eq_true]
      exact ⟨c, (b.mem_indices hb c).mpr hbc, by rw [inChunk_of hcs]; exact hci⟩

/-! ### histories -/

/-- in-bounds write/erase operations (same as `C01.opInBounds`) -/
def opInB (cfg : ArrCfg α) (G : Shape) : WriteOp α → Prop
  | .storeChunk c d => inB c G = true ∧ ∃ s, cfg.chunkShape c = some s ∧ d.length = prod s
  | .storeChunks b d => b.wf = true ∧ b.inboundsShape G = true ∧
      ∃ region, cfg.grid.chunksSubset b = some region ∧ d.length = region.numElements
  | .storeChunkSubset c r d => inB c G = true ∧ r.wf = true ∧
      (∃ s, cfg.chunkShape c = some s ∧ r.inboundsShape s = true) ∧ d.length = r.numElements
  | .storeArraySubset r d => r.wf = true ∧ r.inboundsShape cfg.shape = true ∧ d.length = r.numElements
  | .eraseChunk c => inB c G = true
  | .eraseChunks b => b.wf = true ∧ b.inboundsShape G = true

theorem applyOp_step (h : COk cfg G) {st : KV} {a : AArr α} (hinv : Inv cfg G st a) (op : WriteOp α)
    (hop : opInB cfg G op) :
    ∃ st', cfg.applyOp st op = some st' ∧ Inv cfg G st' (cfg.absOp a op) := by
  cases op with
  | storeChunk c d =>
    obtain ⟨hc, s, hs, hlen⟩ := hop
    obtain ⟨cs, hcs, hsh, _⟩ := h.chunk_def c hc
    rw [hs] at hsh; cases hsh
    simp only [applyOp, absOp, hcs]
    exact storeChunk_step h hinv hc hcs d hlen
  | storeChunks b d =>
    obtain ⟨hb, hbi, region, hreg, hlen⟩ := hop
    simp only [applyOp, absOp, hreg]
    exact storeChunks_step h hinv b hb hbi region hreg d hlen
  | storeChunkSubset c r d =>
    obtain ⟨hc, hr, ⟨s, hs, hrb⟩, hlen⟩ := hop
    obtain ⟨cs, hcs, hsh, _⟩ := h.chunk_def c hc
    rw [hs] at hsh; cases hsh
    simp only [applyOp, absOp, hcs]
    exact storeChunkSubset_step h hinv hc hcs r hr hrb d hlen
  | storeArraySubset r d =>
    obtain ⟨hr, hb, hlen⟩ := hop
    simp only [applyOp, absOp]
    exact storeArraySubset_step h hinv r hr hb d hlen
  | eraseChunk c =>
    obtain ⟨cs, hcs, _⟩ := h.chunk_def c hop
    simp only [applyOp, absOp, hcs]
    exact ⟨_, rfl, eraseChunk_step h hinv hop hcs⟩
  | eraseChunks b =>
    obtain ⟨hb, hbi⟩ := hop
    obtain ⟨region, hreg, hinv'⟩ := eraseChunks_step h hinv b hb hbi
    simp only [applyOp, absOp, hreg]
    exact ⟨_, rfl, hinv'⟩

theorem run_inv (h : COk cfg G) (ops : List (WriteOp α)) :
    ∀ (st : KV) (a : AArr α), Inv cfg G st a → (∀ op ∈ ops, opInB cfg G op) →
      ∃ st', cfg.run st ops = some st' ∧ Inv cfg G st' (ops.foldl cfg.absOp a) := by
  induction ops with
  | nil => intro st a hinv _; exact ⟨st, rfl, hinv⟩
  | cons op ops ih =>
    intro st a hinv hops
    obtain ⟨st1, h1, hinv1⟩ := applyOp_step h hinv op (hops op (by simp))
    obtain ⟨st2, h2, hinv2⟩ := ih st1 _ hinv1 (fun op' hop' => hops op' (by simp [hop']))
    refine ⟨st2, ?_, hinv2⟩
    simp only [run, foldOpt, h1] at h2 ⊢
    exact h2

/-- the refinement invariant holds after every in-bounds history from the empty store -/
theorem run_empty_inv (h : COk cfg G) (ops : List (WriteOp α)) (hops : ∀ op ∈ ops, opInB cfg G op) :
    ∃ st, cfg.run [] ops = some st ∧ Inv cfg G st (cfg.absRun ops) :=
  run_inv h ops [] _ (Inv.init h) hops

end ArrCfg
end Zarrs
