import ZarrsModel.Model.WriteMapOob
import ZarrsModel.Lemmas.WriteMap
import ZarrsModel.Lemmas.GridApi
/- helper lemmas for C17 (overhanging regions on a regular grid) -/
set_option Elab.async false
namespace Zarrs

theorem regular_eq_new (cs : Shape) : Grid.regular cs = Grid.new (cs.map DimCfg.fixed) := by
  simp only [Grid.regular, Grid.new, List.map_map]
  apply List.map_congr_left
  intro a _
  rfl

/-- on a regular grid `chunk_indices` never fails -/
theorem regular_chunkIndices_some (cs : Shape) : ∀ e : Idx, ∃ c, (Grid.regular cs).chunkIndices e = some c := by
  induction cs with
  | nil => intro e; exact ⟨[], by simp [Grid.regular, Grid.chunkIndices, zipOpt_nil_left]⟩
  | cons s cs ih =>
    intro e
    cases e with
    | nil => exact ⟨[], by simp [Grid.regular, Grid.chunkIndices, zipOpt_nil_right]⟩
    | cons i e =>
      obtain ⟨c, hc⟩ := ih e
      refine ⟨(i / s) :: c, ?_⟩
      simp only [Grid.regular, Grid.chunkIndices, List.map_cons] at hc ⊢
      exact zipOpt_cons_eq rfl hc

/-- on a regular grid `chunks_in_array_subset` does not depend on the array shape (the fall-back to the grid
shape is only taken when `chunk_indices` fails) -/
theorem regular_chunksIn_indep (cs : Shape) (r : Subset) (arr arr' : Shape) :
    (Grid.regular cs).chunksInArraySubset r arr = (Grid.regular cs).chunksInArraySubset r arr' := by
  simp only [Grid.chunksInArraySubset]
  cases r.endInc with
  | none => rfl
  | some e =>
    obtain ⟨c, hc⟩ := regular_chunkIndices_some cs e
    simp only [hc]

theorem ceil_mul (g c : Nat) (hc : 0 < c) : (g * c + c - 1) / c = g := by
  have h1 : g * c + c - 1 = c * g + (c - 1) := by rw [Nat.mul_comm]; omega
  rw [h1, Nat.mul_add_div hc, Nat.div_eq_of_lt (by omega)]
  rfl

/-- the grid shape of the extent `grid_shape * chunk_shape` is the grid shape again -/
theorem regular_gridShape_extent : ∀ (cs arr G : Shape), (Grid.regular cs).wf = true →
    (Grid.regular cs).gridShape arr = some G → arr.length = cs.length →
    (Grid.regular cs).gridShape (gridExtent G cs) = some G ∧ (gridExtent G cs).length = cs.length := by
  intro cs
  induction cs with
  | nil =>
    intro arr G _ hG _
    simp only [Grid.regular, Grid.gridShape, List.map_nil, zipOpt_nil_left, Option.some.injEq] at hG
    subst hG
    exact ⟨by simp [Grid.regular, Grid.gridShape, gridExtent, zipOpt_nil_left], by simp [gridExtent]⟩
  | cons s cs ih =>
    intro arr G hwf hG hlen
    cases arr with
    | nil => simp at hlen
    | cons a arr =>
      simp only [Grid.regular, Grid.gridShape, List.map_cons] at hG
      obtain ⟨g, Gs, _, hGs, rfl⟩ := zipOpt_cons_some.mp hG
      simp only [Grid.regular, Grid.wf, List.map_cons, List.all_cons, Bool.and_eq_true, Grid.wfDim,
        decide_eq_true_eq] at hwf
      simp only [List.length_cons, Nat.add_right_cancel_iff] at hlen
      obtain ⟨h1, h2⟩ := ih arr Gs (by simpa [Grid.regular, Grid.wf] using hwf.2)
        (by simpa [Grid.regular, Grid.gridShape] using hGs) hlen
      constructor
      · simp only [Grid.regular, Grid.gridShape, gridExtent, List.map_cons, List.zipWith_cons_cons] at h1 ⊢
        exact zipOpt_cons_eq (by simp only [Dim.gridShape, ceil_mul g s hwf.1]) h1
      · simp only [gridExtent, List.zipWith_cons_cons, List.length_cons] at h2 ⊢
        omega

/-- **overhanging regions on a regular grid**: a non-empty region inside the grid's extent (not necessarily
inside the array) is tiled by the per-chunk views, and every chunk `chunks_in_array_subset` reports is a chunk
of the grid -/
theorem writeMap_overhang {α} (cfg : ArrCfg α) (cs G : Shape) (hg : cfg.grid = Grid.regular cs)
    (hwf : cfg.grid.wf = true) (hG : cfg.grid.gridShape cfg.shape = some G) (hlen : cfg.shape.length = cs.length)
    (region : Subset) (hr : region.wf = true) (hb : region.inboundsShape (gridExtent G cs) = true)
    (hne : region.isEmpty = false) (es : Nat) :
    ∃ m box, cfg.writeMap region es = some m ∧
      (rangeBytes m).Perm (List.range (region.numElements * es)) ∧
      cfg.grid.chunksInArraySubset region cfg.shape = some box ∧
      ∀ c, box.contains c = true → inB c G = true := by
  rw [hg] at hwf hG
  obtain ⟨hGe, hle⟩ := regular_gridShape_extent cs cfg.shape G hwf hG hlen
  have hnew := regular_eq_new cs
  have hlen' : (gridExtent G cs).length = (cs.map DimCfg.fixed).length := by rw [List.length_map]; exact hle
  rw [hnew] at hwf hGe
  obtain ⟨box, hbox, hsome, hperm⟩ :=
    writeMap_perm (cs.map DimCfg.fixed) (gridExtent G cs) G hwf hGe hlen' region hr hb hne es
  obtain ⟨box', hbox', hiff⟩ :=
    C10.chunks_in_subset_exact (cs.map DimCfg.fixed) (gridExtent G cs) G hwf hGe hlen' region hr hb hne
  rw [hbox] at hbox'
  cases hbox'
  rw [← hnew] at hbox hsome hperm
  rw [regular_chunksIn_indep cs region (gridExtent G cs) cfg.shape, ← hg] at hbox
  rw [← hg] at hsome hperm
  exact ⟨_, box, writeMap_eq_pieces cfg region es box hbox hsome, hperm, hbox, fun c hc => ((hiff c).mp hc).1⟩

end Zarrs
