import ZarrsModel.Lemmas.VlenArr
import ZarrsModel.Lemmas.Partial
import ZarrsModel.Lemmas.ChainSDec
import ZarrsModel.Props.C03Vlen
set_option Elab.async false
/-
helper lemmas for variable-length arrays, part 3: chains with a vlen array-to-bytes codec (`ChainV`): the partial
decoders keep a served handle served (byte level, canonical answers), and the full decoder undoes the encoder.
-/
namespace Zarrs.VlenArr
open Zarrs Zarrs.Codec Zarrs.Vlen Zarrs.Partial

/-- a served variable-length chunk: every in-bounds list of regions is answered with the canonical values of the
regions of `xs` -/
def VHandleOk (h : VHandle) (sh : Shape) (xs : List Bytes) : Prop :=
  ∀ rs : List Subset, (∀ r ∈ rs, r.wf = true ∧ r.inboundsShape sh = true) →
    h rs = some (rs.map (fun r => VArr.ofElems (r.extract sh xs)))

theorem ofElems_valid' (xs : List Bytes) (n : Nat) (h : xs.length = n) : (VArr.ofElems xs).valid n = true := by
  subst h; exact ofElems_valid xs

/-! ### array-to-array partial decoders on variable data -/

theorem region_rank {sh : Shape} {r : Subset} (hb : r.inboundsShape sh = true) : r.rank = sh.length := by
  simp only [Subset.inboundsShape, Bool.and_eq_true, beq_iff_eq] at hb
  exact hb.1

theorem transposePDV_ok (order : List Nat) (sh : Shape) (h : VHandle) (xs : List Bytes)
    (ho : validOrder order sh.length = true) (hx : xs.length = prod sh)
    (hh : VHandleOk h (permute sh order) (transposeEnc order sh xs)) :
    VHandleOk (transposePDV order sh.length h) sh xs := by
  intro rs hrs
  unfold transposePDV
  have hany : rs.any (fun r => r.rank != sh.length) = false := by
    rw [List.any_eq_false]
    intro r hr
    simp [region_rank (hrs r hr).2]
  simp only [hany, Bool.false_eq_true, if_false]
  have hin := hh (rs.map (permRegion order)) (by
    intro r hr
    obtain ⟨r', hr', rfl⟩ := List.mem_map.mp hr
    exact permRegion_ok order sh r' (hrs r' hr').1 (hrs r' hr').2)
  show (match h (rs.map (permRegion order)) with
    | none => none
    | some parts => (rs.zip parts).mapM (fun (x : Subset × VArr) =>
        if !x.2.valid x.1.numElements then none
        else transposeVlen x.2 (permute x.1.shape order) (orderDecode order))) = _
  rw [hin, List.map_map]
  apply mapM_zip_map
  intro r hr
  obtain ⟨hrw, hrb⟩ := hrs r hr
  have hrl : r.shape.length = sh.length := by
    have := region_rank hrb
    simp only [Subset.wf, beq_iff_eq] at hrw
    rw [← hrw]; exact this
  have ho' : validOrder order r.shape.length = true := by rw [hrl]; exact ho
  obtain ⟨hw', hb'⟩ := permRegion_ok order sh r hrw hrb
  have hlen : ((permRegion order r).extract (permute sh order) (transposeEnc order sh xs)).length = prod r.shape := by
    rw [(extract_spec' _ _ _ hw' hb' (transposeEnc_length _ _ _)).1]
    exact prod_permute r.shape order ho'
  have hv := ofElems_valid' _ _ hlen
  simp only [Function.comp]
  rw [show r.numElements = prod r.shape from rfl, hv]
  simp only [Bool.not_true, Bool.false_eq_true, if_false]
  rw [transposeVlen_dec _ r.shape order ho' hv, elems_ofElems,
    transposeDec_extract order sh xs r ho hx hrw hrb]

theorem squeezePDV_ok (sh : Shape) (h : VHandle) (xs : List Bytes) (hpos : ∀ d ∈ sh, 0 < d) (hx : xs.length = prod sh)
    (hh : VHandleOk h (AStage.squeeze.encShape sh) xs) :
    VHandleOk (squeezePDV sh h) sh xs := by
  intro rs hrs
  unfold squeezePDV
  rw [hh (rs.map (squeezeRegion sh)) (by
    intro r hr
    obtain ⟨r', hr', rfl⟩ := List.mem_map.mp hr
    obtain ⟨h1, h2, _⟩ := squeezeRegion_ok sh xs r' hpos hx (hrs r' hr').1 (hrs r' hr').2
    exact ⟨h1, h2⟩), List.map_map]
  congr 1
  apply List.map_congr_left
  intro r hr
  simp only [Function.comp]
  rw [(squeezeRegion_ok sh xs r hpos hx (hrs r hr).1 (hrs r hr).2).2.2]

theorem arrayCachePDV_ok (sh : Shape) (h : VHandle) (xs : List Bytes) (hx : xs.length = prod sh)
    (hh : VHandleOk h sh xs) : VHandleOk (arrayCachePDV sh h) sh xs := by
  intro rs hrs
  unfold arrayCachePDV
  rw [hh [Subset.ofShape sh] (by
    intro r hr
    simp only [List.mem_singleton] at hr
    subst hr
    exact ofShape_ok sh)]
  simp only [List.map_cons, List.map_nil, extract_full sh xs hx]
  rw [extractRegionsVlen_spec rs sh _ hrs (ofElems_valid' xs _ hx), elems_ofElems]

theorem aStageV_step (st : AStage) (sh : Shape) (xs : List Bytes) (h : VHandle) (ho : st.ok sh)
    (hx : xs.length = prod sh) (hh : VHandleOk h (st.encShape sh) (st.enc sh xs)) :
    VHandleOk (st.pdV sh h) sh xs := by
  cases st with
  | transpose order => exact transposePDV_ok order sh h xs ho hx hh
  | squeeze => exact squeezePDV_ok sh h xs ho hx hh
  | cache => exact arrayCachePDV_ok sh h xs hx hh

theorem aChainV_ok (stages : List AStage) : ∀ (sh : Shape) (xs : List Bytes) (inner : VHandle),
    aOk stages sh → xs.length = prod sh → VHandleOk inner (shapesOf stages sh) (aEnc stages sh xs) →
    VHandleOk (aPDV stages sh inner) sh xs := by
  induction stages with
  | nil => intro sh xs inner _ _ hin; exact hin
  | cons st rest ih =>
    intro sh xs inner ha hx hin
    exact aStageV_step st sh xs _ ha.1 hx
      (ih (st.encShape sh) (st.enc sh xs) inner ha.2 (aStage_length st sh xs ha.1 hx) hin)

/-! ### the vlen partial decoder -/

theorem vlenPD_ok (codec : VCodec) (sh : Shape) (fill : Bytes) (h : BHandle) (b : Bytes) (w : VArr)
    (hd : codec.dec (prod sh) b = some w) (hw : w.valid (prod sh) = true) (hh : BHandleOk h b) :
    VHandleOk (vlenPD codec sh fill h) sh w.elems := by
  intro rs hrs
  unfold vlenPD
  rw [hh _ (whole_valid b), whole_extract]
  simp only [hd, Option.bind_some]
  exact extractRegionsVlen_spec rs sh w hrs hw

/-- an absent value reads as fill in every region (the real code does not even bounds-check the regions here) -/
theorem vlenPD_absent_all (codec : VCodec) (sh : Shape) (fill : Bytes) (h : BHandle) (hh : BHandleAbsent h)
    (rs : List Subset) :
    vlenPD codec sh fill h rs = some (rs.map (fun r => VArr.ofElems (List.replicate r.numElements fill))) := by
  unfold vlenPD
  rw [hh]
  simp only [fillVArr_eq]

theorem vlenPD_absent (codec : VCodec) (sh : Shape) (fill : Bytes) (h : BHandle) (hh : BHandleAbsent h) :
    VHandleOk (vlenPD codec sh fill h) sh (List.replicate (prod sh) fill) := by
  intro rs hrs
  rw [vlenPD_absent_all codec sh fill h hh rs]
  congr 1
  apply List.map_congr_left
  intro r hr
  rw [extract_replicate r sh fill (hrs r hr).1 (hrs r hr).2]

/-! ### the encoder and the full decoder -/

/-- first offset 0: the canonical value of its elements -/
def canon (v : VArr) : Prop := v.offsets.head? = some 0

/-- `b` is as good as `a`: valid, the same elements, the same value when `a` is canonical -/
def Sim (n : Nat) (a b : VArr) : Prop := b.valid n = true ∧ b.elems = a.elems ∧ (canon a → b = a ∧ canon b)

theorem Sim.refl (n : Nat) (a : VArr) (h : a.valid n = true) : Sim n a a := ⟨h, rfl, fun hc => ⟨rfl, hc⟩⟩

theorem canon_ofElems (xs : List Bytes) : canon (VArr.ofElems xs) := offsetsFrom_head 0 xs

theorem sim_ofElems (n : Nat) (a : VArr) (h : a.valid n = true) : Sim n a (VArr.ofElems a.elems) :=
  ⟨ofElems_valid' _ _ (elems_length n a h), elems_ofElems _, fun hc => ⟨ofElems_elems n a h hc, canon_ofElems _⟩⟩

theorem aStageV_enc (st : AStage) (sh : Shape) (v : VArr) (ho : st.ok sh) (hv : v.valid (prod sh) = true) :
    ∃ w, st.encV sh v = some w ∧ w.valid (prod (st.encShape sh)) = true ∧ w.elems = st.enc sh v.elems ∧
      (canon v → canon w) := by
  cases st with
  | transpose order =>
    have ho' : validOrder order sh.length = true := ho
    obtain ⟨hl, _⟩ := (validOrder_iff _ _).1 ho'
    refine ⟨VArr.ofElems (transposeEnc order sh v.elems), ?_, ofElems_valid' _ _ (transposeEnc_length _ _ _),
      elems_ofElems _, fun _ => canon_ofElems _⟩
    simp only [AStage.encV, hv, Bool.not_true, Bool.false_eq_true, if_false, hl, bne_self_eq_false]
    exact transposeVlen_enc v sh order ho' hv
  | squeeze =>
    refine ⟨v, rfl, ?_, rfl, fun h => h⟩
    rw [prod_encShape_squeeze sh ho]; exact hv
  | cache => exact ⟨v, rfl, hv, rfl, fun h => h⟩

theorem encodeA2AV_spec (stages : List AStage) : ∀ (sh : Shape) (v : VArr), aOk stages sh → v.valid (prod sh) = true →
    ∃ w, encodeA2AV stages sh v = some w ∧ w.valid (prod (shapesOf stages sh)) = true ∧
      w.elems = aEnc stages sh v.elems ∧ (canon v → canon w) := by
  induction stages with
  | nil => intro sh v _ hv; exact ⟨v, rfl, hv, rfl, fun h => h⟩
  | cons st rest ih =>
    intro sh v ha hv
    obtain ⟨w1, h1, hv1, he1, hc1⟩ := aStageV_enc st sh v ha.1 hv
    obtain ⟨w, h2, hv2, he2, hc2⟩ := ih (st.encShape sh) w1 ha.2 hv1
    refine ⟨w, ?_, hv2, ?_, fun h => hc2 (hc1 h)⟩
    · simp only [encodeA2AV, h1, Option.bind_some]; exact h2
    · rw [he2, he1]; rfl

theorem aStageV_dec (st : AStage) (sh : Shape) (v w w' : VArr) (ho : st.ok sh) (hv : v.valid (prod sh) = true)
    (he : st.encV sh v = some w) (hs : Sim (prod (st.encShape sh)) w w') :
    ∃ v', st.decV sh w' = some v' ∧ Sim (prod sh) v v' := by
  cases st with
  | transpose order =>
    have ho' : validOrder order sh.length = true := ho
    obtain ⟨hl, _⟩ := (validOrder_iff _ _).1 ho'
    simp only [AStage.encV, hv, Bool.not_true, Bool.false_eq_true, if_false, hl, bne_self_eq_false] at he
    rw [transposeVlen_enc v sh order ho' hv] at he
    have hw : w = VArr.ofElems (transposeEnc order sh v.elems) := (Option.some.inj he).symm
    obtain ⟨hv', hel, _⟩ := hs
    have hp : prod (AStage.encShape (.transpose order) sh) = prod sh := prod_permute sh order ho'
    rw [hp] at hv'
    refine ⟨VArr.ofElems (transposeDec order sh w'.elems), ?_, ?_⟩
    · simp only [AStage.decV, hv', Bool.not_true, Bool.false_eq_true, if_false, hl, bne_self_eq_false]
      exact transposeVlen_dec w' sh order ho' hv'
    · rw [hel, hw, elems_ofElems, (transpose_dec_enc' order sh v.elems ho' (elems_length _ v hv)).1]
      exact sim_ofElems _ v hv
  | squeeze =>
    have hw : w = v := (Option.some.inj he).symm
    subst hw
    refine ⟨w', rfl, ?_⟩
    rw [prod_encShape_squeeze sh ho] at hs
    exact hs
  | cache =>
    have hw : w = v := (Option.some.inj he).symm
    subst hw
    exact ⟨w', rfl, hs⟩

theorem decodeA2AV_enc (stages : List AStage) : ∀ (sh : Shape) (v w w' : VArr), aOk stages sh →
    v.valid (prod sh) = true → encodeA2AV stages sh v = some w → Sim (prod (shapesOf stages sh)) w w' →
    ∃ v', decodeA2AV stages sh w' = some v' ∧ Sim (prod sh) v v' := by
  induction stages with
  | nil =>
    intro sh v w w' _ _ he hs
    have : w = v := (Option.some.inj he).symm
    subst this
    exact ⟨w', rfl, hs⟩
  | cons st rest ih =>
    intro sh v w w' ha hv he hs
    obtain ⟨w1, h1, hv1, _, _⟩ := aStageV_enc st sh v ha.1 hv
    simp only [encodeA2AV, h1, Option.bind_some] at he
    obtain ⟨w1', hd1, hs1⟩ := ih (st.encShape sh) w1 w w' ha.2 hv1 he hs
    obtain ⟨v', hd, hsv⟩ := aStageV_dec st sh v w1 w1' ha.1 hv h1 hs1
    refine ⟨v', ?_, hsv⟩
    simp only [decodeA2AV, hd1, Option.bind_some]
    exact hd

/-- what the codec needs of its configuration and of the sizes: `vlen_v2` nothing (its encoder checks the 2^32 guards
itself), `zarrs.vlen` lawful index and data chains, and bytes / encoding shorter than 2^64 -/
def VCodec.ok : VCodec → VArr → Bytes → Prop
  | .v2, _, _ => True
  | .vlen c, w, e => C03.vlenLawful c ∧ w.data.length < 2 ^ 64 ∧ e.length < 2 ^ 64

theorem toOption_some {ε α} {x : Except ε α} {a : α} (h : x.toOption = some a) : x = .ok a := by
  cases x with
  | ok b => simp only [Except.toOption, Option.some.injEq] at h; rw [h]
  | error e => simp [Except.toOption] at h

theorem v2_guard_of_enc (n : Nat) (w : VArr) (e : Bytes) (h : vlenV2Enc n w = .ok e) :
    w.valid n = true ∧ v2Guard w.elems := by
  unfold vlenV2Enc at h
  cases hv : w.valid n with
  | false => rw [hv] at h; simp at h
  | true =>
    rw [hv] at h
    simp only [Bool.not_true, Bool.false_eq_true, if_false] at h
    by_cases hn : n ≥ 2 ^ 32
    · simp [hn] at h
    · simp only [hn, if_false] at h
      cases ha : w.elems.any (fun x => decide (x.length ≥ 2 ^ 32)) with
      | true => rw [ha] at h; simp at h
      | false =>
        rw [List.any_eq_false] at ha
        refine ⟨rfl, ?_, ?_⟩
        · rw [elems_length n w hv]; omega
        · intro x hx
          have := ha x hx
          simpa using this

theorem vlen_valid_of_enc (c : Vlen.Cfg) (n : Nat) (w : VArr) (e : Bytes) (h : vlenEnc c n w = .ok e) :
    w.valid n = true := by
  unfold vlenEnc at h
  cases hv : w.valid n with
  | false => rw [hv] at h; simp at h
  | true => rfl

theorem codec_dec_enc (codec : VCodec) (n : Nat) (w : VArr) (e : Bytes) (he : codec.enc n w = some e)
    (hok : codec.ok w e) : ∃ w', codec.dec n e = some w' ∧ Sim n w w' := by
  cases codec with
  | v2 =>
    have he' := toOption_some he
    obtain ⟨hv, hg⟩ := v2_guard_of_enc n w e he'
    obtain ⟨h1, _, _⟩ := C03.vlenV2_dec_enc_valid n w e hg he'
    refine ⟨VArr.ofElems w.elems, ?_, sim_ofElems n w hv⟩
    simp only [VCodec.dec, h1]; rfl
  | vlen c =>
    have he' := toOption_some he
    obtain ⟨hl, h64, he64⟩ := hok
    have := C03.vlen_dec_enc c hl n w e h64 he64 he'
    refine ⟨w, ?_, Sim.refl n w (vlen_valid_of_enc c n w e he')⟩
    simp only [VCodec.dec, this]; rfl

/-- the pieces of a successful `ChainV.encode` -/
theorem encode_pieces (c : ChainV) (sh : Shape) (v : VArr) (e : Bytes) (ha : aOk c.a2a sh)
    (he : c.encode sh v = some e) :
    v.valid (prod sh) = true ∧ ∃ w e', encodeA2AV c.a2a sh v = some w ∧
      w.valid (prod (shapesOf c.a2a sh)) = true ∧ w.elems = aEnc c.a2a sh v.elems ∧
      c.codec.enc (prod (shapesOf c.a2a sh)) w = some e' ∧ e = c.b2b.foldl (fun b st => st.enc b) e' := by
  unfold ChainV.encode at he
  cases hv : v.valid (prod sh) with
  | false => rw [hv] at he; simp at he
  | true =>
    rw [hv] at he
    simp only [Bool.not_true, Bool.false_eq_true, if_false] at he
    obtain ⟨w, h1, hv1, he1, _⟩ := encodeA2AV_spec c.a2a sh v ha hv
    rw [h1] at he
    simp only [Option.bind_some] at he
    cases hc : c.codec.enc (prod (shapesOf c.a2a sh)) w with
    | none => rw [hc] at he; simp at he
    | some e' =>
      rw [hc] at he
      simp only [Option.map_some, Option.some.injEq] at he
      exact ⟨rfl, w, e', h1, hv1, he1, hc, he.symm⟩

/-- the size / lawfulness side condition of a chain on a value: the codec's condition on the transposed value and its
encoding -/
def ChainV.ok (c : ChainV) (sh : Shape) (v : VArr) : Prop :=
  ∀ w e', encodeA2AV c.a2a sh v = some w → c.codec.enc (prod (shapesOf c.a2a sh)) w = some e' → c.codec.ok w e'

theorem chainV_dec_enc' (c : ChainV) (sh : Shape) (v : VArr) (e : Bytes) (ha : aOk c.a2a sh)
    (hb : ∀ st ∈ c.b2b, BDec st) (hok : c.ok sh v) (he : c.encode sh v = some e) :
    ∃ v', c.decode sh e = some v' ∧ Sim (prod sh) v v' := by
  obtain ⟨hv, w, e', h1, hv1, _, hc, hee⟩ := encode_pieces c sh v e ha he
  obtain ⟨w', hd, hs⟩ := codec_dec_enc c.codec _ w e' hc (hok w e' h1 hc)
  obtain ⟨v', hd2, hs2⟩ := decodeA2AV_enc c.a2a sh v w w' ha hv h1 hs
  refine ⟨v', ?_, hs2⟩
  unfold ChainV.decode
  rw [hee, decodeB2B_enc c.b2b hb e']
  simp only [Option.bind_some, hd, hd2, hs2.1, if_true]

theorem chainV_partial_ok' (c : ChainV) (sh : Shape) (fill : Bytes) (v : VArr) (e : Bytes) (ha : aOk c.a2a sh)
    (hb : ∀ st ∈ c.b2b, ∀ (b : Bytes) (g : BHandle), BHandleOk g (st.enc b) → BHandleOk (st.pd g) b)
    (hok : c.ok sh v) (he : c.encode sh v = some e) :
    VHandleOk (c.partialDecoder sh fill (storeHandle (some e))) sh v.elems := by
  obtain ⟨hv, w, e', h1, hv1, hel, hc, hee⟩ := encode_pieces c sh v e ha he
  obtain ⟨w', hd, hs⟩ := codec_dec_enc c.codec _ w e' hc (hok w e' h1 hc)
  unfold ChainV.partialDecoder
  apply aChainV_ok c.a2a sh v.elems _ ha (elems_length _ v hv)
  rw [← hel, ← hs.2.1]
  apply vlenPD_ok c.codec _ fill _ e' w' hd hs.1
  apply bChain_ok c.b2b hb
  rw [← hee]
  exact storeHandle_some_ok _

theorem chainV_absent' (c : ChainV) (sh : Shape) (fill : Bytes) (ha : aOk c.a2a sh) :
    VHandleOk (c.partialDecoder sh fill (storeHandle none)) sh (List.replicate (prod sh) fill) := by
  unfold ChainV.partialDecoder
  apply aChainV_ok c.a2a sh _ _ ha (by simp)
  rw [aEnc_fill fill c.a2a sh ha]
  apply vlenPD_absent
  exact bChain_absent c.b2b _ storeHandle_none_absent

end Zarrs.VlenArr
