import ZarrsModel.Model.WriteMap
import ZarrsModel.Props.C09
import ZarrsModel.Props.C10
import ZarrsModel.Lemmas.Array
/- helper lemmas for C17 -/
namespace Zarrs

/-! ### `sortRanges` is an insertion sort: a permutation, sorted by offset -/

/-- the bytes written by a list of `(offset, length)` ranges -/
abbrev rangeBytes (rs : List (Nat × Nat)) : List Nat := rs.flatMap (fun r => List.range' r.1 r.2)

theorem insertRange_perm (r : Nat × Nat) (xs : List (Nat × Nat)) : (insertRange r xs).Perm (r :: xs) := by
  induction xs with
  | nil => exact List.Perm.refl _
  | cons x xs ih =>
    simp only [insertRange]
    split
    · exact List.Perm.refl _
    · exact ((List.Perm.cons x ih).trans (List.Perm.swap r x xs))

theorem insertRange_sorted (r : Nat × Nat) (xs : List (Nat × Nat))
    (h : xs.Pairwise (fun a b => a.1 ≤ b.1)) : (insertRange r xs).Pairwise (fun a b => a.1 ≤ b.1) := by
  induction xs with
  | nil => simp [insertRange]
  | cons x xs ih =>
    rw [List.pairwise_cons] at h
    simp only [insertRange]
    split
    · rename_i hc
      have hrx : r.1 ≤ x.1 := by
        simp only [Bool.or_eq_true, decide_eq_true_eq, Bool.and_eq_true, beq_iff_eq] at hc
        omega
      rw [List.pairwise_cons]
      refine ⟨?_, List.pairwise_cons.mpr h⟩
      intro a ha
      rcases List.mem_cons.mp ha with rfl | ha
      · exact hrx
      · exact Nat.le_trans hrx (h.1 a ha)
    · rename_i hc
      have hxr : x.1 ≤ r.1 := by
        simp only [Bool.or_eq_true, decide_eq_true_eq, Bool.and_eq_true, beq_iff_eq, not_or] at hc
        omega
      rw [List.pairwise_cons]
      refine ⟨?_, ih h.2⟩
      intro a ha
      rcases List.mem_cons.mp ((insertRange_perm r xs).mem_iff.mp ha) with rfl | ha
      · exact hxr
      · exact h.1 a ha

theorem foldl_insertRange (rs : List (Nat × Nat)) : ∀ acc : List (Nat × Nat),
    acc.Pairwise (fun a b => a.1 ≤ b.1) →
    (rs.foldl (fun acc r => insertRange r acc) acc).Perm (rs ++ acc) ∧
    (rs.foldl (fun acc r => insertRange r acc) acc).Pairwise (fun a b => a.1 ≤ b.1) := by
  induction rs with
  | nil => intro acc h; exact ⟨List.Perm.refl _, h⟩
  | cons r rs ih =>
    intro acc h
    obtain ⟨h1, h2⟩ := ih (insertRange r acc) (insertRange_sorted r acc h)
    refine ⟨?_, h2⟩
    simp only [List.foldl_cons, List.cons_append]
    exact h1.trans ((List.Perm.append_left rs (insertRange_perm r acc)).trans List.perm_middle)

theorem sortRanges_perm (rs : List (Nat × Nat)) : (sortRanges rs).Perm rs := by
  have := (foldl_insertRange rs [] List.Pairwise.nil).1
  simpa [sortRanges] using this

theorem sortRanges_sorted (rs : List (Nat × Nat)) : (sortRanges rs).Pairwise (fun a b => a.1 ≤ b.1) :=
  (foldl_insertRange rs [] List.Pairwise.nil).2

/-! ### `tilesFrom` on sorted, non-empty ranges -/

theorem tilesFrom_sound : ∀ (S : List (Nat × Nat)) (pos len : Nat), tilesFrom pos len S = true →
    pos ≤ len ∧ rangeBytes S = List.range' pos (len - pos) := by
  intro S
  induction S with
  | nil =>
    intro pos len h
    simp only [tilesFrom, beq_iff_eq] at h
    subst h
    simp [rangeBytes]
  | cons r S ih =>
    intro pos len h
    obtain ⟨o, l⟩ := r
    simp only [tilesFrom, Bool.and_eq_true, beq_iff_eq] at h
    obtain ⟨rfl, h⟩ := h
    obtain ⟨hle, hb⟩ := ih _ _ h
    refine ⟨by omega, ?_⟩
    simp only [rangeBytes, List.flatMap_cons] at hb ⊢
    rw [hb]
    have := @List.range'_append o l (len - (o + l)) 1
    rw [Nat.one_mul] at this
    rw [this]
    congr 1
    omega

theorem tilesFrom_complete : ∀ (S : List (Nat × Nat)) (pos len : Nat),
    S.Pairwise (fun a b => a.1 ≤ b.1) → (∀ r ∈ S, 0 < r.2) → pos ≤ len →
    (rangeBytes S).Perm (List.range' pos (len - pos)) → tilesFrom pos len S = true := by
  intro S
  induction S with
  | nil =>
    intro pos len _ _ hle hp
    have := hp.length_eq
    simp only [rangeBytes, List.flatMap_nil, List.length_nil, List.length_range'] at this
    simp only [tilesFrom, beq_iff_eq]
    omega
  | cons r S ih =>
    intro pos len hs hpos hle hp
    obtain ⟨o, l⟩ := r
    rw [List.pairwise_cons] at hs
    have hl : 0 < l := hpos (o, l) (by simp)
    simp only [rangeBytes, List.flatMap_cons] at hp
    -- the first offset is a written byte, hence at least `pos`
    have ho : o ∈ List.range' pos (len - pos) :=
      hp.mem_iff.mp (List.mem_append_left _ (by rw [List.mem_range'_1]; omega))
    rw [List.mem_range'_1] at ho
    -- `pos` is written by some range; all ranges start at or after `o`
    have hpm : pos ∈ List.range' o l ++ rangeBytes S :=
      hp.mem_iff.mpr (by rw [List.mem_range'_1]; omega)
    have hop : o = pos := by
      rcases List.mem_append.mp hpm with h | h
      · rw [List.mem_range'_1] at h; omega
      · obtain ⟨r', hr', hin⟩ := List.mem_flatMap.mp h
        rw [List.mem_range'_1] at hin
        have := hs.1 r' hr'
        simp only at this
        omega
    subst hop
    -- the last byte of the first range is below `len`
    have hlast : o + l - 1 ∈ List.range' o (len - o) :=
      hp.mem_iff.mp (List.mem_append_left _ (by rw [List.mem_range'_1]; omega))
    rw [List.mem_range'_1] at hlast
    have hsplit : List.range' o (len - o) = List.range' o l ++ List.range' (o + l) (len - (o + l)) := by
      have := @List.range'_append o l (len - (o + l)) 1
      rw [Nat.one_mul] at this
      rw [this]
      congr 1
      omega
    rw [hsplit, List.perm_append_left_iff] at hp
    simp only [tilesFrom, beq_self_eq_true, Bool.true_and]
    exact ih (o + l) len hs.2 (fun r hr => hpos r (List.mem_cons_of_mem _ hr)) (by omega) hp

/-! ### zero-length ranges write nothing -/

theorem rangeBytes_filter (rs : List (Nat × Nat)) :
    rangeBytes (rs.filter (fun r => r.2 != 0)) = rangeBytes rs := by
  induction rs with
  | nil => rfl
  | cons r rs ih =>
    simp only [rangeBytes] at ih ⊢
    by_cases h : r.2 = 0
    · simp [h, ih]
    · simp [h, ih]

theorem tiles_iff_perm (len : Nat) (rs : List (Nat × Nat)) :
    tiles len rs = true ↔ (rangeBytes rs).Perm (List.range len) := by
  have hperm : (rangeBytes (sortRanges (rs.filter (fun r => r.2 != 0)))).Perm (rangeBytes rs) := by
    rw [← rangeBytes_filter rs]
    exact List.Perm.flatMap_right _ (sortRanges_perm _)
  simp only [tiles]
  constructor
  · intro h
    obtain ⟨_, hb⟩ := tilesFrom_sound _ _ _ h
    rw [List.range_eq_range']
    rw [hb] at hperm
    exact hperm.symm
  · intro h
    apply tilesFrom_complete _ _ _ (sortRanges_sorted _) _ (Nat.zero_le _)
    · rw [← List.range_eq_range']
      exact hperm.trans h
    · intro r hr
      have := (sortRanges_perm _).mem_iff.mp hr
      simp only [List.mem_filter, bne_iff_ne, ne_eq] at this
      omega

/-! ### the fold of `writeMap` -/

theorem foldOpt_append_pieces {β γ δ} (F : β → Option γ) (h : γ → List δ) (L : List β)
    (hL : ∀ c ∈ L, ∃ x, F c = some x) : ∀ acc : List δ,
    ArrCfg.foldOpt (fun acc c => match F c with
      | some x => some (acc ++ h x)
      | none => none) acc L =
    some (acc ++ L.flatMap (fun c => match F c with
      | some x => h x
      | none => [])) := by
  induction L with
  | nil => intro acc; simp [ArrCfg.foldOpt]
  | cons c L ih =>
    intro acc
    obtain ⟨x, hx⟩ := hL c (by simp)
    simp only [ArrCfg.foldOpt, hx, List.flatMap_cons]
    rw [ih (fun c' hc' => hL c' (by simp [hc'])), List.append_assoc]

theorem lexLt_irrefl (a : Idx) : lexLt a a = false := by
  induction a with
  | nil => rfl
  | cons x xs ih => simp [lexLt, ih]

/-- a list of naturals without repetition whose members are exactly the numbers below `n` is a permutation of
`range n` -/
theorem perm_range_of_nodup (l : List Nat) (n : Nat) (hnd : l.Nodup) (hmem : ∀ k, k ∈ l ↔ k < n) :
    l.Perm (List.range n) := by
  rw [List.perm_ext_iff_of_nodup hnd List.nodup_range]
  intro k
  rw [hmem k, List.mem_range]

/-- the bytes of the elements `0 .. n-1` are the bytes `0 .. n*es-1` -/
theorem range_cells (n es : Nat) :
    (List.range n).flatMap (fun k => List.range' (k * es) es) = List.range (n * es) := by
  have := range'_mul_cells 0 n es
  rw [Nat.zero_mul] at this
  rw [List.range_eq_range', List.range_eq_range', this]

/-! ### the pieces of a region: one per chunk of the reported box -/

section pieces
variable (g : Grid) (R : Subset)

/-- linear positions (in the output buffer of shape `R.shape`) written through the view of chunk `c` -/
def pieceLin (c : Idx) : List Nat :=
  match g.subset c with
  | some cs => ((cs.overlap R).relativeTo R.start).linearised R.shape
  | none => []

/-- byte ranges written through the view of chunk `c` -/
def pieceRanges (es : Nat) (c : Idx) : List (Nat × Nat) :=
  match g.subset c with
  | some cs => ((cs.overlap R).relativeTo R.start).byteRanges R.shape es
  | none => []

variable {g R}

/-- facts about the view of one chunk meeting the region -/
theorem piece_facts (hr : R.wf = true) {cs : Subset} {i0 : Idx} (hi0c : cs.contains i0 = true)
    (hi0r : R.contains i0 = true) :
    ((cs.overlap R).relativeTo R.start).wf = true ∧
    ((cs.overlap R).relativeTo R.start).inboundsShape R.shape = true ∧
    ∀ j, inB j R.shape = true →
      ((cs.overlap R).relativeTo R.start).contains j = cs.contains (addIdx j R.start) := by
  have hcwf := cs.wf_of_contains i0 hi0c
  have hrk : cs.rank = R.rank := by
    simp only [Subset.rank]
    rw [← (mem_length hi0c).1, ← (mem_length hi0r).1]
  have hov : ∀ i, (cs.overlap R).contains i = (cs.contains i && R.contains i) :=
    C09.overlap_mem cs R hcwf hr hrk
  have hovwf : (cs.overlap R).wf = true := by
    simp only [Subset.wf, Subset.rank, beq_iff_eq] at hr hcwf hrk ⊢
    simp only [Subset.overlap, Subset.endExc, zipSub_length, zipMin_length, zipMax_length, addIdx_length]
    omega
  have hovrank : (cs.overlap R).rank = R.rank := by
    simp only [Subset.rank] at hrk ⊢
    simp only [Subset.overlap, zipMax_length]; omega
  have hovne : (cs.overlap R).isEmpty = false :=
    (cs.overlap R).nonempty_of_contains i0 (by rw [hov, hi0r, hi0c]; rfl)
  have hsub2 : ∀ i, (cs.overlap R).contains i = true → R.contains i = true := by
    intro i hi; rw [hov, Bool.and_eq_true] at hi; exact hi.2
  obtain ⟨hw, hin, _, hle⟩ := Subset.rel_facts (cs.overlap R) R hovwf hr hovrank hovne hsub2
  refine ⟨hw, hin, ?_⟩
  intro j hj
  have hr' := hr
  simp only [Subset.wf, beq_iff_eq] at hr'
  have hjl : j.length = R.start.length := by rw [inB_length hj, hr']
  rw [C09.relativeTo_mem (cs.overlap R) R.start hovwf (by simpa [Subset.rank] using hovrank.symm)
    (zipUnderflow_of_allLe _ _ hle) j (by simp only [Subset.rank] at hovrank ⊢; omega)]
  have hri : R.contains (addIdx j R.start) = true := mem_addIdx j R.start R.shape hr' hj
  rw [hov, hri, Bool.and_true]

/-- membership in the linearised view of a chunk meeting the region -/
theorem mem_pieceLin (hr : R.wf = true) {c : Idx} {cs : Subset} {i0 : Idx} (hcs : g.subset c = some cs)
    (hi0c : cs.contains i0 = true) (hi0r : R.contains i0 = true) (k : Nat) :
    k ∈ pieceLin g R c ↔
      ∃ j, inB j R.shape = true ∧ cs.contains (addIdx j R.start) = true ∧ ravel j R.shape = k := by
  obtain ⟨hw, hin, hm⟩ := piece_facts hr hi0c hi0r
  have hin' := hin
  simp only [Subset.inboundsShape, Subset.rank, Bool.and_eq_true, beq_iff_eq] at hin'
  simp only [pieceLin, hcs]
  rw [C09.linearised_eq _ _ hw, List.mem_map]
  constructor
  · rintro ⟨j, hj, rfl⟩
    rw [Subset.mem_indices _ hw] at hj
    have hjb : inB j R.shape = true := inB_of_allLe_end j _ _ R.shape hin'.1 hin'.2 hj
    exact ⟨j, hjb, by rw [← hm j hjb]; exact hj, rfl⟩
  · rintro ⟨j, hjb, hj, rfl⟩
    exact ⟨j, by rw [Subset.mem_indices _ hw, hm j hjb]; exact hj, rfl⟩

end pieces

/-- **the per-chunk views of a multi-chunk read tile the output buffer** -/
theorem writeMap_perm (gcfg : List DimCfg) (arr G : Shape) (hwf : (Grid.new gcfg).wf = true)
    (hG : (Grid.new gcfg).gridShape arr = some G) (hlen : arr.length = gcfg.length)
    (R : Subset) (hr : R.wf = true) (hb : R.inboundsShape arr = true) (hne : R.isEmpty = false) (es : Nat) :
    ∃ box, (Grid.new gcfg).chunksInArraySubset R arr = some box ∧
      (∀ c ∈ box.indices, ∃ cs, (Grid.new gcfg).subset c = some cs) ∧
      (rangeBytes (box.indices.flatMap (pieceRanges (Grid.new gcfg) R es))).Perm
        (List.range (R.numElements * es)) := by
  obtain ⟨box, hbox, hiff⟩ := C10.chunks_in_subset_exact gcfg arr G hwf hG hlen R hr hb hne
  have hr' := hr
  simp only [Subset.wf, beq_iff_eq] at hr'
  have hb' := hb
  simp only [Subset.inboundsShape, Subset.rank, Bool.and_eq_true, beq_iff_eq] at hb'
  have hne' := hne
  simp only [Subset.isEmpty] at hne'
  have hinB : ∀ i, R.contains i = true → inB i arr = true :=
    fun i hi => inB_of_allLe_end i _ _ arr hb'.1 hb'.2 hi
  -- every element of the region lies in exactly one chunk of the box
  have hcover : ∀ i, R.contains i = true → ∃ c cs, box.contains c = true ∧
      (Grid.new gcfg).subset c = some cs ∧ cs.contains i = true ∧
      ∀ c' cs', box.contains c' = true → (Grid.new gcfg).subset c' = some cs' → cs'.contains i = true → c' = c := by
    intro i hi
    obtain ⟨c, cs, _, hcG, hcs, hci, huniq⟩ := C10.partition gcfg arr G hwf hG hlen i (hinB i hi)
    refine ⟨c, cs, (hiff c).mpr ⟨hcG, cs, i, hcs, hci, hi⟩, hcs, hci, ?_⟩
    intro c' cs' hbc' hcs' hci'
    exact huniq c' cs' ((hiff c').mp hbc').1 hcs' hci'
  obtain ⟨c0, _, hbc0, _⟩ := hcover R.start (mem_start R.start R.shape hr' hne')
  have hbwf := box.wf_of_contains c0 hbc0
  -- per-chunk data
  have hchunk : ∀ c ∈ box.indices, ∃ cs i0, (Grid.new gcfg).subset c = some cs ∧ cs.contains i0 = true ∧
      R.contains i0 = true := by
    intro c hc
    obtain ⟨_, cs, i0, hcs, h1, h2⟩ := (hiff c).mp ((box.mem_indices hbwf c).mp hc)
    exact ⟨cs, i0, hcs, h1, h2⟩
  refine ⟨box, hbox, fun c hc => (hchunk c hc).elim fun cs h => ⟨cs, h.elim fun _ h => h.1⟩, ?_⟩
  -- bytes of the ranges = bytes of the cells of the linear positions
  have hbytes : rangeBytes (box.indices.flatMap (pieceRanges (Grid.new gcfg) R es)) =
      (box.indices.flatMap (pieceLin (Grid.new gcfg) R)).flatMap (fun k => List.range' (k * es) es) := by
    simp only [rangeBytes, List.flatMap_assoc]
    apply flatMap_congr'
    intro c hc
    obtain ⟨cs, i0, hcs, h1, h2⟩ := hchunk c hc
    obtain ⟨hw, hin, _⟩ := piece_facts hr h1 h2
    simp only [pieceRanges, pieceLin, hcs]
    exact C09.byteRanges_exact _ _ es hw hin
  rw [hbytes, ← range_cells]
  apply List.Perm.flatMap_right
  apply perm_range_of_nodup
  · -- no position is written twice
    show List.Pairwise (· ≠ ·) _
    rw [List.pairwise_flatMap]
    constructor
    · intro c hc
      obtain ⟨cs, i0, hcs, h1, h2⟩ := hchunk c hc
      obtain ⟨hw, hin, _⟩ := piece_facts hr h1 h2
      simp only [pieceLin, hcs]
      exact (C09.linearised_sorted _ _ hw hin).imp (fun h => Nat.ne_of_lt h)
    · refine (box.indices_pairwise hbwf).imp_of_mem ?_
      intro a b ha hb2 hab x hx y hy hxy
      obtain ⟨csa, ia, hcsa, ha1, ha2⟩ := hchunk a ha
      obtain ⟨csb, ib, hcsb, hb1, hb2'⟩ := hchunk b hb2
      obtain ⟨j, hj, hja, rfl⟩ := (mem_pieceLin hr hcsa ha1 ha2 x).mp hx
      obtain ⟨j', hj', hjb, hjj⟩ := (mem_pieceLin hr hcsb hb1 hb2' y).mp hy
      have : j' = j := by
        rw [← C09.unravel_ravel j' R.shape hj', ← C09.unravel_ravel j R.shape hj, hjj, hxy]
      subst this
      obtain ⟨c, _, _, _, _, huniq⟩ := hcover (addIdx j' R.start) (mem_addIdx j' R.start R.shape hr' hj)
      have e1 := huniq a csa ((box.mem_indices hbwf a).mp ha) hcsa hja
      have e2 := huniq b csb ((box.mem_indices hbwf b).mp hb2) hcsb hjb
      rw [e1, e2, lexLt_irrefl] at hab
      cases hab
  · -- every position is written
    intro k
    rw [List.mem_flatMap]
    constructor
    · rintro ⟨c, hc, hk⟩
      obtain ⟨cs, i0, hcs, h1, h2⟩ := hchunk c hc
      obtain ⟨j, hj, _, rfl⟩ := (mem_pieceLin hr hcs h1 h2 k).mp hk
      exact ravel_lt j R.shape hj
    · intro hk
      have hj := C09.unravel_inB k R.shape hk
      have hri := mem_addIdx (unravel k R.shape) R.start R.shape hr' hj
      obtain ⟨c, cs, hbc, hcs, hci, _⟩ := hcover _ hri
      refine ⟨c, (box.mem_indices hbwf c).mpr hbc, ?_⟩
      exact (mem_pieceLin hr hcs hci hri k).mpr ⟨_, hj, hci, C09.ravel_unravel k R.shape hk⟩

/-- `writeMap` as the concatenation of the per-chunk byte ranges -/
theorem writeMap_eq_pieces {α} (cfg : ArrCfg α) (region : Subset) (es : Nat) (box : Subset)
    (hbox : cfg.grid.chunksInArraySubset region cfg.shape = some box)
    (hsome : ∀ c ∈ box.indices, ∃ cs, cfg.grid.subset c = some cs) :
    cfg.writeMap region es = some (box.indices.flatMap (pieceRanges cfg.grid region es)) := by
  have hfold := foldOpt_append_pieces cfg.grid.subset
    (fun cs => ((cs.overlap region).relativeTo region.start).byteRanges region.shape es) box.indices hsome []
  rw [List.nil_append] at hfold
  simp only [ArrCfg.writeMap, hbox]
  refine Eq.trans ?_ (hfold.trans ?_)
  · congr 1
    funext acc c
    cases cfg.grid.subset c <;> rfl
  · congr 1
    apply flatMap_congr'
    intro c _
    simp only [pieceRanges]
    cases cfg.grid.subset c <;> rfl

end Zarrs
