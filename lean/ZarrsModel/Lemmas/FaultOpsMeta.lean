import ZarrsModel.Lemmas.FaultOps
import ZarrsModel.Lemmas.Store
import ZarrsModel.Lemmas.Hier
set_option Elab.async false
/-
Metadata / node methods as operation-level programs: refinement of `Model/Hier.lean` and of the fault-free open,
operation counts of the Zarr V2 opens, idempotence of storing metadata.
-/
namespace Zarrs.Hier
open Zarrs

theorem openMetaP_pure (m : KV) (pre k2 : Key) (ok3 ok2 okAttrs : Bytes → Bool) :
    (openMetaP pre k2 ok3 ok2 okAttrs).pure m = (openMeta m pre k2 ok3 ok2 okAttrs).map (fun o => (o, m)) := by
  unfold openMetaP openMeta
  simp only [Prog.pure]
  cases m.get (pre ++ kZarrJson) with
  | some d => simp only; split <;> rfl
  | none =>
    simp only [Prog.pure]
    cases m.get (pre ++ k2) with
    | none => rfl
    | some d =>
      simp only
      split
      · simp only [Prog.pure]
        cases m.get (pre ++ kZattrs) with
        | none => rfl
        | some a => simp only; split <;> rfl
      · rfl

theorem openMetaP_readOnly (pre k2 : Key) (ok3 ok2 okAttrs : Bytes → Bool) :
    (openMetaP pre k2 ok3 ok2 okAttrs).readOnly := by
  unfold openMetaP
  intro v
  cases v with
  | some d => simp only; split <;> trivial
  | none =>
    intro v
    cases v with
    | none => trivial
    | some d =>
      simp only
      split
      · intro v
        cases v with
        | none => trivial
        | some a => simp only; split <;> trivial
      · trivial

/-- **a Zarr V2 open is three reads**: `zarr.json` (absent), the V2 document, `.zattrs` -/
theorem openMetaP_ops_v2 (m : KV) (pre k2 : Key) (ok3 ok2 okAttrs : Bytes → Bool) (d : Bytes)
    (h3 : m.get (pre ++ kZarrJson) = none) (h2 : m.get (pre ++ k2) = some d) (hok : ok2 d = true) :
    (openMetaP pre k2 ok3 ok2 okAttrs).ops m = 3 := by
  unfold openMetaP
  simp only [Prog.ops, h3, h2, hok, ↓reduceIte]
  cases m.get (pre ++ kZattrs) with
  | none => rfl
  | some a => simp only; split <;> rfl

/-- a Zarr V3 open is one read -/
theorem openMetaP_ops_v3 (m : KV) (pre k2 : Key) (ok3 ok2 okAttrs : Bytes → Bool) (d : Bytes)
    (h3 : m.get (pre ++ kZarrJson) = some d) : (openMetaP pre k2 ok3 ok2 okAttrs).ops m = 1 := by
  unfold openMetaP
  simp only [Prog.ops, h3]
  split <;> rfl

theorem attrsThenP_pure (r : Reader) (m : KV) (pre : Key) (k : Kind) :
    (attrsThenP r pre k).pure m =
      some (if (match m.get (pre ++ kZattrs) with | some a => r.okAttrs a | none => true) then .node k else .invalid, m) := by
  unfold attrsThenP
  simp only [Prog.pure]
  cases m.get (pre ++ kZattrs) with
  | none => rfl
  | some a => simp only; split <;> rfl

/-- `Node::get_metadata` never fails by itself; without faults it returns what `Hier.getMeta` returns -/
theorem getMetaP_pure (r : Reader) (m : KV) (pre : Key) : (getMetaP r pre).pure m = some (getMeta r m pre, m) := by
  unfold getMetaP getMeta
  simp only [Prog.pure]
  cases m.get (pre ++ kZarrJson) with
  | some v =>
    simp only
    cases r.cls v with
    | none => rfl
    | some b => cases b <;> rfl
  | none =>
    simp only [Prog.pure]
    cases m.get (pre ++ kZarray) with
    | some v =>
      simp only
      cases hA : r.okA v with
      | false => simp [Prog.pure]
      | true =>
        simp only [↓reduceIte, Bool.true_and]
        rw [attrsThenP_pure]
        rfl
    | none =>
      simp only [Prog.pure]
      cases m.get (pre ++ kZgroup) with
      | none => rfl
      | some v =>
        simp only
        cases hG : r.okG v with
        | false => simp [Prog.pure]
        | true =>
          simp only [↓reduceIte, Bool.true_and]
          rw [attrsThenP_pure]
          rfl

theorem attrsThenP_readOnly (r : Reader) (pre : Key) (k : Kind) : (attrsThenP r pre k).readOnly := by
  unfold attrsThenP
  intro v
  cases v with
  | none => trivial
  | some a => simp only; split <;> trivial

theorem getMetaP_readOnly (r : Reader) (pre : Key) : (getMetaP r pre).readOnly := by
  unfold getMetaP
  intro v
  cases v with
  | some v =>
    simp only
    cases r.cls v with
    | none => trivial
    | some b => cases b <;> trivial
  | none =>
    intro v
    cases v with
    | some v => simp only; split; exact attrsThenP_readOnly r pre _; trivial
    | none =>
      intro v
      cases v with
      | none => trivial
      | some v => simp only; split; exact attrsThenP_readOnly r pre _; trivial

/-- **`Node::get_metadata` of a Zarr V2 group is four reads**: `zarr.json`, `.zarray` (both absent), `.zgroup`, `.zattrs` -/
theorem getMetaP_ops_group2 (r : Reader) (m : KV) (pre : Key) (d : Bytes)
    (h3 : m.get (pre ++ kZarrJson) = none) (hA : m.get (pre ++ kZarray) = none)
    (hG : m.get (pre ++ kZgroup) = some d) (hok : r.okG d = true) : (getMetaP r pre).ops m = 4 := by
  unfold getMetaP attrsThenP
  simp only [Prog.ops, h3, hA, hG, hok, ↓reduceIte]
  cases m.get (pre ++ kZattrs) with
  | none => rfl
  | some a => simp only; split <;> rfl

theorem childListP_pure (r : Reader) (m : KV) : ∀ l : List Key,
    (childListP r l).pure m = (childListPure r m l).map (fun ts => (ts, m))
  | [] => rfl
  | q :: rest => by
    simp only [childListP, childListPure]
    rw [Prog.pure_bind, getMetaP_pure]
    simp only
    cases getMeta r m q with
    | invalid => rfl
    | missing => exact childListP_pure r m rest
    | node k =>
      simp only
      rw [Prog.bind_ret_pure, childListP_pure r m rest]
      cases childListPure r m rest <;> rfl

theorem childListP_readOnly (r : Reader) : ∀ l : List Key, (childListP r l).readOnly
  | [] => trivial
  | q :: rest => by
    simp only [childListP]
    apply Prog.readOnly_bind _ _ (getMetaP_readOnly r q)
    intro v
    cases v with
    | invalid => trivial
    | missing => exact childListP_readOnly r rest
    | node k => exact Prog.readOnly_bind _ _ (childListP_readOnly r rest) (fun _ => trivial)

theorem childrenP_readOnly (r : Reader) (pre : Key) : (childrenP r pre).readOnly :=
  fun _ => childListP_readOnly r _

/-- the non-recursive `childList` of `Model/Hier.lean`, flattened, is `childListPure` -/
theorem childList_false_flatten (r : Reader) (m : KV) (fuel : Nat) : ∀ l : List Key,
    (childList r m false fuel l).map flattenList = childListPure r m l
  | [] => by rw [childList_nil]; simp [childListPure, flattenList_nil]
  | q :: rest => by
    have ih := childList_false_flatten r m fuel rest
    simp only [childListPure]
    cases hg : getMeta r m q with
    | invalid => rw [childList_cons_invalid r m false fuel q rest hg]; rfl
    | missing => rw [childList_cons_missing r m false fuel q rest hg]; exact ih
    | node k =>
      rw [childList_cons_node r m false fuel q rest k hg]
      simp only [subNodes, Bool.false_and, Bool.false_eq_true, ↓reduceIte, Option.bind_some]
      rw [← ih]
      cases childList r m false fuel rest with
      | none => rfl
      | some ts => simp [flattenList_cons, flattenList_nil]

/-- **`fops_refines` for `Group::children(false)`** -/
theorem childrenP_pure (r : Reader) (m : KV) (pre : Key) :
    (childrenP r pre).pure m = (children r m false pre).map (fun ts => (ts, m)) := by
  unfold childrenP children depthBound
  simp only [Prog.pure]
  rw [childListP_pure, childNodes, childList_false_flatten]
  rfl


/-! ### the recursive listing and `Node::open` -/

theorem discover_eq (m : KV) (pre : Key) : discover m pre = (Spec.listDir m pre).2.filter keepChild := rfl

/-- one level of the list recursion, given that the sub-listings refine -/
theorem childTreesWith_pure_of (r : Reader) (m : KV) (fuel : Nat) (sub : Key → Prog (List Tree))
    (hsub : ∀ q, (sub q).pure m = (childNodes r m true fuel q).map (fun cs => (cs, m))) : ∀ l : List Key,
    (childTreesWith r sub l).pure m = (childList r m true fuel l).map (fun ts => (ts, m))
  | [] => by rw [childTreesWith, childList_nil]; rfl
  | q :: rest => by
    have ih := childTreesWith_pure_of r m fuel sub hsub rest
    rw [childTreesWith, Prog.pure_bind, getMetaP_pure]
    simp only
    cases hg : getMeta r m q with
    | invalid => rw [childList_cons_invalid r m true fuel q rest hg]; rfl
    | missing => rw [childList_cons_missing r m true fuel q rest hg]; exact ih
    | node k =>
      rw [childList_cons_node r m true fuel q rest k hg]
      simp only
      rw [Prog.pure_bind]
      simp only [subNodes, Bool.true_and]
      cases hk : k.isGroup with
      | false =>
        simp only [Bool.false_eq_true, ↓reduceIte, Prog.pure, Option.bind_some]
        rw [Prog.bind_ret_pure, ih]
        cases childList r m true fuel rest <;> rfl
      | true =>
        simp only [↓reduceIte]
        rw [hsub q]
        cases childNodes r m true fuel q with
        | none => rfl
        | some cs =>
          simp only [Option.map_some, Option.bind_some]
          rw [Prog.bind_ret_pure, ih]
          cases childList r m true fuel rest <;> rfl

/-- the listing at recursion bound `fuel` (a listing with bound 0 is empty, as in `Hier.childNodes`) -/
theorem childNodesP_pure (r : Reader) (m : KV) : ∀ (fuel : Nat) (pre : Key),
    (childNodesP r fuel pre).pure m = (childNodes r m true fuel pre).map (fun ts => (ts, m))
  | 0, pre => by rw [childNodesP, childNodes]; rfl
  | fuel + 1, pre => by
    rw [childNodesP, childNodes]
    simp only [Prog.pure]
    rw [discover_eq]
    exact childTreesWith_pure_of r m fuel _ (fun q => childNodesP_pure r m fuel q) _

/-- **`fops_refines` for `Node::open`** (recursion bound `depthBound m`, as in `Model/Hier.lean`) -/
theorem openNodeP_pure (r : Reader) (m : KV) (pre : Key) :
    (openNodeP r (depthBound m) pre).pure m = (openNode r m pre).map (fun ts => (ts, m)) := by
  unfold openNodeP openNode
  rw [Prog.pure_bind, getMetaP_pure]
  simp only
  cases getMeta r m pre with
  | invalid => rfl
  | missing => rfl
  | node k =>
    simp only
    cases k.isGroup with
    | false => rfl
    | true =>
      simp only [↓reduceIte, children]
      rw [Prog.bind_ret_pure, childNodesP_pure]
      cases childNodes r m true (depthBound m) pre <;> rfl

theorem childTreesWith_readOnly (r : Reader) (sub : Key → Prog (List Tree)) (hsub : ∀ q, (sub q).readOnly) :
    ∀ l : List Key, (childTreesWith r sub l).readOnly
  | [] => by rw [childTreesWith]; trivial
  | q :: rest => by
    rw [childTreesWith]
    apply Prog.readOnly_bind _ _ (getMetaP_readOnly r q)
    intro v
    cases v with
    | invalid => trivial
    | missing => exact childTreesWith_readOnly r sub hsub rest
    | node k =>
      simp only
      apply Prog.readOnly_bind
      · cases k.isGroup with
        | false => trivial
        | true => exact hsub q
      · intro cs
        exact Prog.readOnly_bind _ _ (childTreesWith_readOnly r sub hsub rest) (fun _ => trivial)

theorem childNodesP_readOnly (r : Reader) : ∀ (fuel : Nat) (pre : Key), (childNodesP r fuel pre).readOnly
  | 0, pre => by rw [childNodesP]; trivial
  | fuel + 1, pre => by
    rw [childNodesP]
    intro d
    exact childTreesWith_readOnly r _ (fun q => childNodesP_readOnly r fuel q) _

theorem openNodeP_readOnly (r : Reader) (fuel : Nat) (pre : Key) : (openNodeP r fuel pre).readOnly := by
  unfold openNodeP
  apply Prog.readOnly_bind _ _ (getMetaP_readOnly r pre)
  intro v
  cases v with
  | invalid => trivial
  | missing => trivial
  | node k =>
    simp only
    split
    · exact Prog.readOnly_bind _ _ (childNodesP_readOnly r fuel pre) (fun _ => trivial)
    · trivial

/-! ### storing metadata twice -/

theorem put_put_get (m : KV) (k : Key) (v : Bytes) (k' : Key) : ((m.put k v).put k v).get k' = (m.put k v).get k' := by
  by_cases h : k' = k
  · subst h; rw [KV.get_put_same, KV.get_put_same]
  · rw [KV.get_put_other _ _ _ _ h]

end Zarrs.Hier
