import ZarrsModel.Model.Inflate
import ZarrsModel.Lemmas.InflateBits
/-
Round trips of the DEFLATE / gzip / zlib model (Layer E of C12).
-/
namespace Zarrs.Inflate

/-! ### stored blocks -/

def encParts : List Bytes → Bytes
  | [] => []
  | [p] => encBlock true p
  | p :: q :: ps => encBlock false p ++ encParts (q :: ps)

theorem encParts_zipIdx (parts : List Bytes) (k n : Nat) (hn : n = k + parts.length) :
    ((parts.zipIdx k).map (fun (p, i) =>
      [if i + 1 == n then 1 else 0] ++ le16 p.length ++ le16 (65535 - p.length) ++ p)).flatten = encParts parts := by
  induction parts generalizing k with
  | nil => rfl
  | cons p ps ih =>
    cases ps with
    | nil =>
      simp only [List.length_cons, List.length_nil] at hn
      simp [encParts, encBlock, hn]
    | cons q ps =>
      have ih' := ih (k + 1) (by simp only [List.length_cons] at hn ⊢; omega)
      rw [List.zipIdx_cons, List.map_cons, List.flatten_cons, ih']
      simp only [List.length_cons] at hn
      have : (k + 1 == n) = false := by simp; omega
      simp [encParts, encBlock, this]

theorem deflateStored_eq (bs : Bytes) : deflateStored bs = encParts (splitAt65535 (bs.length + 1) bs) := by
  unfold deflateStored
  exact encParts_zipIdx _ 0 _ (by simp)

theorem splitAt_flatten (fuel : Nat) (bs : Bytes) (h : bs.length < fuel) :
    (splitAt65535 fuel bs).flatten = bs := by
  induction fuel generalizing bs with
  | zero => omega
  | succ fuel ih =>
    unfold splitAt65535
    split
    · simp
    · rw [List.flatten_cons, ih _ (by simp only [List.length_drop]; omega), List.take_append_drop]

theorem splitAt_ne_nil (fuel : Nat) (bs : Bytes) (h : bs.length < fuel) :
    splitAt65535 fuel bs ≠ [] := by
  cases fuel with
  | zero => omega
  | succ fuel => unfold splitAt65535; split <;> simp

theorem splitAt_parts (fuel : Nat) (bs : Bytes) (hb : ∀ x ∈ bs, x < 256) :
    ∀ p ∈ splitAt65535 fuel bs, p.length ≤ 65535 ∧ ∀ x ∈ p, x < 256 := by
  induction fuel generalizing bs with
  | zero => simp [splitAt65535]
  | succ fuel ih =>
    unfold splitAt65535
    split
    · rename_i h
      intro p hp
      simp only [List.mem_singleton] at hp
      subst hp
      exact ⟨h, hb⟩
    · intro p hp
      simp only [List.mem_cons] at hp
      rcases hp with hp | hp
      · subst hp
        refine ⟨by simp only [List.length_take]; omega, fun x hx => hb x (List.mem_of_mem_take hx)⟩
      · exact ih _ (fun x hx => hb x (List.mem_of_mem_drop hx)) p hp

theorem encParts_length_ge (parts : List Bytes) : parts.length ≤ (encParts parts).length := by
  induction parts with
  | nil => simp
  | cons p ps ih =>
    cases ps with
    | nil => simp only [encParts, encBlock_length, List.length_cons, List.length_nil]; omega
    | cons q ps =>
      simp only [encParts, List.length_append, encBlock_length, List.length_cons] at ih ⊢
      omega

theorem blocks_encParts (total fuel : Nat) (parts : List Bytes) (rest : Bytes) (out : Array Nat)
    (ht : total % 8 = 0) (hne : parts ≠ []) (hf : parts.length ≤ fuel)
    (hp : ∀ p ∈ parts, p.length ≤ 65535 ∧ ∀ x ∈ p, x < 256) :
    blocks total fuel (toBits (encParts parts ++ rest)) out = some (toBits rest, out ++ parts.flatten.toArray) := by
  induction parts generalizing fuel out with
  | nil => exact absurd rfl hne
  | cons p ps ih =>
    obtain ⟨fuel, rfl⟩ : ∃ f, fuel = f + 1 := ⟨fuel - 1, by simp only [List.length_cons] at hf; omega⟩
    have hpp := hp p (by simp)
    cases ps with
    | nil =>
      simp only [encParts]
      rw [blocks_encBlock _ _ _ _ _ _ ht hpp.1 hpp.2]
      simp
    | cons q ps =>
      simp only [encParts, List.append_assoc]
      rw [blocks_encBlock _ _ _ _ _ _ ht hpp.1 hpp.2]
      simp only [Bool.false_eq_true, if_false]
      rw [ih fuel _ (by simp) (by simp only [List.length_cons] at hf ⊢; omega)
        (fun p' hp' => hp p' (by simp only [List.mem_cons] at hp' ⊢; exact Or.inr hp'))]
      simp

theorem alignBits_toBits (n : Nat) (rest : Bytes) (hn : n % 8 = 0) : alignBits n (toBits rest) = toBits rest := by
  unfold alignBits
  have : ((toBits rest).length + 8 - n % 8) % 8 = 0 := by rw [toBits_length]; omega
  rw [this]; rfl

set_option linter.unusedVariables false in
theorem inflate_deflateStored (bs rest : Bytes) (hb : ∀ x ∈ bs, x < 256) (hr : ∀ x ∈ rest, x < 256) :
    inflate (deflateStored bs ++ rest) = some (bs, rest) := by
  have hlen : (toBits (deflateStored bs ++ rest)).length % 8 = 0 := by rw [toBits_length]; omega
  unfold inflate
  simp only
  have hfuel : (splitAt65535 (bs.length + 1) bs).length ≤ (toBits (deflateStored bs ++ rest)).length + 1 := by
    have := encParts_length_ge (splitAt65535 (bs.length + 1) bs)
    rw [toBits_length, List.length_append, deflateStored_eq]
    omega
  have hb' := blocks_encParts (toBits (deflateStored bs ++ rest)).length
    ((toBits (deflateStored bs ++ rest)).length + 1) (splitAt65535 (bs.length + 1) bs) rest #[] hlen
    (splitAt_ne_nil _ _ (by omega)) hfuel (splitAt_parts _ _ hb)
  rw [← deflateStored_eq] at hb'
  rw [hb']
  simp only [alignBits_toBits _ _ hlen, splitAt_flatten _ _ (Nat.lt_succ_self _)]
  rw [toBits_length]
  have : 8 * rest.length / 8 = rest.length := by omega
  rw [this]
  simp

theorem le16_wf (n : Nat) : ∀ x ∈ le16 n, x < 256 := by
  intro x hx
  simp only [le16, List.mem_cons, List.not_mem_nil, or_false] at hx
  omega

theorem encBlock_wf (last : Bool) (p : Bytes) (hp : ∀ x ∈ p, x < 256) : ∀ x ∈ encBlock last p, x < 256 := by
  intro x hx
  simp only [encBlock, List.mem_append, List.mem_singleton] at hx
  rcases hx with ((hx | hx) | hx) | hx
  · subst hx; split <;> omega
  · exact le16_wf _ x hx
  · exact le16_wf _ x hx
  · exact hp x hx

theorem encParts_wf (parts : List Bytes) (hp : ∀ p ∈ parts, ∀ x ∈ p, x < 256) : ∀ x ∈ encParts parts, x < 256 := by
  induction parts with
  | nil => simp [encParts]
  | cons p ps ih =>
    cases ps with
    | nil => exact encBlock_wf _ _ (hp p (by simp))
    | cons q ps =>
      intro x hx
      simp only [encParts, List.mem_append] at hx
      rcases hx with hx | hx
      · exact encBlock_wf _ _ (hp p (by simp)) x hx
      · exact ih (fun p' hp' => hp p' (List.mem_cons_of_mem _ hp')) x hx

theorem deflateStored_wf (bs : Bytes) (hb : ∀ x ∈ bs, x < 256) : ∀ x ∈ deflateStored bs, x < 256 := by
  rw [deflateStored_eq]
  exact encParts_wf _ (fun p hp => (splitAt_parts _ _ hb p hp).2)

/-! ### checksums -/

theorem crcStep_lt (r : Nat) (h : r < 4294967296) : crcStep 0xEDB88320 r < 4294967296 := by
  unfold crcStep
  split
  · exact Nat.xor_lt_two_pow (n := 32) (by omega) (by omega)
  · omega

theorem crcByte_lt (r b : Nat) (h : r < 4294967296) (hb : b < 256) : crcByte 0xEDB88320 r b < 4294967296 := by
  unfold crcByte
  have h0 : r ^^^ b < 4294967296 := Nat.xor_lt_two_pow (n := 32) (by omega) (by omega)
  generalize r ^^^ b = s at h0
  generalize List.range 8 = l
  induction l generalizing s with
  | nil => exact h0
  | cons _ l ih => exact ih _ (crcStep_lt _ h0)

theorem crc32_lt (bs : Bytes) (hb : ∀ x ∈ bs, x < 256) : crc32 bs < 4294967296 := by
  unfold crc32
  have : ∀ (r : Nat), r < 4294967296 → List.foldl (crcByte 0xEDB88320) r bs < 4294967296 := by
    induction bs with
    | nil => intro r h; exact h
    | cons b bs ih =>
      intro r h
      exact ih (fun x hx => hb x (List.mem_cons_of_mem _ hx)) _ (crcByte_lt _ _ h (hb b (by simp)))
  exact Nat.xor_lt_two_pow (n := 32) (this _ (by omega)) (by omega)

theorem adler32_lt (bs : Bytes) : adler32 bs < 4294967296 := by
  unfold adler32
  have : ∀ (ab : Nat × Nat), ab.1 < 65521 → ab.2 < 65521 →
      (List.foldl (fun (ab : Nat × Nat) x => ((ab.1 + x) % 65521, (ab.2 + (ab.1 + x) % 65521) % 65521)) ab bs).1 < 65521 ∧
      (List.foldl (fun (ab : Nat × Nat) x => ((ab.1 + x) % 65521, (ab.2 + (ab.1 + x) % 65521) % 65521)) ab bs).2 < 65521 := by
    induction bs with
    | nil => intro ab h1 h2; exact ⟨h1, h2⟩
    | cons b bs ih =>
      intro ab h1 h2
      exact ih _ (Nat.mod_lt _ (by omega)) (Nat.mod_lt _ (by omega))
  have h := this (1, 0) (by omega) (by omega)
  simp only
  omega

theorem ofLe_le32 (n : Nat) (h : n < 4294967296) : ofLe (le32 n) = n := by
  simp only [ofLe, le32, List.foldr]
  omega

theorem le32_wf (n : Nat) : ∀ x ∈ le32 n, x < 256 := by
  intro x hx
  simp only [le32, List.mem_cons, List.not_mem_nil, or_false] at hx
  omega

theorem le32_length (n : Nat) : (le32 n).length = 4 := rfl

/-! ### containers -/

theorem gunzip_gzipWith (deflate : Bytes → Bytes) (extra : Bool)
    (hd : ∀ bs rest, (∀ x ∈ bs, x < 256) → (∀ x ∈ rest, x < 256) → inflate (deflate bs ++ rest) = some (bs, rest))
    (bs : Bytes) (hb : ∀ x ∈ bs, x < 256) : gunzip (gzipWith deflate extra bs) = some bs := by
  have hrest : ∀ x ∈ le32 (crc32 bs) ++ le32 (bs.length % 4294967296), x < 256 := by
    intro x hx
    rcases List.mem_append.1 hx with hx | hx
    · exact le32_wf _ x hx
    · exact le32_wf _ x hx
  have hi := hd bs _ hb hrest
  have h1 : ofLe (le32 (crc32 bs)) = crc32 bs := ofLe_le32 _ (crc32_lt bs hb)
  have h2 : ofLe (le32 (bs.length % 4294967296)) = bs.length % 4294967296 := ofLe_le32 _ (Nat.mod_lt _ (by omega))
  have h3 : ∀ (a : Nat) (r : Bytes), List.take 4 (le32 a ++ r) = le32 a := fun _ _ => rfl
  have h4 : ∀ (a : Nat) (r : Bytes), List.drop 4 (le32 a ++ r) = r := fun _ _ => rfl
  have h5 : ∀ (a : Nat), List.take 4 (le32 a) = le32 a := fun _ => rfl
  have hlt : ∀ n : Nat, (n + 1 + 1 < 2) = False := by intro n; simp
  cases extra
  · simp only [gzipWith, Bool.false_eq_true, if_false, List.append_assoc, List.cons_append, List.nil_append]
    unfold gunzip
    simp [hi, le32_length, h1, h2, h3, h4, h5]
  · simp only [gzipWith, if_true, List.append_assoc, List.cons_append, List.nil_append]
    unfold gunzip
    simp [hi, le32_length, h1, h2, h3, h4, h5, hlt, dropZ]

theorem unzlib_zlibWith (deflate : Bytes → Bytes)
    (hd : ∀ bs rest, (∀ x ∈ bs, x < 256) → (∀ x ∈ rest, x < 256) → inflate (deflate bs ++ rest) = some (bs, rest))
    (bs : Bytes) (hb : ∀ x ∈ bs, x < 256) : unzlib (zlibWith deflate bs) = some bs := by
  have hrest : ∀ x ∈ be32 (adler32 bs), x < 256 := by
    intro x hx
    exact le32_wf _ x (List.mem_reverse.1 hx)
  have hi := hd bs _ hb hrest
  have h1 : ofLe (le32 (adler32 bs)) = adler32 bs := ofLe_le32 _ (adler32_lt bs)
  have h3 : (List.take 4 (be32 (adler32 bs))).reverse = le32 (adler32 bs) := rfl
  have h4 : (be32 (adler32 bs)).length = 4 := rfl
  simp only [zlibWith, List.cons_append, List.nil_append]
  unfold unzlib
  simp [hi, h1, h3, h4]

theorem gzipWith_wf (deflate : Bytes → Bytes) (extra : Bool) (bs : Bytes) (hd : ∀ x ∈ deflate bs, x < 256) :
    ∀ x ∈ gzipWith deflate extra bs, x < 256 := by
  intro x hx
  simp only [gzipWith, List.mem_append] at hx
  rcases hx with ((hx | hx) | hx) | hx
  · cases extra
    · simp only [Bool.false_eq_true, if_false, List.mem_cons, List.not_mem_nil, or_false] at hx; omega
    · simp only [if_true, List.mem_cons, List.not_mem_nil, or_false] at hx; omega
  · exact hd x hx
  · exact le32_wf _ x hx
  · exact le32_wf _ x hx

theorem zlibWith_wf (deflate : Bytes → Bytes) (bs : Bytes) (hd : ∀ x ∈ deflate bs, x < 256) :
    ∀ x ∈ zlibWith deflate bs, x < 256 := by
  intro x hx
  simp only [zlibWith, List.mem_append] at hx
  rcases hx with (hx | hx) | hx
  · simp only [List.mem_cons, List.not_mem_nil, or_false] at hx; omega
  · exact hd x hx
  · exact le32_wf _ x (List.mem_reverse.1 hx)

theorem fixed_example_1 : gunzip (gzipWith deflateFixed true [1, 2, 3, 200, 255]) = some [1, 2, 3, 200, 255] := by
  decide +kernel

theorem fixed_example_2 : unzlib (zlibWith deflateStored [9, 8]) = some [9, 8] := by
  decide +kernel

theorem fixed_example : gunzip (gzipWith deflateFixed true [1, 2, 3, 200, 255]) = some [1, 2, 3, 200, 255] ∧
    unzlib (zlibWith deflateStored [9, 8]) = some [9, 8] := ⟨fixed_example_1, fixed_example_2⟩

end Zarrs.Inflate
