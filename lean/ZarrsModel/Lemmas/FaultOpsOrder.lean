import ZarrsModel.Lemmas.FaultOpsArray
set_option Elab.async false
set_option linter.unusedSectionVars false
/-
The number of store operations of a multi-chunk write does not depend on the order in which the per-chunk closures
run: every closure touches only the key of its own chunk (`Prog.onKey`), distinct chunks have distinct keys, so the
number of operations of a closure is the same whatever the other closures did before.
-/
namespace Zarrs
namespace Prog
variable {β γ : Type}

/-- every store operation of the program is on the key `k` -/
def onKey (k : Key) : Prog β → Prop
  | .ret _ => True
  | .fail => True
  | .get k' cont => k' = k ∧ ∀ v, (cont v).onKey k
  | .set k' _ cont => k' = k ∧ cont.onKey k
  | .erase k' cont => k' = k ∧ cont.onKey k
  | .listDir _ _ => False

theorem onKey_ops (k : Key) (p : Prog β) (h : p.onKey k) : ∀ m m' : KV, m.get k = m'.get k → p.ops m = p.ops m' := by
  induction p with
  | ret v => intro m m' _; rfl
  | fail => intro m m' _; rfl
  | get k' cont ih =>
    intro m m' hg
    obtain ⟨rfl, hc⟩ := h
    simp only [ops, hg]
    rw [ih _ (hc _) m m' hg]
  | set k' v cont ih =>
    intro m m' hg
    obtain ⟨rfl, hc⟩ := h
    simp only [ops]
    rw [ih hc (m.put k' v) (m'.put k' v) (by rw [KV.get_put_same, KV.get_put_same])]
  | erase k' cont ih =>
    intro m m' hg
    obtain ⟨rfl, hc⟩ := h
    simp only [ops]
    rw [ih hc (m.erase k') (m'.erase k') (by rw [KV.get_erase, KV.get_erase, if_pos rfl, if_pos rfl])]
  | listDir q cont ih => exact absurd h (by simp [onKey])

theorem onKey_bind (k : Key) (p : Prog β) (f : β → Prog γ) (hp : p.onKey k) (hf : ∀ v, (f v).onKey k) :
    (p.bind f).onKey k := by
  induction p with
  | ret v => exact hf v
  | fail => trivial
  | get k' cont ih => exact ⟨hp.1, fun v => ih v (hp.2 v)⟩
  | set k' v cont ih => exact ⟨hp.1, ih hp.2⟩
  | erase k' cont ih => exact ⟨hp.1, ih hp.2⟩
  | listDir q cont ih => exact absurd hp (by simp [onKey])

end Prog

namespace ArrCfg
variable {α : Type} [BEq α] (cfg : ArrCfg α)

theorem storeChunkP_onKey (c : Idx) (d : List α) : (cfg.storeChunkP c d).onKey (cfg.keyOf c) := by
  unfold storeChunkP
  cases cfg.chunkShape c with
  | none => trivial
  | some s =>
    simp only
    split
    · trivial
    · split <;> exact ⟨rfl, trivial⟩

theorem retrieveChunkP_onKey (c : Idx) : (cfg.retrieveChunkP c).onKey (cfg.keyOf c) := by
  unfold retrieveChunkP
  apply Prog.onKey_bind
  · unfold retrieveChunkIfExistsP
    split
    · trivial
    · refine ⟨rfl, fun v => ?_⟩
      cases v with
      | none => trivial
      | some b =>
        simp only
        cases cfg.chunkShape c with
        | none => trivial
        | some s =>
          simp only
          cases cfg.dec b with
          | none => trivial
          | some xs => simp only; split <;> trivial
  · intro v
    cases v with
    | some xs => trivial
    | none => simp only; cases cfg.chunkShape c <;> trivial

theorem storeChunkSubsetP_onKey (c : Idx) (r : Subset) (d : List α) :
    (cfg.storeChunkSubsetP c r d).onKey (cfg.keyOf c) := by
  unfold storeChunkSubsetP
  cases cfg.chunkShape c with
  | none => trivial
  | some s =>
    simp only
    split
    · trivial
    · split
      · exact storeChunkP_onKey cfg c d
      · split
        · trivial
        · exact Prog.onKey_bind _ _ _ (retrieveChunkP_onKey cfg c) (fun _ => storeChunkP_onKey cfg c _)

theorem storeChunksStepP_onKey (region : Subset) (d : List α) (c : Idx) :
    (cfg.storeChunksStepP region d c).onKey (cfg.keyOf c) := by
  unfold storeChunksStepP
  cases cfg.chunkSubset c with
  | none => trivial
  | some cs => exact storeChunkP_onKey cfg c _

theorem storeArraySubsetStepP_onKey (region : Subset) (d : List α) (c : Idx) :
    (cfg.storeArraySubsetStepP region d c).onKey (cfg.keyOf c) := by
  unfold storeArraySubsetStepP
  cases cfg.chunkSubset c with
  | none => trivial
  | some cs => exact storeChunkSubsetP_onKey cfg c _ _

variable {keyOf : Idx → Key} {W : Idx → Option Bytes → Option (Option Bytes)}

/-- the operations of a successful sequential run are the sum of the operations each step performs from the INITIAL
store -/
theorem seq_ops_sum (stepP : Idx → Prog Unit)
    (href : ∀ m c, (stepP c).pure m = (kvStep keyOf W m c).map (fun m' => ((), m')))
    (hkey : ∀ c, (stepP c).onKey (keyOf c)) :
    ∀ (l : List Idx), (l.map keyOf).Nodup → ∀ (m m' : KV), foldOpt (kvStep keyOf W) m l = some m' →
      (Prog.seq (l.map stepP)).ops m = (l.map (fun c => (stepP c).ops m)).sum
  | [], _, m, m', _ => rfl
  | c :: rest, hnd, m, m', hfold => by
    simp only [List.map_cons, List.nodup_cons] at hnd
    simp only [List.map_cons, List.sum_cons]
    rw [Prog.seq_ops_step, href]
    simp only [foldOpt] at hfold
    cases hst : kvStep keyOf W m c with
    | none => rw [hst] at hfold; cases hfold
    | some m1 =>
      rw [hst] at hfold
      simp only [Option.map_some]
      rw [seq_ops_sum stepP href hkey rest hnd.2 m1 m' hfold]
      congr 1
      congr 1
      apply List.map_congr_left
      intro c' hc'
      apply Prog.onKey_ops _ _ (hkey c')
      simp only [kvStep] at hst
      cases hw : W c (m.get (keyOf c)) with
      | none => rw [hw] at hst; cases hst
      | some w =>
        rw [hw] at hst
        simp only [Option.map_some, Option.some.injEq] at hst
        rw [← hst, KV.get_applyW, if_neg]
        intro he
        exact hnd.1 (he ▸ List.mem_map_of_mem hc')

/-- **the operation count of a successful multi-chunk write does not depend on the order of the closures** -/
theorem seq_ops_perm (stepP : Idx → Prog Unit)
    (href : ∀ m c, (stepP c).pure m = (kvStep keyOf W m c).map (fun m' => ((), m')))
    (hkey : ∀ c, (stepP c).onKey (keyOf c))
    (chunks : List Idx) (hnd : (chunks.map keyOf).Nodup) (st stFull : KV)
    (hfull : foldOpt (kvStep keyOf W) st chunks = some stFull) (order : List Idx) (hperm : order.Perm chunks) :
    (Prog.seq (order.map stepP)).ops st = (Prog.seq (chunks.map stepP)).ops st := by
  obtain ⟨hF, _, _⟩ := foldOpt_kvStep_some _ _ _ hnd st stFull hfull
  have hndO : (order.map keyOf).Nodup := (hperm.map keyOf).nodup_iff.2 hnd
  obtain ⟨s2, hs2⟩ := foldOpt_kvStep_of keyOf W order hndO st (fun c => stFull.get (keyOf c))
    (fun c hc => hF c (hperm.subset hc))
  rw [seq_ops_sum stepP href hkey order hndO st s2 hs2, seq_ops_sum stepP href hkey chunks hnd st stFull hfull]
  exact (hperm.map _).sum_nat

end ArrCfg
end Zarrs
