import ZarrsModel.Model.Json
namespace Zarrs.Json

/-! ### strings -/

theorem psb_quote (f : Nat) (rest acc) : parseStrBody (f+1) (34 :: rest) acc = some (acc, rest) := by
  rw [parseStrBody]
theorem psb_plain (f : Nat) (b : Nat) (rest acc) (h1 : 32 ≤ b) (h2 : b ≠ 34) (h3 : b ≠ 92) :
    parseStrBody (f+1) (b :: rest) acc = parseStrBody f rest (acc ++ [b]) := by
  rw [parseStrBody]
  · simp; omega
  · simpa using h2
  · intros; omega
theorem psb_e34 (f : Nat) (rest acc) :
    parseStrBody (f+1) (92 :: 34 :: rest) acc = parseStrBody f rest (acc ++ [34]) := by
  rw [parseStrBody]; rfl
theorem psb_e92 (f : Nat) (rest acc) :
    parseStrBody (f+1) (92 :: 92 :: rest) acc = parseStrBody f rest (acc ++ [92]) := by
  rw [parseStrBody]; rfl
theorem psb_e98 (f : Nat) (rest acc) :
    parseStrBody (f+1) (92 :: 98 :: rest) acc = parseStrBody f rest (acc ++ [8]) := by
  rw [parseStrBody]; rfl
theorem psb_e102 (f : Nat) (rest acc) :
    parseStrBody (f+1) (92 :: 102 :: rest) acc = parseStrBody f rest (acc ++ [12]) := by
  rw [parseStrBody]; rfl
theorem psb_e110 (f : Nat) (rest acc) :
    parseStrBody (f+1) (92 :: 110 :: rest) acc = parseStrBody f rest (acc ++ [10]) := by
  rw [parseStrBody]; rfl
theorem psb_e114 (f : Nat) (rest acc) :
    parseStrBody (f+1) (92 :: 114 :: rest) acc = parseStrBody f rest (acc ++ [13]) := by
  rw [parseStrBody]; rfl
theorem psb_e116 (f : Nat) (rest acc) :
    parseStrBody (f+1) (92 :: 116 :: rest) acc = parseStrBody f rest (acc ++ [9]) := by
  rw [parseStrBody]; rfl
theorem psb_e117 (f : Nat) (rest acc) :
    parseStrBody (f+1) (92 :: 117 :: rest) acc =  match hex4 rest with
      | none => none
      | some (n1, r1) =>
        if 0xDC00 ≤ n1 && n1 ≤ 0xDFFF then none             -- lone trailing surrogate
        else if 0xD800 ≤ n1 && n1 ≤ 0xDBFF then
          match r1 with
          | 92 :: 117 :: r2 =>
            match hex4 r2 with
            | none => none
            | some (n2, r3) =>
              if 0xDC00 ≤ n2 && n2 ≤ 0xDFFF then
                parseStrBody f r3 (acc ++ utf8 (0x10000 + (n1 - 0xD800) * 1024 + (n2 - 0xDC00)))
              else none
          | _ => none                                        -- lone leading surrogate
        else parseStrBody f r1 (acc ++ utf8 n1) := by
  rw [parseStrBody]; rfl

theorem hex_small : ∀ b, b < 32 → hexVal (hexDigit (b / 16)).toNat = some (b / 16) ∧
    hexVal (hexDigit (b % 16)).toNat = some (b % 16) := by
  decide

theorem psb_u00 (f : Nat) (b : Nat) (hb : b < 32) (rest acc) :
    parseStrBody (f+1) (92 :: 117 :: 48 :: 48 :: (hexDigit (b / 16)).toNat :: (hexDigit (b % 16)).toNat :: rest) acc
      = parseStrBody f rest (acc ++ [b]) := by
  rw [psb_e117]
  have h := hex_small b hb
  have h0 : hexVal 48 = some 0 := by decide
  simp only [hex4, h.1, h.2, h0]
  have e : 0 * 4096 + 0 * 256 + b / 16 * 16 + b % 16 = b := by omega
  rw [e]
  have e1 : (decide (0xDC00 ≤ b) && decide (b ≤ 0xDFFF)) = false := by simp; omega
  have e2 : (decide (0xD800 ≤ b) && decide (b ≤ 0xDBFF)) = false := by simp; omega
  have e3 : utf8 b = [b] := by simp [utf8]; omega
  simp only [e1, e2, e3]
  simp

theorem psb_byte (f : Nat) (b : Nat) (rest acc) :
    parseStrBody (f+1) (escapeByte b ++ rest) acc = parseStrBody f rest (acc ++ [b]) := by
  unfold escapeByte
  split
  · simp_all [psb_e34]
  split
  · simp_all [psb_e92]
  split
  · simp_all [psb_e98]
  split
  · simp_all [psb_e102]
  split
  · simp_all [psb_e110]
  split
  · simp_all [psb_e114]
  split
  · simp_all [psb_e116]
  split
  · rename_i h
    exact psb_u00 f b h rest acc
  · simp only [List.singleton_append]
    apply psb_plain <;> simp_all <;> omega

theorem psb_print (s : Str) : ∀ (f : Nat) (rest acc : List Nat), s.length < f →
    parseStrBody f (s.flatMap escapeByte ++ 34 :: rest) acc = some (acc ++ s, rest) := by
  induction s with
  | nil => 
    intro f rest acc hf
    obtain ⟨f, rfl⟩ : ∃ g, f = g + 1 := ⟨f - 1, by simp at hf; omega⟩
    simp [psb_quote]
  | cons b s ih =>
    intro f rest acc hf
    obtain ⟨f, rfl⟩ : ∃ g, f = g + 1 := ⟨f - 1, by simp at hf; omega⟩
    simp only [List.flatMap_cons, List.append_assoc]
    rw [psb_byte, ih]
    · simp
    · simp at hf; omega

theorem escapeByte_length (b : Nat) : 1 ≤ (escapeByte b).length := by
  unfold escapeByte
  repeat' split
  all_goals simp

theorem flatMap_escape_length (s : Str) : s.length ≤ (s.flatMap escapeByte).length := by
  induction s with
  | nil => simp
  | cons b s ih => 
    have := escapeByte_length b
    simp only [List.flatMap_cons, List.length_append, List.length_cons]; omega

theorem parseStr_print (s : Str) (rest : List Nat) (h : validUtf8 s = true) :
    parseStr (s.flatMap escapeByte ++ 34 :: rest) = some (s, rest) := by
  unfold parseStr
  rw [psb_print]
  · simp [h]
  · have := flatMap_escape_length s
    simp only [List.length_append, List.length_cons]; omega

end Zarrs.Json
