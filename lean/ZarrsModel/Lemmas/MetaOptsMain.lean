import ZarrsModel.Model.MetaOpts
import ZarrsModel.Lemmas.MetaOptsAlias
import ZarrsModel.Lemmas.MetaOptsChain
import ZarrsModel.Lemmas.MetaOptsDoc
import ZarrsModel.Lemmas.MetaV2ConvWf
/- helper lemmas for `Props/C13Opts.lean`: what `metadataOpt` gives for an accepted handle, in terms of the lemma
   library's well-formedness predicates (`ArrayDoc.good`, `ArrayDocV2.shapeOk`/`wfParts`) -/
set_option Elab.async false
namespace Zarrs.MetaOpts
open Zarrs.Json Zarrs.Meta Zarrs.MetaV2

/-- what the theorems assume of the codec plugins (facts about the codecs, outside this model): a codec created from
    the configuration it writes is the same codec; an array-to-bytes codec always writes its metadata (the only
    encode-only codec, `bitround`, is an array-to-array codec); a well-formed configuration is answered by a
    well-formed one -/
structure PlugOk (plug : Plug) : Prop where
  recreate : ∀ i c x, plug i c = some x → plug i (some x.config) = some x
  a2bWritten : ∀ i c x, plug i c = some x → x.kind = .a2b → x.encodeOnly = false
  wf : ∀ i c x, plug i c = some x → (∀ ob, c = some ob → wfKVs ob ∧ keysDistinct ob) → wfKVs x.config ∧ keysDistinct x.config

/-! ### opening -/

theorem openV3_inv (plug : Plug) (r : Nat) (d : ArrayDoc) (h : Handle) (hopen : openV3 plug r d = some h) :
    openOk d r = true ∧ dataTypeOk d.dataType = true ∧ ∃ ch, chainOf plug d.codecs = some ch ∧ h = .v3 d ch := by
  unfold openV3 at hopen
  split at hopen
  · rename_i hc
    simp only [Bool.and_eq_true] at hc
    cases hch : chainOf plug d.codecs with
    | none => rw [hch] at hopen; cases hopen
    | some ch =>
      rw [hch] at hopen
      simp only [Option.map_some, Option.some.injEq] at hopen
      exact ⟨hc.1, hc.2, ch, rfl, hopen.symm⟩
  · cases hopen

theorem openV3_intro (plug : Plug) (r : Nat) (d : ArrayDoc) (ch : Chain) (h1 : openOk d r = true)
    (h2 : dataTypeOk d.dataType = true) (h3 : chainOf plug d.codecs = some ch) : openV3 plug r d = some (.v3 d ch) := by
  unfold openV3
  simp [h1, h2, h3]

theorem openV2_inv (plug : Plug) (d : ArrayDocV2) (h : Handle) (hopen : openV2 plug d = some h) :
    openOkV2 d = true ∧ h = .v2 d ∧ ∃ v ch, v2ToV3 d = .ok v ∧ dataTypeOk v.dataType = true ∧ chainOf plug v.codecs = some ch := by
  unfold openV2 at hopen
  split at hopen
  · rename_i ho
    split at hopen
    · rename_i v hv
      split at hopen
      · rename_i hc
        simp only [Bool.and_eq_true] at hc
        cases hch : chainOf plug v.codecs with
        | none => rw [hch] at hc; simp at hc
        | some ch =>
          simp only [Option.some.injEq] at hopen
          exact ⟨ho, hopen.symm, v, ch, hv, hc.1, hch⟩
      · cases hopen
    · cases hopen
  · cases hopen

theorem openV2_intro (plug : Plug) (d : ArrayDocV2) (v : ArrayDoc) (ch : Chain) (h1 : openOkV2 d = true)
    (h2 : v2ToV3 d = .ok v) (h3 : dataTypeOk v.dataType = true) (h4 : chainOf plug v.codecs = some ch) :
    openV2 plug d = some (.v2 d) := by
  unfold openV2
  simp [h1, h2, h3, h4]

/-! ### V3 arrays -/

/-- the document `metadata_opt` gives for a V3 array -/
def outV3 (o : Opts) (d : ArrayDoc) (ch : Chain) : ArrayDoc :=
  { d with dataType := if o.convertAliased then renameV3 dtypeV3 d.dataType else d.dataType,
           codecs := outCodecs o ch, attrs := withZarrs o d.attrs }

theorem metadataOpt_v3 (o : Opts) (d : ArrayDoc) (ch : Chain) : metadataOpt o (.v3 d ch) = some (.v3 (outV3 o d ch)) := by
  unfold metadataOpt outV3 outCodecs aliasV3
  cases o.convertAliased <;> rfl

theorem outV3_dataType (o : Opts) (d : ArrayDoc) (ch : Chain) (h : dataTypeOk d.dataType = true) :
    (outV3 o d ch).dataType = d.dataType := by
  unfold outV3
  simp only
  split
  · exact dataTypeOk_rename _ h
  · rfl

theorem outV3_openOk (o : Opts) (d : ArrayDoc) (ch : Chain) (r : Nat) : openOk (outV3 o d ch) r = openOk d r := rfl

theorem chain_configs_ok (plug : Plug) (hp : PlugOk plug) (ms : List MetaV3) (ch : Chain) (h : chainOf plug ms = some ch)
    (hms : ∀ m ∈ ms, MetaV3.good m) : ∀ n ∈ ch.all, wfKVs n.codec.config ∧ keysDistinct n.codec.config := by
  intro n hn
  obtain ⟨m, hm, _, hpl⟩ := mem_createdOf plug ms n (chainOf_mem plug ms ch h n hn)
  exact hp.wf _ _ _ hpl (fun ob hob => (hms m hm).2 ob hob)

theorem outCodecs_good (o : Opts) (ch : Chain) (hn : ∀ n ∈ ch.all, strOk n.name)
    (hc : ∀ n ∈ ch.all, wfKVs n.codec.config ∧ keysDistinct n.codec.config) : ∀ c ∈ outCodecs o ch, MetaV3.good c := by
  unfold outCodecs
  split
  · intro c hc'
    rw [List.mem_map] at hc'
    obtain ⟨c0, hc0, rfl⟩ := hc'
    exact renameV3_good _ strOk_codecV3_convert _ (metadatas_good o ch hn hc c0 hc0)
  · exact metadatas_good o ch hn hc

theorem outV3_good (plug : Plug) (hp : PlugOk plug) (o : Opts) (d : ArrayDoc) (hd : d.good) (ch : Chain)
    (hch : chainOf plug d.codecs = some ch) : (outV3 o d ch).good := by
  refine ⟨hd.shape, ?_, hd.cg, hd.ck, hd.fill, ?_, withZarrs_wf o _ hd.attrs, hd.st, hd.dn, hd.extra, hd.sorted⟩
  · show MetaV3.good (if o.convertAliased then renameV3 dtypeV3 d.dataType else d.dataType)
    split
    · exact renameV3_good _ strOk_dtypeV3_convert _ hd.dt
    · exact hd.dt
  · exact outCodecs_good o ch (chain_names_ok plug _ ch hch hd.codecs) (chain_configs_ok plug hp _ ch hch hd.codecs)

theorem a2b_written (plug : Plug) (hp : PlugOk plug) (o : Opts) (ms : List MetaV3) (ch : Chain)
    (hch : chainOf plug ms = some ch) : ch.a2b.written o = true := by
  have hk := (chainOf_wellKinded plug ms ch hch).a2b
  have hm : ch.a2b ∈ ch.all := by simp [Chain.all]
  obtain ⟨cfg, hc⟩ := chainOf_fromPlug plug ms ch hch _ hm
  have := hp.a2bWritten _ _ _ hc hk
  simp [Named.written, this]

/-- **the written V3 document is accepted again, with the stored chain** -/
theorem outV3_opens (plug : Plug) (hp : PlugOk plug) (o : Opts) (d : ArrayDoc) (r : Nat) (ch : Chain)
    (hopen : openV3 plug r d = some (.v3 d ch)) : openV3 plug r (outV3 o d ch) = some (.v3 (outV3 o d ch) (ch.stored o)) := by
  obtain ⟨h1, h2, ch', hch, he⟩ := openV3_inv plug r d _ hopen
  cases he
  apply openV3_intro
  · rw [outV3_openOk]; exact h1
  · rw [outV3_dataType o d ch h2]; exact h2
  · exact chainOf_outCodecs plug o ch (chainOf_wellKinded plug _ ch hch) (chainOf_fromPlug plug _ ch hch) hp.recreate
      (a2b_written plug hp o _ ch hch)

/-- **storing what was stored and re-opened changes nothing** -/
theorem outV3_fixed (plug : Plug) (hp : PlugOk plug) (o : Opts) (d : ArrayDoc) (ch : Chain) (hch : chainOf plug d.codecs = some ch) :
    outV3 o (outV3 o d ch) (ch.stored o) = outV3 o d ch := by
  have hb := a2b_written plug hp o _ ch hch
  unfold outV3
  simp only [outCodecs_stored o ch hb, withZarrs_idem]
  congr 1
  cases o.convertAliased with
  | false => rfl
  | true => simp only [if_true, renameV3, dtypeV3.convert_idem dtypeV3_coherent]

/-- through the stored bytes -/
theorem openArray_storeV3 (plug : Plug) (r : Nat) (k : NodeKeys) (e : ArrayDoc) (he : e.good) :
    openArray plug r (storeArray k (.v3 e)) = openV3 plug r e := by
  unfold openArray openArrayKeys storeArray
  simp only [arrayDoc_text_roundtrip_good e he, Option.map_some]

/-! ### V2 arrays, version kept -/

/-- the document `metadata_opt` gives for a V2 array whose version is kept -/
def outV2 (o : Opts) (d : ArrayDocV2) : ArrayDocV2 :=
  let d1 : ArrayDocV2 := { d with attrs := withZarrs o d.attrs }
  if o.convertAliased then aliasV2 d1 else d1

theorem metadataOpt_v2 (o : Opts) (d : ArrayDocV2) (ho : o.convertVersion = .default) :
    metadataOpt o (.v2 d) = some (.v2 (outV2 o d)) := by
  unfold metadataOpt outV2
  simp only [ho]

theorem outV2_attrs (o : Opts) (d : ArrayDocV2) : (outV2 o d).attrs = withZarrs o d.attrs := by
  unfold outV2; simp only; split <;> rfl

theorem outV2_kept (o : Opts) (d : ArrayDocV2) :
    (outV2 o d).dtype = d.dtype ∧ (outV2 o d).shape = d.shape ∧ (outV2 o d).chunks = d.chunks ∧ (outV2 o d).fill = d.fill ∧
    (outV2 o d).order = d.order ∧ (outV2 o d).sep = d.sep ∧ (outV2 o d).extra = d.extra := by
  unfold outV2; simp only; split <;> exact ⟨rfl, rfl, rfl, rfl, rfl, rfl, rfl⟩

theorem outV2_shapeOk (o : Opts) (d : ArrayDocV2) (h : d.shapeOk) : (outV2 o d).shapeOk := by
  have h1 : ({ d with attrs := withZarrs o d.attrs } : ArrayDocV2).shapeOk :=
    ⟨h.shape, h.chunks, h.dt, h.comp, h.fill, h.filters, h.extraKeys, h.extraShape, h.sorted, h.noTag⟩
  unfold outV2; simp only; split
  · exact aliasV2_shapeOk _ h1
  · exact h1

theorem outV2_wfParts (o : Opts) (d : ArrayDocV2) (h : d.wfParts) : (outV2 o d).wfParts := by
  have h1 : ({ d with attrs := withZarrs o d.attrs } : ArrayDocV2).wfParts :=
    ⟨h.shape, h.chunks, h.dt, h.comp, h.fill, h.filters, withZarrs_wf o _ h.attrs, h.extra⟩
  unfold outV2; simp only; split
  · exact aliasV2_wfParts _ h1
  · exact h1

/-- **the V3 interpretation of the written V2 document is that of the handle's document, with the written attributes** -/
theorem v2ToV3_outV2 (o : Opts) (d : ArrayDocV2) :
    v2ToV3 (outV2 o d) = (v2ToV3 d).map (fun v => { v with attrs := withZarrs o d.attrs }) := by
  unfold outV2; simp only; split
  · rw [v2ToV3_aliasV2, v2ToV3_attrs]
  · rw [v2ToV3_attrs]

theorem outV2_fixed (o : Opts) (d : ArrayDocV2) : outV2 o (outV2 o d) = outV2 o d := by
  unfold outV2
  simp only
  cases o.convertAliased with
  | false => simp only [Bool.false_eq_true, if_false, withZarrs_idem]
  | true =>
    simp only [if_true]
    have : ({ aliasV2 { d with attrs := withZarrs o d.attrs } with
        attrs := withZarrs o (aliasV2 { d with attrs := withZarrs o d.attrs }).attrs } : ArrayDocV2) =
        aliasV2 { d with attrs := withZarrs o d.attrs } := by
      show ({ aliasV2 { d with attrs := withZarrs o d.attrs } with attrs := withZarrs o (withZarrs o d.attrs) } : ArrayDocV2) = _
      rw [withZarrs_idem]
      rfl
    rw [this, aliasV2_idem]

theorem openOkV2_of_conv (d e : ArrayDocV2) (a : Obj) (he : e.extra = d.extra) (hc : e.chunks = d.chunks)
    (hv : v2ToV3 e = (v2ToV3 d).map (fun v => { v with attrs := a })) (h : openOkV2 d = true) : openOkV2 e = true := by
  unfold openOkV2 at h ⊢
  rw [he, hc, hv]
  cases hd : v2ToV3 d with
  | error x => rw [hd] at h; simp at h
  | ok v =>
    rw [hd] at h
    simp only [Except.map]
    exact h

/-- **the written V2 document is accepted again** -/
theorem outV2_opens (plug : Plug) (o : Opts) (d : ArrayDocV2) (hopen : openV2 plug d = some (.v2 d)) :
    openV2 plug (outV2 o d) = some (.v2 (outV2 o d)) := by
  obtain ⟨h1, _, v, ch, hv, hdt, hch⟩ := openV2_inv plug d _ hopen
  have hk := outV2_kept o d
  have hconv := v2ToV3_outV2 o d
  have hv' : v2ToV3 (outV2 o d) = .ok { v with attrs := withZarrs o d.attrs } := by rw [hconv, hv]; rfl
  exact openV2_intro plug _ _ ch (openOkV2_of_conv d _ _ hk.2.2.2.2.2.2 hk.2.2.1 hconv h1) hv' hdt hch

/-- through the stored keys (`.zarray`, `.zattrs`), when no `zarr.json` is in the way -/
theorem openArray_storeV2 (plug : Plug) (r : Nat) (k : NodeKeys) (hk : k.zarrJson = none) (e : ArrayDocV2) (hs : e.shapeOk)
    (hw : e.wfParts) (hn : ∀ kv ∈ e.extra, kv.1 ≠ kNodeType) :
    openArray plug r (storeArray k (.v2 e)) = openV2 plug e := by
  have hs0 : ({ e with attrs := [] } : ArrayDocV2).shapeOk :=
    ⟨hs.shape, hs.chunks, hs.dt, hs.comp, hs.fill, hs.filters, hs.extraKeys, hs.extraShape, hs.sorted, hs.noTag⟩
  have hw0 : ({ e with attrs := [] } : ArrayDocV2).wfParts :=
    ⟨hw.shape, hw.chunks, hw.dt, hw.comp, hw.fill, hw.filters, ⟨by simp [wfKVs], by simp [keysDistinct]⟩, hw.extra⟩
  have h0 := MetaV2.arrayDocV2_text_roundtrip { e with attrs := [] } hw0 hs0 hn
  have hopen : ArrayDocV2.openTexts e.storeTexts.1 e.storeTexts.2 = some e := by
    unfold ArrayDocV2.openTexts ArrayDocV2.storeTexts ArrayDocV2.stored
    simp only
    unfold ArrayDocV2.toText at h0
    rw [h0]
    cases ha : e.attrs with
    | nil =>
      obtain ⟨shape, chunks, dtype, compressor, fill, order, filters, sep, attrs, extra⟩ := e
      simp only at ha
      subst ha
      rfl
    | cons x xs =>
      have hwf : (J.obj e.attrs).wf := (obj_wf_iff _).2 hw.attrs
      rw [ha] at hwf
      simp only [List.isEmpty_cons, Bool.false_eq_true, if_false, Option.map_some, parse_print _ hwf,
        ArrayDocV2.withZattrs]
      obtain ⟨shape, chunks, dtype, compressor, fill, order, filters, sep, attrs, extra⟩ := e
      simp only at ha
      subst ha
      rfl
  unfold openArray openArrayKeys storeArray
  simp only [hk, hopen, Option.map_some]

/-! ### V2 arrays written as V3 -/

/-- the document `metadata_opt` gives for a V2 array written as V3, from the conversion `v` of the handle's document -/
def outV2V3 (o : Opts) (d : ArrayDocV2) (v : ArrayDoc) : ArrayDoc :=
  let v1 : ArrayDoc := { v with attrs := withZarrs o d.attrs }
  if o.convertAliased then aliasV3 v1 else v1

theorem metadataOpt_v2v3 (o : Opts) (d : ArrayDocV2) (v : ArrayDoc) (ho : o.convertVersion = .v3) (hv : v2ToV3 d = .ok v) :
    metadataOpt o (.v2 d) = some (.v3 (outV2V3 o d v)) := by
  unfold metadataOpt outV2V3
  simp only [ho, v2ToV3_attrs, hv, Except.map]

theorem outV2V3_good (o : Opts) (d : ArrayDocV2) (v : ArrayDoc) (hv : v.good) (ha : wfKVs d.attrs ∧ keysDistinct d.attrs) :
    (outV2V3 o d v).good := by
  have h1 : ({ v with attrs := withZarrs o d.attrs } : ArrayDoc).good :=
    ⟨hv.shape, hv.dt, hv.cg, hv.ck, hv.fill, hv.codecs, withZarrs_wf o _ ha, hv.st, hv.dn, hv.extra, hv.sorted⟩
  unfold outV2V3; simp only; split
  · exact aliasV3_good _ h1
  · exact h1

/-- what opening a V2 array demands of the converted document -/
theorem openOkV2_openOk (d : ArrayDocV2) (v : ArrayDoc) (hv : v2ToV3 d = .ok v) (h : openOkV2 d = true) :
    openOk v d.chunks.length = true := by
  unfold openOkV2 at h
  rw [hv] at h
  simp only [Bool.and_eq_true] at h
  obtain ⟨s, endian, fill, cs, _, _, _, _, _, rfl⟩ := v2ToV3_inv d v hv
  unfold openOk transformersOk
  simp only [h.2, List.all_nil, Bool.and_self]

/-- **the V3 document written for a V2 array is accepted, with the chain of the handle (names converted when the
    option says so)** -/
theorem outV2V3_opens (plug : Plug) (o : Opts) (d : ArrayDocV2) (v : ArrayDoc) (ch : Chain) (r : Nat)
    (h1 : openOk v r = true) (h2 : dataTypeOk v.dataType = true) (h3 : chainOf plug v.codecs = some ch) :
    openV3 plug r (outV2V3 o d v) = some (.v3 (outV2V3 o d v) (if o.convertAliased then ch.converted else ch)) := by
  unfold outV2V3
  simp only
  cases o.convertAliased with
  | false =>
    simp only [Bool.false_eq_true, if_false]
    exact openV3_intro plug r _ ch h1 h2 h3
  | true =>
    simp only [if_true]
    apply openV3_intro
    · exact h1
    · show dataTypeOk (renameV3 dtypeV3 v.dataType) = true
      rw [dataTypeOk_rename _ h2]; exact h2
    · show chainOf plug (v.codecs.map (renameV3 codecV3)) = some ch.converted
      rw [chainOf_renameV3, h3]; rfl

/-- the written document is the conversion up to attributes and name spelling -/
theorem outV2V3_kept (o : Opts) (d : ArrayDocV2) (v : ArrayDoc) (h2 : dataTypeOk v.dataType = true) :
    (outV2V3 o d v).shape = v.shape ∧ (outV2V3 o d v).dataType = v.dataType ∧ (outV2V3 o d v).chunkGrid = v.chunkGrid ∧
    (outV2V3 o d v).cke = v.cke ∧ (outV2V3 o d v).fill = v.fill ∧ (outV2V3 o d v).st = v.st ∧
    (outV2V3 o d v).dimNames = v.dimNames ∧ (outV2V3 o d v).extra = v.extra ∧
    (outV2V3 o d v).attrs = withZarrs o d.attrs ∧
    (outV2V3 o d v).codecs = if o.convertAliased then v.codecs.map (renameV3 codecV3) else v.codecs := by
  unfold outV2V3
  simp only
  cases o.convertAliased with
  | false => exact ⟨rfl, rfl, rfl, rfl, rfl, rfl, rfl, rfl, rfl, rfl⟩
  | true => exact ⟨rfl, dataTypeOk_rename _ h2, rfl, rfl, rfl, rfl, rfl, rfl, rfl, rfl⟩

/-! ### groups -/

theorem openGroup_storeV3 (k : NodeKeys) (d : GroupDoc) (hd : d.good) (hok : groupOk d = true) :
    openGroup (storeGroup k (.v3 d)) = some (.v3 d) := by
  unfold openGroup storeGroup
  simp only [groupDoc_text_roundtrip_good d hd, hok, if_true]

theorem openGroup_storeV2 (k : NodeKeys) (hk : k.zarrJson = none) (d : GroupDocV2) (hs : d.shapeOk) (hw : d.wfParts)
    (hok : d.extra.all (fun kv => !kv.2.mu) = true) : openGroup (storeGroup k (.v2 d)) = some (.v2 d) := by
  have hs0 : ({ d with attrs := [] } : GroupDocV2).shapeOk := ⟨hs.extraKeys, hs.extraShape, hs.sorted⟩
  have hw0 : ({ d with attrs := [] } : GroupDocV2).wfParts := ⟨⟨by simp [wfKVs], by simp [keysDistinct]⟩, hw.extra⟩
  have h0 := MetaV2.groupDocV2_text_roundtrip { d with attrs := [] } hw0 hs0
  unfold openGroup storeGroup
  simp only [hk, h0]
  cases ha : d.attrs with
  | nil =>
    obtain ⟨attrs, extra⟩ := d
    simp only at ha hok
    subst ha
    simp [hok]
  | cons x xs =>
    have hwf : (J.obj d.attrs).wf := (obj_wf_iff _).2 hw.attrs
    rw [ha] at hwf
    simp only [List.isEmpty_cons, Bool.false_eq_true, if_false, parse_print _ hwf]
    obtain ⟨attrs, extra⟩ := d
    simp only at ha hok
    subst ha
    simp [hok]

theorem groupV2ToV3_good (d : GroupDocV2) (hs : d.shapeOk) (hw : d.wfParts) (hk : ∀ kv ∈ d.extra, kv.1 ∉ groupKeys) :
    (groupV2ToV3 d).good :=
  ⟨hw.attrs, fun kv hkv => ⟨(hw.extra kv hkv).1, ⟨(hw.extra kv hkv).2, hs.extraShape kv hkv⟩, hk kv hkv⟩, hs.sorted⟩

end Zarrs.MetaOpts
