import ZarrsModel.Model.VlenArr
import ZarrsModel.Lemmas.VlenBasic
import ZarrsModel.Lemmas.ArrayList
import ZarrsModel.Lemmas.PartialArray
import ZarrsModel.Lemmas.PartialBytes
import ZarrsModel.Lemmas.CodecTranspose
set_option Elab.async false
/-
helper lemmas for variable-length arrays, part 1: the byte-level helpers of Model/VlenArr.lean against the element
view (`VArr.elems`): gather / extract / update / is_fill / transpose / new_fill_value.
-/
namespace Zarrs.VlenArr
open Zarrs Zarrs.Codec Zarrs.Vlen Zarrs.Partial

/-! ### generic list facts -/

theorem mapM_of_map_some {α β} (f : α → Option β) : ∀ (l : List α) (ys : List β), l.map f = ys.map some →
    l.mapM f = some ys := by
  intro l
  induction l with
  | nil =>
    intro ys h
    cases ys with
    | nil => rfl
    | cons y ys => simp at h
  | cons a l ih =>
    intro ys h
    cases ys with
    | nil => simp at h
    | cons y ys =>
      simp only [List.map_cons, List.cons.injEq] at h
      rw [List.mapM_cons, h.1, ih ys h.2]
      rfl

theorem mapM_congr_mem {α β} (f g : α → Option β) (l : List α) (h : ∀ a ∈ l, f a = g a) : l.mapM f = l.mapM g := by
  induction l with
  | nil => rfl
  | cons a l ih =>
    rw [List.mapM_cons, List.mapM_cons, h a (by simp), ih (fun a' ha' => h a' (by simp [ha']))]

/-- `foldl` of `set` over pairs with distinct in-range keys, pointwise -/
theorem foldl_set_spec {β} : ∀ (pairs : List (Nat × β)) (init : List β),
    (pairs.map (·.1)).Nodup → (∀ p ∈ pairs, p.1 < init.length) →
    (pairs.foldl (fun acc p => acc.set p.1 p.2) init).length = init.length ∧
    (∀ p ∈ pairs, (pairs.foldl (fun acc p => acc.set p.1 p.2) init)[p.1]? = some p.2) ∧
    (∀ k, k ∉ pairs.map (·.1) → (pairs.foldl (fun acc p => acc.set p.1 p.2) init)[k]? = init[k]?) := by
  intro pairs
  induction pairs with
  | nil => intro init _ _; exact ⟨rfl, by simp, by simp⟩
  | cons q rest ih =>
    intro init hnd hlt
    simp only [List.map_cons, List.nodup_cons] at hnd
    obtain ⟨h1, h2, h3⟩ := ih (init.set q.1 q.2) hnd.2 (by
      intro p hp; rw [List.length_set]; exact hlt p (by simp [hp]))
    rw [List.foldl_cons]
    refine ⟨by rw [h1, List.length_set], ?_, ?_⟩
    · intro p hp
      rcases List.mem_cons.mp hp with rfl | hp'
      · rw [h3 _ hnd.1, List.getElem?_set_self (hlt _ (by simp))]
      · exact h2 p hp'
    · intro k hk
      simp only [List.map_cons, List.mem_cons, not_or] at hk
      rw [h3 k hk.2, List.getElem?_set_ne (Ne.symm hk.1)]

/-! ### `build` = `VArr.ofElems` -/

theorem pushAll_eq (xs : List Bytes) : ∀ acc : Bytes, pushAll acc xs = (acc ++ xs.flatten, offsetsFrom acc.length xs) := by
  induction xs with
  | nil => intro acc; simp [pushAll, offsetsFrom]
  | cons x xs ih =>
    intro acc
    simp only [pushAll, ih, offsetsFrom, List.flatten_cons, List.length_append, List.append_assoc]

theorem build_eq (xs : List Bytes) : build xs = VArr.ofElems xs := by
  simp [build, pushAll_eq, VArr.ofElems]

/-! ### `windows`, `elemAt?` -/

theorem windows_getElem? : ∀ (offs : List Nat) (i : Nat),
    (windows offs)[i]? = (match offs[i]?, offs[i + 1]? with
      | some a, some b => some (a, b)
      | _, _ => none)
  | [], i => by simp [windows]
  | [a], i => by
    cases i <;> simp [windows]
  | a :: b :: rest, 0 => by simp [windows]
  | a :: b :: rest, i + 1 => by
    have := windows_getElem? (b :: rest) i
    simp only [windows, List.getElem?_cons_succ] at this ⊢
    exact this

theorem windows_ok (n : Nat) (v : VArr) (h : v.valid n = true) :
    ∀ w ∈ windows v.offsets, w.1 ≤ w.2 ∧ w.2 ≤ v.data.length := by
  obtain ⟨_, hok, _⟩ := (valid_iff n v).mp h
  intro w hw
  simp only [offsetsOk, List.all_eq_true, Bool.and_eq_true, decide_eq_true_eq] at hok
  exact hok w hw

theorem getRange_ok (b : Bytes) (a e : Nat) (h1 : a ≤ e) (h2 : e ≤ b.length) : getRange b a e = some (slice b a e) := by
  simp [getRange, h1, h2]

/-- on a valid value the indexing expression is the element view -/
theorem elemAt?_eq (n : Nat) (v : VArr) (h : v.valid n = true) (i : Nat) : elemAt? v i = v.elems[i]? := by
  have hw := windows_ok n v h
  have hg := windows_getElem? v.offsets i
  unfold elemAt?
  simp only [VArr.elems, List.getElem?_map]
  cases h1 : v.offsets[i]? with
  | none => rw [h1] at hg; simp only at hg; rw [hg]; rfl
  | some a =>
    cases h2 : v.offsets[i + 1]? with
    | none => rw [h1, h2] at hg; simp only at hg; rw [hg]; rfl
    | some e =>
      rw [h1, h2] at hg
      simp only at hg
      rw [hg]
      have := hw (a, e) (List.mem_of_getElem? hg)
      simp only [Option.map_some]
      exact getRange_ok _ _ _ this.1 this.2

theorem gatherVlen_spec (n : Nat) (v : VArr) (h : v.valid n = true) (idxs : List Nat) (ys : List Bytes)
    (hy : idxs.map (fun k => v.elems[k]?) = ys.map some) : gatherVlen v idxs = some (VArr.ofElems ys) := by
  unfold gatherVlen
  rw [mapM_congr_mem (elemAt? v) (fun k => v.elems[k]?) idxs (fun k _ => elemAt?_eq n v h k),
    mapM_of_map_some _ idxs ys hy]
  simp [build_eq]

/-! ### `new_fill_value` -/

theorem offsetsFrom_replicate (fill : Bytes) : ∀ (n s : Nat),
    offsetsFrom s (List.replicate n fill) = (List.range (n + 1)).map (fun i => s + i * fill.length) := by
  intro n
  induction n with
  | zero => intro s; simp [offsetsFrom]
  | succ n ih =>
    intro s
    rw [List.replicate_succ, offsetsFrom, ih, List.range_succ_eq_map (n := n + 1), List.map_cons, List.map_map]
    simp only [Nat.zero_mul, Nat.add_zero, List.cons.injEq, true_and]
    apply List.map_congr_left
    intro i _
    simp only [Function.comp, Nat.succ_eq_add_one, Nat.add_mul, Nat.one_mul]
    omega

theorem fillVArr_eq (n : Nat) (fill : Bytes) : fillVArr n fill = VArr.ofElems (List.replicate n fill) := by
  simp [fillVArr, VArr.ofElems, offsetsFrom_replicate]

/-! ### `is_fill_value` -/

theorem isFillVlen_eq (n : Nat) (v : VArr) (h : v.valid n = true) (fill : Bytes) :
    isFillVlen v fill = v.elems.all (· == fill) := by
  have hw := windows_ok n v h
  unfold isFillVlen VArr.elems
  rw [List.all_map]
  apply Bool.eq_iff_iff.mpr
  simp only [List.all_eq_true, Function.comp]
  constructor
  · intro hh w hwm
    have := hh w hwm
    rw [getRange_ok _ _ _ (hw w hwm).1 (hw w hwm).2] at this
    simpa using this
  · intro hh w hwm
    rw [getRange_ok _ _ _ (hw w hwm).1 (hw w hwm).2]
    have := hh w hwm
    simpa using this

/-! ### `extract_array_subset` -/

theorem extractVlen_spec (r : Subset) (sh : Shape) (v : VArr) (hr : r.wf = true) (hb : r.inboundsShape sh = true)
    (hv : v.valid (prod sh) = true) :
    extractVlen r sh v = some (VArr.ofElems (r.extract sh v.elems)) := by
  unfold extractVlen
  simp only [hb, Bool.not_true, Bool.false_eq_true, if_false]
  apply gatherVlen_spec (prod sh) v hv
  rw [C09.extract_exact r sh v.elems hr hb (elems_length _ v hv), C09.linearised_eq r sh hr]
  simp [Subset.gather, List.map_map, Function.comp_def]

theorem extractRegionsVlen_spec (rs : List Subset) (sh : Shape) (v : VArr)
    (hrs : ∀ r ∈ rs, r.wf = true ∧ r.inboundsShape sh = true) (hv : v.valid (prod sh) = true) :
    extractRegionsVlen rs sh v = some (rs.map (fun r => VArr.ofElems (r.extract sh v.elems))) := by
  unfold extractRegionsVlen
  exact mapM_some_of_forall _ _ rs (fun r hr => extractVlen_spec r sh v (hrs r hr).1 (hrs r hr).2 hv)

/-! ### `transpose_vlen` -/

theorem transposeVlen_enc (v : VArr) (sh : Shape) (order : List Nat) (ho : validOrder order sh.length = true)
    (hv : v.valid (prod sh) = true) :
    transposeVlen v sh order = some (VArr.ofElems (transposeEnc order sh v.elems)) := by
  obtain ⟨hl, hc⟩ := (validOrder_iff _ _).1 ho
  have hc' : ∀ a, a < order.length → a ∈ order := by rw [hl]; exact hc
  unfold transposeVlen
  simp only [ho, Bool.not_true, Bool.false_eq_true, if_false]
  apply gatherVlen_spec (prod sh) v hv
  simp only [transposeEnc, List.map_map]
  apply List.map_congr_left
  intro j hj
  rw [mem_boxIndices] at hj
  have hlt : ravel (permute j (inverseOrder order)) sh < v.elems.length := by
    rw [elems_length _ v hv]; exact ravel_lt _ _ (inB_permute_inv j sh order hl hc' hj)
  simp [List.getD_eq_getElem?_getD, List.getElem?_eq_getElem hlt]

/-! #### the inverse order -/

theorem validOrder_nodup {order : List Nat} {n : Nat} (h : validOrder order n = true) : order.Nodup :=
  (validOrder_perm h).nodup_iff.2 List.nodup_range

theorem invAt_getElem (order : List Nat) (n : Nat) (ho : validOrder order n = true) (k : Nat) (hk : k < order.length) :
    invAt order order[k] = k := by
  obtain ⟨h1, h2⟩ := invAt_spec order order[k] (List.getElem_mem hk)
  exact (List.getElem_inj (validOrder_nodup ho)).mp h2

theorem inverseOrder_getElem (order : List Nat) (a : Nat) (ha : a < (inverseOrder order).length) :
    (inverseOrder order)[a] = invAt order a := by
  simp [inverseOrder, invAt]

theorem validOrder_inverse (order : List Nat) (n : Nat) (ho : validOrder order n = true) :
    validOrder (inverseOrder order) n = true := by
  obtain ⟨hl, _⟩ := (validOrder_iff _ _).1 ho
  rw [validOrder_iff]
  refine ⟨by rw [inverseOrder_length, hl], ?_⟩
  intro k hk
  have hk' : k < order.length := by rw [hl]; exact hk
  have hlt := validOrder_lt ho order[k] (List.getElem_mem hk')
  have hlt' : order[k] < (inverseOrder order).length := by rw [inverseOrder_length, hl]; exact hlt
  have : (inverseOrder order)[order[k]] = k := by
    rw [inverseOrder_getElem _ _ hlt']; exact invAt_getElem order n ho k hk'
  rw [← this]
  exact List.getElem_mem hlt'

theorem inverseOrder_inverseOrder (order : List Nat) (n : Nat) (ho : validOrder order n = true) :
    inverseOrder (inverseOrder order) = order := by
  obtain ⟨hl, hc⟩ := (validOrder_iff _ _).1 ho
  have hoi := validOrder_inverse order n ho
  obtain ⟨hli, hci⟩ := (validOrder_iff _ _).1 hoi
  apply List.ext_getElem
  · rw [inverseOrder_length, inverseOrder_length]
  · intro k h1 h2
    rw [inverseOrder_getElem _ _ h1]
    have hkn : k < n := by rw [← hl]; exact h2
    obtain ⟨ha, hspec⟩ := invAt_spec (inverseOrder order) k (hci k hkn)
    rw [inverseOrder_getElem _ _ ha] at hspec
    have han : invAt (inverseOrder order) k < n := by rw [← hli]; exact ha
    obtain ⟨hb, hspec2⟩ := invAt_spec order (invAt (inverseOrder order) k) (hc _ han)
    simp only [hspec] at hspec2
    exact hspec2.symm

theorem orderDecode_eq (order : List Nat) (n : Nat) (ho : validOrder order n = true) :
    orderDecode order = inverseOrder order := by
  obtain ⟨hl, hc⟩ := (validOrder_iff _ _).1 ho
  have hnd := validOrder_nodup ho
  have hfst : (order.zipIdx.map (·.1)) = order := by
    apply List.ext_getElem
    · simp
    · intro k h1 h2; simp
  obtain ⟨h1, h2, _⟩ := foldl_set_spec order.zipIdx (List.replicate order.length 0)
    (by rw [hfst]; exact hnd)
    (by
      intro p hp
      rw [List.length_replicate, hl]
      have : p.1 ∈ order.zipIdx.map (·.1) := List.mem_map_of_mem hp
      rw [hfst] at this
      exact validOrder_lt ho p.1 this)
  apply List.ext_getElem
  · unfold orderDecode; rw [h1, List.length_replicate, inverseOrder_length]
  · intro a ha hb
    rw [inverseOrder_getElem _ _ hb]
    have han : a < n := by rw [inverseOrder_length, hl] at hb; exact hb
    obtain ⟨hi, hspec⟩ := invAt_spec order a (hc a han)
    have hmem : (a, invAt order a) ∈ order.zipIdx := by
      rw [List.mem_zipIdx_iff_getElem?]
      simp [List.getElem?_eq_getElem hi, hspec]
    have := h2 _ hmem
    unfold orderDecode
    rw [List.getElem?_eq_getElem (by rw [h1, List.length_replicate]; rw [inverseOrder_length] at hb; exact hb)] at this
    exact Option.some.inj this

theorem transposeVlen_dec (v : VArr) (sh : Shape) (order : List Nat) (ho : validOrder order sh.length = true)
    (hv : v.valid (prod sh) = true) :
    transposeVlen v (permute sh order) (orderDecode order) = some (VArr.ofElems (transposeDec order sh v.elems)) := by
  obtain ⟨hl, hc⟩ := (validOrder_iff _ _).1 ho
  have hc' : ∀ a, a < order.length → a ∈ order := by rw [hl]; exact hc
  have hlt := validOrder_lt ho
  rw [orderDecode_eq order _ ho]
  have hoi : validOrder (inverseOrder order) (permute sh order).length = true := by
    rw [permute_length, hl]; exact validOrder_inverse order _ ho
  have hp := prod_permute sh order ho
  unfold transposeVlen
  simp only [hoi, Bool.not_true, Bool.false_eq_true, if_false]
  apply gatherVlen_spec (prod sh) v hv
  rw [permute_permute_inv sh order hl.symm hc', inverseOrder_inverseOrder order _ ho]
  simp only [transposeDec, List.map_map]
  apply List.map_congr_left
  intro i hi
  rw [mem_boxIndices] at hi
  have hlt2 : ravel (permute i order) (permute sh order) < v.elems.length := by
    rw [elems_length _ v hv, ← hp]; exact ravel_lt _ _ (inB_permute i sh order hlt hi)
  simp [List.getD_eq_getElem?_getD, List.getElem?_eq_getElem hlt2]

/-! ### `update_bytes_vlen` -/

theorem sumDiffs_some : ∀ (ws : List (Nat × Nat)), (∀ w ∈ ws, w.1 ≤ w.2) →
    sumDiffs ws = some (ws.map (fun w => w.2 - w.1)).sum := by
  intro ws
  induction ws with
  | nil => intro _; rfl
  | cons w ws ih =>
    intro h
    simp only [sumDiffs, h w (by simp), if_true, ih (fun w' hw' => h w' (by simp [hw'])), Option.map_some,
      List.map_cons, List.sum_cons]
    congr 1; omega

/-- offsets of a valid value as a function -/
def offAt (v : VArr) (k : Nat) : Nat := v.offsets.getD k 0

theorem offAt_step (n : Nat) (v : VArr) (h : v.valid n = true) (k : Nat) (hk : k < n) :
    v.offsets[k]? = some (offAt v k) ∧ v.offsets[k + 1]? = some (offAt v (k + 1)) ∧ offAt v k ≤ offAt v (k + 1) ∧
    offAt v (k + 1) ≤ v.data.length := by
  obtain ⟨hlen, _, _⟩ := (valid_iff n v).mp h
  have h1 : k < v.offsets.length := by omega
  have h2 : k + 1 < v.offsets.length := by omega
  have e1 : v.offsets[k]? = some (offAt v k) := by simp [offAt, List.getD_eq_getElem?_getD, List.getElem?_eq_getElem h1]
  have e2 : v.offsets[k + 1]? = some (offAt v (k + 1)) := by
    simp [offAt, List.getD_eq_getElem?_getD, List.getElem?_eq_getElem h2]
  have hg := windows_getElem? v.offsets k
  rw [e1, e2] at hg
  have := windows_ok n v h _ (List.mem_of_getElem? hg)
  exact ⟨e1, e2, this.1, this.2⟩

theorem offAt_mono (n : Nat) (v : VArr) (h : v.valid n = true) : ∀ (j i : Nat), i ≤ j → j ≤ n → offAt v i ≤ offAt v j := by
  intro j
  induction j with
  | zero => intro i hi _; have : i = 0 := by omega
            subst this; exact Nat.le_refl _
  | succ j ih =>
    intro i hi hj
    by_cases he : i = j + 1
    · subst he; exact Nat.le_refl _
    · exact Nat.le_trans (ih i (by omega) (by omega)) (offAt_step n v h j (by omega)).2.2.1

/-- the lengths of distinct elements (increasing indices) add up to at most the last offset -/
theorem sum_sorted_le (n : Nat) (v : VArr) (h : v.valid n = true) : ∀ (K : List Nat), K.Pairwise (· < ·) →
    (∀ k ∈ K, k < n) → ∀ lo, (∀ k ∈ K, lo ≤ k) → lo ≤ n →
    (K.map (fun k => offAt v (k + 1) - offAt v k)).sum + offAt v lo ≤ offAt v n := by
  intro K
  induction K with
  | nil => intro _ _ lo _ hlo; simpa using offAt_mono n v h n lo hlo (Nat.le_refl _)
  | cons k K ih =>
    intro hp hlt lo hlo hln
    rw [List.pairwise_cons] at hp
    have hk := hlt k (by simp)
    have := ih hp.2 (fun k' hk' => hlt k' (by simp [hk'])) (k + 1) (fun k' hk' => hp.1 k' hk') (by omega)
    have h1 := offAt_mono n v h k lo (hlo k (by simp)) (by omega)
    have h2 := (offAt_step n v h k hk).2.2.1
    simp only [List.map_cons, List.sum_cons]
    omega

theorem offAt_last (n : Nat) (v : VArr) (h : v.valid n = true) : offAt v n = v.data.length := by
  obtain ⟨hlen, _, hlast⟩ := (valid_iff n v).mp h
  rw [List.getLast?_eq_getElem?, hlen] at hlast
  simp only [Nat.add_sub_cancel] at hlast
  simp [offAt, List.getD_eq_getElem?_getD, hlast]

/-- positions of the enumeration of a box are the ravelled indices -/
theorem zipIdx_boxIndices (sh : Shape) : ∀ p ∈ (boxIndices sh).zipIdx, inB p.1 sh = true ∧ p.2 = ravel p.1 sh := by
  intro p hp
  rw [List.mem_zipIdx_iff_getElem?] at hp
  have hlt : p.2 < prod sh := by
    have := (List.getElem?_eq_some_iff.mp hp).1
    rwa [boxIndices_length] at this
  rw [boxIndices_getElem?_lt p.2 sh hlt] at hp
  have : unravel p.2 sh = p.1 := Option.some.inj hp
  rw [← this]
  exact ⟨C09.unravel_inB _ _ hlt, (C09.ravel_unravel _ _ hlt).symm⟩

theorem containsZip_eq_mem : ∀ (i o n : List Nat), i.length = o.length → o.length = n.length →
    Subset.containsZip i o n = Subset.mem i o n
  | [], [], [], _, _ => rfl
  | i :: is, o :: os, n :: ns, h1, h2 => by
    simp only [Subset.containsZip, Subset.mem]
    rw [containsZip_eq_mem is os ns (by simpa using h1) (by simpa using h2)]
  | [], _ :: _, _, h1, _ => by simp at h1
  | _ :: _, [], _, h1, _ => by simp at h1
  | _ :: _, _ :: _, [], _, h2 => by simp at h2
  | [], [], _ :: _, _, h2 => by simp at h2

theorem updateBytesVlen_spec (v : VArr) (sh : Shape) (u : VArr) (r : Subset) (hr : r.wf = true)
    (hb : r.inboundsShape sh = true) (hv : v.valid (prod sh) = true) (hu : u.valid r.numElements = true) :
    updateBytesVlen v sh u r = some (VArr.ofElems (updateRuns sh r v.elems u.elems)) := by
  have hrw := hr
  simp only [Subset.wf, beq_iff_eq] at hrw
  have hbb := hb
  simp only [Subset.inboundsShape, Subset.rank, Subset.endExc, Bool.and_eq_true, beq_iff_eq] at hbb
  have hinb : ∀ i, r.contains i = true → inB i sh = true :=
    fun i hi => inB_of_allLe_end i _ _ sh hbb.1 hbb.2 hi
  -- the capacity computations succeed
  have hnew := sumDiffs_some (windows u.offsets) (fun w hw => (windows_ok _ u hu w hw).1)
  have hK : ∀ k ∈ r.linearised sh, k < prod sh := by
    intro k hk
    rw [C09.linearised_eq r sh hr] at hk
    obtain ⟨i, hi, rfl⟩ := List.mem_map.mp hk
    rw [r.mem_indices hr] at hi
    exact ravel_lt i sh (hinb i hi)
  have hold1 : (r.linearised sh).mapM (offPair? v) =
      some ((r.linearised sh).map (fun k => (offAt v k, offAt v (k + 1)))) := by
    apply mapM_some_of_forall
    intro k hk
    obtain ⟨e1, e2, _, _⟩ := offAt_step _ v hv k (hK k hk)
    unfold offPair?
    rw [e1, e2]
  have hold2 := sumDiffs_some ((r.linearised sh).map (fun k => (offAt v k, offAt v (k + 1)))) (by
    intro w hw
    obtain ⟨k, hk, rfl⟩ := List.mem_map.mp hw
    exact (offAt_step _ v hv k (hK k hk)).2.2.1)
  have hle : (((r.linearised sh).map (fun k => (offAt v k, offAt v (k + 1)))).map (fun w => w.2 - w.1)).sum ≤
      v.data.length := by
    have := sum_sorted_le _ v hv (r.linearised sh) (C09.linearised_sorted r sh hr hb) hK 0 (fun _ _ => Nat.zero_le _)
      (Nat.zero_le _)
    rw [offAt_last _ v hv] at this
    simp only [List.map_map, Function.comp_def]
    omega
  unfold updateBytesVlen
  simp only [hb, Bool.not_true, Bool.false_eq_true, if_false, hnew, hold1, Option.bind_some, hold2]
  rw [if_neg (by omega)]
  -- the loop
  obtain ⟨hl, _⟩ := updateRuns_spec sh r v.elems u.elems hr hb (elems_length _ v hv) (elems_length _ u hu)
  have hsc := updateRuns_scatter sh r v.elems u.elems hr hb (elems_length _ v hv) (elems_length _ u hu)
  have hfst : (boxIndices sh).zipIdx.map (·.1) = boxIndices sh := by
    apply List.ext_getElem
    · simp
    · intro k h1 h2; simp
  rw [mapM_congr_mem _ (fun p : Idx × Nat =>
      if r.contains p.1 then u.elems[ravel (Subset.zipSub p.1 r.start) r.shape]? else v.elems[ravel p.1 sh]?)
    (boxIndices sh).zipIdx (by
      intro p hp
      obtain ⟨hin, hrv⟩ := zipIdx_boxIndices sh p hp
      have hlen := inB_length hin
      rw [containsZip_eq_mem p.1 r.start r.shape (by rw [hlen, hbb.1]) hrw]
      show (if r.contains p.1 = true then _ else _) = _
      rw [elemAt?_eq _ u hu, elemAt?_eq _ v hv, hrv])]
  rw [mapM_of_map_some _ _ (updateRuns sh r v.elems u.elems) (by
    rw [hsc, scatter]
    conv => rhs; rw [← hfst, List.map_map]
    rfl)]
  simp [build_eq]

end Zarrs.VlenArr
