import ZarrsModel.Lemmas.ShardPDAsync2
import ZarrsModel.Lemmas.ShardPDMain
set_option Elab.async false
/- helper lemmas for C07 (async sharding partial decoder), part 3: the async decoder of a whole (nested) chain,
`ChainS.asyncPartialDecoder`: the induction of `chainS_ok` (Lemmas/ShardPDMain.lean) with `asyncShardPD_ok'` in the
place of `shardPD_ok'` at every sharding level, the inner decoder being the inner chain's ASYNC decoder -/
namespace Zarrs.Partial
open Zarrs Zarrs.Codec Zarrs.Subset

theorem asyncShardPD_cfg (cfg : Shard.Cfg) (n : Nat) (validate : Bool) (shard inner : Shape) (es : Nat) (fill : Elem)
    (fixed : Option Nat) (innerPD : Shape → Elem → BHandle → AHandle) (h : BHandle) :
    asyncShardPD { cfg with nChunks := n } validate shard inner es fill fixed innerPD h =
      asyncShardPD cfg validate shard inner es fill fixed innerPD h := by
  unfold asyncShardPD
  rw [shardIndexPD_cfg]

theorem asyncShardPD_absent_ok' (cfg : Shard.Cfg) (validate : Bool) (shard inner : Shape) (es : Nat) (fill : Elem)
    (fixed : Option Nat) (innerPD : Shape → Elem → BHandle → AHandle) (h : BHandle)
    (ht : tiles inner shard = true) (hh : BHandleAbsent h) :
    AHandleOk (asyncShardPD cfg validate shard inner es fill fixed innerPD h) shard
      (List.replicate (prod shard) fill) := by
  intro rs hrs
  rw [asyncShardPD_absent' cfg validate shard inner es fill fixed innerPD h ht hh rs (by
    intro r hr
    obtain ⟨h1, h2⟩ := hrs r hr
    simp only [Subset.inboundsShape, Bool.and_eq_true, beq_iff_eq] at h2
    exact ⟨h1, h2.1⟩)]
  congr 1
  apply List.map_congr_left
  intro r hr
  exact (extract_replicate r shard fill (hrs r hr).1 (hrs r hr).2).symm

/-- **the ASYNC decoder of a chain with (nested) sharding codecs**: on any handle serving the chain's encoding of a
chunk, the chain's async partial decoder serves the chunk (twin of `chainS_ok`; same hypotheses) -/
theorem chainS_async_ok : ∀ (c : ChainS) (sh : Shape) (fill : Elem) (xs : List Elem),
    c.okWith aOk BLaw sh fill → xs.length = prod sh → (∀ x ∈ xs, x.length = c.es) → c.fits sh fill xs →
    ∀ g : BHandle, BHandleOk g (c.encode sh fill xs) → AHandleOk (c.asyncPartialDecoder sh fill g) sh xs := by
  intro c
  induction c with
  | leaf c keep =>
    intro sh fill xs hok hxl hxe _ g hg
    exact chain_ok_handle c sh fill xs hok.1 hok.2.1 hok.2.2.1 hxl hxe hok.2.2.2.1 hok.2.2.2.2.1 g hg
  | shard a2a cfg ish es inner b2b ih =>
    intro sh fill xs hok hxl hxe hfits g hg
    obtain ⟨ha, ht, hB, hfl, hies, hiok⟩ := hok
    simp only [ChainS.es] at hxe
    obtain ⟨hyl, hye⟩ := aEnc_chunk es a2a sh xs ha hxl hxe
    simp only [ChainS.fits, encodeA2A_eq] at hfits
    obtain ⟨hfp, hsmall⟩ := hfits
    simp only [ChainS.encode, encodeA2A_eq] at hg
    simp only [ChainS.asyncPartialDecoder, stackA2A_eq]
    apply aChain_ok a2a sh xs _ ha hxl
    -- the handle below the sharding codec serves the encoded shard
    have hhb := bChain_ok b2b hB _ g hg
    generalize hys : aEnc a2a sh xs = ys at *
    generalize hsh : shapesOf a2a sh = sh' at *
    have hclen : (shardChunks (inner.encode ish fill) fill sh' ish ys).length = prod (zipDiv sh' ish) := by
      simp [shardChunks, splitShard_length]
    have hlegal := Shard.shard_legal { cfg with nChunks := prod (zipDiv sh' ish) } _ hclen (by
      rw [Shard.dataOf_length, ← Shard.shard_length _ _ hclen]; exact hsmall)
    rw [← assemble_split ht ys hyl, ← asyncShardPD_cfg cfg (prod (zipDiv sh' ish))]
    apply asyncShardPD_ok' _ true sh' ish es fill (inner.fixedSize ish) _
      (fun xs b => b = inner.encode ish fill xs ∧ inner.fits ish fill xs ∧ xs.length = prod ish ∧ ∀ x ∈ xs, x.length = es)
      _ _ _ (splitShard sh' ish ys) ht rfl hfl hhb hlegal (splitShard_length sh' ish ys)
    · intro i h1 h2
      have hpm : (splitShard sh' ish ys)[i] ∈ splitShard sh' ish ys := List.getElem_mem h2
      obtain ⟨hpl, hpe⟩ := splitShard_piece ht ys hyl _ hpm
      have hpe' : ∀ x ∈ (splitShard sh' ish ys)[i], x.length = es := fun x hx => hye x (hpe x hx)
      simp only [shardChunks, List.getElem_map]
      split
      · rename_i b heq
        split at heq
        · cases heq
        · simp only [Option.some.injEq] at heq
          exact ⟨⟨heq.symm, hfp _ hpm, hpl, hpe'⟩, hpl, hpe'⟩
      · rename_i heq
        split at heq
        · rename_i hall
          exact all_fill_replicate fill _ _ hpl hall
        · cases heq
    · intro g' b xs' ⟨hb, hf, hl, he⟩ hg'
      subst hb
      exact ih ish fill xs' hiok hl (by rw [hies]; exact he) hf g' hg'
    · intro n hn xs' b ⟨hb, _, hl, he⟩
      subst hb
      exact chainS_encode_length inner ish fill xs' n hiok hl (by rw [hies]; exact he) hn

/-- … and an absent value reads as fill (twin of `chainS_absent`) -/
theorem chainS_async_absent : ∀ (c : ChainS) (sh : Shape) (fill : Elem), c.okWith aOk BLaw sh fill →
    ∀ g : BHandle, BHandleAbsent g →
      AHandleOk (c.asyncPartialDecoder sh fill g) sh (List.replicate (prod sh) fill) := by
  intro c
  cases c with
  | leaf c keep =>
    intro sh fill hok g hg
    exact chain_absent_handle c sh fill hok.2.2.2.1 g hg
  | shard a2a cfg ish es inner b2b =>
    intro sh fill hok g hg
    obtain ⟨ha, ht, _, _, _, _⟩ := hok
    simp only [ChainS.asyncPartialDecoder, stackA2A_eq]
    apply aChain_ok a2a sh _ _ ha (by simp)
    rw [aEnc_fill fill a2a sh ha]
    exact asyncShardPD_absent_ok' cfg true _ ish es fill _ _ _ ht (bChain_absent b2b g hg)

end Zarrs.Partial
