import ZarrsModel.Model.Conform
import ZarrsModel.Lemmas.CodecBasic
import ZarrsModel.Lemmas.CodecTranspose
/- helper lemmas for C12, part 1: bytes-to-bytes chains, element (de)serialisation, transposes,
   `assemble`/`subBox`, `Option.mapM`, `Store.get` on written stores -/
namespace Zarrs.Conform
open Zarrs Zarrs.Codec Zarrs.Inflate

/-- the bytes-to-bytes containers of a layout read back (derived from `DeflateOk` in Props/C12) -/
def GzOk (l : Layout) : Prop :=
  (∀ b : Bytes, (∀ x ∈ b, x < 256) → gunzip (gzipWith (deflateOf l) l.gzipExtra b) = some b) ∧
  (∀ b : Bytes, (∀ x ∈ b, x < 256) → ∀ x ∈ gzipWith (deflateOf l) l.gzipExtra b, x < 256)

/-! ### bytes to bytes -/

theorem codec_le32_wf (n : Nat) : ∀ x ∈ Codec.le32 n, x < 256 := by
  intro x hx
  simp only [Codec.le32, List.mem_cons, List.not_mem_nil, or_false] at hx
  omega

theorem b2bDec1_enc1 (l : Layout) (hg : GzOk l) (c : B2BK) (b : Bytes) (hb : ∀ x ∈ b, x < 256) :
    b2bDec1 c (b2bEnc1 l c b) = some b ∧ ∀ x ∈ b2bEnc1 l c b, x < 256 := by
  cases c with
  | gzip => exact ⟨hg.1 b hb, hg.2 b hb⟩
  | crc32c =>
    refine ⟨?_, ?_⟩
    · have hlen : (b ++ Codec.le32 (crc32c b)).length = b.length + 4 := by simp [Codec.le32]
      simp only [b2bDec1, b2bEnc1, hlen]
      rw [if_neg (by omega)]
      simp only [Nat.add_sub_cancel, List.take_left', List.drop_left', beq_self_eq_true, if_true]
    · intro x hx
      simp only [b2bEnc1, List.mem_append] at hx
      rcases hx with hx | hx
      · exact hb x hx
      · exact codec_le32_wf _ x hx

theorem b2bEnc_cons (l : Layout) (c : B2BK) (cs : List B2BK) (b : Bytes) :
    b2bEnc l (c :: cs) b = b2bEnc l cs (b2bEnc1 l c b) := rfl

theorem b2bDec_cons (c : B2BK) (cs : List B2BK) (v : Bytes) :
    b2bDec (c :: cs) v = (b2bDec cs v).bind (b2bDec1 c) := by
  simp [b2bDec, List.foldl_append]

theorem b2b_roundtrip' (l : Layout) (hg : GzOk l) (cs : List B2BK) : ∀ (b : Bytes), (∀ x ∈ b, x < 256) →
    b2bDec cs (b2bEnc l cs b) = some b ∧ ∀ x ∈ b2bEnc l cs b, x < 256 := by
  induction cs with
  | nil => intro b hb; exact ⟨rfl, hb⟩
  | cons c cs ih =>
    intro b hb
    obtain ⟨h1, h2⟩ := b2bDec1_enc1 l hg c b hb
    obtain ⟨h3, h4⟩ := ih _ h2
    rw [b2bEnc_cons, b2bDec_cons, h3]
    exact ⟨h1, h4⟩

/-! ### elements -/

theorem flatten_wf : ∀ (xs : List Bytes), (∀ x ∈ xs, ∀ y ∈ x, y < 256) → ∀ y ∈ xs.flatten, y < 256 := by
  intro xs h y hy
  rw [List.mem_flatten] at hy
  obtain ⟨x, hx, hyx⟩ := hy
  exact h x hx y hyx

theorem bytesEncElems_wf (big : Bool) (xs : List Elem) (h : ∀ x ∈ xs, ∀ y ∈ x, y < 256) :
    ∀ y ∈ bytesEncElems big xs, y < 256 := by
  unfold bytesEncElems
  apply flatten_wf
  cases big with
  | false => exact h
  | true =>
    intro x hx y hy
    simp only [if_true, List.mem_map] at hx
    obtain ⟨x', hx', rfl⟩ := hx
    exact h x' hx' y (List.mem_reverse.1 hy)

theorem bytesDecElems_enc (big : Bool) (es : Nat) (hes : 0 < es) (xs : List Elem) (h : ∀ x ∈ xs, x.length = es) :
    bytesDecElems big es (bytesEncElems big xs) = some xs := by
  have key : ∀ (gs : List Elem), (∀ g ∈ gs, g.length = es) → splitElems es gs.flatten = some gs := by
    intro gs hg
    unfold splitElems
    have hl := flatten_length_of_all es gs hg
    rw [if_neg (by simp [hl]; omega)]
    rw [chunksOf_of_flatten es hes gs _ hg (by omega)]
  unfold bytesDecElems bytesEncElems
  cases big with
  | false => simp [key xs h]
  | true =>
    simp only [if_true]
    rw [key (xs.map List.reverse) (by
      intro g hg
      rw [List.mem_map] at hg
      obtain ⟨x, hx, rfl⟩ := hg
      simp [h x hx])]
    simp [List.map_map, Function.comp_def]

theorem bytesEncElems_length (big : Bool) (es : Nat) (xs : List Elem) (h : ∀ x ∈ xs, x.length = es) :
    (bytesEncElems big xs).length = xs.length * es := by
  unfold bytesEncElems
  cases big with
  | false => exact flatten_length_of_all es xs h
  | true =>
    simp only [if_true]
    rw [flatten_length_of_all es (xs.map List.reverse) (by
      intro g hg
      rw [List.mem_map] at hg
      obtain ⟨x, hx, rfl⟩ := hg
      simp [h x hx])]
    simp

/-! ### transposes -/

theorem transposeEnc_mem {order : List Nat} {shape : Shape} {xs : List Elem}
    (ho : validOrder order shape.length = true) (hx : xs.length = prod shape) :
    ∀ y ∈ transposeEnc order shape xs, y ∈ xs := by
  obtain ⟨hl, hc⟩ := (validOrder_iff _ _).1 ho
  have hc' : ∀ a, a < order.length → a ∈ order := by rw [hl]; exact hc
  intro y hy
  simp only [transposeEnc, List.mem_map] at hy
  obtain ⟨j, hj, rfl⟩ := hy
  rw [mem_boxIndices] at hj
  have h1 := ravel_lt _ _ (inB_permute_inv j shape order hl hc' hj)
  rw [← hx] at h1
  rw [List.getD_eq_getElem?_getD, List.getElem?_eq_getElem h1]
  exact List.getElem_mem h1

theorem shapesThrough_ne_nil (s0 : Shape) (ts : List (List Nat)) : shapesThrough s0 ts ≠ [] := by
  cases ts <;> simp [shapesThrough]

theorem getLastD_of_ne_nil {α} : ∀ (l : List α) (a b : α), l ≠ [] → l.getLastD a = l.getLastD b
  | [], _, _, h => absurd rfl h
  | _ :: _, _, _, _ => by simp [List.getLastD]

theorem encodedShape_nil (s0 : Shape) : encodedShape s0 [] = s0 := rfl

theorem encodedShape_cons (s0 : Shape) (o : List Nat) (os : List (List Nat)) :
    encodedShape s0 (o :: os) = encodedShape (permute s0 o) os := by
  unfold encodedShape
  simp only [shapesThrough]
  have hne := shapesThrough_ne_nil (permute s0 o) os
  cases hs : shapesThrough (permute s0 o) os with
  | nil => exact absurd hs hne
  | cons a r => simp [List.getLastD]

theorem dotranspose_cons (s0 : Shape) (o : List Nat) (os : List (List Nat)) (xs : List Elem) :
    dotranspose s0 (o :: os) xs = dotranspose (permute s0 o) os (transposeEnc o s0 xs) := by
  simp [dotranspose, shapesThrough]

theorem untranspose_cons (s0 : Shape) (o : List Nat) (os : List (List Nat)) (ys : List Elem) :
    untranspose s0 (o :: os) ys = transposeDec o s0 (untranspose (permute s0 o) os ys) := by
  simp [untranspose, shapesThrough, List.foldl_append]

/-- all transposes undone; sizes and element membership preserved -/
theorem untranspose_dotranspose (ts : List (List Nat)) : ∀ (s0 : Shape) (xs : List Elem),
    (∀ o ∈ ts, validOrder o s0.length = true) → xs.length = prod s0 →
    untranspose s0 ts (dotranspose s0 ts xs) = xs ∧
    (dotranspose s0 ts xs).length = prod (encodedShape s0 ts) ∧
    prod (encodedShape s0 ts) = prod s0 ∧ (encodedShape s0 ts).length = s0.length ∧
    (∀ y ∈ dotranspose s0 ts xs, y ∈ xs) := by
  induction ts with
  | nil =>
    intro s0 xs _ hx
    exact ⟨rfl, hx, rfl, rfl, fun y hy => hy⟩
  | cons o os ih =>
    intro s0 xs ho hx
    have ho1 : validOrder o s0.length = true := ho o (by simp)
    obtain ⟨h1, h2, h3, _⟩ := transpose_dec_enc' o s0 xs ho1 hx
    have hlen : (permute s0 o).length = s0.length := by
      rw [permute_length]; exact ((validOrder_iff _ _).1 ho1).1
    obtain ⟨i1, i2, i3, i4, i5⟩ := ih (permute s0 o) (transposeEnc o s0 xs)
      (fun o' ho' => by rw [hlen]; exact ho o' (by simp [ho'])) h2
    rw [dotranspose_cons, untranspose_cons, encodedShape_cons, i1, h1]
    refine ⟨rfl, i2, i3.trans h3, i4.trans hlen, ?_⟩
    intro y hy
    exact transposeEnc_mem ho1 hx y (i5 y hy)

/-- a list all of whose elements equal `f` -/
theorem eq_replicate_of_all (f : Elem) : ∀ (l : List Elem), l.all (· == f) = true → l = List.replicate l.length f := by
  intro l h
  rw [List.all_eq_true] at h
  exact List.eq_replicate_iff.2 ⟨rfl, fun b hb => by simpa using h b hb⟩

/-! ### inner chunks -/

theorem innerDec_enc (l : Layout) (hg : GzOk l) (es : Nat) (hes : 0 < es) (shape : Shape) (c : Inner)
    (ho : ∀ o ∈ c.transposes, validOrder o shape.length = true) (xs : List Elem) (hx : xs.length = prod shape)
    (hxe : ∀ x ∈ xs, x.length = es ∧ ∀ y ∈ x, y < 256) :
    innerDec es shape c (innerEnc l shape c xs) = some xs ∧ ∀ y ∈ innerEnc l shape c xs, y < 256 := by
  obtain ⟨t1, t2, t3, _, t5⟩ := untranspose_dotranspose c.transposes shape xs ho hx
  have hye : ∀ x ∈ dotranspose shape c.transposes xs, x.length = es ∧ ∀ y ∈ x, y < 256 :=
    fun x hx' => hxe x (t5 x hx')
  have hwf := bytesEncElems_wf c.big _ (fun x hx' => (hye x hx').2)
  obtain ⟨b1, b2⟩ := b2b_roundtrip' l hg c.b2b _ hwf
  refine ⟨?_, b2⟩
  unfold innerDec innerEnc
  rw [b1]
  simp only [Option.bind_some]
  rw [bytesDecElems_enc c.big es hes _ (fun x hx' => (hye x hx').1)]
  simp only [t2, t3, beq_self_eq_true, if_true, t1]

/-! ### `Option.mapM` -/

theorem mapM_some_of_forall {α β} (g : α → Option β) (h : α → β) : ∀ (l : List α),
    (∀ x ∈ l, g x = some (h x)) → l.mapM g = some (l.map h)
  | [], _ => rfl
  | a :: l, hall => by
    rw [List.mapM_cons, hall a (by simp), mapM_some_of_forall g h l (fun x hx => hall x (by simp [hx]))]
    rfl

/-! ### grids, `assemble` and `subBox` -/

theorem div_lt_ceilDiv {j n s : Nat} (hs : 0 < s) (h : j < n) : j / s < ceilDiv n s := by
  unfold ceilDiv
  rw [Nat.div_lt_iff_lt_mul hs]
  have h1 := Nat.div_add_mod (n + s - 1) s
  have h2 := Nat.mod_lt (n + s - 1) hs
  rw [Nat.mul_comm]
  generalize (n + s - 1) / s = q at *
  generalize (n + s - 1) % s = r at *
  omega

theorem div_inB : ∀ (j shape sub : List Nat), sub.length = shape.length → (∀ d ∈ sub, 0 < d) → inB j shape = true →
    inB (List.zipWith (· / ·) j sub) (gridOf shape sub) = true
  | [], [], [], _, _, _ => rfl
  | [], [], _ :: _, hl, _, _ => by simp at hl
  | [], _ :: _, _, _, _, h => by simp [inB] at h
  | _ :: _, [], _, _, _, h => by simp [inB] at h
  | _ :: _, _ :: _, [], hl, _, _ => by simp at hl
  | a :: j, n :: shape, s :: sub, hl, hp, h => by
    simp only [inB, Bool.and_eq_true, decide_eq_true_eq] at h
    simp only [gridOf, List.zipWith_cons_cons, inB, Bool.and_eq_true, decide_eq_true_eq]
    exact ⟨div_lt_ceilDiv (hp s (by simp)) h.1,
      div_inB j shape sub (by simpa using hl) (fun d hd => hp d (by simp [hd])) h.2⟩

theorem mod_inB : ∀ (j shape sub : List Nat), sub.length = shape.length → (∀ d ∈ sub, 0 < d) → inB j shape = true →
    inB (List.zipWith (· % ·) j sub) sub = true
  | [], [], [], _, _, _ => rfl
  | [], [], _ :: _, hl, _, _ => by simp at hl
  | [], _ :: _, _, _, _, h => by simp [inB] at h
  | _ :: _, [], _, _, _, h => by simp [inB] at h
  | _ :: _, _ :: _, [], hl, _, _ => by simp at hl
  | a :: j, n :: shape, s :: sub, hl, hp, h => by
    simp only [inB, Bool.and_eq_true, decide_eq_true_eq] at h
    simp only [List.zipWith_cons_cons, inB, Bool.and_eq_true, decide_eq_true_eq]
    exact ⟨Nat.mod_lt _ (hp s (by simp)),
      mod_inB j shape sub (by simpa using hl) (fun d hd => hp d (by simp [hd])) h.2⟩

theorem div_mod_recombine : ∀ (j shape sub : List Nat), sub.length = shape.length → inB j shape = true →
    List.zipWith (fun (cw : Nat × Nat) s => cw.1 * s + cw.2)
      ((List.zipWith (· / ·) j sub).zip (List.zipWith (· % ·) j sub)) sub = j
  | [], [], [], _, _ => rfl
  | [], [], _ :: _, hl, _ => by simp at hl
  | [], _ :: _, _, _, h => by simp [inB] at h
  | _ :: _, [], _, _, h => by simp [inB] at h
  | _ :: _, _ :: _, [], hl, _ => by simp at hl
  | a :: j, n :: shape, s :: sub, hl, h => by
    simp only [inB, Bool.and_eq_true, decide_eq_true_eq] at h
    simp only [List.zipWith_cons_cons, List.zip_cons_cons, List.cons.injEq]
    refine ⟨?_, div_mod_recombine j shape sub (by simpa using hl) h.2⟩
    rw [Nat.mul_comm]
    exact Nat.div_add_mod a s

theorem subBox_length (shape sub : Shape) (xs : List Elem) (c : Idx) (fill : Elem) :
    (subBox shape sub xs c fill).length = prod sub := by
  simp [subBox, boxIndices_length]

theorem subBox_mem (shape sub : Shape) (xs : List Elem) (c : Idx) (fill : Elem) :
    ∀ y ∈ subBox shape sub xs c fill, y ∈ xs ∨ y = fill := by
  intro y hy
  simp only [subBox, List.mem_map] at hy
  obtain ⟨w, _, rfl⟩ := hy
  split
  · rw [List.getD_eq_getElem?_getD]
    cases hq : xs[ravel (List.zipWith (fun (cw : Nat × Nat) s => cw.1 * s + cw.2) (c.zip w) sub) shape]? with
    | none => right; rfl
    | some v => left; exact List.mem_of_getElem? hq
  · right; rfl

theorem subBox_getD (shape sub : Shape) (xs : List Elem) (c w : Idx) (fill : Elem) (hw : inB w sub = true) :
    (subBox shape sub xs c fill).getD (ravel w sub) fill =
      (let i := List.zipWith (fun (cw : Nat × Nat) s => cw.1 * s + cw.2) (c.zip w) sub
       if inB i shape then xs.getD (ravel i shape) fill else fill) := by
  simp only [subBox, List.getD_eq_getElem?_getD, List.getElem?_map, boxIndices_getElem?_ravel w sub hw,
    Option.map_some, Option.getD_some]

/-- the parts of a box, listed in C order of the grid, assemble to the box -/
theorem assemble_eq (shape sub : Shape) (hl : sub.length = shape.length) (hpos : ∀ d ∈ sub, 0 < d)
    (xs : List Elem) (hx : xs.length = prod shape) (fill : Elem) (parts : List (List Elem))
    (hp : ∀ c, inB c (gridOf shape sub) = true →
      parts.getD (ravel c (gridOf shape sub)) [] = subBox shape sub xs c fill) :
    assemble shape sub parts fill = xs := by
  apply list_ext_box shape _ _ (by simp [assemble, boxIndices_length]) hx
  intro j hj
  have hc := div_inB j shape sub hl hpos hj
  have hw := mod_inB j shape sub hl hpos hj
  have hr := div_mod_recombine j shape sub hl hj
  have hlt : ravel j shape < xs.length := by rw [hx]; exact ravel_lt j shape hj
  simp only [assemble, List.getElem?_map, boxIndices_getElem?_ravel j shape hj, Option.map_some]
  rw [hp _ hc, subBox_getD _ _ _ _ _ _ hw]
  simp only [hr, hj, if_true]
  rw [List.getD_eq_getElem?_getD, List.getElem?_eq_getElem hlt]
  rfl

/-- the parts as a `map` over the grid -/
theorem map_getD_ravel {β} (grid : Shape) (f : Idx → β) (d : β) (c : Idx) (hc : inB c grid = true) :
    ((boxIndices grid).map f).getD (ravel c grid) d = f c := by
  simp only [List.getD_eq_getElem?_getD, List.getElem?_map, boxIndices_getElem?_ravel c grid hc, Option.map_some,
    Option.getD_some]

theorem assemble_subBox (shape sub : Shape) (hl : sub.length = shape.length) (hpos : ∀ d ∈ sub, 0 < d)
    (xs : List Elem) (hx : xs.length = prod shape) (fill : Elem) :
    assemble shape sub ((boxIndices (gridOf shape sub)).map (fun c => subBox shape sub xs c fill)) fill = xs :=
  assemble_eq shape sub hl hpos xs hx fill _ (fun c hc => map_getD_ravel _ _ _ c hc)

/-! ### stores -/

theorem get_filterMap {α} (key : α → List Char) (p : α → Bool) (val : α → Bytes) : ∀ (l : List α) (c : α),
    (∀ a ∈ l, key a = key c → a = c) → c ∈ l →
    Store.get (l.filterMap (fun a => if p a then none else some (key a, val a))) (key c) =
      if p c then none else some (val c)
  | [], c, _, hc => by simp at hc
  | a :: l, c, hinj, hc => by
    by_cases hac : a = c
    · subst hac
      by_cases hp : p a = true
      · simp only [List.filterMap_cons, hp, if_true]
        by_cases hcl : a ∈ l
        · have := get_filterMap key p val l a (fun b hb => hinj b (by simp [hb])) hcl
          rw [this, hp]; rfl
        · have : ∀ (l' : List α), (∀ b ∈ l', b ∈ l) →
              Store.get (l'.filterMap (fun a => if p a then none else some (key a, val a))) (key a) = none := by
            intro l'
            induction l' with
            | nil => intro _; rfl
            | cons b l' ih =>
              intro hsub
              have hb : b ∈ l := hsub b (by simp)
              have hne : b ≠ a := fun h => hcl (h ▸ hb)
              have hk : key b ≠ key a := fun h => hne (hinj b (by simp [hb]) h)
              have ih' := ih (fun b' hb' => hsub b' (by simp [hb']))
              simp only [List.filterMap_cons]
              split
              · exact ih'
              · rename_i heq
                split at heq
                · cases heq
                · cases heq
                  simp only [Store.get, List.find?_cons] at ih' ⊢
                  rw [show ((key b) == key a) = false from by simpa using hk]
                  exact ih'
          rw [this l (fun b hb => hb)]
      · simp only [List.filterMap_cons, hp, Bool.false_eq_true, if_false]
        simp [Store.get]
    · have hcl : c ∈ l := by
        rcases List.mem_cons.1 hc with h | h
        · exact absurd h.symm hac
        · exact h
      have hk : key a ≠ key c := fun h => hac (hinj a (by simp) h)
      have ih := get_filterMap key p val l c (fun b hb => hinj b (by simp [hb])) hcl
      simp only [List.filterMap_cons]
      split
      · exact ih
      · rename_i heq
        split at heq
        · cases heq
        · cases heq
          simp only [Store.get, List.find?_cons] at ih ⊢
          rw [show ((key a) == key c) = false from by simpa using hk]
          exact ih

end Zarrs.Conform
