import ZarrsModel.Model.Conform
/- helper lemmas for C12 -/
