import ZarrsModel.Model.Consolidated
import ZarrsModel.Lemmas.Meta
/- helper lemmas for C13 (consolidated metadata): the sorted map `insertKV` / `sortKVs` -/
set_option Elab.async false
namespace Zarrs.Cons
open Zarrs Zarrs.Json Zarrs.Meta

variable {β : Type}

theorem insertKV_cons_eq (k : Str) (v v' : β) (rest) : insertKV k v ((k, v') :: rest) = (k, v) :: rest := by
  simp [insertKV]
theorem insertKV_cons_lt (k k' : Str) (v v' : β) (rest) (h1 : k ≠ k') (h2 : strLt k k' = true) :
    insertKV k v ((k', v') :: rest) = (k, v) :: (k', v') :: rest := by
  simp [insertKV, h1, h2]
theorem insertKV_cons_gt (k k' : Str) (v v' : β) (rest) (h1 : k ≠ k') (h2 : strLt k k' = false) :
    insertKV k v ((k', v') :: rest) = (k', v') :: insertKV k v rest := by
  simp [insertKV, h1, h2]

theorem mem_insertKV_sub (k : Str) (v : β) (l : List (Str × β)) (x : Str × β)
    (h : x ∈ insertKV k v l) : x = (k, v) ∨ x ∈ l := by
  induction l with
  | nil => simp [insertKV] at h; exact Or.inl h
  | cons y ys ih =>
    obtain ⟨k', v'⟩ := y
    by_cases h1 : k = k'
    · subst h1; rw [insertKV_cons_eq] at h
      rcases List.mem_cons.1 h with h | h
      · exact Or.inl h
      · exact Or.inr (List.mem_cons_of_mem _ h)
    · cases h2 : strLt k k' with
      | true =>
        rw [insertKV_cons_lt _ _ _ _ _ h1 h2] at h
        rcases List.mem_cons.1 h with h | h
        · exact Or.inl h
        · exact Or.inr h
      | false =>
        rw [insertKV_cons_gt _ _ _ _ _ h1 h2] at h
        rcases List.mem_cons.1 h with h | h
        · exact Or.inr (h ▸ List.mem_cons_self ..)
        · rcases ih h with h | h
          · exact Or.inl h
          · exact Or.inr (List.mem_cons_of_mem _ h)

theorem mem_insertKV_self (k : Str) (v : β) (l : List (Str × β)) : (k, v) ∈ insertKV k v l := by
  induction l with
  | nil => simp [insertKV]
  | cons y ys ih =>
    obtain ⟨k', v'⟩ := y
    by_cases h1 : k = k'
    · subst h1; rw [insertKV_cons_eq]; exact List.mem_cons_self ..
    · cases h2 : strLt k k' with
      | true => rw [insertKV_cons_lt _ _ _ _ _ h1 h2]; exact List.mem_cons_self ..
      | false => rw [insertKV_cons_gt _ _ _ _ _ h1 h2]; exact List.mem_cons_of_mem _ ih

theorem mem_insertKV_of_mem (k : Str) (v : β) (l : List (Str × β)) (x : Str × β)
    (h : x ∈ l) (hne : x.1 ≠ k) : x ∈ insertKV k v l := by
  induction l with
  | nil => simp at h
  | cons y ys ih =>
    obtain ⟨k', v'⟩ := y
    by_cases h1 : k = k'
    · subst h1; rw [insertKV_cons_eq]
      rcases List.mem_cons.1 h with h | h
      · subst h; exact absurd rfl hne
      · exact List.mem_cons_of_mem _ h
    · cases h2 : strLt k k' with
      | true => rw [insertKV_cons_lt _ _ _ _ _ h1 h2]; exact List.mem_cons_of_mem _ h
      | false =>
        rw [insertKV_cons_gt _ _ _ _ _ h1 h2]
        rcases List.mem_cons.1 h with h | h
        · subst h; exact List.mem_cons_self ..
        · exact List.mem_cons_of_mem _ (ih h)

theorem insertKV_sorted (k : Str) (v : β) (l : List (Str × β)) (hs : sortedKeys l) :
    sortedKeys (insertKV k v l) := by
  induction l with
  | nil => simp [insertKV, sortedKeys]
  | cons y ys ih =>
    obtain ⟨k', v'⟩ := y
    unfold sortedKeys at hs ih ⊢
    rw [List.map_cons, List.pairwise_cons] at hs
    by_cases h1 : k = k'
    · subst h1; rw [insertKV_cons_eq]; exact List.pairwise_cons.2 hs
    · cases h2 : strLt k k' with
      | true =>
        rw [insertKV_cons_lt _ _ _ _ _ h1 h2]
        refine List.pairwise_cons.2 ⟨?_, List.pairwise_cons.2 hs⟩
        intro z hz
        rcases List.mem_cons.1 hz with rfl | hz
        · exact h2
        · exact strLt_trans _ _ _ h2 (hs.1 z hz)
      | false =>
        rw [insertKV_cons_gt _ _ _ _ _ h1 h2]
        refine List.pairwise_cons.2 ⟨?_, ih hs.2⟩
        intro z hz
        obtain ⟨x, hx, rfl⟩ := List.mem_map.1 hz
        rcases mem_insertKV_sub _ _ _ _ hx with rfl | hx
        · exact strLt_total _ _ h1 h2
        · exact hs.1 _ (List.mem_map_of_mem hx)

/-- inserting a key above all present keys appends -/
theorem insertKV_last (k : Str) (v : β) (l : List (Str × β))
    (h : ∀ x ∈ l, strLt x.1 k = true) : insertKV k v l = l ++ [(k, v)] := by
  induction l with
  | nil => rfl
  | cons y ys ih =>
    obtain ⟨k', v'⟩ := y
    have hk := h (k', v') (List.mem_cons_self ..)
    rw [insertKV_cons_gt _ _ _ _ _ (fun e => strLt_ne hk e.symm) (strLt_asymm _ _ hk),
      ih (fun x hx => h x (List.mem_cons_of_mem _ hx))]
    rfl

theorem foldl_insertKV_sortedKeys (l : List (Str × β)) (acc : List (Str × β)) (hs : sortedKeys acc) :
    sortedKeys (l.foldl (fun acc kv => insertKV kv.1 kv.2 acc) acc) := by
  induction l generalizing acc with
  | nil => exact hs
  | cons y ys ih => exact ih _ (insertKV_sorted _ _ _ hs)

theorem foldl_insertKV_of_sorted (l : List (Str × β)) (acc : List (Str × β))
    (hs : (acc.map (·.1) ++ l.map (·.1)).Pairwise (fun a b => strLt a b = true)) :
    l.foldl (fun acc kv => insertKV kv.1 kv.2 acc) acc = acc ++ l := by
  induction l generalizing acc with
  | nil => simp
  | cons y ys ih =>
    rw [List.foldl_cons, insertKV_last, ih]
    · simp
    · simpa using hs
    · intro x hx
      rw [List.pairwise_append] at hs
      exact hs.2.2 _ (List.mem_map_of_mem hx) _ (by simp)

theorem mem_foldl_insertKV_sub (l : List (Str × β)) (acc : List (Str × β))
    (x : Str × β) (h : x ∈ l.foldl (fun acc kv => insertKV kv.1 kv.2 acc) acc) : x ∈ acc ∨ x ∈ l := by
  induction l generalizing acc with
  | nil => exact Or.inl h
  | cons y ys ih =>
    rw [List.foldl_cons] at h
    rcases ih _ h with h | h
    · rcases mem_insertKV_sub _ _ _ _ h with h | h
      · exact Or.inr (h ▸ List.mem_cons_self ..)
      · exact Or.inl h
    · exact Or.inr (List.mem_cons_of_mem _ h)

theorem mem_foldl_insertKV_acc (l : List (Str × β)) (acc : List (Str × β))
    (x : Str × β) (h : x ∈ acc) (hk : x.1 ∉ l.map (·.1)) :
    x ∈ l.foldl (fun acc kv => insertKV kv.1 kv.2 acc) acc := by
  induction l generalizing acc with
  | nil => exact h
  | cons y ys ih =>
    rw [List.foldl_cons]
    simp only [List.map_cons, List.mem_cons, not_or] at hk
    exact ih _ (mem_insertKV_of_mem _ _ _ _ h hk.1) hk.2

theorem mem_foldl_insertKV (l : List (Str × β)) (acc : List (Str × β))
    (hd : (l.map (·.1)).Nodup) (kv : Str × β) (h : kv ∈ l) :
    kv ∈ l.foldl (fun acc kv => insertKV kv.1 kv.2 acc) acc := by
  induction l generalizing acc with
  | nil => simp at h
  | cons y ys ih =>
    rw [List.foldl_cons]
    rw [List.map_cons, List.nodup_cons] at hd
    rcases List.mem_cons.1 h with rfl | h
    · exact mem_foldl_insertKV_acc ys _ _ (mem_insertKV_self ..) hd.1
    · exact ih _ hd.2 h

/-! ### `sortKVs` -/

theorem sortKVs_sorted (l : List (Str × β)) : sortedKeys (sortKVs l) :=
  foldl_insertKV_sortedKeys l [] (by simp [sortedKeys])

/-- a list already in key order is left as it is: sorting is idempotent -/
theorem sortKVs_of_sorted (l : List (Str × β)) (h : sortedKeys l) : sortKVs l = l := by
  unfold sortKVs
  rw [foldl_insertKV_of_sorted l [] (by simpa [sortedKeys] using h)]
  rfl

theorem sortKVs_idem (l : List (Str × β)) : sortKVs (sortKVs l) = sortKVs l :=
  sortKVs_of_sorted _ (sortKVs_sorted l)

theorem mem_sortKVs_sub (l : List (Str × β)) (x : Str × β) (h : x ∈ sortKVs l) : x ∈ l := by
  rcases mem_foldl_insertKV_sub l [] x h with h | h
  · cases h
  · exact h

theorem mem_sortKVs (l : List (Str × β)) (hd : (l.map (·.1)).Nodup) (x : Str × β) : x ∈ sortKVs l ↔ x ∈ l :=
  ⟨mem_sortKVs_sub l x, mem_foldl_insertKV l [] hd x⟩

/-- two lists in strict key order with the same members are equal -/
theorem sorted_ext : ∀ (a b : List (Str × β)), sortedKeys a → sortedKeys b → (∀ x, x ∈ a ↔ x ∈ b) → a = b
  | [], [], _, _, _ => rfl
  | [], y :: ys, _, _, h => absurd ((h y).2 (List.mem_cons_self ..)) (by simp)
  | x :: xs, [], _, _, h => absurd ((h x).1 (List.mem_cons_self ..)) (by simp)
  | x :: xs, y :: ys, ha, hb, h => by
    unfold sortedKeys at ha hb
    rw [List.map_cons, List.pairwise_cons] at ha hb
    have hxy : x = y := by
      rcases List.mem_cons.1 ((h x).1 (List.mem_cons_self ..)) with e | hx
      · exact e
      · rcases List.mem_cons.1 ((h y).2 (List.mem_cons_self ..)) with e | hy
        · exact e.symm
        · have h1 := hb.1 _ (List.mem_map_of_mem hx)
          have h2 := ha.1 _ (List.mem_map_of_mem hy)
          rw [strLt_asymm _ _ h1] at h2
          cases h2
    subst hxy
    have : xs = ys := by
      refine sorted_ext xs ys ha.2 hb.2 ?_
      intro z
      constructor
      · intro hz
        rcases List.mem_cons.1 ((h z).1 (List.mem_cons_of_mem _ hz)) with e | hz'
        · subst e
          have := ha.1 _ (List.mem_map_of_mem hz)
          rw [strLt_irrefl] at this; cases this
        · exact hz'
      · intro hz
        rcases List.mem_cons.1 ((h z).2 (List.mem_cons_of_mem _ hz)) with e | hz'
        · subst e
          have := hb.1 _ (List.mem_map_of_mem hz)
          rw [strLt_irrefl] at this; cases this
        · exact hz'
    rw [this]

/-- **the order in which a map holds its entries does not matter**: two lists with distinct keys that are
permutations of each other are written in the same order -/
theorem sortKVs_perm (a b : List (Str × β)) (hp : a.Perm b) (hd : (a.map (·.1)).Nodup) : sortKVs a = sortKVs b := by
  have hdb : (b.map (·.1)).Nodup := (hp.map (·.1)).nodup_iff.1 hd
  refine sorted_ext _ _ (sortKVs_sorted a) (sortKVs_sorted b) ?_
  intro x
  rw [mem_sortKVs a hd, mem_sortKVs b hdb]
  exact hp.mem_iff

theorem sortKVs_keys_sub (l : List (Str × β)) (k : Str) (h : k ∈ (sortKVs l).map (·.1)) : k ∈ l.map (·.1) := by
  obtain ⟨x, hx, rfl⟩ := List.mem_map.1 h
  exact List.mem_map_of_mem (mem_sortKVs_sub l x hx)

end Zarrs.Cons
