import ZarrsModel.Lemmas.ShardAsmStep
set_option Elab.async false
/- the end of a complete schedule of the atomic machine: the value is a legal shard -/
namespace Zarrs.ShardAsm
open Zarrs Zarrs.Codec

theorem asm_out_end (buf : List (Option Nat)) (data idx : Bytes) (hlen : data.length + idx.length ≤ buf.length)
    (hd : ∀ k, k < data.length → buf[k]? = some (data[k]?)) :
    (writeAt buf data.length idx).take (data.length + idx.length) = (data ++ idx).map some := by
  apply List.ext_getElem?
  intro k
  by_cases hk : k < data.length + idx.length
  · rw [List.getElem?_take_of_lt hk, writeAt_getElem? _ _ _ _ (by omega), List.getElem?_map]
    by_cases hk2 : k < data.length
    · have : ¬ (data.length ≤ k ∧ k < data.length + idx.length) := by omega
      rw [List.getElem?_append_left hk2]
      simp only [this, if_false, List.getD_eq_getElem?_getD, hd k hk2, Option.getD_some, Option.map]
      rw [List.getElem?_eq_getElem hk2]
    · have : data.length ≤ k ∧ k < data.length + idx.length := by omega
      rw [List.getElem?_append_right (by omega)]
      simp only [this, and_self, if_true, List.getD_eq_getElem?_getD]
      rw [List.getElem?_eq_getElem (by omega)]; rfl
  · rw [List.getElem?_eq_none (by simp; omega), List.getElem?_eq_none (by simp; omega)]

theorem asm_out_start (buf : List (Option Nat)) (data idx : Bytes) (hlen : idx.length + data.length ≤ buf.length)
    (hd : ∀ k, k < data.length → buf[idx.length + k]? = some (data[k]?)) :
    (writeAt buf 0 idx).take (idx.length + data.length) = (idx ++ data).map some := by
  apply List.ext_getElem?
  intro k
  by_cases hk : k < idx.length + data.length
  · rw [List.getElem?_take_of_lt hk, writeAt_getElem? _ _ _ _ (by omega), List.getElem?_map]
    by_cases hk2 : k < idx.length
    · have : 0 ≤ k ∧ k < 0 + idx.length := by omega
      rw [List.getElem?_append_left hk2]
      simp only [this, and_self, if_true, List.getD_eq_getElem?_getD, Nat.sub_zero]
      rw [List.getElem?_eq_getElem hk2]; rfl
    · have : ¬ (0 ≤ k ∧ k < 0 + idx.length) := by omega
      rw [List.getElem?_append_right (by omega)]
      have h := hd (k - idx.length) (by omega)
      rw [show idx.length + (k - idx.length) = k by omega] at h
      simp only [this, if_false, List.getD_eq_getElem?_getD, h, Option.getD_some, Option.map]
      rw [List.getElem?_eq_getElem (by omega)]
  · rw [List.getElem?_eq_none (by simp; omega), List.getElem?_eq_none (by simp; omega)]

theorem all_isSome_map_some (v : Bytes) : (v.map some).all Option.isSome = true := by
  simp

theorem map_getD_map_some (v : Bytes) : (v.map some).map (fun x => x.getD 0) = v := by
  rw [List.map_map]
  have : ((fun x : Option Nat => x.getD 0) ∘ some) = id := by funext x; rfl
  rw [this, List.map_id]


theorem any_eq_false_of_final (ps : List Pc) (h : ps.all Pc.isFinal = true) (x : Pc) (hx : x.isFinal = false) :
    ps.any (· == x) = false := by
  rw [List.any_eq_false]
  intro y hy heq
  have h1 := List.all_eq_true.mp h y hy
  have h2 : y = x := by simpa using heq
  subst h2; rw [hx] at h1; cases h1

/-- at the end every task is elided (sentinel entry, nothing reserved) or done (entry, reservation, bytes in place) -/
theorem final_pcs (p : Params) (s : State) (inv : Inv p s) (hcomp : complete s = true) (i : Nat) (hi : i < p.chunks.length) :
    (p.chunks[i]? = some none ∧ s.index[i]? = some (Shard.sentinel, Shard.sentinel) ∧ ∀ e ∈ s.log, e.1 ≠ i) ∨
    (∃ b off, p.chunks[i]? = some (some b) ∧ s.pc[i]? = some (.done off) ∧ s.index[i]? = some (off, b.length) ∧
      (i, off, b.length) ∈ s.log ∧ ∀ k, k < b.length → s.buf[off + k]? = some (some (b.getD k 0))) := by
  have hip : i < s.pc.length := by rw [inv.pcLen]; exact hi
  have hfin : (s.pc[i]).isFinal = true := List.all_eq_true.mp hcomp _ (List.getElem_mem hip)
  have h := inv.pcs i hi
  unfold PcOk at h
  rw [List.getElem?_eq_getElem hi, List.getElem?_eq_getElem hip] at h
  rw [List.getElem?_eq_getElem hi, List.getElem?_eq_getElem hip]
  generalize p.chunks[i] = c at h ⊢
  generalize s.pc[i] = x at h hfin ⊢
  cases c with
  | none =>
    cases x <;> first | exact h.elim | exact Or.inl ⟨rfl, h.1, h.2⟩
  | some b =>
    cases x with
    | done off => exact Or.inr ⟨b, off, rfl, rfl, h.1, h.2.1, h.2.2⟩
    | _ => first | exact h.elim | (simp [Pc.isFinal] at hfin)

/-- at the end the whole data region `[base, base + total)` has been written -/
theorem final_written (p : Params) (s : State) (inv : Inv p s) (hcomp : complete s = true) (k : Nat)
    (h1 : p.base ≤ k) (h2 : k < p.base + p.total) : ∃ x, s.buf[k]? = some (some x) := by
  have hoff : s.offset = p.base + p.total := by
    have := inv.acct
    rw [pendingOf_final _ _ hcomp] at this; omega
  obtain ⟨e, he, he1, he2⟩ := chained_cover _ _ _ inv.chain k h1 (by omega)
  obtain ⟨b, hb, hbl⟩ := inv.logLen e he
  have hj := lt_of_getElem?_some hb
  rcases final_pcs p s inv hcomp e.1 hj with ⟨hn, _⟩ | ⟨b', off, hc, _, _, hlog, hbuf⟩
  · rw [hb] at hn; cases hn
  · rw [hb] at hc
    simp only [Option.some.injEq] at hc
    subst hc
    have := inv.logIds e he _ hlog rfl
    have ho : e.2.1 = off := by rw [this]
    have := hbuf (k - off) (by omega)
    rw [show off + (k - off) = k by omega] at this
    exact ⟨_, this⟩

/-- the data region of the final buffer -/
def dataOf (p : Params) (s : State) : Bytes := ((s.buf.drop p.base).take p.total).map (fun x => x.getD 0)

theorem dataOf_length (p : Params) (s : State) (h : p.base + p.total ≤ s.buf.length) : (dataOf p s).length = p.total := by
  simp [dataOf]; omega

theorem dataOf_get (p : Params) (s : State) (inv : Inv p s) (hcomp : complete s = true) (h : p.base + p.total ≤ s.buf.length)
    (k : Nat) (hk : k < (dataOf p s).length) : s.buf[p.base + k]? = some ((dataOf p s)[k]?) := by
  rw [dataOf_length p s h] at hk
  obtain ⟨x, hx⟩ := final_written p s inv hcomp (p.base + k) (by omega) (by omega)
  rw [hx]
  simp only [dataOf, List.getElem?_map, List.getElem?_take_of_lt hk, List.getElem?_drop, hx, Option.map, Option.getD_some]


theorem final_offset (p : Params) (s : State) (inv : Inv p s) (hcomp : complete s = true) : s.offset = p.base + p.total := by
  have := inv.acct
  rw [pendingOf_final _ _ hcomp] at this; omega

theorem shardLen_final (p : Params) (s : State) (hoff : s.offset = p.base + p.total) :
    shardLen p s = p.total + Shard.indexSize p.cfg := by
  unfold shardLen
  cases p.mode with
  | unbounded => rfl
  | bounded bound =>
    simp only [hoff, Params.base]
    cases p.cfg.indexAtEnd <;> simp <;> omega

theorem base_le (p : Params) : p.base ≤ Shard.indexSize p.cfg := by unfold Params.base; split <;> omega

/-- **the value produced at the end of a complete schedule**: data region and encoded index, side by side -/
theorem final_value (p : Params) (s : State) (hwf : p.wf = true) (hfit : p.fits = true) (inv : Inv p s)
    (hcomp : complete s = true) :
    finish p s = .ok (if p.cfg.indexAtEnd then dataOf p s ++ Shard.encodeIndex p.cfg s.index
      else Shard.encodeIndex p.cfg s.index ++ dataOf p s) := by
  have hoff := final_offset p s inv hcomp
  have hlen := shardLen_final p s hoff
  have hn : s.index.length = p.cfg.nChunks := by
    rw [inv.idxLen]; simp only [Params.wf, beq_iff_eq] at hwf; exact hwf.symm
  have hil := Shard.encodeIndex_length p.cfg s.index hn
  simp only [Params.fits, decide_eq_true_eq] at hfit
  have hbl := base_le p
  have hcap : p.base + p.total ≤ s.buf.length := by rw [inv.bufLen]; omega
  have hdl := dataOf_length p s hcap
  have hdg := dataOf_get p s inv hcomp hcap
  unfold finish
  rw [any_eq_false_of_final _ hcomp _ rfl, any_eq_false_of_final _ hcomp _ rfl, hcomp, hlen]
  have hc : (decide (p.total + Shard.indexSize p.cfg > s.buf.length) || decide (p.total + Shard.indexSize p.cfg < Shard.indexSize p.cfg)) = false := by
    rw [inv.bufLen]; simp only [Bool.or_eq_false_iff, decide_eq_false_iff_not]; omega
  simp only [Bool.false_eq_true, if_false, Bool.not_true, hil, hc]
  cases hat : p.cfg.indexAtEnd with
  | true =>
    have hb0 : p.base = 0 := by simp [Params.base, hat]
    simp only [if_true]
    have := asm_out_end s.buf (dataOf p s) (Shard.encodeIndex p.cfg s.index) (by rw [hdl, hil, inv.bufLen]; omega)
      (fun k hk => by have := hdg k hk; rw [hb0, Nat.zero_add] at this; exact this)
    rw [hdl, hil] at this
    rw [Nat.add_sub_cancel, this, all_isSome_map_some, map_getD_map_some]
    simp
  | false =>
    have hb0 : p.base = Shard.indexSize p.cfg := by simp [Params.base, hat]
    simp only [Bool.false_eq_true, if_false]
    have := asm_out_start s.buf (dataOf p s) (Shard.encodeIndex p.cfg s.index) (by rw [hdl, hil, inv.bufLen]; omega)
      (fun k hk => by have := hdg k hk; rw [hb0, ← hil] at this; exact this)
    rw [hdl, hil, Nat.add_comm] at this
    rw [this, all_isSome_map_some, map_getD_map_some]
    simp


/-- the final index is the table of the reservations -/
theorem final_index (p : Params) (s : State) (inv : Inv p s) (hcomp : complete s = true) :
    s.index = (List.range p.chunks.length).map (Conform.entryOf s.log) := by
  apply List.ext_getElem?
  intro i
  by_cases hi : i < p.chunks.length
  · rw [List.getElem?_map, List.getElem?_range hi]
    simp only [Option.map]
    rcases final_pcs p s inv hcomp i hi with ⟨_, hidx, hno⟩ | ⟨b, off, _, _, hidx, hlog, _⟩
    · rw [hidx]
      rcases Conform.entryOf_cases s.log i with ⟨h, _⟩ | ⟨q, hq, hqi, _⟩
      · rw [h]
      · exact absurd hqi (hno q hq)
    · rw [hidx]
      rcases Conform.entryOf_cases s.log i with ⟨_, hno⟩ | ⟨q, hq, hqi, he⟩
      · exact absurd rfl (hno _ hlog)
      · have := inv.logIds q hq _ hlog hqi
        rw [he, this]
  · rw [List.getElem?_eq_none (by rw [inv.idxLen]; omega), List.getElem?_eq_none (by simp; omega)]

/-- **the value at the end of a complete schedule is a legal shard holding the encoded inner chunks** -/
theorem final_legal (p : Params) (s : State) (hwf : p.wf = true) (hfit : p.fits = true) (hsmall : p.small = true)
    (inv : Inv p s) (hcomp : complete s = true) :
    Shard.Legal p.cfg (if p.cfg.indexAtEnd then dataOf p s ++ Shard.encodeIndex p.cfg s.index
      else Shard.encodeIndex p.cfg s.index ++ dataOf p s) p.chunks := by
  have hn : p.chunks.length = p.cfg.nChunks := by simp only [Params.wf, beq_iff_eq] at hwf; exact hwf.symm
  have hfit' := hfit
  simp only [Params.fits, decide_eq_true_eq] at hfit'
  have hbl := base_le p
  have hcap : p.base + p.total ≤ s.buf.length := by rw [inv.bufLen]; omega
  have hdl := dataOf_length p s hcap
  have hdg := dataOf_get p s inv hcomp hcap
  have hoff := final_offset p s inv hcomp
  rw [final_index p s inv hcomp]
  apply Conform.legal_of_placed p.cfg p.chunks hn (dataOf p s) s.log
  · intro e he
    obtain ⟨b, hb, hbl'⟩ := inv.logLen e he
    have hj := lt_of_getElem?_some hb
    rcases final_pcs p s inv hcomp e.1 hj with ⟨hnone, _⟩ | ⟨b', off, hc, _, _, hlog, hbuf⟩
    · rw [hb] at hnone; cases hnone
    · rw [hb] at hc
      simp only [Option.some.injEq] at hc
      subst hc
      have hee := inv.logIds e he _ hlog rfl
      have ho : e.2.1 = off := by rw [hee]
      have hbd := chained_bounds _ _ _ inv.chain e he
      refine ⟨b, (dataOf p s).take (off - p.base), (dataOf p s).drop (off - p.base + b.length), ?_, hbl', ?_, ?_⟩
      · rw [List.getD_eq_getElem?_getD, hb]; rfl
      · apply split_around
        intro k hk
        have hk' : off - p.base + k < (dataOf p s).length := by rw [hdl]; omega
        have h1 := hdg _ hk'
        rw [show p.base + (off - p.base + k) = off + k by omega, hbuf k hk] at h1
        simp only [Option.some.injEq] at h1
        rw [← h1, List.getD_eq_getElem?_getD, List.getElem?_eq_getElem hk]; rfl
      · rw [List.length_take, hdl, ho]
        show off = p.base + min (off - p.base) p.total
        omega
  · intro e he e' he' hne
    exact chained_disj _ _ _ inv.chain e he e' he' hne
  · intro i hi b hb
    rcases final_pcs p s inv hcomp i hi with ⟨hnone, _⟩ | ⟨b', off, hc, _, _, hlog, _⟩
    · rw [List.getD_eq_getElem?_getD, hnone] at hb; cases hb
    · exact ⟨_, hlog, rfl⟩
  · simp only [Params.small, decide_eq_true_eq] at hsmall
    rw [hdl]; exact hsmall

end Zarrs.ShardAsm
