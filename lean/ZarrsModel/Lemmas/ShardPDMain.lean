import ZarrsModel.Lemmas.ShardPDChain
set_option Elab.async false
/- helper lemmas for C02 (sharding partial decoder), part 4: the decoder on a legal shard, and (nested) chains -/
namespace Zarrs.Partial
open Zarrs Zarrs.Codec Zarrs.Subset

theorem shardPD_ok' (cfg : Shard.Cfg) (validate : Bool) (shard inner : Shape) (es : Nat) (fill : Elem)
    (fixed : Option Nat) (innerPD : Shape → Elem → BHandle → AHandle) (encodes : List Elem → Bytes → Prop)
    (h : BHandle) (v : Bytes) (chunks : List (Option Bytes)) (xss : List (List Elem))
    (ht : tiles inner shard = true) (hn : cfg.nChunks = prod (zipDiv shard inner)) (hfill : fill.length = es)
    (hh : BHandleOk h v) (hlegal : Shard.Legal cfg v chunks) (hxl : xss.length = cfg.nChunks)
    (hx : ∀ i (h1 : i < chunks.length) (h2 : i < xss.length),
      match chunks[i] with
      | some b => encodes xss[i] b ∧ (xss[i].length = prod inner ∧ ∀ x ∈ xss[i], x.length = es)
      | none => xss[i] = List.replicate (prod inner) fill)
    (hinner : ∀ g b xs, encodes xs b → BHandleOk g b → AHandleOk (innerPD inner fill g) inner xs)
    (hfixed : ∀ n, fixed = some n → ∀ xs b, encodes xs b → b.length = n) :
    AHandleOk (shardPD cfg validate shard inner es fill fixed innerPD h) shard (assemble shard inner xss) := by
  obtain ⟨hcl, ib, entries, hib, hdec, hel, hcell, _⟩ := hlegal
  have S : Served fixed shard inner es fill innerPD h entries xss := by
    refine ⟨ht, by rw [hel, hn], by rw [hxl, hn], hfill, ?_⟩
    intro k e xs hke hkx
    obtain ⟨hk, hke'⟩ := List.getElem?_eq_some_iff.mp hke
    obtain ⟨hk2, hkx'⟩ := List.getElem?_eq_some_iff.mp hkx
    have hkc : k < chunks.length := by omega
    have h1 := hcell k hk hkc
    have h2 := hx k hkc hk2
    rw [hke'] at h1
    rw [hkx'] at h2
    cases hc : chunks[k] with
    | none =>
      rw [hc] at h1 h2
      exact Or.inl ⟨h1, h2⟩
    | some b =>
      rw [hc] at h1 h2
      obtain ⟨hlive, hsz, hle, hsl, _⟩ := h1
      have hso : sizeOk fixed e.2 = true := by
        cases hfx : fixed with
        | none => rfl
        | some n => simp only [sizeOk, beq_iff_eq]; rw [hsz]; exact hfixed n hfx xs b h2.1
      refine Or.inr ⟨hlive, hso, h2.2.1, h2.2.2, ?_⟩
      apply hinner _ b xs h2.1
      rw [← hsl]
      exact byteIntervalPD_ok h v e.1 e.2 hh hle
  intro rs hrs
  unfold shardPD
  rw [shardIndexPD_legal cfg validate ht hn v ib hh hib hdec]
  simp only [rank_check shard rs hrs, Bool.false_eq_true, if_false, chunksPerShard_of_tiles ht]
  apply mapM_some_of_forall
  intro r hr
  exact shardRegion_ok S r (hrs r hr).1 (hrs r hr).2

theorem shardPD_absent' (cfg : Shard.Cfg) (validate : Bool) (shard inner : Shape) (es : Nat) (fill : Elem)
    (fixed : Option Nat) (innerPD : Shape → Elem → BHandle → AHandle) (h : BHandle)
    (ht : tiles inner shard = true) (hh : BHandleAbsent h) (rs : List Subset)
    (hrs : ∀ r ∈ rs, r.wf = true ∧ r.rank = shard.length) :
    shardPD cfg validate shard inner es fill fixed innerPD h rs =
      some (rs.map (fun r => List.replicate r.numElements fill)) := by
  unfold shardPD
  rw [shardIndexPD_absent cfg validate ht hh]
  have : rs.any (fun r => !r.wf || r.rank != shard.length) = false := by
    rw [List.any_eq_false]
    intro r hr
    simp [(hrs r hr).1, (hrs r hr).2]
  simp only [this, Bool.false_eq_true, if_false]

theorem shardPD_absent_ok' (cfg : Shard.Cfg) (validate : Bool) (shard inner : Shape) (es : Nat) (fill : Elem)
    (fixed : Option Nat) (innerPD : Shape → Elem → BHandle → AHandle) (h : BHandle)
    (ht : tiles inner shard = true) (hh : BHandleAbsent h) :
    AHandleOk (shardPD cfg validate shard inner es fill fixed innerPD h) shard (List.replicate (prod shard) fill) := by
  intro rs hrs
  rw [shardPD_absent' cfg validate shard inner es fill fixed innerPD h ht hh rs (by
    intro r hr
    obtain ⟨h1, h2⟩ := hrs r hr
    simp only [Subset.inboundsShape, Bool.and_eq_true, beq_iff_eq] at h2
    exact ⟨h1, h2.1⟩)]
  congr 1
  apply List.map_congr_left
  intro r hr
  exact (extract_replicate r shard fill (hrs r hr).1 (hrs r hr).2).symm

/-- **chains with (nested) sharding codecs**: on any handle serving the chain's encoding of a chunk, the chain's
partial decoder serves the chunk -/
theorem chainS_ok : ∀ (c : ChainS) (sh : Shape) (fill : Elem) (xs : List Elem),
    c.okWith aOk BLaw sh fill → xs.length = prod sh → (∀ x ∈ xs, x.length = c.es) → c.fits sh fill xs →
    ∀ g : BHandle, BHandleOk g (c.encode sh fill xs) → AHandleOk (c.partialDecoder sh fill g) sh xs := by
  intro c
  induction c with
  | leaf c keep =>
    intro sh fill xs hok hxl hxe _ g hg
    exact chain_ok_handle c sh fill xs hok.1 hok.2.1 hok.2.2.1 hxl hxe hok.2.2.2.1 hok.2.2.2.2.1 g hg
  | shard a2a cfg ish es inner b2b ih =>
    intro sh fill xs hok hxl hxe hfits g hg
    obtain ⟨ha, ht, hB, hfl, hies, hiok⟩ := hok
    simp only [ChainS.es] at hxe
    obtain ⟨hyl, hye⟩ := aEnc_chunk es a2a sh xs ha hxl hxe
    simp only [ChainS.fits, encodeA2A_eq] at hfits
    obtain ⟨hfp, hsmall⟩ := hfits
    simp only [ChainS.encode, encodeA2A_eq] at hg
    simp only [ChainS.partialDecoder, stackA2A_eq]
    apply aChain_ok a2a sh xs _ ha hxl
    -- the handle below the sharding codec serves the encoded shard
    have hhb := bChain_ok b2b hB _ g hg
    generalize hys : aEnc a2a sh xs = ys at *
    generalize hsh : shapesOf a2a sh = sh' at *
    have hclen : (shardChunks (inner.encode ish fill) fill sh' ish ys).length = prod (zipDiv sh' ish) := by
      simp [shardChunks, splitShard_length]
    have hlegal := Shard.shard_legal { cfg with nChunks := prod (zipDiv sh' ish) } _ hclen (by
      rw [Shard.dataOf_length, ← Shard.shard_length _ _ hclen]; exact hsmall)
    rw [← assemble_split ht ys hyl, ← shardPD_cfg cfg (prod (zipDiv sh' ish))]
    apply shardPD_ok' _ true sh' ish es fill (inner.fixedSize ish) _
      (fun xs b => b = inner.encode ish fill xs ∧ inner.fits ish fill xs ∧ xs.length = prod ish ∧ ∀ x ∈ xs, x.length = es)
      _ _ _ (splitShard sh' ish ys) ht rfl hfl hhb hlegal (splitShard_length sh' ish ys)
    · intro i h1 h2
      have hpm : (splitShard sh' ish ys)[i] ∈ splitShard sh' ish ys := List.getElem_mem h2
      obtain ⟨hpl, hpe⟩ := splitShard_piece ht ys hyl _ hpm
      have hpe' : ∀ x ∈ (splitShard sh' ish ys)[i], x.length = es := fun x hx => hye x (hpe x hx)
      simp only [shardChunks, List.getElem_map]
      split
      · rename_i b heq
        split at heq
        · cases heq
        · simp only [Option.some.injEq] at heq
          exact ⟨⟨heq.symm, hfp _ hpm, hpl, hpe'⟩, hpl, hpe'⟩
      · rename_i heq
        split at heq
        · rename_i hall
          exact all_fill_replicate fill _ _ hpl hall
        · cases heq
    · intro g' b xs' ⟨hb, hf, hl, he⟩ hg'
      subst hb
      exact ih ish fill xs' hiok hl (by rw [hies]; exact he) hf g' hg'
    · intro n hn xs' b ⟨hb, _, hl, he⟩
      subst hb
      exact chainS_encode_length inner ish fill xs' n hiok hl (by rw [hies]; exact he) hn

/-- … and an absent value reads as fill -/
theorem chainS_absent : ∀ (c : ChainS) (sh : Shape) (fill : Elem), c.okWith aOk BLaw sh fill →
    ∀ g : BHandle, BHandleAbsent g →
      AHandleOk (c.partialDecoder sh fill g) sh (List.replicate (prod sh) fill) := by
  intro c
  cases c with
  | leaf c keep =>
    intro sh fill hok g hg
    exact chain_absent_handle c sh fill hok.2.2.2.1 g hg
  | shard a2a cfg ish es inner b2b =>
    intro sh fill hok g hg
    obtain ⟨ha, ht, _, _, _, _⟩ := hok
    simp only [ChainS.partialDecoder, stackA2A_eq]
    apply aChain_ok a2a sh _ _ ha (by simp)
    rw [aEnc_fill fill a2a sh ha]
    exact shardPD_absent_ok' cfg true _ ish es fill _ _ _ ht (bChain_absent b2b g hg)

end Zarrs.Partial
