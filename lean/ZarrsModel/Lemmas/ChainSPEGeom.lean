import ZarrsModel.Model.ChainSPE
import ZarrsModel.Lemmas.ShardPDExtra
import ZarrsModel.Lemmas.ArrayMulti
set_option Elab.async false
/- helper lemmas for C05 on chains (the sharding partial encoder at element level), part 1: geometry of one inner
chunk of one region write, and a fold that sets distinct keys of a list -/
namespace Zarrs.Partial
open Zarrs Zarrs.Codec Zarrs.Subset

/-! ### the straddle test -/

theorem mem_mono (g a1 s1 a2 s2 : List Nat) (hl : a2.length = s2.length) (hl2 : a1.length = a2.length)
    (h1 : zipAnyLt a1 a2 = false) (h2 : zipAnyGt (addIdx a1 s1) (addIdx a2 s2) = false)
    (hm : mem g a1 s1 = true) : mem g a2 s2 = true := by
  induction g generalizing a1 s1 a2 s2 with
  | nil =>
    cases a1 <;> cases s1 <;> (try (simp [mem] at hm; done))
    cases a2 <;> cases s2 <;> simp_all [mem]
  | cons x xs ih =>
    cases a1 <;> cases s1 <;> (try (simp [mem] at hm; done))
    rename_i a1h a1t s1h s1t
    cases a2 with
    | nil => simp at hl2
    | cons a2h a2t =>
      cases s2 with
      | nil => simp at hl
      | cons s2h s2t =>
        simp only [mem, Bool.and_eq_true, decide_eq_true_eq] at hm ⊢
        simp only [zipAnyLt, Bool.or_eq_false_iff, decide_eq_false_iff_not] at h1
        simp only [addIdx, zipAnyGt, Bool.or_eq_false_iff, decide_eq_false_iff_not] at h2
        simp only [List.length_cons, Nat.add_right_cancel_iff] at hl hl2
        exact ⟨⟨by omega, by omega⟩, ih a1t s1t a2t s2t hl hl2 h1.2 h2.2 hm.2⟩

/-- an inner chunk that does not straddle the subset lies inside it -/
theorem not_straddles_sub (cs r : Subset) (hr : r.wf = true) (hrank : cs.rank = r.rank)
    (h : straddles cs r = false) (g : Idx) (hg : cs.contains g = true) : r.contains g = true := by
  simp only [straddles, Bool.or_eq_false_iff] at h
  simp only [Subset.wf, beq_iff_eq] at hr
  simp only [Subset.rank] at hrank
  exact mem_mono g cs.start cs.shape r.start r.shape hr hrank h.1 h.2 hg

/-! ### one inner chunk of one region write -/

/-- **the update of one inner chunk is the inner chunk of the updated shard**: `p` an inner chunk met by the in-bounds
region `r`, `base` agreeing with the old shard `cur` on the part of the inner chunk outside `r` -/
theorem chunk_update {inner shard : Shape} (ht : tiles inner shard = true) (r : Subset) (hr : r.wf = true)
    (hb : r.inboundsShape shard = true) (ys : List Elem) (hy : ys.length = r.numElements)
    (cur : List Elem) (hcur : cur.length = prod shard)
    (p : Idx × Subset) (hp : p ∈ r.chunks inner) (base : List Elem) (hbl : base.length = prod inner)
    (hbase : ∀ j, inB j inner = true → r.contains (addIdx j p.2.start) = false →
        base[ravel j inner]? = cur[ravel (addIdx j p.2.start) shard]?) :
    (((r.overlap p.2).relativeTo r.start).extract r.shape ys).length = (r.overlap p.2).numElements ∧
    updateRuns inner ((r.overlap p.2).relativeTo p.2.start) base
        (((r.overlap p.2).relativeTo r.start).extract r.shape ys) =
      p.2.extract shard (updateRuns shard r cur ys) := by
  obtain ⟨hp2, hpl, hcwf, hcrank, hcin, hovwf, hovrank, hovne, hov, hinb⟩ := chunk_item_facts ht r hr hb p hp
  obtain ⟨hcw, hcb⟩ := cellBox_inbounds ht p.1 hcin
  rw [← hp2] at hcw hcb
  have hpsh : p.2.shape = inner := by rw [hp2]
  have hsub1 : ∀ i, (r.overlap p.2).contains i = true → p.2.contains i = true := by
    intro i hi; rw [hov, Bool.and_eq_true] at hi; exact hi.2
  have hsub2 : ∀ i, (r.overlap p.2).contains i = true → r.contains i = true := by
    intro i hi; rw [hov, Bool.and_eq_true] at hi; exact hi.1
  obtain ⟨hw1, hin1, _, hle1⟩ := Subset.rel_facts (r.overlap p.2) p.2 hovwf hcwf (by rw [hovrank, hcrank]) hovne hsub1
  obtain ⟨hpcl, hpp⟩ := piece_spec (r.overlap p.2) r hovwf hr hovrank hovne hsub2 ys hy
  refine ⟨hpcl, ?_⟩
  rw [hpsh] at hin1
  obtain ⟨hL1, hL2⟩ := updateRuns_spec inner ((r.overlap p.2).relativeTo p.2.start) base _ hw1 hin1 hbl hpcl
  obtain ⟨hN1, hN2⟩ := updateRuns_spec shard r cur ys hr hb hcur hy
  obtain ⟨hE1, hE2⟩ := extract_spec' p.2 shard (updateRuns shard r cur ys) hcw hcb hN1
  have hE1' : (p.2.extract shard (updateRuns shard r cur ys)).length = prod inner := by
    rw [hE1, Subset.numElements, hpsh]
  apply list_ext_box inner _ _ hL1 hE1'
  intro j hj
  have hcwf' := hcwf
  simp only [Subset.wf, beq_iff_eq] at hcwf'
  have hjl : j.length = p.2.start.length := by rw [inB_length hj, hcwf', hpsh]
  have hgm : p.2.contains (addIdx j p.2.start) = true :=
    mem_addIdx j p.2.start p.2.shape hcwf' (by rw [hpsh]; exact hj)
  have hgin : inB (addIdx j p.2.start) shard = true := by
    have hcb' := hcb
    simp only [Subset.inboundsShape, Subset.rank, Subset.endExc, Bool.and_eq_true, beq_iff_eq] at hcb'
    exact inB_of_allLe_end _ _ _ shard hcb'.1 hcb'.2 hgm
  have hm : ((r.overlap p.2).relativeTo p.2.start).contains j = (r.overlap p.2).contains (addIdx j p.2.start) :=
    C09.relativeTo_mem (r.overlap p.2) p.2.start hovwf (by simp only [Subset.rank] at hovrank hcrank ⊢; omega)
      (zipUnderflow_of_allLe _ _ hle1) j (by simp only [Subset.rank] at hovrank hcrank ⊢; omega)
  have hE := hE2 j (by rw [hpsh]; exact hj)
  rw [hpsh] at hE
  rw [hL2 j hj, hE, hN2 _ hgin, hm, hov, hgm, Bool.and_true]
  by_cases hc : r.contains (addIdx j p.2.start) = true
  · rw [if_pos hc, if_pos hc]
    simp only [Subset.relativeTo]
    rw [zipSub_shift j (r.overlap p.2).start p.2.start hle1]
    exact hpp _ (by rw [hov, hc, hgm]; rfl)
  · rw [if_neg hc, if_neg hc]
    exact hbase j hj (by simpa using hc)

/-- an inner chunk the region does not meet keeps its contents -/
theorem chunk_untouched {inner shard : Shape} (ht : tiles inner shard = true) (r : Subset) (hr : r.wf = true)
    (hb : r.inboundsShape shard = true) (ys : List Elem) (hy : ys.length = r.numElements)
    (cur : List Elem) (hcur : cur.length = prod shard)
    (c : Idx) (hc : inB c (zipDiv shard inner) = true)
    (hnot : (c, Subset.mk (zipMul c inner) inner) ∉ r.chunks inner) :
    (Subset.mk (zipMul c inner) inner).extract shard (updateRuns shard r cur ys) =
      (Subset.mk (zipMul c inner) inner).extract shard cur := by
  obtain ⟨hcw, hcb⟩ := cellBox_inbounds ht c hc
  obtain ⟨hN1, hN2⟩ := updateRuns_spec shard r cur ys hr hb hcur hy
  obtain ⟨hE1, hE2⟩ := extract_spec' _ shard (updateRuns shard r cur ys) hcw hcb hN1
  obtain ⟨hF1, hF2⟩ := extract_spec' _ shard cur hcw hcb hcur
  apply list_ext_box inner _ _ hE1 hF1
  intro j hj
  rw [hE2 j hj, hF2 j hj]
  have hcw' := hcw
  simp only [Subset.wf, beq_iff_eq] at hcw'
  have hgm : (Subset.mk (zipMul c inner) inner).contains (addIdx j (zipMul c inner)) = true :=
    mem_addIdx j _ _ hcw' hj
  have hgin : inB (addIdx j (zipMul c inner)) shard = true := by
    have hcb' := hcb
    simp only [Subset.inboundsShape, Subset.rank, Subset.endExc, Bool.and_eq_true, beq_iff_eq] at hcb'
    exact inB_of_allLe_end _ _ _ shard hcb'.1 hcb'.2 hgm
  rw [hN2 _ hgin, if_neg]
  intro hrc
  apply hnot
  have hb' := hb
  simp only [Subset.inboundsShape, Subset.rank, Bool.and_eq_true, beq_iff_eq] at hb'
  have hil := tiles_length ht
  have hcl : inner.length = r.rank := by simp only [Subset.rank]; omega
  rw [mem_chunks]
  refine ⟨?_, rfl⟩
  rw [(r.chunkBox inner).mem_indices (r.chunkBox_wf inner hr hcl)]
  apply (r.contains_chunkBox inner hr hcl (tiles_pos ht) c).mpr
  refine ⟨?_, _, hrc, hgm⟩
  have := inB_length hc
  simp only [zipDiv_length, Subset.rank] at this hcl ⊢
  omega

/-! ### a fold that sets distinct keys -/

/-- a fold whose step on item `b` rewrites entry `key b` of the state from that entry alone: with distinct keys the
result has `g` of the ORIGINAL entry at every key and the original entry elsewhere -/
theorem foldOpt_setKeys {α β} (key : β → Nat) (g : Option α → β → Option α)
    (f : List (Option α) → β → Option (List (Option α)))
    (hf : ∀ st b, key b < st.length → f st b = (g (st.getD (key b) none) b).map (fun x => st.set (key b) (some x))) :
    ∀ (L : List β) (st : List (Option α)), (L.map key).Nodup → (∀ b ∈ L, key b < st.length) →
      (∀ b ∈ L, (g (st.getD (key b) none) b).isSome = true) →
      ∃ st', ArrCfg.foldOpt f st L = some st' ∧ st'.length = st.length ∧
        (∀ b ∈ L, st'.getD (key b) none = g (st.getD (key b) none) b) ∧
        (∀ i, i ∉ L.map key → st'.getD i none = st.getD i none) := by
  intro L
  induction L with
  | nil => intro st _ _ _; exact ⟨st, rfl, rfl, fun _ h => by simp at h, fun _ _ => rfl⟩
  | cons b bs ih =>
    intro st hnd hlt hsome
    simp only [List.map_cons, List.nodup_cons] at hnd
    have hb := hsome b (by simp)
    obtain ⟨x, hx⟩ := Option.isSome_iff_exists.mp hb
    have hfb := hf st b (hlt b (by simp))
    rw [hx] at hfb
    simp only [Option.map_some] at hfb
    have hother : ∀ b' ∈ bs, (st.set (key b) (some x)).getD (key b') none = st.getD (key b') none := by
      intro b' hb'
      have hne : key b ≠ key b' := by
        intro he
        exact hnd.1 (by rw [he]; exact List.mem_map.mpr ⟨b', hb', rfl⟩)
      simp only [List.getD_eq_getElem?_getD, List.getElem?_set_ne hne]
    obtain ⟨st', h1, h2, h3, h4⟩ := ih (st.set (key b) (some x)) hnd.2
      (fun b' hb' => by rw [List.length_set]; exact hlt b' (by simp [hb']))
      (fun b' hb' => by rw [hother b' hb']; exact hsome b' (by simp [hb']))
    refine ⟨st', by simp only [ArrCfg.foldOpt, hfb, h1], by rw [h2, List.length_set], ?_, ?_⟩
    · intro b' hb'
      rcases List.mem_cons.mp hb' with rfl | hb''
      · rw [h4 _ hnd.1, hx]
        simp only [List.getD_eq_getElem?_getD, List.getElem?_set_self (hlt b' (by simp)), Option.getD_some]
      · rw [h3 b' hb'', hother b' hb'']
    · intro i hi
      simp only [List.map_cons, List.mem_cons, not_or] at hi
      rw [h4 i hi.2]
      simp only [List.getD_eq_getElem?_getD, List.getElem?_set_ne (Ne.symm hi.1)]

end Zarrs.Partial
