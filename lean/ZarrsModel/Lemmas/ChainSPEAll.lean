import ZarrsModel.Lemmas.ChainSPEWrites
set_option Elab.async false
/- helper lemmas for C05 on chains, part 4: `shardPEElems` on a list of in-bounds region writes -/
namespace Zarrs.Partial
open Zarrs Zarrs.Codec Zarrs.Subset Zarrs.Shard

/-- an in-bounds region write of well-sized elements -/
def writeOk (es : Nat) (sh : Shape) (w : RWrite) : Prop :=
  w.1.wf = true ∧ w.1.inboundsShape sh = true ∧ w.2.length = w.1.numElements ∧ ∀ y ∈ w.2, y.length = es

/-- the chunk after the region writes of one call -/
def applyRegionWrites (sh : Shape) (old : List Elem) (ws : List RWrite) : List Elem :=
  ws.foldl (fun cur w => updateRuns sh w.1 cur w.2) old

theorem replicate_all_fill (fill : Elem) (n : Nat) : (List.replicate n fill).all (· == fill) = true := by
  rw [List.all_eq_true]
  intro x hx
  rw [List.eq_of_mem_replicate hx]
  simp

theorem zipAnyGt_of_allLe (a b : List Nat) (h : allLe a b = true) : zipAnyGt a b = false := by
  induction a generalizing b with
  | nil => simp [zipAnyGt]
  | cons x xs ih =>
    cases b with
    | nil => simp [zipAnyGt]
    | cons y ys =>
      simp only [allLe, Bool.and_eq_true, decide_eq_true_eq] at h
      simp only [zipAnyGt, Bool.or_eq_false_iff, decide_eq_false_iff_not]
      exact ⟨by omega, ih ys h.2⟩

theorem chunks_of_empty (r : Subset) (inner : Shape) (hr : r.wf = true) (he : r.isEmpty = true) :
    r.chunks inner = [] := by
  have hpos := r.rank_pos_of_empty hr he
  simp only [Subset.chunks, Iter.new_items, r.chunkBox_empty inner he, newEmpty_indices _ hpos, List.map_nil]

theorem writeChunks_ok {inner shard : Shape} (ht : tiles inner shard = true) (es : Nat) (w : RWrite)
    (hw : writeOk es shard w) : writeChunks shard inner (zipDiv shard inner) w = some (w.1.chunks inner) := by
  obtain ⟨hwf, hb, _, _⟩ := hw
  have hb' := hb
  simp only [Subset.inboundsShape, Subset.rank, Bool.and_eq_true, beq_iff_eq] at hb'
  have hil := tiles_length ht
  unfold writeChunks
  simp only [hwf, Bool.not_true, Bool.false_eq_true, if_false, zipAnyGt_of_allLe _ _ hb'.2]
  unfold innerChunksOf
  cases he : w.1.endInc with
  | none =>
    have : w.1.isEmpty = true := by
      unfold Subset.endInc at he
      split at he
      · assumption
      · cases he
    simp only [chunks_of_empty w.1 inner hwf this]
  | some e =>
    simp only
    rw [if_neg]
    simp only [Subset.rank, zipDiv_length, bne_iff_ne, ne_eq, Bool.or_eq_true, not_or,
      Decidable.not_not]
    omega

/-- all region writes keep the invariant -/
theorem peWrites_inv {inner shard : Shape} (ht : tiles inner shard = true) (es : Nat) (fill : Elem)
    (hfill : fill.length = es) (old : List Elem) (st0 : List (Option (List Elem))) :
    ∀ (ws : List RWrite) (st : List (Option (List Elem))) (cur : List Elem), cur.length = prod shard →
      (∀ w ∈ ws, writeOk es shard w) →
      (∀ w ∈ ws, ∀ c, inB c (zipDiv shard inner) = true → st0.getD (ravel c (zipDiv shard inner)) none = none →
        (c, cellBox inner c) ∈ w.1.chunks inner → straddles (cellBox inner c) w.1 = true →
        (cellBox inner c).extract shard old = List.replicate (prod inner) fill) →
      PEInv inner shard old st0 st cur →
      ∃ st', ArrCfg.foldOpt (peWriteStep es fill inner (zipDiv shard inner)) st
          (ws.map (fun w => (w, w.1.chunks inner))) = some st' ∧
        PEInv inner shard old st0 st' (applyRegionWrites shard cur ws) := by
  intro ws
  induction ws with
  | nil => intro st cur _ _ _ hJ; exact ⟨st, rfl, hJ⟩
  | cons w ws ih =>
    intro st cur hcur hok hS hJ
    obtain ⟨hwf, hb, hy, hye⟩ := hok w (by simp)
    obtain ⟨st1, h1, hJ1⟩ := peWriteStep_inv ht es fill hfill old st0 st cur hcur w.1 w.2 hwf hb hy hye hJ
      (hS w (by simp))
    obtain ⟨st2, h2, hJ2⟩ := ih st1 (updateRuns shard w.1 cur w.2)
      (updateRuns_length shard w.1 cur w.2 hwf hb hcur hy)
      (fun w' hw' => hok w' (by simp [hw'])) (fun w' hw' => hS w' (by simp [hw'])) hJ1
    refine ⟨st2, ?_, hJ2⟩
    simp only [List.map_cons, ArrCfg.foldOpt, h1, h2]

theorem applyRegionWrites_length (sh : Shape) (es : Nat) : ∀ (ws : List RWrite) (old : List Elem),
    old.length = prod sh → (∀ w ∈ ws, writeOk es sh w) → (applyRegionWrites sh old ws).length = prod sh := by
  intro ws
  induction ws with
  | nil => intro old h _; exact h
  | cons w ws ih =>
    intro old h hok
    obtain ⟨hwf, hb, hy, _⟩ := hok w (by simp)
    exact ih _ (updateRuns_length sh w.1 old w.2 hwf hb h hy) (fun w' hw' => hok w' (by simp [hw']))

theorem updateRuns_mem (sh : Shape) (r : Subset) (xs ys : List Elem) (hr : r.wf = true)
    (hb : r.inboundsShape sh = true) (hx : xs.length = prod sh) (hy : ys.length = r.numElements) :
    ∀ z ∈ updateRuns sh r xs ys, z ∈ xs ∨ z ∈ ys := by
  obtain ⟨hl, hp⟩ := updateRuns_spec sh r xs ys hr hb hx hy
  intro z hz
  obtain ⟨q, hq, rfl⟩ := List.mem_iff_getElem.mp hz
  rw [hl] at hq
  have := hp (unravel q sh) (C09.unravel_inB q sh hq)
  rw [C09.ravel_unravel q sh hq, List.getElem?_eq_getElem (by rw [hl]; exact hq)] at this
  split at this
  · exact Or.inr (List.mem_of_getElem? this.symm)
  · exact Or.inl (List.mem_of_getElem? this.symm)

theorem applyRegionWrites_elems (sh : Shape) (es : Nat) : ∀ (ws : List RWrite) (old : List Elem),
    old.length = prod sh → (∀ x ∈ old, x.length = es) → (∀ w ∈ ws, writeOk es sh w) →
    ∀ z ∈ applyRegionWrites sh old ws, z.length = es := by
  intro ws
  induction ws with
  | nil => intro old _ h _; exact h
  | cons w ws ih =>
    intro old h he hok
    obtain ⟨hwf, hb, hy, hye⟩ := hok w (by simp)
    apply ih _ (updateRuns_length sh w.1 old w.2 hwf hb h hy) _ (fun w' hw' => hok w' (by simp [hw']))
    intro x hx
    rcases updateRuns_mem sh w.1 old w.2 hwf hb h hy x hx with h1 | h1
    · exact he x h1
    · exact hye x h1

/-- **the element level of the sharding partial encoder**: on in-bounds region writes, from stored inner chunks that
decode to the pieces of `old`, the call succeeds; the map of updated inner chunks `st` holds, for every inner chunk it
contains, that inner chunk of the updated shard; an inner chunk it does not contain is unchanged -/
theorem shardPEElems_spec {inner shard : Shape} (ht : tiles inner shard = true) (es : Nat) (fill : Elem)
    (hfill : fill.length = es) (entries : List (Nat × Nat)) (chunks : List (Option Bytes))
    (innerDec : Bytes → Option (List Elem)) (innerEnc : List Elem → Bytes) (h : BHandle)
    (old : List Elem) (hold : old.length = prod shard)
    (O : PEOld entries chunks h (prod (zipDiv shard inner)))
    (hcd : ChunksDecode es fill inner innerDec chunks (splitShard shard inner old))
    (ws : List RWrite) (hws : ∀ w ∈ ws, writeOk es shard w) :
    ∃ st, shardPEElems es fill shard inner (zipDiv shard inner) entries innerDec innerEnc h ws =
        some (peEncode fill innerEnc st) ∧
      st.length = prod (zipDiv shard inner) ∧
      ∀ c, inB c (zipDiv shard inner) = true →
        match st.getD (ravel c (zipDiv shard inner)) none with
        | some x => x = (cellBox inner c).extract shard (applyRegionWrites shard old ws)
        | none => (cellBox inner c).extract shard (applyRegionWrites shard old ws) =
            (cellBox inner c).extract shard old := by
  have hmap : ws.mapM (fun w => (writeChunks shard inner (zipDiv shard inner) w).map (fun cs => (w, cs))) =
      some (ws.map (fun w => (w, w.1.chunks inner))) := by
    apply mapM_some_of_forall
    intro w hw
    rw [writeChunks_ok ht es w (hws w hw)]
    rfl
  -- the straddling chunk positions are in range
  have hitem : ∀ w ∈ ws, ∀ p ∈ w.1.chunks inner, p.2 = cellBox inner p.1 ∧ inB p.1 (zipDiv shard inner) = true := by
    intro w hw p hp
    obtain ⟨hwf, hb, _, _⟩ := hws w hw
    obtain ⟨h1, _, _, _, h5, _⟩ := chunk_item_facts ht w.1 hwf hb p hp
    exact ⟨h1, h5⟩
  have hstr : ∀ i ∈ straddlers straddles (zipDiv shard inner) (ws.map (fun w => (w, w.1.chunks inner))),
      i < prod (zipDiv shard inner) := by
    intro i hi
    simp only [straddlers, List.mem_flatMap, List.mem_map, List.mem_filter] at hi
    obtain ⟨wc, ⟨w, hw, rfl⟩, p, ⟨hp, _⟩, rfl⟩ := hi
    exact ravel_lt _ _ (hitem w hw p hp).2
  obtain ⟨st0, hr0, hl0, hp0⟩ := peRead_spec es fill inner entries chunks innerDec h _ _ O hcd _ hstr
  have hpl : (splitShard shard inner old).length = prod (zipDiv shard inner) := splitShard_length _ _ _
  -- the initial invariant
  have hJ0 : PEInv inner shard old st0 st0 old := by
    refine ⟨hl0, ?_⟩
    intro c hc
    have hlt := ravel_lt _ _ hc
    cases hst : st0.getD (ravel c (zipDiv shard inner)) none with
    | some x =>
      simp only
      have := (hp0 _ hlt).1 x hst
      rw [splitShard_getElem? shard inner old c hc] at this
      exact (Option.some.inj this).symm
    | none => exact ⟨rfl, rfl⟩
  obtain ⟨st, hfold, hJ⟩ := peWrites_inv ht es fill hfill old st0 ws st0 old hold hws (by
    intro w hw c hc hnone hmem hstrad
    have hlt := ravel_lt _ _ hc
    rcases (hp0 _ hlt).2 hnone with hns | hcn
    · exfalso
      apply hns
      simp only [straddlers, List.mem_flatMap, List.mem_map, List.mem_filter]
      exact ⟨(w, w.1.chunks inner), ⟨w, hw, rfl⟩, (c, cellBox inner c), ⟨hmem, hstrad⟩, rfl⟩
    · have hlc : ravel c (zipDiv shard inner) < chunks.length := by rw [O.clen]; exact hlt
      have hlp : ravel c (zipDiv shard inner) < (splitShard shard inner old).length := by rw [hpl]; exact hlt
      have := hcd.2 _ hlc hlp
      rw [List.getElem?_eq_getElem hlc] at hcn
      simp only [Option.some.injEq] at hcn
      rw [hcn] at this
      simp only at this
      have hg := splitShard_getElem? shard inner old c hc
      rw [List.getElem?_eq_getElem hlp, this] at hg
      exact (Option.some.inj hg).symm) hJ0
  refine ⟨st, ?_, hJ.1, ?_⟩
  · unfold shardPEElems shardPEElemsWith
    simp only [hmap, hr0, hfold]
  · intro c hc
    have := hJ.2 c hc
    cases hst : st.getD (ravel c (zipDiv shard inner)) none with
    | some x => rw [hst] at this; exact this
    | none => rw [hst] at this; exact this.1

end Zarrs.Partial
