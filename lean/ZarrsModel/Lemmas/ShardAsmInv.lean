import ZarrsModel.Lemmas.ShardAsm
set_option Elab.async false
/- the invariant of the ATOMIC assembly machine and its preservation by every step -/
namespace Zarrs.ShardAsm
open Zarrs Zarrs.Codec

/-- what the shared state holds for task `i`, by program counter -/
def PcOk (p : Params) (s : State) (i : Nat) : Prop :=
  match p.chunks[i]?, s.pc[i]? with
  | some none, some .elided => s.index[i]? = some (Shard.sentinel, Shard.sentinel) ∧ ∀ e ∈ s.log, e.1 ≠ i
  | some (some _), some .start => s.index[i]? = some (Shard.sentinel, Shard.sentinel) ∧ ∀ e ∈ s.log, e.1 ≠ i
  | some (some b), some (.reserved off) => s.index[i]? = some (Shard.sentinel, Shard.sentinel) ∧ (i, off, b.length) ∈ s.log
  | some (some b), some (.indexed off) => s.index[i]? = some (off, b.length) ∧ (i, off, b.length) ∈ s.log
  | some (some b), some (.done off) => s.index[i]? = some (off, b.length) ∧ (i, off, b.length) ∈ s.log ∧
      ∀ k, k < b.length → s.buf[off + k]? = some (some (b.getD k 0))
  | _, _ => False

structure Inv (p : Params) (s : State) : Prop where
  pcLen : s.pc.length = p.chunks.length
  idxLen : s.index.length = p.chunks.length
  bufLen : s.buf.length = p.cap
  chain : Chained p.base s.log s.offset
  logIds : ∀ e ∈ s.log, ∀ e' ∈ s.log, e.1 = e'.1 → e = e'
  logLen : ∀ e ∈ s.log, ∃ b, p.chunks[e.1]? = some (some b) ∧ e.2.2 = b.length
  acct : s.offset + pendingOf p.chunks s.pc = p.base + p.total
  pcs : ∀ i, i < p.chunks.length → PcOk p s i

theorem inv_init (p : Params) : Inv p (init p) := by
  refine ⟨by simp [init], by simp [init], by simp [init], rfl, ?_, ?_, ?_, ?_⟩
  · intro e he; cases he
  · intro e he; cases he
  · show p.base + pendingOf p.chunks (p.chunks.map initPc) = p.base + p.total
    rw [pendingOf_init]; rfl
  · intro i hi
    unfold PcOk
    have h1 : (init p).pc[i]? = some (initPc p.chunks[i]) := by
      simp [init, hi]
    have h2 : (init p).index[i]? = some (Shard.sentinel, Shard.sentinel) := by simp [init, hi]
    rw [h1, h2, List.getElem?_eq_getElem hi]
    cases p.chunks[i] with
    | none => exact ⟨rfl, fun e he => by cases he⟩
    | some b => exact ⟨rfl, fun e he => by cases he⟩
  

/-- frame: a step of another task does not disturb what the state holds for `j` -/
theorem pcOk_frame (p : Params) (s s' : State) (j : Nat)
    (hpc : s'.pc[j]? = s.pc[j]?) (hidx : s'.index[j]? = s.index[j]?)
    (hlog1 : ∀ e ∈ s.log, e ∈ s'.log) (hlog2 : ∀ e ∈ s'.log, e ∈ s.log ∨ e.1 ≠ j)
    (hbuf : ∀ off b, p.chunks[j]? = some (some b) → s.pc[j]? = some (.done off) → (j, off, b.length) ∈ s.log →
      ∀ k, k < b.length → s'.buf[off + k]? = s.buf[off + k]?)
    (h : PcOk p s j) : PcOk p s' j := by
  unfold PcOk at h ⊢
  rw [hpc, hidx]
  have hno : (∀ e ∈ s.log, e.1 ≠ j) → ∀ e ∈ s'.log, e.1 ≠ j := by
    intro h0 e he
    rcases hlog2 e he with h1 | h1
    · exact h0 e h1
    · exact h1
  split at h
  · exact ⟨h.1, hno h.2⟩
  · exact ⟨h.1, hno h.2⟩
  · exact ⟨h.1, hlog1 _ h.2⟩
  · exact ⟨h.1, hlog1 _ h.2⟩
  · rename_i b off hc hp
    refine ⟨h.1, hlog1 _ h.2.1, ?_⟩
    intro k hk
    rw [hbuf off b hc hp h.2.1 k hk]
    exact h.2.2 k hk
  · exact h

theorem getElem?_set_ne' {α : Type} (l : List α) (i j : Nat) (a : α) (h : i ≠ j) : (l.set i a)[j]? = l[j]? := by
  rw [List.getElem?_set]; simp [h]

theorem getElem?_set_self' {α : Type} (l : List α) (i : Nat) (a : α) (h : i < l.length) : (l.set i a)[i]? = some a := by
  rw [List.getElem?_set]; simp [h]

/-- under `fits` a task at `start` passes the capacity check -/
theorem inv_room (p : Params) (s : State) (hfit : p.fits = true) (inv : Inv p s) (i : Nat) (b : Bytes)
    (hc : p.chunks[i]? = some (some b)) (hp : s.pc[i]? = some .start) : s.offset + b.length ≤ p.cap := by
  have hx : Pc.reserved 0 ≠ Pc.start := by intro h; cases h
  have := pendingOf_leave p.chunks s.pc i b (.reserved 0) hc hp hx
  have ha := inv.acct
  simp only [Params.fits, decide_eq_true_eq] at hfit
  have hb : p.base ≤ Shard.indexSize p.cfg := by unfold Params.base; split <;> omega
  omega

theorem inv_log_room (p : Params) (s : State) (hfit : p.fits = true) (inv : Inv p s) (e : Nat × Nat × Nat) (he : e ∈ s.log) :
    e.2.1 + e.2.2 ≤ p.cap := by
  have := (chained_bounds _ _ _ inv.chain e he).2
  have ha := inv.acct
  simp only [Params.fits, decide_eq_true_eq] at hfit
  have hb : p.base ≤ Shard.indexSize p.cfg := by unfold Params.base; split <;> omega
  omega

end Zarrs.ShardAsm
