import ZarrsModel.Lemmas.FsStoreAbs
/- the effect of the write primitives on path resolution: `mkdirAll` + `openWrite` (set), `removeFile` /
`removeDirAll` (erase, erase_prefix) -/
set_option Elab.async false
namespace Zarrs.Fs
open Zarrs

def Kind.fileOf : Kind → Option Bytes
  | .file b => some b
  | _ => none

namespace Tree

theorem fileAt_eq_kind (t : Tree) (p : List Name) : t.fileAt p = (t.stat p).kind.fileOf := by
  unfold fileAt
  cases t.stat p <;> rfl

theorem put1_lookup1_self (t : Tree) (hi : t.Inv) (m : Name) (e : Ent) (h : t.lookup1 m = some e) :
    t.put1 m e = t := by
  induction t using consInd with
  | hnil => simp [lookup1] at h
  | hcons n e0 rest ih =>
    rw [inv_cons] at hi
    rw [lookup1_cons] at h
    rw [put1_cons]
    by_cases h1 : m = n
    · subst h1
      simp only [if_true, Option.some.injEq] at h
      rw [if_pos rfl, h]
    · rw [if_neg h1] at h
      have hm : m ∈ rest.names := by
        apply Classical.byContradiction
        intro hn
        rw [(lookup1_eq_none_iff rest m).2 hn] at h
        cases h
      have hlt := hi.2.1 m hm
      have h2 : ¬ keyLt m n = true := by
        intro h2
        have := keyLt_trans _ _ _ h2 hlt
        rw [keyLt_irrefl] at this; cases this
      rw [if_neg h1, if_neg h2, ih hi.2.2.2 h]

/-- `create_dir_all` of an existing directory changes nothing -/
theorem mkdirAll_of_dir (t : Tree) (hi : t.Inv) (dirs : List Name) (d : Tree) (h : t.stat dirs = .dir d) :
    t.mkdirAll dirs = .ok t := by
  induction dirs generalizing t with
  | nil => rfl
  | cons n rest ih =>
    rw [stat_cons] at h
    unfold mkdirAll
    cases hl : t.lookup1 n with
    | none => rw [hl] at h; cases h
    | some e =>
      rw [hl] at h
      cases e with
      | file b => cases rest <;> cases h
      | dir c =>
        simp only
        rw [ih c (inv_lookup1 t hi n _ hl).1 h]
        simp only
        rw [put1_lookup1_self t hi n _ hl]

/-- what is at `path` before a write there -/
def oldAt (t : Tree) (path : List Name) : Option Bytes := t.fileAt path

/-- path resolution after `create_dir_all(parent)` and `open(create)+write` of `dirs/name` -/
def afterSet (t : Tree) (path : List Name) (v' : Bytes) (p : List Name) : Kind :=
  if p = path then .file v'
  else if p.isPrefixOf path then .dir
  else if path.isPrefixOf p then .notdir
  else (t.stat p).kind

theorem statFree_cases (t : Tree) (path : List Name)
    (h : t.stat path = .noent ∨ ∃ b, t.stat path = .file b) :
    (t.stat path = .noent ∧ t.fileAt path = none) ∨ (∃ b, t.stat path = .file b ∧ t.fileAt path = some b) := by
  rcases h with h | ⟨b, h⟩
  · left; exact ⟨h, by unfold fileAt; rw [h]⟩
  · right; exact ⟨b, h, by unfold fileAt; rw [h]⟩

theorem set_base (t : Tree) (hi : t.Inv) (name : Name) (hn : plainName name = true) (f : Option Bytes → Bytes)
    (h : t.stat [name] = .noent ∨ ∃ b, t.stat [name] = .file b) :
    ∃ t', t.openWrite [] name f = .ok t' ∧ t'.Inv ∧
      ∀ p, (t'.stat p).kind = afterSet t [name] (f (t.fileAt [name])) p := by
  have hk : t.openWrite [] name f = .ok (t.put1 name (.file (f (t.fileAt [name])))) := by
    rw [stat_cons] at h
    cases hl : t.lookup1 name with
    | none => simp [openWrite, atDir, fileAt_cons, hl]
    | some e =>
      rw [hl] at h
      cases e with
      | file b => simp [openWrite, atDir, fileAt_cons, hl]
      | dir c => rcases h with h | ⟨b, h⟩ <;> cases h
  refine ⟨_, hk, inv_put1 t hi name _ hn trivial, ?_⟩
  intro p
  unfold afterSet
  cases p with
  | nil => simp [stat_nil, Stat.kind]
  | cons m ms =>
    rw [stat_cons, lookup1_put1]
    by_cases hm : m = name
    · subst hm
      cases ms with
      | nil => simp [Stat.kind]
      | cons x xs => simp [Stat.kind]
    · have hm' : ¬ name = m := fun e => hm e.symm
      rw [if_neg hm, stat_cons]
      simp [hm, hm']

/-- the main lemma for `set`: when nothing but a file (or nothing) is at `dirs/name`, creating the parents and
writing succeeds, keeps the tree well formed, and changes path resolution as `afterSet` says -/
theorem set_spec (t : Tree) (hi : t.Inv) (dirs : List Name) (name : Name)
    (hd : ∀ n ∈ dirs, plainName n = true) (hn : plainName name = true) (f : Option Bytes → Bytes)
    (h : t.stat (dirs ++ [name]) = .noent ∨ ∃ b, t.stat (dirs ++ [name]) = .file b) :
    ∃ t1 t', t.mkdirAll dirs = .ok t1 ∧ t1.openWrite dirs name f = .ok t' ∧ t'.Inv ∧
      ∀ p, (t'.stat p).kind = afterSet t (dirs ++ [name]) (f (t.fileAt (dirs ++ [name]))) p := by
  induction dirs generalizing t with
  | nil =>
    obtain ⟨t', h1, h2, h3⟩ := set_base t hi name hn f h
    exact ⟨t, t', rfl, h1, h2, h3⟩
  | cons n rest ih =>
    have hd' := fun x hx => hd x (List.mem_cons_of_mem _ hx)
    have hpn := hd n (List.mem_cons_self ..)
    rw [List.cons_append, stat_cons] at h
    -- the child directory the recursion continues in (an empty one when it is created)
    have main : ∀ c : Tree, c.Inv → (t.lookup1 n = some (.dir c) ∨ (t.lookup1 n = none ∧ c = .nil)) →
        (c.stat (rest ++ [name]) = .noent ∨ ∃ b, c.stat (rest ++ [name]) = .file b) →
        ∃ t1 t', t.mkdirAll (n :: rest) = .ok t1 ∧ t1.openWrite (n :: rest) name f = .ok t' ∧ t'.Inv ∧
          ∀ p, (t'.stat p).kind = afterSet t (n :: rest ++ [name]) (f (t.fileAt (n :: rest ++ [name]))) p := by
      intro c hci hl hc
      obtain ⟨c1, c', h1, h2, h3, h4⟩ := ih c hci hd' hc
      have hc1i : c1.Inv := mkdirAll_inv c rest c1 hci hd' h1
      refine ⟨t.put1 n (.dir c1), (t.put1 n (.dir c1)).put1 n (.dir c'), ?_, ?_, ?_, ?_⟩
      · unfold mkdirAll
        rcases hl with hl | ⟨hl, rfl⟩
        · rw [hl]; simp only; rw [h1]
        · rw [hl]; simp only; rw [h1]
      · unfold openWrite atDir
        rw [lookup1_put1, if_pos rfl]
        simp only
        unfold openWrite at h2
        rw [h2]
      · exact inv_put1 _ (inv_put1 t hi n (.dir c1) hpn hc1i) n (.dir c') hpn h3
      · intro p
        have hfa : t.fileAt (n :: rest ++ [name]) = c.fileAt (rest ++ [name]) := by
          rw [List.cons_append, fileAt_cons]
          rcases hl with hl | ⟨hl, rfl⟩
          · rw [hl]
          · rw [hl]
            have : rest ++ [name] ≠ [] := by simp
            cases hr : rest ++ [name] with
            | nil => exact absurd hr this
            | cons x xs => rfl
        rw [hfa]
        unfold afterSet
        cases p with
        | nil => simp [stat_nil, Stat.kind]
        | cons m ms =>
          rw [stat_cons, lookup1_put1, lookup1_put1]
          by_cases hm : m = n
          · subst hm
            simp only [if_true]
            rw [h4 ms]
            unfold afterSet
            have hst : (t.stat (m :: ms)).kind = if ms = [] ∧ t.lookup1 m = none then .noent else (c.stat ms).kind := by
              rw [stat_cons]
              rcases hl with hl | ⟨hl, rfl⟩
              · rw [hl]; simp
              · rw [hl]
                cases ms with
                | nil => simp [Stat.kind]
                | cons x xs => simp [stat_nil_cons, Stat.kind]
            simp only [List.cons_append, List.cons.injEq, true_and, List.isPrefixOf_cons_cons, beq_self_eq_true,
              Bool.true_and, hst]
            by_cases e1 : ms = rest ++ [name]
            · simp [e1]
            · by_cases e2 : ms.isPrefixOf (rest ++ [name]) = true
              · simp [e1, e2]
              · by_cases e3 : (rest ++ [name]).isPrefixOf ms = true
                · simp [e1, e2, e3]
                · have : ms ≠ [] := by
                    intro e; subst e; simp at e2
                  simp [e1, e2, e3, this]
          · have hm' : ¬ n = m := fun e => hm e.symm
            rw [if_neg hm, if_neg hm, stat_cons]
            simp [hm, hm']
    cases hl : t.lookup1 n with
    | none => exact main .nil trivial (Or.inr ⟨hl, rfl⟩) (by
        cases hr : rest ++ [name] with
        | nil => simp at hr
        | cons x xs => exact Or.inl rfl)
    | some e =>
      rw [hl] at h
      cases e with
      | file b =>
        cases hr : rest ++ [name] with
        | nil => simp at hr
        | cons x xs => rw [hr] at h; rcases h with h | ⟨b', h⟩ <;> cases h
      | dir c => exact main c (inv_lookup1 t hi n _ hl).1 (Or.inl hl) h

/-- path resolution after unlinking the entry `dirs/name` (a file, or a directory with all beneath) -/
theorem del_spec (t : Tree) (hi : t.Inv) (dirs : List Name) (name : Name) (f : Tree → Except IoErr Tree)
    (hf : ∀ d d', f d = .ok d' → d' = d.del1 name) (t' : Tree) (h : t.atDir dirs f = .ok t') :
    t'.Inv ∧ ∀ p, (t'.stat p).kind = if (dirs ++ [name]).isPrefixOf p then .noent else (t.stat p).kind := by
  induction dirs generalizing t t' with
  | nil =>
    have := hf t t' h
    subst this
    refine ⟨inv_del1 t hi name, ?_⟩
    intro p
    cases p with
    | nil => simp [stat_nil, Stat.kind]
    | cons m ms =>
      rw [stat_cons, lookup1_del1, stat_cons]
      by_cases hm : m = name
      · subst hm; simp [Stat.kind]
      · have hm' : ¬ name = m := fun e => hm e.symm
        simp [hm, hm']
  | cons n rest ih =>
    unfold atDir at h
    cases hl : t.lookup1 n with
    | none => rw [hl] at h; cases h
    | some e =>
      cases e with
      | file b => rw [hl] at h; cases h
      | dir c =>
        rw [hl] at h
        simp only at h
        cases hc : c.atDir rest f with
        | error e => rw [hc] at h; cases h
        | ok c' =>
          rw [hc] at h
          simp only [Except.ok.injEq] at h
          subst h
          obtain ⟨hci, hpn⟩ := inv_lookup1 t hi n _ hl
          obtain ⟨h1, h2⟩ := ih c hci c' hc
          refine ⟨inv_put1 t hi n (.dir c') hpn h1, ?_⟩
          intro p
          cases p with
          | nil => simp [stat_nil, Stat.kind]
          | cons m ms =>
            rw [stat_cons, lookup1_put1, stat_cons]
            by_cases hm : m = n
            · subst hm
              simp only [if_true, hl, List.cons_append, List.isPrefixOf_cons_cons, beq_self_eq_true, Bool.true_and]
              exact h2 ms
            · have hm' : ¬ n = m := fun e => hm e.symm
              simp [hm, hm']

end Tree
end Zarrs.Fs
