import ZarrsModel.Lemmas.FsStoreList2
/- `list_dir` of the filesystem store equals the ordered map's directory listing -/
set_option Elab.async false
namespace Zarrs.Fs
open Zarrs

namespace Tree

theorem fileAt_single (c : Tree) (n : Name) (b : Bytes) : c.fileAt [n] = some b ↔ c.lookup1 n = some (.file b) := by
  rw [fileAt_cons]
  cases c.lookup1 n with
  | none => simp
  | some e =>
    cases e with
    | file b' => simp
    | dir c' => simp [fileAt_nil]

theorem fileAt_snoc (t : Tree) (pp : List Name) (n : Name) (b : Bytes) :
    t.fileAt (pp ++ [n]) = some b ↔ ∃ c, t.stat pp = .dir c ∧ c.lookup1 n = some (.file b) := by
  constructor
  · intro h
    obtain ⟨c, hs, hf⟩ := stat_prefix_of_file t pp [n] b (by simp) h
    exact ⟨c, hs, (fileAt_single c n b).1 hf⟩
  · rintro ⟨c, hs, hl⟩
    rw [fileAt_append_dir t pp [n] c hs]
    exact (fileAt_single c n b).2 hl

end Tree

theorem mem_listDir_keys (s : FsState) (hi : FsInv s) (p : Key) (path : List Name) (k : Key) :
    k ∈ (s.listDir p path).1 ↔
      ∃ c n b, (FsState.content s).stat path = .dir c ∧ k = p ++ n ∧ c.lookup1 n = some (.file b) := by
  rw [listDir_content]
  cases hs : (FsState.content s).stat path with
  | dir c =>
    simp only
    rw [mem_sortKeys, Tree.mem_dirEntries_keys c (Tree.stat_inv _ hi.content path c hs)]
    constructor
    · rintro ⟨n, b, h1, h2⟩; exact ⟨c, n, b, rfl, h1, h2⟩
    · rintro ⟨c', n, b, h0, h1, h2⟩
      simp only [Stat.dir.injEq] at h0
      subst h0
      exact ⟨n, b, h1, h2⟩
  | noent => simp
  | notdir => simp
  | file b => simp

theorem mem_listDir_prefixes (s : FsState) (hi : FsInv s) (p : Key) (path : List Name) (q : Key) :
    q ∈ (s.listDir p path).2 ↔
      ∃ c n c', (FsState.content s).stat path = .dir c ∧ q = p ++ n ++ ['/'] ∧
        c.lookup1 n = some (.dir c') ∧ c'.hasFile = true := by
  rw [listDir_content]
  cases hs : (FsState.content s).stat path with
  | dir c =>
    simp only
    rw [mem_sortKeys, Tree.mem_dirEntries_prefixes c (Tree.stat_inv _ hi.content path c hs)]
    constructor
    · rintro ⟨n, c', h1, h2, h3⟩; exact ⟨c, n, c', rfl, h1, h2, h3⟩
    · rintro ⟨c0, n, c', h0, h1, h2, h3⟩
      simp only [Stat.dir.injEq] at h0
      subst h0
      exact ⟨n, c', h1, h2, h3⟩
  | noent => simp
  | notdir => simp
  | file b => simp

theorem listDir_sorted (s : FsState) (p : Key) (path : List Name) :
    (s.listDir p path).1.Pairwise (fun a b => keyLt a b = true) ∧
    (s.listDir p path).2.Pairwise (fun a b => keyLt a b = true) := by
  rw [listDir_content]
  cases (FsState.content s).stat path with
  | dir c => exact ⟨sortKeys_sorted _, sortKeys_sorted _⟩
  | noent => exact ⟨List.Pairwise.nil, List.Pairwise.nil⟩
  | notdir => exact ⟨List.Pairwise.nil, List.Pairwise.nil⟩
  | file b => exact ⟨List.Pairwise.nil, List.Pairwise.nil⟩

/-- keys directly in the directory `path` -/
theorem listDir_keys_abs (s : FsState) (hi : FsInv s) (path : List Name) (hpl : ∀ n ∈ path, plainName n = true)
    (k : Key) :
    k ∈ (s.listDir (dirKey path) path).1 ↔ (k ∈ (absFs s).keys ∧ parentOf k = dirKey path) := by
  rw [mem_listDir_keys s hi, mem_absFs_keys s hi]
  have hc := hi.content
  constructor
  · rintro ⟨c, n, b, hs, rfl, hl⟩
    obtain ⟨_, hn⟩ := Tree.inv_lookup1 c (Tree.stat_inv _ hc path c hs) n _ hl
    obtain ⟨hn1, hn2⟩ := plainName_spec hn
    have hk : dirKey path ++ n = joinPath (path ++ [n]) := by rw [joinPath_dirKey path [n] (by simp)]; rfl
    have hsp : splitPath (dirKey path ++ n) = path ++ [n] := by
      rw [hk]
      apply split_join _ (by simp)
      intro x hx
      rcases List.mem_append.1 hx with hx | hx
      · exact plain_noSlash hpl x hx
      · simp only [List.mem_singleton] at hx; subst hx; exact hn2
    refine ⟨⟨b, ?_⟩, parentOf_append_noSlash _ n (dirKey_dirShaped path) hn2⟩
    rw [hsp]
    exact (Tree.fileAt_snoc _ path n b).2 ⟨c, hs, hl⟩
  · rintro ⟨⟨b, hf⟩, hpar⟩
    have hplk := Tree.fileAt_plain _ hc _ _ hf
    obtain ⟨last, _, hsplit⟩ := path_snoc (splitPath k) (splitPath_ne_nil k)
    have hlast : '/' ∉ last := plain_noSlash hplk last (by rw [hsplit]; simp)
    have hinit : ∀ n ∈ (splitPath k).dropLast, '/' ∉ n :=
      fun n hn => plain_noSlash hplk n (List.dropLast_subset _ hn)
    have hk : k = dirKey (splitPath k).dropLast ++ last := by
      conv => lhs; rw [← join_split k, hsplit, joinPath_dirKey _ [last] (by simp)]
      rfl
    have hpar' : parentOf k = dirKey (splitPath k).dropLast := by
      conv => lhs; rw [hk]
      exact parentOf_append_noSlash _ last (dirKey_dirShaped _) hlast
    have hpe : (splitPath k).dropLast = path :=
      dirKey_inj _ _ hinit (plain_noSlash hpl) (hpar'.symm.trans hpar)
    rw [hsplit, hpe] at hf
    obtain ⟨c, hs, hl⟩ := (Tree.fileAt_snoc _ path last b).1 hf
    exact ⟨c, last, b, hs, by rw [hk, hpe], hl⟩

/-- child prefixes of the directory `path`: exactly those with a key beneath (emptied directories are not reported) -/
theorem listDir_prefixes_abs (s : FsState) (hi : FsInv s) (path : List Name) (hpl : ∀ n ∈ path, plainName n = true)
    (q : Key) :
    q ∈ (s.listDir (dirKey path) path).2 ↔
      ∃ k ∈ (absFs s).keys, ∃ cn : Key, cn ≠ [] ∧ '/' ∉ cn ∧ q = dirKey path ++ cn ++ ['/'] ∧ q.isPrefixOf k = true := by
  rw [mem_listDir_prefixes s hi]
  have hc := hi.content
  constructor
  · rintro ⟨c, n, c', hs, rfl, hl, hf⟩
    have hci := Tree.stat_inv _ hc path c hs
    obtain ⟨hci', hn⟩ := Tree.inv_lookup1 c hci n _ hl
    obtain ⟨hn1, hn2⟩ := plainName_spec hn
    obtain ⟨rest, v, hfr⟩ := (Tree.hasFile_iff c' hci').1 hf
    have hr : rest ≠ [] := by intro e; subst e; rw [Tree.fileAt_nil] at hfr; cases hfr
    have hplr := Tree.fileAt_plain c' hci' rest v hfr
    have hns : ∀ x ∈ path ++ [n] ++ rest, '/' ∉ x := by
      intro x hx
      rcases List.mem_append.1 hx with hx | hx
      · rcases List.mem_append.1 hx with hx | hx
        · exact plain_noSlash hpl x hx
        · simp only [List.mem_singleton] at hx; subst hx; exact hn2
      · exact plain_noSlash hplr x hx
    have hfile : (FsState.content s).fileAt (path ++ [n] ++ rest) = some v := by
      rw [List.append_assoc, Tree.fileAt_append_dir _ path _ c hs, List.singleton_append, Tree.fileAt_cons, hl]
      exact hfr
    refine ⟨joinPath (path ++ [n] ++ rest), ?_, n, hn1, hn2, rfl, ?_⟩
    · rw [mem_absFs_keys s hi, split_join _ (by simp) hns]
      exact ⟨v, hfile⟩
    · rw [← dirKey_snoc]
      refine (dirKey_prefix_iff (path ++ [n]) _ (by simp) ?_ hns).2 ⟨rest, hr, rfl⟩
      intro x hx
      exact hns x (List.mem_append_left _ hx)
  · rintro ⟨k, hk, cn, hcn1, hcn2, rfl, hpre⟩
    obtain ⟨b, hf⟩ := (mem_absFs_keys s hi k).1 hk
    have hplk := Tree.fileAt_plain _ hc _ _ hf
    rw [← dirKey_snoc, ← join_split k] at hpre
    have hns : ∀ x ∈ path ++ [cn], '/' ∉ x := by
      intro x hx
      rcases List.mem_append.1 hx with hx | hx
      · exact plain_noSlash hpl x hx
      · simp only [List.mem_singleton] at hx; subst hx; exact hcn2
    obtain ⟨rest, hr, hsp⟩ := (dirKey_prefix_iff (path ++ [cn]) (splitPath k) (splitPath_ne_nil k) hns
      (plain_noSlash hplk)).1 hpre
    rw [hsp, List.append_assoc] at hf
    obtain ⟨c, hs, hfc⟩ := Tree.stat_prefix_of_file _ path ([cn] ++ rest) b (by simp) hf
    rw [List.singleton_append, Tree.fileAt_cons] at hfc
    cases hl : c.lookup1 cn with
    | none => rw [hl] at hfc; cases hfc
    | some e =>
      rw [hl] at hfc
      cases e with
      | file b' => simp only [hr, if_false] at hfc; cases hfc
      | dir c' =>
        have hci' := (Tree.inv_lookup1 c (Tree.stat_inv _ hc path c hs) cn _ hl).1
        exact ⟨c, cn, c', hs, rfl, hl, (Tree.hasFile_iff c' hci').2 ⟨rest, b, hfc⟩⟩

theorem listDir_abs (s : FsState) (hi : FsInv s) (p : Key) (path : List Name) (hp : prefixPath p = some path) :
    s.listDir p path = Spec.listDir (absFs s) p := by
  obtain ⟨hpk, hpl⟩ := prefixPath_spec hp
  subst hpk
  obtain ⟨hs1, hs2⟩ := listDir_sorted s (dirKey path) path
  apply Prod.ext
  · apply sorted_keys_ext _ _ hs1
    · rw [Spec.listDir_eq]
      exact (Zarrs.KV.sorted_keys_filter _ (absFs_sorted s) _).filter _
    · intro k
      rw [listDir_keys_abs s hi path hpl, Spec.listDir_keys]
  · apply sorted_keys_ext _ _ hs2 (Spec.listDir_prefixes_sorted _ _)
    intro q
    rw [listDir_prefixes_abs s hi path hpl,
      Spec.listDir_prefixes _ _ (dirKey_dirShaped path) (absFs_keys_valid s hi)]

end Zarrs.Fs
