import ZarrsModel.Model.Partial
import ZarrsModel.Props.C09
import ZarrsModel.Lemmas.PartialBytes
import ZarrsModel.Lemmas.PartialArray
import ZarrsModel.Lemmas.PartialDecode
import ZarrsModel.Lemmas.PartialTranspose
import ZarrsModel.Lemmas.PartialSqueeze
/-
helper lemmas for C02.  The per-decoder facts live in `PartialBytes` (bytes-to-bytes decoders), `PartialArray`
(region extraction), `PartialDecode` (`bytes` decoder, array cache), `PartialTranspose` and `PartialSqueeze`;
this file unfolds `Chain.encode` / `Chain.partialDecoder` into structural recursions and composes the stages.
-/
namespace Zarrs.Partial
open Zarrs Zarrs.Codec

/-! ### the chain as structural recursions -/

/-- the decoded shape of every array-to-array stage, then the innermost encoded shape -/
def aShapes : List AStage → Shape → List Shape
  | [], sh => [sh]
  | st :: rest, sh => sh :: aShapes rest (st.encShape sh)

def aEnc : List AStage → Shape → List Elem → List Elem
  | [], _, xs => xs
  | st :: rest, sh, xs => aEnc rest (st.encShape sh) (st.enc sh xs)

def aPD : List AStage → Shape → AHandle → AHandle
  | [], _, h => h
  | st :: rest, sh, h => st.pd sh (aPD rest (st.encShape sh) h)

theorem shapes_fold (sh0 : Shape) (stages : List AStage) : ∀ (pre : List Shape) (s : Shape),
    stages.foldl (fun (acc : List Shape) st => acc ++ [st.encShape (acc.getLastD sh0)]) (pre ++ [s]) =
      pre ++ aShapes stages s := by
  induction stages with
  | nil => intro pre s; rfl
  | cons st rest ih =>
    intro pre s
    rw [List.foldl_cons, List.getLastD_concat, ih (pre ++ [s]) (st.encShape s), List.append_assoc]
    rfl

theorem aShapes_getLastD (stages : List AStage) : ∀ (s d : Shape),
    (aShapes stages s).getLastD d = shapesOf stages s := by
  induction stages with
  | nil => intro s d; rfl
  | cons st rest ih =>
    intro s d
    rw [aShapes, List.getLastD_cons, ih]
    rfl

theorem zip_foldr (stages : List AStage) : ∀ (sh : Shape) (inner : AHandle),
    (List.zip stages (aShapes stages sh)).foldr (fun (p : AStage × Shape) h => p.1.pd p.2 h) inner =
      aPD stages sh inner := by
  induction stages with
  | nil => intro sh inner; rfl
  | cons st rest ih =>
    intro sh inner
    rw [aShapes, List.zip_cons_cons, List.foldr_cons, ih]
    rfl

theorem enc_fold (stages : List AStage) : ∀ (sh : Shape) (xs : List Elem),
    stages.foldl (fun (acc : List Elem × Shape) st => (st.enc acc.2 acc.1, st.encShape acc.2)) (xs, sh) =
      (aEnc stages sh xs, shapesOf stages sh) := by
  induction stages with
  | nil => intro sh xs; rfl
  | cons st rest ih =>
    intro sh xs
    rw [List.foldl_cons, ih]
    rfl

theorem encode_eq (c : Chain) (sh : Shape) (xs : List Elem) :
    c.encode sh xs = c.b2b.foldl (fun b st => st.enc b) (bytesEnc c.big c.unit (aEnc c.a2a sh xs).flatten) := by
  unfold Chain.encode
  rw [enc_fold]

theorem partialDecoder_eq (c : Chain) (sh : Shape) (fill : Elem) (input : BHandle) :
    c.partialDecoder sh fill input =
      aPD c.a2a sh (bytesPD c.big c.es c.unit (shapesOf c.a2a sh) fill (c.b2b.foldr (fun st h => st.pd h) input)) := by
  have h1 : c.a2a.foldl (fun (acc : List Shape) st => acc ++ [st.encShape (acc.getLastD sh)]) [sh] =
      aShapes c.a2a sh := shapes_fold sh c.a2a [] sh
  unfold Chain.partialDecoder
  simp only [h1, aShapes_getLastD]
  exact zip_foldr c.a2a sh _

/-! ### bytes-to-bytes stages -/

theorem bChain_ok (stages : List BStage)
    (hstep : ∀ st ∈ stages, ∀ (b : Bytes) (g : BHandle), BHandleOk g (st.enc b) → BHandleOk (st.pd g) b) :
    ∀ (b : Bytes) (h : BHandle), BHandleOk h (stages.foldl (fun b st => st.enc b) b) →
      BHandleOk (stages.foldr (fun st h => st.pd h) h) b := by
  induction stages with
  | nil => intro b h hh; exact hh
  | cons st rest ih =>
    intro b h hh
    rw [List.foldr_cons]
    apply hstep st (by simp) b
    exact ih (fun st' hst' => hstep st' (by simp [hst'])) (st.enc b) h hh

theorem bStage_absent (st : BStage) (h : BHandle) (hh : BHandleAbsent h) : BHandleAbsent (st.pd h) := by
  cases st with
  | stripSuffix n sum => exact stripSuffixPD_absent n h hh
  | decodeAll enc dec => exact decodeAllPD_absent dec h hh
  | cache => exact bytesCachePD_absent h hh

theorem bChain_absent (stages : List BStage) (h : BHandle) (hh : BHandleAbsent h) :
    BHandleAbsent (stages.foldr (fun st h => st.pd h) h) := by
  induction stages with
  | nil => exact hh
  | cons st rest ih => exact bStage_absent st _ ih

/-! ### array-to-array stages -/

/-- what a stage needs of the decoded shape it is applied to -/
def AStage.ok : AStage → Shape → Prop
  | .transpose order, sh => validOrder order sh.length = true
  | .squeeze, sh => ∀ d ∈ sh, 0 < d
  | .cache, _ => True

def aOk : List AStage → Shape → Prop
  | [], _ => True
  | st :: rest, sh => st.ok sh ∧ aOk rest (st.encShape sh)

theorem aStage_length (st : AStage) (sh : Shape) (xs : List Elem) (ho : st.ok sh) (hx : xs.length = prod sh) :
    (st.enc sh xs).length = prod (st.encShape sh) := by
  cases st with
  | transpose order => exact transposeEnc_length order sh xs
  | squeeze => rw [prod_encShape_squeeze sh ho]; exact hx
  | cache => exact hx

theorem aStage_mem (st : AStage) (sh : Shape) (xs : List Elem) (ho : st.ok sh) (hx : xs.length = prod sh) :
    ∀ y ∈ st.enc sh xs, y ∈ xs := by
  cases st with
  | transpose order => exact mem_transposeEnc order sh xs ho hx
  | squeeze => intro y hy; exact hy
  | cache => intro y hy; exact hy

theorem aStage_fill (st : AStage) (sh : Shape) (f : Elem) (ho : st.ok sh) :
    st.enc sh (List.replicate (prod sh) f) = List.replicate (prod (st.encShape sh)) f := by
  cases st with
  | transpose order => exact transpose_fill' order sh f ho
  | squeeze => rw [prod_encShape_squeeze sh ho]; rfl
  | cache => rfl

theorem aStage_step (st : AStage) (sh : Shape) (xs : List Elem) (h : AHandle) (ho : st.ok sh)
    (hx : xs.length = prod sh) (hh : AHandleOk h (st.encShape sh) (st.enc sh xs)) :
    AHandleOk (st.pd sh h) sh xs := by
  cases st with
  | transpose order => exact transposePD_ok' order sh h xs ho hx hh
  | squeeze => exact squeezePD_ok' sh h xs ho hx hh
  | cache => exact arrayCachePD_ok sh h xs hx hh

theorem aChain_ok (stages : List AStage) : ∀ (sh : Shape) (xs : List Elem) (inner : AHandle),
    aOk stages sh → xs.length = prod sh → AHandleOk inner (shapesOf stages sh) (aEnc stages sh xs) →
    AHandleOk (aPD stages sh inner) sh xs := by
  induction stages with
  | nil => intro sh xs inner _ _ hin; exact hin
  | cons st rest ih =>
    intro sh xs inner ha hx hin
    exact aStage_step st sh xs _ ha.1 hx
      (ih (st.encShape sh) (st.enc sh xs) inner ha.2 (aStage_length st sh xs ha.1 hx) hin)

theorem aEnc_chunk (es : Nat) (stages : List AStage) : ∀ (sh : Shape) (xs : List Elem),
    aOk stages sh → xs.length = prod sh → (∀ x ∈ xs, x.length = es) →
    (aEnc stages sh xs).length = prod (shapesOf stages sh) ∧ ∀ x ∈ aEnc stages sh xs, x.length = es := by
  induction stages with
  | nil => intro sh xs _ hx he; exact ⟨hx, he⟩
  | cons st rest ih =>
    intro sh xs ha hx he
    exact ih (st.encShape sh) (st.enc sh xs) ha.2 (aStage_length st sh xs ha.1 hx)
      (fun y hy => he y (aStage_mem st sh xs ha.1 hx y hy))

theorem aEnc_fill (f : Elem) (stages : List AStage) : ∀ (sh : Shape), aOk stages sh →
    aEnc stages sh (List.replicate (prod sh) f) = List.replicate (prod (shapesOf stages sh)) f := by
  induction stages with
  | nil => intro sh _; rfl
  | cons st rest ih =>
    intro sh ha
    show aEnc rest (st.encShape sh) (st.enc sh (List.replicate (prod sh) f)) = _
    rw [aStage_fill st sh f ha.1, ih (st.encShape sh) ha.2]
    rfl

/-! ### the two chain theorems, with the hypotheses in the form of this file -/

theorem chain_ok (c : Chain) (sh : Shape) (fill : Elem) (xs : List Elem)
    (hes : 0 < c.es) (hu : 0 < c.unit) (hdiv : c.es % c.unit = 0)
    (hxl : xs.length = prod sh) (hxe : ∀ x ∈ xs, x.length = c.es) (ha : aOk c.a2a sh)
    (hb : ∀ st ∈ c.b2b, ∀ (b : Bytes) (g : BHandle), BHandleOk g (st.enc b) → BHandleOk (st.pd g) b) :
    AHandleOk (c.partialDecoder sh fill (storeHandle (some (c.encode sh xs)))) sh xs := by
  rw [partialDecoder_eq, encode_eq]
  obtain ⟨hl, he⟩ := aEnc_chunk c.es c.a2a sh xs ha hxl hxe
  apply aChain_ok c.a2a sh xs _ ha hxl
  apply bytesPD_ok' c.big c.es c.unit _ fill _ _ hes hu hdiv hl he
  apply bChain_ok c.b2b hb
  exact storeHandle_some_ok _

theorem chain_absent (c : Chain) (sh : Shape) (fill : Elem) (ha : aOk c.a2a sh) :
    AHandleOk (c.partialDecoder sh fill (storeHandle none)) sh (List.replicate (prod sh) fill) := by
  rw [partialDecoder_eq]
  apply aChain_ok c.a2a sh _ _ ha (by simp)
  rw [aEnc_fill fill c.a2a sh ha]
  apply bytesPD_absent'
  exact bChain_absent c.b2b _ storeHandle_none_absent

end Zarrs.Partial
