import ZarrsModel.Model.Partial
import ZarrsModel.Props.C09
/- helper lemmas for C02 -/
namespace Zarrs.Partial

end Zarrs.Partial
