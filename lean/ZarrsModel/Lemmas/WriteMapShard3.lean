import ZarrsModel.Lemmas.WriteMapShard2
set_option Elab.async false
/- helper lemmas for C17 (sharded routes), part 3: the per-chunk views of an array-level read (any region of a regular
grid), the views-of-views map of a multi-chunk read -/
namespace Zarrs
open Zarrs.Subset

/-! ### the pieces of a region, with the witnesses kept -/

/-- `writeMap_perm` together with, for every chunk of the box, an index it shares with the region -/
theorem pieces_facts (gcfg : List DimCfg) (arr G : Shape) (hwf : (Grid.new gcfg).wf = true)
    (hG : (Grid.new gcfg).gridShape arr = some G) (hlen : arr.length = gcfg.length)
    (R : Subset) (hr : R.wf = true) (hb : R.inboundsShape arr = true) (hne : R.isEmpty = false) (es : Nat) :
    ∃ box, (Grid.new gcfg).chunksInArraySubset R arr = some box ∧
      (∀ c ∈ box.indices, ∃ cs i0, (Grid.new gcfg).subset c = some cs ∧ cs.contains i0 = true ∧
        R.contains i0 = true) ∧
      (rangeBytes (box.indices.flatMap (pieceRanges (Grid.new gcfg) R es))).Perm
        (List.range (R.numElements * es)) := by
  obtain ⟨box, hbox, _, hperm⟩ := writeMap_perm gcfg arr G hwf hG hlen R hr hb hne es
  obtain ⟨box', hbox', hiff⟩ := C10.chunks_in_subset_exact gcfg arr G hwf hG hlen R hr hb hne
  have hbb : box' = box := by rw [hbox] at hbox'; exact (Option.some.inj hbox').symm
  subst hbb
  refine ⟨box', hbox, ?_, hperm⟩
  have hr' := hr
  simp only [Subset.wf, beq_iff_eq] at hr'
  have hb' := hb
  simp only [Subset.inboundsShape, Subset.rank, Bool.and_eq_true, beq_iff_eq] at hb'
  have hne' := hne
  simp only [Subset.isEmpty] at hne'
  have hs : R.contains R.start = true := mem_start R.start R.shape hr' hne'
  have hsB : inB R.start arr = true := inB_of_allLe_end _ _ _ arr hb'.1 hb'.2 hs
  obtain ⟨c0, cs0, _, hcG, hcs0, hci0, _⟩ := C10.partition gcfg arr G hwf hG hlen R.start hsB
  have hbc0 : box'.contains c0 = true := (hiff c0).mpr ⟨hcG, cs0, R.start, hcs0, hci0, hs⟩
  have hbwf := box'.wf_of_contains c0 hbc0
  intro c hc
  obtain ⟨_, cs, i0, hcs, h1, h2⟩ := (hiff c).mp ((box'.mem_indices hbwf c).mp hc)
  exact ⟨cs, i0, hcs, h1, h2⟩

/-! ### regular grids: the box of chunks of a region does not depend on the array shape -/

theorem grid_new_fixed (cs : Shape) : Grid.new (cs.map DimCfg.fixed) = Grid.regular cs := by
  simp [Grid.new, Grid.regular, List.map_map, Function.comp_def, Dim.new]

theorem chunkIndices_regular (cs : Shape) (i : Idx) : ∃ c, (Grid.regular cs).chunkIndices i = some c := by
  induction cs generalizing i with
  | nil => exact ⟨[], by simp [Grid.regular, Grid.chunkIndices, zipOpt]⟩
  | cons s ss ih =>
    cases i with
    | nil => exact ⟨[], by simp [Grid.regular, Grid.chunkIndices, zipOpt]⟩
    | cons x xs =>
      obtain ⟨c, hc⟩ := ih xs
      simp only [Grid.regular, Grid.chunkIndices] at hc
      refine ⟨x / s :: c, ?_⟩
      simp only [Grid.regular, Grid.chunkIndices, List.map_cons, zipOpt]
      rw [hc]
      simp [Dim.chunkIndex]

theorem chunksIn_regular_arr (cs : Shape) (r : Subset) (arr arr' : Shape) :
    (Grid.regular cs).chunksInArraySubset r arr = (Grid.regular cs).chunksInArraySubset r arr' := by
  simp only [Grid.chunksInArraySubset]
  cases r.endInc with
  | none => rfl
  | some e =>
    obtain ⟨c, hc⟩ := chunkIndices_regular cs e
    simp only [hc]

theorem gridShape_regular (cs arr : Shape) : ∃ G, (Grid.regular cs).gridShape arr = some G := by
  induction cs generalizing arr with
  | nil => exact ⟨[], by simp [Grid.regular, Grid.gridShape, zipOpt]⟩
  | cons s ss ih =>
    cases arr with
    | nil => exact ⟨[], by simp [Grid.regular, Grid.gridShape, zipOpt]⟩
    | cons a as =>
      obtain ⟨G, hG⟩ := ih as
      simp only [Grid.regular, Grid.gridShape] at hG
      refine ⟨(a + s - 1) / s :: G, ?_⟩
      simp only [Grid.regular, Grid.gridShape, List.map_cons, zipOpt]
      rw [hG]
      simp [Dim.gridShape]

theorem wf_regular (cs : Shape) (hpos : ∀ k ∈ cs, 0 < k) : (Grid.regular cs).wf = true := by
  simp only [Grid.wf, Grid.regular, List.all_map, List.all_eq_true]
  intro k hk
  simp only [Function.comp, Grid.wfDim, decide_eq_true_eq]
  exact hpos k hk

/-- **any non-empty region of a regular grid** (in bounds, overhanging the array at a ragged edge, or beyond it): the
per-chunk views tile the region's buffer -/
theorem regular_pieces (cs : Shape) (hpos : ∀ k ∈ cs, 0 < k) (R : Subset) (hr : R.wf = true)
    (hrank : R.rank = cs.length) (hne : R.isEmpty = false) (arr : Shape) (es : Nat) :
    ∃ box, (Grid.regular cs).chunksInArraySubset R arr = some box ∧
      (∀ c ∈ box.indices, ∃ cs' i0, (Grid.regular cs).subset c = some cs' ∧ cs'.contains i0 = true ∧
        R.contains i0 = true) ∧
      (rangeBytes (box.indices.flatMap (pieceRanges (Grid.regular cs) R es))).Perm
        (List.range (R.numElements * es)) := by
  have hr' := hr
  simp only [Subset.wf, beq_iff_eq] at hr'
  simp only [Subset.rank] at hrank
  obtain ⟨G, hG⟩ := gridShape_regular cs R.endExc
  have h := pieces_facts (cs.map DimCfg.fixed) R.endExc G (by rw [grid_new_fixed]; exact wf_regular cs hpos)
    (by rw [grid_new_fixed]; exact hG)
    (by simp only [Subset.endExc, addIdx_length, List.length_map]; omega) R hr
    (by
      simp only [Subset.inboundsShape, Subset.rank, Subset.endExc, addIdx_length, Bool.and_eq_true, beq_iff_eq]
      exact ⟨by omega, Partial.allLe_refl _⟩)
    hne es
  rw [grid_new_fixed] at h
  rw [chunksIn_regular_arr cs R arr R.endExc]
  exact h

/-! ### (d) views of views in a multi-chunk read -/

/-- the map of a multi-chunk read with `decode_into` trees writes the bytes of the plain per-chunk views -/
theorem shardedReadMap_of_pieces {α} (cfg : ArrCfg α) (tree : Idx → IntoTree) (R : Subset) (hr : R.wf = true)
    (es : Nat) (box : Subset) (hbox : cfg.grid.chunksInArraySubset R cfg.shape = some box)
    (hchunk : ∀ c ∈ box.indices, ∃ cs i0, cfg.grid.subset c = some cs ∧ cs.contains i0 = true ∧
      R.contains i0 = true)
    (htree : ∀ c cs, cfg.grid.subset c = some cs → (tree c).wf cs.shape) :
    ∃ m, cfg.shardedReadMap tree R es = some m ∧
      (rangeBytes m).Perm (rangeBytes (box.indices.flatMap (pieceRanges cfg.grid R es))) := by
  simp only [ArrCfg.shardedReadMap, hbox]
  apply flatOpt_map_perm
  intro c hc
  obtain ⟨cs, i0, hcs, hi0c, hi0r⟩ := hchunk c hc
  obtain ⟨hw, hin, _⟩ := piece_facts hr hi0c hi0r
  -- the in-chunk region lies in the chunk
  have hcwf := cs.wf_of_contains i0 hi0c
  have hrk : cs.rank = R.rank := by
    simp only [Subset.rank]
    rw [← (mem_length hi0c).1, ← (mem_length hi0r).1]
  have hov : ∀ i, (cs.overlap R).contains i = (cs.contains i && R.contains i) :=
    C09.overlap_mem cs R hcwf hr hrk
  have hovwf : (cs.overlap R).wf = true := by
    simp only [Subset.wf, Subset.rank, beq_iff_eq] at hr hcwf hrk ⊢
    simp only [Subset.overlap, Subset.endExc, zipSub_length, zipMin_length, zipMax_length, addIdx_length]
    omega
  have hovrank : (cs.overlap R).rank = cs.rank := by
    simp only [Subset.rank] at hrk ⊢
    simp only [Subset.overlap, zipMax_length]; omega
  have hovne : (cs.overlap R).isEmpty = false :=
    (cs.overlap R).nonempty_of_contains i0 (by rw [hov, hi0r, hi0c]; rfl)
  have hsub1 : ∀ i, (cs.overlap R).contains i = true → cs.contains i = true := by
    intro i hi; rw [hov, Bool.and_eq_true] at hi; exact hi.1
  obtain ⟨_, hinc, _, _⟩ := Subset.rel_facts (cs.overlap R) cs hovwf hcwf hovrank hovne hsub1
  simp only [hcs, pieceRanges, hinc, Bool.not_true, Bool.false_eq_true, if_false]
  split
  · rename_i hwhole
    simp only [Bool.and_eq_true, beq_iff_eq] at hwhole
    exact decodeInto_refines R.shape es (tree c) cs.shape _ (htree c cs hcs) hw hin
      (by simpa [Subset.relativeTo] using hwhole.2)
  · exact ⟨_, rfl, List.Perm.refl _⟩

end Zarrs
