import ZarrsModel.Model.Index
import ZarrsModel.Model.Subset
import ZarrsModel.Model.Iter
