-- This module serves as the root of the `ZarrsModel` library.
-- Import modules here that should be built as part of the library.
import ZarrsModel.Basic
