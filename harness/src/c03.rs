//! C03: codecs invert and honour their declared encoded size. Chains are built from metadata JSON and driven through
//! `CodecChain::{encode, decode, encoded_representation}`; array-to-array codecs also through their own shape/fill mapping.
use crate::arr::{dtypes, from_array_bytes, parse_elems, show_elems, to_array_bytes, DType};
use crate::util::*;
use std::num::NonZeroU64;
use std::sync::Arc;
use zarrs::array::codec::{ArrayToArrayCodecTraits, ArrayToBytesCodecTraits, CodecChain, CodecOptions, CodecTraits};
use zarrs::array::{BytesRepresentation, ChunkRepresentation, DataType, FillValue};
use zarrs::metadata::v3::MetadataV3;

fn repr(dtype: &str, shape: &[u64], fill: &[u8]) -> Option<ChunkRepresentation> {
    let md: MetadataV3 = serde_json::from_str(&format!("\"{}\"", dtype)).ok()?;
    let dt = DataType::from_metadata(&md, zarrs::config::global_config().data_type_aliases_v3()).ok()?;
    let shape: Vec<NonZeroU64> = shape.iter().map(|&s| NonZeroU64::new(s)).collect::<Option<Vec<_>>>()?;
    ChunkRepresentation::new(shape, dt, FillValue::new(fill.to_vec())).ok()
}

/// `c03 vdec`: feed an arbitrary (truncated / corrupted) byte string to the decoder of a chain holding one
/// variable-length array->bytes codec: `err`, `val <elems>`, or `panic`
fn exec_vdec(m: &std::collections::BTreeMap<String, String>) -> String {
    guarded(|| {
        let json = String::from_utf8(unhex(&m["json"])).unwrap();
        let mds: Vec<MetadataV3> = match serde_json::from_str(&json) { Ok(x) => x, Err(_) => return "err-json".into() };
        let chain = match CodecChain::from_metadata(&mds) { Ok(c) => Arc::new(c), Err(_) => return "err-chain".into() };
        let shape = pnl(&m["shape"]);
        let rep = match repr(&m["dtype"], &shape, &unhex(&m["fill"])) { Some(r) => r, None => return "err-repr".into() };
        let bytes = unhex(&m["bytes"]);
        match chain.decode(bytes.into(), &rep, &CodecOptions::default()) {
            Ok(d) => format!("val {}", show_elems(&from_array_bytes(None, d))),
            Err(e) => { let _ = e.to_string(); "err".into() }
        }
    })
}

/// the encoding of `data` by the chain `[json]` (used by the generator to derive malformed values)
fn encode_with(json: &str, dtype: &str, shape: &[u64], fill: &[u8], data: &[Vec<u8>]) -> Option<Vec<u8>> {
    guarded_res(|| {
        let mds: Vec<MetadataV3> = serde_json::from_str(json).map_err(|e| e.to_string())?;
        let chain = CodecChain::from_metadata(&mds).map_err(|e| e.to_string())?;
        let rep = repr(dtype, shape, fill).ok_or("repr")?;
        chain.encode(to_array_bytes(None, data), &rep, &CodecOptions::default()).map(|e| e.into_owned()).map_err(|e| e.to_string())
    }).ok()
}

/// `c03 fsorep`: what the first array->array codec of the chain ADVERTISES for a chunk representation
/// (`encoded_representation`: data type, fill value bytes, shape; `decoded_shape` of that shape): `val …` or `err`
fn exec_fsorep(m: &std::collections::BTreeMap<String, String>) -> String {
    guarded(|| {
        let json = String::from_utf8(unhex(&m["json"])).unwrap();
        let mds: Vec<MetadataV3> = match serde_json::from_str(&json) { Ok(x) => x, Err(_) => return "err-json".into() };
        let chain = match CodecChain::from_metadata(&mds) { Ok(c) => Arc::new(c), Err(_) => return "err-chain".into() };
        let shape = pnl(&m["shape"]);
        let rep = match repr(&m["dtype"], &shape, &unhex(&m["fill"])) { Some(r) => r, None => return "err-repr".into() };
        let a2a = chain.array_to_array_codecs();
        let codec = match a2a.first() { Some(c) => c.codec(), None => return "err-nocodec".into() };
        match codec.encoded_representation(&rep) {
            Ok(r) => {
                let back = codec.decoded_shape(r.shape()).ok().flatten().map(|s| nl(&s.iter().map(|x| x.get()).collect::<Vec<u64>>())).unwrap_or("none".into());
                // the three mappings asked one by one must say the same
                let one = match (codec.encoded_data_type(rep.data_type()), codec.encoded_fill_value(rep.data_type(), rep.fill_value()), codec.encoded_shape(rep.shape())) {
                    (Ok(d), Ok(f), Ok(s)) => &d == r.data_type() && f.as_ne_bytes() == r.fill_value().as_ne_bytes() && s.as_slice() == r.shape(),
                    _ => false,
                };
                format!("val dtype={} fill={} shape={} back={} same={}", r.data_type().name(), hex(r.fill_value().as_ne_bytes()), nl(&r.shape_u64()), back, one)
            }
            Err(e) => { let _ = e.to_string(); "err".into() }
        }
    })
}

pub fn exec(line: &str) -> String {
    let (v, m) = parse_line(line);
    if v.get(1).map(|s| s == "vdec").unwrap_or(false) { return exec_vdec(&m); }
    if v.get(1).map(|s| s == "fsorep").unwrap_or(false) { return exec_fsorep(&m); }
    if v.get(1).map(|s| s == "chains" || s == "chaindec" || s == "chainpd").unwrap_or(false) { return crate::c03c::exec(line); }
    guarded(|| {
        let json = String::from_utf8(unhex(&m["json"])).unwrap();
        let mds: Vec<MetadataV3> = match serde_json::from_str(&json) { Ok(x) => x, Err(_) => return "err-json".into() };
        let chain = match CodecChain::from_metadata(&mds) { Ok(c) => Arc::new(c), Err(_) => return "err-chain".into() };
        let shape = pnl(&m["shape"]);
        let fill = unhex(&m["fill"]);
        let es: Option<usize> = if m["es"] == "v" { None } else { Some(m["es"].parse().unwrap()) };
        let rep = match repr(&m["dtype"], &shape, &fill) { Some(r) => r, None => return "err-repr".into() };
        let data = parse_elems(&m["data"]);
        let opts = CodecOptions::default();
        let bytes = to_array_bytes(es, &data);
        let declared = match chain.encoded_representation(&rep) { Ok(r) => r, Err(_) => return "err-repr2".into() };
        let enc = match chain.encode(bytes, &rep, &opts) { Ok(e) => e.into_owned(), Err(_) => return "err-encode".into() };
        let size_ok = match declared {
            BytesRepresentation::FixedSize(n) => enc.len() as u64 == n,
            BytesRepresentation::BoundedSize(n) => enc.len() as u64 <= n,
            BytesRepresentation::UnboundedSize => true,
        };
        let decl = match declared { BytesRepresentation::FixedSize(n) => format!("fixed:{}", n), BytesRepresentation::BoundedSize(n) => format!("bounded:{}", n), BytesRepresentation::UnboundedSize => "unbounded".into() };
        let dec = match chain.decode(enc.clone().into(), &rep, &opts) { Ok(d) => from_array_bytes(es, d), Err(_) => return format!("err-decode len={} decl={}", enc.len(), decl) };
        let rt = dec == data;
        // array-to-array codecs: advertised shape / fill vs what encoding produces
        let mut a2a = vec![];
        let mut cur = rep.clone();
        for c in chain.array_to_array_codecs() {
            let codec = c.codec();
            let nxt = match codec.encoded_representation(&cur) { Ok(r) => r, Err(_) => { a2a.push("err".to_string()); break; } };
            let back = codec.decoded_shape(nxt.shape()).ok().flatten().map(|s| s.iter().map(|x| x.get()).collect::<Vec<u64>>());
            a2a.push(format!("{}>{}~{}", nl(&cur.shape_u64()), nl(&nxt.shape_u64()), back.map(|b| nl(&b)).unwrap_or("none".into())));
            cur = nxt;
        }
        let modelled = m.get("modelled").map(|s| s == "1").unwrap_or(false);
        let lossy = m.get("lossy").map(|s| format!(" dec={}", if s.is_empty() { String::new() } else { show_elems(&dec) })).unwrap_or_default();
        format!("val rt={} sizeok={} len={} decl={} a2a={} enc={}{}", rt, size_ok, enc.len(), decl, if a2a.is_empty() { "-".to_string() } else { a2a.join(";") }, if modelled { hex(&enc) } else { "?".into() }, lossy)
    })
}

fn payload(rng: &mut Rng, dt: &DType, fill: &[u8], n: u64) -> Vec<Vec<u8>> {
    let kind = rng.below(6);
    (0..n).map(|i| match dt.es {
        Some(es) => match kind {
            0 => rng.bytes(es).iter().map(|&b| if dt.name == "bool" { b & 1 } else { b }).collect(),   // incompressible
            1 => vec![if dt.name == "bool" { 1 } else { 0x5a }; es],                                     // constant
            2 => fill.to_vec(),                                                                        // all fill
            3 => vec![if dt.name == "bool" { 1 } else { 0xff }; es],                                     // extreme
            4 => { let mut v = vec![0u8; es]; v[0] = (i % 2) as u8; v }                                  // low entropy
            _ => if i % 3 == 0 { fill.to_vec() } else { rng.bytes(es).iter().map(|&b| if dt.name == "bool" { b & 1 } else { b }).collect() },
        },
        None => match kind {
            0 => (0..rng.below(9)).map(|_| b'a' + rng.below(26) as u8).collect(),
            1 => b"zz".to_vec(),
            2 => fill.to_vec(),
            3 => vec![],                                                                               // empty strings
            5 => if i == 0 { let len = if rng.chance(1, 4) { rng.range(65530, 70000) } else { rng.range(250, 700) };     // one long element (lengths needing 2 and 3 bytes)
                             (0..len).map(|j| if dt.name == "string" { b'a' + (j % 26) as u8 } else { (j * 7 + len) as u8 }).collect() }
                 else if dt.name == "string" { (0..rng.below(5)).map(|_| b'a' + rng.below(26) as u8).collect() } else { let k = rng.below(5) as usize; rng.bytes(k) },
            _ => if i % 2 == 0 { vec![] } else { (0..rng.below(40)).map(|_| b'a' + rng.below(26) as u8).collect() },
        },
    }).collect()
}

pub fn generate(tier: &str, seed: u64) -> Vec<String> {
    let mut rng = Rng::new(seed ^ 0xC03);
    let thorough = tier == "thorough";
    let n = if thorough { 20000 } else { 2500 };
    let dts = dtypes();
    let mut out = vec![];
    for k in 0..n {
        let dt = rng.pick(&dts).clone();
        let fill = rng.pick(&dt.fills).clone();
        // shapes: small, non-cubic, size-1 dims; occasionally larger payloads to cross compressor block boundaries
        let rank = rng.range(1, 3) as usize;
        let big = k % 40 == 0;
        let shape: Vec<u64> = (0..rank).map(|d| if big && d == 0 { rng.range(500, 9000) } else { rng.range(1, 6) }).collect();
        let nel: u64 = shape.iter().product();
        let mut json: Vec<String> = vec![];
        let mut model: Vec<String> = vec![];
        let mut modelled = dt.es.is_some();
        let mut bit_range: Option<(u64, u64)> = None;
        let mut signed_range = false;
        // array -> array
        let mut perm: Vec<usize> = (0..rank).collect();
        if rng.chance(1, 2) {
            for i in (1..rank).rev() { let j = rng.below(i as u64 + 1) as usize; perm.swap(i, j); }
            json.push(format!("{{\"name\":\"transpose\",\"configuration\":{{\"order\":[{}]}}}}", perm.iter().map(|x| x.to_string()).collect::<Vec<_>>().join(",")));
            model.push(format!("transpose:{}", nl(&perm)));
            // a second array->array codec: it must be handed the representation the FIRST one produced (the permuted shape)
            if rank >= 2 && rng.chance(1, 3) {
                let mut perm2: Vec<usize> = (0..rank).collect();
                for i in (1..rank).rev() { let j = rng.below(i as u64 + 1) as usize; perm2.swap(i, j); }
                json.push(format!("{{\"name\":\"transpose\",\"configuration\":{{\"order\":[{}]}}}}", perm2.iter().map(|x| x.to_string()).collect::<Vec<_>>().join(",")));
                model.push(format!("transpose:{}", nl(&perm2)));
            }
        }
        if rng.chance(1, 6) && dt.es.is_some() { json.push("{\"name\":\"zarrs.squeeze\"}".into()); model.push("squeeze".into()); }
        // array -> bytes
        match dt.es {
            Some(es) => {
                let k2 = rng.below(8);
                if dt.numeric && es > 1 && k2 == 0 { json.push("{\"name\":\"numcodecs.pcodec\",\"configuration\":{}}".into()); modelled = false; model.push("pcodec".into()); }
                else if (dt.name == "bool" || dt.numeric || dt.name == "complex64") && k2 == 1 {
                    // packbits with its options: padding byte first/last, and (unsigned types) a bit range the data stays within
                    let mut cfgs: Vec<String> = vec![];
                    match rng.below(4) { 0 => cfgs.push("\"padding_encoding\":\"first_byte\"".into()), 1 => cfgs.push("\"padding_encoding\":\"last_byte\"".into()), 2 => cfgs.push("\"padding_encoding\":\"none\"".into()), _ => {} }
                    if dt.name.starts_with("uint") && rng.chance(1, 2) {
                        let bits = (es * 8) as u64;
                        let first = rng.below(bits);
                        let last = rng.range(first, bits - 1);
                        if rng.chance(2, 3) { cfgs.push(format!("\"first_bit\":{}", first)); cfgs.push(format!("\"last_bit\":{}", last)); bit_range = Some((first, last)); }
                        else { cfgs.push(format!("\"last_bit\":{}", last)); bit_range = Some((0, last)); }
                    } else if dt.name.starts_with("int") && rng.chance(1, 2) {
                        // signed types: the low `last+1` bits are kept and the decoder SIGN-EXTENDS from bit `last`; data are the
                        // two's-complement values that fit (negative ones included), so the codec is lossless on them
                        let bits = (es * 8) as u64;
                        let last = rng.range(1, bits - 1);
                        cfgs.push(format!("\"last_bit\":{}", last)); bit_range = Some((0, last)); signed_range = true;
                    }
                    json.push(if cfgs.is_empty() { "{\"name\":\"packbits\"}".to_string() } else { format!("{{\"name\":\"packbits\",\"configuration\":{{{}}}}}", cfgs.join(",")) });
                    // component width / sign extension of the data type, bit range, padding mode: modelled byte for byte
                    let w = if dt.name == "bool" { 1 } else if dt.name == "complex64" { 32 } else { es * 8 } as u64;   // component width
                    let (f, l) = bit_range.unwrap_or((0, w - 1));
                    let pad = if cfgs.iter().any(|c| c.contains("first_byte")) { "first" } else if cfgs.iter().any(|c| c.contains("last_byte")) { "last" } else { "none" };
                    model.push(format!("packbits:{}:{}:{}:{}:{}", w, f, l, pad, dt.name.starts_with("int") as u8));
                }
                else if es == 1 { json.push("{\"name\":\"bytes\"}".into()); model.push(format!("bytes:little:{}", es)); }
                else {
                    let e = if rng.chance(1, 2) { "big" } else { "little" };
                    // byte-swap unit: the component for complex types, nothing for raw bits
                    let unit = if dt.name == "complex64" { 4 } else if dt.name.starts_with('r') { 1 } else { es };
                    json.push(format!("{{\"name\":\"bytes\",\"configuration\":{{\"endian\":\"{}\"}}}}", e)); model.push(format!("bytes:{}:{}", e, unit));
                }
            }
            None => {
                // variable-length array->bytes codecs, modelled byte for byte: the numcodecs layout under its four names,
                // and zarrs' `vlen` with both index types, both index byte orders, optional crc32c on index and data
                // (an external compressor in a chain: not modelled, round trip only)
                modelled = true;
                match rng.below(5) {
                    0 => { json.push("{\"name\":\"zarrs.vlen_v2\"}".into()); model.push("vlenv2".into()); }
                    1 => { json.push(if dt.name == "string" { "{\"name\":\"vlen-utf8\"}".to_string() } else { "{\"name\":\"vlen-bytes\"}".to_string() }); model.push("vlenv2".into()); }
                    2 if rng.chance(1, 2) => { json.push("{\"name\":\"vlen-array\"}".into()); model.push("vlenv2".into()); }
                    _ => {
                        let i64_ = rng.chance(1, 2);
                        let ibig = rng.chance(1, 2);
                        let icrc = rng.chance(1, 3);
                        let dkind = rng.below(5);   // 0,1: bytes  2: bytes+crc32c  3: bytes(endian given)  4: bytes+gzip (not modelled)
                        let icodecs = format!("{{\"name\":\"bytes\",\"configuration\":{{\"endian\":\"{}\"}}}}{}", if ibig { "big" } else { "little" }, if icrc { ",{\"name\":\"crc32c\"}" } else { "" });
                        let dcodecs = match dkind { 2 => "{\"name\":\"bytes\"},{\"name\":\"crc32c\"}", 3 => "{\"name\":\"bytes\",\"configuration\":{\"endian\":\"big\"}}", 4 => "{\"name\":\"bytes\"},{\"name\":\"gzip\",\"configuration\":{\"level\":5}}", _ => "{\"name\":\"bytes\"}" };
                        json.push(format!("{{\"name\":\"zarrs.vlen\",\"configuration\":{{\"index_codecs\":[{}],\"data_codecs\":[{}],\"index_data_type\":\"{}\"}}}}", icodecs, dcodecs, if i64_ { "uint64" } else { "uint32" }));
                        if dkind == 4 { modelled = false; model.push("vlen:x".into()); }
                        else { model.push(format!("vlen:{}:{}:{}:{}", if i64_ { 64 } else { 32 }, if ibig { "big" } else { "little" }, icrc as u8, (dkind == 2) as u8)); }
                    }
                }
            }
        }
        // bytes -> bytes
        let after_bytes = model.last().map(|s| s.starts_with("bytes")).unwrap_or(false);
        for i in 0..rng.below(3) {
            match rng.below(10) {
                0 => { json.push("{\"name\":\"crc32c\"}".into()); model.push("crc32c".into()); }
                1 => { json.push("{\"name\":\"numcodecs.fletcher32\"}".into()); model.push("fletcher32".into()); }
                2 if after_bytes && i == 0 => { let es = dt.es.unwrap_or(1); json.push(format!("{{\"name\":\"numcodecs.shuffle\",\"configuration\":{{\"elementsize\":{}}}}}", es)); model.push(format!("shuffle:{}", es)); }
                3 => { json.push(format!("{{\"name\":\"gzip\",\"configuration\":{{\"level\":{}}}}}", rng.range(0, 9))); modelled = false; model.push("gzip".into()); }
                4 => { json.push(format!("{{\"name\":\"zstd\",\"configuration\":{{\"level\":{},\"checksum\":{}}}}}", rng.range(1, 19), rng.chance(1, 2))); modelled = false; model.push("zstd".into()); }
                5 => { json.push(format!("{{\"name\":\"blosc\",\"configuration\":{{\"cname\":\"{}\",\"clevel\":{},\"shuffle\":\"noshuffle\",\"blocksize\":0}}}}", rng.pick(&["lz4", "zstd", "zlib", "blosclz", "lz4hc", "snappy"]), rng.range(0, 9))); modelled = false; model.push("blosc".into()); }
                6 => { json.push(format!("{{\"name\":\"numcodecs.bz2\",\"configuration\":{{\"level\":{}}}}}", rng.range(1, 9))); modelled = false; model.push("bz2".into()); }
                7 => { json.push(format!("{{\"name\":\"numcodecs.zlib\",\"configuration\":{{\"level\":{}}}}}", rng.range(0, 9))); modelled = false; model.push("zlib".into()); }
                8 => { json.push(format!("{{\"name\":\"zarrs.gdeflate\",\"configuration\":{{\"level\":{}}}}}", rng.range(0, 12))); modelled = false; model.push("gdeflate".into()); }
                _ => { json.push("{\"name\":\"crc32c\"}".into()); model.push("crc32c".into()); }
            }
        }
        let mut data = payload(&mut rng, &dt, &fill.1, nel);
        if let Some((first, last)) = bit_range {
            // keep every element within the encoded bit range (the codec is lossless on such values by its definition)
            for e in data.iter_mut() {
                let mut v = 0u64; for (i, b) in e.iter().enumerate() { v |= (*b as u64) << (8 * i); }
                let width = last - first + 1;
                let mask = if width == 64 { u64::MAX } else { ((1u64 << width) - 1) << first };
                v &= mask;
                // (signed) sign-extend from bit `last` over the element's width
                if signed_range && last < 63 && (v >> last) & 1 == 1 { v |= !0u64 << (last + 1); }
                for (i, b) in e.iter_mut().enumerate() { *b = (v >> (8 * i)) as u8; }
            }
        }
        if k % 6 == 5 {
            // lossy codecs: the decoded value is judged by the model (bitround: the prescribed rounding; fixedscaleoffset: within 0.5/scale)
            let n = rng.range(1, 12);
            let (name, es2, mant): (&str, usize, u32) = *rng.pick(&[("float32", 4, 23), ("float64", 8, 52), ("float16", 2, 10), ("bfloat16", 2, 7), ("uint8", 1, 0), ("uint16", 2, 0), ("int16", 2, 0), ("uint32", 4, 0), ("int32", 4, 0), ("uint64", 8, 0), ("int64", 8, 0)]);
            let elems: Vec<Vec<u8>> = (0..n).map(|_| { let mut b = rng.bytes(es2); if mant > 0 && rng.chance(1, 2) {
                // ordinary magnitudes
                let v = (rng.below(2000000) as f64 - 1000000.0) / 7.0;
                b = match name { "float32" => (v as f32).to_le_bytes().to_vec(), "float64" => v.to_le_bytes().to_vec(), "float16" => half::f16::from_f64(v / 100.0).to_le_bytes().to_vec(), _ => half::bf16::from_f64(v).to_le_bytes().to_vec() };
            } b }).collect();
            if rng.chance(1, 2) {
                let keep = rng.below(if mant > 0 { mant as u64 + 3 } else { (es2 * 8) as u64 + 1 });
                out.push(format!("c03 codec lossy=bitround:{}:{} dtype={} es={} shape={} fill={} modelled=0 model=bitround json={} data={}", keep, mant, name, es2, n, hex(&vec![0u8; es2]),
                    hex(format!("[{{\"name\":\"bitround\",\"configuration\":{{\"keepbits\":{}}}}},{{\"name\":\"bytes\",\"configuration\":{{\"endian\":\"little\"}}}}]", keep).as_bytes()), show_elems(&elems)));
            } else if name != "float16" && name != "bfloat16" && name != "uint64" && name != "int64" {
                // scale/offset on a type, stored as itself or as a narrower integer
                let (v2, kind) = match name { "float32" => ("f4", "f"), "float64" => ("f8", "f"), "uint8" => ("u1", "u"), "uint16" => ("u2", "u"), "int16" => ("i2", "i"), "uint32" => ("u4", "u"), _ => ("i4", "i") };
                let scale = if kind == "f" { *rng.pick(&[1u32, 1, 2, 10, 100]) } else { 1 };   // an integer type stored as itself: scaling must fit the type
                let offset = if kind == "f" { *rng.pick(&[0i32, 0, -3, 1000]) } else { 0 };
                // float64 also at magnitudes a binary32 intermediate cannot carry (2^40 + eighths)
                let big = name == "float64" && rng.chance(1, 3);
                let elems: Vec<Vec<u8>> = if kind == "f" { (0..n).map(|_| { let v = (rng.below(200000) as f64 - 100000.0) / 8.0 + if big { 1099511627776.0 } else { 0.0 }; if name == "float32" { (v as f32).to_le_bytes().to_vec() } else { v.to_le_bytes().to_vec() } }).collect() } else { elems };
                // stored as itself (explicitly), as a wider integer, or (floats) as a narrower one: the conversion must be exact
                let astype = if kind == "f" { if big { *rng.pick(&["", "f8", "i8"]) } else { *rng.pick(&["", "i4", "i8", "f8"]) } } else { *rng.pick(&["", v2, "i8"]) };
                let astype = if astype == "f8" && name == "float32" { "f4" } else { astype };
                let cfg = format!("{{\"offset\":{},\"scale\":{},\"dtype\":\"{}\"{}}}", offset, scale, v2, if astype.is_empty() { String::new() } else { format!(",\"astype\":\"{}\"", astype) });
                out.push(format!("c03 codec lossy=fso:{}:{}:{} dtype={} es={} shape={} fill={} modelled=0 model=fixedscaleoffset json={} data={}", offset, scale, kind, name, es2, n, hex(&vec![0u8; es2]),
                    hex(format!("[{{\"name\":\"numcodecs.fixedscaleoffset\",\"configuration\":{}}},{{\"name\":\"bytes\",\"configuration\":{{\"endian\":\"little\"}}}}]", cfg).as_bytes()), show_elems(&elems)));
            }
        }
        // byte-exact prediction of very large chunks is left out (the list-based model is quadratic in the element
        // count); they remain round-trip / declared-size cases
        let modelled = modelled && shape.iter().product::<u64>() <= 12000;
        out.push(format!("c03 codec dtype={} es={} shape={} fill={} modelled={} model={} json={} data={}", dt.name,
            dt.es.map(|e| e.to_string()).unwrap_or("v".into()), nl(&shape), hex(&fill.1), modelled as u8, model.join("|"),
            hex(format!("[{}]", json.join(",")).as_bytes()), show_elems(&data)));
        // malformed values for the variable-length codecs: the bare array->bytes codec decodes truncations, bit flips,
        // extended and tampered versions of a genuine encoding; the model must agree on accept/reject and on the value
        if dt.es.is_none() && nel <= 36 {
            if let Some(tok) = model.iter().find(|t| t.starts_with("vlen") && *t != "vlen:x") {
                let a2b = json.iter().find(|j| j.contains("vlen")).unwrap();
                let cj = format!("[{}]", a2b);
                if let Some(enc) = encode_with(&cj, dt.name, &[nel], &fill.1, &data) {
                    let mut variants: Vec<Vec<u8>> = vec![enc.clone()];
                    if !enc.is_empty() {
                        variants.push(enc[..enc.len() - 1].to_vec());
                        variants.push(enc[..rng.below(enc.len() as u64) as usize].to_vec());
                        variants.push(enc[..rng.below(enc.len().min(24) as u64) as usize].to_vec());
                        for _ in 0..3 { let mut e = enc.clone(); let p = rng.below(e.len() as u64) as usize; e[p] ^= 1 << rng.below(8); variants.push(e); }
                        // flips in the first bytes (count / index length / first offsets or lengths)
                        for _ in 0..2 { let mut e = enc.clone(); let p = rng.below(e.len().min(28) as u64) as usize; e[p] ^= 1 << rng.below(8); variants.push(e); }
                        let mut e = enc.clone(); let extra = 1 + rng.below(6) as usize; e.extend_from_slice(&rng.bytes(extra)); variants.push(e);
                        if tok.starts_with("vlen:") && enc.len() >= 8 {
                            // the index length field: one more than there is, far too large, the largest u64, zero
                            let il = u64::from_le_bytes(enc[0..8].try_into().unwrap());
                            for v in [il + 1, (enc.len() as u64).saturating_sub(7), 1u64 << 40, u64::MAX, u64::MAX - 7, 0] { let mut e = enc.clone(); e[0..8].copy_from_slice(&v.to_le_bytes()); variants.push(e); }
                        }
                    }
                    let glen = rng.below(40) as usize; variants.push(rng.bytes(glen));
                    for v in variants {
                        out.push(format!("c03 vdec codec={} dtype={} shape={} fill={} json={} bytes={}", tok, dt.name, nel, hex(&fill.1), hex(cj.as_bytes()), hex(&v)));
                    }
                }
            }
        }
    }
    // (nested) sharded chains: see c03c.rs
    generate_zfp(tier, seed, &mut out);
    generate_fso(tier, seed, &mut out);
    out.extend(crate::c03c::generate(tier, seed));
    out
}

/// `zfp` (own stream): every mode on every data type it accepts, chunks of 1 to 4 dimensions whose extents are and are not
/// multiples of the 4-wide zfp block. `reversible` must return the original bytes; `fixed_accuracy` a value within the
/// tolerance (finite floats of moderate magnitude); `fixed_precision` / `fixed_rate` prescribe no tolerance: decoding must
/// succeed and the declared size must hold. (Unsigned 32/64-bit values above the signed maximum: known finding F-C03-K1.)
fn generate_zfp(tier: &str, seed: u64, out: &mut Vec<String>) {
    let mut rng = Rng::new(seed ^ 0xC03_2F9);
    let n = if tier == "thorough" { 2400 } else { 300 };
    let types: [(&str, usize); 10] = [("int8", 1), ("uint8", 1), ("int16", 2), ("uint16", 2), ("int32", 4), ("uint32", 4), ("int64", 8), ("uint64", 8), ("float32", 4), ("float64", 8)];
    for k in 0..n {
        let (name, es) = *rng.pick(&types);
        let float = name.starts_with("float");
        let rank = rng.range(1, 4) as usize;
        let shape: Vec<u64> = (0..rank).map(|_| *rng.pick(&[1u64, 2, 3, 4, 5, 8, 9])).collect();
        let nel: u64 = shape.iter().product();
        let kind = rng.below(5);
        let elems: Vec<Vec<u8>> = (0..nel).map(|i| {
            if float {
                let v = match kind { 0 => (rng.below(2000000) as f64 - 1000000.0) / 128.0, 1 => 2.5, 2 => 0.0, 3 => (i as f64) * 0.25 - 3.0, _ => if rng.chance(1, 2) { 0.0 } else { (rng.below(4096) as f64) / 16.0 } };
                if name == "float32" { (v as f32).to_le_bytes().to_vec() } else { v.to_le_bytes().to_vec() }
            } else {
                let mut b = match kind { 0 => rng.bytes(es), 1 => vec![0x5a; es], 2 => vec![0; es], 3 => { let mut v = vec![0u8; es]; v[0] = (i % 7) as u8; v } _ => vec![0xff; es] };
                // (uint32 / uint64) values above the signed maximum only in every eighth line: they are the known finding
                if (name == "uint32" || name == "uint64") && k % 8 != 0 { b[es - 1] &= 0x7f; }
                b
            }
        }).collect();
        let (spec, cfg) = match rng.below(if float { 6 } else { 4 }) {
            0 | 1 => ("reversible:0".to_string(), "{\"mode\":\"reversible\"}".to_string()),
            2 => { let p = rng.range(1, 64); (format!("precision:{}", p), format!("{{\"mode\":\"fixed_precision\",\"precision\":{}}}", p)) }
            3 => { let r = *rng.pick(&[1u32, 4, 8, 12, 16, 32]); (format!("rate:{}", r), format!("{{\"mode\":\"fixed_rate\",\"rate\":{}}}", r)) }
            _ => { let (tn, td, t) = *rng.pick(&[(1u32, 2u32, "0.5"), (1, 16, "0.0625"), (1, 1024, "0.0009765625"), (4, 1, "4.0")]); (format!("accuracy:{}:{}", tn, td), format!("{{\"mode\":\"fixed_accuracy\",\"tolerance\":{}}}", t)) }
        };
        out.push(format!("c03 codec lossy=zfp:{} dtype={} es={} shape={} fill={} modelled=0 model=zfp json={} data={}", spec, name, es, nl(&shape), hex(&vec![0u8; es]),
            hex(format!("[{{\"name\":\"zfp\",\"configuration\":{}}}]", cfg).as_bytes()), show_elems(&elems)));
    }
}

/// the data types of the `fixedscaleoffset` tie: (v3 name, v2 names, element size, signed, float)
const FSO_TYPES: [(&str, &[&str], usize, bool, bool); 10] = [
    ("int8", &["|i1", "i1"], 1, true, false), ("uint8", &["u1", "u1", "u1", "u1", "u1", "u1", "u1", "|u1"], 1, false, false),
    ("int16", &["i2", "<i2", ">i2"], 2, true, false), ("uint16", &["u2", "<u2"], 2, false, false),
    ("int32", &["i4", "<i4"], 4, true, false), ("uint32", &["u4", "<u4", ">u4"], 4, false, false),
    ("int64", &["i8", "<i8"], 8, true, false), ("uint64", &["u8", "<u8"], 8, false, false),
    ("float32", &["f4", "<f4"], 4, true, true), ("float64", &["f8", "<f8", ">f8"], 8, true, true),
];

/// an integer type of the table; int8 rarely (no spelling of it is accepted by the codec: `|i1` becomes `<|i1`, `i1` becomes `<i1`)
fn fso_pick_int(rng: &mut Rng) -> usize { let i = rng.below(8) as usize; if i == 0 && !rng.chance(1, 5) { 1 + rng.below(7) as usize } else { i } }
fn fso_pick_any(rng: &mut Rng) -> usize { let i = rng.below(10) as usize; if i == 0 && !rng.chance(1, 5) { 1 + rng.below(9) as usize } else { i } }
fn fso_int_bytes(v: i128, es: usize) -> Vec<u8> { (0..es).map(|i| (v >> (8 * i)) as u8).collect() }
fn fso_range(es: usize, signed: bool) -> (i128, i128) {
    let bits = 8 * es as u32;
    if signed { (-(1i128 << (bits - 1)), (1i128 << (bits - 1)) - 1) } else { (0, (1i128 << bits) - 1) }
}

/// `numcodecs.fixedscaleoffset` predicted EXACTLY by the model (Model/FixedScaleOffset.lean):
/// * `c03 codec lossy=fsox:<offset token>:<scale token>:<dtype>:<astype|->`: integer element types x integer `astype`
///   (none, same, narrower, wider, other signedness; now and then a float one) x offsets of both signs (also one no `f32`
///   holds: 16777217) x scale 1, small integer scales and 0.5, data including the extremes of the type, the values around the
///   offset and (64-bit) around 2^53 / 2^63; float element types with dyadic data (ties included) under power-of-two scales
///   (inside the exactness predicate) and under 3 / 10 / 100 / 0.1 (outside: judged with tolerance), never saturating `astype`;
///   the encoded bytes are printed (`enc=`) and predicted.  (int8 cannot be configured: `|i1` and `i1` are both refused when the codec is created, as is `|u1`;
///   a few such lines are kept: `err-chain`.)
/// * `c03 fsorep`: what the codec advertises (`encoded_representation`) for a chunk representation, including the
///   representations it must refuse (another data type than configured; float16 / complex / bool).
fn generate_fso(tier: &str, seed: u64, out: &mut Vec<String>) {
    let mut rng = Rng::new(seed ^ 0xC03_F50);
    let n = if tier == "thorough" { 8000 } else { 1000 };
    let int_offsets: [&str; 16] = ["0", "0", "1", "-1", "3", "-3", "100", "-100", "128", "-128", "1000", "-1000", "70000", "-70000", "16777217", "-300"];
    for k in 0..n {
        let float_class = k % 10 >= 7;
        let (name, v2s, es, signed, _) = if float_class { FSO_TYPES[8 + rng.below(2) as usize] } else { FSO_TYPES[fso_pick_int(&mut rng)] };
        let v2 = *rng.pick(v2s);
        let cnt = rng.range(1, 12);
        if !float_class {
            // integer element type
            let (lo, hi) = fso_range(es, signed);
            let a = match rng.below(8) { 0 | 1 => None, 2 => Some(FSO_TYPES.iter().position(|t| t.0 == name).unwrap()), 7 if rng.chance(1, 3) => Some(8 + rng.below(2) as usize), _ => Some(fso_pick_int(&mut rng)) };
            let astype = a.map(|i| *rng.pick(FSO_TYPES[i].1));
            let mut off = rng.pick(&int_offsets).to_string();
            if rng.chance(1, 8) { off = match rng.below(4) { 0 => lo.max(-(1 << 40)).to_string(), 1 => hi.min(1 << 40).to_string(), 2 => ((hi + 1) / 2).min(1 << 40).to_string(), _ => "2147483648".into() }; }
            let scale = *rng.pick(&["1", "1", "1", "1", "2", "3", "5", "10", "0.5"]);
            let o: i128 = off.parse().unwrap();
            let (alo, ahi) = a.map(|i| if FSO_TYPES[i].4 { (lo, hi) } else { fso_range(FSO_TYPES[i].2, FSO_TYPES[i].3) }).unwrap_or((lo, hi));
            let elems: Vec<Vec<u8>> = (0..cnt).map(|_| {
                let v: i128 = match rng.below(12) {
                    0 => lo, 1 => hi, 2 => lo + 1, 3 => hi - 1, 4 => 0, 5 => o, 6 => o + rng.below(5) as i128 - 2,
                    // around the edges of `astype` seen through the offset
                    7 => o + alo + rng.below(3) as i128 - 1, 8 => o + ahi + rng.below(3) as i128 - 1,
                    9 if es == 8 => *rng.pick(&[1i128 << 53, (1 << 53) + 1, (1 << 53) - 1, -(1 << 53) - 1, (1 << 62) + 12345, (1 << 63) - 1, (1 << 63) + 1025, (1 << 54) + 2, (1 << 54) + 6]),
                    10 => rng.below(600) as i128 - 300,
                    _ => { let b = rng.bytes(es); let mut v = 0i128; for (i, x) in b.iter().enumerate() { v |= (*x as i128) << (8 * i); } if signed && v > hi { v - (1i128 << (8 * es)) } else { v } }
                };
                fso_int_bytes(v.clamp(lo, hi), es)
            }).collect();
            let cfg = format!("{{\"offset\":{},\"scale\":{},\"dtype\":\"{}\"{}}}", off, scale, v2, astype.map(|a| format!(",\"astype\":\"{}\"", a)).unwrap_or_default());
            out.push(format!("c03 codec lossy=fsox:{}:{}:{}:{} dtype={} es={} shape={} fill={} modelled=1 model=fixedscaleoffset json={} data={}", off, scale, v2, astype.unwrap_or("-"), name, es, cnt, hex(&vec![0u8; es]),
                hex(format!("[{{\"name\":\"numcodecs.fixedscaleoffset\",\"configuration\":{}}},{{\"name\":\"bytes\",\"configuration\":{{\"endian\":\"little\"}}}}]", cfg).as_bytes()), show_elems(&elems)));
        } else {
            // float element type: dyadic data; `astype` wide enough for every encoded value (no saturation)
            let off = *rng.pick(&["0", "0", "-3", "1000", "0.5", "-0.25", "100", "16777217"]);
            let scale = *rng.pick(&["1", "1", "2", "4", "8", "0.5", "0.25", "3", "10", "100", "0.1"]);
            let (o, sc): (f64, f64) = (off.parse::<f32>().unwrap() as f64, scale.parse::<f32>().unwrap() as f64);
            let kind = rng.below(5);
            let vals: Vec<f64> = (0..cnt).map(|i| match kind {
                0 => (rng.below(200000) as f64 - 100000.0) / 8.0,
                1 => (rng.below(4000) as f64 - 2000.0) / 2.0,                       // halves: ties under scale 1
                2 => rng.below(60000) as f64 - 30000.0,
                3 => if rng.chance(1, 30) { -0.0 } else { o + (rng.below(41) as f64 - 20.0) / 4.0 },   // around the offset (encodings around zero, both signs); a negative zero
                _ => if es == 8 { 1099511627776.0 + (rng.below(4096) as f64) / 8.0 } else { 16777000.0 + (i as f64) * 50.0 + rng.below(40) as f64 },
            }).collect();
            let maxenc = vals.iter().map(|v| ((v - o) * sc).abs()).fold(0.0, f64::max) + 2.0;
            let cands: Vec<&str> = [("", 0.0), ("f4", 0.0), ("f8", 0.0), ("u1", -255.0), ("i2", 32767.0), ("u2", -65535.0), ("i4", 2147483647.0), ("u4", -4294967295.0), ("i8", 9.0e18), ("u8", -1.8e19)].iter()
                .filter(|(a, lim)| *lim == 0.0 || (*lim > 0.0 && maxenc <= *lim) || (*lim < 0.0 && maxenc <= -*lim && vals.iter().all(|v| (v - o) * sc >= 0.5)))
                .filter(|(a, _)| !(*a == "f8" && es == 4)).map(|(a, _)| *a).collect();
            let astype = *rng.pick(&cands);
            let elems: Vec<Vec<u8>> = vals.iter().map(|v| if es == 4 { (*v as f32).to_le_bytes().to_vec() } else { v.to_le_bytes().to_vec() }).collect();
            let cfg = format!("{{\"offset\":{},\"scale\":{},\"dtype\":\"{}\"{}}}", off, scale, v2, if astype.is_empty() { String::new() } else { format!(",\"astype\":\"{}\"", astype) });
            out.push(format!("c03 codec lossy=fsox:{}:{}:{}:{} dtype={} es={} shape={} fill={} modelled=1 model=fixedscaleoffset json={} data={}", off, scale, v2, if astype.is_empty() { "-" } else { astype }, name, es, cnt, hex(&vec![0u8; es]),
                hex(format!("[{{\"name\":\"numcodecs.fixedscaleoffset\",\"configuration\":{}}},{{\"name\":\"bytes\",\"configuration\":{{\"endian\":\"little\"}}}}]", cfg).as_bytes()), show_elems(&elems)));
        }
        // what the codec advertises
        if k % 3 == 0 {
            let (cname, cv2s, ces, csigned, cfloat) = FSO_TYPES[fso_pick_any(&mut rng)];
            let cv2 = *rng.pick(cv2s);
            let a = if rng.chance(1, 3) { None } else { Some(fso_pick_any(&mut rng)) };
            let mut astype: Option<&str> = a.map(|i| *rng.pick(FSO_TYPES[i].1));
            let mut cfg_dtype = cv2;
            // the representation asked about: mostly of the configured data type; sometimes another one (refused), or a
            // configuration on a data type the arithmetic does not cover
            let (mut rname, mut res) = (cname, ces);
            match rng.below(30) {
                0 | 5 => { let t = FSO_TYPES[rng.below(10) as usize]; rname = t.0; res = t.2; }
                1 => { cfg_dtype = "f2"; rname = "float16"; res = 2; }
                2 => { cfg_dtype = "c8"; rname = "complex64"; res = 8; }
                3 => { cfg_dtype = "|b1"; rname = "bool"; res = 1; }
                4 => { astype = Some("f2"); }
                _ => {}
            }
            let off = if cfloat { *rng.pick(&["0", "-3", "1000", "0.5", "-0.25"]) } else { *rng.pick(&["0", "1", "-1", "3", "-3", "100", "-100", "1000", "-70000", "16777217"]) };
            let scale = if cfloat { *rng.pick(&["1", "2", "4", "0.5", "10", "0.1"]) } else { *rng.pick(&["1", "1", "2", "3", "10", "0.5"]) };
            let fill: Vec<u8> = if rname == "bool" { vec![rng.below(2) as u8] } else if rname == "float16" || rname == "complex64" { rng.bytes(res) }
                else if rname.starts_with("float") { let v = match rng.below(4) { 0 => 0.0, 1 => (rng.below(2000) as f64 - 1000.0) / 4.0, 2 => off.parse::<f64>().unwrap(), _ => rng.below(100000) as f64 - 50000.0 }; if res == 4 { (v as f32).to_le_bytes().to_vec() } else { v.to_le_bytes().to_vec() } }
                else { let t = FSO_TYPES.iter().find(|t| t.0 == rname).unwrap(); let (lo, hi) = fso_range(t.2, t.3); let o: i128 = off.parse::<f64>().unwrap() as i128;
                       let v = match rng.below(7) { 0 => lo, 1 => hi, 2 => 0, 3 => o, 4 => o + rng.below(200) as i128 - 100, 5 => rng.below(1000) as i128, _ => { let b = rng.bytes(t.2); let mut v = 0i128; for (i, x) in b.iter().enumerate() { v |= (*x as i128) << (8 * i); } v } };
                       let v = if v > hi && csigned { v - (1i128 << (8 * t.2)) } else { v };
                       fso_int_bytes(v.clamp(lo, hi), t.2) };
            let rank = rng.range(1, 3) as usize;
            let shape: Vec<u64> = (0..rank).map(|_| rng.range(1, 9)).collect();
            let cfg = format!("{{\"offset\":{},\"scale\":{},\"dtype\":\"{}\"{}}}", off, scale, cfg_dtype, astype.map(|a| format!(",\"astype\":\"{}\"", a)).unwrap_or_default());
            out.push(format!("c03 fsorep cfg={}:{}:{}:{} dtype={} shape={} fill={} json={}", off, scale, cfg_dtype, astype.unwrap_or("-"), rname, nl(&shape), hex(&fill),
                hex(format!("[{{\"name\":\"numcodecs.fixedscaleoffset\",\"configuration\":{}}},{{\"name\":\"bytes\",\"configuration\":{{\"endian\":\"little\"}}}}]", cfg).as_bytes())));
        }
    }
}
