//! C03: codecs invert and honour their declared encoded size. Chains are built from metadata JSON and driven through
//! `CodecChain::{encode, decode, encoded_representation}`; array-to-array codecs also through their own shape/fill mapping.
use crate::arr::{dtypes, from_array_bytes, parse_elems, show_elems, to_array_bytes, DType};
use crate::util::*;
use std::num::NonZeroU64;
use std::sync::Arc;
use zarrs::array::codec::{ArrayToArrayCodecTraits, ArrayToBytesCodecTraits, CodecChain, CodecOptions, CodecTraits};
use zarrs::array::{BytesRepresentation, ChunkRepresentation, DataType, FillValue};
use zarrs::metadata::v3::MetadataV3;

fn repr(dtype: &str, shape: &[u64], fill: &[u8]) -> Option<ChunkRepresentation> {
    let md: MetadataV3 = serde_json::from_str(&format!("\"{}\"", dtype)).ok()?;
    let dt = DataType::from_metadata(&md, zarrs::config::global_config().data_type_aliases_v3()).ok()?;
    let shape: Vec<NonZeroU64> = shape.iter().map(|&s| NonZeroU64::new(s)).collect::<Option<Vec<_>>>()?;
    ChunkRepresentation::new(shape, dt, FillValue::new(fill.to_vec())).ok()
}

/// `c03 vdec`: feed an arbitrary (truncated / corrupted) byte string to the decoder of a chain holding one
/// variable-length array->bytes codec: `err`, `val <elems>`, or `panic`
fn exec_vdec(m: &std::collections::BTreeMap<String, String>) -> String {
    guarded(|| {
        let json = String::from_utf8(unhex(&m["json"])).unwrap();
        let mds: Vec<MetadataV3> = match serde_json::from_str(&json) { Ok(x) => x, Err(_) => return "err-json".into() };
        let chain = match CodecChain::from_metadata(&mds) { Ok(c) => Arc::new(c), Err(_) => return "err-chain".into() };
        let shape = pnl(&m["shape"]);
        let rep = match repr(&m["dtype"], &shape, &unhex(&m["fill"])) { Some(r) => r, None => return "err-repr".into() };
        let bytes = unhex(&m["bytes"]);
        match chain.decode(bytes.into(), &rep, &CodecOptions::default()) {
            Ok(d) => format!("val {}", show_elems(&from_array_bytes(None, d))),
            Err(e) => { let _ = e.to_string(); "err".into() }
        }
    })
}

/// the encoding of `data` by the chain `[json]` (used by the generator to derive malformed values)
fn encode_with(json: &str, dtype: &str, shape: &[u64], fill: &[u8], data: &[Vec<u8>]) -> Option<Vec<u8>> {
    guarded_res(|| {
        let mds: Vec<MetadataV3> = serde_json::from_str(json).map_err(|e| e.to_string())?;
        let chain = CodecChain::from_metadata(&mds).map_err(|e| e.to_string())?;
        let rep = repr(dtype, shape, fill).ok_or("repr")?;
        chain.encode(to_array_bytes(None, data), &rep, &CodecOptions::default()).map(|e| e.into_owned()).map_err(|e| e.to_string())
    }).ok()
}

pub fn exec(line: &str) -> String {
    let (v, m) = parse_line(line);
    if v.get(1).map(|s| s == "vdec").unwrap_or(false) { return exec_vdec(&m); }
    if v.get(1).map(|s| s == "chains" || s == "chaindec" || s == "chainpd").unwrap_or(false) { return crate::c03c::exec(line); }
    guarded(|| {
        let json = String::from_utf8(unhex(&m["json"])).unwrap();
        let mds: Vec<MetadataV3> = match serde_json::from_str(&json) { Ok(x) => x, Err(_) => return "err-json".into() };
        let chain = match CodecChain::from_metadata(&mds) { Ok(c) => Arc::new(c), Err(_) => return "err-chain".into() };
        let shape = pnl(&m["shape"]);
        let fill = unhex(&m["fill"]);
        let es: Option<usize> = if m["es"] == "v" { None } else { Some(m["es"].parse().unwrap()) };
        let rep = match repr(&m["dtype"], &shape, &fill) { Some(r) => r, None => return "err-repr".into() };
        let data = parse_elems(&m["data"]);
        let opts = CodecOptions::default();
        let bytes = to_array_bytes(es, &data);
        let declared = match chain.encoded_representation(&rep) { Ok(r) => r, Err(_) => return "err-repr2".into() };
        let enc = match chain.encode(bytes, &rep, &opts) { Ok(e) => e.into_owned(), Err(_) => return "err-encode".into() };
        let size_ok = match declared {
            BytesRepresentation::FixedSize(n) => enc.len() as u64 == n,
            BytesRepresentation::BoundedSize(n) => enc.len() as u64 <= n,
            BytesRepresentation::UnboundedSize => true,
        };
        let decl = match declared { BytesRepresentation::FixedSize(n) => format!("fixed:{}", n), BytesRepresentation::BoundedSize(n) => format!("bounded:{}", n), BytesRepresentation::UnboundedSize => "unbounded".into() };
        let dec = match chain.decode(enc.clone().into(), &rep, &opts) { Ok(d) => from_array_bytes(es, d), Err(_) => return format!("err-decode len={} decl={}", enc.len(), decl) };
        let rt = dec == data;
        // array-to-array codecs: advertised shape / fill vs what encoding produces
        let mut a2a = vec![];
        let mut cur = rep.clone();
        for c in chain.array_to_array_codecs() {
            let codec = c.codec();
            let nxt = match codec.encoded_representation(&cur) { Ok(r) => r, Err(_) => { a2a.push("err".to_string()); break; } };
            let back = codec.decoded_shape(nxt.shape()).ok().flatten().map(|s| s.iter().map(|x| x.get()).collect::<Vec<u64>>());
            a2a.push(format!("{}>{}~{}", nl(&cur.shape_u64()), nl(&nxt.shape_u64()), back.map(|b| nl(&b)).unwrap_or("none".into())));
            cur = nxt;
        }
        let modelled = m.get("modelled").map(|s| s == "1").unwrap_or(false);
        let lossy = m.get("lossy").map(|s| format!(" dec={}", if s.is_empty() { String::new() } else { show_elems(&dec) })).unwrap_or_default();
        format!("val rt={} sizeok={} len={} decl={} a2a={} enc={}{}", rt, size_ok, enc.len(), decl, if a2a.is_empty() { "-".to_string() } else { a2a.join(";") }, if modelled { hex(&enc) } else { "?".into() }, lossy)
    })
}

fn payload(rng: &mut Rng, dt: &DType, fill: &[u8], n: u64) -> Vec<Vec<u8>> {
    let kind = rng.below(6);
    (0..n).map(|i| match dt.es {
        Some(es) => match kind {
            0 => rng.bytes(es).iter().map(|&b| if dt.name == "bool" { b & 1 } else { b }).collect(),   // incompressible
            1 => vec![if dt.name == "bool" { 1 } else { 0x5a }; es],                                     // constant
            2 => fill.to_vec(),                                                                        // all fill
            3 => vec![if dt.name == "bool" { 1 } else { 0xff }; es],                                     // extreme
            4 => { let mut v = vec![0u8; es]; v[0] = (i % 2) as u8; v }                                  // low entropy
            _ => if i % 3 == 0 { fill.to_vec() } else { rng.bytes(es).iter().map(|&b| if dt.name == "bool" { b & 1 } else { b }).collect() },
        },
        None => match kind {
            0 => (0..rng.below(9)).map(|_| b'a' + rng.below(26) as u8).collect(),
            1 => b"zz".to_vec(),
            2 => fill.to_vec(),
            3 => vec![],                                                                               // empty strings
            5 => if i == 0 { let len = if rng.chance(1, 4) { rng.range(65530, 70000) } else { rng.range(250, 700) };     // one long element (lengths needing 2 and 3 bytes)
                             (0..len).map(|j| if dt.name == "string" { b'a' + (j % 26) as u8 } else { (j * 7 + len) as u8 }).collect() }
                 else if dt.name == "string" { (0..rng.below(5)).map(|_| b'a' + rng.below(26) as u8).collect() } else { let k = rng.below(5) as usize; rng.bytes(k) },
            _ => if i % 2 == 0 { vec![] } else { (0..rng.below(40)).map(|_| b'a' + rng.below(26) as u8).collect() },
        },
    }).collect()
}

pub fn generate(tier: &str, seed: u64) -> Vec<String> {
    let mut rng = Rng::new(seed ^ 0xC03);
    let thorough = tier == "thorough";
    let n = if thorough { 20000 } else { 2500 };
    let dts = dtypes();
    let mut out = vec![];
    for k in 0..n {
        let dt = rng.pick(&dts).clone();
        let fill = rng.pick(&dt.fills).clone();
        // shapes: small, non-cubic, size-1 dims; occasionally larger payloads to cross compressor block boundaries
        let rank = rng.range(1, 3) as usize;
        let big = k % 40 == 0;
        let shape: Vec<u64> = (0..rank).map(|d| if big && d == 0 { rng.range(500, 9000) } else { rng.range(1, 6) }).collect();
        let nel: u64 = shape.iter().product();
        let mut json: Vec<String> = vec![];
        let mut model: Vec<String> = vec![];
        let mut modelled = dt.es.is_some();
        let mut bit_range: Option<(u64, u64)> = None;
        // array -> array
        let mut perm: Vec<usize> = (0..rank).collect();
        if rng.chance(1, 2) {
            for i in (1..rank).rev() { let j = rng.below(i as u64 + 1) as usize; perm.swap(i, j); }
            json.push(format!("{{\"name\":\"transpose\",\"configuration\":{{\"order\":[{}]}}}}", perm.iter().map(|x| x.to_string()).collect::<Vec<_>>().join(",")));
            model.push(format!("transpose:{}", nl(&perm)));
            // a second array->array codec: it must be handed the representation the FIRST one produced (the permuted shape)
            if rank >= 2 && rng.chance(1, 3) {
                let mut perm2: Vec<usize> = (0..rank).collect();
                for i in (1..rank).rev() { let j = rng.below(i as u64 + 1) as usize; perm2.swap(i, j); }
                json.push(format!("{{\"name\":\"transpose\",\"configuration\":{{\"order\":[{}]}}}}", perm2.iter().map(|x| x.to_string()).collect::<Vec<_>>().join(",")));
                model.push(format!("transpose:{}", nl(&perm2)));
            }
        }
        if rng.chance(1, 6) && dt.es.is_some() { json.push("{\"name\":\"zarrs.squeeze\"}".into()); model.push("squeeze".into()); }
        // array -> bytes
        match dt.es {
            Some(es) => {
                let k2 = rng.below(8);
                if dt.numeric && es > 1 && k2 == 0 { json.push("{\"name\":\"numcodecs.pcodec\",\"configuration\":{}}".into()); modelled = false; model.push("pcodec".into()); }
                else if (dt.name == "bool" || dt.numeric || dt.name == "complex64") && k2 == 1 {
                    // packbits with its options: padding byte first/last, and (unsigned types) a bit range the data stays within
                    let mut cfgs: Vec<String> = vec![];
                    match rng.below(4) { 0 => cfgs.push("\"padding_encoding\":\"first_byte\"".into()), 1 => cfgs.push("\"padding_encoding\":\"last_byte\"".into()), 2 => cfgs.push("\"padding_encoding\":\"none\"".into()), _ => {} }
                    if dt.name.starts_with("uint") && rng.chance(1, 2) {
                        let bits = (es * 8) as u64;
                        let first = rng.below(bits);
                        let last = rng.range(first, bits - 1);
                        if rng.chance(2, 3) { cfgs.push(format!("\"first_bit\":{}", first)); cfgs.push(format!("\"last_bit\":{}", last)); bit_range = Some((first, last)); }
                        else { cfgs.push(format!("\"last_bit\":{}", last)); bit_range = Some((0, last)); }
                    }
                    json.push(if cfgs.is_empty() { "{\"name\":\"packbits\"}".to_string() } else { format!("{{\"name\":\"packbits\",\"configuration\":{{{}}}}}", cfgs.join(",")) });
                    // component width / sign extension of the data type, bit range, padding mode: modelled byte for byte
                    let w = if dt.name == "bool" { 1 } else if dt.name == "complex64" { 32 } else { es * 8 } as u64;   // component width
                    let (f, l) = bit_range.unwrap_or((0, w - 1));
                    let pad = if cfgs.iter().any(|c| c.contains("first_byte")) { "first" } else if cfgs.iter().any(|c| c.contains("last_byte")) { "last" } else { "none" };
                    model.push(format!("packbits:{}:{}:{}:{}:{}", w, f, l, pad, dt.name.starts_with("int") as u8));
                }
                else if es == 1 { json.push("{\"name\":\"bytes\"}".into()); model.push(format!("bytes:little:{}", es)); }
                else {
                    let e = if rng.chance(1, 2) { "big" } else { "little" };
                    // byte-swap unit: the component for complex types, nothing for raw bits
                    let unit = if dt.name == "complex64" { 4 } else if dt.name.starts_with('r') { 1 } else { es };
                    json.push(format!("{{\"name\":\"bytes\",\"configuration\":{{\"endian\":\"{}\"}}}}", e)); model.push(format!("bytes:{}:{}", e, unit));
                }
            }
            None => {
                // variable-length array->bytes codecs, modelled byte for byte: the numcodecs layout under its four names,
                // and zarrs' `vlen` with both index types, both index byte orders, optional crc32c on index and data
                // (an external compressor in a chain: not modelled, round trip only)
                modelled = true;
                match rng.below(5) {
                    0 => { json.push("{\"name\":\"zarrs.vlen_v2\"}".into()); model.push("vlenv2".into()); }
                    1 => { json.push(if dt.name == "string" { "{\"name\":\"vlen-utf8\"}".to_string() } else { "{\"name\":\"vlen-bytes\"}".to_string() }); model.push("vlenv2".into()); }
                    2 if rng.chance(1, 2) => { json.push("{\"name\":\"vlen-array\"}".into()); model.push("vlenv2".into()); }
                    _ => {
                        let i64_ = rng.chance(1, 2);
                        let ibig = rng.chance(1, 2);
                        let icrc = rng.chance(1, 3);
                        let dkind = rng.below(5);   // 0,1: bytes  2: bytes+crc32c  3: bytes(endian given)  4: bytes+gzip (not modelled)
                        let icodecs = format!("{{\"name\":\"bytes\",\"configuration\":{{\"endian\":\"{}\"}}}}{}", if ibig { "big" } else { "little" }, if icrc { ",{\"name\":\"crc32c\"}" } else { "" });
                        let dcodecs = match dkind { 2 => "{\"name\":\"bytes\"},{\"name\":\"crc32c\"}", 3 => "{\"name\":\"bytes\",\"configuration\":{\"endian\":\"big\"}}", 4 => "{\"name\":\"bytes\"},{\"name\":\"gzip\",\"configuration\":{\"level\":5}}", _ => "{\"name\":\"bytes\"}" };
                        json.push(format!("{{\"name\":\"zarrs.vlen\",\"configuration\":{{\"index_codecs\":[{}],\"data_codecs\":[{}],\"index_data_type\":\"{}\"}}}}", icodecs, dcodecs, if i64_ { "uint64" } else { "uint32" }));
                        if dkind == 4 { modelled = false; model.push("vlen:x".into()); }
                        else { model.push(format!("vlen:{}:{}:{}:{}", if i64_ { 64 } else { 32 }, if ibig { "big" } else { "little" }, icrc as u8, (dkind == 2) as u8)); }
                    }
                }
            }
        }
        // bytes -> bytes
        let after_bytes = model.last().map(|s| s.starts_with("bytes")).unwrap_or(false);
        for i in 0..rng.below(3) {
            match rng.below(10) {
                0 => { json.push("{\"name\":\"crc32c\"}".into()); model.push("crc32c".into()); }
                1 => { json.push("{\"name\":\"numcodecs.fletcher32\"}".into()); model.push("fletcher32".into()); }
                2 if after_bytes && i == 0 => { let es = dt.es.unwrap_or(1); json.push(format!("{{\"name\":\"numcodecs.shuffle\",\"configuration\":{{\"elementsize\":{}}}}}", es)); model.push(format!("shuffle:{}", es)); }
                3 => { json.push(format!("{{\"name\":\"gzip\",\"configuration\":{{\"level\":{}}}}}", rng.range(0, 9))); modelled = false; model.push("gzip".into()); }
                4 => { json.push(format!("{{\"name\":\"zstd\",\"configuration\":{{\"level\":{},\"checksum\":{}}}}}", rng.range(1, 19), rng.chance(1, 2))); modelled = false; model.push("zstd".into()); }
                5 => { json.push(format!("{{\"name\":\"blosc\",\"configuration\":{{\"cname\":\"{}\",\"clevel\":{},\"shuffle\":\"noshuffle\",\"blocksize\":0}}}}", rng.pick(&["lz4", "zstd", "zlib", "blosclz", "lz4hc", "snappy"]), rng.range(0, 9))); modelled = false; model.push("blosc".into()); }
                6 => { json.push(format!("{{\"name\":\"numcodecs.bz2\",\"configuration\":{{\"level\":{}}}}}", rng.range(1, 9))); modelled = false; model.push("bz2".into()); }
                7 => { json.push(format!("{{\"name\":\"numcodecs.zlib\",\"configuration\":{{\"level\":{}}}}}", rng.range(0, 9))); modelled = false; model.push("zlib".into()); }
                8 => { json.push(format!("{{\"name\":\"zarrs.gdeflate\",\"configuration\":{{\"level\":{}}}}}", rng.range(0, 12))); modelled = false; model.push("gdeflate".into()); }
                _ => { json.push("{\"name\":\"crc32c\"}".into()); model.push("crc32c".into()); }
            }
        }
        let mut data = payload(&mut rng, &dt, &fill.1, nel);
        if let Some((first, last)) = bit_range {
            // keep every element within the encoded bit range (the codec is lossless on such values by its definition)
            for e in data.iter_mut() {
                let mut v = 0u64; for (i, b) in e.iter().enumerate() { v |= (*b as u64) << (8 * i); }
                let width = last - first + 1;
                let mask = if width == 64 { u64::MAX } else { ((1u64 << width) - 1) << first };
                v &= mask;
                for (i, b) in e.iter_mut().enumerate() { *b = (v >> (8 * i)) as u8; }
            }
        }
        if k % 6 == 5 {
            // lossy codecs: the decoded value is judged by the model (bitround: the prescribed rounding; fixedscaleoffset: within 0.5/scale)
            let n = rng.range(1, 12);
            let (name, es2, mant): (&str, usize, u32) = *rng.pick(&[("float32", 4, 23), ("float64", 8, 52), ("float16", 2, 10), ("bfloat16", 2, 7), ("uint8", 1, 0), ("uint16", 2, 0), ("int16", 2, 0), ("uint32", 4, 0), ("int32", 4, 0), ("uint64", 8, 0), ("int64", 8, 0)]);
            let elems: Vec<Vec<u8>> = (0..n).map(|_| { let mut b = rng.bytes(es2); if mant > 0 && rng.chance(1, 2) {
                // ordinary magnitudes
                let v = (rng.below(2000000) as f64 - 1000000.0) / 7.0;
                b = match name { "float32" => (v as f32).to_le_bytes().to_vec(), "float64" => v.to_le_bytes().to_vec(), "float16" => half::f16::from_f64(v / 100.0).to_le_bytes().to_vec(), _ => half::bf16::from_f64(v).to_le_bytes().to_vec() };
            } b }).collect();
            if rng.chance(1, 2) {
                let keep = rng.below(if mant > 0 { mant as u64 + 3 } else { (es2 * 8) as u64 + 1 });
                out.push(format!("c03 codec lossy=bitround:{}:{} dtype={} es={} shape={} fill={} modelled=0 model=bitround json={} data={}", keep, mant, name, es2, n, hex(&vec![0u8; es2]),
                    hex(format!("[{{\"name\":\"bitround\",\"configuration\":{{\"keepbits\":{}}}}},{{\"name\":\"bytes\",\"configuration\":{{\"endian\":\"little\"}}}}]", keep).as_bytes()), show_elems(&elems)));
            } else if name != "float16" && name != "bfloat16" && name != "uint64" && name != "int64" {
                // scale/offset on a type, stored as itself or as a narrower integer
                let (v2, kind) = match name { "float32" => ("f4", "f"), "float64" => ("f8", "f"), "uint8" => ("u1", "u"), "uint16" => ("u2", "u"), "int16" => ("i2", "i"), "uint32" => ("u4", "u"), _ => ("i4", "i") };
                let scale = if kind == "f" { *rng.pick(&[1u32, 1, 2, 10, 100]) } else { 1 };   // an integer type stored as itself: scaling must fit the type
                let offset = if kind == "f" { *rng.pick(&[0i32, 0, -3, 1000]) } else { 0 };
                // float64 also at magnitudes a binary32 intermediate cannot carry (2^40 + eighths)
                let big = name == "float64" && rng.chance(1, 3);
                let elems: Vec<Vec<u8>> = if kind == "f" { (0..n).map(|_| { let v = (rng.below(200000) as f64 - 100000.0) / 8.0 + if big { 1099511627776.0 } else { 0.0 }; if name == "float32" { (v as f32).to_le_bytes().to_vec() } else { v.to_le_bytes().to_vec() } }).collect() } else { elems };
                // stored as itself (explicitly), as a wider integer, or (floats) as a narrower one: the conversion must be exact
                let astype = if kind == "f" { if big { *rng.pick(&["", "f8", "i8"]) } else { *rng.pick(&["", "i4", "i8", "f8"]) } } else { *rng.pick(&["", v2, "i8"]) };
                let astype = if astype == "f8" && name == "float32" { "f4" } else { astype };
                let cfg = format!("{{\"offset\":{},\"scale\":{},\"dtype\":\"{}\"{}}}", offset, scale, v2, if astype.is_empty() { String::new() } else { format!(",\"astype\":\"{}\"", astype) });
                out.push(format!("c03 codec lossy=fso:{}:{}:{} dtype={} es={} shape={} fill={} modelled=0 model=fixedscaleoffset json={} data={}", offset, scale, kind, name, es2, n, hex(&vec![0u8; es2]),
                    hex(format!("[{{\"name\":\"numcodecs.fixedscaleoffset\",\"configuration\":{}}},{{\"name\":\"bytes\",\"configuration\":{{\"endian\":\"little\"}}}}]", cfg).as_bytes()), show_elems(&elems)));
            }
        }
        // byte-exact prediction of very large chunks is left out (the list-based model is quadratic in the element
        // count); they remain round-trip / declared-size cases
        let modelled = modelled && shape.iter().product::<u64>() <= 12000;
        out.push(format!("c03 codec dtype={} es={} shape={} fill={} modelled={} model={} json={} data={}", dt.name,
            dt.es.map(|e| e.to_string()).unwrap_or("v".into()), nl(&shape), hex(&fill.1), modelled as u8, model.join("|"),
            hex(format!("[{}]", json.join(",")).as_bytes()), show_elems(&data)));
        // malformed values for the variable-length codecs: the bare array->bytes codec decodes truncations, bit flips,
        // extended and tampered versions of a genuine encoding; the model must agree on accept/reject and on the value
        if dt.es.is_none() && nel <= 36 {
            if let Some(tok) = model.iter().find(|t| t.starts_with("vlen") && *t != "vlen:x") {
                let a2b = json.iter().find(|j| j.contains("vlen")).unwrap();
                let cj = format!("[{}]", a2b);
                if let Some(enc) = encode_with(&cj, dt.name, &[nel], &fill.1, &data) {
                    let mut variants: Vec<Vec<u8>> = vec![enc.clone()];
                    if !enc.is_empty() {
                        variants.push(enc[..enc.len() - 1].to_vec());
                        variants.push(enc[..rng.below(enc.len() as u64) as usize].to_vec());
                        variants.push(enc[..rng.below(enc.len().min(24) as u64) as usize].to_vec());
                        for _ in 0..3 { let mut e = enc.clone(); let p = rng.below(e.len() as u64) as usize; e[p] ^= 1 << rng.below(8); variants.push(e); }
                        // flips in the first bytes (count / index length / first offsets or lengths)
                        for _ in 0..2 { let mut e = enc.clone(); let p = rng.below(e.len().min(28) as u64) as usize; e[p] ^= 1 << rng.below(8); variants.push(e); }
                        let mut e = enc.clone(); let extra = 1 + rng.below(6) as usize; e.extend_from_slice(&rng.bytes(extra)); variants.push(e);
                        if tok.starts_with("vlen:") && enc.len() >= 8 {
                            // the index length field: one more than there is, far too large, the largest u64, zero
                            let il = u64::from_le_bytes(enc[0..8].try_into().unwrap());
                            for v in [il + 1, (enc.len() as u64).saturating_sub(7), 1u64 << 40, u64::MAX, u64::MAX - 7, 0] { let mut e = enc.clone(); e[0..8].copy_from_slice(&v.to_le_bytes()); variants.push(e); }
                        }
                    }
                    let glen = rng.below(40) as usize; variants.push(rng.bytes(glen));
                    for v in variants {
                        out.push(format!("c03 vdec codec={} dtype={} shape={} fill={} json={} bytes={}", tok, dt.name, nel, hex(&fill.1), hex(cj.as_bytes()), hex(&v)));
                    }
                }
            }
        }
    }
    // (nested) sharded chains: see c03c.rs
    generate_zfp(tier, seed, &mut out);
    out.extend(crate::c03c::generate(tier, seed));
    out
}

/// `zfp` (own stream): every mode on every data type it accepts, chunks of 1 to 4 dimensions whose extents are and are not
/// multiples of the 4-wide zfp block. `reversible` must return the original bytes; `fixed_accuracy` a value within the
/// tolerance (finite floats of moderate magnitude); `fixed_precision` / `fixed_rate` prescribe no tolerance: decoding must
/// succeed and the declared size must hold. (Unsigned 32/64-bit values above the signed maximum: known finding F-C03-K1.)
fn generate_zfp(tier: &str, seed: u64, out: &mut Vec<String>) {
    let mut rng = Rng::new(seed ^ 0xC03_2F9);
    let n = if tier == "thorough" { 2400 } else { 300 };
    let types: [(&str, usize); 10] = [("int8", 1), ("uint8", 1), ("int16", 2), ("uint16", 2), ("int32", 4), ("uint32", 4), ("int64", 8), ("uint64", 8), ("float32", 4), ("float64", 8)];
    for k in 0..n {
        let (name, es) = *rng.pick(&types);
        let float = name.starts_with("float");
        let rank = rng.range(1, 4) as usize;
        let shape: Vec<u64> = (0..rank).map(|_| *rng.pick(&[1u64, 2, 3, 4, 5, 8, 9])).collect();
        let nel: u64 = shape.iter().product();
        let kind = rng.below(5);
        let elems: Vec<Vec<u8>> = (0..nel).map(|i| {
            if float {
                let v = match kind { 0 => (rng.below(2000000) as f64 - 1000000.0) / 128.0, 1 => 2.5, 2 => 0.0, 3 => (i as f64) * 0.25 - 3.0, _ => if rng.chance(1, 2) { 0.0 } else { (rng.below(4096) as f64) / 16.0 } };
                if name == "float32" { (v as f32).to_le_bytes().to_vec() } else { v.to_le_bytes().to_vec() }
            } else {
                let mut b = match kind { 0 => rng.bytes(es), 1 => vec![0x5a; es], 2 => vec![0; es], 3 => { let mut v = vec![0u8; es]; v[0] = (i % 7) as u8; v } _ => vec![0xff; es] };
                // (uint32 / uint64) values above the signed maximum only in every eighth line: they are the known finding
                if (name == "uint32" || name == "uint64") && k % 8 != 0 { b[es - 1] &= 0x7f; }
                b
            }
        }).collect();
        let (spec, cfg) = match rng.below(if float { 6 } else { 4 }) {
            0 | 1 => ("reversible:0".to_string(), "{\"mode\":\"reversible\"}".to_string()),
            2 => { let p = rng.range(1, 64); (format!("precision:{}", p), format!("{{\"mode\":\"fixed_precision\",\"precision\":{}}}", p)) }
            3 => { let r = *rng.pick(&[1u32, 4, 8, 12, 16, 32]); (format!("rate:{}", r), format!("{{\"mode\":\"fixed_rate\",\"rate\":{}}}", r)) }
            _ => { let (tn, td, t) = *rng.pick(&[(1u32, 2u32, "0.5"), (1, 16, "0.0625"), (1, 1024, "0.0009765625"), (4, 1, "4.0")]); (format!("accuracy:{}:{}", tn, td), format!("{{\"mode\":\"fixed_accuracy\",\"tolerance\":{}}}", t)) }
        };
        out.push(format!("c03 codec lossy=zfp:{} dtype={} es={} shape={} fill={} modelled=0 model=zfp json={} data={}", spec, name, es, nl(&shape), hex(&vec![0u8; es]),
            hex(format!("[{{\"name\":\"zfp\",\"configuration\":{}}}]", cfg).as_bytes()), show_elems(&elems)));
    }
}
