//! C13: metadata documents and hierarchy discovery.
//!   c13 meta text=<hex>    MetadataV3: parse -> serialise -> parse -> serialise      -> ser=<hex> ser2=<hex> | rej
//!   c13 adoc text=<hex>    ArrayMetadataV3 serde only                               -> ser=<hex> ser2=<hex> | rej
//!   c13 gdoc text=<hex>    GroupMetadataV3 serde only                               -> ser=<hex> ser2=<hex> | rej
//!   c13 aopen text=<hex>   zarr.json stored, Array::open, metadata(), store_metadata, reopen, store again, operations
//!                          -> rej-open | ok meta=<hex> stored=<hex> stored2=<hex> ops=<ok|panic>
//!   c13 gopen text=<hex>   same for groups                                          -> rej-open | ok meta= stored= stored2=
//!   c13 cfg store=<kind> ; c13 op <mkgroup|mkarray|rmmeta|rmnode|stray|children|paths|objs|tree|exists> ...
use crate::c08::{make_store, DynStore, StoreCtx};
use crate::util::*;
use std::collections::BTreeMap;
use zarrs::array::{Array, ArrayMetadata, ArrayMetadataV3};
use zarrs::array_subset::ArraySubset;
use zarrs::group::{Group, GroupMetadata, GroupMetadataV3};
use zarrs::metadata::v3::MetadataV3;
use zarrs::node::{Node, NodeMetadata};
use zarrs::storage::StoreKey;

fn compact(bytes: &[u8]) -> Option<String> {
    let v: serde_json::Value = serde_json::from_slice(bytes).ok()?;
    serde_json::to_string(&v).ok()
}

fn twice<T: serde::Serialize + serde::de::DeserializeOwned>(text: &[u8]) -> String {
    let a: T = match serde_json::from_slice(text) { Ok(x) => x, Err(_) => return "rej".into() };
    let s1 = serde_json::to_string(&a).unwrap();
    let b: T = match serde_json::from_slice(s1.as_bytes()) { Ok(x) => x, Err(_) => return format!("ser={} ser2=rej", hex(s1.as_bytes())) };
    let s2 = serde_json::to_string(&b).unwrap();
    format!("ser={} ser2={}", hex(s1.as_bytes()), hex(s2.as_bytes()))
}

fn key(s: &str) -> StoreKey { StoreKey::new(s).unwrap() }

/// operations on an opened array: errors are fine, panics are not
fn exercise(a: &Array<dyn zarrs::storage::ReadableWritableListableStorageTraits>) -> &'static str {
    let r = std::panic::catch_unwind(std::panic::AssertUnwindSafe(|| {
        let rank = a.dimensionality();
        let zero = vec![0u64; rank];
        let _ = a.chunk_grid_shape();
        let _ = a.chunk_shape(&zero);
        let _ = a.chunk_subset(&zero);
        let _ = a.retrieve_chunk_if_exists(&zero);
        let _ = a.retrieve_chunk(&zero);
        let small: u64 = a.shape().iter().product();
        if small <= 4096 { let _ = a.retrieve_array_subset(&ArraySubset::new_with_shape(a.shape().to_vec())); }
        if let Ok(cs) = a.chunk_shape(&zero) {
            let n: u64 = cs.iter().map(|x| x.get()).product();
            if let Some(es) = a.data_type().fixed_size() {
                if n * (es as u64) <= 1 << 16 {
                    let _ = a.store_chunk(&zero, vec![1u8; (n as usize) * es]);
                    let _ = a.retrieve_chunk(&zero);
                    let _ = a.store_chunk_subset(&zero, &ArraySubset::new_with_shape(vec![1; rank]), vec![2u8; es]);
                    let _ = a.retrieve_array_subset(&ArraySubset::new_with_shape(vec![1; rank]));
                }
            }
        }
        let _ = a.erase_chunk(&zero);
        let _ = a.metadata_opt(&Default::default());
    }));
    if r.is_ok() { "ok" } else { "panic" }
}

pub fn exec_doc(line: &str) -> String {
    let (v, m) = parse_line(line);
    let verb = v.get(1).map(|s| s.as_str()).unwrap_or("");
    let text = unhex(&m["text"]);
    guarded(|| match verb {
        "meta" => twice::<MetadataV3>(&text),
        "adoc" => twice::<ArrayMetadataV3>(&text),
        "gdoc" => twice::<GroupMetadataV3>(&text),
        "aopen" => {
            let sc = make_store("memory");
            let store: DynStore = sc.store.clone();
            store.set(&key("a/zarr.json"), text.clone().into()).unwrap();
            let a = match Array::open(store.clone(), "/a") { Ok(a) => a, Err(e) => { if std::env::var("VERIF_ERR_MSG").is_ok() { eprintln!("ERR: {}", e); } return "rej-open".into() } };
            let meta = match a.metadata() { ArrayMetadata::V3(m) => serde_json::to_string(m).unwrap(), _ => return "bad-version".into() };
            if a.store_metadata().is_err() { return "err-store".into(); }
            let stored = compact(&store.get(&key("a/zarr.json")).unwrap().unwrap()).unwrap_or_default();
            let stored2 = match Array::open(store.clone(), "/a") {
                Ok(b) => { if b.store_metadata().is_err() { "err-store".to_string() } else { hex(compact(&store.get(&key("a/zarr.json")).unwrap().unwrap()).unwrap_or_default().as_bytes()) } }
                Err(_) => "rej-reopen".to_string(),
            };
            let ops = exercise(&a);
            format!("ok meta={} stored={} stored2={} ops={}", hex(meta.as_bytes()), hex(stored.as_bytes()), stored2, ops)
        }
        "gopen" => {
            let sc = make_store("memory");
            let store: DynStore = sc.store.clone();
            store.set(&key("g/zarr.json"), text.clone().into()).unwrap();
            let g = match Group::open(store.clone(), "/g") { Ok(g) => g, Err(_) => return "rej-open".into() };
            let meta = match g.metadata() { GroupMetadata::V3(m) => serde_json::to_string(m).unwrap(), _ => return "bad-version".into() };
            if g.store_metadata().is_err() { return "err-store".into(); }
            let stored = compact(&store.get(&key("g/zarr.json")).unwrap().unwrap()).unwrap_or_default();
            let stored2 = match Group::open(store.clone(), "/g") {
                Ok(b) => { if b.store_metadata().is_err() { "err-store".to_string() } else { hex(compact(&store.get(&key("g/zarr.json")).unwrap().unwrap()).unwrap_or_default().as_bytes()) } }
                Err(_) => "rej-reopen".to_string(),
            };
            format!("ok meta={} stored={} stored2={}", hex(meta.as_bytes()), hex(stored.as_bytes()), stored2)
        }
        _ => "bad-op".into(),
    })
}

pub struct HCtx { pub sc: StoreCtx }

pub fn open_cfg(m: &BTreeMap<String, String>) -> HCtx { HCtx { sc: make_store(&m["store"]) } }

const V3_ARRAY: &str = r#"{"zarr_format":3,"node_type":"array","shape":[2],"data_type":"uint8","chunk_grid":{"name":"regular","configuration":{"chunk_shape":[1]}},"chunk_key_encoding":{"name":"default","configuration":{"separator":"/"}},"fill_value":0,"codecs":[{"name":"bytes"}]}"#;
const V2_ARRAY: &str = r#"{"zarr_format":2,"shape":[2],"chunks":[1],"dtype":"|u1","compressor":null,"fill_value":0,"order":"C","filters":null}"#;

fn kind_of(md: &NodeMetadata) -> &'static str {
    match md {
        NodeMetadata::Array(ArrayMetadata::V3(_)) => "array3",
        NodeMetadata::Array(ArrayMetadata::V2(_)) => "array2",
        NodeMetadata::Group(GroupMetadata::V3(_)) => "group3",
        NodeMetadata::Group(GroupMetadata::V2(_)) => "group2",
    }
}
fn flatten(nodes: &[Node], out: &mut Vec<String>) {
    for n in nodes { out.push(format!("{}:{}", n.path().as_str(), kind_of(n.metadata()))); flatten(n.children(), out); }
}
fn show(mut v: Vec<String>) -> String { v.sort(); if v.is_empty() { "~".into() } else { v.join(",") } }

pub fn exec_op(ctx: &HCtx, verb: &str, m: &BTreeMap<String, String>) -> String {
    let store: DynStore = ctx.sc.store.clone();
    guarded(|| {
        let p = m.get("p").cloned().unwrap_or_default();
        let rel = p.trim_start_matches('/').to_string();
        let mk = |name: &str| if rel.is_empty() { name.to_string() } else { format!("{}/{}", rel, name) };
        match verb {
            "mkgroup" => {
                if m["v"] == "3" {
                    match Group::new_with_metadata(store.clone(), &p, GroupMetadata::V3(GroupMetadataV3::new())) { Ok(g) => match g.store_metadata() { Ok(()) => "ok".into(), Err(_) => "err".into() }, Err(_) => "err-path".into() }
                } else {
                    match store.set(&key(&mk(".zgroup")), br#"{"zarr_format":2}"#.to_vec().into()) { Ok(()) => "ok".into(), Err(_) => "err".into() }
                }
            }
            "mkarray" => {
                let (name, doc) = if m["v"] == "3" { ("zarr.json", V3_ARRAY) } else { (".zarray", V2_ARRAY) };
                match store.set(&key(&mk(name)), doc.as_bytes().to_vec().into()) { Ok(()) => {
                    // a chunk, so that the array has keys beneath it
                    let ck = if m["v"] == "3" { mk("c/0") } else { mk("0") };
                    let _ = store.set(&key(&ck), vec![7u8].into());
                    "ok".into() } Err(_) => "err".into() }
            }
            "rmmeta" => {
                // through the API of the node kind found there
                if let Ok(g) = Group::open(store.clone(), &p) { return match g.erase_metadata() { Ok(()) => "ok".into(), Err(_) => "err".into() }; }
                if let Ok(a) = Array::open(store.clone(), &p) { return match a.erase_metadata() { Ok(()) => "ok".into(), Err(_) => "err".into() }; }
                "none".into()
            }
            "rmnode" => {
                let prefix = zarrs::storage::StorePrefix::new(&if rel.is_empty() { String::new() } else { format!("{}/", rel) }).unwrap();
                match store.erase_prefix(&prefix) { Ok(()) => "ok".into(), Err(_) => "err".into() }
            }
            "stray" => match store.set(&key(&m["k"]), vec![1u8].into()) { Ok(()) => "ok".into(), Err(_) => "err".into() },
            "children" => {
                let g = match Group::open(store.clone(), &p) { Ok(g) => g, Err(_) => return "nogroup".into() };
                let rec = m["rec"] == "1";
                match g.children(rec) { Ok(ns) => { let mut out = vec![]; if rec { flatten(&ns, &mut out); } else { for n in &ns { out.push(format!("{}:{}", n.path().as_str(), kind_of(n.metadata()))); } } format!("nodes {}", show(out)) } Err(_) => "err".into() }
            }
            "paths" => {
                let g = match Group::open(store.clone(), &p) { Ok(g) => g, Err(_) => return "nogroup".into() };
                let f = |r: Result<Vec<zarrs::node::NodePath>, _>| -> String { match r { Ok(v) => show(v.iter().map(|x: &zarrs::node::NodePath| x.as_str().to_string()).collect()), Err::<_, zarrs::node::NodeCreateError>(_) => "err".into() } };
                format!("all={} groups={} arrays={}", f(g.child_paths(false)), f(g.child_group_paths(false)), f(g.child_array_paths(false)))
            }
            "objs" => {
                let g = match Group::open(store.clone(), &p) { Ok(g) => g, Err(_) => return "nogroup".into() };
                let gs = match g.child_groups(false) { Ok(v) => show(v.iter().map(|x| x.path().as_str().to_string()).collect()), Err(_) => "err".into() };
                let as_ = match g.child_arrays(false) { Ok(v) => show(v.iter().map(|x| x.path().as_str().to_string()).collect()), Err(_) => "err".into() };
                format!("groups={} arrays={}", gs, as_)
            }
            "tree" => match Node::open(&store, &p) {
                Ok(n) => { let mut out = vec![format!("{}:{}", n.path().as_str(), kind_of(n.metadata()))]; flatten(n.children(), &mut out); format!("nodes {}", show(out)) }
                Err(_) => "err".into(),
            },
            "exists" => {
                let np = match zarrs::node::NodePath::new(&p) { Ok(x) => x, Err(_) => return "err-path".into() };
                let a = zarrs::node::node_exists(&store, &np).map(|b| b.to_string()).unwrap_or("err".into());
                let b = zarrs::node::node_exists_listable(&store, &np).map(|b| b.to_string()).unwrap_or("err".into());
                format!("val {} {}", a, b)
            }
            "keys" => { let mut ks: Vec<String> = store.list().unwrap_or_default().iter().map(|k| k.as_str().to_string()).collect(); ks.sort(); format!("keys {}", show(ks)) }
            _ => "bad-op".into(),
        }
    })
}

pub fn generate(_tier: &str, _seed: u64) -> Vec<String> { vec![] }
