//! C13: metadata documents and hierarchy discovery.
//!   c13 meta text=<hex>    MetadataV3: parse -> serialise -> parse -> serialise      -> ser=<hex> ser2=<hex> | rej
//!   c13 adoc text=<hex>    ArrayMetadataV3 serde only                               -> ser=<hex> ser2=<hex> | rej
//!   c13 gdoc text=<hex>    GroupMetadataV3 serde only                               -> ser=<hex> ser2=<hex> | rej
//!   c13 aopen text=<hex>   zarr.json stored, Array::open, metadata(), store_metadata, reopen, store again, operations
//!                          -> rej-open | ok meta=<hex> stored=<hex> stored2=<hex> ops=<ok|panic>
//!   c13 gopen text=<hex>   same for groups                                          -> rej-open | ok meta= stored= stored2=
//!   c13 a2doc|g2doc text=<hex>  ArrayMetadataV2 / GroupMetadataV2 serde only       -> ser=<hex> ser2=<hex|rej> | rej
//!   c13 v2to3 text=<hex>   ArrayMetadataV2 parsed, array_metadata_v2_to_v3 (default aliases), serialised  -> rej | rej-conv | v3=<hex>
//!   c13 mopt kind=<a3|a2|g3|g2> ver=<default|v3> alias=<0|1> zarrs=<0|1> enc=<0|1> text=<hex>
//!                          the document stored (zarr.json / .zarray / .zgroup), opened, `metadata_opt` and `store_metadata_opt` with
//!                          exactly those options, re-opened, stored again with the same options
//!                          -> rej-open | ok plug=<A|B|C|x per codec, - if none> mo=<hex> zj=<hex> z2=<hex> zt=<hex> re=<rej | ok zjr=.. z2r=.. ztr=..>
//!   c13 cfg store=<kind> ; c13 op <mkgroup|mkarray|rmmeta|rmnode|stray|children|paths|objs|tree|exists> ...
//!   c13 op mkdoc p=<path> key=<zarr.json|.zarray|.zgroup> text=<hex> [zattrs=<hex>]   a given metadata text stored at the node
//!   c13 op cons p=<path>   Node::open + consolidate_metadata, set on the group, stored, re-opened (model: lean/ZarrsModel/Model/Consolidated.lean)
//!                          -> err | array | nogroup | ok stored=<hex compact text of the group's metadata key> map=<hex compact ConsolidatedMetadata | ->
//!   c13 build ...          ArrayBuilder / GroupBuilder setters (model: lean/ZarrsModel/Model/Builder.lean)
use crate::c08::{make_store, DynStore, StoreCtx};
use crate::util::*;
use std::collections::BTreeMap;
use zarrs::array::{Array, ArrayMetadata, ArrayMetadataV3};
use zarrs::array_subset::ArraySubset;
use zarrs::group::{Group, GroupMetadata, GroupMetadataV3};
use zarrs::metadata::v3::MetadataV3;
use zarrs::node::{Node, NodeMetadata};
use zarrs::storage::StoreKey;

fn compact(bytes: &[u8]) -> Option<String> {
    let v: serde_json::Value = serde_json::from_slice(bytes).ok()?;
    serde_json::to_string(&v).ok()
}

fn twice<T: serde::Serialize + serde::de::DeserializeOwned>(text: &[u8]) -> String {
    let a: T = match serde_json::from_slice(text) { Ok(x) => x, Err(_) => return "rej".into() };
    let s1 = serde_json::to_string(&a).unwrap();
    let b: T = match serde_json::from_slice(s1.as_bytes()) { Ok(x) => x, Err(_) => return format!("ser={} ser2=rej", hex(s1.as_bytes())) };
    let s2 = serde_json::to_string(&b).unwrap();
    format!("ser={} ser2={}", hex(s1.as_bytes()), hex(s2.as_bytes()))
}

fn key(s: &str) -> StoreKey { StoreKey::new(s).unwrap() }

/// operations on an opened array: errors are fine, panics are not
fn exercise(a: &Array<dyn zarrs::storage::ReadableWritableListableStorageTraits>) -> &'static str {
    let r = std::panic::catch_unwind(std::panic::AssertUnwindSafe(|| {
        let rank = a.dimensionality();
        let zero = vec![0u64; rank];
        let _ = a.chunk_grid_shape();
        let _ = a.chunk_shape(&zero);
        let _ = a.chunk_subset(&zero);
        let _ = a.retrieve_chunk_if_exists(&zero);
        let _ = a.retrieve_chunk(&zero);
        let small: u64 = a.shape().iter().product();
        if small <= 4096 { let _ = a.retrieve_array_subset(&ArraySubset::new_with_shape(a.shape().to_vec())); }
        if let Ok(cs) = a.chunk_shape(&zero) {
            let n: u64 = cs.iter().map(|x| x.get()).product();
            if let Some(es) = a.data_type().fixed_size() {
                if n * (es as u64) <= 1 << 16 {
                    let _ = a.store_chunk(&zero, vec![1u8; (n as usize) * es]);
                    let _ = a.retrieve_chunk(&zero);
                    let _ = a.store_chunk_subset(&zero, &ArraySubset::new_with_shape(vec![1; rank]), vec![2u8; es]);
                    let _ = a.retrieve_array_subset(&ArraySubset::new_with_shape(vec![1; rank]));
                }
            }
        }
        let _ = a.erase_chunk(&zero);
        let _ = a.metadata_opt(&Default::default());
    }));
    if r.is_ok() { "ok" } else { "panic" }
}

/// `c13 mut kind=<a3|a2|g3|g2> first=<hex attrs object> attrs=<hex attrs object> [dims=<none|n1,n2 (- = null)>] [shape=a,b] zarrs=<0|1>`:
/// a node stored with attributes `first` is opened, changed through the handle's setters, stored, and re-opened:
/// what the handle was told must be what the store holds ("survive storing and re-opening unchanged").
fn exec_mut(m: &BTreeMap<String, String>) -> String {
    let kind = m["kind"].as_str();
    let first = String::from_utf8(unhex(&m["first"])).unwrap();
    let attrs: serde_json::Map<String, serde_json::Value> = serde_json::from_slice(&unhex(&m["attrs"])).unwrap();
    let sc = make_store("memory");
    let store: DynStore = sc.store.clone();
    let strip = |mut a: serde_json::Map<String, serde_json::Value>| { a.remove("_zarrs"); hex(serde_json::to_string(&a).unwrap().as_bytes()) };
    match kind {
        "a3" | "a2" => {
            if kind == "a3" {
                let doc = format!(r#"{{"zarr_format":3,"node_type":"array","shape":[4,6],"data_type":"uint8","chunk_grid":{{"name":"regular","configuration":{{"chunk_shape":[2,3]}}}},"chunk_key_encoding":{{"name":"default","configuration":{{"separator":"/"}}}},"fill_value":0,"codecs":[{{"name":"bytes"}}],"attributes":{},"dimension_names":["y0","x0"]}}"#, first);
                store.set(&key("a/zarr.json"), doc.into_bytes().into()).unwrap();
            } else {
                let dt = m.get("dt").map(|s| s.as_str()).unwrap_or("|u1");
                store.set(&key("a/.zarray"), format!(r#"{{"zarr_format":2,"shape":[4,6],"chunks":[2,3],"dtype":"{}","compressor":null,"fill_value":0,"order":"C","filters":null}}"#, dt).into_bytes().into()).unwrap();
                if first != "{}" { store.set(&key("a/.zattrs"), first.clone().into_bytes().into()).unwrap(); }
            }
            let mut a = match Array::open(store.clone(), "/a") { Ok(a) => a, Err(_) => return "rej-open".into() };
            { let at = a.attributes_mut(); at.clear(); at.extend(attrs.clone()); }
            if let Some(sh) = m.get("shape") { a.set_shape(pnl(sh)); }
            if kind == "a3" {
                if let Some(d) = m.get("dims") {
                    let names = if d == "none" { None } else { Some(d.split(',').map(|n| if n == "-" { zarrs::array::DimensionName::from(None::<String>) } else { zarrs::array::DimensionName::from(n) }).collect::<Vec<_>>()) };
                    a.set_dimension_names(names);
                }
            }
            let mut opts = zarrs::array::ArrayMetadataOptions::default().with_include_zarrs_metadata(m["zarrs"] == "1");
            // every metadata option: what is stored must open again as the same array
            if let Some(al) = m.get("alias") { opts.set_convert_aliased_extension_names(al == "1"); }
            if a.store_metadata_opt(&opts).is_err() { return "err-store".into(); }
            let b = match Array::open(store.clone(), "/a") { Ok(b) => b, Err(_) => return "rej-reopen".into() };
            let dims = match b.dimension_names() { None => "none".to_string(), Some(ns) => ns.iter().map(|n| n.as_str().map(|s| s.to_string()).unwrap_or("-".into())).collect::<Vec<_>>().join(",") };
            format!("ok dims={} shape={} attrs={}", dims, nl(b.shape()), strip(b.attributes().clone()))
        }
        _ => {
            if kind == "g3" {
                store.set(&key("g/zarr.json"), format!(r#"{{"zarr_format":3,"node_type":"group","attributes":{}}}"#, first).into_bytes().into()).unwrap();
            } else {
                store.set(&key("g/.zgroup"), br#"{"zarr_format":2}"#.to_vec().into()).unwrap();
                if first != "{}" { store.set(&key("g/.zattrs"), first.clone().into_bytes().into()).unwrap(); }
            }
            let mut g = match Group::open(store.clone(), "/g") { Ok(g) => g, Err(_) => return "rej-open".into() };
            { let at = g.attributes_mut(); at.clear(); at.extend(attrs.clone()); }
            if g.store_metadata().is_err() { return "err-store".into(); }
            let h = match Group::open(store.clone(), "/g") { Ok(h) => h, Err(_) => return "rej-reopen".into() };
            format!("ok dims=none shape=- attrs={}", strip(h.attributes().clone()))
        }
    }
}

/// `c13 mopt`: the metadata options of `Array::metadata_opt` / `Group::metadata_opt` (model: lean/ZarrsModel/Model/MetaOpts.lean).
/// Outcome: `rej-open`, or `ok plug=.. mo=.. zj=.. z2=.. zt=.. re=..` where `plug` has one letter per codec of a V3 array
/// document (A/B/C = created as array-to-array / array-to-bytes / bytes-to-bytes codec, x = not created), `mo` is what
/// `metadata_opt` returns (compact JSON), `zj`/`z2`/`zt` are the compact texts under `zarr.json`, `.zarray`|`.zgroup`, `.zattrs`
/// after `store_metadata_opt` (`-` = key absent), and `re` is `rej` when the node does not re-open, else `ok` with the three
/// texts after the re-opened handle stored its metadata with the same options.
fn exec_mopt(m: &BTreeMap<String, String>) -> String {
    use zarrs::config::MetadataConvertVersion;
    let kind = m["kind"].as_str();
    let text = unhex(&m["text"]);
    let ver = if m["ver"] == "v3" { MetadataConvertVersion::V3 } else { MetadataConvertVersion::Default };
    let sc = make_store("memory");
    let store: DynStore = sc.store.clone();
    let keys = |node: &str, v2: &str, sfx: &str| -> String {
        let g = |k: &str| match store.get(&key(&format!("{}/{}", node, k))).unwrap() { Some(b) => hex(compact(&b).unwrap_or_else(|| "unparsable".into()).as_bytes()), None => "-".to_string() };
        format!("zj{s}={} z2{s}={} zt{s}={}", g("zarr.json"), g(v2), g(".zattrs"), s = sfx)
    };
    match kind {
        "a3" | "a2" => {
            let mut opts = zarrs::array::ArrayMetadataOptions::default()
                .with_metadata_convert_version(ver)
                .with_include_zarrs_metadata(m["zarrs"] == "1")
                .with_convert_aliased_extension_names(m["alias"] == "1");
            opts.codec_options_mut().set_experimental_codec_store_metadata_if_encode_only(m["enc"] == "1");
            store.set(&key(if kind == "a3" { "a/zarr.json" } else { "a/.zarray" }), text.clone().into()).unwrap();
            let a = match Array::open(store.clone(), "/a") { Ok(a) => a, Err(e) => { if std::env::var("VERIF_ERR_MSG").is_ok() { eprintln!("ERR: {}", e); } return "rej-open".into() } };
            // which codecs of the document the plugins create, and as what
            let plug = match a.metadata() {
                ArrayMetadata::V3(md) => {
                    let aliases = zarrs::config::global_config().codec_aliases_v3().clone();
                    let s: String = md.codecs.iter().map(|c| match zarrs::array::codec::Codec::from_metadata(c, &aliases) {
                        Ok(zarrs::array::codec::Codec::ArrayToArray(_)) => 'A', Ok(zarrs::array::codec::Codec::ArrayToBytes(_)) => 'B',
                        Ok(zarrs::array::codec::Codec::BytesToBytes(_)) => 'C', Err(_) => 'x' }).collect();
                    if s.is_empty() { "-".to_string() } else { s }
                }
                ArrayMetadata::V2(_) => "-".to_string(),
            };
            let mo = match a.metadata_opt(&opts) { ArrayMetadata::V3(md) => serde_json::to_string(&md).unwrap(), ArrayMetadata::V2(md) => serde_json::to_string(&md).unwrap() };
            if a.store_metadata_opt(&opts).is_err() { return "err-store".into(); }
            let first = keys("a", ".zarray", "");
            let re = match Array::open(store.clone(), "/a") {
                Ok(b) => { if b.store_metadata_opt(&opts).is_err() { "err-store".to_string() } else { format!("ok {}", keys("a", ".zarray", "r")) } }
                Err(e) => { if std::env::var("VERIF_ERR_MSG").is_ok() { eprintln!("ERR: {}", e); } "rej".to_string() }
            };
            format!("ok plug={} mo={} {} re={}", plug, hex(mo.as_bytes()), first, re)
        }
        _ => {
            let opts = zarrs::group::GroupMetadataOptions::default().with_metadata_convert_version(ver);
            store.set(&key(if kind == "g3" { "g/zarr.json" } else { "g/.zgroup" }), text.clone().into()).unwrap();
            let g = match Group::open(store.clone(), "/g") { Ok(g) => g, Err(_) => return "rej-open".into() };
            let mo = match g.metadata_opt(&opts) { GroupMetadata::V3(md) => serde_json::to_string(&md).unwrap(), GroupMetadata::V2(md) => serde_json::to_string(&md).unwrap() };
            if g.store_metadata_opt(&opts).is_err() { return "err-store".into(); }
            let first = keys("g", ".zgroup", "");
            let re = match Group::open(store.clone(), "/g") {
                Ok(h) => { if h.store_metadata_opt(&opts).is_err() { "err-store".to_string() } else { format!("ok {}", keys("g", ".zgroup", "r")) } }
                Err(_) => "rej".to_string(),
            };
            format!("ok plug=- mo={} {} re={}", hex(mo.as_bytes()), first, re)
        }
    }
}

pub fn exec_doc(line: &str) -> String {
    let (v, m) = parse_line(line);
    let verb = v.get(1).map(|s| s.as_str()).unwrap_or("");
    let text = m.get("text").map(|t| unhex(t)).unwrap_or_default();
    guarded(|| match verb {
        "meta" => twice::<MetadataV3>(&text),
        "adoc" => twice::<ArrayMetadataV3>(&text),
        "gdoc" => twice::<GroupMetadataV3>(&text),
        "a2doc" => twice::<zarrs::metadata::v2::ArrayMetadataV2>(&text),
        "g2doc" => twice::<zarrs::metadata::v2::GroupMetadataV2>(&text),
        "v2to3" => {
            // the public V2 -> V3 metadata conversion with the default alias tables (what `Array::new_with_metadata` calls)
            let a: zarrs::metadata::v2::ArrayMetadataV2 = match serde_json::from_slice(&text) { Ok(x) => x, Err(_) => return "rej".into() };
            let config = zarrs::config::global_config();
            match zarrs::metadata::v2_to_v3::array_metadata_v2_to_v3(&a, config.codec_aliases_v2(), config.codec_aliases_v3(), config.data_type_aliases_v2(), config.data_type_aliases_v3()) {
                Ok(v3) => format!("v3={}", hex(serde_json::to_string(&v3).unwrap().as_bytes())),
                Err(e) => { if std::env::var("VERIF_ERR_MSG").is_ok() { eprintln!("ERR: {}", e); } "rej-conv".into() }
            }
        }
        "mut" => exec_mut(&m),
        "mopt" => exec_mopt(&m),
        "build" => exec_build(&m),
        "gbuild" => exec_gbuild(&m),
        "aopen" => {
            let sc = make_store("memory");
            let store: DynStore = sc.store.clone();
            store.set(&key("a/zarr.json"), text.clone().into()).unwrap();
            let a = match Array::open(store.clone(), "/a") { Ok(a) => a, Err(e) => { if std::env::var("VERIF_ERR_MSG").is_ok() { eprintln!("ERR: {}", e); } return "rej-open".into() } };
            let meta = match a.metadata() { ArrayMetadata::V3(m) => serde_json::to_string(m).unwrap(), _ => return "bad-version".into() };
            if a.store_metadata().is_err() { return "err-store".into(); }
            let stored = compact(&store.get(&key("a/zarr.json")).unwrap().unwrap()).unwrap_or_default();
            let stored2 = match Array::open(store.clone(), "/a") {
                Ok(b) => { if b.store_metadata().is_err() { "err-store".to_string() } else { hex(compact(&store.get(&key("a/zarr.json")).unwrap().unwrap()).unwrap_or_default().as_bytes()) } }
                Err(_) => "rej-reopen".to_string(),
            };
            let ops = exercise(&a);
            format!("ok meta={} stored={} stored2={} ops={}", hex(meta.as_bytes()), hex(stored.as_bytes()), stored2, ops)
        }
        "a2open" => {
            // a V2 array: .zarray stored, opened, stored again through the API, re-opened
            let sc = make_store("memory");
            let store: DynStore = sc.store.clone();
            store.set(&key("a/.zarray"), text.clone().into()).unwrap();
            let a = match Array::open(store.clone(), "/a") { Ok(a) => a, Err(e) => { if std::env::var("VERIF_ERR_MSG").is_ok() { eprintln!("ERR: {}", e); } return "rej-open".into() } };
            if a.store_metadata().is_err() { return "err-store".into(); }
            let stored = compact(&store.get(&key("a/.zarray")).unwrap().unwrap()).unwrap_or_default();
            let re = match Array::open(store.clone(), "/a") {
                Ok(b) => { if b.store_metadata().is_err() { "err-store".to_string() } else { hex(compact(&store.get(&key("a/.zarray")).unwrap().unwrap()).unwrap_or_default().as_bytes()) } }
                Err(e) => { if std::env::var("VERIF_ERR_MSG").is_ok() { eprintln!("ERR: {}", e); } "rej-reopen".to_string() }
            };
            let ops = exercise(&a);
            format!("ok stored={} stored2={} ops={}", hex(stored.as_bytes()), re, ops)
        }
        "gopen" => {
            let sc = make_store("memory");
            let store: DynStore = sc.store.clone();
            store.set(&key("g/zarr.json"), text.clone().into()).unwrap();
            let g = match Group::open(store.clone(), "/g") { Ok(g) => g, Err(_) => return "rej-open".into() };
            let meta = match g.metadata() { GroupMetadata::V3(m) => serde_json::to_string(m).unwrap(), _ => return "bad-version".into() };
            if g.store_metadata().is_err() { return "err-store".into(); }
            let stored = compact(&store.get(&key("g/zarr.json")).unwrap().unwrap()).unwrap_or_default();
            let stored2 = match Group::open(store.clone(), "/g") {
                Ok(b) => { if b.store_metadata().is_err() { "err-store".to_string() } else { hex(compact(&store.get(&key("g/zarr.json")).unwrap().unwrap()).unwrap_or_default().as_bytes()) } }
                Err(_) => "rej-reopen".to_string(),
            };
            format!("ok meta={} stored={} stored2={}", hex(meta.as_bytes()), hex(stored.as_bytes()), stored2)
        }
        _ => "bad-op".into(),
    })
}

pub struct HCtx { pub sc: StoreCtx }

pub fn open_cfg(m: &BTreeMap<String, String>) -> HCtx { HCtx { sc: make_store(&m["store"]) } }

const V3_ARRAY: &str = r#"{"zarr_format":3,"node_type":"array","shape":[2],"data_type":"uint8","chunk_grid":{"name":"regular","configuration":{"chunk_shape":[1]}},"chunk_key_encoding":{"name":"default","configuration":{"separator":"/"}},"fill_value":0,"codecs":[{"name":"bytes"}]}"#;
const V2_ARRAY: &str = r#"{"zarr_format":2,"shape":[2],"chunks":[1],"dtype":"|u1","compressor":null,"fill_value":0,"order":"C","filters":null}"#;

fn kind_of(md: &NodeMetadata) -> &'static str {
    match md {
        NodeMetadata::Array(ArrayMetadata::V3(_)) => "array3",
        NodeMetadata::Array(ArrayMetadata::V2(_)) => "array2",
        NodeMetadata::Group(GroupMetadata::V3(_)) => "group3",
        NodeMetadata::Group(GroupMetadata::V2(_)) => "group2",
    }
}
fn flatten(nodes: &[Node], out: &mut Vec<String>) {
    for n in nodes { out.push(format!("{}:{}", n.path().as_str(), kind_of(n.metadata()))); flatten(n.children(), out); }
}
fn show(mut v: Vec<String>) -> String { v.sort(); if v.is_empty() { "~".into() } else { v.join(",") } }

pub fn exec_op(ctx: &HCtx, verb: &str, m: &BTreeMap<String, String>) -> String {
    let store: DynStore = ctx.sc.store.clone();
    guarded(|| {
        let p = m.get("p").cloned().unwrap_or_default();
        let rel = p.trim_start_matches('/').to_string();
        let mk = |name: &str| if rel.is_empty() { name.to_string() } else { format!("{}/{}", rel, name) };
        match verb {
            "mkgroup" => {
                if m["v"] == "3" {
                    match Group::new_with_metadata(store.clone(), &p, GroupMetadata::V3(GroupMetadataV3::new())) { Ok(g) => match g.store_metadata() { Ok(()) => "ok".into(), Err(_) => "err".into() }, Err(_) => "err-path".into() }
                } else {
                    match store.set(&key(&mk(".zgroup")), br#"{"zarr_format":2}"#.to_vec().into()) { Ok(()) => "ok".into(), Err(_) => "err".into() }
                }
            }
            "mkarray" => {
                let (name, doc) = if m["v"] == "3" { ("zarr.json", V3_ARRAY) } else { (".zarray", V2_ARRAY) };
                match store.set(&key(&mk(name)), doc.as_bytes().to_vec().into()) { Ok(()) => {
                    // a chunk, so that the array has keys beneath it
                    let ck = if m["v"] == "3" { mk("c/0") } else { mk("0") };
                    let _ = store.set(&key(&ck), vec![7u8].into());
                    "ok".into() } Err(_) => "err".into() }
            }
            "rmmeta" => {
                // through the API of the node kind found there
                if let Ok(g) = Group::open(store.clone(), &p) { return match g.erase_metadata() { Ok(()) => "ok".into(), Err(_) => "err".into() }; }
                if let Ok(a) = Array::open(store.clone(), &p) { return match a.erase_metadata() { Ok(()) => "ok".into(), Err(_) => "err".into() }; }
                "none".into()
            }
            "rmnode" => {
                let prefix = zarrs::storage::StorePrefix::new(&if rel.is_empty() { String::new() } else { format!("{}/", rel) }).unwrap();
                match store.erase_prefix(&prefix) { Ok(()) => "ok".into(), Err(_) => "err".into() }
            }
            "stray" => match store.set(&key(&m["k"]), vec![1u8].into()) { Ok(()) => "ok".into(), Err(_) => "err".into() },
            "children" => {
                let g = match Group::open(store.clone(), &p) { Ok(g) => g, Err(_) => return "nogroup".into() };
                let rec = m["rec"] == "1";
                match g.children(rec) { Ok(ns) => { let mut out = vec![]; if rec { flatten(&ns, &mut out); } else { for n in &ns { out.push(format!("{}:{}", n.path().as_str(), kind_of(n.metadata()))); } } format!("nodes {}", show(out)) } Err(_) => "err".into() }
            }
            "paths" => {
                let g = match Group::open(store.clone(), &p) { Ok(g) => g, Err(_) => return "nogroup".into() };
                let f = |r: Result<Vec<zarrs::node::NodePath>, _>| -> String { match r { Ok(v) => show(v.iter().map(|x: &zarrs::node::NodePath| x.as_str().to_string()).collect()), Err::<_, zarrs::node::NodeCreateError>(_) => "err".into() } };
                format!("all={} groups={} arrays={}", f(g.child_paths(false)), f(g.child_group_paths(false)), f(g.child_array_paths(false)))
            }
            "objs" => {
                let g = match Group::open(store.clone(), &p) { Ok(g) => g, Err(_) => return "nogroup".into() };
                let gs = match g.child_groups(false) { Ok(v) => show(v.iter().map(|x| x.path().as_str().to_string()).collect()), Err(_) => "err".into() };
                let as_ = match g.child_arrays(false) { Ok(v) => show(v.iter().map(|x| x.path().as_str().to_string()).collect()), Err(_) => "err".into() };
                format!("groups={} arrays={}", gs, as_)
            }
            "tree" => match Node::open(&store, &p) {
                Ok(n) => { let mut out = vec![format!("{}:{}", n.path().as_str(), kind_of(n.metadata()))]; flatten(n.children(), &mut out); format!("nodes {}", show(out)) }
                Err(_) => "err".into(),
            },
            "exists" => {
                let np = match zarrs::node::NodePath::new(&p) { Ok(x) => x, Err(_) => return "err-path".into() };
                let a = zarrs::node::node_exists(&store, &np).map(|b| b.to_string()).unwrap_or("err".into());
                let b = zarrs::node::node_exists_listable(&store, &np).map(|b| b.to_string()).unwrap_or("err".into());
                format!("val {} {}", a, b)
            }
            "mkdoc" => {
                let r = store.set(&key(&mk(&m["key"])), unhex(&m["text"]).into());
                if let Some(z) = m.get("zattrs") { let _ = store.set(&key(&mk(".zattrs")), unhex(z).into()); }
                match r { Ok(()) => "ok".into(), Err(_) => "err".into() }
            }
            "cons" => {
                // `Node::open` + `consolidate_metadata`, set on the group at the same path, stored and re-opened
                let n = match Node::open(&store, &p) { Ok(n) => n, Err(_) => return "err".into() };
                let map = match n.consolidate_metadata() { Some(x) => x, None => return "array".into() };
                let mut g = match Group::open(store.clone(), &p) { Ok(g) => g, Err(_) => return "nogroup".into() };
                g.set_consolidated_metadata(Some(zarrs::metadata::v3::group::ConsolidatedMetadata { metadata: map, ..Default::default() }));
                if g.store_metadata().is_err() { return "err-store".into(); }
                let mkey = if matches!(g.metadata(), GroupMetadata::V3(_)) { "zarr.json" } else { ".zgroup" };
                let stored = compact(&store.get(&key(&mk(mkey))).unwrap().unwrap()).unwrap_or_default();
                let h = match Group::open(store.clone(), &p) { Ok(h) => h, Err(_) => return format!("ok stored={} map=rej-reopen", hex(stored.as_bytes())) };
                let map2 = match h.consolidated_metadata() { Some(c) => hex(serde_json::to_string(c).unwrap().as_bytes()), None => "-".to_string() };
                format!("ok stored={} map={}", hex(stored.as_bytes()), map2)
            }
            "keys" => { let mut ks: Vec<String> = store.list().unwrap_or_default().iter().map(|k| k.as_str().to_string()).collect(); ks.sort(); format!("keys {}", show(ks)) }
            _ => "bad-op".into(),
        }
    })
}


// ---------------------------------------------------------------- generation

fn jstr(s: &str) -> String { serde_json::to_string(s).unwrap() }

fn rand_name(rng: &mut Rng) -> String {
    let pool = ["x", "a", "zz", "key", "must_understand", "name", "é", "日本", "a b", "q\"uote", "back\\slash", "_zarrs", "shape", "A", "b1", "", "tab\there", "😀"];
    rng.pick(&pool).to_string()
}

/// canonical JSON values: numbers are written the way serde_json prints them
fn rand_value(rng: &mut Rng, depth: u32) -> String {
    let k = if depth == 0 { rng.below(6) } else { rng.below(9) };
    match k {
        0 => "null".into(),
        1 => (if rng.chance(1, 2) { "true" } else { "false" }).into(),
        2 => rng.pick(&["0", "1", "-1", "255", "4294967296", "18446744073709551615", "-9223372036854775808", "42"]).to_string(),
        3 => rng.pick(&["1.5", "-0.0", "0.1", "1e-7", "2.5e+30", "1.0", "123456.789"]).to_string(),
        4 | 5 => jstr(&rand_name(rng)),
        6 => { let n = rng.below(4); format!("[{}]", (0..n).map(|_| rand_value(rng, depth - 1)).collect::<Vec<_>>().join(",")) }
        _ => rand_obj(rng, depth - 1, false),
    }
}
fn rand_obj(rng: &mut Rng, depth: u32, allow_mu: bool) -> String {
    let n = rng.below(5);
    let mut keys: Vec<String> = vec![];
    let mut parts = vec![];
    for _ in 0..n {
        let k = rand_name(rng);
        if keys.contains(&k) || (!allow_mu && k == "must_understand") { continue; }
        keys.push(k.clone());
        parts.push(format!("{}:{}", jstr(&k), rand_value(rng, depth)));
    }
    format!("{{{}}}", parts.join(","))
}

/// MetadataV3 forms for a name with an (optional) configuration text
fn meta_forms(rng: &mut Rng, name: &str, cfg: Option<&str>) -> String {
    let n = jstr(name);
    match cfg {
        None => match rng.below(5) {
            0 | 1 => n,
            2 => format!("{{\"name\":{}}}", n),
            3 => format!("{{\"name\":{},\"configuration\":{{}}}}", n),
            _ => format!("{{\"configuration\":{{}},\"name\":{}}}", n),
        },
        Some(c) => match rng.below(4) {
            0 | 1 => format!("{{\"name\":{},\"configuration\":{}}}", n, c),
            2 => format!("{{\"configuration\":{},\"name\":{}}}", c, n),
            _ => format!("{{\"name\":{},\"configuration\":{},\"must_understand\":true}}", n, c),
        },
    }
}

struct Doc { fields: Vec<(String, String)>, plug_ok: bool }
impl Doc {
    fn text(&self) -> String { format!("{{{}}}", self.fields.iter().map(|(k, v)| format!("{}:{}", jstr(k), v)).collect::<Vec<_>>().join(",")) }
    fn set(&mut self, k: &str, v: String) { if let Some(f) = self.fields.iter_mut().find(|f| f.0 == k) { f.1 = v; } else { self.fields.push((k.to_string(), v)); } }
    fn remove(&mut self, k: &str) { self.fields.retain(|f| f.0 != k); }
}

fn gen_array_doc(rng: &mut Rng) -> Doc {
    let rank = rng.below(4) as usize;
    let shape: Vec<u64> = (0..rank).map(|_| rng.range(0, 5)).collect();
    let chunk: Vec<u64> = (0..rank).map(|_| rng.range(1, 3)).collect();
    let dts: [(&str, &[&str]); 7] = [("uint8", &["0", "255", "7"]), ("int16", &["0", "-2", "32767"]), ("float32", &["0.0", "\"NaN\"", "1.5", "\"Infinity\"", "\"0x7fc00001\""]),
        ("float64", &["0.0", "-0.0", "\"-Infinity\""]), ("bool", &["true", "false"]), ("complex64", &["[0.0,1.5]", "[\"NaN\",0.0]"]), ("r16", &["[0,1]", "[255,255]"])];
    let (dt, fills) = *rng.pick(&dts);
    let mut d = Doc { fields: vec![], plug_ok: true };
    d.fields.push(("zarr_format".into(), "3".into()));
    d.fields.push(("node_type".into(), "\"array\"".into()));
    d.fields.push(("shape".into(), format!("[{}]", shape.iter().map(|x| x.to_string()).collect::<Vec<_>>().join(","))));
    d.fields.push(("data_type".into(), meta_forms(rng, dt, None)));
    d.fields.push(("chunk_grid".into(), meta_forms(rng, "regular", Some(&format!("{{\"chunk_shape\":[{}]}}", chunk.iter().map(|x| x.to_string()).collect::<Vec<_>>().join(","))))));
    let cke = match rng.below(5) {
        0 => "\"default\"".to_string(),
        1 => meta_forms(rng, "default", Some("{\"separator\":\".\"}")),
        2 => meta_forms(rng, "v2", Some("{\"separator\":\"/\"}")),
        3 => "\"v2\"".to_string(),
        _ => meta_forms(rng, "default", Some("{\"separator\":\"/\"}")),
    };
    d.fields.push(("chunk_key_encoding".into(), cke));
    d.fields.push(("fill_value".into(), rng.pick(fills).to_string()));
    // codecs
    let mut codecs: Vec<String> = vec![];
    if rank >= 1 && rng.chance(1, 4) && dt != "r16" {
        let mut order: Vec<usize> = (0..rank).collect();
        for i in (1..rank).rev() { let j = rng.below(i as u64 + 1) as usize; order.swap(i, j); }
        codecs.push(format!("{{\"name\":\"transpose\",\"configuration\":{{\"order\":[{}]}}}}", order.iter().map(|x| x.to_string()).collect::<Vec<_>>().join(",")));
    }
    let single_byte = matches!(dt, "uint8" | "bool");
    codecs.push(match rng.below(4) {
        0 if single_byte => "\"bytes\"".to_string(),
        1 if single_byte => "{\"name\":\"bytes\"}".to_string(),
        2 => "{\"name\":\"bytes\",\"configuration\":{\"endian\":\"big\"}}".to_string(),
        _ => "{\"name\":\"bytes\",\"configuration\":{\"endian\":\"little\"}}".to_string(),
    });
    if rng.chance(1, 3) { codecs.push(rng.pick(&["{\"name\":\"gzip\",\"configuration\":{\"level\":5}}", "\"crc32c\"", "{\"name\":\"crc32c\"}", "{\"name\":\"crc32c\",\"configuration\":{}}", "{\"name\":\"zstd\",\"configuration\":{\"level\":1,\"checksum\":true}}"]).to_string()); }
    if rng.chance(1, 6) {
        // an unknown codec that need not be understood is skipped
        let at = rng.below(codecs.len() as u64 + 1) as usize;
        codecs.insert(at, "{\"name\":\"unknown_codec\",\"configuration\":{\"a\":1},\"must_understand\":false}".to_string());
    }
    d.fields.push(("codecs".into(), format!("[{}]", codecs.join(","))));
    // optional fields
    if rng.chance(2, 3) { let a = if rng.chance(1, 6) { "{}".to_string() } else { rand_obj(rng, 3, true) }; d.fields.push(("attributes".into(), a)); }
    if rng.chance(1, 5) { d.fields.push(("storage_transformers".into(), "[]".into())); }
    if rng.chance(1, 2) {
        let dn = if rng.chance(1, 6) { "null".to_string() } else { format!("[{}]", (0..rank).map(|_| if rng.chance(1, 3) { "null".to_string() } else { jstr(&rand_name(rng)) }).collect::<Vec<_>>().join(",")) };
        d.fields.push(("dimension_names".into(), dn));
    }
    // additional fields that need not be understood
    for _ in 0..rng.below(4) {
        let k = rng.pick(&["extra", "zzz", "Aux", "é", "b", "a_field", "consolidated_metadata", "~", "0"]).to_string();
        if d.fields.iter().any(|f| f.0 == k) { continue; }
        let mut o = rand_obj(rng, 2, false);
        // put "must_understand": false somewhere in the object
        let inner = o[1..o.len() - 1].to_string();
        let mut parts: Vec<String> = if inner.is_empty() { vec![] } else { split_top(&inner) };
        let at = rng.below(parts.len() as u64 + 1) as usize;
        parts.insert(at, "\"must_understand\":false".into());
        o = format!("{{{}}}", parts.join(","));
        d.fields.push((k, o));
    }
    // shuffle the field order sometimes
    if rng.chance(1, 2) { for i in (1..d.fields.len()).rev() { let j = rng.below(i as u64 + 1) as usize; d.fields.swap(i, j); } }
    d
}

/// split the inside of an object/array text at top-level commas
fn split_top(s: &str) -> Vec<String> {
    let mut out = vec![]; let mut depth = 0i32; let mut in_str = false; let mut esc = false; let mut cur = String::new();
    for c in s.chars() {
        if in_str { cur.push(c); if esc { esc = false; } else if c == '\\' { esc = true; } else if c == '"' { in_str = false; } continue; }
        match c { '"' => { in_str = true; cur.push(c); } '[' | '{' => { depth += 1; cur.push(c); } ']' | '}' => { depth -= 1; cur.push(c); }
            ',' if depth == 0 => { out.push(std::mem::take(&mut cur)); } _ => cur.push(c) }
    }
    if !cur.is_empty() { out.push(cur); }
    out
}

/// break a valid document in one way; returns a label
fn mutate_doc(rng: &mut Rng, d: &mut Doc) -> &'static str {
    d.plug_ok = false;
    match rng.below(22) {
        0 => { d.set("zarr_format", rng.pick(&["2", "\"3\"", "3.0", "4", "null"]).to_string()); "zarr_format" }
        1 => { d.set("node_type", rng.pick(&["\"group\"", "\"Array\"", "3", "null"]).to_string()); "node_type" }
        2 => { let k = rng.pick(&["zarr_format", "node_type", "shape", "data_type", "chunk_grid", "chunk_key_encoding", "fill_value", "codecs"]).to_string(); d.remove(&k); "missing" }
        3 => { d.set("shape", rng.pick(&["[1.0]", "[-1]", "\"x\"", "null", "[\"1\"]", "[18446744073709551616]", "{}"]).to_string()); "shape-type" }
        4 => { let cur = d.fields.iter().find(|f| f.0 == "shape").map(|f| f.1.clone()).unwrap_or_default(); let n = if cur == "[]" { "[1]".to_string() } else { format!("[{},1]", &cur[1..cur.len() - 1]) }; d.set("shape", n); "rank-shape" }
        5 => { d.set("dimension_names", rng.pick(&["[\"a\",\"b\",\"c\",\"d\",\"e\"]", "[1]", "\"x\"", "{}"]).to_string()); "dimnames" }
        6 => { d.set("data_type", rng.pick(&["\"unknown_type\"", "{\"name\":\"unknown_type\",\"must_understand\":false}", "3", "{\"nam\":\"uint8\"}", "{\"name\":\"uint8\",\"extra\":1}", "{\"name\":3}", "null", "[]", "{\"name\":\"uint8\",\"configuration\":3}", "{\"name\":\"uint8\",\"must_understand\":1}"]).to_string()); "data_type" }
        7 => { d.set("chunk_grid", rng.pick(&["\"regular\"", "{\"name\":\"regular\",\"configuration\":{\"chunk_shape\":[0]}}", "{\"name\":\"unknown_grid\",\"configuration\":{}}", "{\"name\":\"regular\",\"configuration\":{\"chunk_shape\":[1],\"x\":1}}", "{\"name\":\"regular\",\"configuration\":{\"chunk_shape\":[1,1,1,1,1,1]}}", "null"]).to_string()); "chunk_grid" }
        8 => { d.set("chunk_key_encoding", rng.pick(&["\"unknown\"", "{\"name\":\"default\",\"configuration\":{\"separator\":\"x\"}}", "{\"name\":\"unknown\",\"must_understand\":false}", "7"]).to_string()); "cke" }
        9 => { d.set("fill_value", rng.pick(&["null", "\"abc\"", "[1,2,3,4,5]", "1e400", "-1", "256", "1.5", "true", "{}"]).to_string()); d.plug_ok = false; "fill" }
        10 => { d.set("codecs", rng.pick(&["[]", "[\"gzip\"]", "[\"bytes\",\"bytes\"]", "[{\"name\":\"unknown_codec\"}]", "[{\"name\":\"unknown_codec\",\"must_understand\":false}]", "\"bytes\"", "[{\"name\":\"bytes\",\"configuration\":{\"endian\":\"middle\"}}]", "[{\"name\":\"transpose\",\"configuration\":{\"order\":[0,0]}},\"bytes\"]", "[{\"name\":\"transpose\",\"configuration\":{\"order\":[5,4,3,2,1,0]}},\"bytes\"]", "[\"bytes\",{\"name\":\"gzip\",\"configuration\":{\"level\":99}}]", "[{\"name\":\"sharding_indexed\",\"configuration\":{\"chunk_shape\":[7,7,7],\"codecs\":[\"bytes\"],\"index_codecs\":[\"bytes\"]}}]", "[{\"name\":\"sharding_indexed\",\"configuration\":{\"chunk_shape\":[1],\"codecs\":[],\"index_codecs\":[\"bytes\"]}}]", "[{\"name\":\"sharding_indexed\",\"configuration\":{\"chunk_shape\":[1],\"codecs\":[\"bytes\"],\"index_codecs\":[\"bytes\",\"gzip\"]}}]", "[\"bytes\",{\"name\":\"blosc\",\"configuration\":{\"cname\":\"lz4\",\"clevel\":5,\"shuffle\":\"shuffle\",\"typesize\":0,\"blocksize\":0}}]", "[{\"name\":\"bytes\"},{\"name\":\"zfp\"}]", "[{\"name\":\"packbits\"}]", "[{\"name\":\"vlen\"}]", "[{\"name\":\"vlen-utf8\"}]", "[{\"name\":\"bitround\",\"configuration\":{\"keepbits\":3}},{\"name\":\"bytes\",\"configuration\":{\"endian\":\"little\"}}]", "[{\"name\":\"squeeze\"},{\"name\":\"bytes\",\"configuration\":{\"endian\":\"little\"}}]"]).to_string()); "codecs" }
        11 => { d.set("attributes", rng.pick(&["null", "[]", "3", "\"x\""]).to_string()); "attributes-type" }
        12 => { d.set("storage_transformers", rng.pick(&["[\"unknown_transformer\"]", "[{\"name\":\"unknown\",\"must_understand\":false}]", "null", "{}"]).to_string()); "storage_transformers" }
        13 => { let v = rng.pick(&["1", "\"s\"", "[]", "null", "true", "{\"a\":1}", "{\"must_understand\":true,\"a\":1}", "{\"must_understand\":1}", "{\"must_understand\":\"false\"}", "{\"must_understand\":null,\"b\":2}"]).to_string(); d.fields.push((rng.pick(&["unknown_field", "zz", "Extra"]).to_string(), v)); "must-understand-field" }
        14 => { let i = rng.below(d.fields.len() as u64) as usize; let f = d.fields[i].clone(); d.fields.push(f); d.plug_ok = true; "duplicate-key" }
        _ => { d.plug_ok = true; "none" }
    }
}

fn gen_group_doc(rng: &mut Rng) -> Doc {
    let mut d = Doc { fields: vec![("zarr_format".into(), "3".into()), ("node_type".into(), "\"group\"".into())], plug_ok: true };
    if rng.chance(2, 3) { let a = if rng.chance(1, 6) { "{}".to_string() } else { rand_obj(rng, 3, true) }; d.fields.push(("attributes".into(), a)); }
    for _ in 0..rng.below(4) {
        let k = rng.pick(&["extra", "zzz", "Aux", "é", "b", "shape", "codecs", "0"]).to_string();
        if d.fields.iter().any(|f| f.0 == k) { continue; }
        let o = rand_obj(rng, 2, false);
        let inner = o[1..o.len() - 1].to_string();
        let mut parts: Vec<String> = if inner.is_empty() { vec![] } else { split_top(&inner) };
        let at = rng.below(parts.len() as u64 + 1) as usize;
        parts.insert(at, "\"must_understand\":false".into());
        d.fields.push((k, format!("{{{}}}", parts.join(","))));
    }
    match rng.below(12) {
        0 => { d.set("zarr_format", rng.pick(&["2", "\"3\"", "3.0"]).to_string()); }
        1 => { d.set("node_type", rng.pick(&["\"array\"", "\"Group\"", "null"]).to_string()); }
        2 => { let k = rng.pick(&["zarr_format", "node_type"]).to_string(); d.remove(&k); }
        3 => { d.set("attributes", rng.pick(&["null", "[]", "3"]).to_string()); }
        4 => { let v = rng.pick(&["1", "\"s\"", "[]", "{\"a\":1}", "{\"must_understand\":true}", "{\"must_understand\":0}"]).to_string(); d.fields.push(("unknown_field".into(), v)); }
        _ => {}
    }
    if rng.chance(1, 2) { for i in (1..d.fields.len()).rev() { let j = rng.below(i as u64 + 1) as usize; d.fields.swap(i, j); } }
    d
}


// ---------------------------------------------------------------- V2 documents (model: lean/ZarrsModel/Model/MetaV2.lean)

const V2_TYPED: [&str; 10] = ["zarr_format", "shape", "chunks", "dtype", "compressor", "fill_value", "order", "filters", "dimension_separator", "attributes"];

/// a V2 array document over the space `ArrayMetadataV2` accepts and `array_metadata_v2_to_v3` converts
fn gen_v2_array_doc(rng: &mut Rng) -> Doc {
    let rank = rng.below(4) as usize;
    let dims = |rng: &mut Rng, lo: u64, hi: u64| format!("[{}]", (0..rank).map(|_| rng.range(lo, hi).to_string()).collect::<Vec<_>>().join(","));
    let mut d = Doc { fields: vec![], plug_ok: true };
    d.fields.push(("zarr_format".into(), "2".into()));
    d.fields.push(("shape".into(), dims(rng, 0, 5)));
    d.fields.push(("chunks".into(), dims(rng, 1, 3)));
    // every data type string of the alias table, the regex form, and names that are passed through
    let dts = ["|b1", "|i1", "<i2", ">i2", "<i4", ">i4", "<i8", ">i8", "|u1", "<u2", ">u2", "<u4", ">u4", "<u8", ">u8", "<f2", ">f2", "<f4", ">f4", "<f8", ">f8",
        "<c8", ">c8", "<c16", ">c16", "|O", "|VX", "|V8", "|V16", "|V0", "|V", "|V1x", "|S3", "<U4", "<M8[ns]", "|b1", "|u1", "<f4", "<f8", ">i2"];
    let dt = rng.pick(&dts).to_string();
    d.fields.push(("dtype".into(), jstr(&dt)));
    let compressors = ["null", "null", "{\"id\":\"zlib\",\"level\":1}", "{\"id\":\"gzip\",\"level\":5}", "{\"level\":9,\"id\":\"bz2\"}",
        "{\"id\":\"blosc\",\"cname\":\"lz4\",\"clevel\":5,\"shuffle\":1,\"blocksize\":0}", "{\"id\":\"blosc\",\"cname\":\"zstd\",\"clevel\":0,\"shuffle\":0}",
        "{\"id\":\"blosc\",\"cname\":\"blosclz\",\"clevel\":9,\"shuffle\":2,\"blocksize\":65536,\"typesize\":4}", "{\"shuffle\":-1,\"clevel\":3,\"cname\":\"lz4hc\",\"id\":\"blosc\"}",
        "{\"id\":\"blosc\",\"cname\":\"snappy\",\"clevel\":1,\"shuffle\":-1,\"typesize\":null}", "{\"id\":\"blosc\",\"cname\":{\"zlib\":null},\"clevel\":1,\"shuffle\":1}",
        "{\"id\":\"zstd\",\"level\":1}", "{\"level\":-5,\"id\":\"zstd\",\"checksum\":true}", "{\"id\":\"zstd\",\"level\":\"3\"}", "{\"id\":\"zstd\",\"level\":\"+22\",\"checksum\":false}", "{\"id\":\"zstd\",\"level\":\"-131072\"}",
        "{\"id\":\"zfpy\",\"mode\":4,\"tolerance\":0.5}", "{\"id\":\"pcodec\",\"level\":8}", "{\"id\":\"https://codec.zarrs.dev/array_to_bytes/pcodec\",\"level\":4}",
        "{\"id\":\"https://codec.zarrs.dev/bytes_to_bytes/bz2\",\"level\":4}", "{\"id\":\"zarrs.gdeflate\",\"level\":4}", "{\"id\":\"fletcher32\"}", "{\"id\":\"shuffle\",\"elementsize\":4}",
        "{\"id\":\"unknown\",\"z\":1,\"a\":{\"k\":[1,2]}}", "{\"id\":\"lzma\"}", "{\"id\":\"\"}"];
    match rng.below(12) { 0 => {} _ => d.fields.push(("compressor".into(), rng.pick(&compressors).to_string())) }
    let fills = ["0", "1", "2", "7", "-1", "255", "1.5", "0.0", "-0.0", "1e-7", "18446744073709551615", "-9223372036854775808", "null", "\"NaN\"", "\"Infinity\"", "\"-Infinity\"", "\"AAA=\"", "\"\"", "\"nan\"", "\"0\"", "\"é\""];
    d.fields.push(("fill_value".into(), rng.pick(&fills).to_string()));
    d.fields.push(("order".into(), rng.pick(&["\"C\"", "\"C\"", "\"F\"", "\"F\"", "{\"C\":null}", "{\"F\":null}"]).to_string()));
    let filters = ["null", "[]", "[{\"id\":\"shuffle\",\"elementsize\":4}]", "[{\"id\":\"delta\",\"dtype\":\"<f4\"},{\"elementsize\":2,\"id\":\"shuffle\"}]", "[{\"id\":\"vlen-utf8\"}]",
        "[{\"id\":\"vlen-bytes\",\"x\":1}]", "[{\"id\":\"vlen-array\",\"dtype\":\"<i4\"}]", "[{\"id\":\"fixedscaleoffset\",\"offset\":1,\"scale\":2,\"dtype\":\"<f8\",\"astype\":\"|u1\"}]",
        "[{\"id\":\"bitround\",\"keepbits\":3}]", "[{\"id\":\"https://codec.zarrs.dev/array_to_bytes/bitround\",\"keepbits\":3}]", "[{\"id\":\"zarrs.squeeze\"}]",
        "[{\"id\":\"https://codec.zarrs.dev/array_to_bytes/vlen_v2\"}]", "[{\"id\":\"packbits\"},{\"id\":\"vlen-utf8\"},{\"id\":\"crc32c\"}]", "[{\"id\":\"zfpy\"}]", "[{\"id\":\"blosc\",\"cname\":\"bad\"}]"];
    match rng.below(8) { 0 => {} _ => d.fields.push(("filters".into(), rng.pick(&filters).to_string())) }
    if rng.chance(1, 2) { d.fields.push(("dimension_separator".into(), rng.pick(&["\".\"", "\"/\""]).to_string())); }
    if rng.chance(1, 2) { let a = if rng.chance(1, 6) { "{}".to_string() } else { rand_obj(rng, 3, true) }; d.fields.push(("attributes".into(), a)); }
    // additional fields: exempt objects, arbitrary values, the `node_type` tag in its forms
    for _ in 0..rng.below(4) {
        let k = rng.pick(&["extra", "zz", "Aux", "é", "0", "~", "node_type", "dimension_names", "zarr_consolidated_format", "id"]).to_string();
        if d.fields.iter().any(|f| f.0 == k) { continue; }
        let v = if k == "node_type" && rng.chance(2, 3) { rng.pick(&["\"array\"", "\"array\"", "\"group\"", "\"Array\"", "null"]).to_string() }
            else if rng.chance(2, 3) {
                let o = rand_obj(rng, 2, false);
                let inner = o[1..o.len() - 1].to_string();
                let mut parts: Vec<String> = if inner.is_empty() { vec![] } else { split_top(&inner) };
                let at = rng.below(parts.len() as u64 + 1) as usize;
                parts.insert(at, format!("\"must_understand\":{}", rng.pick(&["false", "false", "true", "0"])));
                format!("{{{}}}", parts.join(","))
            } else { rand_value(rng, 2) };
        d.fields.push((k, v));
    }
    if rng.chance(1, 2) { for i in (1..d.fields.len()).rev() { let j = rng.below(i as u64 + 1) as usize; d.fields.swap(i, j); } }
    d
}

/// break a V2 array document in one way; returns a label
fn mutate_v2_doc(rng: &mut Rng, d: &mut Doc) -> &'static str {
    match rng.below(16) {
        0 => { d.set("zarr_format", rng.pick(&["3", "\"2\"", "2.0", "1", "null", "[2]", "-2"]).to_string()); "zarr_format" }
        1 => { let k = rng.pick(&["zarr_format", "shape", "chunks", "dtype", "fill_value", "order"]).to_string(); d.remove(&k); "missing" }
        2 => { d.set("shape", rng.pick(&["[1.0]", "[-1]", "\"x\"", "null", "[\"1\"]", "[18446744073709551616]", "{}", "3"]).to_string()); "shape-type" }
        3 => { d.set("chunks", rng.pick(&["[0]", "[1,0]", "[1.5]", "null", "\"x\"", "[-1]", "{}"]).to_string()); "chunks-type" }
        4 => { let cur = d.fields.iter().find(|f| f.0 == "shape").map(|f| f.1.clone()).unwrap_or_default(); let n = if cur == "[]" { "[1]".to_string() } else { format!("[{},1]", &cur[1..cur.len() - 1]) }; d.set("shape", n); "rank-shape" }
        5 => { let cur = d.fields.iter().find(|f| f.0 == "chunks").map(|f| f.1.clone()).unwrap_or_default(); let n = if cur == "[]" { "[1]".to_string() } else { format!("[{},2]", &cur[1..cur.len() - 1]) }; d.set("chunks", n); "rank-chunks" }
        6 => { d.set("dtype", rng.pick(&["\"f4\"", "\"\"", "\"=f4\"", "3", "null", "[]", "[[\"a\",\"<i4\"]]", "[[\"a\",\"<i4\",null]]", "[[\"a\",\"<i4\",[2,3]],[\"b\",\"|u1\",[]]]", "[[\"a\",\"<i4\",[2]],[\"b\",\"|u1\",null]]",
            "[[\"a\"]]", "[[\"a\",\"b\",[1],2]]", "[[\"a\",3,null]]", "[[\"a\",\"<i4\",[-1]]]", "[{\"fieldname\":\"a\",\"datatype\":\"b\"}]", "{}", "true"]).to_string()); "dtype" }
        7 => { d.set("compressor", rng.pick(&["\"gzip\"", "{}", "{\"level\":1}", "{\"id\":3}", "{\"id\":null}", "[]", "3", "{\"id\":\"blosc\"}", "{\"id\":\"blosc\",\"cname\":\"lz4\",\"clevel\":10,\"shuffle\":1}",
            "{\"id\":\"blosc\",\"cname\":\"lz5\",\"clevel\":1,\"shuffle\":1}", "{\"id\":\"blosc\",\"cname\":\"lz4\",\"clevel\":1,\"shuffle\":3}", "{\"id\":\"blosc\",\"cname\":\"lz4\",\"clevel\":1,\"shuffle\":1,\"extra\":0}",
            "{\"id\":\"blosc\",\"cname\":\"lz4\",\"clevel\":1.0,\"shuffle\":1}", "{\"id\":\"blosc\",\"cname\":\"lz4\",\"clevel\":1,\"shuffle\":\"shuffle\"}", "{\"id\":\"blosc\",\"cname\":\"lz4\",\"clevel\":1,\"shuffle\":1,\"blocksize\":null}",
            "{\"id\":\"blosc\",\"cname\":\"lz4\",\"clevel\":1,\"shuffle\":1,\"blocksize\":-1}", "{\"id\":\"blosc\",\"cname\":\"lz4\",\"clevel\":1,\"shuffle\":1,\"typesize\":\"4\"}", "{\"id\":\"blosc\",\"cname\":{\"lz4\":1},\"clevel\":1,\"shuffle\":1}",
            "{\"id\":\"blosc\",\"cname\":{\"lz4\":null,\"zstd\":null},\"clevel\":1,\"shuffle\":1}", "{\"id\":\"blosc\",\"cname\":\"LZ4\",\"clevel\":1,\"shuffle\":1}", "{\"id\":\"blosc\",\"clevel\":1,\"shuffle\":1}",
            "{\"id\":\"zstd\"}", "{\"id\":\"zstd\",\"level\":23}", "{\"id\":\"zstd\",\"level\":-131073}", "{\"id\":\"zstd\",\"level\":1.0}", "{\"id\":\"zstd\",\"level\":\"x\"}", "{\"id\":\"zstd\",\"level\":\"\"}", "{\"id\":\"zstd\",\"level\":\" 3\"}",
            "{\"id\":\"zstd\",\"level\":\"99999999999999999999\"}", "{\"id\":\"zstd\",\"level\":1,\"checksum\":1}", "{\"id\":\"zstd\",\"level\":1,\"x\":1}", "{\"id\":\"zstd\",\"checksum\":true}", "{\"id\":\"zstd\",\"level\":null}", "{\"id\":\"zstd\",\"level\":\"-0\"}",
            "{\"id\":\"zstd\",\"level\":\"007\",\"checksum\":true}"]).to_string()); "compressor" }
        8 => { d.set("fill_value", rng.pick(&["true", "false", "[0]", "{}", "[]", "{\"a\":1}"]).to_string()); "fill" }
        9 => { d.set("order", rng.pick(&["\"c\"", "\"\"", "null", "3", "{\"C\":1}", "{\"C\":null,\"F\":null}", "{}", "[\"C\"]", "{\"X\":null}", "true"]).to_string()); "order" }
        10 => { d.set("filters", rng.pick(&["\"x\"", "[3]", "{}", "[{}]", "[{\"id\":1}]", "[null]", "[\"shuffle\"]", "3", "[[{\"id\":\"a\"}]]"]).to_string()); "filters" }
        11 => { d.set("dimension_separator", rng.pick(&["\"x\"", "null", "1", "\"\"", "\"..\"", "[\".\"]"]).to_string()); "separator" }
        12 => { d.set("attributes", rng.pick(&["null", "[]", "3", "\"x\""]).to_string()); "attributes-type" }
        13 => { let i = rng.below(d.fields.len() as u64) as usize; let f = d.fields[i].clone(); d.fields.push(f); "duplicate-key" }
        14 => { let v = rng.pick(&["1", "\"s\"", "[]", "null", "{\"a\":1}", "{\"must_understand\":true,\"a\":1}", "{\"must_understand\":1}", "{\"must_understand\":null,\"b\":2}"]).to_string(); d.fields.push((rng.pick(&["unknown_field", "zz2", "node_type"]).to_string(), v)); "extra-field" }
        _ => { d.set("dtype", "\"|b1\"".to_string()); d.set("fill_value", rng.pick(&["0", "1", "2", "true", "\"x\"", "1.0", "-1", "null"]).to_string()); "bool-fill" }
    }
}

fn gen_v2_group_doc(rng: &mut Rng) -> Doc {
    let mut d = Doc { fields: vec![("zarr_format".into(), "2".into())], plug_ok: true };
    if rng.chance(2, 3) { let a = if rng.chance(1, 6) { "{}".to_string() } else { rand_obj(rng, 3, true) }; d.fields.push(("attributes".into(), a)); }
    for _ in 0..rng.below(4) {
        let k = rng.pick(&["extra", "zzz", "Aux", "é", "b", "shape", "node_type", "0"]).to_string();
        if d.fields.iter().any(|f| f.0 == k) { continue; }
        let v = if k == "node_type" && rng.chance(1, 2) { rng.pick(&["\"group\"", "\"array\""]).to_string() } else if rng.chance(1, 2) {
            let o = rand_obj(rng, 2, false);
            let inner = o[1..o.len() - 1].to_string();
            let mut parts: Vec<String> = if inner.is_empty() { vec![] } else { split_top(&inner) };
            let at = rng.below(parts.len() as u64 + 1) as usize;
            parts.insert(at, "\"must_understand\":false".into());
            format!("{{{}}}", parts.join(","))
        } else { rand_value(rng, 2) };
        d.fields.push((k, v));
    }
    match rng.below(14) {
        0 => { d.set("zarr_format", rng.pick(&["3", "\"2\"", "2.0", "null"]).to_string()); }
        1 => { d.remove("zarr_format"); }
        2 => { d.set("attributes", rng.pick(&["null", "[]", "3"]).to_string()); }
        3 => { let i = rng.below(d.fields.len() as u64) as usize; let f = d.fields[i].clone(); d.fields.push(f); }
        _ => {}
    }
    if rng.chance(1, 2) { for i in (1..d.fields.len()).rev() { let j = rng.below(i as u64 + 1) as usize; d.fields.swap(i, j); } }
    d
}

/// V2 documents judged by the model: `a2doc`, `g2doc`, `v2to3`
fn generate_v2(rng: &mut Rng, n: usize, out: &mut Vec<String>) {
    let fixed = ["[]", "\"x\"", "2", "null", "{}", "[2,[2],[1],\"|u1\",null,0,\"C\"]"];
    for t in fixed { for verb in ["a2doc", "g2doc", "v2to3"] { out.push(format!("c13 {} dup=0 text={}", verb, hex(t.as_bytes()))); } }
    for i in 0..n {
        let mut d = gen_v2_array_doc(rng);
        let label = if i % 3 == 2 { mutate_v2_doc(rng, &mut d) } else { "none" };
        let t = d.text();
        // a repeated key of a typed field is rejected by serde (the JSON model merges it): flagged for the driver
        let dup = V2_TYPED.iter().any(|k| d.fields.iter().filter(|f| f.0 == *k).count() > 1);
        out.push(format!("c13 a2doc dup={} mut={} text={}", dup as u8, label, hex(t.as_bytes())));
        out.push(format!("c13 v2to3 dup={} mut={} text={}", dup as u8, label, hex(t.as_bytes())));
        if i % 4 == 0 {
            let g = gen_v2_group_doc(rng);
            let dupg = ["zarr_format", "attributes"].iter().any(|k| g.fields.iter().filter(|f| f.0 == *k).count() > 1);
            out.push(format!("c13 g2doc dup={} text={}", dupg as u8, hex(g.text().as_bytes())));
        }
    }
}

// ---------------------------------------------------------------- metadata options (model: lean/ZarrsModel/Model/MetaOpts.lean)

/// one of the spellings of a codec name: the identifier, the default name, older aliases
fn spell(rng: &mut Rng, names: &[&str]) -> String { rng.pick(names).to_string() }

/// a V3 array document whose codec and data type names go through the alias tables
fn gen_opts_array_doc(rng: &mut Rng) -> String {
    let rank = rng.range(1, 3) as usize;
    let shape: Vec<u64> = (0..rank).map(|_| rng.range(1, 6)).collect();
    let chunk: Vec<u64> = (0..rank).map(|_| rng.range(1, 3)).collect();
    let list = |v: &[u64]| v.iter().map(|x| x.to_string()).collect::<Vec<_>>().join(",");
    let dts: [(&str, &str, usize); 10] = [("uint8", "0", 1), ("int16", "-2", 2), ("int32", "7", 4), ("float32", "1.5", 4), ("float64", "\"NaN\"", 8), ("uint64", "0", 8),
        ("string", "\"\"", 0), ("bytes", "[]", 0), ("binary", "[]", 0), ("r16", "[0,1]", 2)];
    let (dt, fill, size) = *rng.pick(&dts);
    let is_float = dt.starts_with("float");
    let variable = size == 0;
    let mut a2a: Vec<String> = vec![];
    if rng.chance(1, 4) { let mut order: Vec<usize> = (0..rank).collect(); if rank == 2 && rng.chance(1, 2) { order.swap(0, 1); }
        a2a.push(format!("{{\"name\":\"transpose\",\"configuration\":{{\"order\":[{}]}}}}", order.iter().map(|x| x.to_string()).collect::<Vec<_>>().join(","))); }
    if rng.chance(1, 4) { a2a.push({ let nm = spell(rng, &["squeeze", "zarrs.squeeze"]); meta_forms(rng, &nm, None) }); }
    if is_float && rng.chance(1, 3) { a2a.push(format!("{{\"name\":{},\"configuration\":{{\"keepbits\":{}}}}}", jstr(&spell(rng, &["bitround", "numcodecs.bitround", "https://codec.zarrs.dev/array_to_bytes/bitround"])), rng.range(1, 9))); }
    let a2b: String = if variable {
        match rng.below(3) {
            0 => { let nm = spell(rng, &["vlen_v2", "zarrs.vlen_v2", "https://codec.zarrs.dev/array_to_bytes/vlen_v2"]); meta_forms(rng, &nm, None) },
            1 => meta_forms(rng, if dt == "string" { "vlen-utf8" } else { "vlen-bytes" }, None),
            _ => format!("{{\"name\":{},\"configuration\":{{\"data_codecs\":[{{\"name\":\"bytes\"}}],\"index_codecs\":[{{\"name\":{},\"configuration\":{{\"endian\":\"little\"}}}}],\"index_data_type\":\"uint64\"}}}}",
                jstr(&spell(rng, &["vlen", "zarrs.vlen", "https://codec.zarrs.dev/array_to_bytes/vlen"])), jstr(&spell(rng, &["bytes", "endian"]))),
        }
    } else {
        match rng.below(8) {
            0 if dt != "r16" => format!("{{\"name\":{},\"configuration\":{{\"level\":{}}}}}", jstr(&spell(rng, &["pcodec", "numcodecs.pcodec", "https://codec.zarrs.dev/array_to_bytes/pcodec"])), rng.range(0, 9)),
            1 if dt != "r16" => "{\"name\":\"packbits\"}".to_string(),
            2 => format!("{{\"name\":\"sharding_indexed\",\"configuration\":{{\"chunk_shape\":[{}],\"codecs\":[{{\"name\":{},\"configuration\":{{\"endian\":\"little\"}}}},{{\"name\":{},\"configuration\":{{\"level\":1}}}}],\"index_codecs\":[{{\"name\":{},\"configuration\":{{\"endian\":\"little\"}}}},\"crc32c\"]}}}}",
                list(&vec![1u64; rank]), jstr(&spell(rng, &["bytes", "endian"])), jstr(&spell(rng, &["zlib", "numcodecs.zlib"])), jstr(&spell(rng, &["bytes", "endian"]))),
            3 if size == 1 => { let nm = spell(rng, &["bytes", "endian"]); meta_forms(rng, &nm, None) },
            _ => format!("{{\"name\":{},\"configuration\":{{\"endian\":\"{}\"}}}}", jstr(&spell(rng, &["bytes", "bytes", "endian"])), rng.pick(&["little", "big"])),
        }
    };
    let mut b2b: Vec<String> = vec![];
    for _ in 0..rng.below(3) {
        b2b.push(match rng.below(10) {
            0 => "{\"name\":\"gzip\",\"configuration\":{\"level\":5}}".to_string(),
            1 => meta_forms(rng, "crc32c", None),
            2 => "{\"name\":\"zstd\",\"configuration\":{\"level\":1,\"checksum\":true}}".to_string(),
            3 => format!("{{\"name\":{},\"configuration\":{{\"level\":{}}}}}", jstr(&spell(rng, &["zlib", "numcodecs.zlib"])), rng.range(0, 9)),
            4 => format!("{{\"name\":{},\"configuration\":{{\"level\":{}}}}}", jstr(&spell(rng, &["bz2", "numcodecs.bz2", "https://codec.zarrs.dev/bytes_to_bytes/bz2"])), rng.range(1, 9)),
            5 => { let nm = spell(rng, &["fletcher32", "numcodecs.fletcher32", "https://codec.zarrs.dev/bytes_to_bytes/fletcher32"]); meta_forms(rng, &nm, None) },
            6 => format!("{{\"name\":{},\"configuration\":{{\"level\":{}}}}}", jstr(&spell(rng, &["gdeflate", "zarrs.gdeflate", "https://codec.zarrs.dev/bytes_to_bytes/gdeflate"])), rng.range(0, 9)),
            7 => format!("{{\"name\":{},\"configuration\":{{\"elementsize\":{}}}}}", jstr(&spell(rng, &["shuffle", "numcodecs.shuffle"])), rng.pick(&[1u64, 2, 4])),
            8 => "{\"name\":\"blosc\",\"configuration\":{\"cname\":\"lz4\",\"clevel\":5,\"shuffle\":\"noshuffle\",\"blocksize\":0}}".to_string(),
            _ => "{\"name\":\"gzip\",\"configuration\":{\"level\":1},\"must_understand\":false}".to_string(),
        });
    }
    let mut codecs: Vec<String> = vec![];
    codecs.extend(a2a); codecs.push(a2b); codecs.extend(b2b);
    // codecs that need not be understood: an unknown one (skipped), a known one with a refused configuration (skipped)
    if rng.chance(1, 5) { let at = rng.below(codecs.len() as u64 + 1) as usize;
        codecs.insert(at, rng.pick(&["{\"name\":\"unknown_codec\",\"configuration\":{\"a\":1},\"must_understand\":false}", "{\"name\":\"numcodecs.zlib\",\"configuration\":{\"level\":99},\"must_understand\":false}", "{\"name\":\"endian\",\"configuration\":{\"endian\":\"middle\"},\"must_understand\":false}"]).to_string()); }
    // the list order is not checked by `CodecChain::from_metadata`: sometimes not in canonical order
    if rng.chance(1, 8) { for i in (1..codecs.len()).rev() { let j = rng.below(i as u64 + 1) as usize; codecs.swap(i, j); } }
    // rarely a broken chain
    if rng.chance(1, 25) { codecs.push(rng.pick(&["\"bytes\"", "{\"name\":\"unknown_codec\"}", "{\"name\":\"numcodecs.zlib\",\"configuration\":{\"level\":99}}"]).to_string()); }
    let mut f: Vec<(String, String)> = vec![
        ("zarr_format".into(), "3".into()), ("node_type".into(), "\"array\"".into()), ("shape".into(), format!("[{}]", list(&shape))),
        ("data_type".into(), meta_forms(rng, dt, None)),
        ("chunk_grid".into(), format!("{{\"name\":\"regular\",\"configuration\":{{\"chunk_shape\":[{}]}}}}", list(&chunk))),
        ("chunk_key_encoding".into(), rng.pick(&["\"default\"", "{\"name\":\"v2\",\"configuration\":{\"separator\":\".\"}}", "{\"name\":\"default\",\"configuration\":{\"separator\":\"/\"}}"]).to_string()),
        ("fill_value".into(), fill.to_string()), ("codecs".into(), format!("[{}]", codecs.join(",")))];
    // attributes: sometimes already holding a `_zarrs` entry (first, in the middle, last)
    if rng.chance(3, 4) {
        let a = match rng.below(6) {
            0 => "{}".to_string(),
            1 => "{\"_zarrs\":1,\"b\":2}".to_string(),
            2 => "{\"a\":[1,2],\"_zarrs\":{\"description\":\"old\"},\"z\":null}".to_string(),
            3 => "{\"k\":\"v\",\"_zarrs\":{\"description\":\"This array was created with zarrs\",\"repository\":\"https://github.com/LDeakin/zarrs\",\"version\":\"0.20.0-dev\"}}".to_string(),
            _ => rand_obj(rng, 2, true),
        };
        f.push(("attributes".into(), a));
    }
    if rng.chance(1, 5) { f.push(("storage_transformers".into(), "[]".into())); }
    if rng.chance(1, 3) { f.push(("dimension_names".into(), format!("[{}]", (0..rank).map(|_| if rng.chance(1, 3) { "null".to_string() } else { jstr(&rand_name(rng)) }).collect::<Vec<_>>().join(",")))); }
    for _ in 0..rng.below(3) {
        let k = rng.pick(&["extra", "zzz", "Aux", "é", "0"]).to_string();
        if f.iter().any(|x| x.0 == k) { continue; }
        f.push((k, format!("{{\"must_understand\":false,\"v\":{}}}", rand_value(rng, 1))));
    }
    if rng.chance(1, 40) { f.push(("needed".into(), "{\"v\":1}".into())); }
    if rng.chance(1, 3) { for i in (1..f.len()).rev() { let j = rng.below(i as u64 + 1) as usize; f.swap(i, j); } }
    format!("{{{}}}", f.iter().map(|(k, v)| format!("{}:{}", jstr(k), v)).collect::<Vec<_>>().join(","))
}

/// a V2 array document zarrs supports, with codec ids that go through the V2 alias table
fn gen_opts_v2_array_doc(rng: &mut Rng) -> String {
    let rank = rng.range(1, 3) as usize;
    let dims = |rng: &mut Rng, lo: u64, hi: u64| format!("[{}]", (0..rank).map(|_| rng.range(lo, hi).to_string()).collect::<Vec<_>>().join(","));
    let dts: [(&str, &[&str], bool); 14] = [("|u1", &["0", "7"], false), ("|i1", &["-1"], false), ("<i2", &["0"], false), (">i2", &["-2", "5"], false), ("<u4", &["1"], false), (">u4", &["0"], false),
        ("<f4", &["1.5", "\"NaN\""], true), (">f4", &["0.0"], true), ("<f8", &["\"-Infinity\""], true), (">f8", &["0.0"], true), ("|b1", &["0", "1"], false), ("<i8", &["0"], false), (">u8", &["0"], false), ("|V4", &["\"AAAAAA==\""], false)];
    let (dt, fills, is_float) = *rng.pick(&dts);
    let mut f: Vec<(String, String)> = vec![("zarr_format".into(), "2".into()), ("shape".into(), dims(rng, 1, 6)), ("chunks".into(), dims(rng, 1, 3)), ("dtype".into(), jstr(dt))];
    let compressors = ["null", "{\"id\":\"zlib\",\"level\":1}", "{\"id\":\"gzip\",\"level\":5}", "{\"level\":9,\"id\":\"bz2\"}", "{\"id\":\"https://codec.zarrs.dev/bytes_to_bytes/bz2\",\"level\":4}",
        "{\"id\":\"blosc\",\"cname\":\"lz4\",\"clevel\":5,\"shuffle\":1,\"blocksize\":0}", "{\"id\":\"zstd\",\"level\":1}", "{\"id\":\"zarrs.gdeflate\",\"level\":4}", "{\"id\":\"gdeflate\",\"level\":2}",
        "{\"id\":\"https://codec.zarrs.dev/bytes_to_bytes/gdeflate\",\"level\":3}", "{\"id\":\"fletcher32\"}", "{\"id\":\"https://codec.zarrs.dev/bytes_to_bytes/fletcher32\"}", "{\"id\":\"shuffle\",\"elementsize\":4}",
        "{\"id\":\"pcodec\",\"level\":8}", "{\"id\":\"https://codec.zarrs.dev/array_to_bytes/pcodec\",\"level\":4}", "{\"id\":\"numcodecs.zlib\",\"level\":1}", "{\"id\":\"unknown\",\"z\":1}"];
    f.push(("compressor".into(), rng.pick(&compressors).to_string()));
    f.push(("fill_value".into(), rng.pick(fills).to_string()));
    f.push(("order".into(), rng.pick(&["\"C\"", "\"C\"", "\"F\""]).to_string()));
    let mut filters: Vec<String> = vec![];
    if rng.chance(1, 4) { filters.push(rng.pick(&["{\"id\":\"zarrs.squeeze\"}", "{\"id\":\"squeeze\"}"]).to_string()); }
    if is_float && rng.chance(1, 3) { filters.push(format!("{{\"id\":{},\"keepbits\":3}}", jstr(&spell(rng, &["bitround", "https://codec.zarrs.dev/array_to_bytes/bitround", "numcodecs.bitround"])))); }
    if rng.chance(1, 6) { filters.push("{\"id\":\"shuffle\",\"elementsize\":2}".to_string()); }
    f.push(("filters".into(), if filters.is_empty() { rng.pick(&["null", "[]"]).to_string() } else { format!("[{}]", filters.join(",")) }));
    if rng.chance(1, 2) { f.push(("dimension_separator".into(), rng.pick(&["\".\"", "\"/\""]).to_string())); }
    if rng.chance(2, 3) { f.push(("attributes".into(), match rng.below(5) { 0 => "{}".to_string(), 1 => "{\"_zarrs\":1,\"b\":2}".to_string(), 2 => "{\"a\":[1,2],\"_zarrs\":{\"description\":\"old\"},\"z\":null}".to_string(), _ => rand_obj(rng, 2, true) })); }
    for _ in 0..rng.below(3) {
        let k = rng.pick(&["extra", "zz", "Aux", "é", "0"]).to_string();
        if f.iter().any(|x| x.0 == k) { continue; }
        f.push((k, format!("{{\"must_understand\":false,\"v\":{}}}", rand_value(rng, 1))));
    }
    if rng.chance(1, 40) { f.push(("needed".into(), "{\"v\":1}".into())); }
    if rng.chance(1, 3) { for i in (1..f.len()).rev() { let j = rng.below(i as u64 + 1) as usize; f.swap(i, j); } }
    format!("{{{}}}", f.iter().map(|(k, v)| format!("{}:{}", jstr(k), v)).collect::<Vec<_>>().join(","))
}

/// `c13 mopt` lines: every document under option settings drawn from all 16 (groups: both versions)
fn generate_mopt(rng: &mut Rng, n: usize, out: &mut Vec<String>) {
    let push = |out: &mut Vec<String>, kind: &str, o: u64, text: &str| {
        out.push(format!("c13 mopt kind={} ver={} alias={} zarrs={} enc={} dup=0 text={}", kind, if o & 8 != 0 { "v3" } else { "default" }, (o >> 2) & 1, (o >> 1) & 1, o & 1, hex(text.as_bytes())));
    };
    // a repeated key of a typed field is rejected by serde (the JSON model merges it): flagged for the driver
    let pushg = |out: &mut Vec<String>, kind: &str, o: u64, g: &Doc| {
        let typed: &[&str] = if kind == "g3" { &["zarr_format", "node_type", "attributes", "consolidated_metadata"] } else { &["zarr_format", "attributes"] };
        let dup = typed.iter().any(|k| g.fields.iter().filter(|f| f.0 == *k).count() > 1);
        out.push(format!("c13 mopt kind={} ver={} alias={} zarrs={} enc={} dup={} text={}", kind, if o & 8 != 0 { "v3" } else { "default" }, (o >> 2) & 1, (o >> 1) & 1, o & 1, dup as u8, hex(g.text().as_bytes())));
    };
    // fixed documents under all 16 settings
    let fixed_a3 = [
        r#"{"zarr_format":3,"node_type":"array","shape":[4,6],"data_type":"float32","chunk_grid":{"name":"regular","configuration":{"chunk_shape":[2,3]}},"chunk_key_encoding":"default","fill_value":0.0,"codecs":[{"name":"https://codec.zarrs.dev/array_to_bytes/bitround","configuration":{"keepbits":3}},{"name":"endian","configuration":{"endian":"big"}},{"name":"numcodecs.zlib","configuration":{"level":1}},{"name":"https://codec.zarrs.dev/bytes_to_bytes/gdeflate","configuration":{"level":2}}],"attributes":{"a":1,"_zarrs":"old","z":2},"dimension_names":["y",null]}"#,
        r#"{"zarr_format":3,"node_type":"array","shape":[4],"data_type":"uint8","chunk_grid":{"name":"regular","configuration":{"chunk_shape":[2]}},"chunk_key_encoding":"default","fill_value":0,"codecs":[{"name":"gzip","configuration":{"level":1}},"endian",{"name":"transpose","configuration":{"order":[0]}}]}"#,
        r#"{"zarr_format":3,"node_type":"array","shape":[4],"data_type":"binary","chunk_grid":{"name":"regular","configuration":{"chunk_shape":[2]}},"chunk_key_encoding":"default","fill_value":[],"codecs":["vlen_v2"]}"#,
    ];
    let fixed_a2 = [
        r#"{"zarr_format":2,"shape":[4,6],"chunks":[2,3],"dtype":">i2","compressor":{"id":"https://codec.zarrs.dev/bytes_to_bytes/gdeflate","level":1},"fill_value":-1,"order":"F","filters":[{"id":"zarrs.squeeze"}],"dimension_separator":"/","attributes":{"title":"demo"}}"#,
        r#"{"zarr_format":2,"shape":[4],"chunks":[2],"dtype":"<f4","compressor":{"id":"https://codec.zarrs.dev/bytes_to_bytes/bz2","level":5},"fill_value":0,"order":"C","filters":[{"id":"bitround","keepbits":3}]}"#,
    ];
    for o in 0..16 { for t in fixed_a3 { push(out, "a3", o, t); } for t in fixed_a2 { push(out, "a2", o, t); } }
    // data type metadata in its forms: built-in names, `r<bits>`, configurations, `must_understand`
    let dts: [(&str, &str); 22] = [("\"r+16\"", "[0,1]"), ("\"r12\"", "[0,1]"), ("\"r\"", "[]"), ("\"r016\"", "[0,1]"), ("\"r0\"", "[]"), ("\"r-8\"", "[0]"), ("\"r18446744073709551616\"", "[0]"),
        ("\"bfloat16\"", "0.0"), ("\"float16\"", "0.0"), ("\"complex128\"", "[0.0,0.0]"), ("\"int8\"", "0"), ("\"uint16\"", "0"), ("\"uint32\"", "0"), ("\"int64\"", "0"), ("\"bool\"", "true"),
        ("{\"name\":\"uint8\",\"configuration\":{}}", "0"), ("{\"name\":\"uint8\",\"configuration\":{\"a\":1}}", "0"), ("{\"name\":\"uint8\",\"must_understand\":false}", "0"),
        ("{\"name\":\"binary\",\"configuration\":{}}", "[]"), ("\"Uint8\"", "0"), ("\"uint8 \"", "0"), ("\"R16\"", "[0,1]")];
    for (i, (dt, fill)) in dts.iter().enumerate() {
        let t = format!(r#"{{"zarr_format":3,"node_type":"array","shape":[4],"data_type":{},"chunk_grid":{{"name":"regular","configuration":{{"chunk_shape":[2]}}}},"chunk_key_encoding":"default","fill_value":{},"codecs":[{{"name":"endian","configuration":{{"endian":"little"}}}}]}}"#, dt, fill);
        push(out, "a3", (i as u64 * 5 + 4) % 16, &t);
    }
    for i in 0..n {
        let o = rng.below(16);
        match i % 8 {
            0 | 1 | 2 | 3 => { let t = gen_opts_array_doc(rng); push(out, "a3", o, &t); if rng.chance(1, 3) { push(out, "a3", 15 - o, &t); } }
            4 | 5 | 6 => { let t = gen_opts_v2_array_doc(rng); push(out, "a2", o, &t); if rng.chance(1, 2) { push(out, "a2", o ^ 8, &t); } }
            _ => {
                if rng.chance(1, 2) { let g = gen_group_doc(rng); pushg(out, "g3", o, &g); }
                else { let g = gen_v2_group_doc(rng); pushg(out, "g2", o, &g); pushg(out, "g2", o ^ 8, &g); }
            }
        }
    }
}


/// one hierarchy case block: `cfg`, a random sequence of operations, then the listings of every known path.
/// With `docs` (an own random stream, so that the lines of the plain blocks stay as they were) the block also stores
/// given metadata documents (`mkdoc`) and consolidates (`cons`); it then runs in a `MemoryStore`.
fn gen_hier_block(rng: &mut Rng, thorough: bool, h: usize, mut docs: Option<&mut Rng>, out: &mut Vec<String>) {
    let kind = if docs.is_some() { "memory" } else { match h % 5 { 0 => "fs", 1 => "os_mem", 2 => "od_mem", _ => "memory" } };
    out.push(format!("c13 cfg store={}", kind));
    let names = ["a", "b", "c", "g1", "__x", "zarr", "x.y", "t__2m"];
    let mut paths: Vec<String> = vec!["/".to_string()];
    let nops = rng.range(4, if thorough { 40 } else { 20 });
    if let Some(r) = docs.as_deref_mut() {
        // mostly a root group to consolidate into: plain, or a given document (possibly with consolidated metadata already)
        match r.below(8) {
            0 => {}
            1 | 2 => { let v = !r.chance(1, 20); let t = gen_cons_group_doc(r, 1, v); out.push(format!("c13 op mkdoc p=/ key=zarr.json text={} g=1", hex(t.as_bytes()))); }
            _ => out.push("c13 op mkgroup p=/ v=3".into()),
        }
    }
    for _ in 0..nops {
        let sel = rng.below(20);
        let parent = rng.pick(&paths).clone();
        let child = if parent == "/" { format!("/{}", rng.pick(&names)) } else { format!("{}/{}", parent, rng.pick(&names)) };
        if let Some(r) = docs.as_deref_mut() {
            // a given document at the child (or, rarely, at the parent itself), sometimes a consolidation in the middle
            if r.chance(1, 3) {
                let at = if r.chance(1, 8) { parent.clone() } else { child.clone() };
                let l = gen_mkdoc(r, &at);
                if l.contains("key=zarr.json") && l.contains(" g=1") && !paths.contains(&at) && at.matches('/').count() < 4 { paths.push(at.clone()); }
                out.push(l);
            }
            if r.chance(1, 10) { out.push(format!("c13 op cons p={}", r.pick(&paths))); }
        }
        match sel {
            0..=5 => { let p = if rng.chance(1, 6) { "/".to_string() } else { child.clone() }; out.push(format!("c13 op mkgroup p={} v={}", p, if rng.chance(1, 4) { 2 } else { 3 })); if !paths.contains(&p) && p.matches('/').count() < 4 { paths.push(p); } }
            6..=8 => { out.push(format!("c13 op mkarray p={} v={}", child, if rng.chance(1, 4) { 2 } else { 3 })); }
            9 => { out.push(format!("c13 op rmmeta p={}", rng.pick(&paths))); }
            10 => { let p = rng.pick(&paths).clone(); if p != "/" { out.push(format!("c13 op rmnode p={}", p)); } }
            11 => { out.push(format!("c13 op stray k={}/{}", child.trim_start_matches('/'), rng.pick(&["data.bin", "x/y", "s/0/0"]))); }
            12 => { out.push(format!("c13 op children p={} rec={}", rng.pick(&paths), rng.below(2))); }
            13 => { out.push(format!("c13 op paths p={}", rng.pick(&paths))); }
            14 => { out.push(format!("c13 op objs p={}", rng.pick(&paths))); }
            15 => { out.push(format!("c13 op exists p={}", if rng.chance(1, 2) { child } else { parent })); }
            _ => { out.push(format!("c13 op tree p={}", rng.pick(&paths))); }
        }
    }
    out.push("c13 op keys".into());
    for p in &paths { out.push(format!("c13 op children p={} rec=1", p)); out.push(format!("c13 op paths p={}", p)); out.push(format!("c13 op objs p={}", p)); }
    out.push("c13 op tree p=/".into());
    if let Some(r) = docs.as_deref_mut() {
        // consolidation: a random path first (its stored document then appears in the root's map), the root, the root
        // again (its own consolidated metadata is not part of the map), and the listing afterwards
        out.push(format!("c13 op cons p={}", r.pick(&paths)));
        out.push("c13 op cons p=/".into());
        if r.chance(1, 2) { out.push("c13 op cons p=/".into()); }
        out.push("c13 op tree p=/".into());
        out.push("c13 op keys".into());
    }
}

/// a metadata document stored at a node: mostly valid V3/V2 array and group documents in their forms, rarely one
/// that does not read (the listing then fails).  ` g=1` marks a V3 group document (the path can hold children).
fn gen_mkdoc(r: &mut Rng, at: &str) -> String {
    match r.below(16) {
        0..=4 => { let v = !r.chance(1, 20); let t = gen_cons_group_doc(r, 1, v); format!("c13 op mkdoc p={} key=zarr.json text={} g=1", at, hex(t.as_bytes())) }
        5..=8 => { let d = gen_array_doc(r); format!("c13 op mkdoc p={} key=zarr.json text={}", at, hex(d.text().as_bytes())) }
        9..=11 => {
            let t = if r.chance(1, 12) { r.pick(&[r#"{"zarr_format":2,"shape":[2],"chunks":[1],"dtype":[["a","<i4",null]],"compressor":null,"fill_value":0,"order":"C","filters":[]}"#,
                r#"{"zarr_format":2,"shape":[2],"chunks":[1],"dtype":[["a","<i4",[2]],["b","|u1",[]]],"compressor":null,"fill_value":null,"order":"F","filters":[],"node_type":"array"}"#]).to_string() } else { gen_opts_v2_array_doc(r) };
            let badz = if r.chance(1, 6) { "[1]" } else { r#"{"q":null}"# };
            let z = if r.chance(1, 3) { format!(" zattrs={}", hex(r.pick(&["{}", r#"{"a":1}"#, r#"{"z":"é","a":[1,2,null]}"#, r#"{"_zarrs":1}"#, r#"{"b":{"c":"d"}}"#, badz]).as_bytes())) } else { String::new() };
            format!("c13 op mkdoc p={} key=.zarray text={}{}", at, hex(t.as_bytes()), z)
        }
        12 | 13 => {
            let g = gen_v2_group_doc_nodup(r);
            let badz = if r.chance(1, 4) { "3" } else { r#"{"z":[]}"# };
            let z = if r.chance(1, 3) { format!(" zattrs={}", hex(r.pick(&["{}", r#"{"a":1}"#, r#"{"k":{"b":[true]}}"#, badz]).as_bytes())) } else { String::new() };
            format!("c13 op mkdoc p={} key=.zgroup text={}{}", at, hex(g.text().as_bytes()), z)
        }
        14 if r.chance(1, 4) => { let t = *r.pick(&[r#"{"zarr_format":2}"#, V2_ARRAY, "{}", "[]", r#"{"zarr_format":3,"node_type":"group","attributes":3}"#]); format!("c13 op mkdoc p={} key=zarr.json text={}", at, hex(t.as_bytes())) }
        _ => { let t = format!(r#"{{"zarr_format":3,"node_type":"group","attributes":{}}}"#, rand_obj(r, 2, true)); format!("c13 op mkdoc p={} key=zarr.json text={} g=1", at, hex(t.as_bytes())) }
    }
}

/// a V2 group document without a repeated key (a repeated key of a typed field is rejected by serde, the JSON model merges it)
fn gen_v2_group_doc_nodup(r: &mut Rng) -> Doc {
    loop {
        let g = gen_v2_group_doc(r);
        if !g.fields.iter().enumerate().any(|(i, f)| g.fields[..i].iter().any(|x| x.0 == f.0)) { return g; }
    }
}

/// a node document for a consolidated map (valid unless `bad`): V3 group (possibly with its own consolidated
/// metadata), V3 array, V2 array, V2 group
fn gen_member_doc(r: &mut Rng, depth: u32, valid: bool) -> String {
    match r.below(10) {
        0..=2 => gen_cons_group_doc(r, depth, valid),
        3..=5 => gen_array_doc(r).text(),
        6 | 7 => { let mut t = gen_opts_v2_array_doc(r); if r.chance(1, 3) { t = format!("{},\"attributes\":{}}}", &t[..t.len() - 1], r.pick(&[r#"{"a":1}"#, r#"{"z":[1,{"q":null}]}"#])); if t.matches("\"attributes\"").count() > 1 { t = gen_opts_v2_array_doc(r); } } t }
        8 => gen_v2_group_doc_nodup(r).text(),
        _ => r.pick(&[r#"{"zarr_format":2}"#, r#"{"zarr_format":2,"shape":"x"}"#, r#"{"zarr_format":3,"node_type":"group"}"#,
            r#"{"zarr_format":2,"shape":[2],"chunks":[1],"dtype":[["a","<i4",null]],"compressor":null,"fill_value":0,"order":"C","filters":[]}"#,
            r#"{"node_type":"array","zarr_format":2,"shape":[2],"chunks":[1],"dtype":"|u1","compressor":null,"fill_value":0,"order":"C","filters":null,"dimension_separator":"."}"#,
            r#"{"node_type":"group","zarr_format":2,"shape":[2],"chunks":[1],"dtype":"|u1","compressor":null,"fill_value":0,"order":"C","filters":null}"#]).to_string(),
    }
}

/// the `consolidated_metadata` member in its forms; returns (text, whether it was built to be readable)
fn gen_cons_member(r: &mut Rng, depth: u32, valid: bool) -> String {
    let n = r.below(5) as usize;
    let keys = ["a", "b", "a/b", "a/b/c", "zz", "", "é", "A", "c d", "x\"y", "b/arr", "/lead", "~"];
    let mut used: Vec<&str> = vec![];
    let mut kids: Vec<String> = vec![];
    for _ in 0..n {
        let k = *r.pick(&keys);
        if used.contains(&k) { continue; }
        used.push(k);
        kids.push(format!("{}:{}", jstr(k), gen_member_doc(r, depth.saturating_sub(1), valid)));
    }
    let meta = format!("{{{}}}", kids.join(","));
    let kind = if r.chance(1, 8) { "{\"inline\":null}" } else { "\"inline\"" };
    match if valid { r.below(4) + 20 * r.below(2) } else { r.below(24) } {
        0 => "null".to_string(),
        1 => format!("[{},{},false]", meta, kind),
        2 => format!("{{\"kind\":{},\"must_understand\":false,\"metadata\":{}}}", kind, meta),
        3 => format!("{{\"metadata\":{},\"extra\":[1,2],\"kind\":{},\"must_understand\":false,\"zzz\":{{}}}}", meta, kind),
        // not readable
        4 => format!("{{\"metadata\":{},\"kind\":{},\"must_understand\":{}}}", meta, kind, r.pick(&["true", "0", "null", "\"false\""])),
        5 => format!("{{\"metadata\":{},\"kind\":{},\"must_understand\":false}}", meta, r.pick(&["\"Inline\"", "\"external\"", "null", "{\"inline\":{}}", "{\"inline\":null,\"x\":null}", "[\"inline\"]", "{}"])),
        6 => { let miss = r.below(3); format!("{{{}}}", [format!("\"metadata\":{}", meta), format!("\"kind\":{}", kind), "\"must_understand\":false".to_string()].iter().enumerate().filter(|(i, _)| *i as u64 != miss).map(|(_, x)| x.clone()).collect::<Vec<_>>().join(",")) }
        7 => format!("{{\"metadata\":{},\"kind\":{},\"must_understand\":false}}", r.pick(&["null", "[]", "3", "{\"a\":3}", "{\"a\":{\"zarr_format\":3}}", "{\"a\":{\"zarr_format\":3,\"node_type\":\"array\"}}", "{\"a\":[]}", "{\"a\":{\"zarr_format\":3,\"node_type\":\"group\",\"consolidated_metadata\":{}}}"]), kind),
        8 => r.pick(&["3", "\"inline\"", "{}", "[]", "true", "[{},\"inline\"]", "[{},\"inline\",false,1]", "[{},\"inline\",true]"]).to_string(),
        _ => format!("{{\"metadata\":{},\"kind\":{},\"must_understand\":false}}", meta, kind),
    }
}

/// a V3 group document with (usually) consolidated metadata, in shuffled key order half of the time
fn gen_cons_group_doc(r: &mut Rng, depth: u32, valid: bool) -> String {
    let mut f: Vec<(String, String)> = vec![("zarr_format".into(), "3".into()), ("node_type".into(), "\"group\"".into())];
    if r.chance(1, 2) { f.push(("attributes".into(), if r.chance(1, 5) { "{}".to_string() } else { rand_obj(r, 2, true) })); }
    if depth > 0 && r.chance(3, 4) { f.push(("consolidated_metadata".into(), gen_cons_member(r, depth, valid))); }
    for _ in 0..r.below(3) {
        let k = r.pick(&["extra", "zzz", "Aux", "b", "0", "metadata", "kind"]).to_string();
        if f.iter().any(|x| x.0 == k) { continue; }
        f.push((k, if r.chance(1, 12) { r.pick(&["1", "{\"a\":1}", "{\"must_understand\":true}"]).to_string() } else { format!("{{\"must_understand\":false,\"v\":{}}}", rand_value(r, 1)) }));
    }
    if r.chance(1, 2) { for i in (1..f.len()).rev() { let j = r.below(i as u64 + 1) as usize; f.swap(i, j); } }
    format!("{{{}}}", f.iter().map(|(k, v)| format!("{}:{}", jstr(k), v)).collect::<Vec<_>>().join(","))
}

/// `gdoc` / `gopen` lines for group documents with consolidated metadata, and hierarchy blocks that consolidate
fn generate_cons(rng: &mut Rng, thorough: bool, out: &mut Vec<String>) {
    let n = if thorough { 4000 } else { 400 };
    for _ in 0..n {
        let t = gen_cons_group_doc(rng, 2, false);
        out.push(format!("c13 gdoc text={}", hex(t.as_bytes())));
        out.push(format!("c13 gopen text={}", hex(t.as_bytes())));
    }
    let nh = if thorough { 3000 } else { 320 };
    let mut r2 = Rng::new(rng.next() ^ 0x5EED);
    for h in 0..nh { gen_hier_block(rng, thorough, h, Some(&mut r2), out); }
}


// ---------------------------------------------------------------- builders (model: lean/ZarrsModel/Model/Builder.lean)

/// `c13 build dt=<name> shape=<a,b|-> grid=<a,b|-> fill=<hex bytes> ops=<setter;setter;..|->`: `ArrayBuilder::new` followed by the
/// setters in order, then `build` in a `MemoryStore`.  Setters: `shape:a,b` `dt:<name>` `grid:a,b` `fill:<hex>` `cke:<default|v2><sep>`
/// `sep:<sep>` `a2a:<codec,..|->` `a2b:<codec>` `b2b:<codec,..|->` `attrs:<hex object>` `extra:<hex object>` `dims:<none|a,-,b>` `st`
/// (codecs: `name` or `name~<hex configuration>`; `!name` is `name` registered under no plugin: a custom `Named*Codec` of gzip).
/// Outcome: `err-grid` | `err-dims` | `err-fill` | `err-other` | `ok doc=<hex compact> re=<same|rej|hex> rb=<same|err|hex>` where `re` is the
/// document of the array re-opened after `store_metadata` (without the `_zarrs` attribute) and `rb` the document of
/// `array.builder().build()`.
fn exec_build(m: &BTreeMap<String, String>) -> String {
    use zarrs::array::codec::Codec;
    use zarrs::array::{ArrayBuilder, ArrayCreateError, DataType, FillValue};
    let dt_of = |n: &str| -> DataType { match n { "uint8" => DataType::UInt8, "int16" => DataType::Int16, "int32" => DataType::Int32, "float32" => DataType::Float32,
        "bool" => DataType::Bool, "string" => DataType::String, "r16" => DataType::RawBits(2), _ => DataType::UInt8 } };
    let dims_of = |s: &str| -> Vec<u64> { if s == "-" { vec![] } else { pnl(s) } };
    let grid_of = |s: &str| -> Option<zarrs::array::ChunkGrid> { let v: Vec<u64> = dims_of(s); zarrs::array::ChunkShape::try_from(v).ok().map(|c| zarrs::array::ChunkGrid::new(zarrs::array::chunk_grid::RegularChunkGrid::new(c))) };
    let sep_of = |s: &str| if s == "." { zarrs::metadata::ChunkKeySeparator::Dot } else { zarrs::metadata::ChunkKeySeparator::Slash };
    let aliases = zarrs::config::global_config().codec_aliases_v3().clone();
    let codec_of = |s: &str| -> Option<Codec> {
        let (name, cfg) = match s.split_once('~') { Some((n, c)) => (n.to_string(), Some(String::from_utf8(unhex(c)).unwrap())), None => (s.to_string(), None) };
        let text = match cfg { Some(c) => format!("{{\"name\":{},\"configuration\":{}}}", jstr(&name), c), None => format!("{{\"name\":{}}}", jstr(&name)) };
        let md: MetadataV3 = serde_json::from_str(&text).ok()?;
        Codec::from_metadata(&md, &aliases).ok()
    };
    let grid = match grid_of(&m["grid"]) { Some(g) => g, None => return "bad-grid".into() };
    let mut b = ArrayBuilder::new(dims_of(&m["shape"]), dt_of(&m["dt"]), grid, FillValue::new(unhex(&m["fill"])));
    let ops = m.get("ops").cloned().unwrap_or_default();
    if ops != "-" { for op in ops.split(';') {
        let (k, v) = op.split_once(':').unwrap_or((op, ""));
        match k {
            "shape" => { b.shape(dims_of(v)); }
            "dt" => { b.data_type(dt_of(v)); }
            "grid" => { match grid_of(v) { Some(g) => { b.chunk_grid(g); } None => return "bad-grid".into() } }
            "fill" => { b.fill_value(FillValue::new(unhex(v))); }
            "cke" => { let (n, sp) = v.split_at(v.len() - 1);
                if n == "v2" { b.chunk_key_encoding(zarrs::array::chunk_key_encoding::V2ChunkKeyEncoding::new(sep_of(sp)).into()); }
                else { b.chunk_key_encoding(zarrs::array::chunk_key_encoding::DefaultChunkKeyEncoding::new(sep_of(sp)).into()); } }
            "sep" => { b.chunk_key_encoding_default_separator(sep_of(v)); }
            "a2a" => { let mut cs = vec![]; if v != "-" { for c in v.split(',') { match codec_of(c) { Some(Codec::ArrayToArray(x)) => cs.push(x), _ => return "bad-codec".into() } } } b.array_to_array_codecs_named(cs); }
            "a2b" => { match codec_of(v) { Some(Codec::ArrayToBytes(x)) => { b.array_to_bytes_codec_named(x); } _ => return "bad-codec".into() } }
            "b2b" => { let mut cs: Vec<zarrs::array::codec::NamedBytesToBytesCodec> = vec![]; if v != "-" { for c in v.split(',') {
                if let Some(custom) = c.strip_prefix('!') { cs.push(zarrs::array::codec::NamedBytesToBytesCodec::new(custom.to_string(), std::sync::Arc::new(zarrs::array::codec::GzipCodec::new(1).unwrap()))); continue; }
                match codec_of(c) { Some(Codec::BytesToBytes(x)) => cs.push(x.into()), _ => return "bad-codec".into() } } } b.bytes_to_bytes_codecs_named(cs); }
            "attrs" => { b.attributes(serde_json::from_slice(&unhex(v)).unwrap()); }
            "extra" => { b.additional_fields(serde_json::from_slice(&unhex(v)).unwrap()); }
            "dims" => { if v == "none" { b.dimension_names(None::<Vec<zarrs::array::DimensionName>>); } else {
                b.dimension_names(Some(v.split(',').map(|n| if n == "-" { zarrs::array::DimensionName::from(None::<String>) } else { zarrs::array::DimensionName::from(n) }).collect::<Vec<_>>())); } }
            "st" => { b.storage_transformers(Default::default()); }
            _ => return "bad-op".into(),
        }
    } }
    let sc = make_store("memory");
    let store: DynStore = sc.store.clone();
    let a = match b.build(store.clone(), "/a") {
        Ok(a) => a,
        Err(ArrayCreateError::InvalidChunkGridDimensionality(..)) => return "err-grid".into(),
        Err(ArrayCreateError::InvalidDimensionNames(..)) => return "err-dims".into(),
        Err(ArrayCreateError::InvalidFillValue(..)) => return "err-fill".into(),
        Err(e) => { if std::env::var("VERIF_ERR_MSG").is_ok() { eprintln!("ERR: {}", e); } return "err-other".into() }
    };
    let doc = match a.metadata() { ArrayMetadata::V3(md) => serde_json::to_string(md).unwrap(), _ => return "bad-version".into() };
    // stored (without the `_zarrs` attribute) and re-opened
    let opts = zarrs::array::ArrayMetadataOptions::default().with_include_zarrs_metadata(false);
    let re = if a.store_metadata_opt(&opts).is_err() { "err-store".to_string() } else {
        match Array::open(store.clone(), "/a") {
            Ok(r) => match r.metadata() { ArrayMetadata::V3(md) => { let t = serde_json::to_string(md).unwrap(); if t == doc { "same".to_string() } else { hex(t.as_bytes()) } } _ => "bad-version".to_string() },
            Err(_) => "rej".to_string(),
        } };
    // `array.builder().build()`
    let rb = match a.builder().build(store.clone(), "/b") {
        Ok(r) => match r.metadata() { ArrayMetadata::V3(md) => { let t = serde_json::to_string(md).unwrap(); if t == doc { "same".to_string() } else { hex(t.as_bytes()) } } _ => "bad-version".to_string() },
        Err(_) => "err".to_string(),
    };
    format!("ok doc={} re={} rb={}", hex(doc.as_bytes()), re, rb)
}

/// `c13 gbuild ops=<attrs:<hex>;extra:<hex>;..|->`: `GroupBuilder` setters then `build`, the document, stored and re-opened
fn exec_gbuild(m: &BTreeMap<String, String>) -> String {
    let mut b = zarrs::group::GroupBuilder::new();
    let ops = m.get("ops").cloned().unwrap_or_default();
    if ops != "-" { for op in ops.split(';') {
        let (k, v) = op.split_once(':').unwrap_or((op, ""));
        match k {
            "attrs" => { b.attributes(serde_json::from_slice(&unhex(v)).unwrap()); }
            "extra" => { b.additional_fields(serde_json::from_slice(&unhex(v)).unwrap()); }
            _ => return "bad-op".into(),
        }
    } }
    let sc = make_store("memory");
    let store: DynStore = sc.store.clone();
    let g = match b.build(store.clone(), "/g") { Ok(g) => g, Err(_) => return "err".into() };
    let doc = match g.metadata() { GroupMetadata::V3(md) => serde_json::to_string(md).unwrap(), _ => return "bad-version".into() };
    let re = if g.store_metadata().is_err() { "err-store".to_string() } else {
        match Group::open(store.clone(), "/g") {
            Ok(r) => match r.metadata() { GroupMetadata::V3(md) => { let t = serde_json::to_string(md).unwrap(); if t == doc { "same".to_string() } else { hex(t.as_bytes()) } } _ => "bad-version".to_string() },
            Err(_) => "rej".to_string(),
        } };
    format!("ok doc={} re={}", hex(doc.as_bytes()), re)
}

/// `c13 build` / `c13 gbuild` lines: random setter sequences
fn generate_build(rng: &mut Rng, thorough: bool, out: &mut Vec<String>) {
    let n = if thorough { 6000 } else { 600 };
    let dts: [(&str, &[&str]); 7] = [("uint8", &["00", "07", "ff", "0000"]), ("int16", &["0000", "feff", "ff7f", "00"]), ("int32", &["00000000", "ffffffff", "0100"]),
        ("float32", &["00000000", "0000c07f", "0000c03f", "00"]), ("bool", &["00", "01", "0000"]), ("string", &["", "6869", "61206220"]), ("r16", &["0001", "ffff", "00"])];
    let dimsl = |rng: &mut Rng, rank: usize, lo: u64, hi: u64| -> String { if rank == 0 { "-".to_string() } else { (0..rank).map(|_| rng.range(lo, hi).to_string()).collect::<Vec<_>>().join(",") } };
    let objs = ["{}", r#"{"a":1}"#, r#"{"z":"é","a":[1,2,null]}"#, r#"{"k":{"b":[true]},"_zarrs":1}"#];
    let extras = ["{}", r#"{"ext":{"must_understand":false,"v":1}}"#, r#"{"zz":{"must_understand":false},"Aux":{"a":[1],"must_understand":false}}"#,
        r#"{"needed":{"v":1}}"#, r#"{"b":1,"a":{"must_understand":false}}"#, r#"{"x":{"must_understand":true,"y":2}}"#];
    for _ in 0..n {
        let rank = rng.below(4) as usize;
        let (dt, fills) = *rng.pick(&dts);
        let fill = if rng.chance(1, 12) { fills[fills.len() - 1] } else { *rng.pick(&fills[..fills.len() - 1]) };
        let grank = if rng.chance(1, 10) { (rank + 1) % 4 } else { rank };
        let mut ops: Vec<String> = vec![];
        for _ in 0..rng.below(7) {
            ops.push(match rng.below(15) {
                0 => { let r = if rng.chance(1, 5) { rng.below(4) as usize } else { rank }; format!("shape:{}", dimsl(rng, r, 0, 9)) }
                1 => { let (d2, f2) = *rng.pick(&dts); if rng.chance(2, 3) { format!("dt:{};fill:{}", d2, f2[0]) } else { format!("dt:{}", d2) } }
                2 => { let r = if rng.chance(1, 5) { rng.below(4) as usize } else { rank }; format!("grid:{}", dimsl(rng, r, 1, 4)) }
                3 => format!("fill:{}", rng.pick(fills)),
                4 => format!("cke:{}{}", rng.pick(&["default", "v2"]), rng.pick(&["/", "."])),
                5 => format!("sep:{}", rng.pick(&["/", "."])),
                6 => { let mut cs: Vec<String> = vec![];
                    if rng.chance(1, 2) && rank > 0 { let mut order: Vec<usize> = (0..rank).collect(); for i in (1..rank).rev() { let j = rng.below(i as u64 + 1) as usize; order.swap(i, j); }
                        cs.push(format!("transpose~{}", hex(format!("{{\"order\":[{}]}}", order.iter().map(|x| x.to_string()).collect::<Vec<_>>().join(",")).as_bytes()))); }
                    if rng.chance(1, 3) { cs.push(rng.pick(&["squeeze", "zarrs.squeeze"]).to_string()); }
                    if rng.chance(1, 3) { cs.push(format!("bitround~{}", hex(b"{\"keepbits\":3}"))); }
                    format!("a2a:{}", if cs.is_empty() { "-".to_string() } else { cs.join(",") }) }
                7 => format!("a2b:{}", match rng.below(6) { 0 => format!("bytes~{}", hex(b"{\"endian\":\"big\"}")), 1 => format!("bytes~{}", hex(b"{\"endian\":\"little\"}")), 2 => "bytes".to_string(),
                    3 => format!("endian~{}", hex(b"{\"endian\":\"big\"}")), 4 => "vlen_v2".to_string(), _ => "packbits".to_string() }),
                8 => { let mut cs: Vec<String> = vec![];
                    for _ in 0..rng.below(3) { cs.push(match rng.below(6) { 0 => format!("gzip~{}", hex(format!("{{\"level\":{}}}", rng.range(0, 9)).as_bytes())), 1 => "crc32c".to_string(),
                        2 => format!("zstd~{}", hex(b"{\"level\":1,\"checksum\":true}")), 3 => format!("numcodecs.zlib~{}", hex(b"{\"level\":2}")), 4 => format!("zlib~{}", hex(b"{\"level\":2}")),
                        _ => if rng.chance(1, 3) { "!my_gzip".to_string() } else { "crc32c".to_string() } }); }
                    format!("b2b:{}", if cs.is_empty() { "-".to_string() } else { cs.join(",") }) }
                9 => format!("attrs:{}", hex(rng.pick(&objs).as_bytes())),
                10 | 11 => format!("extra:{}", hex(rng.pick(&extras).as_bytes())),
                12 | 13 => { if rng.chance(1, 5) { "dims:none".to_string() } else { let r = if rng.chance(1, 6) { (rank + 1) % 4 } else { rank };
                    if r == 0 { "dims:none".to_string() } else { format!("dims:{}", (0..r).map(|_| rng.pick(&["y", "x", "-", "t0", "a_b"]).to_string()).collect::<Vec<_>>().join(",")) } } }
                _ => "st".to_string(),
            });
        }
        out.push(format!("c13 build dt={} shape={} grid={} fill={} ops={}", dt, dimsl(rng, rank, 0, 9), dimsl(rng, grank, 1, 4), if fill.is_empty() { "-".to_string() } else { fill.to_string() },
            if ops.is_empty() { "-".to_string() } else { ops.join(";") }));
    }
    for _ in 0..n / 6 {
        let mut ops: Vec<String> = vec![];
        for _ in 0..rng.below(4) { ops.push(if rng.chance(1, 2) { format!("attrs:{}", hex(rng.pick(&objs).as_bytes())) } else { format!("extra:{}", hex(rng.pick(&extras).as_bytes())) }); }
        out.push(format!("c13 gbuild ops={}", if ops.is_empty() { "-".to_string() } else { ops.join(";") }));
    }
}

pub fn generate(tier: &str, seed: u64) -> Vec<String> {
    let thorough = tier == "thorough";
    let mut rng = Rng::new(seed ^ 0xC13);
    let mut out: Vec<String> = vec![];
    let n = if thorough { 12000 } else { 1200 };
    // MetadataV3 forms
    let fixed = ["\"x\"", "{\"name\":\"x\"}", "{\"name\":\"x\",\"configuration\":{}}", "{\"name\":\"x\",\"configuration\":null}", "{\"name\":\"x\",\"must_understand\":false}",
        "{\"name\":\"x\",\"must_understand\":true}", "{\"name\":\"x\",\"configuration\":{},\"must_understand\":false}", "{\"name\":\"x\",\"configuration\":{\"a\":[1,{\"b\":null}]},\"must_understand\":false}",
        "{\"must_understand\":false,\"configuration\":{\"z\":1,\"a\":2},\"name\":\"x\"}", "{\"name\":\"x\",\"configuration\":3}", "{\"name\":\"x\",\"configuration\":[]}", "{\"name\":3}", "{\"nam\":\"x\"}",
        "{\"name\":\"x\",\"extra\":1}", "{\"name\":\"x\",\"must_understand\":1}", "{\"name\":\"x\",\"must_understand\":null}", "{}", "[]", "3", "null", "true", "\"\"", "{\"name\":\"\"}", "{\"name\":\"é\\u0000\\n\",\"configuration\":{\"é\":\"日本\"}}"];
    for t in fixed { out.push(format!("c13 meta text={}", hex(t.as_bytes()))); }
    for _ in 0..n / 4 {
        let name = rand_name(&mut rng);
        let t = match rng.below(6) {
            0 => jstr(&name),
            1 => format!("{{\"name\":{}}}", jstr(&name)),
            2 => format!("{{\"name\":{},\"configuration\":{}}}", jstr(&name), rand_obj(&mut rng, 3, true)),
            3 => format!("{{\"name\":{},\"configuration\":{},\"must_understand\":{}}}", jstr(&name), rand_obj(&mut rng, 2, true), rng.pick(&["true", "false"])),
            4 => format!("{{\"must_understand\":{},\"name\":{}}}", rng.pick(&["true", "false"]), jstr(&name)),
            _ => rand_value(&mut rng, 2),
        };
        out.push(format!("c13 meta text={}", hex(t.as_bytes())));
    }
    // array documents
    for i in 0..n {
        let mut d = gen_array_doc(&mut rng);
        let base_ok = d.plug_ok;   // was the document built from valid parts before the one change made to it?
        let label = if i % 3 == 2 { mutate_doc(&mut rng, &mut d) } else { "none" };
        let t = d.text();
        // a repeated key of a typed field is rejected by serde (the JSON model merges it): flagged for the driver
        let known = ["zarr_format", "node_type", "shape", "data_type", "chunk_grid", "chunk_key_encoding", "fill_value", "codecs", "attributes", "storage_transformers", "dimension_names"];
        let dup = known.iter().any(|k| d.fields.iter().filter(|f| f.0 == *k).count() > 1);
        out.push(format!("c13 adoc dup={} text={}", dup as u8, hex(t.as_bytes())));
        out.push(format!("c13 aopen plug={} base={} mut={} dup={} text={}", if d.plug_ok { "ok" } else { "unk" }, if base_ok { "ok" } else { "unk" }, label, dup as u8, hex(t.as_bytes())));
    }
    for _ in 0..n / 3 {
        let d = gen_group_doc(&mut rng);
        let t = d.text();
        out.push(format!("c13 gdoc text={}", hex(t.as_bytes())));
        out.push(format!("c13 gopen text={}", hex(t.as_bytes())));
    }
    // V2 documents: re-serialising a parsed document must be a fixed point (no model; judged on ser == ser2)
    for _ in 0..n / 3 {
        let rank = rng.below(3) as usize;
        let dims = |rng: &mut Rng, lo: u64| format!("[{}]", (0..rank).map(|_| rng.range(lo, 4).to_string()).collect::<Vec<_>>().join(","));
        let mut f: Vec<(String, String)> = vec![
            ("zarr_format".into(), "2".into()), ("shape".into(), dims(&mut rng, 0)), ("chunks".into(), dims(&mut rng, 1)),
            ("dtype".into(), rng.pick(&["\"<f4\"", "\"|u1\"", "\">i2\"", "\"<f8\"", "\"|b1\"", "\"<c8\"", "\"|S3\"", "[[\"a\",\"<i4\"],[\"b\",\"<f8\"]]"]).to_string()),
            ("compressor".into(), rng.pick(&["null", "{\"id\":\"zlib\",\"level\":1}", "{\"id\":\"gzip\",\"level\":5}", "{\"id\":\"blosc\",\"cname\":\"lz4\",\"clevel\":5,\"shuffle\":1,\"blocksize\":0}", "{\"id\":\"unknown\",\"z\":1,\"a\":{\"k\":[1,2]}}", "{\"level\":1,\"id\":\"zstd\"}"]).to_string()),
            ("fill_value".into(), rng.pick(&["0", "null", "\"NaN\"", "\"Infinity\"", "1.5", "\"AAA=\"", "-1", "true"]).to_string()),
            ("order".into(), rng.pick(&["\"C\"", "\"F\""]).to_string()),
            ("filters".into(), rng.pick(&["null", "[]", "[{\"id\":\"shuffle\",\"elementsize\":4}]", "[{\"id\":\"delta\",\"dtype\":\"<f4\"},{\"elementsize\":2,\"id\":\"shuffle\"}]"]).to_string()),
        ];
        let clean = rng.chance(3, 5);
        if clean {
            // a document zarrs supports: it must open, be stored again and re-open
            let (dt, fills): (&str, &[&str]) = *rng.pick(&[("\"<f4\"", &["0", "\"NaN\"", "1.5", "\"Infinity\""][..]), ("\"|u1\"", &["0", "7"][..]), ("\">i2\"", &["0", "-1"][..]), ("\"<f8\"", &["0.0", "\"-Infinity\""][..]), ("\"|b1\"", &["0", "1"][..])]);
            f[3].1 = dt.to_string();
            f[4].1 = rng.pick(&["null", "{\"id\":\"zlib\",\"level\":1}", "{\"id\":\"gzip\",\"level\":5}", "{\"id\":\"blosc\",\"cname\":\"lz4\",\"clevel\":5,\"shuffle\":1,\"blocksize\":0}", "{\"level\":1,\"id\":\"zstd\"}", "{\"id\":\"bz2\",\"level\":5}"]).to_string();
            f[5].1 = rng.pick(fills).to_string();
            f[7].1 = rng.pick(&["null", "[]"]).to_string();
            if rank == 0 { f[6].1 = "\"C\"".to_string(); }
        }
        if rng.chance(1, 2) { f.push(("dimension_separator".into(), rng.pick(&["\".\"", "\"/\""]).to_string())); }
        if clean {
            if rng.chance(1, 3) { f.push(("attributes".into(), rand_obj(&mut rng, 2, true))); }
            if rng.chance(1, 2) { for i in (1..f.len()).rev() { let j = rng.below(i as u64 + 1) as usize; f.swap(i, j); } }
            let t = format!("{{{}}}", f.iter().map(|(k, v)| format!("{}:{}", jstr(k), v)).collect::<Vec<_>>().join(","));
            out.push(format!("c13 a2doc text={}", hex(t.as_bytes())));
            out.push(format!("c13 a2open clean=1 text={}", hex(t.as_bytes())));
            continue;
        }
        if rng.chance(1, 3) { f.push(("attributes".into(), rand_obj(&mut rng, 2, true))); }
        if rng.chance(1, 3) { f.push((rng.pick(&["extra", "zz"]).to_string(), rand_value(&mut rng, 2))); }
        if rng.chance(1, 8) { let i = rng.below(f.len() as u64) as usize; f.remove(i); }
        if rng.chance(1, 2) { for i in (1..f.len()).rev() { let j = rng.below(i as u64 + 1) as usize; f.swap(i, j); } }
        let t = format!("{{{}}}", f.iter().map(|(k, v)| format!("{}:{}", jstr(k), v)).collect::<Vec<_>>().join(","));
        out.push(format!("c13 a2doc text={}", hex(t.as_bytes())));
        out.push(format!("c13 a2open text={}", hex(t.as_bytes())));
        let g = format!("{{\"zarr_format\":2{}{}}}", if rng.chance(1, 3) { format!(",\"attributes\":{}", rand_obj(&mut rng, 2, true)) } else { String::new() }, if rng.chance(1, 3) { format!(",\"extra\":{}", rand_value(&mut rng, 2)) } else { String::new() });
        out.push(format!("c13 g2doc text={}", hex(g.as_bytes())));
    }
    // hierarchies
    let nh = if thorough { 3000 } else { 300 };
    for h in 0..nh { gen_hier_block(&mut rng, thorough, h, None, &mut out); }
    // V2 documents and the V2 -> V3 conversion against the model (own stream: the lines above stay as they were)
    let mut rng2 = Rng::new(seed ^ 0xC13_0002);
    generate_v2(&mut rng2, if thorough { 12000 } else { 1500 }, &mut out);
    // handles changed through their setters, stored and re-opened (separate stream)
    {
        let mut r2 = Rng::new(seed ^ 0xC13_77);
        // group documents with consolidated metadata of several children (a map whose order the library chooses):
        // not modelled, but re-serialising the parsed document must be a fixed point
        for k in 0..(if tier == "thorough" { 40 } else { 8 }) {
            let n = 2 + (k % 7);
            let mut names: Vec<String> = (0..n).map(|i| format!("{}{}", (b'a' + ((i * 7 + k) % 26) as u8) as char, i)).collect();
            if r2.chance(1, 2) { names.reverse(); }
            let kids: Vec<String> = names.iter().map(|nm| format!(r#""{}":{{"zarr_format":3,"node_type":"group","attributes":{{"i":"{}"}}}}"#, nm, nm)).collect();
            let doc = format!(r#"{{"zarr_format":3,"node_type":"group","attributes":{{}},"consolidated_metadata":{{"metadata":{{{}}},"kind":"inline","must_understand":false}}}}"#, kids.join(","));
            out.push(format!("c13 gdoc text={}", hex(doc.as_bytes())));
        }
        let objs = ["{}", r#"{"a":1}"#, r#"{"a":1,"b":{"c":[1,2,null]}}"#, r#"{"z":"é","a":false}"#, r#"{"k":[]}"#];
        let n = if tier == "thorough" { 400 } else { 80 };
        for _ in 0..n {
            let kind = *r2.pick(&["a3", "a3", "a2", "g3", "g2"]);
            let first = *r2.pick(&objs); let attrs = *r2.pick(&objs);
            let mut l = format!("c13 mut kind={} first={} attrs={} zarrs={}", kind, hex(first.as_bytes()), hex(attrs.as_bytes()), r2.below(2));
            if kind.starts_with('a') && r2.chance(1, 2) { l.push_str(&format!(" shape={},{}", r2.range(1, 9), r2.range(1, 9))); }
            if kind == "a3" && r2.chance(2, 3) { l.push_str(&format!(" dims={}", *r2.pick(&["none", "y,x", "-,x", "rows,-", "-,-", "a,a"]))); }
            out.push(l);
        }
        // the metadata options of `store_metadata_opt` (own stream): V2 data types of every byte order, alias conversion on/off
        let mut r3 = Rng::new(seed ^ 0xC13_78);
        for _ in 0..(if tier == "thorough" { 120 } else { 30 }) {
            let kind = *r3.pick(&["a3", "a2", "a2"]);
            let attrs = *r3.pick(&objs);
            let mut l = format!("c13 mut kind={} first={} attrs={} zarrs={} alias={}", kind, hex(b"{}"), hex(attrs.as_bytes()), r3.below(2), r3.below(2));
            if kind == "a2" { l.push_str(&format!(" dt={}", *r3.pick(&["|u1", "|i1", "<i2", ">i2", "<u4", ">u4", "<f4", ">f8", "<f8", "|b1", "<i8", ">u8"]))); }
            out.push(l);
        }
    }
    // the metadata options against the model (own stream: the lines above stay as they were)
    let mut r4 = Rng::new(seed ^ 0xC13_0B7);
    generate_mopt(&mut r4, if thorough { 12000 } else { 1400 }, &mut out);
    // consolidated metadata against the model (own stream: the lines above stay as they were)
    let mut r5 = Rng::new(seed ^ 0xC13_0C5);
    generate_cons(&mut r5, thorough, &mut out);
    // the builders against the model (own stream)
    let mut r6 = Rng::new(seed ^ 0xC13_0B1D);
    generate_build(&mut r6, thorough, &mut out);
    out
}
