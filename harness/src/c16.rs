//! C16: results do not depend on parallelism. (a) histories at several concurrency targets / chunk_concurrent_minimum;
//! (b) client threads on chunk-disjoint bands behind a turn-taking store wrapper that serialises store operations in a
//! seeded random order; (c) cached reads through thread-local caches with the re-entrancy probe (H5) trapping.
use crate::arr::*;
use crate::c06::{exec_op as c06_exec, C06State};
use crate::c08::DynStore;
use crate::hooks;
use crate::util::*;
use std::collections::BTreeMap;
use std::sync::{Arc, Condvar, Mutex};
use zarrs::array::Array;
use zarrs::storage::byte_range::ByteRange;
use zarrs::storage::{
    Bytes, ListableStorageTraits, MaybeBytes, ReadableStorageTraits, StorageError, StoreKey, StoreKeyOffsetValue, StoreKeys,
    StoreKeysPrefixes, StorePrefix, WritableStorageTraits,
};

/// turn-taking gate: every store operation waits for a grant; grants are handed out one at a time in a seeded random
/// order among the operations waiting at that moment
pub struct Turns {
    st: Mutex<TurnsState>,
    cv: Condvar,
}
struct TurnsState { waiting: Vec<u64>, granted: Option<u64>, busy: bool, next_id: u64, rng: Rng, on: bool }
impl Turns {
    pub fn new(seed: u64) -> Self { Turns { st: Mutex::new(TurnsState { waiting: vec![], granted: None, busy: false, next_id: 0, rng: Rng::new(seed), on: true }), cv: Condvar::new() } }
    fn enter(&self) {
        let mut g = self.st.lock().unwrap();
        if !g.on { return; }
        let id = g.next_id; g.next_id += 1;
        g.waiting.push(id);
        self.cv.notify_all();
        loop {
            if !g.on { return; }
            if g.granted == Some(id) { g.granted = None; g.busy = true; return; }
            // self-scheduling: if nobody is running, wait a moment for other arrivals, then pick at random
            if !g.busy && g.granted.is_none() {
                let (g2, _) = self.cv.wait_timeout(g, std::time::Duration::from_micros(300)).unwrap();
                g = g2;
                if !g.busy && g.granted.is_none() && !g.waiting.is_empty() {
                    let wl = g.waiting.len() as u64; let i = g.rng.below(wl) as usize;
                    let pick = g.waiting.remove(i);
                    g.granted = Some(pick);
                    self.cv.notify_all();
                }
            } else {
                g = self.cv.wait(g).unwrap();
            }
        }
    }
    fn leave(&self) { let mut g = self.st.lock().unwrap(); g.busy = false; self.cv.notify_all(); }
    pub fn off(&self) { let mut g = self.st.lock().unwrap(); g.on = false; self.cv.notify_all(); }
}
pub struct TurnStore { inner: DynStore, turns: Arc<Turns> }
macro_rules! gated { ($s:expr, $e:expr) => {{ $s.turns.enter(); let r = $e; $s.turns.leave(); r }}; }
impl ReadableStorageTraits for TurnStore {
    fn get(&self, key: &StoreKey) -> Result<MaybeBytes, StorageError> { gated!(self, self.inner.get(key)) }
    fn get_partial_values_key(&self, key: &StoreKey, r: &[ByteRange]) -> Result<Option<Vec<Bytes>>, StorageError> { gated!(self, self.inner.get_partial_values_key(key, r)) }
    fn size_key(&self, key: &StoreKey) -> Result<Option<u64>, StorageError> { gated!(self, self.inner.size_key(key)) }
}
impl WritableStorageTraits for TurnStore {
    fn set(&self, key: &StoreKey, value: Bytes) -> Result<(), StorageError> { gated!(self, self.inner.set(key, value)) }
    fn set_partial_values(&self, kov: &[StoreKeyOffsetValue]) -> Result<(), StorageError> { gated!(self, self.inner.set_partial_values(kov)) }
    fn erase(&self, key: &StoreKey) -> Result<(), StorageError> { gated!(self, self.inner.erase(key)) }
    fn erase_prefix(&self, p: &StorePrefix) -> Result<(), StorageError> { gated!(self, self.inner.erase_prefix(p)) }
}
impl ListableStorageTraits for TurnStore {
    fn list(&self) -> Result<StoreKeys, StorageError> { self.inner.list() }
    fn list_prefix(&self, p: &StorePrefix) -> Result<StoreKeys, StorageError> { self.inner.list_prefix(p) }
    fn list_dir(&self, p: &StorePrefix) -> Result<StoreKeysPrefixes, StorageError> { self.inner.list_dir(p) }
    fn size_prefix(&self, p: &StorePrefix) -> Result<u64, StorageError> { self.inner.size_prefix(p) }
}

#[derive(Default)]
pub struct C16State { pub pending: Vec<(usize, String)>, pub nthreads: usize, pub seed: u64 }

pub fn exec_op(ctx: &mut ArrCtx, st6: &mut C06State, st: &mut C16State, verb: &str, m: &BTreeMap<String, String>, line: &str, dtype: &str) -> String {
    match verb {
        "pstart" => { st.pending.clear(); st.nthreads = m["n"].parse().unwrap(); st.seed = m["seed"].parse().unwrap(); "ok".into() }
        "pthread" => { st.pending.push((m["t"].parse().unwrap(), line.to_string())); "queued".into() }
        "prun" => {
            // a second handle on the same store behind the turn-taking wrapper
            let turns = Arc::new(Turns::new(st.seed));
            let ts: DynStore = Arc::new(TurnStore { inner: ctx.store.store.clone(), turns: turns.clone() });
            let array = match Array::open(ts, &ctx.path) { Ok(a) => Arc::new(a), Err(_) => return "err-open".into() };
            let mut handles = vec![];
            for t in 0..st.nthreads {
                let ops: Vec<String> = st.pending.iter().filter(|p| p.0 == t).map(|p| p.1.clone()).collect();
                let (array, es, opts, path) = (array.clone(), ctx.es, ctx.opts.clone(), ctx.path.clone());
                let store = ctx.store.store.clone();
                handles.push(std::thread::spawn(move || {
                    let mut out = vec![];
                    // a private ArrCtx view sharing the array handle
                    let mut c = ArrCtx { store: crate::c08::StoreCtx { kind: "shared".into(), store, dir: None }, array, path, es, opts };
                    for l in ops {
                        let (v, m) = parse_line(&l);
                        // `c16 op pthread t=0 <verb> ...` : the real verb is the 4th bare token
                        let verb = v.get(3).cloned().unwrap_or_default();
                        out.push(crate::arr::exec_op(&mut c, &verb, &m));
                    }
                    out
                }));
            }
            let deadline = std::time::Instant::now() + std::time::Duration::from_secs(20);
            let mut results: Vec<String> = vec![];
            let mut hung = false;
            for h in handles {
                while !h.is_finished() && std::time::Instant::now() < deadline { std::thread::sleep(std::time::Duration::from_millis(2)); }
                if h.is_finished() { match h.join() { Ok(v) => results.push(v.join(",")), Err(_) => results.push("panic".into()) } }
                else { hung = true; results.push("timeout".into()); }
            }
            turns.off();
            if hung { return "timeout".into(); }
            format!("par {}", results.join("|"))
        }
        "tl_cached_subset" | "tl_cached_chunks" => {
            hooks::start_recording(true);
            let v = if verb == "tl_cached_subset" { "cached_subset" } else { "cached_chunks" };
            // the thread-pool size is part of the quantifier: run inside a dedicated pool when `pool=` is given
            let r = match m.get("pool").and_then(|p| p.parse::<usize>().ok()) {
                Some(n) => { let pool = rayon::ThreadPoolBuilder::new().num_threads(n).build().unwrap(); pool.install(|| c06_exec(ctx, st6, v, m, dtype)) }
                None => c06_exec(ctx, st6, v, m, dtype),
            };
            let ev = hooks::stop_recording();
            let busy = ev.iter().filter(|e| (e.0 == "tlcache.lock" || e.0 == "tlcache.fill") && e.1.first() == Some(&1)).count();
            if std::env::var("VERIF_DEBUG").is_ok() { eprintln!("tlcache events: {} busy {}", ev.iter().filter(|e| e.0.starts_with("tlcache.")).count(), busy); }
            if busy > 0 { format!("reentrant {}", r) } else { r }
        }
        // two clients on chunk-disjoint halves of an array whose shards have thousands of inner chunks (a shard index
        // large enough for data-parallel helpers to split): A reads its half through the sharded extension with a FRESH
        // shard-index cache every time, B reads the other half plainly. Must complete (the supervisor turns a hang into
        // `timeout`) and return the stored data.
        "shardext_steal" => {
            // a sharded but not EXCLUSIVELY sharded array (transpose in front), 16 shards, every shard its own task, a concurrency
            // target that also splits the inner chunks, a store whose inner-chunk reads take a millisecond (so that idle workers
            // steal): the cached sharded read of the whole array must complete (a hang is reported by the supervisor) and be right
            use zarrs::array::{Array, ArrayBuilder, ArrayShardedReadableExt, ArrayShardedReadableExtCache, DataType, FillValue};
            use zarrs::array::codec::array_to_bytes::sharding::ShardingCodecBuilder;
            use zarrs::storage::{byte_range::ByteRange, Bytes, ReadableStorageTraits, StorageError, StoreKey};
            struct SlowStore(Arc<zarrs::storage::store::MemoryStore>);
            impl ReadableStorageTraits for SlowStore {
                fn get_partial_values_key(&self, key: &StoreKey, r: &[ByteRange]) -> Result<Option<Vec<Bytes>>, StorageError> {
                    if !matches!(r.first(), Some(ByteRange::Suffix(_))) { std::thread::sleep(std::time::Duration::from_millis(1)); }
                    self.0.get_partial_values_key(key, r)
                }
                fn size_key(&self, key: &StoreKey) -> Result<Option<u64>, StorageError> { self.0.size_key(key) }
            }
            let n: usize = m["n"].parse().unwrap();
            let mem = Arc::new(zarrs::storage::store::MemoryStore::new());
            let mut b = ArrayBuilder::new(vec![64, 8], DataType::UInt16, vec![4, 8].try_into().unwrap(), FillValue::from(0u16));
            b.array_to_array_codecs(vec![Arc::new(zarrs::array::codec::TransposeCodec::new(zarrs::array::codec::array_to_array::transpose::TransposeOrder::new(&[1, 0]).unwrap()))]);
            b.array_to_bytes_codec(Arc::new(ShardingCodecBuilder::new(vec![1, 4].try_into().unwrap()).build()));
            let w = b.build(mem.clone(), "/").unwrap();
            w.store_metadata().unwrap();
            let data: Vec<u16> = (0..64 * 8).map(|i| i as u16 + 1).collect();
            w.store_array_subset_elements(&w.subset_all(), &data).unwrap();
            let array = Array::open(Arc::new(SlowStore(mem)), "/").unwrap();
            let old_ccm = zarrs::config::global_config().chunk_concurrent_minimum();
            zarrs::config::global_config_mut().set_chunk_concurrent_minimum(16);
            let mut o = zarrs::array::codec::CodecOptions::default(); o.set_concurrent_target(256);
            let mut bad = 0;
            for _ in 0..n {
                let cache = ArrayShardedReadableExtCache::new(&array);
                match array.retrieve_array_subset_elements_sharded_opt::<u16>(&cache, &array.subset_all(), &o) { Ok(v) if v == data => {}, _ => bad += 1 }
            }
            zarrs::config::global_config_mut().set_chunk_concurrent_minimum(old_ccm);
            format!("val n={} bad_a={} bad_b=0", n, bad)
        }
        "shardext_stress" => {
            use zarrs::array::{ArrayBuilder, ArrayShardedReadableExt, ArrayShardedReadableExtCache, DataType, FillValue};
            use zarrs::array::codec::array_to_bytes::sharding::ShardingCodecBuilder;
            let n: usize = m["n"].parse().unwrap();
            let (rows, cols): (u64, u64) = (m["rows"].parse().unwrap(), m["cols"].parse().unwrap());
            let store = Arc::new(zarrs::storage::store::MemoryStore::new());
            let mut b = ArrayBuilder::new(vec![rows, cols], DataType::UInt8, vec![1, cols].try_into().unwrap(), FillValue::from(0u8));
            b.array_to_bytes_codec(Arc::new(ShardingCodecBuilder::new(vec![1, 1].try_into().unwrap()).build()));
            // `pre=transpose`: an array->array codec in front of the sharding codec (the array is then sharded but not
            // EXCLUSIVELY sharded: the extension takes its other branch)
            if m.get("pre").map(|s| s == "transpose").unwrap_or(false) {
                b.array_to_array_codecs(vec![Arc::new(zarrs::array::codec::TransposeCodec::new(zarrs::array::codec::array_to_array::transpose::TransposeOrder::new(&[1, 0]).unwrap()))]);
                b.array_to_bytes_codec(Arc::new(ShardingCodecBuilder::new(vec![1, 1].try_into().unwrap()).build()));
            }
            let array = Arc::new(b.build(store, "/").unwrap());
            let data: Vec<u8> = (0..rows * cols).map(|i| (i % 251) as u8 + 1).collect();
            array.store_array_subset_elements(&array.subset_all(), &data).unwrap();
            let old_ccm = zarrs::config::global_config().chunk_concurrent_minimum();
            zarrs::config::global_config_mut().set_chunk_concurrent_minimum(64);
            let half = rows / 2;
            let ra = zarrs::array_subset::ArraySubset::new_with_ranges(&[0..half, 0..4]);
            let rb = zarrs::array_subset::ArraySubset::new_with_ranges(&[half..rows, 0..4]);
            let expect = |r0: u64, r1: u64| -> Vec<u8> { (r0..r1).flat_map(|r| (0..4u64).map(move |c| ((r * cols + c) % 251) as u8 + 1)).collect() };
            let (ea, eb) = (expect(0, half), expect(half, rows));
            let a2 = array.clone();
            let tb = std::thread::spawn(move || { let mut bad = 0; for _ in 0..n { match a2.retrieve_array_subset_elements::<u8>(&rb) { Ok(v) if v == eb => {}, _ => bad += 1 } } bad });
            let mut bad_a = 0;
            for _ in 0..n {
                let cache = ArrayShardedReadableExtCache::new(&*array);
                // (the transpose variant always with the default options: the concurrency target of the machine)
                let o = if m.contains_key("pre") { zarrs::array::codec::CodecOptions::default() } else { ctx.opts.clone() };
                match array.retrieve_array_subset_elements_sharded_opt::<u8>(&cache, &ra, &o) { Ok(v) if v == ea => {}, _ => bad_a += 1 }
            }
            let bad_b = tb.join().unwrap_or(n);
            zarrs::config::global_config_mut().set_chunk_concurrent_minimum(old_ccm);
            format!("val n={} bad_a={} bad_b={}", n, bad_a, bad_b)
        }
        "set_ccm" => { zarrs::config::global_config_mut().set_chunk_concurrent_minimum(m["v"].parse().unwrap()); "ok".into() }
        // codec concurrency target of the following operations (the cfg line's `ct=` sets the initial one)
        "set_ct" => { ctx.opts.set_concurrent_target(m["v"].parse().unwrap()); "ok".into() }
        // the raw stored value of a shard (judged by the driver: legal layout, length, contents, equality across targets)
        "rawshard" => crate::arr::exec_op(ctx, "raw", m),
        _ => c06_exec(ctx, st6, verb, m, dtype),
    }
}

pub fn generate(tier: &str, seed: u64) -> Vec<String> {
    let mut rng = Rng::new(seed ^ 0xC16);
    let thorough = tier == "thorough";
    let mut out = vec![];
    // (a) histories at several concurrency settings
    let na = if thorough { 1500 } else { 160 };
    for k in 0..na {
        let cfg = gen_cfg(&mut rng, if k % 2 == 0 { Some(true) } else { None });
        let ct = *rng.pick(&[1u64, 2, 3, 8, 16]);
        // (a quarter of the cases with the partial-encoding write strategy: it updates shards that the PARALLEL encoder laid out)
        out.push(cfg.cfg_line("c16", "memory", false, k % 4 == 1, &format!(" ct={}", ct)));
        out.push(format!("c16 op set_ccm v={}", rng.pick(&[1u64, 4])));
        for _ in 0..rng.range(2, 9) { out.push(format!("c16 {}", gen_write_op(&mut rng, &cfg))); if rng.chance(1, 2) { out.push(format!("c16 {}", gen_read_op(&mut rng, &cfg))); } }
        gen_full_reads(&mut rng, &cfg, &mut out, "c16");
        { let gs = cfg.grid_shape(); out.push(format!("c16 op enc_chunks box={}+{}", nl(&vec![0; gs.len()]), nl(&gs))); }
        out.push("c16 op set_ccm v=4".into());
    }
    // (b) concurrent clients on chunk-disjoint bands
    let nb = if thorough { 600 } else { 70 };
    let mut k = 0;
    while k < nb {
        let cfg = gen_cfg(&mut rng, if k % 3 == 0 { Some(true) } else { None });
        let gs = cfg.grid_shape();
        if gs.is_empty() || gs[0] < 2 { continue; }
        k += 1;
        let nt = if gs[0] >= 3 && rng.chance(1, 2) { 3 } else { 2 } as usize;
        out.push(cfg.cfg_line("c16", "memory", false, false, &format!(" ct={}", rng.pick(&[1u64, 4]))));
        for _ in 0..rng.range(0, 4) { out.push(format!("c16 {}", gen_write_op(&mut rng, &cfg))); }
        // bands of chunk rows
        let mut cuts: Vec<u64> = vec![0];
        for t in 1..nt { let lo = cuts[t - 1] + 1; let hi = gs[0] - (nt - t) as u64; cuts.push(rng.range(lo, hi)); }
        cuts.push(gs[0]);
        out.push(format!("c16 op pstart n={} seed={}", nt, rng.next() % 100000));
        for t in 0..nt {
            let (c0, c1) = (cuts[t], cuts[t + 1]);
            // array rows covered by chunk rows [c0, c1)
            let row0 = cfg.chunk_origin_shape(&{ let mut c = vec![0; gs.len()]; c[0] = c0; c }).0[0];
            let last = cfg.chunk_origin_shape(&{ let mut c = vec![0; gs.len()]; c[0] = c1 - 1; c });
            let row1 = (last.0[0] + last.1[0]).min(cfg.shape[0]);
            for _ in 0..rng.range(2, 5) {
                // region inside the band
                let mut s = vec![]; let mut n = vec![];
                for (d, &e) in cfg.shape.iter().enumerate() {
                    let (lo, hi) = if d == 0 { (row0, row1) } else { (0, e) };
                    let st = lo + rng.below(hi - lo); s.push(st); n.push(rng.range(1, hi - st));
                }
                let chunk: Vec<u64> = gs.iter().enumerate().map(|(d, &g)| if d == 0 { c0 + rng.below(c1 - c0) } else { rng.below(g) }).collect();
                let line = match rng.below(6) {
                    0 | 1 => format!("store_array_subset r={}+{} data={}", nl(&s), nl(&n), gen_data(&mut rng, &cfg, n.iter().product())),
                    2 => { let cs = cfg.chunk_origin_shape(&chunk).1; format!("store_chunk c={} data={}", nl(&chunk), gen_data(&mut rng, &cfg, cs.iter().product())) }
                    3 => format!("erase_chunk c={}", nl(&chunk)),
                    4 => format!("retrieve_array_subset r={}+{}", nl(&s), nl(&n)),
                    _ => format!("retrieve_chunk c={}", nl(&chunk)),
                };
                out.push(format!("c16 op pthread t={} {}", t, line));
            }
            // each thread finally reads its whole band
            let mut s = vec![row0]; let mut n = vec![row1 - row0];
            for &e in cfg.shape.iter().skip(1) { s.push(0); n.push(e); }
            out.push(format!("c16 op pthread t={} retrieve_array_subset r={}+{}", t, nl(&s), nl(&n)));
        }
        out.push("c16 op prun".into());
        gen_full_reads(&mut rng, &cfg, &mut out, "c16");
    }
    // (d) the parallel shard assembly (`ShardingCodec::encode_bounded` / `encode_unbounded`): one shard with MANY inner chunks
    // (>= 64, so that the parallel loop over the inner chunks is split at a concurrency target > 1), the same contents
    // written at concurrency targets 1, 2, 4, 16, the raw shard handed to the driver after every write (`rawshard`:
    // legal layout, length = contents + index, inner chunks = the encodings of the model's contents, equal across
    // targets), then a stress repetition at target 16
    {
        let dts = dtypes();
        let u16t = dts.iter().find(|d| d.name == "uint16").unwrap().clone();
        let u8t = dts.iter().find(|d| d.name == "uint8").unwrap().clone();
        let shard_json = |inner: &str, codecs: &str, idx: &str, loc: &str| format!("[{{\"name\":\"sharding_indexed\",\"configuration\":{{\"chunk_shape\":[{}],\"codecs\":{},\"index_codecs\":{},\"index_location\":\"{}\"}}}}]", inner, codecs, idx, loc);
        let bytes_le = "[{\"name\":\"bytes\",\"configuration\":{\"endian\":\"little\"}}]";
        let bytes_gzip = "[{\"name\":\"bytes\"},{\"name\":\"gzip\",\"configuration\":{\"level\":1}}]";
        let idx_crc = "[{\"name\":\"bytes\",\"configuration\":{\"endian\":\"little\"}},{\"name\":\"crc32c\"}]";
        let idx_be = "[{\"name\":\"bytes\",\"configuration\":{\"endian\":\"big\"}}]";
        // (name, cfg, number of stress repetitions quick/thorough)
        let variants: Vec<(Cfg, u64, u64)> = vec![
            // bounded path, 1024 inner chunks of one element, index at the end with checksum
            (Cfg { dtype: u16t.clone(), fill: u16t.fills[0].clone(), shape: vec![1024], grid: vec![(true, vec![1024])], regular_impl: true,
                keys: ("default".into(), "/".into()), codecs_json: shard_json("1", bytes_le, idx_crc, "end"),
                chain_desc: "shard[1;end;le+crc;bytes-little]".into(), sharded: true, path: "/asm1".into(), eff_inner: Some(vec![1]) }, 30, 300),
            // bounded path, 2-D, 256 inner chunks of 2x2, index at the start, big endian
            (Cfg { dtype: u8t.clone(), fill: u8t.fills[0].clone(), shape: vec![32, 32], grid: vec![(true, vec![32]), (true, vec![32])], regular_impl: true,
                keys: ("default".into(), "/".into()), codecs_json: shard_json("2,2", "[{\"name\":\"bytes\"}]", idx_be, "start"),
                chain_desc: "shard[2x2;start;be;bytes]".into(), sharded: true, path: "/asm2".into(), eff_inner: Some(vec![2, 2]) }, 10, 100),
            // unbounded path (gzip inner codec), 128 inner chunks of 2 elements
            (Cfg { dtype: u8t.clone(), fill: u8t.fills[0].clone(), shape: vec![256], grid: vec![(true, vec![256])], regular_impl: true,
                keys: ("default".into(), "/".into()), codecs_json: shard_json("2", bytes_gzip, idx_crc, "end"),
                chain_desc: "shard[2;end;le+crc;bytes|gzip]".into(), sharded: true, path: "/asm3".into(), eff_inner: Some(vec![2]) }, 10, 100),
        ];
        for (vi, (cfg, nq, nt)) in variants.iter().enumerate() {
            out.push(cfg.cfg_line("c16", "memory", false, false, " ct=1"));
            out.push("c16 op set_ccm v=1".into());
            let n: u64 = cfg.shape.iter().product();
            let es = cfg.dtype.es.unwrap();
            let chunk0 = nl(&vec![0; cfg.shape.len()]);
            for round in 0..2u64 {
                // all elements distinct-ish and non-fill, except a few all-fill inner chunks (elided tasks)
                let salt = rng.below(200) + 1;
                let xs: Vec<Vec<u8>> = (0..n).map(|i| {
                    let blk = i / 8;
                    if blk % 11 == 3 + round { vec![0u8; es] } else { let v = (i * 7 + salt) % 65521 + 1; let mut e = v.to_le_bytes()[..es].to_vec(); if e.iter().all(|&b| b == 0) { e[0] = 1; } e }
                }).collect();
                let data = show_elems(&xs);
                for ct in [1u64, 2, 4, 16] {
                    out.push(format!("c16 op set_ct v={}", ct));
                    out.push(format!("c16 op store_chunk c={} data={}", chunk0, data));
                    out.push(format!("c16 op rawshard c={} grp=v{}r{}", chunk0, vi, round));
                }
                out.push("c16 op set_ct v=1".into());
                out.push(format!("c16 op retrieve_chunk c={}", chunk0));
                if round == 1 {
                    // stress: the same store + raw check repeated at target 16
                    out.push("c16 op set_ct v=16".into());
                    for _ in 0..(if thorough { *nt } else { *nq }) {
                        out.push(format!("c16 op store_chunk c={} data={}", chunk0, data));
                        out.push(format!("c16 op rawshard c={} grp=v{}r{}", chunk0, vi, round));
                    }
                    out.push("c16 op set_ct v=1".into());
                    out.push(format!("c16 op retrieve_chunk c={}", chunk0));
                }
            }
            out.push("c16 op set_ccm v=4".into());
        }
    }
    // (c0) a larger sharded array (64x64 uint16, four 32x32 shards of 2x2 inner chunks, gzip): enough internal rayon work for
    // a stolen sibling task to re-enter a thread-local cache whose lock is held across the fill closure
    {
        let dts = dtypes();
        let dt = dts.iter().find(|d| d.name == "uint16").unwrap().clone();
        let cfg = Cfg { dtype: dt.clone(), fill: dt.fills[0].clone(), shape: vec![64, 64], grid: vec![(true, vec![32]), (true, vec![32])], regular_impl: true,
            keys: ("default".into(), "/".into()),
            codecs_json: "[{\"name\":\"sharding_indexed\",\"configuration\":{\"chunk_shape\":[2,2],\"codecs\":[{\"name\":\"bytes\",\"configuration\":{\"endian\":\"little\"}},{\"name\":\"gzip\",\"configuration\":{\"level\":1}}],\"index_codecs\":[{\"name\":\"bytes\",\"configuration\":{\"endian\":\"little\"}},{\"name\":\"crc32c\"}],\"index_location\":\"end\"}}]".into(),
            chain_desc: "shard[2x2;end;bytes-little|gzip]".into(), sharded: true, path: "/big".into(), eff_inner: Some(vec![2, 2]) };
        out.push(cfg.cfg_line("c16", "memory", false, false, " ct=16"));
        out.push("c16 op set_ccm v=1".into());
        let xs: Vec<Vec<u8>> = (0..64u32 * 64).map(|i| vec![(i % 251) as u8, (i / 251) as u8]).collect();
        out.push(format!("c16 op store_array_subset r=0,0+64,64 data={}", show_elems(&xs)));
        for (j, kind) in ["DCT", "ECT", "DST", "EST", "DC"].iter().enumerate() {
            for _ in 0..(if thorough { 60 } else { 12 }) {
                // a fresh cache every time: every read misses and runs the fill closure under internal parallelism
                out.push(format!("c16 op cache_new cid=b{} kind={} cap={}", j, kind, if kind.contains('S') { 1 << 24 } else { 1 }));
                out.push(format!("c16 op tl_cached_subset cid=b{} r=0,0+64,64 pool={}", j, rng.pick(&[1usize, 2, 2, 3, 5])));
            }
        }
        out.push("c16 op set_ccm v=4".into());
    }
    // (c) thread-local caches under internal parallelism: sharded arrays with many chunks, whole-array cached reads
    let nc = if thorough { 200 } else { 30 };
    for _ in 0..nc {
        let mut cfg = gen_cfg(&mut rng, Some(true));
        while cfg.shape.len() < 2 || !cfg.grid.iter().all(|d| d.0) { cfg = gen_cfg(&mut rng, Some(true)); }
        out.push(cfg.cfg_line("c16", "memory", false, false, " ct=16"));
        out.push("c16 op set_ccm v=1".into());
        for _ in 0..3 { out.push(format!("c16 {}", gen_write_op(&mut rng, &cfg))); }
        for (j, kind) in ["DCT", "ECT", "DST", "EST"].iter().enumerate() {
            out.push(format!("c16 op cache_new cid=t{} kind={} cap={}", j, kind, if kind.contains('S') { 1 << 20 } else { 1000 }));
            let gs = cfg.grid_shape();
            for _ in 0..3 {
                out.push(format!("c16 op tl_cached_subset cid=t{} r={}+{}", j, nl(&vec![0; cfg.shape.len()]), nl(&cfg.shape)));
                out.push(format!("c16 op tl_cached_chunks cid=t{} box={}+{}", j, nl(&vec![0; gs.len()]), nl(&gs)));
            }
        }
        out.push("c16 op set_ccm v=4".into());
    }
    // (e) the shard-index cache under real parallelism (see `shardext_stress`)
    out.push(format!("c16 op shardext_stress n={} rows=32 cols=2048", if thorough { 400 } else { 60 }));
    out.push(format!("c16 op shardext_stress n={} rows=32 cols=64 pre=transpose", if thorough { 400 } else { 60 }));
    out.push(format!("c16 op shardext_steal n={}", if thorough { 300 } else { 40 }));
    // (h) shards laid out by the PARALLEL encoder (inner chunks in completion order), index at the end, then updated through the
    // partial-encoding write strategy by writes that only REMOVE inner chunks (fill written over whole inner chunks)
    {
        let mut rh = Rng::new(seed ^ 0xC16_48);
        let dts = dtypes();
        for _ in 0..(if thorough { 60 } else { 8 }) {
            let dt = dts.iter().find(|d| d.name == "uint16").unwrap().clone();
            let inner_codecs = if rh.chance(1, 2) { "{\"name\":\"bytes\",\"configuration\":{\"endian\":\"little\"}},{\"name\":\"gzip\",\"configuration\":{\"level\":1}}" } else { "{\"name\":\"bytes\",\"configuration\":{\"endian\":\"little\"}}" };
            let cfg = Cfg { dtype: dt.clone(), fill: dt.fills[0].clone(), shape: vec![4, 8], grid: vec![(true, vec![4]), (true, vec![8])], regular_impl: true, keys: ("default".into(), "/".into()),
                codecs_json: format!("[{{\"name\":\"sharding_indexed\",\"configuration\":{{\"chunk_shape\":[1,2],\"codecs\":[{}],\"index_codecs\":[{{\"name\":\"bytes\",\"configuration\":{{\"endian\":\"little\"}}}},{{\"name\":\"crc32c\"}}],\"index_location\":\"end\"}}}}]", inner_codecs),
                chain_desc: format!("shard[1x2;end;le+crc;bytes-little{}]", if inner_codecs.contains("gzip") { "|gzip" } else { "" }), sharded: true, path: "/par".into(), eff_inner: Some(vec![1, 2]) };
            out.push(cfg.cfg_line("c16", "memory", false, true, " ct=8"));
            for _round in 0..3 {
                let xs: Vec<Vec<u8>> = (0..32).map(|_| { let mut e = rh.bytes(2); if e == cfg.fill.1 { e[0] = 1; } e }).collect();
                out.push(format!("c16 op store_chunk c=0,0 data={}", show_elems(&xs)));
                // remove one to three inner chunks, one call each
                for _ in 0..rh.range(1, 3) {
                    let (r, c) = (rh.below(4), rh.below(4) * 2);
                    out.push(format!("c16 op store_array_subset r={},{}+1,2 data={}", r, c, show_elems(&vec![cfg.fill.1.clone(); 2])));
                    out.push("c16 op retrieve_chunk c=0,0".into());
                }
                out.push("c16 op retrieve_array_subset r=0,0+4,8".into());
            }
        }
    }
    // (g) client threads on chunks whose keys share a directory of a filesystem store (free-running; see stress.rs)
    out.push(format!("c16 fsrace rounds={}", if thorough { 3000 } else { 400 }));
    // (f) the concurrency split itself (`concurrency_chunks_and_codec`): stateless `c16 conc` lines, see c16c.rs
    out.extend(crate::c16c::generate(tier, seed));
    out
}
