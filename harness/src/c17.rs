//! C17: every byte of every returned buffer is written exactly once. Hook H4 records every view write
//! (allocation base, byte offset, length) and every publish site (base, length); per publish the recorded map is
//! handed to the driver which judges tiling (and equality with the model's predicted map on the plain multi-chunk path).
use crate::arr::*;
use crate::c06::{exec_op as c06_exec, C06State};
use crate::hooks;
use crate::util::*;
use std::collections::BTreeMap;

/// `wmaps=<len>@<off>:<len>,...;<len>@...` (publish order); `-` when nothing was published
fn maps(events: &[hooks::Event]) -> String {
    let mut pending: BTreeMap<u64, Vec<(u64, u64)>> = BTreeMap::new();
    let mut out: Vec<String> = vec![];
    for (name, a) in events {
        if name == "view.write" { pending.entry(a[0]).or_default().push((a[1], a[2])); }
        else if name == "view.discard" { pending.remove(&a[0]); }
        else if name == "view.publish" {
            let ws = pending.remove(&a[0]).unwrap_or_default();
            let body = if ws.is_empty() { "~".to_string() } else { ws.iter().map(|(o, l)| format!("{}:{}", o, l)).collect::<Vec<_>>().join(",") };
            out.push(format!("{}@{}", a[1], body));
        }
    }
    // writes never published: views on caller-provided buffers (update_array_bytes, partial encoders) - not outputs
    if out.is_empty() { "-".into() } else { out.join(";") }
}

/// `async_subset r=<region>`: the asynchronous multi-chunk read (its sharding partial decoder assembles the views on its own
/// code path) over a copy of the store's contents, with the same recording of view writes
#[cfg(feature = "zasync")]
fn async_subset(ctx: &ArrCtx, m: &BTreeMap<String, String>) -> String {
    use zarrs::storage::{store::MemoryStore, ListableStorageTraits, ReadableStorageTraits, WritableStorageTraits};
    let mem = std::sync::Arc::new(MemoryStore::new());
    for k in ctx.store.store.list().unwrap_or_default() { if let Ok(Some(v)) = ctx.store.store.get(&k) { let _ = mem.set(&k, v); } }
    let astore: zarrs::storage::AsyncReadableWritableListableStorage = std::sync::Arc::new(crate::c07::AsyncMem(mem));
    let rt = tokio::runtime::Builder::new_current_thread().enable_all().build().unwrap();
    let r = parse_subset(&m["r"]);
    let (path, es, o) = (ctx.path.clone(), ctx.es, ctx.opts.clone());
    hooks::start_recording(false);
    let out = guarded(|| rt.block_on(async {
        let a = match zarrs::array::Array::async_open(astore.clone(), &path).await { Ok(a) => a, Err(_) => return "err-open".to_string() };
        match a.async_retrieve_array_subset_opt(&r, &o).await { Ok(b) => format!("val {}", show_elems(&from_array_bytes(es, b))), Err(_) => "err".into() }
    }));
    let ev = hooks::stop_recording();
    format!("{} wmaps={}", out, maps(&ev))
}
#[cfg(not(feature = "zasync"))]
fn async_subset(_ctx: &ArrCtx, _m: &BTreeMap<String, String>) -> String { "skip".into() }

pub fn exec_op(ctx: &mut ArrCtx, st: &mut C06State, verb: &str, m: &BTreeMap<String, String>, dtype: &str) -> String {
    if verb == "async_subset" { return async_subset(ctx, m); }
    let is_read = verb.starts_with("retrieve") || verb.starts_with("cached") || verb.starts_with("sharded") || verb.starts_with("inner_chunk") || verb == "pd";
    if !is_read { return c06_exec(ctx, st, verb, m, dtype); }
    hooks::start_recording(false);
    let r = c06_exec(ctx, st, verb, m, dtype);
    let ev = hooks::stop_recording();
    format!("{} wmaps={}", r, maps(&ev))
}

pub fn generate(tier: &str, seed: u64) -> Vec<String> {
    let mut rng = Rng::new(seed ^ 0xC17);
    let thorough = tier == "thorough";
    let ncfg = if thorough { 3000 } else { 300 };
    let mut out = vec![];
    // long contiguous runs: a 4 x 1500 uint16 array, shards 2 x 1500, inner chunks 1 x 1500, every other row never written -
    // a missing inner chunk is filled as ONE run of 3000 bytes (block-wise fill strategies must not drop a remainder)
    {
        let dts = dtypes();
        let dt = dts.iter().find(|d| d.name == "uint16").unwrap().clone();
        for (w, inner_w) in [(1100u64, 1100u64), (1030, 515)] {
            let cfg = Cfg { dtype: dt.clone(), fill: ("1799".into(), vec![7, 7]), shape: vec![4, w], grid: vec![(true, vec![2]), (true, vec![w])], regular_impl: true,
                keys: ("default".into(), "/".into()),
                codecs_json: format!("[{{\"name\":\"sharding_indexed\",\"configuration\":{{\"chunk_shape\":[1,{}],\"codecs\":[{{\"name\":\"bytes\",\"configuration\":{{\"endian\":\"little\"}}}}],\"index_codecs\":[{{\"name\":\"bytes\",\"configuration\":{{\"endian\":\"little\"}}}},{{\"name\":\"crc32c\"}}],\"index_location\":\"end\"}}}}]", inner_w),
                chain_desc: format!("shard[1x{};end;le+crc;bytes-little]", inner_w), sharded: true, path: "/long".into(), eff_inner: Some(vec![1, inner_w]) };
            out.push(cfg.cfg_line("c17", "memory", false, false, " ct=4"));
            for row in [0u64, 2] {
                let xs: Vec<Vec<u8>> = (0..w).map(|i| vec![(i % 250) as u8 + 1, (row + 1) as u8]).collect();
                out.push(format!("c17 op store_array_subset r={},0+1,{} data={}", row, w, show_elems(&xs)));
            }
            out.push("c17 op shard_cache_new".into());
            out.push("c17 op retrieve_chunk c=0,0".into());
            out.push("c17 op retrieve_chunk c=1,0".into());
            out.push(format!("c17 op retrieve_array_subset r=0,0+4,{}", w));
            out.push(format!("c17 op sharded_subset r=0,0+4,{}", w));
        }
    }
    // sharding configurations whose inner chunk shape does NOT divide the shard shape although the element counts divide:
    // every operation must be an error or behave like a valid array (a buffer that is returned is fully written)
    {
        let dts = dtypes();
        let dt = dts.iter().find(|d| d.name == "uint8").unwrap().clone();
        for (shard, inner) in [([4u64, 6u64], [3u64, 4u64]), ([2, 6], [4, 3]), ([6, 4], [4, 2])] {
            let cfg = Cfg { dtype: dt.clone(), fill: ("9".into(), vec![9]), shape: vec![shard[0] * 2, shard[1]], grid: vec![(true, vec![shard[0]]), (true, vec![shard[1]])], regular_impl: true,
                keys: ("default".into(), "/".into()),
                codecs_json: format!("[{{\"name\":\"sharding_indexed\",\"configuration\":{{\"chunk_shape\":[{},{}],\"codecs\":[{{\"name\":\"bytes\"}}],\"index_codecs\":[{{\"name\":\"bytes\",\"configuration\":{{\"endian\":\"little\"}}}}],\"index_location\":\"end\"}}}}]", inner[0], inner[1]),
                chain_desc: format!("shard[{}x{};end;le;bytes]", inner[0], inner[1]), sharded: true, path: "/bad".into(), eff_inner: None };
            out.push(cfg.cfg_line("c17", "memory", false, false, " ct=4 invalid=1"));
            let n = cfg.shape.iter().product::<u64>();
            out.push(format!("c17 op store_array_subset r=0,0+{} data={}", nl(&cfg.shape), show_elems(&vec![vec![7u8]; n as usize])));
            out.push("c17 op retrieve_chunk c=0,0".into());
            out.push(format!("c17 op retrieve_array_subset r=0,0+{}", nl(&cfg.shape)));
            out.push(format!("c17 op retrieve_chunks box=0,0+2,1"));
        }
    }
    let mut k = 0;
    while k < ncfg {
        let cfg = gen_cfg(&mut rng, if k % 2 == 0 { Some(true) } else { None });
        if cfg.dtype.es.is_none() { continue; } // views exist for fixed-size data only
        k += 1;
        let ct = *rng.pick(&[1u64, 2, 4, 16]);
        out.push(cfg.cfg_line("c17", "memory", false, false, &format!(" ct={}", ct)));
        for _ in 0..rng.range(2, 8) { out.push(format!("c17 {}", gen_write_op(&mut rng, &cfg))); }
        out.push("c17 op cache_new cid=k0 kind=DC cap=1000".into());
        out.push("c17 op shard_cache_new".into());
        let gs = cfg.grid_shape();
        // whole array and all chunks always; then random multi-chunk regions
        out.push(format!("c17 op retrieve_array_subset r={}+{}", nl(&vec![0; cfg.shape.len()]), nl(&cfg.shape)));
        out.push(format!("c17 op retrieve_chunks box={}+{}", nl(&vec![0; gs.len()]), nl(&gs)));
        out.push(format!("c17 op cached_subset cid=k0 r={}+{}", nl(&vec![0; cfg.shape.len()]), nl(&cfg.shape)));
        out.push(format!("c17 op sharded_subset r={}+{}", nl(&vec![0; cfg.shape.len()]), nl(&cfg.shape)));
        // the sharded extension reads whole inner chunks: at a ragged edge the region it assembles reaches beyond the
        // array shape (the buffer it publishes is larger than the array part) and must still be tiled
        if let (true, Some(e)) = (cfg.sharded, cfg.eff_inner.clone()) {
            let igs: Vec<u64> = cfg.shape.iter().zip(&e).map(|(&a, &c)| (a + c - 1) / c).collect();
            out.push(format!("c17 op inner_chunks ibox={}+{} ishape={}", nl(&vec![0; igs.len()]), nl(&igs), nl(&e)));
            out.push(format!("c17 op inner_chunk ic={} ishape={}", nl(&igs.iter().map(|&g| g.max(1) - 1).collect::<Vec<_>>()), nl(&e)));
            for _ in 0..3 {
                let mut s = vec![]; let mut n = vec![];
                for &g in &igs { let st = rng.below(g.max(1)); s.push(st); n.push(rng.range(1, g.max(1) - st)); }
                // biased to the far edge
                if rng.chance(1, 2) { for d in 0..s.len() { n[d] = igs[d].max(1) - s[d]; } }
                out.push(format!("c17 op inner_chunks ibox={}+{} ishape={}", nl(&s), nl(&n), nl(&e)));
            }
        }
        // (own stream) regions that reach beyond the array shape but stay inside the chunks of the grid ("out-of-bounds
        // elements will have the fill value"): every byte of the larger buffer must still be written exactly once, on the
        // plain, the cached and the sharded-extension path
        if !cfg.shape.is_empty() {
            let mut ro = Rng::new(seed ^ 0xC17_0B ^ (k as u64) << 12);
            // the extent the chunks of the grid cover; a dimension with a list of chunk sizes ends with the array: there the
            // region reaches up to two elements BEYOND the grid (the read is then an error, or - if it succeeds - must still
            // write every byte of what it returns)
            let ext: Vec<u64> = gs.iter().zip(&cfg.grid).zip(&cfg.shape).map(|((&g, d), &sh)| if d.0 { g * d.1[0] } else { sh + 2 }).collect();
            if ext.iter().zip(&cfg.shape).any(|(a, b)| a > b) {
                for _ in 0..3 {
                    let mut s = vec![]; let mut n = vec![];
                    for (&e, &sh) in ext.iter().zip(&cfg.shape) { let st = ro.below(sh.max(1)); s.push(st); n.push(if ro.chance(2, 3) { e - st } else { ro.range(1, e - st) }); }
                    let verb = *ro.pick(&["retrieve_array_subset", "cached_subset cid=k0", "cached_subset cid=k0", "sharded_subset"]);
                    out.push(format!("c17 op {} r={}+{}", verb, nl(&s), nl(&n)));
                }
            }
        }
        for _ in 0..(if thorough { 12 } else { 6 }) {
            let mut s = vec![]; let mut n = vec![];
            for &e in &cfg.shape { let st = rng.below(e); s.push(st); n.push(rng.range(1, e - st)); }
            let chunk: Vec<u64> = gs.iter().map(|&g| rng.below(g.max(1))).collect();
            // the chain's partial decoder asked for two regions of one chunk (the sharding partial decoder publishes one
            // buffer per region, nested ones one per stored inner chunk met)
            if rng.chance(1, 4) {
                let (_co, cshape) = cfg.chunk_origin_shape(&chunk);
                let mut regs = vec![];
                for _ in 0..2 {
                    let mut s2 = vec![]; let mut n2 = vec![];
                    for &e in &cshape { let st = rng.below(e); s2.push(st); n2.push(rng.range(1, e - st)); }
                    regs.push(format!("{}+{}", nl(&s2), nl(&n2)));
                }
                out.push(format!("c17 op pd c={} rs={}", nl(&chunk), regs.join("|")));
            }
            // (own stream) the same region through the asynchronous read
            if (k + s.len()) % 3 == 0 { out.push(format!("c17 op async_subset r={}+{}", nl(&s), nl(&n))); }
            match rng.below(6) {
                0 | 1 | 2 => out.push(format!("c17 op retrieve_array_subset r={}+{}", nl(&s), nl(&n))),
                3 => out.push(format!("c17 op cached_subset cid=k0 r={}+{}", nl(&s), nl(&n))),
                4 => out.push(format!("c17 op sharded_subset r={}+{}", nl(&s), nl(&n))),
                _ => out.push(format!("c17 op retrieve_chunk c={}", nl(&chunk))),
            }
        }
    }
    out
}
