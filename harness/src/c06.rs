//! C06: all read paths agree on an unchanged store: plain routes, typed/ndarray forms, partial decoder,
//! sharded-extension routes with their shard-index cache, and 8 chunk-cache flavours at several capacities.
use crate::arr::*;
use crate::util::*;
use std::collections::BTreeMap;
use zarrs::array::{
    ArrayBytes, ArrayChunkCacheExt, ArrayShardedExt, ArrayShardedReadableExt, ArrayShardedReadableExtCache,
    ChunkCacheDecodedLruChunkLimit, ChunkCacheDecodedLruChunkLimitThreadLocal, ChunkCacheDecodedLruSizeLimit,
    ChunkCacheDecodedLruSizeLimitThreadLocal, ChunkCacheEncodedLruChunkLimit, ChunkCacheEncodedLruChunkLimitThreadLocal,
    ChunkCacheEncodedLruSizeLimit, ChunkCacheEncodedLruSizeLimitThreadLocal,
};

pub enum AnyCache {
    DC(ChunkCacheDecodedLruChunkLimit),
    DS(ChunkCacheDecodedLruSizeLimit),
    EC(ChunkCacheEncodedLruChunkLimit),
    ES(ChunkCacheEncodedLruSizeLimit),
    DCT(ChunkCacheDecodedLruChunkLimitThreadLocal),
    DST(ChunkCacheDecodedLruSizeLimitThreadLocal),
    ECT(ChunkCacheEncodedLruChunkLimitThreadLocal),
    EST(ChunkCacheEncodedLruSizeLimitThreadLocal),
}
pub fn new_cache(kind: &str, cap: u64) -> AnyCache {
    match kind {
        "DC" => AnyCache::DC(ChunkCacheDecodedLruChunkLimit::new(cap)),
        "DS" => AnyCache::DS(ChunkCacheDecodedLruSizeLimit::new(cap)),
        "EC" => AnyCache::EC(ChunkCacheEncodedLruChunkLimit::new(cap)),
        "ES" => AnyCache::ES(ChunkCacheEncodedLruSizeLimit::new(cap)),
        "DCT" => AnyCache::DCT(ChunkCacheDecodedLruChunkLimitThreadLocal::new(cap)),
        "DST" => AnyCache::DST(ChunkCacheDecodedLruSizeLimitThreadLocal::new(cap)),
        "ECT" => AnyCache::ECT(ChunkCacheEncodedLruChunkLimitThreadLocal::new(cap)),
        _ => AnyCache::EST(ChunkCacheEncodedLruSizeLimitThreadLocal::new(cap)),
    }
}
macro_rules! with_cache {
    ($c:expr, $x:ident, $body:expr) => {
        match $c {
            AnyCache::DC($x) => $body, AnyCache::DS($x) => $body, AnyCache::EC($x) => $body, AnyCache::ES($x) => $body,
            AnyCache::DCT($x) => $body, AnyCache::DST($x) => $body, AnyCache::ECT($x) => $body, AnyCache::EST($x) => $body,
        }
    };
}

#[derive(Default)]
pub struct C06State {
    pub caches: BTreeMap<String, AnyCache>,
    pub shard_cache: Option<ArrayShardedReadableExtCache>,
}

fn val<E>(es: Option<usize>, r: Result<ArrayBytes<'_>, E>) -> String {
    match r { Ok(b) => format!("val {}", show_elems(&from_array_bytes(es, b))), Err(_) => "err".into() }
}

macro_rules! typed_read {
    ($a:expr, $dt:expr, $es:expr, $call:ident, $($arg:expr),*) => {{
        macro_rules! go { ($t:ty, $conv:expr) => {{ match $a.$call::<$t>($($arg),*) { Ok(v) => { let xs: Vec<Vec<u8>> = v.into_iter().map($conv).collect(); format!("val {}", show_elems(&xs)) } Err(_) => "err".to_string() } }}; }
        match $dt {
            "uint8" => go!(u8, |x: u8| vec![x]),
            "int16" => go!(i16, |x: i16| x.to_ne_bytes().to_vec()),
            "uint16" => go!(u16, |x: u16| x.to_ne_bytes().to_vec()),
            "int32" => go!(i32, |x: i32| x.to_ne_bytes().to_vec()),
            "uint64" => go!(u64, |x: u64| x.to_ne_bytes().to_vec()),
            "float32" => go!(f32, |x: f32| x.to_ne_bytes().to_vec()),
            "float64" => go!(f64, |x: f64| x.to_ne_bytes().to_vec()),
            "string" => go!(String, |x: String| x.into_bytes()),
            _ => "untyped".to_string(),
        }
    }};
}

pub fn exec_op(ctx: &mut ArrCtx, st: &mut C06State, verb: &str, m: &BTreeMap<String, String>, dtype: &str) -> String {
    let es = ctx.es;
    let a = ctx.array.clone();
    let o = ctx.opts.clone();
    guarded(|| match verb {
        "cache_new" => { st.caches.insert(m["cid"].clone(), new_cache(&m["kind"], m["cap"].parse().unwrap())); "ok".into() }
        "shard_cache_new" => { st.shard_cache = Some(ArrayShardedReadableExtCache::new(&*a)); "ok".into() }
        "pd" => {
            let rs: Vec<_> = m["rs"].split('|').map(parse_subset).collect();
            match a.partial_decoder_opt(&pnl(&m["c"]), &o) {
                Ok(pd) => match pd.partial_decode(&rs, &o) {
                    Ok(parts) => format!("val {}", parts.into_iter().map(|b| show_elems(&from_array_bytes(es, b))).collect::<Vec<_>>().join("|")),
                    Err(_) => "err".into(),
                },
                Err(_) => "err".into(),
            }
        }
        "typed_chunk" => typed_read!(a, dtype, es, retrieve_chunk_elements_opt, &pnl(&m["c"]), &o),
        "typed_subset" => typed_read!(a, dtype, es, retrieve_array_subset_elements_opt, &parse_subset(&m["r"]), &o),
        "typed_chunk_subset" => typed_read!(a, dtype, es, retrieve_chunk_subset_elements_opt, &pnl(&m["c"]), &parse_subset(&m["r"]), &o),
        "typed_chunks" => typed_read!(a, dtype, es, retrieve_chunks_elements_opt, &parse_subset(&m["box"]), &o),
        "nd_subset" => {
            macro_rules! nd { ($t:ty, $conv:expr) => {{ match a.retrieve_array_subset_ndarray_opt::<$t>(&parse_subset(&m["r"]), &o) {
                Ok(arr) => { let shape_ok = arr.shape().iter().map(|&x| x as u64).collect::<Vec<_>>() == parse_subset(&m["r"]).shape().to_vec();
                    let xs: Vec<Vec<u8>> = arr.iter().cloned().map($conv).collect(); format!("val {}{}", show_elems(&xs), if shape_ok { "" } else { " badshape" }) }
                Err(_) => "err".to_string() } }}; }
            match dtype {
                "uint8" => nd!(u8, |x: u8| vec![x]),
                "int32" => nd!(i32, |x: i32| x.to_ne_bytes().to_vec()),
                "uint16" => nd!(u16, |x: u16| x.to_ne_bytes().to_vec()),
                "float64" => nd!(f64, |x: f64| x.to_ne_bytes().to_vec()),
                "uint64" => nd!(u64, |x: u64| x.to_ne_bytes().to_vec()),
                "string" => nd!(String, |x: String| x.into_bytes()),
                _ => "untyped".to_string(),
            }
        }
        // ndarray / typed element forms of the sharded extension: same elements AND the shape of the region they stand for
        "nd_inner_chunk" | "nd_inner_chunks" | "nd_sharded_subset" => {
            let sc = st.shard_cache.as_ref().unwrap();
            let ish = m.get("ishape").map(|s| pnl(s)).unwrap_or_default();
            let want: Vec<u64> = match verb {
                "nd_inner_chunk" => ish.clone(),
                "nd_inner_chunks" => parse_subset(&m["ibox"]).shape().iter().zip(&ish).map(|(a, b)| a * b).collect(),
                _ => parse_subset(&m["r"]).shape().to_vec(),
            };
            macro_rules! nd { ($t:ty, $conv:expr) => {{
                let r = match verb {
                    "nd_inner_chunk" => a.retrieve_inner_chunk_ndarray_opt::<$t>(sc, &pnl(&m["ic"]), &o),
                    "nd_inner_chunks" => a.retrieve_inner_chunks_ndarray_opt::<$t>(sc, &parse_subset(&m["ibox"]), &o),
                    _ => a.retrieve_array_subset_ndarray_sharded_opt::<$t>(sc, &parse_subset(&m["r"]), &o),
                };
                match r {
                    // (an empty region has no elements to misplace: its ndarray may have any empty shape)
                    Ok(arr) => { let shape_ok = arr.shape().iter().map(|&x| x as u64).collect::<Vec<_>>() == want || (want.contains(&0) && arr.is_empty());
                        let xs: Vec<Vec<u8>> = arr.iter().cloned().map($conv).collect(); format!("val {}{}", show_elems(&xs), if shape_ok { "" } else { " badshape" }) }
                    Err(_) => "err".to_string() } }}; }
            match dtype {
                "uint8" => nd!(u8, |x: u8| vec![x]),
                "int32" => nd!(i32, |x: i32| x.to_ne_bytes().to_vec()),
                "uint16" => nd!(u16, |x: u16| x.to_ne_bytes().to_vec()),
                "float64" => nd!(f64, |x: f64| x.to_ne_bytes().to_vec()),
                "uint64" => nd!(u64, |x: u64| x.to_ne_bytes().to_vec()),
                "string" => nd!(String, |x: String| x.into_bytes()),
                _ => "untyped".to_string(),
            }
        }
        "typed_inner_chunk" => { let sc = st.shard_cache.as_ref().unwrap(); typed_read!(a, dtype, es, retrieve_inner_chunk_elements_opt, sc, &pnl(&m["ic"]), &o) }
        "typed_inner_chunks" => { let sc = st.shard_cache.as_ref().unwrap(); typed_read!(a, dtype, es, retrieve_inner_chunks_elements_opt, sc, &parse_subset(&m["ibox"]), &o) }
        "typed_sharded_subset" => { let sc = st.shard_cache.as_ref().unwrap(); typed_read!(a, dtype, es, retrieve_array_subset_elements_sharded_opt, sc, &parse_subset(&m["r"]), &o) }
        "cached_chunk" => { let c = &st.caches[&m["cid"]]; with_cache!(c, x, match a.retrieve_chunk_opt_cached(x, &pnl(&m["c"]), &o) { Ok(b) => format!("val {}", show_elems(&from_array_bytes(es, (*b).clone()))), Err(_) => "err".into() }) }
        "cached_chunks" => { let c = &st.caches[&m["cid"]]; with_cache!(c, x, val(es, a.retrieve_chunks_opt_cached(x, &parse_subset(&m["box"]), &o))) }
        "cached_chunk_subset" => { let c = &st.caches[&m["cid"]]; with_cache!(c, x, val(es, a.retrieve_chunk_subset_opt_cached(x, &pnl(&m["c"]), &parse_subset(&m["r"]), &o))) }
        "cached_subset" => { let c = &st.caches[&m["cid"]]; with_cache!(c, x, val(es, a.retrieve_array_subset_opt_cached(x, &parse_subset(&m["r"]), &o))) }
        "inner_chunk" => { let sc = st.shard_cache.as_ref().unwrap(); val(es, a.retrieve_inner_chunk_opt(sc, &pnl(&m["ic"]), &o)) }
        "inner_chunks" => { let sc = st.shard_cache.as_ref().unwrap(); val(es, a.retrieve_inner_chunks_opt(sc, &parse_subset(&m["ibox"]), &o)) }
        "sharded_subset" => { let sc = st.shard_cache.as_ref().unwrap(); val(es, a.retrieve_array_subset_sharded_opt(sc, &parse_subset(&m["r"]), &o)) }
        "inner_shape" => {
            format!("val sharded={} eff={} grid={}", a.is_sharded(),
                a.effective_inner_chunk_shape().map(|s| nl(&s.iter().map(|x| x.get()).collect::<Vec<_>>())).unwrap_or("none".into()),
                a.inner_chunk_grid_shape().map(|s| nl(&s)).unwrap_or("none".into()))
        }
        _ => exec_op_base(ctx, verb, m),
    })
}
fn exec_op_base(ctx: &mut ArrCtx, verb: &str, m: &BTreeMap<String, String>) -> String { crate::arr::exec_op(ctx, verb, m) }

fn rand_region(rng: &mut Rng, ext: &[u64]) -> (Vec<u64>, Vec<u64>) {
    let mut s = vec![]; let mut n = vec![];
    for &e in ext {
        if e == 0 { s.push(0); n.push(0); continue; }
        let st = rng.below(e);
        let len = if rng.chance(1, 14) { 0 } else { rng.range(1, e - st) };
        s.push(st); n.push(len);
    }
    (s, n)
}

pub fn generate(tier: &str, seed: u64) -> Vec<String> {
    let mut rng = Rng::new(seed);
    let thorough = tier == "thorough";
    let ncfg = if thorough { 3000 } else { 260 };
    let mut out = vec![];
    let kinds = ["DC", "DS", "EC", "ES", "DCT", "DST", "ECT", "EST"];
    for k in 0..ncfg {
        let mut cfg = gen_cfg(&mut rng, if k % 2 == 0 { Some(true) } else { None });
        if k % 8 == 7 {
            // the configuration the inner-chunk grid derivation is most sensitive to: rank >= 3, two transposes before an outermost shard
            for _ in 0..400 {
                if cfg.shape.len() >= 3 && cfg.eff_inner.is_some() && cfg.chain_desc.matches("transpose").count() >= 2 && cfg.chain_desc.find("shard").map(|p| cfg.chain_desc[..p].matches("transpose").count() >= 2).unwrap_or(false) { break; }
                cfg = gen_cfg(&mut rng, Some(true));
            }
        }
        out.push(cfg.cfg_line("c06", "memory", rng.chance(1, 4), false, ""));
        // a history, then only reads
        for _ in 0..rng.range(2, 10) { out.push(format!("c06 {}", gen_write_op(&mut rng, &cfg))); }
        out.push("c06 op keys".into());
        // caches: 2-3 flavours x capacities {0,1,2,large}; size-limited ones get byte capacities
        let mut cids = vec![];
        for j in 0..rng.range(2, 3) {
            let kind = *rng.pick(&kinds);
            let cap = if kind.contains('S') { *rng.pick(&[0u64, 1, 16, 64, 1 << 20]) } else { *rng.pick(&[0u64, 1, 2, 1000]) };
            out.push(format!("c06 op cache_new cid=k{} kind={} cap={}", j, kind, cap));
            cids.push(format!("k{}", j));
        }
        out.push("c06 op shard_cache_new".into());
        out.push(format!("c06 op inner_shape sh={} eff={}", cfg.sharded as u8, cfg.eff_inner.as_ref().map(|e| nl(e)).unwrap_or("none".into())));
        let gs = cfg.grid_shape();
        let nreads = if thorough { rng.range(10, 60) } else { rng.range(8, 24) };
        let mut recent: Vec<String> = vec![];
        for _ in 0..nreads {
            // repeats exercise cache hits
            if !recent.is_empty() && rng.chance(1, 4) { out.push(rng.pick(&recent).clone()); continue; }
            let chunk: Vec<u64> = gs.iter().map(|&g| rng.below(g.max(1))).collect();
            let (_co, cshape) = cfg.chunk_origin_shape(&chunk);
            let (rs, rn) = rand_region(&mut rng, &cfg.shape);
            let (cs_, cn) = rand_region(&mut rng, &cshape);
            let (bs, bn) = rand_region(&mut rng, &gs);
            let cid = rng.pick(&cids).clone();
            let line = match rng.below(20) {
                0 => format!("c06 op retrieve_chunk c={}", nl(&chunk)),
                1 => format!("c06 op retrieve_chunk_if_exists c={}", nl(&chunk)),
                2 => format!("c06 op retrieve_chunks box={}+{}", nl(&bs), nl(&bn)),
                3 => format!("c06 op retrieve_chunk_subset c={} r={}+{}", nl(&chunk), nl(&cs_), nl(&cn)),
                4 => format!("c06 op retrieve_array_subset r={}+{}", nl(&rs), nl(&rn)),
                5 => {
                    let (s2, n2) = rand_region(&mut rng, &cshape);
                    format!("c06 op pd c={} rs={}+{}|{}+{}", nl(&chunk), nl(&cs_), nl(&cn), nl(&s2), nl(&n2))
                }
                6 => format!("c06 op typed_chunk c={}", nl(&chunk)),
                7 => format!("c06 op typed_subset r={}+{}", nl(&rs), nl(&rn)),
                8 => format!("c06 op typed_chunk_subset c={} r={}+{}", nl(&chunk), nl(&cs_), nl(&cn)),
                9 => format!("c06 op nd_subset r={}+{}", nl(&rs), nl(&rn)),
                10 => format!("c06 op typed_chunks box={}+{}", nl(&bs), nl(&bn)),
                11 | 12 => format!("c06 op cached_chunk cid={} c={}", cid, nl(&chunk)),
                13 => format!("c06 op cached_chunks cid={} box={}+{}", cid, nl(&bs), nl(&bn)),
                14 => format!("c06 op cached_chunk_subset cid={} c={} r={}+{}", cid, nl(&chunk), nl(&cs_), nl(&cn)),
                15 | 16 => format!("c06 op cached_subset cid={} r={}+{}", cid, nl(&rs), nl(&rn)),
                17 => format!("c06 op sharded_subset r={}+{}", nl(&rs), nl(&rn)),
                _ => {
                    // inner chunks: grid of effective inner chunk shape (or the chunk grid when not sharded / not invertible)
                    match &cfg.eff_inner {
                        Some(e) if cfg.sharded => {
                            let igs: Vec<u64> = cfg.shape.iter().zip(e).map(|(&a, &c)| (a + c - 1) / c).collect();
                            let form = *rng.pick(&["", "", "nd_", "typed_"]);
                            if rng.chance(1, 2) {
                                let ic: Vec<u64> = igs.iter().map(|&g| rng.below(g.max(1))).collect();
                                format!("c06 op {}inner_chunk ic={} ishape={}", form, nl(&ic), nl(e))
                            } else {
                                let (is, inn) = rand_region(&mut rng, &igs);
                                format!("c06 op {}inner_chunks ibox={}+{} ishape={}", form, nl(&is), nl(&inn), nl(e))
                            }
                        }
                        _ => format!("c06 op {}sharded_subset r={}+{}", *rng.pick(&["", "", "nd_", "typed_"]), nl(&rs), nl(&rn)),
                    }
                }
            };
            recent.push(line.clone());
            out.push(line);
        }
    }
    out
}
