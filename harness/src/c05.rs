//! C05: partial encoding is equivalent to rewriting the whole chunk. Histories of subset writes with
//! `experimental_partial_encoding` on; every read and the raw stored value of every touched chunk are handed to the
//! driver (model of the full-rewrite semantics + independent parser of the shard layout).
use crate::arr::*;
use crate::util::*;

/// A fixed family aimed at values that get SHORTER and are then written again: one 4x4 chunk (one shard) of small inner
/// chunks, index at either end, with or without a bytes-to-bytes codec after the sharding codec (whose default partial
/// encoder rewrites the value at offset 0) and inside it; histories: everything written, trailing rows := fill, one
/// element at the front, the leading rows := fill, one element at the back, with the raw value and a whole read after each.
fn shrink_family(rng: &mut Rng, thorough: bool, out: &mut Vec<String>) {
    let dts = dtypes();
    for dname in ["uint8", "uint16", "int32"] {
        let dt = dts.iter().find(|d| d.name == dname).unwrap().clone();
        let es = dt.es.unwrap();
        for inner in [[1u64, 1], [1, 2], [2, 2], [1, 4]] {
            for loc in ["start", "end"] {
                for (oj, od) in [("", ""), (",{\"name\":\"crc32c\"}", "|crc32c"), (",{\"name\":\"numcodecs.fletcher32\"}", "|fletcher32"), (",{\"name\":\"gzip\",\"configuration\":{\"level\":1}}", "|gzip")] {
                    if !thorough && rng.chance(1, 2) { continue; }
                    let isum = rng.chance(1, 2);
                    let endian = if es > 1 { ",\"configuration\":{\"endian\":\"little\"}" } else { "" };
                    let ic = format!("[{{\"name\":\"bytes\"{}}}{}]", endian, if isum { ",{\"name\":\"crc32c\"}" } else { "" });
                    let json = format!("[{{\"name\":\"sharding_indexed\",\"configuration\":{{\"chunk_shape\":[{},{}],\"codecs\":{},\"index_codecs\":[{{\"name\":\"bytes\",\"configuration\":{{\"endian\":\"little\"}}}},{{\"name\":\"crc32c\"}}],\"index_location\":\"{}\"}}}}{}]", inner[0], inner[1], ic, loc, oj);
                    let cfg = Cfg { dtype: dt.clone(), fill: dt.fills[0].clone(), shape: vec![4, 4], grid: vec![(true, vec![4]), (true, vec![4])], regular_impl: true,
                        keys: ("default".into(), "/".into()), codecs_json: json,
                        chain_desc: format!("shard[{}x{};{};le+crc;bytes{}]{}", inner[0], inner[1], loc, if isum { "|crc32c" } else { "" }, od),
                        sharded: true, path: "/s".into(), eff_inner: Some(inner.to_vec()) };
                    out.push(cfg.cfg_line("c05", "memory", false, true, ""));
                    let nonfill = |rng: &mut Rng, n: u64| { let xs: Vec<Vec<u8>> = (0..n).map(|_| { let mut e = rng.bytes(es); if e == cfg.fill.1 { e[0] ^= 0x55; } e }).collect(); show_elems(&xs) };
                    let fillv = |n: u64| show_elems(&vec![cfg.fill.1.clone(); n as usize]);
                    let both = |out: &mut Vec<String>| { out.push("c05 op raw c=0,0".into()); out.push("c05 op retrieve_chunk c=0,0".into()); };
                    out.push(format!("c05 op store_chunk c=0,0 data={}", nonfill(rng, 16)));
                    both(out);
                    let h = rng.range(1, 3);
                    out.push(format!("c05 op store_chunk_subset c=0,0 r={},0+{},4 data={}", h, 4 - h, fillv((4 - h) * 4)));
                    both(out);
                    out.push(format!("c05 op store_chunk_subset c=0,0 r=0,0+1,1 data={}", nonfill(rng, 1)));
                    both(out);
                    out.push(format!("c05 op store_chunk_subset c=0,0 r=0,0+{},4 data={}", h, fillv(h * 4)));
                    both(out);
                    out.push(format!("c05 op store_chunk_subset c=0,0 r=3,3+1,1 data={}", nonfill(rng, 1)));
                    both(out);
                    out.push(format!("c05 op store_chunk_subset c=0,0 r=0,1+2,2 data={}", nonfill(rng, 4)));
                    both(out);
                    out.push(format!("c05 op store_chunk_subset c=0,0 r=0,0+4,4 data={}", fillv(16)));
                    both(out);
                    out.push(format!("c05 op store_chunk_subset c=0,0 r=1,1+1,2 data={}", nonfill(rng, 2)));
                    both(out);
                    out.push("c05 op reopen".into());
                    out.push("c05 op retrieve_array_subset r=0,0+4,4".into());
                }
            }
        }
    }
}

/// A value-mapping array->array codec (lossless fixedscaleoffset, offset 1): the ENCODED fill value differs from the fill
/// value. Histories that make a chunk consist entirely of the value whose encoding is the fill value (`fill + 1`) and of
/// the encoded fill value itself (`fill - 1`): neither chunk is "all fill"; both must be stored and read back.
pub fn value_mapping_family(rng: &mut Rng, out: &mut Vec<String>, prop: &str) {
    let dts = dtypes();
    let dt = dts.iter().find(|d| d.name == "int32").unwrap().clone();
    for fi in 0..dt.fills.len() {
        for tail in ["{\"name\":\"bytes\",\"configuration\":{\"endian\":\"little\"}}", "{\"name\":\"bytes\",\"configuration\":{\"endian\":\"big\"}},{\"name\":\"crc32c\"}", "{\"name\":\"transpose\",\"configuration\":{\"order\":[1,0]}},{\"name\":\"bytes\",\"configuration\":{\"endian\":\"little\"}},{\"name\":\"gzip\",\"configuration\":{\"level\":1}}"] {
            let json = format!("[{{\"name\":\"numcodecs.fixedscaleoffset\",\"configuration\":{{\"offset\":1,\"scale\":1,\"dtype\":\"<i4\",\"astype\":\"<i4\"}}}},{}]", tail);
            let cfg = Cfg { dtype: dt.clone(), fill: dt.fills[fi].clone(), shape: vec![4, 2], grid: vec![(true, vec![2]), (true, vec![2])], regular_impl: true,
                keys: ("default".into(), "/".into()), codecs_json: json, chain_desc: "fso1|bytes".into(), sharded: false, path: "/v".into(), eff_inner: None };
            let f = i32::from_le_bytes(cfg.fill.1.clone().try_into().unwrap());
            for special in [f.wrapping_sub(1), f.wrapping_add(1)] {
                out.push(cfg.cfg_line(prop, "memory", false, true, ""));
                let v = special.to_le_bytes().to_vec();
                let row = show_elems(&vec![v.clone(); 2]);
                for c in ["0,0", "1,0"] {
                    out.push(format!("{} op store_chunk_subset c={} r=0,0+1,2 data={}", prop, c, row));
                    out.push(format!("{} op store_chunk_subset c={} r=1,0+1,2 data={}", prop, c, row));
                    out.push(format!("{} op retrieve_chunk c={}", prop, c));
                    if prop == "c05" { out.push(format!("{} op raw c={}", prop, c)); }
                    if rng.chance(1, 2) { out.push(format!("{} op store_chunk_subset c={} r=0,1+2,1 data={}", prop, c, show_elems(&vec![cfg.fill.1.clone(); 2]))); out.push(format!("{} op retrieve_chunk c={}", prop, c)); }
                }
                out.push(format!("{} op keys", prop));
                out.push(format!("{} op reopen", prop));
                out.push(format!("{} op retrieve_array_subset r=0,0+4,2", prop));
            }
        }
    }
}

pub fn generate(tier: &str, seed: u64) -> Vec<String> {
    let mut rng = Rng::new(seed ^ 0xC05);
    let thorough = tier == "thorough";
    let ncfg = if thorough { 5000 } else { 450 };
    let mut out = vec![];
    shrink_family(&mut rng, thorough, &mut out);
    value_mapping_family(&mut rng, &mut out, "c05");
    let mut k = 0;
    while k < ncfg {
        let cfg = gen_cfg(&mut rng, if k % 3 != 2 { Some(true) } else { Some(false) });
        if cfg.shape.is_empty() { continue; }
        k += 1;
        // every sixth case on a filesystem store: its `set_partial_values` is the generic read-modify-write of zarrs_storage
        // (the memory store has its own), which the sharding partial encoder drives with several writes per key
        out.push(cfg.cfg_line("c05", if k % 6 == 5 { "fs" } else { "memory" }, rng.chance(1, 5), true, ""));
        // sometimes start from existing values written without partial encoding semantics (whole chunks)
        let gs = cfg.grid_shape();
        if rng.chance(1, 2) {
            for _ in 0..rng.range(1, 3) {
                let c: Vec<u64> = gs.iter().map(|&g| rng.below(g.max(1))).collect();
                let cs = cfg.chunk_origin_shape(&c).1;
                out.push(format!("c05 op store_chunk c={} data={}", nl(&c), gen_data(&mut rng, &cfg, cs.iter().product())));
            }
        }
        // shrink-then-regrow on one chunk (the encoding gets shorter, then a later write lands in what used to be its
        // tail): whole chunk, trailing half := fill, a small write at the front, the leading half := fill, a write at the back
        if rng.chance(1, 3) {
            let c: Vec<u64> = gs.iter().map(|&g| rng.below(g.max(1))).collect();
            let cs = cfg.chunk_origin_shape(&c).1;
            if !cs.is_empty() && cs[0] >= 2 {
                let fillv = |n: u64| show_elems(&vec![cfg.fill.1.clone(); n as usize]);
                let nonfill = |rng: &mut Rng, n: u64| { let xs: Vec<Vec<u8>> = (0..n).map(|_| { let mut e = gen_elem(rng, &cfg); if e == cfg.fill.1 { if let Some(b) = e.first_mut() { if cfg.dtype.name == "bool" { *b ^= 1 } else { *b ^= 0x55 } } else { e.push(b'q') } } e }).collect(); show_elems(&xs) };
                let tail: u64 = cs.iter().skip(1).product();
                let h = cs[0] / 2;
                let zero = vec![0u64; cs.len()];
                let mut half0 = cs.clone(); half0[0] = h;
                let mut half1 = cs.clone(); half1[0] = cs[0] - h;
                let mut s1 = zero.clone(); s1[0] = h;
                let one: Vec<u64> = vec![1; cs.len()];
                let mut last: Vec<u64> = cs.iter().map(|&x| x - 1).collect(); if rng.chance(1, 2) { last = s1.clone(); }
                out.push(format!("c05 op store_chunk c={} data={}", nl(&c), nonfill(&mut rng, cs.iter().product())));
                out.push(format!("c05 op store_chunk_subset c={} r={}+{} data={}", nl(&c), nl(&s1), nl(&half1), fillv((cs[0] - h) * tail)));
                out.push(format!("c05 op raw c={}", nl(&c)));
                out.push(format!("c05 op store_chunk_subset c={} r={}+{} data={}", nl(&c), nl(&zero), nl(&one), nonfill(&mut rng, 1)));
                out.push(format!("c05 op raw c={}", nl(&c)));
                out.push(format!("c05 op retrieve_chunk c={}", nl(&c)));
                out.push(format!("c05 op store_chunk_subset c={} r={}+{} data={}", nl(&c), nl(&zero), nl(&half0), fillv(h * tail)));
                out.push(format!("c05 op store_chunk_subset c={} r={}+{} data={}", nl(&c), nl(&last), nl(&one), nonfill(&mut rng, 1)));
                out.push(format!("c05 op raw c={}", nl(&c)));
                out.push(format!("c05 op retrieve_chunk c={}", nl(&c)));
            }
        }
        // with a value-mapping array->array codec: the value whose ENCODING is the fill value, and the encoded fill value
        let special: Option<Vec<Vec<u8>>> = if cfg.chain_desc.contains("fso1") && cfg.dtype.name == "int32" {
            let f = i32::from_le_bytes(cfg.fill.1.clone().try_into().unwrap());
            Some(vec![f.wrapping_sub(1).to_le_bytes().to_vec(), f.wrapping_add(1).to_le_bytes().to_vec()])
        } else { None };
        let nops = if thorough { rng.range(1, 12) } else { rng.range(1, 8) };
        for _ in 0..nops {
            // subset writes only: growing, shrinking (to fill / to small constants), overlapping
            let chunk: Vec<u64> = gs.iter().map(|&g| rng.below(g.max(1))).collect();
            let cshape = cfg.chunk_origin_shape(&chunk).1;
            let to_fill = rng.chance(1, 4);
            let constant = rng.chance(1, 4);
            let mk_data = |rng: &mut Rng, n: u64| -> String {
                if to_fill { show_elems(&vec![cfg.fill.1.clone(); n as usize]) }
                else if constant { let e = match &special { Some(sp) if rng.chance(2, 3) => rng.pick(sp).clone(), _ => gen_elem(rng, &cfg) }; show_elems(&vec![e; n as usize]) }
                else { gen_data(rng, &cfg, n) }
            };
            if rng.chance(1, 2) {
                let mut s = vec![]; let mut n = vec![];
                for &e in &cshape { let st = rng.below(e); s.push(st); n.push(rng.range(1, e - st)); }
                let d = mk_data(&mut rng, n.iter().product());
                out.push(format!("c05 op store_chunk_subset c={} r={}+{} data={}", nl(&chunk), nl(&s), nl(&n), d));
                out.push(format!("c05 op raw c={}", nl(&chunk)));
            } else {
                let mut s = vec![]; let mut n = vec![];
                for &e in &cfg.shape { let st = rng.below(e); s.push(st); n.push(rng.range(1, e - st)); }
                let d = mk_data(&mut rng, n.iter().product());
                out.push(format!("c05 op store_array_subset r={}+{} data={}", nl(&s), nl(&n), d));
            }
            if rng.chance(1, 2) { out.push(format!("c05 {}", gen_read_op(&mut rng, &cfg))); }
        }
        // raw values of all chunks, then reads through a fresh handle
        let nchunks: u64 = gs.iter().product();
        if nchunks <= 12 {
            let mut idx: Vec<Vec<u64>> = vec![vec![]];
            for &g in &gs { let mut nxt = vec![]; for p in &idx { for e in 0..g { let mut q = p.clone(); q.push(e); nxt.push(q); } } idx = nxt; }
            for c in idx { out.push(format!("c05 op raw c={}", nl(&c))); }
        }
        out.push("c05 op reopen".into());
        gen_full_reads(&mut rng, &cfg, &mut out, "c05");
    }
    // histories of partial encodes on (nested) sharded chains, judged by `ChainS.partialEncode`: see c05c.rs
    out.extend(crate::c05c::generate(tier, seed));
    out
}
