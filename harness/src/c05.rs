//! C05: partial encoding is equivalent to rewriting the whole chunk. Histories of subset writes with
//! `experimental_partial_encoding` on; every read and the raw stored value of every touched chunk are handed to the
//! driver (model of the full-rewrite semantics + independent parser of the shard layout).
use crate::arr::*;
use crate::util::*;

pub fn generate(tier: &str, seed: u64) -> Vec<String> {
    let mut rng = Rng::new(seed ^ 0xC05);
    let thorough = tier == "thorough";
    let ncfg = if thorough { 5000 } else { 450 };
    let mut out = vec![];
    let mut k = 0;
    while k < ncfg {
        let cfg = gen_cfg(&mut rng, if k % 3 != 2 { Some(true) } else { Some(false) });
        if cfg.shape.is_empty() { continue; }
        k += 1;
        out.push(cfg.cfg_line("c05", "memory", rng.chance(1, 5), true, ""));
        // sometimes start from existing values written without partial encoding semantics (whole chunks)
        let gs = cfg.grid_shape();
        if rng.chance(1, 2) {
            for _ in 0..rng.range(1, 3) {
                let c: Vec<u64> = gs.iter().map(|&g| rng.below(g.max(1))).collect();
                let cs = cfg.chunk_origin_shape(&c).1;
                out.push(format!("c05 op store_chunk c={} data={}", nl(&c), gen_data(&mut rng, &cfg, cs.iter().product())));
            }
        }
        let nops = if thorough { rng.range(1, 12) } else { rng.range(1, 8) };
        for _ in 0..nops {
            // subset writes only: growing, shrinking (to fill / to small constants), overlapping
            let chunk: Vec<u64> = gs.iter().map(|&g| rng.below(g.max(1))).collect();
            let cshape = cfg.chunk_origin_shape(&chunk).1;
            let to_fill = rng.chance(1, 4);
            let constant = rng.chance(1, 4);
            let mk_data = |rng: &mut Rng, n: u64| -> String {
                if to_fill { show_elems(&vec![cfg.fill.1.clone(); n as usize]) }
                else if constant { let e = gen_elem(rng, &cfg); show_elems(&vec![e; n as usize]) }
                else { gen_data(rng, &cfg, n) }
            };
            if rng.chance(1, 2) {
                let mut s = vec![]; let mut n = vec![];
                for &e in &cshape { let st = rng.below(e); s.push(st); n.push(rng.range(1, e - st)); }
                let d = mk_data(&mut rng, n.iter().product());
                out.push(format!("c05 op store_chunk_subset c={} r={}+{} data={}", nl(&chunk), nl(&s), nl(&n), d));
                out.push(format!("c05 op raw c={}", nl(&chunk)));
            } else {
                let mut s = vec![]; let mut n = vec![];
                for &e in &cfg.shape { let st = rng.below(e); s.push(st); n.push(rng.range(1, e - st)); }
                let d = mk_data(&mut rng, n.iter().product());
                out.push(format!("c05 op store_array_subset r={}+{} data={}", nl(&s), nl(&n), d));
            }
            if rng.chance(1, 2) { out.push(format!("c05 {}", gen_read_op(&mut rng, &cfg))); }
        }
        // raw values of all chunks, then reads through a fresh handle
        let nchunks: u64 = gs.iter().product();
        if nchunks <= 12 {
            let mut idx: Vec<Vec<u64>> = vec![vec![]];
            for &g in &gs { let mut nxt = vec![]; for p in &idx { for e in 0..g { let mut q = p.clone(); q.push(e); nxt.push(q); } } idx = nxt; }
            for c in idx { out.push(format!("c05 op raw c={}", nl(&c))); }
        }
        out.push("c05 op reopen".into());
        gen_full_reads(&mut rng, &cfg, &mut out, "c05");
    }
    out
}
